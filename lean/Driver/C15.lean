import KitModel.Go.Prelude
import KitModel.TTLCache
/-! Driver for property C15: `kitdrv C15` reads op lines on stdin, one answer line per input line.

Sequential protocol (exact differential against the real cache under a fake clock):
  `new max=<int> t0=<int ns>`   → `ok`
  `set k=<key> v=<nat> ttl=<int>` → `ok` | `panic`
  `get k=<key>`  → `hit v=<nat>` | `miss`
  `del k=<key>` | `cleanup` | `reset` | `adv d=<nat ns>` → `ok`
  `dump` → `n=<len> e=<k>:<v>:<sec>.<nsec>;…` (sorted by key; expiry as Unix seconds, nanoseconds)
-/
namespace Driver.C15
open Kit Kit.TTLCache

def insertSorted (p : Key × Entry) : List (Key × Entry) → List (Key × Entry)
  | [] => [p]
  | q :: qs => if p.1 < q.1 then p :: q :: qs else q :: insertSorted p qs

def sortByKey (m : List (Key × Entry)) : List (Key × Entry) :=
  m.foldl (fun acc p => insertSorted p acc) []

def showTime (t : Int) : String := s!"{t / 1000000000}.{t % 1000000000}"

def showDump (c : Cache) : String :=
  let live := (mkeys c.m).eraseDups.filterMap (fun k => (mget c.m k).map (fun e => (k, e)))
  let es := (sortByKey live).map (fun (k, e) => s!"{k}:{e.val}:{showTime e.exp}")
  s!"n={live.length} e={";".intercalate es}"

def showOut : Out → String
  | .done => "ok"
  | .hit v => s!"hit v={v}"
  | .miss => "miss"
  | .panic => "panic"

def parseOp (l : Line) : Option Op :=
  match l.op with
  | "set" => do
      let k ← l.get? "k"; let v ← l.nat? "v"; let ttl ← l.int? "ttl"
      pure (.set k v ttl)
  | "get" => do let k ← l.get? "k"; pure (.get k)
  | "del" => do let k ← l.get? "k"; pure (.delete k)
  | "cleanup" => some .cleanup
  | "reset" => some .reset
  | "adv" => do let d ← l.nat? "d"; pure (.advance d)
  | _ => none

def seqStep (c : Cache) (s : String) : Cache × String :=
  let l := parseLine s
  match l.op with
  | "new" =>
    match l.int? "max", l.int? "t0" with
    | some mx, some t0 => (Cache.init mx t0, "ok")
    | _, _ => (c, "error")
  | "dump" => (c, showDump c)
  | _ =>
    match parseOp l with
    | some op => let (c', o) := step c op; (c', showOut o)
    | none => (c, "error")

/-! Scheduled-interleaving protocol (concurrent LTS `cstep`; every answer is produced by running
labels through `crun`, a line whose labels are not enabled answers `error`):
  `cnew max= t0= iv=<ns>` → `ok`
  `set` / `get` / `del` / `dump` as above;  `adv d=` → `ok tick=sent|drop|none`
  `cbegin id=<n> kind=cleanup|reset` → `snap keys=a,b`   (cBegin, then the coarse snapshot)
  `cfinish id=<n>` → `ok`                                  (coarse bulk delete, cEnd)
  `bgsnap` → `snap keys=…` (periodic goroutine takes the pending tick and snapshots); `bgfinish` → `ok`
  `stop` → `ok` (stopCall, bgExit, stopReturn)
  `stopcall id=<n>` → `returned` | `blocked` (a concurrent Stop caller); `stopwait id=<n>` → `ok`
  `sbegin id= k= v= ttl=` → `ok` (a Set parked after its clock read); `send id= k= v= ttl=` → `ok` (its store)
  `gbegin id= k=` → `ok` (a Get parked after its map read); `gend id= k=` → `hit v=` | `miss` (its clock read)
-/

def sortStrings (xs : List String) : List String :=
  xs.foldl (fun acc x =>
    let rec ins : List String → List String
      | [] => [x]
      | y :: ys => if x < y then x :: y :: ys else y :: ins ys
    ins acc) []

def cdump (s : CState) : String :=
  showDump { m := s.m.map (fun p => (p.1, p.2.1)), now := s.now, maxTTL := s.maxTTL }

def parseReq (l : Line) : Option Req :=
  match l.op with
  | "set" => do let k ← l.get? "k"; let v ← l.nat? "v"; let ttl ← l.int? "ttl"; pure (.set k v ttl)
  | "get" => do let k ← l.get? "k"; pure (.get k)
  | "del" => do let k ← l.get? "k"; pure (.del k)
  | "adv" => do let d ← l.nat? "d"; pure (.adv d)
  | "sbegin" => do
      let id ← l.nat? "id"; let k ← l.get? "k"; let v ← l.nat? "v"; let ttl ← l.int? "ttl"
      pure (.sbegin id k v ttl)
  | "send" => do
      let id ← l.nat? "id"; let k ← l.get? "k"; let v ← l.nat? "v"; let ttl ← l.int? "ttl"
      pure (.send id k v ttl)
  | "gbegin" => do let id ← l.nat? "id"; let k ← l.get? "k"; pure (.gbegin id k)
  | "gend" => do let id ← l.nat? "id"; let k ← l.get? "k"; pure (.gend id k)
  | "cbegin" => do
      let id ← l.nat? "id"; let kind ← l.get? "kind"
      if kind == "cleanup" then pure (.cbegin id false)
      else if kind == "reset" then pure (.cbegin id true) else none
  | "cfinish" => do let id ← l.nat? "id"; pure (.cfinish id)
  | "bgstart" => some .bgstart
  | "bgsnap" => some .bgsnap
  | "bgfinish" => some .bgfinish
  | "stop" => some .stop
  | "stopcall" => do let id ← l.nat? "id"; pure (.stopcall id)
  | "stopwait" => do let id ← l.nat? "id"; pure (.stopwait id)
  | _ => none

def showResp : Resp → String
  | .ok => "ok"
  | .panic => "panic"
  | .hit v => s!"hit v={v}"
  | .miss => "miss"
  | .ticked .sent => "ok tick=sent"
  | .ticked .drop => "ok tick=drop"
  | .ticked .none => "ok tick=none"
  | .snap ks => s!"snap keys={",".intercalate (sortStrings ks).eraseDups}"
  | .returned => "returned"
  | .blocked => "blocked"
  | .error => "error"

/-- One script line: `dump` observes the state; everything else is `KitModel.TTLCache.respond`. -/
def concStep (s : CState) (l : Line) : CState × String :=
  if l.op == "dump" then (s, cdump s) else
  match parseReq l with
  | some r => let a := respond s r; (a.state, showResp a.resp)
  | none => (s, "error")

inductive DState where
  | seq (c : Cache)
  | conc (s : CState)

def drvStep (st : DState) (line : String) : DState × String :=
  let l := parseLine line
  match l.op with
  | "new" =>
    match l.int? "max", l.int? "t0" with
    | some mx, some t0 => (.seq (Cache.init mx t0), "ok")
    | _, _ => (st, "error")
  | "cnew" =>
    match l.int? "max", l.int? "t0", l.int? "iv" with
    | some mx, some t0, some iv =>
      -- `cnew`: NewCache and the periodic goroutine has been scheduled (ticker created)
      (.conc (respond (CState.init mx t0 iv) .bgstart).state, "ok")
    | _, _, _ => (st, "error")
  | "cnewraw" =>
    -- NewCache only: the periodic goroutine is spawned but has not run yet (`bgstart` follows, or `stop`)
    match l.int? "max", l.int? "t0", l.int? "iv" with
    | some mx, some t0, some iv => (.conc (CState.init mx t0 iv), "ok")
    | _, _, _ => (st, "error")
  | _ =>
    match st with
    | .seq c => let (c', o) := seqStep c line; (.seq c', o)
    | .conc s => let (s', o) := concStep s l; (.conc s', o)

def main (_args : List String) : IO UInt32 := do
  lineLoop drvStep (.seq (Cache.init 0 0))
  return 0
end Driver.C15
