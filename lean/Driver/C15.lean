import KitModel.Go.Prelude
/-! Driver for property C15: `kitdrv C15` reads op lines on stdin, one answer line per input line. -/
namespace Driver.C15
def main (_args : List String) : IO UInt32 := do
  IO.eprintln "kitdrv: C15 has no model driver yet"
  return 2
end Driver.C15
