import KitModel.Go.Prelude
import KitModel.TTLCache
/-! Driver for property C15: `kitdrv C15` reads op lines on stdin, one answer line per input line.

Sequential protocol (exact differential against the real cache under a fake clock):
  `new max=<int> t0=<int ns>`   → `ok`
  `set k=<key> v=<nat> ttl=<int>` → `ok` | `panic`
  `get k=<key>`  → `hit v=<nat>` | `miss`
  `del k=<key>` | `cleanup` | `reset` | `adv d=<nat ns>` → `ok`
  `dump` → `n=<len> e=<k>:<v>:<sec>.<nsec>;…` (sorted by key; expiry as Unix seconds, nanoseconds)
-/
namespace Driver.C15
open Kit Kit.TTLCache

def insertSorted (p : Key × Entry) : List (Key × Entry) → List (Key × Entry)
  | [] => [p]
  | q :: qs => if p.1 < q.1 then p :: q :: qs else q :: insertSorted p qs

def sortByKey (m : List (Key × Entry)) : List (Key × Entry) :=
  m.foldl (fun acc p => insertSorted p acc) []

def showTime (t : Int) : String := s!"{t / 1000000000}.{t % 1000000000}"

def showDump (c : Cache) : String :=
  let live := (mkeys c.m).eraseDups.filterMap (fun k => (mget c.m k).map (fun e => (k, e)))
  let es := (sortByKey live).map (fun (k, e) => s!"{k}:{e.val}:{showTime e.exp}")
  s!"n={live.length} e={";".intercalate es}"

def showOut : Out → String
  | .done => "ok"
  | .hit v => s!"hit v={v}"
  | .miss => "miss"
  | .panic => "panic"

def parseOp (l : Line) : Option Op :=
  match l.op with
  | "set" => do
      let k ← l.get? "k"; let v ← l.nat? "v"; let ttl ← l.int? "ttl"
      pure (.set k v ttl)
  | "get" => do let k ← l.get? "k"; pure (.get k)
  | "del" => do let k ← l.get? "k"; pure (.delete k)
  | "cleanup" => some .cleanup
  | "reset" => some .reset
  | "adv" => do let d ← l.nat? "d"; pure (.advance d)
  | _ => none

def seqStep (c : Cache) (s : String) : Cache × String :=
  let l := parseLine s
  match l.op with
  | "new" =>
    match l.int? "max", l.int? "t0" with
    | some mx, some t0 => (Cache.init mx t0, "ok")
    | _, _ => (c, "error")
  | "dump" => (c, showDump c)
  | _ =>
    match parseOp l with
    | some op => let (c', o) := step c op; (c', showOut o)
    | none => (c, "error")

/-! Scheduled-interleaving protocol (concurrent LTS `cstep`; every answer is produced by running
labels through `crun`, a line whose labels are not enabled answers `error`):
  `cnew max= t0= iv=<ns>` → `ok`
  `set` / `get` / `del` / `dump` as above;  `adv d=` → `ok tick=sent|drop|none`
  `cbegin id=<n> kind=cleanup|reset` → `snap keys=a,b`   (cBegin, then the coarse snapshot)
  `cfinish id=<n>` → `ok`                                  (coarse bulk delete, cEnd)
  `bgsnap` → `snap keys=…` (periodic goroutine takes the pending tick and snapshots); `bgfinish` → `ok`
  `stop` → `ok` (stopCall, bgExit, stopReturn)
  `stopcall id=<n>` → `returned` | `blocked` (a concurrent Stop caller); `stopwait id=<n>` → `ok`
-/

def sortStrings (xs : List String) : List String :=
  xs.foldl (fun acc x =>
    let rec ins : List String → List String
      | [] => [x]
      | y :: ys => if x < y then x :: y :: ys else y :: ins ys
    ins acc) []

def showSnap (s : CState) (id : Nat) : String :=
  match findCl s.cls id with
  | some c => s!"snap keys={",".intercalate (sortStrings (c.keys.map (·.1)).eraseDups)}"
  | none => "error"

def cdump (s : CState) : String :=
  showDump { m := s.m.map (fun p => (p.1, p.2.1)), now := s.now, maxTTL := s.maxTTL }

def runLabels (s : CState) (ls : List Label) (ok : CState → String) : CState × String :=
  match crun s ls with
  | some s' => (s', ok s')
  | none => (s, "error")

def concStep (s : CState) (l : Line) : CState × String :=
  match l.op with
  | "set" =>
    match l.get? "k", l.nat? "v", l.int? "ttl" with
    | some k, some v, some ttl =>
      if ttl ≤ 0 then (s, "panic") else runLabels s [.set k v ttl] (fun _ => "ok")
    | _, _, _ => (s, "error")
  | "get" =>
    match l.get? "k" with
    | some k =>
      let r := getOfC s k
      runLabels s [.get k r] (fun _ => match r with | some v => s!"hit v={v}" | none => "miss")
    | none => (s, "error")
  | "del" =>
    match l.get? "k" with
    | some k => runLabels s [.delete k] (fun _ => "ok")
    | none => (s, "error")
  | "adv" =>
    match l.nat? "d" with
    | some d =>
      let due := !s.tickerStopped && decide (s.nextTick ≤ s.now + d) && decide (0 < s.period)
      let t := if due then (if s.tickPending then "drop" else "sent") else "none"
      runLabels s [.advance d] (fun _ => s!"ok tick={t}")
    | none => (s, "error")
  | "cbegin" =>
    match l.nat? "id", l.get? "kind" with
    | some id, some kind =>
      if kind != "cleanup" && kind != "reset" then (s, "error") else
      match cstep s (.cBegin id (kind == "reset")) with
      | some s1 => match crun s1 (snapLabels s1 id) with
        | some s2 => (s2, showSnap s2 id)
        | none => (s, "error")
      | none => (s, "error")
    | _, _ => (s, "error")
  | "cfinish" =>
    match l.nat? "id" with
    | some id => if id = 0 then (s, "error") else runLabels s (bulkLabels s id) (fun _ => "ok")
    | none => (s, "error")
  | "bgsnap" =>
    match cstep s .bgTake with
    | some s1 => match crun s1 (snapLabels s1 0) with
      | some s2 => (s2, showSnap s2 0)
      | none => (s, "error")
    | none => (s, "error")
  | "bgfinish" => runLabels s (bulkLabels s 0) (fun _ => "ok")
  | "stop" =>
    -- a Stop call that is expected to return at once (caller id 0 of the script)
    let exitL : List Label := if s.bg = .idle then [.bgExit] else []
    runLabels s ([.stopCall 0] ++ exitL ++ [.stopReturn 0]) (fun _ => "ok")
  | "stopcall" =>
    -- a concurrent Stop caller: `returned` iff, after the internal steps that are enabled
    -- (the idle periodic goroutine seeing stopCh closed), its `stopReturn` is enabled
    match l.nat? "id" with
    | some id =>
      match cstep s (.stopCall id) with
      | some s1 =>
        let s2 := match cstep s1 .bgExit with | some x => x | none => s1
        match cstep s2 (.stopReturn id) with
        | some s3 => (s3, "returned")
        | none => (s2, "blocked")
      | none => (s, "error")
    | none => (s, "error")
  | "stopwait" =>
    match l.nat? "id" with
    | some id =>
      let s1 := match cstep s .bgExit with | some x => x | none => s
      match cstep s1 (.stopReturn id) with
      | some s2 => (s2, "ok")
      | none => (s, "error")
    | none => (s, "error")
  | "dump" => (s, cdump s)
  | _ => (s, "error")

inductive DState where
  | seq (c : Cache)
  | conc (s : CState)

def drvStep (st : DState) (line : String) : DState × String :=
  let l := parseLine line
  match l.op with
  | "new" =>
    match l.int? "max", l.int? "t0" with
    | some mx, some t0 => (.seq (Cache.init mx t0), "ok")
    | _, _ => (st, "error")
  | "cnew" =>
    match l.int? "max", l.int? "t0", l.int? "iv" with
    | some mx, some t0, some iv => (.conc (CState.init mx t0 iv), "ok")
    | _, _, _ => (st, "error")
  | _ =>
    match st with
    | .seq c => let (c', o) := seqStep c line; (.seq c', o)
    | .conc s => let (s', o) := concStep s l; (.conc s', o)

def main (_args : List String) : IO UInt32 := do
  lineLoop drvStep (.seq (Cache.init 0 0))
  return 0
end Driver.C15
