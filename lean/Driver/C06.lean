import KitModel.Go.Prelude
import KitModel.Processor
/-!
Driver for property C06: trace inclusion.  `kitdrv C06` reads one observed event per line and keeps
the set of states of the LTS `Kit.Processor.lts` that are compatible with the events so far, closed
under the unobservable internal steps; it answers `ok <n>` (n = size of the set) or `REJECT …` when
no state of the model can perform the event (then `dead` until the next `reset`).

Observable events (the harness raises the first five under `p.lock`, so their order is exact):
`enq`, `deq`, `peeked`, `popped`, `stale`, `exec` (callback start, with the clock value), `ret`,
`adv`, `closecall` (the CAS of Close), `closeret`, `park`/`unpark` (a goroutine held at a hook
point: the program counter of the model must agree, and while the loop goroutine is held the
closure does not move it), `quiet` (the implementation is quiescent: some compatible model state
must have no enabled internal step).
-/
namespace Driver.C06
open Kit Kit.Queue Kit.Processor

abbrev St := State Int Unit
abbrev Lb := Label Int Unit

structure D where
  cfg : Cfg := ⟨true⟩
  states : List St := []
  frozen : Bool := false
  dead : Bool := true
  heap : Heap.H Int Unit := #[]

/-- Unobservable labels (everything internal that the harness does not log). -/
def hiddenLabels (frozen : Bool) : List Lb :=
  [.closeStopCh, .closeTake] ++
  (if frozen then [] else
    [.pollStop, .pollReset, .pollNone, .decide, .timerFire, .recvReset, .recvStop, .release])

def dedup (xs : List St) : List St :=
  xs.foldl (fun acc x => if acc.contains x then acc else acc ++ [x]) []

def strip (s : St) : St := { s with log := [] }

def closureFuel (cfg : Cfg) (frozen : Bool) : Nat → List St → List St → List St
  | 0, seen, _ => seen
  | fuel + 1, seen, frontier =>
    let next := frontier.flatMap fun s => (hiddenLabels frozen).filterMap fun l => (step cfg s l).map strip
    let fresh := (dedup next).filter (fun s => !seen.contains s)
    if fresh.isEmpty then seen else closureFuel cfg frozen fuel (seen ++ fresh) fresh

def closure (cfg : Cfg) (frozen : Bool) (ss : List St) : List St :=
  let ss := dedup (ss.map strip)
  closureFuel cfg frozen 64 ss ss

def pcName : Pc Int Unit → String
  | .absent => "absent" | .top => "top" | .peeked r => s!"peeked({r.id})" | .polled r => s!"polled({r.id})"
  | .armed r => s!"armed({r.id})" | .firing r => s!"firing({r.id})" | .popped r => s!"popped({r.id})"
  | .running r => s!"running({r.id})" | .exiting => "exiting"

def tokName : Token → String
  | .free => "free" | .loop => "loop" | .close => "close"

def cpcName : ClosePc → String
  | .idle => "idle" | .casDone => "casDone" | .chClosed => "chClosed" | .tokenTaken => "tokenTaken" | .returned => "returned"

def showSt (s : St) : String :=
  let q := ",".intercalate (s.q.map fun r => s!"{r.id}:k{r.key}@{r.time}")
  s!"[q={q} tok={tokName s.token} reset={s.reset} stopped={s.stopped} stopClosed={s.stopClosed} pc={pcName s.pc} cpc={cpcName s.cpc} now={s.now} next={s.nextId}]"

def showSet (ss : List St) : String := " ".intercalate ((ss.take 6).map showSt)

def byId (s : St) (id : Nat) : Option (Item Int Unit) := s.q.find? (fun r => r.id == id)

def outOf (tok : Token) (reset called first : Bool) : String :=
  if !called then "none"
  else match tok with
    | .free => "spawn"
    | _ => if first && !reset then "reset" else "none"

/-- Successors of one state under one observable event; `none` = malformed line. -/
def onEvent (cfg : Cfg) (l : Line) (s : St) : Option (List St) :=
  match l.op with
  | "enq" => do
    let k ← l.int? "key"; let t ← l.int? "at"; let id ← l.nat? "id"; let f ← l.nat? "first"; let out ← l.get? "out"
    let first := f == 1
    if s.nextId != id then return []
    if outOf s.token s.reset true first != out then return []
    return (step cfg s (.enqueue k t () first)).toList
  | "deq" => do
    let k ← l.int? "key"; let f ← l.nat? "first"; let out ← l.get? "out"
    let first := f == 1
    if outOf s.token s.reset first true != out then return []
    return (step cfg s (.dequeue k first)).toList
  | "adv" => do
    let t ← l.int? "to"
    return (step cfg s (.advance t)).toList
  | "peeked" =>
    match l.nat? "id" with
    | some id => some ((byId s id).toList.flatMap fun r => (step cfg s (.peek (some r))).toList)
    | none => some (step cfg s (.peek none)).toList
  | "popped" => do
    let id ← l.nat? "id"
    match s.pc with
    | .firing r => if r.id == id then return (step cfg s (.execCheck (some r))).toList else return []
    | _ => return []
  | "stale" => do
    let id ← l.nat? "id"
    match s.pc with
    | .firing r =>
      if r.id != id then return [] else
      let cands : List (Option (Item Int Unit)) := none :: s.q.map some
      return (cands.filter (· != some r)).flatMap fun hd => (step cfg s (.execCheck hd)).toList
    | _ => return []
  | "exec" => do
    let id ← l.nat? "id"; let k ← l.int? "key"; let t ← l.int? "at"; let n ← l.int? "now"
    match s.pc with
    | .popped r =>
      if r.id == id && r.key == k && r.time == t && s.now == n then return (step cfg s .cbStart).toList else return []
    | _ => return []
  | "ret" => do
    let id ← l.nat? "id"
    match s.pc with
    | .running r => if r.id == id then return (step cfg s .cbReturn).toList else return []
    | _ => return []
  | "closecall" => some (step cfg s .closeBegin).toList
  | "closeret" => some (step cfg s .closeReturn).toList
  | "closeret2" => some (step cfg s .closeAgain).toList
  | "quiet" => some (if (taus cfg s).isEmpty then [s] else [])
  | "unpark" => some [s]
  | "park" => do
    let p ← l.get? "p"
    if !(parkPoints.contains p || p == "cb") then none else
    let idOk (r : Item Int Unit) : Bool := l.nat? "id" == some r.id
    let isNone := l.get? "none" == some "1"
    let keep : Bool :=
      match p, s.pc with
      | "loop.peeked", .peeked r => idOk r
      | "loop.peeked", .absent => isNone && cfg.fixed
      | "loop.peeked", .exiting => isNone && !cfg.fixed
      | "loop.sawEmpty", .absent => cfg.fixed
      | "loop.sawEmpty", .exiting => !cfg.fixed
      | "loop.beforeArm", .polled r => idOk r
      | "loop.parked", .armed r => idOk r
      | "loop.fired", .firing r => idOk r
      | "loop.reset", .top => true
      | "loop.exit", .exiting => true
      | "execute.popped", .popped r => idOk r
      | "cb", .running r => idOk r
      | "process.resetSent", _ => true
      | "process.tokenTaken", _ => true
      | "enqueue.afterStoppedCheck", _ => true
      | "close.afterCAS", _ => true
      | _, _ => false
    return if keep then [s] else []
  | _ => none

/-- Does this park hold the goroutine that the model still regards as the loop? -/
def freezes (cfg : Cfg) (l : Line) : Bool :=
  match l.get? "p" with
  | some "loop.sawEmpty" => !cfg.fixed
  | some "process.resetSent" => false
  | some "process.tokenTaken" => false
  | some "enqueue.afterStoppedCheck" => false
  | some "close.afterCAS" => false
  | some "loop.peeked" => l.get? "none" != some "1" || !cfg.fixed
  | some _ => true
  | none => false

def dumpHeap (h : Heap.H Int Unit) : String :=
  "arr=" ++ ",".intercalate (h.toList.map fun e => s!"{e.value.id}:{e.index}")

def showOpt (o : Option (Item Int Unit)) : String :=
  match o with
  | some r => toString r.id
  | none => "none"

/-- Operations on the heap layer of `KitModel/Queue.lean` (differential test against queue.go). -/
def handleHeap (d : D) (l : Line) : D × String :=
  match l.op with
  | "h.reset" => ({ d with heap := #[] }, "ok")
  | "h.ins" =>
    match l.int? "key", l.int? "at", l.nat? "id" with
    | some k, some t, some id =>
      let h := Heap.insert d.heap ⟨k, t, (), id⟩
      ({ d with heap := h }, dumpHeap h)
    | _, _, _ => (d, "REJECT malformed")
  | "h.pop" =>
    let r := Heap.pop d.heap
    ({ d with heap := r.2 }, s!"pop={showOpt r.1} {dumpHeap r.2}")
  | "h.peek" => (d, s!"peek={showOpt (Heap.peek d.heap)} {dumpHeap d.heap}")
  | "h.rm" =>
    match l.int? "key" with
    | some k =>
      let h := Heap.remove d.heap k
      ({ d with heap := h }, dumpHeap h)
    | none => (d, "REJECT malformed")
  | _ => (d, "REJECT unknown heap op")

def handle (d : D) (raw : String) : D × String :=
  let l := parseLine raw
  if l.op.startsWith "h." then handleHeap d l else
  if l.op == "reset" then
    let cfg : Cfg := ⟨l.nat? "fixed" != some 0⟩
    let ss := closure cfg false [init]
    ({ d with cfg := cfg, states := ss, frozen := false, dead := false }, s!"ok {ss.length}")
  else if d.dead then (d, "dead")
  else
    let rs := d.states.map (onEvent d.cfg l)
    if rs.any Option.isNone then
      ({ d with dead := true }, s!"REJECT malformed line: {raw.trimAscii.toString}")
    else
      let frozen := if l.op == "park" then freezes d.cfg l else if l.op == "unpark" then false else d.frozen
      let next := closure d.cfg frozen (rs.flatMap fun r => r.getD [])
      if next.isEmpty then
        ({ d with dead := true, states := [] },
         s!"REJECT no model state accepts `{raw.trimAscii.toString}`; states before: {showSet d.states}")
      else
        ({ d with states := next, frozen := frozen }, s!"ok {next.length}")

def main (_args : List String) : IO UInt32 := do
  Kit.lineLoop handle ({} : D)
  return 0

end Driver.C06
