import KitModel.Go.Prelude
import KitModel.Processor
import KitModel.ProcessorAccept
/-!
Driver for property C06: trace inclusion.  `kitdrv C06` reads one observed event per line and keeps
the set of states of the LTS `Kit.Processor.lts` that are compatible with the events so far, closed
under the unobservable internal steps; it answers `ok <n>` (n = size of the set) or `REJECT …` when
no state of the model can perform the event (then `dead` until the next `reset`).

Observable events (the harness raises the first five under `p.lock`, so their order is exact):
`enq`, `deq`, `peeked`, `popped`, `stale`, `exec` (callback start, with the clock value), `ret`,
`adv`, `closecall` (the CAS of Close), `closeret`, `park`/`unpark` (a goroutine held at a hook
point: the program counter of the model must agree, and while the loop goroutine is held the
closure does not move it), `quiet` (the implementation is quiescent: some compatible model state
must have no enabled internal step).
-/
namespace Driver.C06
open Kit Kit.Queue Kit.Processor

abbrev St := State Int Unit
abbrev Lb := Label Int Unit

structure D where
  cfg : Cfg := ⟨true⟩
  sim : Sim Int Unit := { states := [], frozen := false }
  dead : Bool := true
  heap : Heap.H Int Unit := #[]

def pcName : Pc Int Unit → String
  | .absent => "absent" | .top => "top" | .peeked r => s!"peeked({r.id})" | .polled r => s!"polled({r.id})"
  | .arming r => s!"arming({r.id})" | .armed r => s!"armed({r.id})" | .firing r => s!"firing({r.id})" | .popped r => s!"popped({r.id})"
  | .running r => s!"running({r.id})" | .exiting => "exiting"

def tokName : Token → String
  | .free => "free" | .loop => "loop" | .close => "close"

def cpcName : ClosePc → String
  | .idle => "idle" | .casDone => "casDone" | .chClosed => "chClosed" | .tokenTaken => "tokenTaken" | .returned => "returned"

def showSt (s : St) : String :=
  let q := ",".intercalate (s.q.map fun r => s!"{r.id}:k{r.key}@{r.time}")
  s!"[q={q} tok={tokName s.token} reset={s.reset} stopped={s.stopped} stopClosed={s.stopClosed} pc={pcName s.pc} cpc={cpcName s.cpc} now={s.now} timer={s.timer} next={s.nextId}]"

def showSet (ss : List St) : String := " ".intercalate ((ss.take 6).map showSt)

def parseOut (s : String) : Option POut :=
  match s with
  | "spawn" => some .spawn | "reset" => some .reset | "none" => some .none | _ => none

/-- One input line as an observable event (`none` = malformed). All judgement is in
`Kit.Processor.simStep`. -/
def parseObs (l : Line) : Option (Obs Int Unit) :=
  match l.op with
  | "enq" => do
    let k ← l.int? "key"; let t ← l.int? "at"; let id ← l.nat? "id"; let f ← l.nat? "first"
    let out ← (l.get? "out").bind parseOut
    return .enq k t () id (f == 1) out
  | "deq" => do
    let k ← l.int? "key"; let f ← l.nat? "first"; let out ← (l.get? "out").bind parseOut
    return .deq k (f == 1) out
  | "adv" => do let t ← l.int? "to"; return .adv t
  | "newtimer" => do let d ← l.int? "dur"; let c ← l.int? "created"; return .newtimer d c
  | "peeked" => some (.peeked (l.nat? "id"))
  | "popped" => do let id ← l.nat? "id"; return .popped id
  | "stale" => do let id ← l.nat? "id"; return .stale id
  | "exec" => do
    let id ← l.nat? "id"; let k ← l.int? "key"; let t ← l.int? "at"; let n ← l.int? "now"
    return .exec id k t n
  | "ret" => do let id ← l.nat? "id"; return .ret id
  | "closecall" => some .closecall
  | "closeret" => some .closeret
  | "closeret2" => some .closeret2
  | "quiet" => some .quiet
  | "unpark" => some .unpark
  | "park" => do let p ← l.get? "p"; return .park p (l.nat? "id")
  | _ => none

def dumpHeap (h : Heap.H Int Unit) : String :=
  "arr=" ++ ",".intercalate (h.toList.map fun e => s!"{e.value.id}:{e.index}")

def showOpt (o : Option (Item Int Unit)) : String :=
  match o with
  | some r => toString r.id
  | none => "none"

/-- Operations on the heap layer of `KitModel/Queue.lean` (differential test against queue.go). -/
def handleHeap (d : D) (l : Line) : D × String :=
  match l.op with
  | "h.reset" => ({ d with heap := #[] }, "ok")
  | "h.ins" =>
    match l.int? "key", l.int? "at", l.nat? "id" with
    | some k, some t, some id =>
      let h := Heap.insert d.heap ⟨k, t, (), id⟩
      ({ d with heap := h }, dumpHeap h)
    | _, _, _ => (d, "REJECT malformed")
  | "h.pop" =>
    let r := Heap.pop d.heap
    ({ d with heap := r.2 }, s!"pop={showOpt r.1} {dumpHeap r.2}")
  | "h.peek" => (d, s!"peek={showOpt (Heap.peek d.heap)} {dumpHeap d.heap}")
  | "h.rm" =>
    match l.int? "key" with
    | some k =>
      let h := Heap.remove d.heap k
      ({ d with heap := h }, dumpHeap h)
    | none => (d, "REJECT malformed")
  | _ => (d, "REJECT unknown heap op")

def handle (d : D) (raw : String) : D × String :=
  let l := parseLine raw
  if l.op.startsWith "h." then handleHeap d l else
  if l.op == "reset" then
    let cfg : Cfg := ⟨l.nat? "fixed" != some 0⟩
    let sim : Sim Int Unit := simInit cfg
    ({ d with cfg := cfg, sim := sim, dead := false }, s!"ok {sim.states.length}")
  else if d.dead then (d, "dead")
  else
    match parseObs l with
    | none => ({ d with dead := true }, s!"REJECT malformed line: {raw.trimAscii.toString}")
    | some e =>
      let next := simStep d.cfg d.sim e
      if next.states.isEmpty then
        ({ d with dead := true, sim := next },
         s!"REJECT no model state accepts `{raw.trimAscii.toString}`; states before: {showSet d.sim.states}")
      else
        ({ d with sim := next }, s!"ok {next.states.length}")

def main (_args : List String) : IO UInt32 := do
  Kit.lineLoop handle ({} : D)
  return 0

end Driver.C06
