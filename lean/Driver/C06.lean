import KitModel.Go.Prelude
/-! Driver for property C06: `kitdrv C06` reads op lines on stdin, one answer line per input line. -/
namespace Driver.C06
def main (_args : List String) : IO UInt32 := do
  IO.eprintln "kitdrv: C06 has no model driver yet"
  return 2
end Driver.C06
