import KitModel.Go.Prelude
import KitModel.Enc
import KitModel.EncReal
/-! Driver for property C02: `kitdrv C02` — same line protocol as `kitdrv C01`
(`pst` toy-AEAD tamper loop, `rh`, `dec` on mutated real documents); see `KitModel/EncDrv.lean`
and `KitModel/EncReal.lean`. -/
namespace Driver.C02
def main (_args : List String) : IO UInt32 := do
  Kit.lineLoop (fun (_ : Unit) line => ((), Kit.Enc.Real.answer line)) ()
  return 0
end Driver.C02
