import KitModel.Go.Prelude
import KitModel.Enc
import KitModel.EncReal
/-! Driver for property C02: `kitdrv C02` — same line protocol as `kitdrv C01`
(`pst` toy-AEAD tamper loop, `rh`, `dec` on mutated real documents); see `KitModel/EncDrv.lean`
and `KitModel/EncReal.lean`.

Segment-level ops of this property (function-level tie of `nonceForSegment`, `EncryptSegment`,
`DecryptSegment` at chosen segment numbers, `harness/cmd/c02nonce`):
* `nonce np=<hex> i=<n> last=<0|1>` → `nonce=<hex>`: `Kit.Enc.nonceFor` over the regenerated layout.
* `segseal cph=<1|2> fk=<hex> np=<hex> i=<n> last=<0|1> data=<hex>` → `out=<hex>` / `err=<name>`:
  `encryptSeg` over the Lean-native AEAD under the payload key derived from `fk`, `np`.
* `segopen …same keys…` → `out=<hex>` / `err=<name>`: `decryptSeg`. -/
namespace Driver.C02
open Kit Kit.Enc

def answerSeg (l : Line) : Option String :=
  match l.op with
  | "nonce" => some <| (do
      let np ← l.hex? "np"
      let i ← l.nat? "i"
      let last := (l.get? "last").getD "0" == "1"
      pure s!"nonce={toHex (nonceFor Real.P np i last)}" : Option String).getD "bad-request"
  | "segseal" | "segopen" => some <| (do
      let fk ← l.hex? "fk"
      let np ← l.hex? "np"
      let cph ← l.nat? "cph"
      let i ← l.nat? "i"
      let last := (l.get? "last").getD "0" == "1"
      let data ← l.hex? "data"
      let pk := payloadKey Real.realCrypto Real.P fk np
      let fn : ProcFn :=
        if l.op == "segseal" then encryptSeg Real.realCrypto Real.P cph pk np
        else decryptSeg Real.realCrypto Real.P cph pk np
      match fn data i last with
      | .ok b => pure s!"out={toHex b}"
      | .error e => pure s!"err={e.name}" : Option String).getD "bad-request"
  | _ => none

def answer (line : String) : String :=
  match answerSeg (parseLine line) with
  | some s => s
  | none => Kit.Enc.Real.answer line

def main (_args : List String) : IO UInt32 := do
  Kit.lineLoop (fun (_ : Unit) line => ((), answer line)) ()
  return 0
end Driver.C02
