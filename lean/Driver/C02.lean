import KitModel.Go.Prelude
/-! Driver for property C02: `kitdrv C02` reads op lines on stdin, one answer line per input line. -/
namespace Driver.C02
def main (_args : List String) : IO UInt32 := do
  IO.eprintln "kitdrv: C02 has no model driver yet"
  return 2
end Driver.C02
