import KitModel.Go.Prelude
/-! Driver for property C17: `kitdrv C17` reads op lines on stdin, one answer line per input line. -/
namespace Driver.C17
def main (_args : List String) : IO UInt32 := do
  IO.eprintln "kitdrv: C17 has no model driver yet"
  return 2
end Driver.C17
