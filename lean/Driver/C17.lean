import KitModel.Go.Prelude
import KitModel.SliceHeap
import KitModel.CryptoFrame
/-!
Driver for property C17: `kitdrv C17` reads one call per line and answers one line.

  call fn=<pkg.Func> alg=<algorithm> v=fixed|orig size=<int> ctype=<content type> kind=<key kind>
       auth=0|1 prim=0|1 sig=0|1 outlen=<int|-1> dec=<hex> nb=<number of buffers>
       h0=<hex> h1=<hex> …          initial content of every caller buffer (= backing array)
       a.<param>=<buf>:<off>:<len>:<cap> | a.<param>=nil      one per []byte argument

Answer: `ok class=<class> may=<arr:lo-hi;…> wrote=<arr:lo-hi;…> ret=<len>:<where>,… rb=<hex>`
  class  ok | ok:true | ok:false | err:<name> | panic          (how the model's run ends)
  may    `mayWrite` — the cells the frame theorem allows to change (absolute cell indices)
  wrote  the cells of the caller's buffers that differ after the model's run
  ret    each returned slice: length (`?` when the caller gave no expected length) and where it
         points: `b<k>+<off>` into caller buffer k, or `fresh`
  rb     bytes of the first returned slice (compared for the padding functions)
Everything is computed by `Kit.CryptoFrame.runCall` / `mayWrite`, the definitions the theorems of
`KitProofs/Props/C17.lean` are about.
-/
namespace Driver.C17
open Kit Kit.SH Kit.CryptoFrame

def parseSlice (s : String) : Option Slice :=
  if s == "nil" then some Slice.nil
  else match (s.splitOn ":").mapM String.toNat? with
    | some [b, o, l, c] => some ⟨b, o, l, c⟩
    | _ => none

def parseKind (s : String) : KeyKind :=
  if s == "oct" then .oct else if s == "rsaPriv" then .rsaPriv else if s == "rsaPub" then .rsaPub
  else if s == "ecPriv" then .ecPriv else if s == "ecPub" then .ecPub
  else if s == "edPriv" then .edPriv else if s == "edPub" then .edPub else .okpOther

def showRanges (rs : List (Nat × Nat × Nat)) : String :=
  ";".intercalate (rs.map fun (a, lo, hi) => s!"{a}:{lo}-{hi}")

/-- compress sorted cells into ranges -/
def toRanges : List (Nat × Nat) → List (Nat × Nat × Nat)
  | [] => []
  | (a, i) :: rest =>
    match toRanges rest with
    | (b, lo, hi) :: more => if a = b ∧ i + 1 = lo then (a, i, hi) :: more else (a, i, i + 1) :: (b, lo, hi) :: more
    | [] => [(a, i, i + 1)]

def asymFns : List String :=
  ["crypto.EncryptPublicKey", "crypto.DecryptPrivateKey", "crypto.SignPrivateKey"]

def answer (l : Line) : String :=
  match l.get? "fn", l.nat? "nb" with
  | some fn, some nb =>
    let heap? : Option (List (Array UInt8)) := (List.range nb).mapM fun k =>
      (l.hex? s!"h{k}").map List.toArray
    match heap? with
    | none => "error bad-heap"
    | some rows =>
      let h : Heap := rows.toArray
      let badArg := l.kv.any fun (k, v) => k.startsWith "a." && (parseSlice v).isNone
      if badArg then "error bad-argument" else
      let arg : String → Slice := fun name =>
        ((l.get? s!"a.{name}").bind parseSlice).getD Slice.nil
      let dec := ((l.hex? "dec").getD []).toArray
      let env : Env := { stream := fun i => dec[i]?.getD 0x5A, authOk := l.nat? "auth" == some 1,
                         primOk := l.nat? "prim" == some 1, sigOk := l.nat? "sig" == some 1 }
      let alg := (l.get? "alg").getD ""
      let outLen? := l.nat? "outlen"
      let c : Call := { fn := fn, alg := alg, v := if l.get? "v" == some "orig" then .orig else .fixed,
                        size := (l.int? "size").getD 0, ctype := (l.get? "ctype").getD "",
                        kind := parseKind ((l.get? "kind").getD ""), env := env,
                        outLen := outLen?.getD 1, arg := arg }
      let (out, h') := runCall c h
      let lenUnknown := outLen?.isNone && (asymFns.contains fn ||
        ((fn == "crypto.Encrypt" || fn == "crypto.Decrypt") && algsEncryptAsymmetric.contains alg))
      let showSlice (s : Slice) : String :=
        let ln := if lenUnknown then "?" else toString s.len
        let wh := if s.len == 0 then "-" else if s.arr < nb then s!"b{s.arr}+{s.off}" else "fresh"
        s!"{ln}:{wh}"
      let (cls, ret, rb) : String × String × String :=
        match out with
        | .ok (.slices ss) => ("ok", ",".intercalate (ss.map showSlice),
            match ss with
            | s :: _ => toHex (h'.read s)
            | [] => "")
        | .ok (.bool b) => (if b then "ok:true" else "ok:false", "", "")
        | .err e => (s!"err:{e}",
            -- Go returns nil slices beside an error
            (if fn == "crypto.Encrypt" || fn == "crypto.EncryptSymmetric" then "0:-,0:-"
             else if fn == "crypto.VerifyPublicKey" || fn == "crypto.ParseKey" || fn == "aescbcaead.New" then ""
             else "0:-"), "")
        | .panic _ => ("panic", "", "")
      s!"ok class={cls} may={showRanges (mayWrite c)} wrote={showRanges (toRanges (changedCells h h'))} ret={ret} rb={rb}"
  | _, _ => "error bad-request"

def step (_ : Unit) (line : String) : Unit × String :=
  let l := parseLine line
  if l.op == "call" then ((), answer l) else ((), "error unknown-op")

def main (_args : List String) : IO UInt32 := do
  lineLoop step ()
  return 0
end Driver.C17
