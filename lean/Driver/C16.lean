import KitModel.Go.Prelude
/-! Driver for property C16: `kitdrv C16` reads op lines on stdin, one answer line per input line. -/
namespace Driver.C16
def main (_args : List String) : IO UInt32 := do
  IO.eprintln "kitdrv: C16 has no model driver yet"
  return 2
end Driver.C16
