import KitModel.Go.Prelude
import KitModel.Streams
/-!
Driver for property C16: `kitdrv C16` reads one case per line and answers one line.

  case kind=limit|multi|tee ver=fixed|orig n=<int> wcap=<nat|-> wclos=0|1
       srcs=<src>|<src>…  ops=<op>,<op>,…
       [rf=<n>]   writer implements io.ReaderFrom with buffer size n (0/absent: it does not)
       [hist=<call>;<call>…]   kind=tee only: a concurrent history to linearize (see below)
  <src> = <hex content>:<cap.cap.…>:<withData 0|1>:<term e|b|h>:<closable 0|1>[:<hasWriteTo 0|1>]
          (term h = http.ErrBodyReadAfterClose)
  <op>  = r<m>                 one Read with len(p)=m
        | d<dflt>:<b1>.<b2>…   consume until the first error (buffer sizes b1,b2,… then dflt)
        | w                    WriteTo(writer)   (multi only: the io.Copy path)
        | c                    Close
        | s                    Stop              (tee only)

Answer: `ok ops=<res>,<res>… closes=<c1>.<c2>… wgot=<hex> wcl=<n>` where
  <res> = r:<hex>:<err> | d:<hex>:<err> | w:<err> | c | s
With `hist=`: <call> = <invoke time>/<return time>/<op>/<observed result>, ops r<m> | c | s, results
as above.  The answer is `ok lin=1 closes=… wgot=… wcl=…` if the calls can be put in an order that
respects real time (a call that returned before another was invoked comes first) such that running
`Tee.apply` in that order yields every observed result — i.e. the real execution is a run of
`TeeConc` — and `ok lin=0` otherwise.  With `final=<src closes>/<writer hex>/<writer closes>` the
linearization must also end in that state.
Everything is computed by the definitions of `KitModel/Streams.lean` the theorems are about.
-/
namespace Driver.C16
open Kit Kit.Streams

def parseSrcFields (hx sc wd tm cl wt : String) : Option Src := do
  let content ← fromHex hx
  let script ← if sc == "" then some [] else (sc.splitOn ".").mapM String.toNat?
  let term ← (if tm == "e" then some Err.eof else if tm == "b" then some Err.boom
              else if tm == "h" then some Err.bodyClosed else none)
  some { rest := content, script := script, withData := wd == "1", term := term,
         closable := cl == "1", closes := 0, hasWriteTo := wt == "1" }

def parseSrc (s : String) : Option Src :=
  match s.splitOn ":" with
  | [hx, sc, wd, tm, cl] => parseSrcFields hx sc wd tm cl "0"
  | [hx, sc, wd, tm, cl, wt] => parseSrcFields hx sc wd tm cl wt
  | _ => none

def parseSrcs (s : String) : Option (List Src) :=
  if s == "" then some [] else (s.splitOn "|").mapM parseSrc

inductive Op where
  | read (m : Nat)
  | drain (dflt : Nat) (bufs : List Nat)
  | writeTo
  | close
  | stop

def parseOp (s : String) : Option Op :=
  match s.toList with
  | ['w'] => some .writeTo
  | ['c'] => some .close
  | ['s'] => some .stop
  | 'r' :: rest => (String.ofList rest).toNat?.map .read
  | 'd' :: rest =>
    match (String.ofList rest).splitOn ":" with
    | [d, bs] => do
      let d ← d.toNat?
      let bs ← if bs == "" then some [] else (bs.splitOn ".").mapM String.toNat?
      some (.drain d bs)
    | _ => none
  | _ => none

def parseOps (s : String) : Option (List Op) :=
  if s == "" then some [] else (s.splitOn ",").mapM parseOp

inductive St where
  | limit (l : Limit)
  | multi (m : Multi) (w : Wr)
  | tee (t : Tee)

def showRead (tag : String) (d : Bytes) (e : String) : String := s!"{tag}:{toHex d}:{e}"

def stepOp (v : Version) (st : St) (op : Op) : St × String :=
  match st, op with
  | .limit l, .read m => let (l', d, e) := Limit.read v l m; (.limit l', showRead "r" d (showErr e))
  | .limit l, .drain dflt bufs =>
    let (l', d, e) := Limit.consume v l bufs dflt; (.limit l', showRead "d" d e.name)
  | .limit l, .close => (.limit l.close, "c")
  | .multi M w, .read m => let (M', d, e) := M.read m; (.multi M' w, showRead "r" d (showErr e))
  | .multi M w, .drain dflt bufs =>
    let (M', d, e) := M.consume bufs dflt; (.multi M' w, showRead "d" d e.name)
  | .multi M w, .writeTo => let (M', w', e) := M.writeTo v w; (.multi M' w', s!"w:{showErr e}")
  | .multi M w, .close => (.multi M.close w, "c")
  | .tee t, .read m => let (t', d, e) := t.read m; (.tee t', showRead "r" d (showErr e))
  | .tee t, .drain dflt bufs =>
    let (t', d, e) := t.consume bufs dflt; (.tee t', showRead "d" d e.name)
  | .tee t, .close => (.tee t.close, "c")
  | .tee t, .stop => (.tee t.stop, "s")
  | st, _ => (st, "unsupported")

def runOps (v : Version) : St → List Op → List String → St × List String
  | st, [], acc => (st, acc.reverse)
  | st, op :: ops, acc => let (st', r) := stepOp v st op; runOps v st' ops (r :: acc)

def finalState : St → String
  | .limit l => s!"closes={l.src.closes} wgot= wcl=0"
  | .multi M w => s!"closes={".".intercalate (M.closeCounts.map toString)} wgot={toHex w.got} wcl={w.closes}"
  | .tee t => s!"closes={t.src.closes} wgot={toHex t.w.got} wcl={t.w.closes}"

/-! ### linearizability of a concurrent Tee history against `Tee.apply` -/

structure Call where
  inv : Nat
  ret : Nat
  op : TeeOp
  res : String

def parseTeeOp (s : String) : Option TeeOp :=
  match s.toList with
  | ['c'] => some .close
  | ['s'] => some .stop
  | 'r' :: rest => (String.ofList rest).toNat?.map .read
  | _ => none

def parseCall (s : String) : Option Call :=
  match s.splitOn "/" with
  | [i, r, op, res] => do
    some { inv := ← i.toNat?, ret := ← r.toNat?, op := ← parseTeeOp op, res := res }
  | _ => none

def showTeeRes (op : TeeOp) (d : Bytes) (e : Option Err) : String :=
  match op with
  | .read _ => showRead "r" d (showErr e)
  | .close => "c"
  | .stop => "s"

def teeFinal (t : Tee) : String := s!"closes={t.src.closes} wgot={toHex t.w.got} wcl={t.w.closes}"

/-- depth-first search for a linearization; `fuel` = number of calls still to place.  Returns the
final state of the first linearization found. -/
def teeFinalShort (t : Tee) : String := s!"{t.src.closes}/{toHex t.w.got}/{t.w.closes}"

def finalOk (fin : Option String) (t : Tee) : Option Tee :=
  match fin with
  | none => some t
  | some f => if teeFinalShort t == f then some t else none

def linearize (fin : Option String) : Nat → Tee → List Call → Option Tee
  | 0, t, rem => if rem.isEmpty then finalOk fin t else none
  | fuel + 1, t, rem =>
    if rem.isEmpty then finalOk fin t else
    -- a call may come next iff no other remaining call returned before it was invoked
    let minRet := rem.foldl (fun m c => min m c.ret) (rem.headD ⟨0, 0, .close, ""⟩).ret
    let cands := (List.range rem.length).filter fun i =>
      match rem[i]? with
      | some c => c.inv < minRet || c.ret == minRet
      | none => false
    cands.firstM fun i =>
      match rem[i]? with
      | none => none
      | some c =>
        match t.apply c.op with
        | (t', d, e) =>
          if showTeeRes c.op d e == c.res then linearize fin fuel t' (rem.eraseIdx i) else none

def answer (line : String) : String :=
  let l := parseLine line
  if l.op != "case" then "bad op" else
  let r : Option String := do
    let kind ← l.get? "kind"
    let v ← (match l.get? "ver" with
      | some "orig" => some Version.orig
      | some "fixed" => some Version.fixed
      | none => some Version.fixed
      | _ => none)
    let srcs ← parseSrcs ((l.get? "srcs").getD "")
    let ops ← parseOps ((l.get? "ops").getD "")
    let wcap ← (match l.get? "wcap" with
      | none => some none
      | some "-" => some none
      | some s => s.toNat?.map some)
    let w : Wr := { got := [], cap := wcap, closable := (l.get? "wclos") == some "1", closes := 0,
                    readFromBuf := (l.nat? "rf").getD 0 }
    let st ← (match kind, srcs with
      | "limit", [s] => do let n ← l.int? "n"; some (St.limit (Limit.new s n))
      | "multi", ss => some (St.multi (Multi.new ss) w)
      | "tee", [s] => some (St.tee (Tee.new s w))
      | _, _ => none)
    match l.get? "hist", st with
    | some h, .tee t =>
      let calls ← (if h == "" then some [] else (h.splitOn ";").mapM parseCall)
      match linearize (l.get? "final") calls.length t calls with
      | some t' => some s!"ok lin=1 {teeFinal t'}"
      | none => some "ok lin=0"
    | some _, _ => none
    | none, _ =>
    let (st', rs) := runOps v st ops []
    some s!"ok ops={",".intercalate rs} {finalState st'}"
  r.getD "bad case"

def main (_args : List String) : IO UInt32 := do
  lineLoop (fun (_ : Unit) line => ((), answer line)) ()
  return 0
end Driver.C16
