import KitModel.BroadcasterAccept
/-!
Driver for property C11: `kitdrv C11` — state-set simulation of the broadcaster LTS.

Input lines (one answer line each):
* `reset variant=fixed|orig [reduce=0] [eager=0] [hooked=1] [cap=<n>]`  start a new trace from the initial state
  (`hooked=1`: every Broadcast lock acquisition is reported by `ev k=bacq v=<n>`)
* `ev k=bcall v=<n>` | `ev k=bret t=<ticket>` | `ev k=scall n=<channels>` | `ev k=sret h=<first tag>` |
  `ev k=cancel h=<tag>` | `ev k=recv h=<tag> v=<n>` | `ev k=ccall` | `ev k=cret`
  → `ok n=<size of the τ-closed state set>` or `reject at=<event> prev=<size> state=<one previous state>`
* `stuck`                             → `stuck n=<k>`: number of states of the current set in which no
                                         internal step is enabled while some call is pending
                                         (used to show that the model of the *original* code predicts
                                         the observed deadlock)
-/
namespace Driver.C11
open Kit Kit.Broadcaster

/-- Safety valve: a trace whose state set grows beyond this is answered `overflow` (the harness
counts it as not validated, never as accepted). -/
def cap : Nat := 40000

def parseObs (l : Line) : Option Obs :=
  match l.get? "k" with
  | some "bcall" => (l.nat? "v").map .bcall
  | some "bacq" => (l.nat? "v").map .bacq
  | some "bret" => (l.nat? "t").map .bret
  | some "scall" => some (.scall ((l.nat? "n").getD 1))
  | some "sret" => (l.nat? "h").map .sret
  | some "cancel" => (l.nat? "h").map .cancel
  | some "recv" => do let h ← l.nat? "h"; let x ← l.nat? "v"; pure (.recv h x)
  | some "ccall" => some .ccall
  | some "cret" => some .cret
  | _ => none

def showPc : FPc → String
  | .idle => "idle" | .holding => "holding" | .exiting => "exiting" | .wantLock => "wantLock" | .done => "done"

def showSub (u : Sub) : String :=
  s!"[id:{u.id},tag:{u.tag},call:{u.call},j:{u.joinedAt},buf:{showNats (u.buf.map (·.val))},hand:{showNats (u.hand.toList.map (·.val))},del:{showNats (u.delivered.map (·.val))},canc:{u.cancelled},exit:{u.exitClosed},in:{u.inList},pc:{showPc u.pc},missed:{u.missed}]"

def showState (s : State) : String :=
  let bc := match s.bc with
    | some (e, pc) => s!"{e.val}@{pc}"
    | none => "-"
  s!"bc:{bc};closed:{s.closed};closeCh:{s.closeCh};log:{showNats (s.log.map (·.val))};waitB:{showNats (s.waitB.map (·.val))};retB:{showNats (s.retB.map (·.1))};waitS:{showNats (s.waitS.map (·.1))};retS:{showNats s.retS};close:{s.closeNew}/{s.closePre}/{s.closePost}/{s.closeReturned};subs:{"".intercalate (s.subs.map showSub)}"

structure DState where
  variant : Variant
  reduce : Bool
  hooked : Bool
  eager : Bool
  cap : Nat
  cur : List State
  dead : Bool

/-- All deciding is done by `Kit.Broadcaster.acceptStep` (model side, proved sound); this function
parses the line and prints the verdict. -/
def stepLine (d : DState) (line : String) : DState × String :=
  let l := parseLine line
  match l.op with
  | "reset" =>
    let v := if l.get? "variant" == some "orig" then Variant.orig else Variant.fixed
    let reduce := l.get? "reduce" != some "0"
    let hooked := l.get? "hooked" == some "1"
    let eager := l.get? "eager" != some "0"
    let cp := (l.nat? "cap").getD cap
    let a := startSet v reduce hooked eager cp
    ({ variant := v, reduce, hooked, eager, cap := cp, cur := a.list, dead := false }, s!"ok n={a.size}")
  | "ev" =>
    match parseObs l with
    | none => (d, "error bad-event")
    | some o =>
      if d.dead then (d, "dead") else
      let a := acceptStep d.variant d.reduce d.hooked d.eager d.cap d.cur o
      if a.size > d.cap then
        ({ d with cur := a.list, dead := true }, s!"overflow n={a.size}")
      else if a.size == 0 then
        let st := match d.cur with
          | s :: _ => showState s
          | [] => "-"
        ({ d with cur := [], dead := true }, s!"reject at={line.trimAscii.toString.replace " " "_"} prev={d.cur.length} state={st.replace " " "_"}")
      else ({ d with cur := a.list }, s!"ok n={a.size}")
  | "stuck" =>
    (d, s!"stuck n={(stuckStates d.variant d.cur).length} of={d.cur.length}")
  | "" => (d, "ok")
  | _ => (d, "error unknown-op")

def main (_args : List String) : IO UInt32 := do
  Kit.lineLoop stepLine { variant := .fixed, reduce := true, hooked := false, eager := true, cap := cap, cur := (startSet .fixed true false true cap).list, dead := false }
  return 0
end Driver.C11
