import KitModel.Go.Prelude
/-! Driver for property C11: `kitdrv C11` reads op lines on stdin, one answer line per input line. -/
namespace Driver.C11
def main (_args : List String) : IO UInt32 := do
  IO.eprintln "kitdrv: C11 has no model driver yet"
  return 2
end Driver.C11
