import KitModel.Broadcaster
import Std.Data.HashSet
/-!
Driver for property C11: `kitdrv C11` — state-set simulation of the broadcaster LTS.

Input lines (one answer line each):
* `reset variant=fixed|orig`         start a new trace from the initial state
* `ev k=bcall v=<n>` | `ev k=bret t=<ticket>` | `ev k=scall` | `ev k=sret h=<tag>` |
  `ev k=cancel h=<tag>` | `ev k=recv h=<tag> v=<n>` | `ev k=ccall` | `ev k=cret`
  → `ok n=<size of the τ-closed state set>` or `reject at=<event> prev=<size> state=<one previous state>`
* `stuck`                             → `stuck n=<k>`: number of states of the current set in which no
                                         internal step is enabled while some call is pending
                                         (used to show that the model of the *original* code predicts
                                         the observed deadlock)
-/
namespace Driver.C11
open Kit Kit.Broadcaster

abbrev SSet := Std.HashSet State

/-- Safety valve: a trace whose state set grows beyond this is answered `overflow` (the harness
counts it as not validated, never as accepted). -/
def cap : Nat := 40000

/-- Driver-side reduction (on by default, `reset … reduce=0` switches it off): once a forwarder has
left its loop (`pc` ∈ exiting, wantLock, done) the contents of its buffer, its hand and the ghost
`missed` flag can never influence an observable event again (nothing is delivered any more; a
Broadcast reaching that subscriber can always pass after at most the internal step that closes the
exit channel).  States that differ only there are merged; this keeps the state set small when
Broadcasts race with a leaving subscriber (push-or-skip is a coin toss per value).  The harness
cross-checks reduced against unreduced verdicts on the traces where the unreduced set fits. -/
def normSub (u : Sub) : Sub :=
  match u.pc with
  | .exiting | .wantLock | .done => { u with buf := [], hand := none, missed := false }
  | _ => u

def norm (reduce : Bool) (s : State) : State :=
  if reduce then { s with subs := s.subs.map normSub } else s

/-- τ-closure by worklist. `fuel` bounds the number of expansions (never reached in practice;
reported as an error if it is). -/
partial def closure (v : Variant) (reduce : Bool) (todo : List State) (seen : SSet) : SSet :=
  match todo with
  | [] => seen
  | s :: rest =>
    if seen.size > cap then seen else
    let succs := ((taus v s).filterMap (step v s)).map (norm reduce)
    let (todo', seen') := succs.foldl (fun (acc : List State × SSet) s' =>
      if acc.2.contains s' then acc else (s' :: acc.1, acc.2.insert s')) (rest, seen)
    closure v reduce todo' seen'

def closeSet (v : Variant) (reduce : Bool) (xs : List State) : SSet :=
  let seen : SSet := xs.foldl (fun acc s => acc.insert (norm reduce s)) {}
  closure v reduce seen.toList seen

def applyObs (v : Variant) (reduce : Bool) (cur : SSet) (o : Obs) : SSet :=
  let nexts := cur.toList.flatMap (fun s => (obsLabels s o).filterMap (step v s))
  closeSet v reduce nexts

def parseObs (l : Line) : Option Obs :=
  match l.get? "k" with
  | some "bcall" => (l.nat? "v").map .bcall
  | some "bret" => (l.nat? "t").map .bret
  | some "scall" => some .scall
  | some "sret" => (l.nat? "h").map .sret
  | some "cancel" => (l.nat? "h").map .cancel
  | some "recv" => do let h ← l.nat? "h"; let x ← l.nat? "v"; pure (.recv h x)
  | some "ccall" => some .ccall
  | some "cret" => some .cret
  | _ => none

def showPc : FPc → String
  | .idle => "idle" | .holding => "holding" | .exiting => "exiting" | .wantLock => "wantLock" | .done => "done"

def showSub (u : Sub) : String :=
  s!"[id:{u.id},tag:{u.tag},j:{u.joinedAt},buf:{showNats (u.buf.map (·.val))},hand:{showNats (u.hand.toList.map (·.val))},del:{showNats (u.delivered.map (·.val))},canc:{u.cancelled},exit:{u.exitClosed},in:{u.inList},pc:{showPc u.pc},missed:{u.missed}]"

def showState (s : State) : String :=
  let bc := match s.bc with
    | some (e, pc) => s!"{e.val}@{pc}"
    | none => "-"
  s!"bc:{bc};closed:{s.closed};closeCh:{s.closeCh};log:{showNats (s.log.map (·.val))};waitB:{showNats (s.waitB.map (·.val))};retB:{showNats (s.retB.map (·.1))};waitS:{showNats s.waitS};retS:{showNats s.retS};close:{s.closeNew}/{s.closePre}/{s.closePost}/{s.closeReturned};subs:{"".intercalate (s.subs.map showSub)}"

def pendingCall (s : State) : Bool :=
  s.bc.isSome || !s.waitB.isEmpty || !s.waitS.isEmpty || s.closeNew + s.closePre + s.closePost > 0

structure DState where
  variant : Variant
  reduce : Bool
  cur : SSet
  dead : Bool

def stepLine (d : DState) (line : String) : DState × String :=
  let l := parseLine line
  match l.op with
  | "reset" =>
    let v := if l.get? "variant" == some "orig" then Variant.orig else Variant.fixed
    let reduce := l.get? "reduce" != some "0"
    let cur := closeSet v reduce [init]
    ({ variant := v, reduce, cur, dead := false }, s!"ok n={cur.size}")
  | "ev" =>
    match parseObs l with
    | none => (d, "error bad-event")
    | some o =>
      if d.dead then (d, "dead") else
      let nxt := applyObs d.variant d.reduce d.cur o
      if nxt.size > cap then
        ({ d with cur := nxt, dead := true }, s!"overflow n={nxt.size}")
      else if nxt.size == 0 then
        let st := match d.cur.toList with
          | s :: _ => showState s
          | [] => "-"
        ({ d with cur := nxt, dead := true }, s!"reject at={line.trimAscii.toString.replace " " "_"} prev={d.cur.size} state={st.replace " " "_"}")
      else ({ d with cur := nxt }, s!"ok n={nxt.size}")
  | "stuck" =>
    let k := (d.cur.toList.filter (fun s => pendingCall s && (taus d.variant s).isEmpty)).length
    (d, s!"stuck n={k} of={d.cur.size}")
  | "" => (d, "ok")
  | _ => (d, "error unknown-op")

def main (_args : List String) : IO UInt32 := do
  let cur := closeSet .fixed true [init]
  Kit.lineLoop stepLine { variant := .fixed, reduce := true, cur, dead := false }
  return 0
end Driver.C11
