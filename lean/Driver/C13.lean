import KitModel.Go.Prelude
import KitModel.Locks
/-!
Driver for property C13: `kitdrv C13` reads one line per request, answers one line.

  new prim=<fifomutex|fifomap|cmap|context|outer> n=<callers> [keys=<K>] [rc=<0|1>] [grace=<G>]
      start a trace: state set := τ-closure {init}; answer `ok <set size>`
  call t=<T> op=<…> [k=<K>] [md=w|r] [del=0|1]   |  ret t=<T> [v=<N>]  |  probe t=<T> p=<…> [v=<N>]
  | env e=<…> [t=<T>]
      one observable event: successors of every state in the set, then τ-closure;
      answer `ok <set size>` or `reject <event>` (and every later event of the trace `dead`).

Everything is computed by the model's executable `step` through `Sim.observe`.
-/
namespace Driver.C13
open Kit Kit.Locks

open Kit.Locks.Acceptor (Session Event Prim)

def answer (sz : Option Nat) (line : String) : String :=
  match sz with
  | some n => s!"ok {n}"
  | none => s!"reject {line.trimAscii.toString}"

def parseFMutex (l : Line) : Option FifoMutex.L := do
  let t ← l.nat? "t"
  match l.op with
  | "call" => match l.get? "op" with
    | some "lock" => some (.call t .lock)
    | some "unlock" => some (.call t .unlock)
    | _ => none
  | "ret" => some (.ret t ())
  | "probe" => match l.get? "p" with
    | some "blocked" => some (.probe t .blocked)
    | _ => none
  | _ => none

def parseFMap (l : Line) : Option FifoMap.L := do
  let t ← l.nat? "t"
  match l.op with
  | "call" => match l.get? "op" with
    | some "lock" => do let k ← l.nat? "k"; some (.call t (.lock k))
    | some "unlock" => some (.call t .unlock)
    | _ => none
  | "ret" => some (.ret t ())
  | "probe" => match l.get? "p" with
    | some "blocked" => some (.probe t .blocked)
    | some "hook" => some (.probe t .atHook)
    | some "len" => do let v ← l.nat? "v"; some (.probe t (.len v))
    | _ => none
  | _ => none

def parseMode (l : Line) : Option CMap.Mode :=
  match l.get? "md" with
  | some "w" => some .w
  | some "r" => some .r
  | _ => none

def parseCMap (l : Line) : Option CMap.L := do
  let t ← l.nat? "t"
  match l.op with
  | "call" => match l.get? "op" with
    | some "lock" => do let k ← l.nat? "k"; let md ← parseMode l; some (.call t (.lock k md))
    | some "unlock" => do let d ← l.nat? "del"; some (.call t (.unlock (d != 0)))
    | some "delete" => do let k ← l.nat? "k"; some (.call t (.delete k))
    | some "clear" => some (.call t .clear)
    | some "count" => some (.call t .count)
    | _ => none
  | "ret" => some (.ret t (l.nat? "v"))
  | "probe" => match l.get? "p" with
    | some "blocked" => some (.probe t .blocked)
    | some "hook" => some (.probe t .atHook)
    | _ => none
  | _ => none

def parseCtx (l : Line) : Option Context.L :=
  match l.op with
  | "env" => do
    let t ← l.nat? "t"
    match l.get? "e" with
    | some "cancel" => some (.env (.cancel t))
    | _ => none
  | "call" => do
    let t ← l.nat? "t"
    match l.get? "op" with
    | some "lock" => do
      let md ← (match l.get? "md" with | some "w" => some Context.Mode.w | some "r" => some Context.Mode.r | _ => none)
      let pre ← l.nat? "pre"
      some (.call t (.lock md (pre != 0)))
    | some "unlock" => some (.call t .unlock)
    | _ => none
  | "ret" => do
    let t ← l.nat? "t"
    some (.ret t ((l.nat? "v").getD 0 != 0))
  | "probe" => do
    let t ← l.nat? "t"
    match l.get? "p" with
    | some "blocked" => some (.probe t .blocked)
    | _ => none
  | _ => none

def parseOuter (l : Line) : Option OuterCancel.L :=
  match l.op with
  | "env" =>
    match l.get? "e" with
    | some "shutdown" => some (.env .shutdown)
    | some "tick" => some (.env .tick)
    | some "cancel" => do let t ← l.nat? "t"; some (.env (.cancelParent t))
    | _ => none
  | "call" => do
    let t ← l.nat? "t"
    match l.get? "op" with
    | some "lock" => some (.call t .lock)
    | some "unlock" => some (.call t .unlock)
    | some "rlock" => do let pre ← l.nat? "pre"; some (.call t (.rlock (pre != 0)))
    | some "runlock" => some (.call t .runlock)
    | _ => none
  | "ret" => do
    let t ← l.nat? "t"
    some (.ret t ((l.nat? "v").getD 0))
  | "probe" => do
    let t ← l.nat? "t"
    match l.get? "p" with
    | some "cancelled" => do let v ← l.nat? "v"; some (.probe t (.cancelled (v != 0)))
    | some "live" => some (.probe t .notCancelled)
    | some "quiet" => some (.probe t .quiet)
    | _ => none
  | _ => none

def parsePrim (l : Line) : Option Prim :=
  let n := (l.nat? "n").getD 0
  let keys := (l.nat? "keys").getD 1
  match l.get? "prim" with
  | some "fifomutex" => some (.fmutex n)
  | some "fifomap" => some (.fmap n keys)
  | some "cmap" => some (.cmap ((l.nat? "rc").getD 1 != 0) n keys)
  | some "context" => some (.ctx n)
  | some "outer" => some (.outer n ((l.nat? "grace").getD 1))
  | _ => none

/-- parse an event line into a label of the session's primitive -/
def parseEvent (sess : Session) (l : Line) : Option Event :=
  match sess with
  | .none => none
  | .fmutex _ => (parseFMutex l).map .fmutex
  | .fmap _ => (parseFMap l).map .fmap
  | .cmap _ => (parseCMap l).map .cmap
  | .ctx _ => (parseCtx l).map .ctx
  | .outer _ => (parseOuter l).map .outer

def stepLine (sess : Session) (raw : String) : Session × String :=
  let l := parseLine raw
  if l.op == "new" then
    match parsePrim l with
    | some p => let s := Session.start p; (s, answer s.size raw)
    | none => (.none, "error unknown-prim")
  else
    match sess with
    | .none => (.none, "error no-session")
    | _ =>
      match sess.size with
      | none => (sess, "dead")
      | some _ =>
        match parseEvent sess l with
        | none => (sess, "error parse")
        | some ev =>
          match sess.feed ev with
          | some sess' => (sess', answer sess'.size raw)
          | none => (sess, "error parse")

def main (_args : List String) : IO UInt32 := do
  lineLoop stepLine Session.none
  return 0
end Driver.C13
