import KitModel.Go.Prelude
import KitModel.Locks
/-!
Driver for property C13: `kitdrv C13` reads one line per request, answers one line.

  new prim=<fifomutex|fifomap|cmap|context|outer> n=<callers> [keys=<K>] [rc=<0|1>] [grace=<G>]
      start a trace: state set := τ-closure {init}; answer `ok <set size>`
  call t=<T> op=<…> [k=<K>] [md=w|r] [del=0|1]   |  ret t=<T> [v=<N>]  |  probe t=<T> p=<…> [v=<N>]
  | env e=<…> [t=<T>]
      one observable event: successors of every state in the set, then τ-closure;
      answer `ok <set size>` or `reject <event>` (and every later event of the trace `dead`).

Everything is computed by the model's executable `step` through `Sim.observe`.
-/
namespace Driver.C13
open Kit Kit.Locks

def fuel : Nat := 200000

inductive Session where
  | none
  | dead
  | fmutex (set : List FifoMutex.State)
  | fmap (set : List FifoMap.State)
  | cmap (set : List CMap.State)
  | ctx (set : List Context.State)
  | outer (set : List OuterCancel.State)

def answer (n : Nat) (line : String) : String :=
  if n == 0 then s!"reject {line.trimAscii.toString}" else s!"ok {n}"

def parseFMutex (l : Line) : Option FifoMutex.L := do
  let t ← l.nat? "t"
  match l.op with
  | "call" => match l.get? "op" with
    | some "lock" => some (.call t .lock)
    | some "unlock" => some (.call t .unlock)
    | _ => none
  | "ret" => some (.ret t ())
  | "probe" => match l.get? "p" with
    | some "blocked" => some (.probe t .blocked)
    | _ => none
  | _ => none

def parseFMap (l : Line) : Option FifoMap.L := do
  let t ← l.nat? "t"
  match l.op with
  | "call" => match l.get? "op" with
    | some "lock" => do let k ← l.nat? "k"; some (.call t (.lock k))
    | some "unlock" => some (.call t .unlock)
    | _ => none
  | "ret" => some (.ret t ())
  | "probe" => match l.get? "p" with
    | some "blocked" => some (.probe t .blocked)
    | some "hook" => some (.probe t .atHook)
    | some "len" => do let v ← l.nat? "v"; some (.probe t (.len v))
    | _ => none
  | _ => none

def parseMode (l : Line) : Option CMap.Mode :=
  match l.get? "md" with
  | some "w" => some .w
  | some "r" => some .r
  | _ => none

def parseCMap (l : Line) : Option CMap.L := do
  let t ← l.nat? "t"
  match l.op with
  | "call" => match l.get? "op" with
    | some "lock" => do let k ← l.nat? "k"; let md ← parseMode l; some (.call t (.lock k md))
    | some "unlock" => do let d ← l.nat? "del"; some (.call t (.unlock (d != 0)))
    | some "delete" => do let k ← l.nat? "k"; some (.call t (.delete k))
    | some "clear" => some (.call t .clear)
    | some "count" => some (.call t .count)
    | _ => none
  | "ret" => some (.ret t (l.nat? "v"))
  | "probe" => match l.get? "p" with
    | some "blocked" => some (.probe t .blocked)
    | some "hook" => some (.probe t .atHook)
    | _ => none
  | _ => none

def parseCtx (l : Line) : Option Context.L :=
  match l.op with
  | "env" => do
    let t ← l.nat? "t"
    match l.get? "e" with
    | some "cancel" => some (.env (.cancel t))
    | _ => none
  | "call" => do
    let t ← l.nat? "t"
    match l.get? "op" with
    | some "lock" => do
      let md ← (match l.get? "md" with | some "w" => some Context.Mode.w | some "r" => some Context.Mode.r | _ => none)
      let pre ← l.nat? "pre"
      some (.call t (.lock md (pre != 0)))
    | some "unlock" => some (.call t .unlock)
    | _ => none
  | "ret" => do
    let t ← l.nat? "t"
    some (.ret t ((l.nat? "v").getD 0 != 0))
  | _ => none

def parseOuter (l : Line) : Option OuterCancel.L :=
  match l.op with
  | "env" =>
    match l.get? "e" with
    | some "shutdown" => some (.env .shutdown)
    | some "tick" => some (.env .tick)
    | some "cancel" => do let t ← l.nat? "t"; some (.env (.cancelParent t))
    | _ => none
  | "call" => do
    let t ← l.nat? "t"
    match l.get? "op" with
    | some "lock" => some (.call t .lock)
    | some "unlock" => some (.call t .unlock)
    | some "rlock" => do let pre ← l.nat? "pre"; some (.call t (.rlock (pre != 0)))
    | some "runlock" => some (.call t .runlock)
    | _ => none
  | "ret" => do
    let t ← l.nat? "t"
    some (.ret t ((l.nat? "v").getD 0))
  | "probe" => do
    let t ← l.nat? "t"
    match l.get? "p" with
    | some "cancelled" => do let v ← l.nat? "v"; some (.probe t (.cancelled (v != 0)))
    | some "live" => some (.probe t .notCancelled)
    | some "quiet" => some (.probe t .quiet)
    | _ => none
  | _ => none

def startSession (l : Line) : Session × String :=
  let n := (l.nat? "n").getD 0
  let keys := (l.nat? "keys").getD 1
  match l.get? "prim" with
  | some "fifomutex" =>
    let set := FifoMutex.sim.start fuel (FifoMutex.init n)
    (.fmutex set, s!"ok {set.length}")
  | some "fifomap" =>
    let set := FifoMap.sim.start fuel (FifoMap.init n keys)
    (.fmap set, s!"ok {set.length}")
  | some "cmap" =>
    let rc := (l.nat? "rc").getD 1 != 0
    let set := CMap.sim.start fuel (CMap.init rc n keys)
    (.cmap set, s!"ok {set.length}")
  | some "outer" =>
    let g := (l.nat? "grace").getD 1
    let set := OuterCancel.sim.start fuel (OuterCancel.init n g)
    (.outer set, s!"ok {set.length}")
  | some "context" =>
    let set := Context.sim.start fuel (Context.init n)
    (.ctx set, s!"ok {set.length}")
  | _ => (.none, "error unknown-prim")

def stepLine (sess : Session) (raw : String) : Session × String :=
  let l := parseLine raw
  if l.op == "new" then startSession l
  else match sess with
  | .none => (.none, "error no-session")
  | .dead => (.dead, "dead")
  | .fmutex set =>
    match parseFMutex l with
    | some a => let set' := FifoMutex.sim.observe fuel set a
                (if set'.isEmpty then .dead else .fmutex set', answer set'.length raw)
    | none => (sess, "error parse")
  | .fmap set =>
    match parseFMap l with
    | some a => let set' := FifoMap.sim.observe fuel set a
                (if set'.isEmpty then .dead else .fmap set', answer set'.length raw)
    | none => (sess, "error parse")
  | .cmap set =>
    match parseCMap l with
    | some a => let set' := CMap.sim.observe fuel set a
                (if set'.isEmpty then .dead else .cmap set', answer set'.length raw)
    | none => (sess, "error parse")
  | .ctx _ => (sess, "error internal")
  | .outer _ => (sess, "error internal")

def stepLine2 (sess : Session) (raw : String) : Session × String :=
  let l := parseLine raw
  match sess with
  | .ctx set =>
    if l.op == "new" then startSession l else
    match parseCtx l with
    | some a => let set' := Context.sim.observe fuel set a
                (if set'.isEmpty then .dead else .ctx set', answer set'.length raw)
    | none => (sess, "error parse")
  | .outer set =>
    if l.op == "new" then startSession l else
    match parseOuter l with
    | some a => let set' := OuterCancel.sim.observe fuel set a
                (if set'.isEmpty then .dead else .outer set', answer set'.length raw)
    | none => (sess, "error parse")
  | _ => stepLine sess raw

def main (_args : List String) : IO UInt32 := do
  lineLoop stepLine2 Session.none
  return 0
end Driver.C13
