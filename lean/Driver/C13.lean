import KitModel.Go.Prelude
/-! Driver for property C13: `kitdrv C13` reads op lines on stdin, one answer line per input line. -/
namespace Driver.C13
def main (_args : List String) : IO UInt32 := do
  IO.eprintln "kitdrv: C13 has no model driver yet"
  return 2
end Driver.C13
