import Lean
/-!
`#census Mod` lists every theorem declared in module `Mod` together with the axioms it
depends on (the same computation as `#print axioms`).  `bin/check` runs it on
`KitProofs.Props.Cxx` on every run: the obligation count in the evidence is measured here.
-/
open Lean Elab Command

elab "#census " m:ident : command => do
  let env ← getEnv
  let some idx := env.getModuleIdx? m.getId
    | throwError "census: module {m.getId} not imported"
  let mut names : Array Name := #[]
  for (n, ci) in env.constants.map₁.toList do
    if env.getModuleIdxFor? n == some idx then
      if let .thmInfo _ := ci then
        unless n.isInternalDetail do
          names := names.push n
  let sorted := names.qsort (fun a b => a.toString < b.toString)
  for n in sorted do
    let axs ← collectAxioms n
    let axs := axs.qsort (fun a b => a.toString < b.toString)
    IO.println s!"CENSUS theorem={n} axioms={",".intercalate (axs.toList.map toString)}"
  IO.println s!"CENSUS-DONE module={m.getId} theorems={sorted.size}"
