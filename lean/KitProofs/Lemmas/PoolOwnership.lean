import KitModel.PoolOwnership
/-!
Lemmas for C08: the global ownership invariant of the interleaved semantics and the per-thread
simulation by the run-alone interpreter.
-/
namespace Kit.PoolOwn

@[simp] theorem upd_same {β : Type} (f : Nat → β) (k : Nat) (v : β) : upd f k v k = v := by simp [upd]
theorem upd_ne {β : Type} (f : Nat → β) {k x : Nat} (v : β) (h : x ≠ k) : upd f k v x = f x := by simp [upd, h]

/-! ### the discipline -/

structure GhostOk (g : Ghost) : Prop where
  lt : ∀ h ∈ g.live, h < g.nh
  nodup : g.live.Nodup

theorem ghostOk_init : GhostOk Ghost.init := ⟨by simp [Ghost.init], by simp [Ghost.init]⟩

/-- shapes of a successful ghost step -/
inductive GShape (g : Ghost) : Instr → Ghost → Prop where
  | get : GShape g .get ⟨g.nh + 1, g.nh :: g.live, upd g.wr g.nh 0⟩
  | alloc (n : Nat) : GShape g (.alloc n) ⟨g.nh + 1, g.nh :: g.live, upd g.wr g.nh 0⟩
  | write (h off : Nat) (vals : List Byte) : h ∈ g.live → off ≤ g.wr h →
      GShape g (.write h off vals) { g with wr := upd g.wr h (max (g.wr h) (off + vals.length)) }
  | use (s : Sl) : s.h ∈ g.live → s.off + s.len ≤ g.wr s.h → GShape g (.use s) g
  | copy (d s : Sl) : s.h ∈ g.live → d.h ∈ g.live → s.off + min d.len s.len ≤ g.wr s.h → d.off ≤ g.wr d.h →
      GShape g (.copy d s) { g with wr := upd g.wr d.h (max (g.wr d.h) (d.off + min d.len s.len)) }
  | put (h : Nat) : h ∈ g.live → GShape g (.put h) { g with live := g.live.erase h }
  | yield : GShape g .yield g

theorem gstep_shape {g g' : Ghost} {i : Instr} (h : gstep g i = some g') : GShape g i g' := by
  cases i with
  | get => simp [gstep] at h; subst h; exact .get
  | alloc n => simp [gstep] at h; subst h; exact .alloc n
  | write hh off vals =>
    simp only [gstep] at h
    split at h
    · rename_i hc; cases h; exact .write hh off vals hc.1 hc.2
    · cases h
  | use s =>
    simp only [gstep] at h
    split at h
    · rename_i hc; cases h; exact .use s hc.1 hc.2
    · cases h
  | copy d s =>
    simp only [gstep] at h
    split at h
    · rename_i hc; cases h; exact .copy d s hc.1 hc.2.1 hc.2.2.1 hc.2.2.2
    · cases h
  | put hh =>
    simp only [gstep] at h
    split at h
    · rename_i hc; cases h; exact .put hh hc
    · cases h
  | yield => simp [gstep] at h; subst h; exact .yield

theorem gshape_ok {g g' : Ghost} {i : Instr} (hs : GShape g i g') (ok : GhostOk g) : GhostOk g' := by
  cases hs with
  | get | alloc =>
    refine ⟨?_, ?_⟩
    · intro h hh
      simp only [List.mem_cons] at hh
      show h < g.nh + 1
      rcases hh with rfl | hh
      · omega
      · have := ok.lt h hh; omega
    · refine List.nodup_cons.mpr ⟨?_, ok.nodup⟩
      intro hm; have := ok.lt _ hm; omega
  | write | use | copy | yield => exact ⟨ok.lt, ok.nodup⟩
  | put h hm =>
    exact ⟨fun x hx => ok.lt x (List.mem_of_mem_erase hx), ok.nodup.erase h⟩

/-- a well-formed program whose next instruction is `i`: the ghost step succeeds -/
theorem wfFrom_cons {g : Ghost} {i : Instr} {rest : List Instr} (h : wfFrom g (i :: rest) = true) :
    ∃ g', gstep g i = some g' ∧ wfFrom g' rest = true := by
  simp only [wfFrom] at h
  cases hg : gstep g i with
  | none => rw [hg] at h; cases h
  | some g' => rw [hg] at h; exact ⟨g', rfl, h⟩

theorem wfFrom_append {g : Ghost} {p q : List Instr} :
    wfFrom g (p ++ q) = match gRun g p with
      | some g' => wfFrom g' q
      | none => false := by
  induction p generalizing g with
  | nil => simp [gRun]
  | cons i p ih =>
    simp only [List.cons_append, wfFrom, gRun]
    cases gstep g i with
    | none => rfl
    | some g' => exact ih

theorem gRun_append {g : Ghost} {p q : List Instr} :
    gRun g (p ++ q) = (gRun g p).bind fun g' => gRun g' q := by
  induction p generalizing g with
  | nil => simp [gRun]
  | cons i p ih =>
    simp only [List.cons_append, gRun]
    cases gstep g i with
    | none => rfl
    | some g' => exact ih

theorem wfFrom_of_gRun {g g' : Ghost} {p : List Instr} (h : gRun g p = some g') : wfFrom g p = true := by
  induction p generalizing g with
  | nil => rfl
  | cons i p ih =>
    simp only [gRun] at h
    simp only [wfFrom]
    cases hg : gstep g i with
    | none => rw [hg] at h; cases h
    | some g1 => rw [hg] at h; exact ih h

/-- once a handle is gone (and handles are never reused) no later instruction of a program that
keeps the discipline mentions it -/
theorem no_mention_once_dropped {g : Ghost} (ok : GhostOk g) {h : Nat} (hlt : h < g.nh) (hnl : h ∉ g.live) :
    ∀ (p : List Instr), wfFrom g p = true → ∀ i ∈ p, h ∉ i.handles := by
  intro p
  induction p generalizing g with
  | nil => intro _ i hi; cases hi
  | cons j rest ih =>
    intro hw i hi
    obtain ⟨g', hg, hw'⟩ := wfFrom_cons hw
    have hs := gstep_shape hg
    have ok' := gshape_ok hs ok
    have step : h ∉ j.handles ∧ h < g'.nh ∧ h ∉ g'.live := by
      cases hs with
      | get | alloc =>
        refine ⟨by simp [Instr.handles], Nat.lt_succ_of_lt hlt, ?_⟩
        intro hm
        simp only [List.mem_cons] at hm
        rcases hm with e | hm
        · omega
        · exact hnl hm
      | write h1 off vals hm ho =>
        exact ⟨by simp only [Instr.handles, List.mem_singleton]; intro e; exact hnl (e ▸ hm), hlt, hnl⟩
      | use sl hm ho =>
        exact ⟨by simp only [Instr.handles, List.mem_singleton]; intro e; exact hnl (e ▸ hm), hlt, hnl⟩
      | copy d sl hm1 hm2 ho1 ho2 =>
        refine ⟨?_, hlt, hnl⟩
        simp only [Instr.handles, List.mem_cons, List.mem_nil_iff, or_false]
        intro e
        rcases e with e | e
        · exact hnl (e ▸ hm2)
        · exact hnl (e ▸ hm1)
      | put h1 hm =>
        exact ⟨by simp only [Instr.handles, List.mem_singleton]; intro e; exact hnl (e ▸ hm), hlt,
          fun hm' => hnl (List.mem_of_mem_erase hm')⟩
      | yield => exact ⟨by simp [Instr.handles], hlt, hnl⟩
    simp only [List.mem_cons] at hi
    rcases hi with rfl | hi
    · exact step.1
    · exact ih ok' step.2.1 step.2.2 hw' i hi

/-! ### the global invariant -/

structure Inv (s : State) : Prop where
  wfp : ∀ t, wfFrom (s.thr t).g (s.thr t).prog = true
  gok : ∀ t, GhostOk (s.thr t).g
  owns : ∀ t h, h ∈ (s.thr t).g.live → (s.own ((s.thr t).tbl h)).owner = some t
  inj : ∀ t h h', h ∈ (s.thr t).g.live → h' ∈ (s.thr t).g.live → (s.thr t).tbl h = (s.thr t).tbl h' → h = h'
  poolOk : ∀ a ∈ s.pool, s.own a = .pooled
  poolNodup : s.pool.Nodup
  fresh : ∀ a, s.nArr ≤ a → s.own a = .free

theorem inv_init (progs : Nat → List Instr) (h : ∀ t, wf (progs t) = true) : Inv (init progs) where
  wfp t := h t
  gok _ := ghostOk_init
  owns t h hh := by simp [init, Ghost.init] at hh
  inj t h h' hh := by simp [init, Ghost.init] at hh
  poolOk a ha := by simp [init] at ha
  poolNodup := by simp [init]
  fresh a _ := rfl

/-- two live handles (of any threads) naming the same array are the same handle of the same thread -/
theorem Inv.disjoint {s : State} (I : Inv s) {t u h h' : Nat} (hh : h ∈ (s.thr t).g.live)
    (hh' : h' ∈ (s.thr u).g.live) (e : (s.thr t).tbl h = (s.thr u).tbl h') : t = u := by
  have a := I.owns t h hh
  have b := I.owns u h' hh'
  rw [e] at a; rw [a] at b; exact Option.some.inj b

/-- acquiring an array nobody owns (fresh from the allocator / `New`, or out of the pool) -/
theorem inv_acquire {s : State} (I : Inv s) (t a : Nat) (tg : Own) (rest : List Instr) (n' : Nat) (pool' : List Nat)
    (g' : Ghost) (hg : g' = ⟨(s.thr t).g.nh + 1, (s.thr t).g.nh :: (s.thr t).g.live, upd (s.thr t).g.wr (s.thr t).g.nh 0⟩)
    (hwf : wfFrom g' rest = true)
    (htg : tg.owner = some t) (hfree : (s.own a).owner = none)
    (hn : s.nArr ≤ n') (hn' : ∀ x, n' ≤ x → x ≠ a)
    (hp1 : pool'.Nodup) (hp2 : ∀ x ∈ pool', x ∈ s.pool ∧ x ≠ a) :
    Inv { s with own := upd s.own a tg, nArr := n', pool := pool',
                 thr := upd s.thr t { prog := rest, tbl := upd (s.thr t).tbl (s.thr t).g.nh a, g := g', log := (s.thr t).log } } := by
  have hne : ∀ u h, h ∈ (s.thr u).g.live → (s.thr u).tbl h ≠ a := by
    intro u h hh e
    have := I.owns u h hh
    rw [e, hfree] at this; cases this
  have hlt : ∀ h ∈ (s.thr t).g.live, h ≠ (s.thr t).g.nh := fun h hh => Nat.ne_of_lt ((I.gok t).lt h hh)
  subst hg
  refine ⟨?_, ?_, ?_, ?_, ?_, hp1, ?_⟩
  · intro u
    by_cases hu : u = t
    · subst hu; simpa using hwf
    · simpa [upd_ne _ _ hu] using I.wfp u
  · intro u
    by_cases hu : u = t
    · subst hu; simpa using gshape_ok (GShape.get) (I.gok u)
    · simpa [upd_ne _ _ hu] using I.gok u
  · intro u h hh
    by_cases hu : u = t
    · subst hu
      simp only [upd_same, List.mem_cons] at hh ⊢
      rcases hh with rfl | hh
      · simpa using htg
      · rw [upd_ne _ _ (hlt h hh), upd_ne _ _ (hne u h hh)]; exact I.owns u h hh
    · simp only [upd_ne _ _ hu] at hh ⊢
      rw [upd_ne _ _ (hne u h hh)]; exact I.owns u h hh
  · intro u h h' hh hh' e
    by_cases hu : u = t
    · subst hu
      simp only [upd_same, List.mem_cons] at hh hh' e
      rcases hh with rfl | hh <;> rcases hh' with rfl | hh'
      · rfl
      · rw [upd_same, upd_ne _ _ (hlt h' hh')] at e; exact absurd e.symm (hne u h' hh')
      · rw [upd_same, upd_ne _ _ (hlt h hh)] at e; exact absurd e (hne u h hh)
      · rw [upd_ne _ _ (hlt h hh), upd_ne _ _ (hlt h' hh')] at e; exact I.inj u h h' hh hh' e
    · simp only [upd_ne _ _ hu] at hh hh' e
      exact I.inj u h h' hh hh' e
  · intro x hx
    obtain ⟨hx1, hx2⟩ := hp2 x hx
    simp only
    rw [upd_ne _ _ hx2]; exact I.poolOk x hx1
  · intro x hx
    simp only at hx ⊢
    rw [upd_ne _ _ (hn' x hx)]; exact I.fresh x (Nat.le_trans hn hx)

/-- a step that changes only the heap and the stepping thread's program/log/written-prefix -/
theorem inv_heap_only {s : State} (I : Inv s) (t : Nat) (heap' : Nat → Nat → Byte) (th' : Thread)
    (htbl : th'.tbl = (s.thr t).tbl) (hlive : th'.g.live = (s.thr t).g.live) (hnh : th'.g.nh = (s.thr t).g.nh)
    (hwf : wfFrom th'.g th'.prog = true) :
    Inv { s with heap := heap', thr := upd s.thr t th' } := by
  refine ⟨?_, ?_, ?_, ?_, I.poolOk, I.poolNodup, I.fresh⟩
  · intro u
    by_cases hu : u = t
    · subst hu; simpa using hwf
    · simpa [upd_ne _ _ hu] using I.wfp u
  · intro u
    by_cases hu : u = t
    · subst hu
      simp only [upd_same]
      exact ⟨by rw [hlive, hnh]; exact (I.gok u).lt, by rw [hlive]; exact (I.gok u).nodup⟩
    · simpa [upd_ne _ _ hu] using I.gok u
  · intro u h hh
    by_cases hu : u = t
    · subst hu
      simp only [upd_same] at hh ⊢
      rw [hlive] at hh; rw [htbl]; exact I.owns u h hh
    · simp only [upd_ne _ _ hu] at hh ⊢
      exact I.owns u h hh
  · intro u h h' hh hh' e
    by_cases hu : u = t
    · subst hu
      simp only [upd_same] at hh hh' e
      rw [hlive] at hh hh'; rw [htbl] at e; exact I.inj u h h' hh hh' e
    · simp only [upd_ne _ _ hu] at hh hh' e
      exact I.inj u h h' hh hh' e

/-- giving a held array back to the pool -/
theorem inv_put {s : State} (I : Inv s) (t h : Nat) (rest : List Instr) (hh : h ∈ (s.thr t).g.live)
    (hwf : wfFrom { (s.thr t).g with live := (s.thr t).g.live.erase h } rest = true) :
    Inv { s with own := upd s.own ((s.thr t).tbl h) .pooled, pool := (s.thr t).tbl h :: s.pool,
                 thr := upd s.thr t { (s.thr t) with prog := rest, g := { (s.thr t).g with live := (s.thr t).g.live.erase h } } } := by
  have hown := I.owns t h hh
  have hother : ∀ u h', h' ∈ (s.thr u).g.live → (u ≠ t ∨ h' ≠ h) → (s.thr u).tbl h' ≠ (s.thr t).tbl h := by
    intro u h' hh' hne e
    have hut := I.disjoint hh' hh e
    subst hut
    rcases hne with hne | hne
    · exact hne rfl
    · exact hne (I.inj u h' h hh' hh e)
  refine ⟨?_, ?_, ?_, ?_, ?_, ?_, ?_⟩
  · intro u
    by_cases hu : u = t
    · subst hu; simpa using hwf
    · simpa [upd_ne _ _ hu] using I.wfp u
  · intro u
    by_cases hu : u = t
    · subst hu; simpa using gshape_ok (GShape.put h hh) (I.gok u)
    · simpa [upd_ne _ _ hu] using I.gok u
  · intro u h' hh'
    by_cases hu : u = t
    · subst hu
      simp only [upd_same] at hh' ⊢
      have hm := List.mem_of_mem_erase hh'
      have hne : h' ≠ h := fun e => by
        subst e; exact ((I.gok u).nodup.mem_erase_iff.mp hh').1 rfl
      rw [upd_ne _ _ (hother u h' hm (Or.inr hne))]; exact I.owns u h' hm
    · simp only [upd_ne _ _ hu] at hh' ⊢
      rw [upd_ne _ _ (hother u h' hh' (Or.inl hu))]; exact I.owns u h' hh'
  · intro u h1 h2 hh1 hh2 e
    by_cases hu : u = t
    · subst hu
      simp only [upd_same] at hh1 hh2 e
      exact I.inj u h1 h2 (List.mem_of_mem_erase hh1) (List.mem_of_mem_erase hh2) e
    · simp only [upd_ne _ _ hu] at hh1 hh2 e
      exact I.inj u h1 h2 hh1 hh2 e
  · intro x hx
    simp only [List.mem_cons] at hx
    simp only
    rcases hx with rfl | hx
    · simp
    · by_cases e : x = (s.thr t).tbl h
      · rw [e]; simp
      · rw [upd_ne _ _ e]; exact I.poolOk x hx
  · refine List.nodup_cons.mpr ⟨?_, I.poolNodup⟩
    intro hm
    have := I.poolOk _ hm
    rw [this] at hown; cases hown
  · intro x hx
    simp only at hx ⊢
    have : x ≠ (s.thr t).tbl h := by
      intro e
      have := I.fresh x hx
      rw [e] at this; rw [this] at hown; cases hown
    rw [upd_ne _ _ this]; exact I.fresh x hx

/-- **the invariant is inductive** -/
theorem inv_step {s s' : State} (I : Inv s) {t : Nat} {c : Option Nat} (h : step s t c = some s') : Inv s' := by
  unfold step at h
  cases hp : (s.thr t).prog with
  | nil => simp [hp] at h
  | cons i rest =>
    have hw := I.wfp t
    rw [hp] at hw
    obtain ⟨g', hg, hwf⟩ := wfFrom_cons hw
    have hs := gstep_shape hg
    simp only [hp, hg, Option.getD_some] at h
    cases hs with
    | get =>
      cases c with
      | none =>
        simp only [Option.some.injEq] at h
        subst h
        exact inv_acquire I t s.nArr (.owned t) rest (s.nArr + 1) s.pool _ rfl hwf rfl
          (by rw [I.fresh _ (Nat.le_refl _)]; rfl) (by omega) (by intro x hx; omega) I.poolNodup
          (fun x hx => ⟨hx, fun e => by
            have h1 := I.poolOk x hx
            rw [e, I.fresh _ (Nat.le_refl _)] at h1; cases h1⟩)
      | some a =>
        simp only at h
        split at h
        · rename_i ha
          simp only [Option.some.injEq] at h
          subst h
          have hpa := I.poolOk a ha
          exact inv_acquire I t a (.owned t) rest s.nArr (s.pool.erase a) _ rfl hwf rfl
            (by rw [hpa]; rfl) (Nat.le_refl _)
            (by intro x hx e; rw [e] at hx; rw [I.fresh a hx] at hpa; cases hpa)
            (I.poolNodup.erase a)
            (fun x hx => ⟨List.mem_of_mem_erase hx, fun e => by
              subst e; exact (I.poolNodup.mem_erase_iff.mp hx).1 rfl⟩)
        · cases h
    | alloc n =>
      simp only [Option.some.injEq] at h
      subst h
      exact inv_acquire I t s.nArr (.priv t) rest (s.nArr + 1) s.pool _ rfl hwf rfl
        (by rw [I.fresh _ (Nat.le_refl _)]; rfl) (by omega) (by intro x hx; omega) I.poolNodup
        (fun x hx => ⟨hx, fun e => by
          have h1 := I.poolOk x hx
          rw [e, I.fresh _ (Nat.le_refl _)] at h1; cases h1⟩)
    | write hh off vals hm ho =>
      simp only [Option.some.injEq] at h
      subst h
      exact inv_heap_only I t _ _ rfl rfl rfl hwf
    | use sl hm ho =>
      simp only [Option.some.injEq] at h
      subst h
      exact inv_heap_only I t s.heap _ rfl rfl rfl hwf
    | copy d sl hm1 hm2 ho1 ho2 =>
      simp only [Option.some.injEq] at h
      subst h
      exact inv_heap_only I t _ _ rfl rfl rfl hwf
    | put hh hm =>
      simp only [Option.some.injEq] at h
      subst h
      exact inv_put I t hh rest hm hwf
    | yield =>
      simp only [Option.some.injEq] at h
      subst h
      exact inv_heap_only I t s.heap _ rfl rfl rfl hwf

theorem inv_reach {progs : Nat → List Instr} (hwf : ∀ t, wf (progs t) = true) {s : State} (h : Reach progs s) : Inv s := by
  induction h with
  | init => exact inv_init progs hwf
  | step t c _ hs ih => exact inv_step ih hs

/-- every array the next instruction of any thread touches is owned by / private to that thread -/
theorem accessOk_of_inv {s : State} (I : Inv s) (t : Nat) : accessOk s t = true := by
  unfold accessOk
  cases hp : (s.thr t).prog with
  | nil => rfl
  | cons i rest =>
    have hw := I.wfp t
    rw [hp] at hw
    obtain ⟨g', hg, _⟩ := wfFrom_cons hw
    have hs := gstep_shape hg
    simp only [List.all_eq_true, beq_iff_eq]
    intro h hh
    cases hs with
    | get | alloc | yield => simp [Instr.handles] at hh
    | write h1 off vals hm ho => simp [Instr.handles] at hh; subst hh; exact I.owns t _ hm
    | use sl hm ho => simp [Instr.handles] at hh; subst hh; exact I.owns t _ hm
    | copy d sl hm1 hm2 ho1 ho2 =>
      simp [Instr.handles] at hh
      rcases hh with rfl | rfl
      · exact I.owns t _ hm2
      · exact I.owns t _ hm1
    | put h1 hm => simp [Instr.handles] at hh; subst hh; exact I.owns t _ hm

/-! ### simulation by the run-alone interpreter -/

theorem readCells_congr {m m' : Nat → Byte} {off len : Nat} (h : ∀ j, j < len → m (off + j) = m' (off + j)) :
    readCells m off len = readCells m' off len := by
  unfold readCells
  apply List.map_congr_left
  intro j hj
  exact h j (List.mem_range.mp hj)

theorem writeCells_congr {m m' : Nat → Byte} {off w i : Nat} (vals : List Byte) (how : off ≤ w)
    (hi : i < max w (off + vals.length)) (h : ∀ j, j < w → m j = m' j) :
    writeCells m off vals i = writeCells m' off vals i := by
  unfold writeCells
  by_cases hc : off ≤ i ∧ i < off + vals.length
  · simp [hc]
  · simp only [hc, if_false]
    apply h
    have : i < w ∨ i < off + vals.length := by omega
    omega

/-- thread `t`'s view of the shared heap agrees with its private memory in the run alone -/
structure Sim (s : State) (t : Nat) (r : RefSt) : Prop where
  log : (s.thr t).log = r.log
  nh : (s.thr t).g.nh = r.nh
  mem : ∀ h ∈ (s.thr t).g.live, ∀ i, i < (s.thr t).g.wr h → s.heap ((s.thr t).tbl h) i = r.mem h i

theorem sim_init (progs : Nat → List Instr) (t : Nat) : Sim (init progs) t RefSt.init :=
  ⟨rfl, rfl, fun h hh => by simp [init, Ghost.init] at hh⟩

theorem sim_acquire {s : State} {t : Nat} {r : RefSt} (I : Inv s) (S : Sim s t r) (a : Nat) (rest : List Instr)
    (own' : Nat → Own) (n' : Nat) (pool' : List Nat) :
    Sim { s with own := own', nArr := n', pool := pool',
                 thr := upd s.thr t { prog := rest, tbl := upd (s.thr t).tbl (s.thr t).g.nh a,
                                      g := ⟨(s.thr t).g.nh + 1, (s.thr t).g.nh :: (s.thr t).g.live, upd (s.thr t).g.wr (s.thr t).g.nh 0⟩,
                                      log := (s.thr t).log } } t { r with nh := r.nh + 1 } := by
  refine ⟨by simpa using S.log, by simpa using S.nh, ?_⟩
  intro h hh i hi
  simp only [upd_same, List.mem_cons] at hh hi ⊢
  rcases hh with rfl | hh
  · simp at hi
  · have hne : h ≠ (s.thr t).g.nh := Nat.ne_of_lt ((I.gok t).lt h hh)
    rw [upd_ne _ _ hne] at hi ⊢
    exact S.mem h hh i hi

theorem sim_own_step {s s' : State} {t : Nat} {c : Option Nat} {r : RefSt} {i : Instr} {rest : List Instr}
    (I : Inv s) (hp : (s.thr t).prog = i :: rest) (h : step s t c = some s') (S : Sim s t r) :
    Sim s' t (refStep r i) ∧ (s'.thr t).prog = rest := by
  unfold step at h
  have hw := I.wfp t
  rw [hp] at hw
  obtain ⟨g', hg, hwf⟩ := wfFrom_cons hw
  have hs := gstep_shape hg
  simp only [hp, hg, Option.getD_some] at h
  cases hs with
  | get =>
    cases c with
    | none =>
      simp only [Option.some.injEq] at h
      subst h
      exact ⟨sim_acquire I S _ rest _ _ _, by simp⟩
    | some a =>
      simp only at h
      split at h
      · simp only [Option.some.injEq] at h
        subst h
        exact ⟨sim_acquire I S _ rest _ _ _, by simp⟩
      · cases h
  | alloc n =>
    simp only [Option.some.injEq] at h
    subst h
    exact ⟨sim_acquire I S _ rest _ _ _, by simp⟩
  | write hh off vals hm ho =>
    simp only [Option.some.injEq] at h
    subst h
    refine ⟨⟨by simpa [refStep] using S.log, by simpa [refStep] using S.nh, ?_⟩, by simp⟩
    intro h1 hh1 j hj
    simp only [upd_same, refStep] at hh1 hj ⊢
    by_cases e : h1 = hh
    · subst e
      rw [upd_same] at hj
      rw [upd_same, upd_same]
      exact writeCells_congr vals ho hj (fun k hk => S.mem h1 hm k hk)
    · rw [upd_ne _ _ e] at hj
      have : (s.thr t).tbl h1 ≠ (s.thr t).tbl hh := fun e' => e (I.inj t h1 hh hh1 hm e')
      rw [upd_ne _ _ this, upd_ne _ _ e]
      exact S.mem h1 hh1 j hj
  | use sl hm ho =>
    simp only [Option.some.injEq] at h
    subst h
    refine ⟨⟨?_, by simpa [refStep] using S.nh, ?_⟩, by simp⟩
    · simp only [upd_same, refStep]
      rw [S.log]
      congr 2
      exact readCells_congr fun j hj => S.mem sl.h hm _ (by omega)
    · intro h1 hh1 j hj
      simp only [upd_same, refStep] at hh1 hj ⊢
      exact S.mem h1 hh1 j hj
  | copy d sl hm1 hm2 ho1 ho2 =>
    simp only [Option.some.injEq] at h
    subst h
    refine ⟨⟨by simpa [refStep] using S.log, by simpa [refStep] using S.nh, ?_⟩, by simp⟩
    intro h1 hh1 j hj
    simp only [upd_same, refStep] at hh1 hj ⊢
    have hrd : readCells (s.heap ((s.thr t).tbl sl.h)) sl.off (min d.len sl.len)
        = readCells (r.mem sl.h) sl.off (min d.len sl.len) :=
      readCells_congr fun j hj => S.mem sl.h hm1 _ (by omega)
    by_cases e : h1 = d.h
    · subst e
      rw [upd_same] at hj
      rw [upd_same, upd_same, hrd]
      have hlen : (readCells (r.mem sl.h) sl.off (min d.len sl.len)).length = min d.len sl.len := by
        simp [readCells]
      exact writeCells_congr _ ho2 (by rw [hlen]; exact hj) (fun k hk => S.mem _ hm2 k hk)
    · rw [upd_ne _ _ e] at hj
      have : (s.thr t).tbl h1 ≠ (s.thr t).tbl d.h := fun e' => e (I.inj t h1 d.h hh1 hm2 e')
      rw [upd_ne _ _ this, upd_ne _ _ e]
      exact S.mem h1 hh1 j hj
  | put hh hm =>
    simp only [Option.some.injEq] at h
    subst h
    refine ⟨⟨by simpa [refStep] using S.log, by simpa [refStep] using S.nh, ?_⟩, by simp⟩
    intro h1 hh1 j hj
    simp only [upd_same, refStep] at hh1 hj ⊢
    exact S.mem h1 (List.mem_of_mem_erase hh1) j hj
  | yield =>
    simp only [Option.some.injEq] at h
    subst h
    refine ⟨⟨by simpa [refStep] using S.log, by simpa [refStep] using S.nh, ?_⟩, by simp⟩
    intro h1 hh1 j hj
    simp only [upd_same, refStep] at hh1 hj ⊢
    exact S.mem h1 hh1 j hj

/-- a step of another thread changes neither `t`'s record nor any array `t` holds -/
theorem step_frame {s s' : State} {t u : Nat} {c : Option Nat} (I : Inv s) (hut : u ≠ t)
    (h : step s u c = some s') :
    s'.thr t = s.thr t ∧ ∀ h1 ∈ (s.thr t).g.live, s'.heap ((s.thr t).tbl h1) = s.heap ((s.thr t).tbl h1) := by
  have htu : t ≠ u := fun e => hut e.symm
  unfold step at h
  cases hp : (s.thr u).prog with
  | nil => simp [hp] at h
  | cons i rest =>
    have hw := I.wfp u
    rw [hp] at hw
    obtain ⟨g', hg, hwf⟩ := wfFrom_cons hw
    have hs := gstep_shape hg
    simp only [hp, hg, Option.getD_some] at h
    have hdis : ∀ h1 ∈ (s.thr t).g.live, ∀ h2 ∈ (s.thr u).g.live, (s.thr t).tbl h1 ≠ (s.thr u).tbl h2 :=
      fun h1 hh1 h2 hh2 e => htu (I.disjoint hh1 hh2 e)
    cases hs with
    | get =>
      cases c with
      | none =>
        simp only [Option.some.injEq] at h
        subst h
        exact ⟨by simp [upd_ne _ _ htu], fun _ _ => rfl⟩
      | some a =>
        simp only at h
        split at h
        · simp only [Option.some.injEq] at h
          subst h
          exact ⟨by simp [upd_ne _ _ htu], fun _ _ => rfl⟩
        · cases h
    | alloc n =>
      simp only [Option.some.injEq] at h
      subst h
      exact ⟨by simp [upd_ne _ _ htu], fun _ _ => rfl⟩
    | write hh off vals hm ho =>
      simp only [Option.some.injEq] at h
      subst h
      exact ⟨by simp [upd_ne _ _ htu], fun h1 hh1 => by simp [upd_ne _ _ (hdis h1 hh1 hh hm)]⟩
    | use sl hm ho =>
      simp only [Option.some.injEq] at h
      subst h
      exact ⟨by simp [upd_ne _ _ htu], fun _ _ => rfl⟩
    | copy d sl hm1 hm2 ho1 ho2 =>
      simp only [Option.some.injEq] at h
      subst h
      exact ⟨by simp [upd_ne _ _ htu], fun h1 hh1 => by simp [upd_ne _ _ (hdis h1 hh1 d.h hm2)]⟩
    | put hh hm =>
      simp only [Option.some.injEq] at h
      subst h
      exact ⟨by simp [upd_ne _ _ htu], fun _ _ => rfl⟩
    | yield =>
      simp only [Option.some.injEq] at h
      subst h
      exact ⟨by simp [upd_ne _ _ htu], fun _ _ => rfl⟩

theorem sim_other_step {s s' : State} {t u : Nat} {c : Option Nat} {r : RefSt} (I : Inv s) (hut : u ≠ t)
    (h : step s u c = some s') (S : Sim s t r) : Sim s' t r ∧ (s'.thr t).prog = (s.thr t).prog := by
  obtain ⟨h1, h2⟩ := step_frame I hut h
  refine ⟨⟨by rw [h1]; exact S.log, by rw [h1]; exact S.nh, ?_⟩, by rw [h1]⟩
  intro hh hm j hj
  rw [h1] at hm hj ⊢
  rw [h2 hh hm]
  exact S.mem hh hm j hj

theorem refRun_snoc (r : RefSt) (p : List Instr) (i : Instr) : refRun r (p ++ [i]) = refStep (refRun r p) i := by
  simp [refRun, List.foldl_append]

/-- **per-thread simulation**: in every reachable state, the part `done` of `t`'s program that
has been executed, run alone, yields exactly `t`'s log (and its view of the arrays it holds) -/
theorem sim_reach {progs : Nat → List Instr} (hwf : ∀ t, wf (progs t) = true) {s : State} (h : Reach progs s) (t : Nat) :
    ∃ done, progs t = done ++ (s.thr t).prog ∧ Sim s t (refRun RefSt.init done) := by
  induction h with
  | init => exact ⟨[], rfl, sim_init progs t⟩
  | @step s s' u c hr hs ih =>
    obtain ⟨done, hd, S⟩ := ih
    have I := inv_reach hwf hr
    by_cases hut : u = t
    · subst hut
      cases hp : (s.thr u).prog with
      | nil => simp [step, hp] at hs
      | cons i rest =>
        obtain ⟨S', hrest⟩ := sim_own_step I hp hs S
        refine ⟨done ++ [i], ?_, ?_⟩
        · rw [hrest, hd, hp]; simp
        · rw [refRun_snoc]; exact S'
    · obtain ⟨S', hrest⟩ := sim_other_step I hut hs S
      exact ⟨done, by rw [hrest]; exact hd, S'⟩

end Kit.PoolOwn
