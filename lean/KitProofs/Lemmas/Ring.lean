import KitModel.Ring
import Mathlib.Tactic.Tauto
import Mathlib.Data.List.Perm.Subperm
/-! Helper lemmas for C14: heap field algebra, well-formed rings on the heap, effect of
`Link`/`Unlink`/`Move`/`Len`/`New` on them. -/
namespace Kit.Ring

variable {α : Type}

/-! ### field algebra -/

@[simp] theorem size_setNext (h : Heap α) (i v : Nat) : (setNext h i v).size = h.size := by simp [setNext]
@[simp] theorem size_setPrev (h : Heap α) (i v : Nat) : (setPrev h i v).size = h.size := by simp [setPrev]
@[simp] theorem size_setVal (h : Heap α) (i : Nat) (v : α) : (setVal h i v).size = h.size := by simp [setVal]
@[simp] theorem size_initNode (h : Heap α) (r : Nat) : (initNode h r).size = h.size := by simp [initNode]

theorem rawNext_setNext (h : Heap α) (i v j : Nat) :
    rawNext (setNext h i v) j = if j = i ∧ i < h.size then some v else rawNext h j := by
  unfold rawNext setNext
  rw [Array.getElem?_modify]
  by_cases hij : i = j
  · subst hij
    by_cases hi : i < h.size <;> simp [hi]
  · have : ¬ (j = i ∧ i < h.size) := fun ⟨a, _⟩ => hij a.symm
    simp [hij, this]

theorem rawPrev_setPrev (h : Heap α) (i v j : Nat) :
    rawPrev (setPrev h i v) j = if j = i ∧ i < h.size then some v else rawPrev h j := by
  unfold rawPrev setPrev
  rw [Array.getElem?_modify]
  by_cases hij : i = j
  · subst hij
    by_cases hi : i < h.size <;> simp [hi]
  · have : ¬ (j = i ∧ i < h.size) := fun ⟨a, _⟩ => hij a.symm
    simp [hij, this]

@[simp] theorem rawPrev_setNext (h : Heap α) (i v j : Nat) : rawPrev (setNext h i v) j = rawPrev h j := by
  unfold rawPrev setNext
  rw [Array.getElem?_modify]
  by_cases hij : i = j
  · subst hij; cases h[i]? <;> simp
  · simp [hij]

@[simp] theorem rawNext_setPrev (h : Heap α) (i v j : Nat) : rawNext (setPrev h i v) j = rawNext h j := by
  unfold rawNext setPrev
  rw [Array.getElem?_modify]
  by_cases hij : i = j
  · subst hij; cases h[i]? <;> simp
  · simp [hij]

@[simp] theorem rawNext_setVal (h : Heap α) (i : Nat) (v : α) (j : Nat) : rawNext (setVal h i v) j = rawNext h j := by
  unfold rawNext setVal
  rw [Array.getElem?_modify]
  by_cases hij : i = j
  · subst hij; cases h[i]? <;> simp
  · simp [hij]

@[simp] theorem rawPrev_setVal (h : Heap α) (i : Nat) (v : α) (j : Nat) : rawPrev (setVal h i v) j = rawPrev h j := by
  unfold rawPrev setVal
  rw [Array.getElem?_modify]
  by_cases hij : i = j
  · subst hij; cases h[i]? <;> simp
  · simp [hij]

theorem nx_setNext (h : Heap α) (i v j : Nat) :
    nx (setNext h i v) j = if j = i ∧ i < h.size then v else nx h j := by
  unfold nx; rw [rawNext_setNext]; split <;> simp

theorem pv_setPrev (h : Heap α) (i v j : Nat) :
    pv (setPrev h i v) j = if j = i ∧ i < h.size then v else pv h j := by
  unfold pv; rw [rawPrev_setPrev]; split <;> simp

theorem vl_setVal [Inhabited α] (h : Heap α) (i : Nat) (v : α) (j : Nat) :
    vl (setVal h i v) j = if j = i ∧ i < h.size then v else vl h j := by
  unfold vl setVal
  rw [Array.getElem?_modify]
  by_cases hij : i = j
  · subst hij
    by_cases hi : i < h.size <;> simp [hi]
  · have : ¬ (j = i ∧ i < h.size) := fun ⟨a, _⟩ => hij a.symm
    simp [hij, this]

@[simp] theorem pv_setNext (h : Heap α) (i v j : Nat) : pv (setNext h i v) j = pv h j := by simp [pv]
@[simp] theorem nx_setPrev (h : Heap α) (i v j : Nat) : nx (setPrev h i v) j = nx h j := by simp [nx]
@[simp] theorem nx_setVal (h : Heap α) (i : Nat) (v : α) (j : Nat) : nx (setVal h i v) j = nx h j := by simp [nx]
@[simp] theorem pv_setVal (h : Heap α) (i : Nat) (v : α) (j : Nat) : pv (setVal h i v) j = pv h j := by simp [pv]

@[simp] theorem vl_setNext [Inhabited α] (h : Heap α) (i v j : Nat) : vl (setNext h i v) j = vl h j := by
  unfold vl setNext
  rw [Array.getElem?_modify]
  by_cases hij : i = j
  · subst hij; cases h[i]? <;> simp
  · simp [hij]

@[simp] theorem vl_setPrev [Inhabited α] (h : Heap α) (i v j : Nat) : vl (setPrev h i v) j = vl h j := by
  unfold vl setPrev
  rw [Array.getElem?_modify]
  by_cases hij : i = j
  · subst hij; cases h[i]? <;> simp
  · simp [hij]

/-! `init()` is invisible to the logical links: a nil link already counted as a self link -/

theorem rawNext_initNode (h : Heap α) (r j : Nat) :
    rawNext (initNode h r) j = if j = r ∧ r < h.size then some (nx h r) else rawNext h j := by
  unfold initNode nx rawNext
  rw [Array.getElem?_modify]
  by_cases hij : r = j
  · subst hij
    by_cases hi : r < h.size <;> simp [hi]
  · have : ¬ (j = r ∧ r < h.size) := fun ⟨a, _⟩ => hij a.symm
    simp [hij, this]

theorem rawPrev_initNode (h : Heap α) (r j : Nat) :
    rawPrev (initNode h r) j = if j = r ∧ r < h.size then some (pv h r) else rawPrev h j := by
  unfold initNode pv rawPrev
  rw [Array.getElem?_modify]
  by_cases hij : r = j
  · subst hij
    by_cases hi : r < h.size <;> simp [hi]
  · have : ¬ (j = r ∧ r < h.size) := fun ⟨a, _⟩ => hij a.symm
    simp [hij, this]

@[simp] theorem nx_initNode (h : Heap α) (r j : Nat) : nx (initNode h r) j = nx h j := by
  show (rawNext (initNode h r) j).getD j = nx h j
  rw [rawNext_initNode]
  split
  · next hc => obtain ⟨rfl, _⟩ := hc; simp
  · rfl

@[simp] theorem pv_initNode (h : Heap α) (r j : Nat) : pv (initNode h r) j = pv h j := by
  show (rawPrev (initNode h r) j).getD j = pv h j
  rw [rawPrev_initNode]
  split
  · next hc => obtain ⟨rfl, _⟩ := hc; simp
  · rfl

@[simp] theorem vl_initNode [Inhabited α] (h : Heap α) (r j : Nat) : vl (initNode h r) j = vl h j := by
  unfold initNode vl
  rw [Array.getElem?_modify]
  by_cases hij : r = j
  · subst hij; cases h[r]? <;> simp
  · simp [hij]

theorem nx_push (h : Heap α) (n : Node α) (j : Nat) :
    nx (h.push n) j = if j = h.size then n.next.getD h.size else nx h j := by
  unfold nx rawNext
  rw [Array.getElem?_push]
  by_cases hj : j = h.size <;> simp [hj]

theorem pv_push (h : Heap α) (n : Node α) (j : Nat) :
    pv (h.push n) j = if j = h.size then n.prev.getD h.size else pv h j := by
  unfold pv rawPrev
  rw [Array.getElem?_push]
  by_cases hj : j = h.size <;> simp [hj]

theorem rawNext_push (h : Heap α) (n : Node α) (j : Nat) :
    rawNext (h.push n) j = if j = h.size then n.next else rawNext h j := by
  unfold rawNext
  rw [Array.getElem?_push]
  by_cases hj : j = h.size <;> simp [hj]

theorem rawPrev_push (h : Heap α) (n : Node α) (j : Nat) :
    rawPrev (h.push n) j = if j = h.size then n.prev else rawPrev h j := by
  unfold rawPrev
  rw [Array.getElem?_push]
  by_cases hj : j = h.size <;> simp [hj]

theorem vl_push [Inhabited α] (h : Heap α) (n : Node α) (j : Nat) :
    vl (h.push n) j = if j = h.size then n.val else vl h j := by
  unfold vl
  rw [Array.getElem?_push]
  by_cases hj : j = h.size <;> simp [hj]

/-! ### well-formed rings -/

/-- last element of the non-empty list `a :: xs` -/
def lastOf : Nat → List Nat → Nat
  | a, [] => a
  | _, x :: xs => lastOf x xs

@[simp] theorem lastOf_nil (a : Nat) : lastOf a [] = a := rfl
@[simp] theorem lastOf_cons (a x : Nat) (xs : List Nat) : lastOf a (x :: xs) = lastOf x xs := rfl

@[simp] theorem lastOf_append_cons (a : Nat) (xs : List Nat) (b : Nat) (ys : List Nat) :
    lastOf a (xs ++ b :: ys) = lastOf b ys := by
  induction xs generalizing a with
  | nil => rfl
  | cons x xs ih => simp [ih]

theorem lastOf_mem (a : Nat) (xs : List Nat) : lastOf a xs ∈ a :: xs := by
  induction xs generalizing a with
  | nil => simp
  | cons x xs ih => simp only [lastOf_cons]; exact List.mem_cons_of_mem _ (ih x)

/-- consecutive elements are linked in both directions -/
def Links (h : Heap α) : List Nat → Prop
  | [] => True
  | [_] => True
  | a :: b :: rest => nx h a = b ∧ pv h b = a ∧ Links h (b :: rest)

@[simp] theorem links_single (h : Heap α) (a : Nat) : Links h [a] := trivial
@[simp] theorem links_cons_cons (h : Heap α) (a b : Nat) (r : List Nat) :
    Links h (a :: b :: r) ↔ nx h a = b ∧ pv h b = a ∧ Links h (b :: r) := Iff.rfl

theorem links_append (h : Heap α) (a : Nat) (xs : List Nat) (b : Nat) (ys : List Nat) :
    Links h (a :: xs ++ b :: ys) ↔
      Links h (a :: xs) ∧ nx h (lastOf a xs) = b ∧ pv h b = lastOf a xs ∧ Links h (b :: ys) := by
  induction xs generalizing a with
  | nil => simp
  | cons x xs ih =>
    have := ih x
    simp only [List.cons_append] at this ⊢
    simp only [links_cons_cons, this, lastOf_cons]
    constructor
    · rintro ⟨h1, h2, h3, h4, h5, h6⟩; exact ⟨⟨h1, h2, h3⟩, h4, h5, h6⟩
    · rintro ⟨⟨h1, h2, h3⟩, h4, h5, h6⟩; exact ⟨h1, h2, h3, h4, h5, h6⟩

/-- `Links` only reads `next` of all but the last element and `prev` of all but the first -/
theorem links_congr {h h' : Heap α} (a : Nat) (xs : List Nat)
    (hn : ∀ x ∈ (a :: xs).dropLast, nx h' x = nx h x)
    (hp : ∀ y ∈ xs, pv h' y = pv h y) (hl : Links h (a :: xs)) : Links h' (a :: xs) := by
  induction xs generalizing a with
  | nil => trivial
  | cons x xs ih =>
    obtain ⟨h1, h2, h3⟩ := hl
    refine ⟨?_, ?_, ?_⟩
    · rw [hn a (by simp)]; exact h1
    · rw [hp x (by simp)]; exact h2
    · refine ih x ?_ ?_ h3
      · intro y hy; exact hn y (by simp [hy])
      · intro y hy; exact hp y (List.mem_cons_of_mem _ hy)

theorem mem_dropLast_ne_last (a : Nat) (xs : List Nat) (hnd : (a :: xs).Nodup) :
    ∀ y ∈ (a :: xs).dropLast, y ≠ lastOf a xs := by
  induction xs generalizing a with
  | nil => simp
  | cons x xs ih =>
    intro y hy
    simp only [List.dropLast_cons_cons, List.mem_cons] at hy
    simp only [lastOf_cons]
    rcases hy with rfl | hy
    · intro he
      have : lastOf x xs ∈ x :: xs := lastOf_mem x xs
      rw [← he] at this
      exact (List.nodup_cons.mp hnd).1 this
    · exact ih x (List.nodup_cons.mp hnd).2 y hy

theorem mem_of_mem_dropLast {l : List Nat} {y : Nat} (h : y ∈ l.dropLast) : y ∈ l :=
  List.dropLast_subset l h

/-- `IsRing h l`: following `next` from the head of `l` visits exactly `l` in order and comes back;
`prev` is the inverse; the nodes are distinct and allocated. -/
def IsRing (h : Heap α) : List Nat → Prop
  | [] => False
  | a :: xs => Links h (a :: xs) ∧ nx h (lastOf a xs) = a ∧ pv h a = lastOf a xs ∧
      (a :: xs).Nodup ∧ ∀ x ∈ a :: xs, x < h.size

theorem IsRing.congr {h h' : Heap α} {l : List Nat} (hr : IsRing h l)
    (hn : ∀ x ∈ l, nx h' x = nx h x) (hp : ∀ x ∈ l, pv h' x = pv h x) (hs : h.size ≤ h'.size) :
    IsRing h' l := by
  cases l with
  | nil => exact hr
  | cons a xs =>
    obtain ⟨h1, h2, h3, h4, h5⟩ := hr
    refine ⟨links_congr a xs (fun x hx => hn x (mem_of_mem_dropLast hx)) (fun y hy => hp y (List.mem_cons_of_mem _ hy)) h1, ?_, ?_, h4,
      fun x hx => Nat.lt_of_lt_of_le (h5 x hx) hs⟩
    · rw [hn _ (lastOf_mem a xs)]; exact h2
    · rw [hp a (by simp)]; exact h3

/-- rotation by one: the ring seen from the second element -/
theorem IsRing.rotate {h : Heap α} {a : Nat} {xs : List Nat} (hr : IsRing h (a :: xs)) :
    IsRing h (xs ++ [a]) := by
  cases xs with
  | nil => exact hr
  | cons x xs =>
    obtain ⟨h1, h2, h3, h4, h5⟩ := hr
    obtain ⟨l1, l2, l3⟩ := h1
    simp only [lastOf_cons] at h2 h3
    show IsRing h (x :: (xs ++ [a]))
    refine ⟨?_, ?_, ?_, ?_, ?_⟩
    · have := (links_append h x xs a []).mpr ⟨l3, h2, h3, trivial⟩
      simpa using this
    · simpa using l1
    · simpa using l2
    · have : (x :: (xs ++ [a])).Perm (a :: x :: xs) := by
        have := List.perm_append_comm (l₁ := [a]) (l₂ := x :: xs)
        simpa using this.symm
      exact this.nodup_iff.mpr h4
    · intro y hy
      apply h5
      simp only [List.mem_cons, List.mem_append, List.not_mem_nil, or_false] at hy ⊢
      rcases hy with rfl | hy | rfl <;> simp [*]

/-! ### `Link` -/

theorem link_fst (h : Heap α) (r s : Nat) :
    (link h r (some s)).1 =
      setNext (setPrev (setPrev (setNext (initNode (initNode h r) s) r s) s r) (nx h r) (pv h s)) (pv h s) (nx h r) := by
  simp only [link, nx_initNode, pv_initNode]
@[simp] theorem link_snd (h : Heap α) (r : Nat) (s : Option Nat) : (link h r s).2 = nx h r := by
  cases s <;> simp [link]
@[simp] theorem link_none (h : Heap α) (r : Nat) : (link h r none).1 = initNode h r := rfl

@[simp] theorem size_link (h : Heap α) (r : Nat) (s : Option Nat) : (link h r s).1.size = h.size := by
  cases s <;> simp [link]

@[simp] theorem vl_link [Inhabited α] (h : Heap α) (r : Nat) (s : Option Nat) (x : Nat) :
    vl (link h r s).1 x = vl h x := by
  cases s <;> simp [link]

theorem nx_link (h : Heap α) (r s : Nat) (hr : r < h.size) (hp : pv h s < h.size) (x : Nat) :
    nx (link h r (some s)).1 x = if x = pv h s then nx h r else if x = r then s else nx h x := by
  rw [link_fst, nx_setNext]
  simp only [size_setPrev, size_setNext, size_initNode, hp, and_true, nx_setPrev, nx_setNext, hr, nx_initNode]

theorem pv_link (h : Heap α) (r s : Nat) (hs : s < h.size) (hn : nx h r < h.size) (y : Nat) :
    pv (link h r (some s)).1 y = if y = nx h r then pv h s else if y = s then r else pv h y := by
  rw [link_fst, pv_setNext, pv_setPrev]
  simp only [size_setPrev, size_setNext, size_initNode, hn, and_true, pv_setPrev, pv_setNext, hs, pv_initNode]

theorem IsRing.head_lt {h : Heap α} {a : Nat} {xs : List Nat} (hr : IsRing h (a :: xs)) : a < h.size :=
  hr.2.2.2.2 a (by simp)
theorem IsRing.last_lt {h : Heap α} {a : Nat} {xs : List Nat} (hr : IsRing h (a :: xs)) : lastOf a xs < h.size :=
  hr.2.2.2.2 _ (lastOf_mem a xs)
theorem IsRing.mem_lt {h : Heap α} {l : List Nat} (hr : IsRing h l) {x : Nat} (hx : x ∈ l) : x < h.size := by
  cases l with
  | nil => cases hx
  | cons a xs => exact hr.2.2.2.2 x hx
theorem IsRing.nodup {h : Heap α} {l : List Nat} (hr : IsRing h l) : l.Nodup := by
  cases l with
  | nil => exact List.nodup_nil
  | cons a xs => exact hr.2.2.2.1

theorem head_not_mem_tail {a : Nat} {xs : List Nat} (hnd : (a :: xs).Nodup) : ∀ y ∈ xs, y ≠ a := by
  intro y hy he; subst he; exact (List.nodup_cons.mp hnd).1 hy

/-- **Link of two different rings** (`r` = last of the first as listed, `s` = head of the second):
one ring, the elements of `s`'s ring inserted after `r`; the result is the old `r.Next()`. -/
theorem link_concat {h : Heap α} {a : Nat} {xs : List Nat} {s : Nat} {ys : List Nat}
    (h1 : IsRing h (a :: xs)) (h2 : IsRing h (s :: ys))
    (hdis : ∀ x ∈ a :: xs, ∀ y ∈ s :: ys, x ≠ y) :
    IsRing (link h (lastOf a xs) (some s)).1 (a :: xs ++ s :: ys) ∧ (link h (lastOf a xs) (some s)).2 = a := by
  obtain ⟨l1, c1, d1, nd1, b1⟩ := id h1
  obtain ⟨l2, c2, d2, nd2, b2⟩ := id h2
  have hr := h1.last_lt
  have hs := h2.head_lt
  have hn : nx h (lastOf a xs) < h.size := by rw [c1]; exact h1.head_lt
  have hp : pv h s < h.size := by rw [d2]; exact h2.last_lt
  have NX := nx_link h (lastOf a xs) s hr hp
  have PV := pv_link h (lastOf a xs) s hs hn
  rw [c1] at NX PV; rw [d2] at NX PV
  have rmem := lastOf_mem a xs
  have pmem := lastOf_mem s ys
  have hrp : lastOf a xs ≠ lastOf s ys := hdis _ rmem _ pmem
  have hsa : s ≠ a := fun e => hdis a (by simp) s (by simp) e.symm
  refine ⟨?_, by simp [c1]⟩
  show IsRing _ (a :: (xs ++ s :: ys))
  refine ⟨?_, ?_, ?_, ?_, ?_⟩
  · rw [← List.cons_append, links_append]
    refine ⟨?_, ?_, ?_, ?_⟩
    · refine links_congr a xs ?_ ?_ l1
      · intro x hx
        have hxm := mem_of_mem_dropLast hx
        rw [NX, if_neg (hdis x hxm _ pmem), if_neg (mem_dropLast_ne_last a xs nd1 x hx)]
      · intro y hy
        rw [PV, if_neg (head_not_mem_tail nd1 y hy), if_neg (hdis y (List.mem_cons_of_mem _ hy) s (by simp))]
    · rw [NX, if_neg hrp, if_pos rfl]
    · rw [PV, if_neg hsa, if_pos rfl]
    · refine links_congr s ys ?_ ?_ l2
      · intro x hx
        have hxm := mem_of_mem_dropLast hx
        rw [NX, if_neg (mem_dropLast_ne_last s ys nd2 x hx), if_neg (fun e => hdis _ rmem x hxm e.symm)]
      · intro y hy
        rw [PV, if_neg (fun e => hdis a (by simp) y (List.mem_cons_of_mem _ hy) e.symm), if_neg (head_not_mem_tail nd2 y hy)]
  · rw [lastOf_append_cons, NX, if_pos rfl]
  · rw [lastOf_append_cons, PV, if_pos rfl]
  · rw [← List.cons_append]
    exact List.nodup_append.mpr ⟨nd1, nd2, hdis⟩
  · intro x hx
    rw [size_link]
    rw [← List.cons_append] at hx
    rcases List.mem_append.mp hx with hx | hx
    · exact b1 x hx
    · exact b2 x hx

/-- **Link within one ring**: `r` (last of the first block) linked to `s` (head of the third)
removes the block in between, which becomes a ring of its own and is the result. -/
theorem link_split {h : Heap α} {a : Nat} {xs : List Nat} {m : Nat} {ms : List Nat} {s : Nat} {ys : List Nat}
    (hr : IsRing h (a :: xs ++ m :: ms ++ s :: ys)) :
    IsRing (link h (lastOf a xs) (some s)).1 (a :: xs ++ s :: ys) ∧
    IsRing (link h (lastOf a xs) (some s)).1 (m :: ms) ∧
    (link h (lastOf a xs) (some s)).2 = m := by
  have hr' : IsRing h (a :: (xs ++ m :: ms ++ s :: ys)) := hr
  obtain ⟨l, c, d, nd, b⟩ := id hr'
  -- split the links
  have e1 : a :: (xs ++ m :: ms ++ s :: ys) = a :: xs ++ m :: (ms ++ s :: ys) := by simp
  rw [e1, links_append] at l
  obtain ⟨lP, jn1, jp1, lMS⟩ := l
  rw [← List.cons_append, links_append] at lMS
  obtain ⟨lM, jn2, jp2, lS⟩ := lMS
  have clast : lastOf a (xs ++ m :: ms ++ s :: ys) = lastOf s ys := by
    rw [List.append_assoc, List.cons_append, lastOf_append_cons, lastOf_append_cons]
  rw [clast] at c d
  -- membership and distinctness
  have mem : ∀ x, x ∈ a :: (xs ++ m :: ms ++ s :: ys) ↔ x ∈ a :: xs ∨ x ∈ m :: ms ∨ x ∈ s :: ys := by
    intro x; simp only [List.mem_cons, List.mem_append]; tauto
  have nd' : (a :: xs ++ (m :: ms ++ s :: ys)).Nodup := by simpa using nd
  obtain ⟨ndP, ndMS, disP⟩ := List.nodup_append.mp nd'
  obtain ⟨ndM, ndS, disMS⟩ := List.nodup_append.mp ndMS
  have disPM : ∀ x ∈ a :: xs, ∀ y ∈ m :: ms, x ≠ y := fun x hx y hy => disP x hx y (List.mem_append_left _ hy)
  have disPS : ∀ x ∈ a :: xs, ∀ y ∈ s :: ys, x ≠ y := fun x hx y hy => disP x hx y (List.mem_append_right _ hy)
  have rmem := lastOf_mem a xs
  have pmem := lastOf_mem m ms
  have zmem := lastOf_mem s ys
  have hrlt : lastOf a xs < h.size := b _ ((mem _).mpr (.inl rmem))
  have hslt : s < h.size := b _ ((mem _).mpr (.inr (.inr (by simp))))
  have hn : nx h (lastOf a xs) < h.size := by rw [jn1]; exact b _ ((mem _).mpr (.inr (.inl (by simp))))
  have hp : pv h s < h.size := by rw [jp2]; exact b _ ((mem _).mpr (.inr (.inl pmem)))
  have NX := nx_link h (lastOf a xs) s hrlt hp
  have PV := pv_link h (lastOf a xs) s hslt hn
  rw [jn1] at NX PV; rw [jp2] at NX PV
  have hrp : lastOf a xs ≠ lastOf m ms := disPM _ rmem _ pmem
  have hsm : s ≠ m := fun e => disMS m (by simp) s (by simp) e.symm
  refine ⟨?_, ?_, by simp [jn1]⟩
  · show IsRing _ (a :: (xs ++ s :: ys))
    refine ⟨?_, ?_, ?_, ?_, ?_⟩
    · rw [← List.cons_append, links_append]
      refine ⟨?_, ?_, ?_, ?_⟩
      · refine links_congr a xs ?_ ?_ lP
        · intro x hx
          have hxm := mem_of_mem_dropLast hx
          rw [NX, if_neg (disPM x hxm _ pmem), if_neg (mem_dropLast_ne_last a xs ndP x hx)]
        · intro y hy
          rw [PV, if_neg (disPM y (List.mem_cons_of_mem _ hy) m (by simp)),
            if_neg (disPS y (List.mem_cons_of_mem _ hy) s (by simp))]
      · rw [NX, if_neg hrp, if_pos rfl]
      · rw [PV, if_neg hsm, if_pos rfl]
      · refine links_congr s ys ?_ ?_ lS
        · intro x hx
          have hxm := mem_of_mem_dropLast hx
          rw [NX, if_neg (fun e => disMS _ pmem x hxm e.symm), if_neg (fun e => disPS _ rmem x hxm e.symm)]
        · intro y hy
          rw [PV, if_neg (fun e => disMS m (by simp) y (List.mem_cons_of_mem _ hy) e.symm),
            if_neg (head_not_mem_tail ndS y hy)]
    · rw [lastOf_append_cons, NX, if_neg (fun e => disMS _ pmem _ zmem e.symm),
        if_neg (fun e => disPS _ rmem _ zmem e.symm)]
      exact c
    · rw [lastOf_append_cons, PV, if_neg (disPM a (by simp) m (by simp)), if_neg (disPS a (by simp) s (by simp))]
      exact d
    · rw [← List.cons_append]
      exact List.nodup_append.mpr ⟨ndP, ndS, disPS⟩
    · intro x hx
      rw [size_link]
      rw [← List.cons_append] at hx
      rcases List.mem_append.mp hx with hx | hx
      · exact b x ((mem x).mpr (.inl hx))
      · exact b x ((mem x).mpr (.inr (.inr hx)))
  · refine ⟨?_, ?_, ?_, ndM, ?_⟩
    · refine links_congr m ms ?_ ?_ lM
      · intro x hx
        have hxm := mem_of_mem_dropLast hx
        rw [NX, if_neg (mem_dropLast_ne_last m ms ndM x hx), if_neg (fun e => disPM _ rmem x hxm e.symm)]
      · intro y hy
        rw [PV, if_neg (head_not_mem_tail ndM y hy), if_neg (disMS y (List.mem_cons_of_mem _ hy) s (by simp))]
    · rw [NX, if_pos rfl]
    · rw [PV, if_pos rfl]
    · intro x hx
      rw [size_link]
      exact b x ((mem x).mpr (.inr (.inl hx)))

/-- linking `r` to its own successor changes nothing -/
theorem link_next_noop {h : Heap α} {a : Nat} {xs : List Nat} {s : Nat} {ys : List Nat}
    (hr : IsRing h (a :: xs ++ s :: ys)) :
    IsRing (link h (lastOf a xs) (some s)).1 (a :: xs ++ s :: ys) ∧ (link h (lastOf a xs) (some s)).2 = s := by
  have hr' : IsRing h (a :: (xs ++ s :: ys)) := hr
  obtain ⟨l, c, d, nd, b⟩ := id hr'
  rw [← List.cons_append, links_append] at l
  obtain ⟨lP, jn, jp, lS⟩ := l
  have rmem := lastOf_mem a xs
  have hrlt : lastOf a xs < h.size := b _ (by rw [← List.cons_append]; exact List.mem_append_left _ rmem)
  have hslt : s < h.size := b _ (by simp)
  have NX := nx_link h (lastOf a xs) s hrlt (by rw [jp]; exact hrlt)
  have PV := pv_link h (lastOf a xs) s hslt (by rw [jn]; exact hslt)
  rw [jn] at NX PV; rw [jp] at NX PV
  refine ⟨hr'.congr ?_ ?_ (by simp), by simp [jn]⟩
  · intro x _
    rw [NX]; by_cases hx : x = lastOf a xs
    · simp [hx, jn]
    · simp [hx]
  · intro y _
    rw [PV]; by_cases hy : y = s
    · simp [hy, jp]
    · simp [hy]

/-! ### `Move`, `Len` -/

@[simp] theorem iter_zero (f : Nat → Nat) (r : Nat) : iter f 0 r = r := rfl
@[simp] theorem iter_succ (f : Nat → Nat) (k r : Nat) : iter f (k + 1) r = iter f k (f r) := rfl

theorem iter_next_links {h : Heap α} (a : Nat) (xs : List Nat) (b : Nat) (ys : List Nat)
    (hl : Links h (a :: xs ++ b :: ys)) : iter (nx h) (xs.length + 1) a = b := by
  induction xs generalizing a with
  | nil => exact hl.1
  | cons x xs ih =>
    obtain ⟨h1, _, h3⟩ := hl
    simp only [List.length_cons, iter_succ, h1]
    exact ih x h3

theorem move_nonneg (h : Heap α) (r : Nat) (k : Nat) : move h r (k : Int) = iter (nx h) k r := by
  have : ¬ ((k : Int) < 0) := by omega
  simp [move, this]

/-- `Move(k)` from the head of the listing lands on its `k`-th element (no wrap-around needed) -/
theorem move_head {h : Heap α} {a : Nat} {xs : List Nat} {b : Nat} {ys : List Nat}
    (hr : IsRing h (a :: xs ++ b :: ys)) : move h a ((xs.length + 1 : Nat) : Int) = b := by
  rw [move_nonneg]; exact iter_next_links a xs b ys hr.1

theorem length_le_of_nodup_lt (l : List Nat) (n : Nat) (hnd : l.Nodup) (hb : ∀ x ∈ l, x < n) : l.length ≤ n := by
  have : l.Subperm (List.range n) := List.subperm_of_subset hnd (fun x hx => List.mem_range.mpr (hb x hx))
  simpa using this.length_le

theorem IsRing.length_le {h : Heap α} {l : List Nat} (hr : IsRing h l) : l.length ≤ h.size :=
  length_le_of_nodup_lt l h.size hr.nodup (fun _ hx => hr.mem_lt hx)

theorem lenLoop_links {h : Heap α} (r p : Nat) (ys : List Nat) (fuel acc : Nat)
    (hl : Links h (p :: ys)) (hc : nx h (lastOf p ys) = r) (hnr : r ∉ p :: ys) (hf : ys.length + 1 ≤ fuel) :
    lenLoop h r fuel p acc = acc + (ys.length + 1) := by
  induction ys generalizing p fuel acc with
  | nil =>
    cases fuel with
    | zero => omega
    | succ f =>
      have hp : p ≠ r := fun e => hnr (by simp [e])
      simp only [lenLoop, hp, if_false]
      simp only [lastOf_nil] at hc
      rw [hc]
      cases f with
      | zero => simp [lenLoop]
      | succ f => simp [lenLoop]
  | cons y ys ih =>
    cases fuel with
    | zero => simp at hf
    | succ f =>
      have hp : p ≠ r := fun e => hnr (by simp [e])
      obtain ⟨h1, _, h3⟩ := hl
      simp only [lenLoop, hp, if_false, h1]
      rw [ih y f (acc + 1) h3 (by simpa using hc) (fun hm => hnr (List.mem_cons_of_mem _ hm)) (by simp at hf ⊢; omega)]
      simp only [List.length_cons]; omega

/-- **`Len`** of a well-formed ring is the number of its elements -/
theorem len_ring {h : Heap α} {a : Nat} {xs : List Nat} (hr : IsRing h (a :: xs)) :
    len h a = xs.length + 1 := by
  obtain ⟨l, c, d, nd, b⟩ := id hr
  unfold len
  cases xs with
  | nil =>
    simp only [lastOf_nil] at c
    rw [c]
    cases h.size <;> simp [lenLoop]
  | cons x xs =>
    obtain ⟨h1, _, h3⟩ := l
    rw [h1, lenLoop_links a x xs h.size 1 h3 (by simpa using c) (List.nodup_cons.mp nd).1]
    · simp only [List.length_cons]; omega
    · have := hr.length_le; simp at this; omega

/-! ### `New` -/

theorem newLoop_spec [Inhabited α] (v : α) (k : Nat) (h : Heap α) (p : Nat) (hp : p < h.size) :
    let res := newLoop v k h p
    res.1.size = h.size + k ∧
    res.2 = lastOf p (List.range' h.size k) ∧
    Links res.1 (p :: List.range' h.size k) ∧
    (∀ x, x < h.size → x ≠ p → nx res.1 x = nx h x) ∧
    (k = 0 → nx res.1 p = nx h p) ∧
    (∀ x, x < h.size → pv res.1 x = pv h x) ∧
    (∀ x, x < h.size → vl res.1 x = vl h x) ∧
    (∀ x ∈ List.range' h.size k, vl res.1 x = v) := by
  induction k generalizing h p with
  | zero => simp [newLoop]
  | succ k ih =>
    simp only [newLoop]
    set q := h.size with hq
    set h1 := h.push { next := none, prev := some p, val := v } with hh1
    set h2 := setNext h1 p q with hh2
    have s1 : h1.size = h.size + 1 := by simp [hh1]
    have s2 : h2.size = h.size + 1 := by simp [hh2, s1]
    have hqlt : q < h2.size := by omega
    obtain ⟨i1, i2, i3, i4, _, i6, i7, i8⟩ := ih h2 q hqlt
    rw [s2] at i1 i2 i3 i8
    have hpq : p ≠ q := by omega
    have nx2 : ∀ x, nx h2 x = if x = p then q else if x = q then q else nx h x := by
      intro x
      rw [hh2, nx_setNext, hh1, nx_push]
      simp only [Array.size_push, show p < h.size + 1 by omega, and_true, Option.getD_none]
      rfl
    have pv2 : ∀ x, pv h2 x = if x = q then p else pv h x := by
      intro x; rw [hh2, pv_setNext, hh1, pv_push]; rfl
    have vl2 : ∀ x, vl h2 x = if x = q then v else vl h x := by
      intro x; rw [hh2, vl_setNext, hh1, vl_push]
    refine ⟨by omega, ?_, ?_, ?_, by simp, ?_, ?_, ?_⟩
    · rw [i2, List.range'_succ]; rfl
    · rw [List.range'_succ]
      refine ⟨?_, ?_, i3⟩
      · rw [i4 p (by omega) hpq, nx2]; simp
      · rw [i6 q hqlt, pv2]; simp
    · intro x hx hxp
      rw [i4 x (by omega) (by omega), nx2, if_neg hxp, if_neg (by omega)]
    · intro x hx
      rw [i6 x (by omega), pv2, if_neg (by omega)]
    · intro x hx
      rw [i7 x (by omega), vl2, if_neg (by omega)]
    · intro x hx
      rw [List.range'_succ] at hx
      rcases List.mem_cons.mp hx with rfl | hx
      · rw [i7 _ hqlt, vl2]; simp
      · exact i8 x hx

/-- **`New(n)`** for `n ≥ 1` allocates the `n` nodes `h.size … h.size+n-1`, forming a ring in that
order, all holding the zero value; nothing that existed before is touched. -/
theorem new_spec [Inhabited α] (h : Heap α) (n : Nat) (v : α) :
    let res := Ring.new h ((n + 1 : Nat) : Int) v
    res.2 = some h.size ∧
    res.1.size = h.size + (n + 1) ∧
    IsRing res.1 (List.range' h.size (n + 1)) ∧
    (∀ x, x < h.size → nx res.1 x = nx h x ∧ pv res.1 x = pv h x ∧ vl res.1 x = vl h x) ∧
    (∀ x ∈ List.range' h.size (n + 1), vl res.1 x = v) := by
  have hpos : ¬ (((n + 1 : Nat) : Int) ≤ 0) := by omega
  have hk : (((n + 1 : Nat) : Int)).toNat - 1 = n := by omega
  simp only [Ring.new, hpos, if_false, hk]
  set r := h.size with hr
  set h0 := h.push { next := none, prev := none, val := v } with hh0
  have s0 : h0.size = h.size + 1 := by simp [hh0]
  obtain ⟨i1, i2, i3, i4, _, i6, i7, i8⟩ := newLoop_spec v n h0 r (by omega)
  rw [s0] at i1 i2 i3 i8
  generalize hres : newLoop v n h0 r = res at i1 i2 i3 i4 i6 i7 i8
  obtain ⟨h1, p⟩ := res
  simp only at i1 i2 i3 i4 i6 i7 i8 ⊢
  have hmem : ∀ x ∈ r :: List.range' (r + 1) n, r ≤ x ∧ x < r + (n + 1) := by
    intro x hx
    rcases List.mem_cons.mp hx with rfl | hx
    · omega
    · have := List.mem_range'_1.mp hx; omega
  have pm : r ≤ p ∧ p < r + (n + 1) := by rw [i2]; exact hmem _ (lastOf_mem _ _)
  have nd : (r :: List.range' (r + 1) n).Nodup := by
    rw [← List.range'_succ]; exact List.nodup_range' 1
  refine ⟨trivial, by simp [i1]; omega, ?_, ?_, ?_⟩
  · rw [List.range'_succ]
    refine ⟨?_, ?_, ?_, nd, ?_⟩
    · refine links_congr r _ ?_ ?_ i3
      · intro x hx
        have hne := mem_dropLast_ne_last r _ nd x hx
        rw [← i2] at hne
        rw [nx_setPrev, nx_setNext]; simp [hne]
      · intro y hy
        have := head_not_mem_tail nd y hy
        rw [pv_setPrev]; simp [this]
    · rw [← i2, nx_setPrev, nx_setNext]; simp [i1]; omega
    · rw [← i2, pv_setPrev]; simp [i1]; omega
    · intro x hx
      have := hmem x hx
      simp [i1]; omega
  · intro x hx
    refine ⟨?_, ?_, ?_⟩
    · rw [nx_setPrev, nx_setNext, if_neg (by omega), i4 x (by omega) (by omega), hh0, nx_push, if_neg (by omega)]
    · rw [pv_setPrev, if_neg (by omega), pv_setNext, i6 x (by omega), hh0, pv_push, if_neg (by omega)]
    · rw [vl_setPrev, vl_setNext, i7 x (by omega), hh0, vl_push, if_neg (by omega)]
  · intro x hx
    rw [List.range'_succ] at hx
    rw [vl_setPrev, vl_setNext]
    rcases List.mem_cons.mp hx with rfl | hx
    · rw [i7 _ (by omega), hh0, vl_push, if_pos hr]
    · exact i8 x hx

/-! ### the global invariant: `next` and `prev` are mutually inverse permutations -/

/-- `next` and `prev` are mutually inverse permutations of the allocated nodes -/
def WF (h : Heap α) : Prop :=
  ∀ x, x < h.size → nx h x < h.size ∧ pv h x < h.size ∧ pv h (nx h x) = x ∧ nx h (pv h x) = x

theorem wf_empty : WF (#[] : Heap α) := by intro x hx; simp at hx

theorem wf_setVal {h : Heap α} (hw : WF h) (i : Nat) (v : α) : WF (setVal h i v) := by
  intro x hx; simpa using hw x (by simpa using hx)

theorem wf_link {h : Heap α} (hw : WF h) {r : Nat} (hr : r < h.size) (s : Option Nat)
    (hs : ∀ s', s = some s' → s' < h.size) : WF (link h r s).1 := by
  cases s with
  | none => intro x hx; simpa using hw x (by simpa using hx)
  | some s =>
    have hs := hs s rfl
    intro x hx
    rw [size_link] at hx ⊢
    obtain ⟨rn, rp, rpn, rnp⟩ := hw r hr
    obtain ⟨sn, sp, spn, snp⟩ := hw s hs
    have NX := nx_link h r s hr sp
    have PV := pv_link h r s hs rn
    obtain ⟨xn, xp, xpn, xnp⟩ := hw x hx
    simp only [NX, PV]
    grind

theorem iter_lt {f : Nat → Nat} {n : Nat} (hf : ∀ x, x < n → f x < n) (k r : Nat) (hr : r < n) : iter f k r < n := by
  induction k generalizing r with
  | zero => exact hr
  | succ k ih => exact ih (f r) (hf r hr)

theorem wf_move_lt {h : Heap α} (hw : WF h) {r : Nat} (hr : r < h.size) (n : Int) : move h r n < h.size := by
  unfold move
  split
  · exact iter_lt (fun x hx => (hw x hx).2.1) _ r hr
  · exact iter_lt (fun x hx => (hw x hx).1) _ r hr

theorem wf_initNode {h : Heap α} (hw : WF h) (r : Nat) : WF (initNode h r) := by
  intro x hx; simpa using hw x (by simpa using hx)

theorem unlink_pos (h : Heap α) (r : Nat) (n : Int) (hn : ¬ n ≤ 0) :
    unlink h r n = ((link (initNode h r) r (some (move h r (n + 1)))).1, some (nx h r)) := by
  simp [unlink, hn]

theorem unlink_fst (h : Heap α) (r : Nat) (n : Int) (hn : ¬ n ≤ 0) :
    (unlink h r n).1 = (link (initNode h r) r (some (move h r (n + 1)))).1 := by
  rw [unlink_pos h r n hn]

theorem unlink_snd (h : Heap α) (r : Nat) (n : Int) (hn : ¬ n ≤ 0) :
    (unlink h r n).2 = some (nx h r) := by
  rw [unlink_pos h r n hn]

theorem wf_unlink {h : Heap α} (hw : WF h) {r : Nat} (hr : r < h.size) (n : Int) : WF (unlink h r n).1 := by
  by_cases hn : n ≤ 0
  · simp only [unlink, hn, if_true]; exact hw
  · rw [unlink_fst h r n hn]
    have h1 : r < (initNode h r).size := by simpa using hr
    have h2 : ∀ s', some (move h r (n + 1)) = some s' → s' < (initNode h r).size := by
      intro s' hs'; cases hs'; simpa using wf_move_lt hw hr _
    exact wf_link (wf_initNode hw r) h1 (some (move h r (n + 1))) h2

theorem wf_alloc {h : Heap α} (hw : WF h) (v : α) : WF (alloc h v).1 := by
  intro x hx
  simp only [alloc, Array.size_push] at hx ⊢
  simp only [nx_push, pv_push]
  by_cases he : x = h.size
  · simp [he]
  · have hx' : x < h.size := by omega
    obtain ⟨a, b, c, d⟩ := hw x hx'
    simp only [he, if_false]
    have : nx h x ≠ h.size := by omega
    have : pv h x ≠ h.size := by omega
    simp [*]; omega

theorem links_next {h : Heap α} (a : Nat) (xs : List Nat) (hl : Links h (a :: xs)) :
    ∀ x ∈ (a :: xs).dropLast, nx h x ∈ xs ∧ pv h (nx h x) = x := by
  induction xs generalizing a with
  | nil => simp
  | cons y ys ih =>
    obtain ⟨h1, h2, h3⟩ := hl
    intro x hx
    simp only [List.dropLast_cons_cons, List.mem_cons] at hx
    rcases hx with rfl | hx
    · rw [h1]; exact ⟨by simp, h2⟩
    · obtain ⟨i1, i2⟩ := ih y h3 x hx
      exact ⟨List.mem_cons_of_mem _ i1, i2⟩

theorem links_prev {h : Heap α} (a : Nat) (xs : List Nat) (hl : Links h (a :: xs)) :
    ∀ y ∈ xs, pv h y ∈ a :: xs ∧ nx h (pv h y) = y := by
  induction xs generalizing a with
  | nil => simp
  | cons y0 ys ih =>
    obtain ⟨h1, h2, h3⟩ := hl
    intro y hy
    rcases List.mem_cons.mp hy with rfl | hy
    · rw [h2]; exact ⟨by simp, h1⟩
    · obtain ⟨i1, i2⟩ := ih y0 h3 y hy
      exact ⟨List.mem_cons_of_mem _ i1, i2⟩

theorem mem_dropLast_or_last (a : Nat) (xs : List Nat) : ∀ x ∈ a :: xs, x ∈ (a :: xs).dropLast ∨ x = lastOf a xs := by
  induction xs generalizing a with
  | nil => simp
  | cons y ys ih =>
    intro x hx
    rcases List.mem_cons.mp hx with rfl | hx
    · left; simp
    · rcases ih y x hx with h | h
      · left; simp [h]
      · right; simpa using h

/-- within a well-formed ring `next` and `prev` stay inside and are inverse to each other -/
theorem IsRing.inverse {h : Heap α} {l : List Nat} (hr : IsRing h l) :
    ∀ x ∈ l, nx h x ∈ l ∧ pv h x ∈ l ∧ pv h (nx h x) = x ∧ nx h (pv h x) = x := by
  cases l with
  | nil => exact hr.elim
  | cons a xs =>
    obtain ⟨l, c, d, nd, b⟩ := hr
    intro x hx
    have hn : nx h x ∈ a :: xs ∧ pv h (nx h x) = x := by
      rcases mem_dropLast_or_last a xs x hx with h1 | h1
      · obtain ⟨i1, i2⟩ := links_next a xs l x h1
        exact ⟨List.mem_cons_of_mem _ i1, i2⟩
      · subst h1; rw [c]; exact ⟨by simp, d⟩
    have hp : pv h x ∈ a :: xs ∧ nx h (pv h x) = x := by
      rcases List.mem_cons.mp hx with rfl | h1
      · rw [d]; exact ⟨lastOf_mem _ _, c⟩
      · exact links_prev a xs l x h1
    exact ⟨hn.1, hp.1, hn.2, hp.2⟩

theorem wf_new [Inhabited α] {h : Heap α} (hw : WF h) (n : Int) (v : α) : WF (Ring.new h n v).1 := by
  by_cases hn : n ≤ 0
  · simp only [Ring.new, hn, if_true]; exact hw
  · obtain ⟨k, hk⟩ : ∃ k : Nat, n = ((k + 1 : Nat) : Int) := ⟨(n - 1).toNat, by omega⟩
    subst hk
    obtain ⟨_, e1, hF, frame, _⟩ := new_spec h k v
    intro x hx
    rw [e1] at hx ⊢
    by_cases hxo : x < h.size
    · obtain ⟨a, b, c, d⟩ := hw x hxo
      obtain ⟨f1, f2, _⟩ := frame x hxo
      rw [f1, f2]
      refine ⟨by omega, by omega, ?_, ?_⟩
      · rw [(frame _ a).2.1]; exact c
      · rw [(frame _ b).1]; exact d
    · have hm : x ∈ List.range' h.size (k + 1) := List.mem_range'_1.mpr ⟨by omega, by omega⟩
      obtain ⟨i1, i2, i3, i4⟩ := hF.inverse x hm
      have b1 := hF.mem_lt i1
      have b2 := hF.mem_lt i2
      rw [e1] at b1 b2
      exact ⟨b1, b2, i3, i4⟩

/-! ### `Do`, full circles, backward moves -/

theorem doLoop_links [Inhabited α] {h : Heap α} (r p : Nat) (ys : List Nat) (fuel : Nat) (acc : List α)
    (hl : Links h (p :: ys)) (hc : nx h (lastOf p ys) = r) (hnr : r ∉ p :: ys) (hf : ys.length + 1 ≤ fuel) :
    doLoop h r fuel p acc = acc.reverse ++ (p :: ys).map (vl h) := by
  induction ys generalizing p fuel acc with
  | nil =>
    cases fuel with
    | zero => omega
    | succ f =>
      have hp : p ≠ r := fun e => hnr (by simp [e])
      simp only [doLoop, hp, if_false]
      simp only [lastOf_nil] at hc
      rw [hc]
      cases f <;> simp [doLoop]
  | cons y ys ih =>
    cases fuel with
    | zero => simp at hf
    | succ f =>
      have hp : p ≠ r := fun e => hnr (by simp [e])
      obtain ⟨h1, _, h3⟩ := hl
      simp only [doLoop, hp, if_false, h1]
      rw [ih y f (vl h p :: acc) h3 (by simpa using hc) (fun hm => hnr (List.mem_cons_of_mem _ hm)) (by simp at hf ⊢; omega)]
      simp

/-- **`Do`** visits the values of the ring in listing order, starting at the receiver -/
theorem doAll_ring [Inhabited α] {h : Heap α} {a : Nat} {xs : List Nat} (hr : IsRing h (a :: xs)) :
    doAll h (some a) = (a :: xs).map (vl h) := by
  obtain ⟨l, c, d, nd, b⟩ := id hr
  show doLoop h a h.size (nx h a) [vl h a] = _
  cases xs with
  | nil =>
    simp only [lastOf_nil] at c
    rw [c]
    cases h.size <;> simp [doLoop]
  | cons x xs =>
    obtain ⟨h1, _, h3⟩ := l
    rw [h1, doLoop_links a x xs h.size [vl h a] h3 (by simpa using c) (List.nodup_cons.mp nd).1]
    · simp
    · have := hr.length_le; simp at this; omega

theorem iter_succ' (f : Nat → Nat) (k r : Nat) : iter f (k + 1) r = f (iter f k r) := by
  induction k generalizing r with
  | zero => rfl
  | succ k ih => rw [iter_succ, ih (f r)]; rfl

theorem iter_add (f : Nat → Nat) (a b r : Nat) : iter f (a + b) r = iter f b (iter f a r) := by
  induction a generalizing r with
  | zero => simp
  | succ a ih => rw [Nat.add_right_comm, iter_succ, ih, iter_succ]

theorem IsRing.rotate_to {h : Heap α} (A B : List Nat) (hB : B ≠ []) (hr : IsRing h (A ++ B)) : IsRing h (B ++ A) := by
  induction A generalizing B with
  | nil => simpa using hr
  | cons a A ih =>
    have h1 : IsRing h (A ++ B ++ [a]) := IsRing.rotate (a := a) (xs := A ++ B) hr
    have := ih (B ++ [a]) (by simp) (by simpa [List.append_assoc] using h1)
    simpa [List.append_assoc] using this

/-- every element can be made the head of the listing -/
theorem IsRing.from_mem {h : Heap α} {l : List Nat} (hr : IsRing h l) {x : Nat} (hx : x ∈ l) :
    ∃ ys, IsRing h (x :: ys) ∧ ys.length + 1 = l.length := by
  obtain ⟨A, B, rfl⟩ := List.append_of_mem hx
  exact ⟨B ++ A, by simpa using hr.rotate_to A (x :: B) (by simp), by simp; omega⟩

/-- a full circle: `Move(Len)` is the identity (so `Move(n)` only depends on `n % Len`) -/
theorem move_full_circle {h : Heap α} {l : List Nat} (hr : IsRing h l) {x : Nat} (hx : x ∈ l) :
    move h x (l.length : Int) = x := by
  obtain ⟨ys, hy, hlen⟩ := hr.from_mem hx
  rw [move_nonneg, ← hlen, iter_succ', iter_links_last' x ys hy.1]
  exact hy.2.1
where
  iter_links_last' (a : Nat) (xs : List Nat) (hl : Links h (a :: xs)) : iter (nx h) xs.length a = lastOf a xs := by
    induction xs generalizing a with
    | nil => rfl
    | cons x xs ih =>
      obtain ⟨h1, _, h3⟩ := hl
      simp only [List.length_cons, iter_succ, h1, lastOf_cons]
      exact ih x h3

theorem iter_mem {l : List Nat} {f : Nat → Nat} (hf : ∀ y ∈ l, f y ∈ l) (k : Nat) {y : Nat} (hy : y ∈ l) : iter f k y ∈ l := by
  induction k generalizing y with
  | zero => exact hy
  | succ k ih => exact ih (hf y hy)

/-- `Move(-k)` undoes `Move(k)` and vice versa -/
theorem move_neg_inverse {h : Heap α} {l : List Nat} (hr : IsRing h l) {x : Nat} (hx : x ∈ l) (k : Nat) :
    move h (move h x (k : Int)) (-(k : Int)) = x ∧ move h (move h x (-(k : Int))) (k : Int) = x := by
  have hnx : ∀ y ∈ l, nx h y ∈ l := fun y hy => (hr.inverse y hy).1
  have hpv : ∀ y ∈ l, pv h y ∈ l := fun y hy => (hr.inverse y hy).2.1
  have key1 : ∀ k y, y ∈ l → iter (pv h) k (iter (nx h) k y) = y := by
    intro k
    induction k with
    | zero => exact fun y _ => rfl
    | succ k ih =>
      intro y hy
      rw [iter_succ', iter_succ, ih (nx h y) (hnx y hy)]
      exact (hr.inverse y hy).2.2.1
  have key2 : ∀ k y, y ∈ l → iter (nx h) k (iter (pv h) k y) = y := by
    intro k
    induction k with
    | zero => exact fun y _ => rfl
    | succ k ih =>
      intro y hy
      rw [iter_succ', iter_succ, ih (pv h y) (hpv y hy)]
      exact (hr.inverse y hy).2.2.2
  cases k with
  | zero => simp [move]
  | succ k =>
    have hneg : (-((k + 1 : Nat) : Int)) < 0 := by omega
    have hpos : ¬ (((k + 1 : Nat) : Int) < 0) := by omega
    have htn : (- -((k + 1 : Nat) : Int)).toNat = k + 1 := by omega
    have htp : (((k + 1 : Nat) : Int)).toNat = k + 1 := by omega
    simp only [move, hneg, hpos, if_true, if_false, htn, htp]
    exact ⟨key1 (k + 1) x hx, key2 (k + 1) x hx⟩

end Kit.Ring
