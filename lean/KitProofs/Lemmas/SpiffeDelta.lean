import KitProofs.Lemmas.SpiffeRenew
/-! Property C19, timing clause over whole histories: when the clock overshoots no wake by more than
`δ`, every renewal request is stamped within `δ` of the instant its certificate passed half-life. -/
namespace Kit.Spiffe

/-- The instant from which the renewal of the certificate of request `r` is due: its half-life, or
the moment it was issued if it was already past half-life then. -/
def dueAt (r : Req) : Int := max r.half r.stamp

/-- Consecutive requests (newest first): the one after a successful request `r1` is stamped in
`[dueAt r1, dueAt r1 + δ]`. -/
def PairOK (δ : Int) : List Req → Prop
  | r2 :: r1 :: rest => (r1.good = true → dueAt r1 ≤ r2.stamp ∧ r2.stamp ≤ dueAt r1 + δ) ∧ PairOK δ (r1 :: rest)
  | _ => True

structure TInv (δ : Int) (s : RN) : Prop where
  head : ∀ r rest, s.log = r :: rest → r.good = true → s.renewAt = r.half ∧ s.mode = .waiting
  fresh : ∀ r rest, s.log = r :: rest → r.good = true → s.now ≤ dueAt r + δ
  stamps : ∀ r rest, s.log = r :: rest → r.stamp ≤ s.now
  pairs : PairOK δ s.log

theorem tinv_congr {δ : Int} {s s' : RN} (h1 : s'.log = s.log) (h2 : s'.now = s.now)
    (h3 : s'.renewAt = s.renewAt) (h4 : s.mode = .waiting → s'.mode = .waiting) (h : TInv δ s) : TInv δ s' := by
  refine ⟨?_, ?_, ?_, ?_⟩
  · intro r rest hl hg; rw [h1] at hl
    obtain ⟨a, b⟩ := h.head r rest hl hg
    exact ⟨by rw [h3]; exact a, h4 b⟩
  · intro r rest hl hg; rw [h1] at hl; rw [h2]; exact h.fresh r rest hl hg
  · intro r rest hl; rw [h1] at hl; rw [h2]; exact h.stamps r rest hl
  · rw [h1]; exact h.pairs

theorem tinv_arm {δ : Int} {s : RN} (h : TInv δ s) : TInv δ (arm s) := by
  obtain ⟨hm, _, _, hn, hr, _, hl, _⟩ := arm_fields s
  exact tinv_congr hl hn hr (fun _ => hm) h

/-- A fetch issued in waiting mode at/after the renewal time, followed by what `wake` does with it. -/
theorem tinv_after_fetch {δ : Int} (hδ : 0 ≤ δ) {s s' : RN} (h : TInv δ s)
    (hle : ∀ r1 rest, s.log = r1 :: rest → r1.good = true → r1.half ≤ s.now)
    (r : Option Cert) (hlog : s'.log = ⟨s.now, s.nextTok, r.isSome, s.anchors, halfOf r⟩ :: s.log)
    (hnow : s'.now = s.now)
    (hhead : r.isSome = true → s'.renewAt = halfOf r ∧ s'.mode = .waiting) : TInv δ s' := by
  refine ⟨?_, ?_, ?_, ?_⟩
  · intro r' rest hl hg
    rw [hlog] at hl
    simp only [List.cons.injEq] at hl
    obtain ⟨rfl, _⟩ := hl
    exact hhead hg
  · intro r' rest hl hg
    rw [hlog] at hl
    simp only [List.cons.injEq] at hl
    obtain ⟨rfl, _⟩ := hl
    rw [hnow]; simp only [dueAt]; omega
  · intro r' rest hl
    rw [hlog] at hl
    simp only [List.cons.injEq] at hl
    obtain ⟨rfl, _⟩ := hl
    rw [hnow]; exact Int.le_refl _
  · rw [hlog]
    cases hs : s.log with
    | nil => simp [PairOK]
    | cons r1 rest =>
      have hp := h.pairs
      rw [hs] at hp
      refine ⟨?_, hp⟩
      intro hg
      have hren := hle r1 rest hs hg
      have hf := h.fresh r1 rest hs hg
      have hst := h.stamps r1 rest hs
      simp only [dueAt] at hf ⊢
      constructor <;> omega

theorem tinv_wake {δ : Int} (hδ : 0 ≤ δ) {s : RN} (hl : LInv s) (h : TInv δ s) : TInv δ (wake s) := by
  have fs := fetch_spec s
  rcases wake_cases s with ⟨_, hw⟩ | ⟨_, hw⟩ | ⟨_, _, hw⟩ | ⟨hm, hle, hnone, hw⟩ | ⟨hm, hle, c, hsome, hw⟩
  · rw [hw]; exact h
  · rw [hw]; exact tinv_arm h
  · rw [hw]; exact tinv_arm h
  · rw [hw]
    rw [hnone] at fs
    exact tinv_after_fetch hδ h (fun r1 rest hs hg => by rw [← (h.head r1 rest hs hg).1]; exact hle)
      none fs.log fs.now (by intro h'; cases h')
  · rw [hw]
    rw [hsome] at fs
    apply tinv_arm
    exact tinv_after_fetch hδ h (fun r1 rest hs hg => by rw [← (h.head r1 rest hs hg).1]; exact hle)
      (some c) fs.log fs.now (by intro _; exact ⟨rfl, by show (fetch s).1.mode = _; rw [fs.mode]; exact hm⟩)

theorem settle_tinv {δ : Int} (hδ : 0 ≤ δ) : ∀ (n : Nat) (s : RN), LInv s → TInv δ s → TInv δ (settle n s) := by
  intro n
  induction n with
  | zero => intro s _ h; exact h
  | succ n ih =>
    intro s hl h
    simp only [settle]
    split
    · exact ih _ (linv_wake hl) (tinv_wake hδ hl h)
    · exact h

/-- Reachability when no clock advance overshoots: each advance is at most `δ` long, or ends at most
`δ` after the deadline of the armed timer. -/
inductive RReachD (δ : Int) (dirOn : Bool) (a0 : Nat) (script : List Reply) (t0 : Int) : RN → Prop where
  | start : RReachD δ dirOn a0 script t0 (start dirOn a0 script t0)
  | adv {s : RN} (d : Int) : 0 < d → (d ≤ δ ∨ s.now + d ≤ s.wakeAt + δ) →
      RReachD δ dirOn a0 script t0 s → RReachD δ dirOn a0 script t0 (advance s d)
  | anch {s : RN} (a : Nat) : RReachD δ dirOn a0 script t0 s → RReachD δ dirOn a0 script t0 (setAnchors s a)

theorem RReachD.toRReach {δ : Int} {dirOn : Bool} {a0 : Nat} {script : List Reply} {t0 : Int} {s : RN}
    (h : RReachD δ dirOn a0 script t0 s) : RReach dirOn a0 script t0 s := by
  induction h with
  | start => exact .start
  | adv d hd _ _ ih => exact .adv d hd ih
  | anch a _ ih => exact .anch a ih

theorem not_due_lt {s : RN} (h : s.due = false) (hm : s.mode ≠ .dead) : s.now < s.wakeAt := by
  cases hlt : decide (s.now < s.wakeAt)
  · have : s.due = true := (due_iff s).mpr ⟨hm, by simpa using hlt⟩
    rw [this] at h; cases h
  · simpa using hlt

theorem tinv_reach {δ : Int} (hδ : 0 ≤ δ) {dirOn : Bool} {a0 : Nat} {script : List Reply} {t0 : Int} {s : RN}
    (h : RReachD δ dirOn a0 script t0 s) : TInv δ s := by
  induction h with
  | start =>
    have fs := fetch_spec (start0 dirOn a0 script t0)
    have hlog0 : (start0 dirOn a0 script t0).log = [] := rfl
    have t0inv : TInv δ (start0 dirOn a0 script t0) := by
      refine ⟨?_, ?_, ?_, ?_⟩
      · intro r rest hl; rw [hlog0] at hl; cases hl
      · intro r rest hl; rw [hlog0] at hl; cases hl
      · intro r rest hl; rw [hlog0] at hl; cases hl
      · rw [hlog0]; simp [PairOK]
    have hvac : ∀ r1 rest, (start0 dirOn a0 script t0).log = r1 :: rest → r1.good = true →
        r1.half ≤ (start0 dirOn a0 script t0).now := by
      intro r1 rest hl; rw [hlog0] at hl; cases hl
    rcases start_cases dirOn a0 script t0 with ⟨hn, hs⟩ | ⟨c, hc, hs⟩
    · rw [hs]; rw [hn] at fs
      exact tinv_after_fetch hδ t0inv hvac none fs.log fs.now (by intro h'; cases h')
    · rw [hs]; rw [hc] at fs
      have d0 : DInv (start0 dirOn a0 script t0) := by
        refine ⟨rfl, rfl, ?_⟩
        cases dirOn <;> rfl
      have hd := dinv_fetch d0 (renewalTime c.nb c.na)
      rw [hc] at hd
      apply settle_tinv hδ _ _ (linv_arm hd)
      obtain ⟨hm, _, _, hn, hr, _, hlg, _⟩ := arm_fields
        { (fetch (start0 dirOn a0 script t0)).1 with svid := some c, renewAt := renewalTime c.nb c.na }
      refine tinv_after_fetch hδ t0inv hvac (some c) (hlg.trans fs.log) (hn.trans fs.now) ?_
      intro _
      exact ⟨hr, hm⟩
  | @adv s d hd hov hprev ih =>
    obtain ⟨hl, hdue⟩ := rinv hprev.toRReach
    apply settle_tinv hδ _ _ (linv_advance_pre hl (Int.le_of_lt hd))
    refine ⟨?_, ?_, ?_, ?_⟩
    · intro r rest hlg hg; exact ih.head r rest hlg hg
    · intro r rest hlg hg
      obtain ⟨hren, hmode⟩ := ih.head r rest hlg hg
      have hlt := not_due_lt hdue (by rw [hmode]; simp)
      obtain ⟨hw1, _, _⟩ := hl.waiting hmode
      show s.now + d ≤ dueAt r + δ
      simp only [dueAt]
      rcases hov with h | h <;> omega
    · intro r rest hlg
      have := ih.stamps r rest hlg
      show r.stamp ≤ s.now + d
      omega
    · exact ih.pairs
  | @anch s a _ ih => exact tinv_congr (s := s) rfl rfl rfl (fun h => h) ih

theorem pairOK_at {δ : Int} : ∀ (pre : List Req) (r2 r1 : Req) (rest : List Req),
    PairOK δ (pre ++ r2 :: r1 :: rest) → r1.good = true →
    dueAt r1 ≤ r2.stamp ∧ r2.stamp ≤ dueAt r1 + δ := by
  intro pre
  induction pre with
  | nil => intro r2 r1 rest h hg; exact h.1 hg
  | cons a pre ih =>
    intro r2 r1 rest h hg
    cases pre with
    | nil => exact ih r2 r1 rest h.2 hg
    | cons b pre => exact ih r2 r1 rest h.2 hg

end Kit.Spiffe
