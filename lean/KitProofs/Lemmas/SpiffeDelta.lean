import KitProofs.Lemmas.SpiffeRenew
/-! Property C19, timing clause over whole histories, with fetches that take time: when the clock
overshoots no wake by more than `δ`, every renewal request is ISSUED within `δ` of the instant its
certificate passed half-life (or was received, if it was already past half-life then) — however long
the issuer then takes to answer. -/
namespace Kit.Spiffe

/-- The instant from which the renewal of the certificate of request `r` is due: its half-life, or
the moment the answer carrying it was processed if it was already past half-life then. -/
def dueAt (r : Req) : Int := max r.half r.answered

/-- Consecutive answered requests (newest first): the one after a successful request `r1` was
issued (`stamp`) in `[dueAt r1, dueAt r1 + δ]`. -/
def PairOK (δ : Int) : List Req → Prop
  | r2 :: r1 :: rest => (r1.good = true → dueAt r1 ≤ r2.stamp ∧ r2.stamp ≤ dueAt r1 + δ) ∧ PairOK δ (r1 :: rest)
  | _ => True

structure TInv (δ : Int) (s : RN) : Prop where
  head : ∀ r rest, s.log = r :: rest → r.good = true →
    s.renewAt = r.half ∧ (s.mode = .waiting ∨ s.mode = .inflight)
  fresh : ∀ r rest, s.log = r :: rest → r.good = true → s.mode = .waiting → s.now ≤ dueAt r + δ
  flightDue : ∀ r rest, s.log = r :: rest → r.good = true → s.mode = .inflight →
    dueAt r ≤ s.reqAt ∧ s.reqAt ≤ dueAt r + δ
  stamps : ∀ r rest, s.log = r :: rest → r.answered ≤ s.now
  pairs : PairOK δ s.log

theorem tinv_arm {δ : Int} {s : RN} (h : TInv δ s) (hm : s.mode = .waiting ∨ s.mode = .retrying) :
    TInv δ (arm s) := by
  obtain ⟨hmode, _, _, hn, hr, _, hl, _⟩ := arm_fields s
  refine ⟨?_, ?_, ?_, ?_, ?_⟩
  · intro r rest hlg hg; rw [hl] at hlg
    exact ⟨by rw [hr]; exact (h.head r rest hlg hg).1, Or.inl hmode⟩
  · intro r rest hlg hg _; rw [hl] at hlg; rw [hn]
    have hw : s.mode = .waiting := by
      rcases (h.head r rest hlg hg).2 with h1 | h1
      · exact h1
      · rcases hm with h2 | h2 <;> rw [h2] at h1 <;> cases h1
    exact h.fresh r rest hlg hg hw
  · intro r rest _ _ hmi; rw [hmode] at hmi; cases hmi
  · intro r rest hlg; rw [hl] at hlg; rw [hn]; exact h.stamps r rest hlg
  · rw [hl]; exact h.pairs

theorem tinv_issue {δ : Int} {s : RN} (h : TInv δ s) (hm : s.mode = .waiting) (hle : s.renewAt ≤ s.now) :
    TInv δ (issue s false) := by
  obtain ⟨h1, _, h3, _, _, h6, _, h8, _, _, h11, _⟩ := issue_fields s false
  refine ⟨?_, ?_, ?_, ?_, ?_⟩
  · intro r rest hlg hg; rw [h8] at hlg
    exact ⟨by rw [h11]; exact (h.head r rest hlg hg).1, Or.inr h1⟩
  · intro r rest _ _ hmw; rw [h1] at hmw; cases hmw
  · intro r rest hlg hg _; rw [h8] at hlg; rw [h3]
    have hren := (h.head r rest hlg hg).1
    have hf := h.fresh r rest hlg hg hm
    have hst := h.stamps r rest hlg
    simp only [dueAt] at hf ⊢
    constructor <;> omega
  · intro r rest hlg; rw [h8] at hlg; rw [h6]; exact h.stamps r rest hlg
  · rw [h8]; exact h.pairs

theorem tinv_wake {δ : Int} {s : RN} (h : TInv δ s) : TInv δ (wake s) := by
  rcases wake_cases s with ⟨_, hw⟩ | ⟨hm, hw⟩ | ⟨hm, _, hw⟩ | ⟨hm, hle, hw⟩
  · rw [hw]; exact h
  · rw [hw]; exact tinv_arm h (Or.inr hm)
  · rw [hw]; exact tinv_arm h (Or.inl hm)
  · rw [hw]; exact tinv_issue h hm hle

theorem settle_tinv {δ : Int} : ∀ (n : Nat) (s : RN), TInv δ s → TInv δ (settle n s) := by
  intro n
  induction n with
  | zero => intro s h; exact h
  | succ n ih =>
    intro s h
    simp only [settle]
    split
    · exact ih _ (tinv_wake h)
    · exact h

/-- The answer to the outstanding request has been logged (`t`); `t.mode = waiting` with the new
renewal time if it was a success. -/
theorem tinv_after_answer {δ : Int} (hδ : 0 ≤ δ) {s t : RN} (h : TInv δ s) (hm : s.mode = .inflight)
    (r2 : Req) (hlog : t.log = r2 :: s.log) (hnow : t.now = s.now) (hst : r2.stamp = s.reqAt)
    (hans : r2.answered = s.now)
    (hgood : r2.good = true → t.renewAt = r2.half ∧ t.mode = .waiting)
    (hbad : r2.good = false → t.mode = .retrying ∨ t.mode = .dead) : TInv δ t := by
  refine ⟨?_, ?_, ?_, ?_, ?_⟩
  · intro r rest hl hg
    rw [hlog] at hl; simp only [List.cons.injEq] at hl; obtain ⟨rfl, _⟩ := hl
    exact ⟨(hgood hg).1, Or.inl (hgood hg).2⟩
  · intro r rest hl hg _
    rw [hlog] at hl; simp only [List.cons.injEq] at hl; obtain ⟨rfl, _⟩ := hl
    rw [hnow]; simp only [dueAt, hans]; omega
  · intro r rest hl hg hmi
    rw [hlog] at hl; simp only [List.cons.injEq] at hl; obtain ⟨rfl, _⟩ := hl
    rw [(hgood hg).2] at hmi; cases hmi
  · intro r rest hl
    rw [hlog] at hl; simp only [List.cons.injEq] at hl; obtain ⟨rfl, _⟩ := hl
    rw [hnow, hans]; exact Int.le_refl _
  · rw [hlog]
    cases hs : s.log with
    | nil => simp [PairOK]
    | cons r1 rest =>
      have hp := h.pairs
      rw [hs] at hp
      refine ⟨?_, hp⟩
      intro hg
      rw [hst]
      exact h.flightDue r1 rest hs hg hm

theorem tinv_answerCore {δ : Int} (hδ : 0 ≤ δ) {s : RN} (h : TInv δ s) (hm : s.mode = .inflight) :
    TInv δ (answerCore s) := by
  have cs := complete_spec s
  rcases answerCore_cases s with ⟨hn, _, hw⟩ | ⟨hn, _, hw⟩ | ⟨c, hc, hw⟩
  · rw [hw]; rw [hn] at cs
    exact tinv_after_answer hδ h hm _ cs.log cs.now rfl rfl (by intro hh; cases hh) (fun _ => Or.inr rfl)
  · rw [hw]; rw [hn] at cs
    exact tinv_after_answer hδ h hm _ cs.log cs.now rfl rfl (by intro hh; cases hh) (fun _ => Or.inl rfl)
  · rw [hw]; rw [hc] at cs
    obtain ⟨hmode, _, _, hn, hr, _, hl, _⟩ := arm_fields
      { (complete s).1 with svid := some c, renewAt := renewalTime c.nb c.na }
    exact tinv_after_answer hδ h hm _ (hl.trans cs.log) (hn.trans cs.now) rfl rfl
      (fun _ => ⟨hr, hmode⟩) (by intro hh; cases hh)

/-- Reachability when no clock advance overshoots a wake of the rotation timer by more than `δ`: in
mode `waiting` each advance is at most `δ` long, or ends at most `δ` after the deadline of the armed
timer.  Advances while a request is in flight, and the moment of each answer, are unconstrained. -/
inductive RReachD (δ : Int) (dirOn : Bool) (a0 : Nat) (script : List Reply) (t0 : Int) : RN → Prop where
  | start : RReachD δ dirOn a0 script t0 (start dirOn a0 script t0)
  | adv {s : RN} (d : Int) : 0 < d → (s.mode = .waiting → d ≤ δ ∨ s.now + d ≤ s.wakeAt + δ) →
      RReachD δ dirOn a0 script t0 s → RReachD δ dirOn a0 script t0 (advance s d)
  | anch {s : RN} (a : Nat) : RReachD δ dirOn a0 script t0 s → RReachD δ dirOn a0 script t0 (setAnchors s a)
  | ans {s : RN} : RReachD δ dirOn a0 script t0 s → RReachD δ dirOn a0 script t0 (answer s)

theorem RReachD.toRReach {δ : Int} {dirOn : Bool} {a0 : Nat} {script : List Reply} {t0 : Int} {s : RN}
    (h : RReachD δ dirOn a0 script t0 s) : RReach dirOn a0 script t0 s := by
  induction h with
  | start => exact .start
  | adv d hd _ _ ih => exact .adv d hd ih
  | anch a _ ih => exact .anch a ih
  | ans _ ih => exact .ans ih

theorem tinv_reach {δ : Int} (hδ : 0 ≤ δ) {dirOn : Bool} {a0 : Nat} {script : List Reply} {t0 : Int} {s : RN}
    (h : RReachD δ dirOn a0 script t0 s) : TInv δ s := by
  induction h with
  | start =>
    have hl : (start dirOn a0 script t0).log = [] := rfl
    refine ⟨?_, ?_, ?_, ?_, ?_⟩
    · intro r rest h; rw [hl] at h; cases h
    · intro r rest h; rw [hl] at h; cases h
    · intro r rest h; rw [hl] at h; cases h
    · intro r rest h; rw [hl] at h; cases h
    · rw [hl]; simp [PairOK]
  | @adv s d hd hov hprev ih =>
    obtain ⟨hl, hdue⟩ := rinv hprev.toRReach
    apply settle_tinv
    refine ⟨?_, ?_, ?_, ?_, ?_⟩
    · intro r rest hlg hg; exact ih.head r rest hlg hg
    · intro r rest hlg hg hmw
      have hmw' : s.mode = .waiting := hmw
      obtain ⟨hren, _⟩ := ih.head r rest hlg hg
      have hlt := not_due_lt hdue (Or.inl hmw')
      obtain ⟨hw1, _, _⟩ := hl.waiting hmw'
      show s.now + d ≤ dueAt r + δ
      simp only [dueAt]
      rcases hov hmw' with h | h <;> omega
    · intro r rest hlg hg hmi; exact ih.flightDue r rest hlg hg hmi
    · intro r rest hlg
      have := ih.stamps r rest hlg
      show r.answered ≤ s.now + d
      omega
    · exact ih.pairs
  | @anch s a _ ih =>
    exact ⟨ih.head, ih.fresh, ih.flightDue, ih.stamps, ih.pairs⟩
  | @ans s _ ih =>
    simp only [answer]
    split
    · rename_i hm
      exact settle_tinv _ _ (tinv_answerCore hδ ih hm)
    · exact ih

theorem pairOK_at {δ : Int} : ∀ (pre : List Req) (r2 r1 : Req) (rest : List Req),
    PairOK δ (pre ++ r2 :: r1 :: rest) → r1.good = true →
    dueAt r1 ≤ r2.stamp ∧ r2.stamp ≤ dueAt r1 + δ := by
  intro pre
  induction pre with
  | nil => intro r2 r1 rest h hg; exact h.1 hg
  | cons a pre ih =>
    intro r2 r1 rest h hg
    cases pre with
    | nil => exact ih r2 r1 rest h.2 hg
    | cons b pre => exact ih r2 r1 rest h.2 hg

end Kit.Spiffe
