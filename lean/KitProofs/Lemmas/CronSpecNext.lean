/-
The code from label `WRAP` on (`nextFrom`) on fixed-offset zones: soundness, minimality, the
meaning of the zero result and sufficiency of the fuel, in one induction.
-/
import KitProofs.Lemmas.CronSpecInv

set_option linter.unusedSimpArgs false

namespace Kit.CronSpec
open Kit.CronCal

section Fixed
variable {s : Sched} {off : Int}
local notation "Z" => fixedZone off

/-- Summary of one run of `nextFrom`. -/
def NextPost (s : Sched) (off t0 yl : Int) : Result → Prop
  | .at r => t0 ≤ r ∧ Matches s (fixedZone off) r ∧ NoMatch s (fixedZone off) t0 r
  | .zero => ∃ t', yl < year (fixedZone off) t' ∧ NoMatch s (fixedZone off) t0 t'
  | .fuel => False

/-- One pass through the five loops. -/
def PassPost (s : Sched) (off t0 tin : Int) : PassOut → Prop
  | .wrap t' a' => a' = true ∧ QW s off t0 tin t'
  | .done r => t0 ≤ r ∧ Matches s (fixedZone off) r ∧ NoMatch s (fixedZone off) t0 r
  | .fuel => False

theorem pass_rule (h60 : off % 60 = 0) (t0 t : Int) (a : Bool) (hinv : Inv0 s Z t0 t a) :
    PassPost s off t0 t (pass s Z t a) := by
  simp only [pass]
  have hm := month_rule t0 t t a ⟨Int.le_refl t, hinv⟩
  cases hml : monthLoop s Z innerFuel t a with
  | fuel => rw [hml] at hm; exact hm.elim
  | wrap t' a' => rw [hml] at hm; exact hm
  | next t1 a1 =>
  rw [hml] at hm
  simp only [LoopOut.andThen]
  have hd := day_rule t0 t t1 a1 hm
  cases hdl : dayLoop s Z innerFuel t1 a1 with
  | fuel => rw [hdl] at hd; exact hd.elim
  | wrap t' a' => rw [hdl] at hd; exact hd
  | next t2 a2 =>
  rw [hdl] at hd
  simp only [LoopOut.andThen]
  have hh := hour_rule t0 t t2 a2 hd
  cases hhl : hourLoop s Z innerFuel t2 a2 with
  | fuel => rw [hhl] at hh; exact hh.elim
  | wrap t' a' => rw [hhl] at hh; exact hh
  | next t3 a3 =>
  rw [hhl] at hh
  simp only [LoopOut.andThen]
  have hmi := minute_rule h60 t0 t t3 a3 hh
  cases hmil : minuteLoop s Z innerFuel t3 a3 with
  | fuel => rw [hmil] at hmi; exact hmi.elim
  | wrap t' a' => rw [hmil] at hmi; exact hmi
  | next t4 a4 =>
  rw [hmil] at hmi
  simp only [LoopOut.andThen]
  have hs := second_rule t0 t t4 a4 (PinS_of_PinMi hmi.1 hmi.2)
  cases hsl : secondLoop s Z innerFuel t4 a4 with
  | fuel => rw [hsl] at hs; exact hs.elim
  | wrap t' a' => rw [hsl] at hs; exact hs
  | next t5 a5 =>
  rw [hsl] at hs
  simp only [LoopOut.andThen]
  exact ⟨hs.1, hs.2.2, hs.2.1⟩

theorem nextFrom_rule (h60 : off % 60 = 0) (t0 yl B : Int)
    (hB : ∀ u, year Z u ≤ yl → u < B) :
    ∀ (f : Nat) (t : Int) (a : Bool), Inv0 s Z t0 t a → B - t < f → 0 < f →
      NextPost s off t0 yl (nextFrom s Z yl f t a) := by
  intro f
  induction f with
  | zero => intro t a _ _ h; omega
  | succ f ih =>
    intro t a hinv hf _
    simp only [nextFrom]
    split
    · exact ⟨t, by assumption, hinv.1⟩
    · rename_i hy
      have hlt := hB t (by omega)
      have hp := pass_rule (s := s) h60 t0 t a hinv
      cases hps : pass s Z t a with
      | fuel => rw [hps] at hp; exact hp.elim
      | wrap t' a' =>
        rw [hps] at hp
        obtain ⟨ha, hlt', hinv'⟩ := hp
        subst ha
        exact ih t' true hinv' (by omega) (by omega)
      | done r => rw [hps] at hp; exact hp

/-- Years grow with time, and five more years are fewer than 2233 days away. -/
theorem year_mono {u t : Int} (h : u ≤ t) : year Z u ≤ year Z t := by
  rw [year_eq, year_eq]
  have : mIdx Z u ≤ mIdx Z t := monthIndex_mono (by rw [dayNum_fixed, dayNum_fixed]; omega)
  omega

theorem year_limit_bound (t0 u : Int) (h : year Z u ≤ year Z t0 + 5) : u < t0 + 192931200 := by
  rw [year_eq, year_eq] at h
  have h1 : mIdx Z u + 1 ≤ mIdx Z t0 + 72 := by omega
  have hi := mIdx_hi Z u
  have lo := mIdx_lo Z t0
  have hb := (monthStart_add_bounds (mIdx Z t0) 72).2
  have hmono : monthStart (mIdx Z u + 1) ≤ monthStart (mIdx Z t0 + 72) := by
    by_cases he : mIdx Z u + 1 = mIdx Z t0 + 72
    · rw [he]; omega
    · have := monthStart_strictMono (M := mIdx Z u + 1) (M' := mIdx Z t0 + 72) (by omega); omega
  rw [dayNum_fixed] at hi lo
  have : ((72 : Nat) : Int) = 72 := rfl
  rw [this] at hb
  omega

end Fixed
end Kit.CronSpec
