import KitModel.SliceHeap
/-!
Frame logic for the slice/heap semantics (`KitModel/SliceHeap.lean`): a Hoare-style judgement
`Sat n W m Q` — started in any heap with at least `n` arrays, the run of `m` leaves the first `n`
arrays unchanged outside the cells `W`, and a normal result satisfies `Q` — with one rule per
primitive.  `sat_rule` is an extensible tactic: every proved `Sat` lemma registers itself.
-/
namespace Kit.SH

/-! ### arrays and heaps -/

theorem size_writeList (a : Array UInt8) (s : Nat) (vs : List UInt8) :
    (writeList a s vs).size = a.size := by
  induction vs generalizing a s with
  | nil => rfl
  | cons v vs ih => simp [writeList, ih]

theorem getElem?_writeList_out (a : Array UInt8) (s : Nat) (vs : List UInt8) (i : Nat)
    (h : i < s ∨ s + vs.length ≤ i) : (writeList a s vs)[i]? = a[i]? := by
  induction vs generalizing a s with
  | nil => rfl
  | cons v vs ih =>
    simp only [writeList]
    rw [ih]
    · rw [Array.getElem?_setIfInBounds]
      have : s ≠ i := by simp at h; omega
      simp [this]
    · simp at h; omega

theorem row_push_lt (h : Heap) (x : Array UInt8) (a : Nat) (ha : a < h.size) :
    Heap.row (h.push x) a = Heap.row h a := by
  simp [Heap.row, Array.getElem?_push, ha, Nat.ne_of_lt ha]

theorem row_write_ne (h : Heap) (arr s : Nat) (vs : List UInt8) (a : Nat) (hne : a ≠ arr) :
    Heap.row (h.write arr s vs) a = Heap.row h a := by
  simp [Heap.row, Heap.write, Ne.symm hne]

theorem row_write_eq (h : Heap) (arr s : Nat) (vs : List UInt8) :
    Heap.row (h.write arr s vs) arr = writeList (Heap.row h arr) s vs ∨ Heap.row (h.write arr s vs) arr = Heap.row h arr := by
  by_cases hl : arr < h.size
  · left; simp [Heap.row, Heap.write, hl]
  · right; simp [Heap.row, Heap.write, hl]

theorem size_write (h : Heap) (arr s : Nat) (vs : List UInt8) : (h.write arr s vs).size = h.size := by
  simp [Heap.write]

/-! ### `Ext` -/

theorem Ext.refl (n : Nat) (W : Nat → Nat → Prop) (h : Heap) : Ext n W h h :=
  ⟨Nat.le_refl _, fun _ _ => ⟨rfl, fun _ _ => rfl⟩⟩

theorem Ext.trans {n : Nat} {W : Nat → Nat → Prop} {h1 h2 h3 : Heap}
    (a : Ext n W h1 h2) (b : Ext n W h2 h3) : Ext n W h1 h3 :=
  ⟨Nat.le_trans a.1 b.1, fun x hx =>
    ⟨(b.2 x hx).1.trans (a.2 x hx).1, fun i hi => ((b.2 x hx).2 i hi).trans ((a.2 x hx).2 i hi)⟩⟩

theorem Ext.push {n : Nat} (W : Nat → Nat → Prop) (h : Heap) (x : Array UInt8) (hn : n ≤ h.size) :
    Ext n W h (h.push x) := by
  refine ⟨by simp, fun a ha => ?_⟩
  rw [row_push_lt h x a (by omega)]
  exact ⟨rfl, fun _ _ => rfl⟩

theorem Ext.write {n : Nat} (W : Nat → Nat → Prop) (h : Heap) (arr s : Nat) (vs : List UInt8)
    (hw : n ≤ arr ∨ ∀ i, s ≤ i → i < s + vs.length → W arr i) : Ext n W h (h.write arr s vs) := by
  refine ⟨by simp [size_write], fun a ha => ?_⟩
  by_cases hne : a = arr
  · subst hne
    rcases row_write_eq h a s vs with e | e
    · rw [e]
      refine ⟨size_writeList _ _ _, fun i hi => ?_⟩
      apply getElem?_writeList_out
      rcases hw with hw | hw
      · omega
      · by_cases h1 : i < s
        · exact Or.inl h1
        · by_cases h2 : s + vs.length ≤ i
          · exact Or.inr h2
          · exact absurd (hw i (by omega) (by omega)) hi
    · rw [e]; exact ⟨rfl, fun _ _ => rfl⟩
  · rw [row_write_ne h arr s vs a hne]; exact ⟨rfl, fun _ _ => rfl⟩

/-- with an empty write set the arrays below `n` are literally the same -/
theorem Ext.row_eq {n : Nat} {W : Nat → Nat → Prop} {h h' : Heap} (e : Ext n W h h')
    (a : Nat) (ha : a < n) (hW : ∀ i, ¬ W a i) : h'.row a = h.row a := by
  apply Array.ext_getElem?
  intro i
  exact (e.2 a ha).2 i (hW i)

theorem Ext.getElem?_eq {n : Nat} {W : Nat → Nat → Prop} {h h' : Heap} (e : Ext n W h h')
    (hn : n ≤ h.size) (a : Nat) (ha : a < n) (hW : ∀ i, ¬ W a i) : h'[a]? = h[a]? := by
  have r := e.row_eq a ha hW
  have h1 : a < h.size := by omega
  have h2 : a < h'.size := by have := e.1; omega
  simp [Heap.row, h1, h2] at r
  simp [h1, h2, r]

/-! ### the judgement -/

/-- writable: the slice lives in an array created during the call, or all its elements are in `W` -/
def Wr (n : Nat) (W : Nat → Nat → Prop) (s : Slice) : Prop :=
  n ≤ s.arr ∨ ∀ i, s.off ≤ i → i < s.off + s.len → W s.arr i

def Sat (n : Nat) (W : Nat → Nat → Prop) (m : M α) (Q : α → Prop) : Prop :=
  ∀ h : Heap, n ≤ h.size → Ext n W h (m h).2 ∧ ∀ a, (m h).1 = .ok a → Q a

variable {n : Nat} {W : Nat → Nat → Prop}

theorem sat_pure {Q : α → Prop} {a : α} (hq : Q a) : Sat n W (pure a : M α) Q := by
  intro h _
  exact ⟨Ext.refl _ _ _, fun b hb => by
    have : a = b := by simpa [pure, M.pure] using hb
    exact this ▸ hq⟩

theorem sat_bind {m : M α} {f : α → M β} {Q : α → Prop} {R : β → Prop}
    (hm : Sat n W m Q) (hf : ∀ a, Q a → Sat n W (f a) R) : Sat n W (m >>= f) R := by
  intro h hn
  have h1 := hm h hn
  show Ext n W h (M.bind m f h).2 ∧ ∀ a, (M.bind m f h).1 = .ok a → R a
  unfold M.bind
  rcases hmh : m h with ⟨o, h'⟩
  rw [hmh] at h1
  cases o with
  | ok a =>
    have hq := h1.2 a rfl
    have hn' : n ≤ h'.size := Nat.le_trans hn h1.1.1
    have h2 := hf a hq h' hn'
    exact ⟨Ext.trans h1.1 h2.1, h2.2⟩
  | err e => exact ⟨h1.1, fun a ha => by cases ha⟩
  | panic w => exact ⟨h1.1, fun a ha => by cases ha⟩

theorem sat_mono {m : M α} {Q Q' : α → Prop} (hm : Sat n W m Q) (hq : ∀ a, Q a → Q' a) :
    Sat n W m Q' := fun h hn => ⟨(hm h hn).1, fun a ha => hq a ((hm h hn).2 a ha)⟩

theorem sat_ite {c : Prop} [Decidable c] {a b : M α} {Q : α → Prop}
    (ha : c → Sat n W a Q) (hb : ¬ c → Sat n W b Q) : Sat n W (if c then a else b) Q := by
  by_cases h : c
  · rw [if_pos h]; exact ha h
  · rw [if_neg h]; exact hb h

theorem sat_fail {Q : α → Prop} (e : String) : Sat n W (fail e : M α) Q :=
  fun _ _ => ⟨Ext.refl _ _ _, fun _ ha => by cases ha⟩

theorem sat_goPanic {Q : α → Prop} (w : String) : Sat n W (goPanic w : M α) Q :=
  fun _ _ => ⟨Ext.refl _ _ _, fun _ ha => by cases ha⟩

theorem sat_getHeap : Sat n W getHeap (fun _ => True) :=
  fun _ _ => ⟨Ext.refl _ _ _, fun _ _ => trivial⟩

theorem sat_alloc (vals : List UInt8) :
    Sat n W (alloc vals) (fun s => n ≤ s.arr ∧ s.off = 0 ∧ s.len = vals.length ∧ s.cap = vals.length) := by
  intro h hn
  refine ⟨Ext.push W h _ hn, fun a ha => ?_⟩
  have : (⟨h.size, 0, vals.length, vals.length⟩ : Slice) = a := by simpa [alloc] using ha
  subst this
  exact ⟨hn, rfl, rfl, rfl⟩

theorem sat_make (k : Nat) :
    Sat n W (make k) (fun s => n ≤ s.arr ∧ s.off = 0 ∧ s.len = k ∧ s.cap = k) := by
  have := sat_alloc (n := n) (W := W) (List.replicate k 0)
  simpa [make] using this

theorem sat_makeCap (c : Nat) :
    Sat n W (makeCap c) (fun s => n ≤ s.arr ∧ s.off = 0 ∧ s.len = 0 ∧ s.cap = c) := by
  intro h hn
  refine ⟨Ext.push W h _ hn, fun a ha => ?_⟩
  have : (⟨h.size, 0, 0, c⟩ : Slice) = a := by simpa [makeCap] using ha
  subst this
  exact ⟨hn, rfl, rfl, rfl⟩

theorem sat_bytesRepeat (b : UInt8) (k : Nat) :
    Sat n W (bytesRepeat b k) (fun s => n ≤ s.arr ∧ s.off = 0 ∧ s.len = k ∧ s.cap = k) := by
  have := sat_alloc (n := n) (W := W) (List.replicate k b)
  simpa [bytesRepeat] using this

theorem Env.length_bytes (env : Env) (k : Nat) : (env.bytes k).length = k := by simp [Env.bytes]

theorem sat_hashSum (env : Env) (k : Nat) :
    Sat n W (hashSum env k) (fun s => n ≤ s.arr ∧ s.off = 0 ∧ s.len = k ∧ s.cap = k) := by
  have := sat_alloc (n := n) (W := W) (env.bytes k)
  simpa [hashSum, Env.length_bytes] using this

theorem sat_freshResult (env : Env) (k : Nat) :
    Sat n W (freshResult env k) (fun s => n ≤ s.arr ∧ s.off = 0 ∧ s.len = k ∧ s.cap = k) := by
  have := sat_alloc (n := n) (W := W) (env.bytes k)
  simpa [freshResult, Env.length_bytes] using this

theorem Heap.length_read (h : Heap) (s : Slice) : (h.read s).length = s.len := by simp [Heap.read]

theorem sat_readS (s : Slice) : Sat n W (readS s) (fun v => v.length = s.len) := by
  intro h _
  refine ⟨Ext.refl _ _ _, fun a ha => ?_⟩
  have : h.read s = a := by simpa [readS] using ha
  show a.length = s.len
  rw [← this, Heap.length_read]

theorem sat_storeRaw (s : Slice) (k : Nat) (vals : List UInt8)
    (hw : n ≤ s.arr ∨ ∀ i, s.off + k ≤ i → i < s.off + k + vals.length → W s.arr i) :
    Sat n W (storeRaw s k vals) (fun _ => True) :=
  fun h _ => ⟨Ext.write W h _ _ _ hw, fun _ _ => trivial⟩

theorem sat_writeAt (s : Slice) (k : Nat) (vals : List UInt8) (hw : Wr n W s) :
    Sat n W (writeAt s k vals) (fun _ => True) := by
  unfold writeAt
  apply sat_storeRaw
  rcases hw with hw | hw
  · exact Or.inl hw
  · right
    intro i h1 h2
    have : (vals.take (s.len - k)).length ≤ s.len - k := by simp; omega
    exact hw i (by omega) (by omega)

theorem sat_copyS (dst src : Slice) (hw : Wr n W dst) : Sat n W (copyS dst src) (fun _ => True) := by
  unfold copyS
  refine sat_bind (sat_readS src) fun vals _ => ?_
  refine sat_bind (sat_writeAt dst 0 vals hw) fun _ _ => ?_
  exact sat_pure trivial

/-- `append`: the in-place store (when the capacity suffices) must be allowed -/
theorem sat_append (s : Slice) (vals : List UInt8)
    (hw : n ≤ s.arr ∨ (s.len + vals.length ≤ s.cap →
      ∀ i, s.off + s.len ≤ i → i < s.off + s.len + vals.length → W s.arr i)) :
    Sat n W (append s vals)
      (fun r => r.len = s.len + vals.length ∧ (n ≤ s.arr → n ≤ r.arr) ∧
        (s.len + vals.length ≤ s.cap → r.arr = s.arr ∧ r.off = s.off ∧ r.cap = s.cap) ∧
        (¬ s.len + vals.length ≤ s.cap → n ≤ r.arr)) := by
  unfold append
  split
  · rename_i hc
    refine sat_bind (sat_storeRaw s s.len vals ?_) fun _ _ => ?_
    · rcases hw with hw | hw
      · exact Or.inl hw
      · exact Or.inr (hw hc)
    · exact sat_pure ⟨rfl, fun h => h, fun _ => ⟨rfl, rfl, rfl⟩, fun h => absurd hc h⟩
  · rename_i hc
    refine sat_bind (sat_readS s) fun old hold => ?_
    refine sat_mono (sat_alloc (old ++ vals)) fun r hr => ?_
    refine ⟨by simp [hr.2.2.1, hold], fun _ => hr.1, fun h => absurd h hc, fun _ => hr.1⟩

theorem sat_reslice (s : Slice) (lo hi : Nat) :
    Sat n W (reslice s lo hi)
      (fun r => r.arr = s.arr ∧ r.off = s.off + lo ∧ r.len = hi - lo ∧ r.cap = s.cap - lo ∧
        lo ≤ hi ∧ hi ≤ s.cap) := by
  unfold reslice
  split
  · rename_i hc; exact sat_pure ⟨rfl, rfl, rfl, rfl, hc.1, hc.2⟩
  · exact sat_goPanic _

theorem sat_reslice3 (s : Slice) (lo hi mx : Nat) :
    Sat n W (reslice3 s lo hi mx)
      (fun r => r.arr = s.arr ∧ r.off = s.off + lo ∧ r.len = hi - lo ∧ r.cap = mx - lo ∧
        lo ≤ hi ∧ hi ≤ mx ∧ mx ≤ s.cap) := by
  unfold reslice3
  split
  · rename_i hc; exact sat_pure ⟨rfl, rfl, rfl, rfl, hc.1, hc.2.1, hc.2.2⟩
  · exact sat_goPanic _

theorem sat_resliceFrom (s : Slice) (lo : Nat) :
    Sat n W (resliceFrom s lo)
      (fun r => r.arr = s.arr ∧ r.off = s.off + lo ∧ r.len = s.len - lo ∧ r.cap = s.cap - lo ∧
        lo ≤ s.len ∧ s.len ≤ s.cap) := sat_reslice s lo s.len

theorem sat_loop {ι : Type} (xs : List ι) (body : ι → M Unit)
    (hb : ∀ x, x ∈ xs → Sat n W (body x) (fun _ => True)) : Sat n W (loop xs body) (fun _ => True) := by
  induction xs with
  | nil => exact sat_pure trivial
  | cons x rest ih =>
    unfold loop
    refine sat_bind (hb x (by simp)) fun _ _ => ?_
    exact ih fun y hy => hb y (by simp [hy])

theorem sat_collect {ι : Type} (xs : List ι) (f : ι → M α) (Q : α → Prop)
    (hf : ∀ x, x ∈ xs → Sat n W (f x) Q) : Sat n W (collect xs f) (fun l => ∀ a, a ∈ l → Q a) := by
  induction xs with
  | nil => exact sat_pure (by simp)
  | cons x rest ih =>
    unfold collect
    refine sat_bind (hf x (by simp)) fun a ha => ?_
    refine sat_bind (ih fun y hy => hf y (by simp [hy])) fun as has => ?_
    exact sat_pure (by
      intro b hb
      rcases List.mem_cons.mp hb with rfl | hb
      · exact ha
      · exact has b hb)

theorem sat_aesNewCipher (key : Slice) (e : String) :
    Sat n W (aesNewCipher key e) (fun _ => key.len = 16 ∨ key.len = 24 ∨ key.len = 32) := by
  unfold aesNewCipher
  split
  · rename_i hc; exact sat_pure hc
  · exact sat_fail _

theorem sat_blockCrypt (env : Env) (dst src : Slice) (hw : Wr n W dst) :
    Sat n W (blockCrypt env dst src) (fun _ => True) := by
  unfold blockCrypt
  split
  · exact sat_goPanic _
  · split
    · exact sat_goPanic _
    · exact sat_writeAt dst 0 _ hw

theorem sat_cryptBlocks (env : Env) (dst src : Slice) (hw : Wr n W dst) :
    Sat n W (cryptBlocks env dst src) (fun _ => src.len % 16 = 0 ∧ src.len ≤ dst.len) := by
  unfold cryptBlocks
  split
  · exact sat_goPanic _
  · split
    · exact sat_goPanic _
    · split
      · exact sat_goPanic _
      · exact sat_mono (sat_writeAt dst 0 _ hw) fun _ _ => ⟨by omega, by omega⟩

/-- the nil slice may be handed to anything: no cell is reachable through it -/
theorem wr_nil : Wr n W Slice.nil := Or.inr fun i h1 h2 => by
  simp [Slice.nil] at h1 h2

/-! ### the extensible rule tactic -/

/-- closes a goal `Sat n W m ?Q` for a known `m` (side conditions are left as goals) -/
syntax "sat_rule" : tactic

macro_rules | `(tactic| sat_rule) => `(tactic| with_reducible exact sat_fail _)
macro_rules | `(tactic| sat_rule) => `(tactic| with_reducible exact sat_goPanic _)
macro_rules | `(tactic| sat_rule) => `(tactic| with_reducible exact sat_alloc _)
macro_rules | `(tactic| sat_rule) => `(tactic| with_reducible exact sat_make _)
macro_rules | `(tactic| sat_rule) => `(tactic| with_reducible exact sat_makeCap _)
macro_rules | `(tactic| sat_rule) => `(tactic| with_reducible exact sat_bytesRepeat _ _)
macro_rules | `(tactic| sat_rule) => `(tactic| with_reducible exact sat_hashSum _ _)
macro_rules | `(tactic| sat_rule) => `(tactic| with_reducible exact sat_freshResult _ _)
macro_rules | `(tactic| sat_rule) => `(tactic| with_reducible exact sat_readS _)
macro_rules | `(tactic| sat_rule) => `(tactic| with_reducible exact sat_reslice _ _ _)
macro_rules | `(tactic| sat_rule) => `(tactic| with_reducible exact sat_reslice3 _ _ _ _)
macro_rules | `(tactic| sat_rule) => `(tactic| with_reducible exact sat_resliceFrom _ _)
macro_rules | `(tactic| sat_rule) => `(tactic| with_reducible exact sat_aesNewCipher _ _)
macro_rules | `(tactic| sat_rule) => `(tactic| with_reducible refine sat_writeAt _ _ _ ?_)
macro_rules | `(tactic| sat_rule) => `(tactic| with_reducible refine sat_copyS _ _ ?_)
macro_rules | `(tactic| sat_rule) => `(tactic| with_reducible refine sat_append _ _ ?_)
macro_rules | `(tactic| sat_rule) => `(tactic| with_reducible refine sat_blockCrypt _ _ _ ?_)
macro_rules | `(tactic| sat_rule) => `(tactic| with_reducible refine sat_cryptBlocks _ _ _ ?_)

end Kit.SH
