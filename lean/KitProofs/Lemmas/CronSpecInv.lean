/-
Invariants of the five loops of `Next` on zones with a constant offset that is a multiple of 60 s.
-/
import KitProofs.Lemmas.CronSpecFixed

namespace Kit.CronSpec
open Kit.CronCal

/-- No matching instant in `[a, b)`. -/
def NoMatch (s : Sched) (z : Zone) (a b : Int) : Prop := ∀ u, a ≤ u → u < b → ¬ Matches s z u

theorem NoMatch.extend {s : Sched} {z : Zone} {t0 t t2 : Int} (h : NoMatch s z t0 t)
    (h2 : ∀ u, t ≤ u → u < t2 → ¬ Matches s z u) : NoMatch s z t0 t2 := by
  intro u hu1 hu2
  by_cases hlt : u < t
  · exact h u hu1 hlt
  · exact h2 u (by omega) hu2

/-- Alignment that holds whenever `added` is set (outside the seconds loop): the second is 0, and
a field is away from its minimum only if all higher fields are known to match. -/
structure Al (s : Sched) (z : Zone) (t : Int) : Prop where
  sec0 : second z t = 0
  mn : minute z t ≠ 0 → has s.hour (hour z t) = true ∧ dayRule s z t ∧ has s.month (month z t) = true
  hr : hour z t ≠ 0 → dayRule s z t ∧ has s.month (month z t) = true
  dy : day z t ≠ 1 → has s.month (month z t) = true

/-- State invariant at every loop head (`t0` = the rounded-up start). -/
def Inv0 (s : Sched) (z : Zone) (t0 t : Int) (a : Bool) : Prop :=
  NoMatch s z t0 t ∧ (a = false → t = t0) ∧ (a = true → t0 < t ∧ Al s z t)

theorem Inv0.le {s : Sched} {z : Zone} {t0 t : Int} {a : Bool} (h : Inv0 s z t0 t a) : t0 ≤ t := by
  cases a
  · have := h.2.1 rfl; omega
  · have := (h.2.2 rfl).1; omega

section Fixed
variable {s : Sched} {off : Int}
local notation "Z" => fixedZone off

/-! ### aligned points -/

theorem atMS {t M : Int} (h : t + off = monthStart M * 86400) :
    dayNum Z t = monthStart M ∧ mIdx Z t = M ∧ day Z t = 1 ∧ hour Z t = 0 ∧ minute Z t = 0 ∧
      second Z t = 0 := by
  have hd : dayNum Z t = monthStart M := by rw [dayNum_fixed]; omega
  have hm : mIdx Z t = M := by simp only [mIdx]; rw [hd]; exact monthIndex_monthStart M
  refine ⟨hd, hm, ?_, ?_, ?_, ?_⟩
  · rw [day_eq, hm, hd]; omega
  · rw [hour_fixed]; omega
  · rw [minute_fixed]; omega
  · rw [second_fixed]; omega

theorem aligned_atMS {t : Int} (h1 : day Z t = 1) (h2 : hour Z t = 0) (h3 : minute Z t = 0)
    (h4 : second Z t = 0) : t + off = monthStart (mIdx Z t) * 86400 := by
  rw [day_eq] at h1
  rw [hour_fixed] at h2; rw [minute_fixed] at h3; rw [second_fixed] at h4
  rw [dayNum_fixed] at h1
  omega

theorem dayStart_hour0 {t : Int} (h : hour Z t = 0) : dayStart Z t = t := by
  have h' : hour Z (t - 3600) ≠ 0 := by
    rw [hour_fixed] at h ⊢; omega
  simp only [dayStart, h]
  simp [h']

theorem reset_month (t : Int) :
    dayStart Z (goDate Z (year Z t) (month Z t) 1 0 0 0) + off = monthStart (mIdx Z t) * 86400 := by
  have h := goDate_month off t 0 0 (Or.inl rfl)
  simp only [Int.add_zero] at h
  have hh : hour Z (goDate Z (year Z t) (month Z t) 1 0 0 0) = 0 := by
    rw [hour_fixed, h]; omega
  rw [dayStart_hour0 hh, h]; omega

theorem inc_month {t M : Int} (h : t + off = monthStart M * 86400) :
    dayStart Z (addDate Z t 0 1 0) + off = monthStart (M + 1) * 86400 := by
  obtain ⟨_, hm, hd, hh, hmi, hs⟩ := atMS h
  have hg := goDate_month off t 1 0 (Or.inr rfl)
  simp only [Int.add_zero] at hg
  have e : addDate Z t 0 1 0 = goDate Z (year Z t) (month Z t + 1) 1 0 0 0 := by
    simp only [addDate, hd, hh, hmi, hs, Int.add_zero]
  rw [e]
  have hh : hour Z (goDate Z (year Z t) (month Z t + 1) 1 0 0 0) = 0 := by
    rw [hour_fixed, hg]; omega
  rw [dayStart_hour0 hh, hg, hm]; omega

theorem reset_day (t : Int) :
    goDate Z (year Z t) (month Z t) (day Z t) 0 0 0 + off = dayNum Z t * 86400 := by
  have h := goDate_today off t 0 0 0 0
  simp only [Int.add_zero] at h
  rw [h]; omega

theorem inc_day {t : Int} (h2 : hour Z t = 0) (h3 : minute Z t = 0) (h4 : second Z t = 0) :
    dayStart Z (addDate Z t 0 0 1) + off = (dayNum Z t + 1) * 86400 := by
  have hg := goDate_today off t 1 0 0 0
  have e : addDate Z t 0 0 1 = goDate Z (year Z t) (month Z t) (day Z t + 1) 0 0 0 := by
    simp only [addDate, h2, h3, h4, Int.add_zero]
  rw [e]
  have hh : hour Z (goDate Z (year Z t) (month Z t) (day Z t + 1) 0 0 0) = 0 := by
    rw [hour_fixed, hg]; omega
  rw [dayStart_hour0 hh, hg]; omega

theorem inc_day' {t : Int} (h2 : hour Z t = 0) (h3 : minute Z t = 0) (h4 : second Z t = 0) :
    dayInc Z t + off = (dayNum Z t + 1) * 86400 := by
  have h := inc_day h2 h3 h4
  have hlt : t < dayStart Z (addDate Z t 0 0 1) := by
    rw [hour_fixed] at h2; rw [minute_fixed] at h3; rw [second_fixed] at h4
    rw [dayNum_fixed] at h; omega
  simp only [dayInc, hlt, if_true]; exact h

theorem reset_hour (t : Int) :
    goDate Z (year Z t) (month Z t) (day Z t) (hour Z t) 0 0 + off
      = (t + off) - (t + off) % 3600 := by
  have h := goDate_today off t 0 (hour Z t) 0 0
  simp only [Int.add_zero] at h
  rw [h, hour_fixed, dayNum_fixed]; omega

theorem reset_minute (h60 : off % 60 = 0) (t : Int) :
    truncate t 60 + off = (t + off) - (t + off) % 60 := by
  simp only [truncate, unixToInternal]; omega

/-! ### carrying the alignment forward -/

/-- Build `Al` at `t2` from what is known at an earlier `t` of the same or the previous day. -/
theorem al_of {t t2 : Int} (hs : second Z t2 = 0)
    (hD : dayNum Z t2 = dayNum Z t ∨ dayNum Z t2 = dayNum Z t + 1)
    (hM : has s.month (month Z t) = true)
    (hmn : minute Z t2 ≠ 0 → dayNum Z t2 = dayNum Z t ∧ hour Z t2 = hour Z t ∧
      has s.hour (hour Z t) = true ∧ dayRule s Z t)
    (hhr : hour Z t2 ≠ 0 → dayNum Z t2 = dayNum Z t ∧ dayRule s Z t) : Al s Z t2 := by
  have hmonth : day Z t2 ≠ 1 → has s.month (month Z t2) = true := by
    intro hd
    rcases hD with h | h
    · rw [month_congr h]; exact hM
    · rw [month_of_mIdx (mIdx_next_day h hd)]; exact hM
  refine ⟨hs, ?_, ?_, hmonth⟩
  · intro h
    obtain ⟨h1, h2, h3, h4⟩ := hmn h
    refine ⟨by rw [h2]; exact h3, (dayRule_congr h1).2 h4, by rw [month_congr h1]; exact hM⟩
  · intro h
    obtain ⟨h1, h4⟩ := hhr h
    exact ⟨(dayRule_congr h1).2 h4, by rw [month_congr h1]; exact hM⟩

/-- What every `goto WRAP` establishes (`tin` = time at the previous `WRAP`). -/
def QW (s : Sched) (off t0 tin t : Int) : Prop := tin < t ∧ Inv0 s (fixedZone off) t0 t true

/-! ### month loop -/

def PinM (s : Sched) (off t0 tin t : Int) (a : Bool) : Prop := tin ≤ t ∧ Inv0 s (fixedZone off) t0 t a

theorem month_rule (t0 tin : Int) (t : Int) (a : Bool) (hp : PinM s off t0 tin t a) :
    match monthLoop s Z innerFuel t a with
    | .next t' a' => PinM s off t0 tin t' a' ∧ has s.month (month Z t') = true
    | .wrap t' a' => a' = true ∧ QW s off t0 tin t'
    | .fuel => False := by
  have hmr := month_range Z t
  refine loop_rule (PinM s off t0 tin)
    (fun t' a' => PinM s off t0 tin t' a' ∧ has s.month (month Z t') = true)
    (QW s off t0 tin) (fun t => 13 - month Z t)
    (fun t a hp hok => ⟨hp, hok⟩) ?_ innerFuel t a hp (by omega) (by simp only [innerFuel]; omega)
  clear hmr hp t a
  intro t a ⟨htin, hnm, hf, ht⟩ hok
  have hok' : ¬ has s.month (month Z t) = true := by simpa using hok
  -- where the reset lands, and where the increment lands
  have h1 : (if a then t else dayStart Z (goDate Z (year Z t) (month Z t) 1 0 0 0)) + off
      = monthStart (mIdx Z t) * 86400 := by
    cases a
    · simpa using reset_month t
    · obtain ⟨_, hal⟩ := ht rfl
      have hd : day Z t = 1 := by
        by_cases h : day Z t = 1; exact h; exact absurd (hal.dy h) hok'
      have hh : hour Z t = 0 := by
        by_cases h : hour Z t = 0; exact h; exact absurd (hal.hr h).2 hok'
      have hmi : minute Z t = 0 := by
        by_cases h : minute Z t = 0; exact h; exact absurd (hal.mn h).2.2 hok'
      simpa using aligned_atMS hd hh hmi hal.sec0
  have h2 := inc_month h1
  generalize (if a then t else dayStart Z (goDate Z (year Z t) (month Z t) 1 0 0 0)) = t1 at h1 h2
  generalize dayStart Z (addDate Z t1 0 1 0) = t2 at h2
  obtain ⟨hd2, hm2, hday2, hh2, hmi2, hs2⟩ := atMS h2
  have lo := mIdx_lo Z t
  have hi := mIdx_hi Z t
  rw [dayNum_fixed] at lo hi
  have hlt : t < t2 := by omega
  have ht0 : t0 ≤ t := Inv0.le ⟨hnm, hf, ht⟩
  have hinv : Inv0 s Z t0 t2 true := by
    refine ⟨hnm.extend ?_, by simp, fun _ => ⟨by omega, ⟨hs2, ?_, ?_, ?_⟩⟩⟩
    · intro u hu1 hu2 hmatch
      have : mIdx Z u = mIdx Z t := mIdx_between (by rw [dayNum_fixed]; omega) (by rw [dayNum_fixed]; omega)
      rw [Matches, month_of_mIdx this] at hmatch
      exact hok' hmatch.2.2.2.1
    · intro h; exact absurd hmi2 h
    · intro h; exact absurd hh2 h
    · intro h; exact absurd hday2 h
  refine ⟨fun _ => ⟨by omega, hinv⟩, fun hw => ⟨⟨by omega, hinv⟩, ?_, ?_⟩⟩
  · have := month_range Z t2; omega
  · have hw' : month Z t2 ≠ 1 := by simpa using hw
    rw [month_eq, hm2] at hw' ⊢
    rw [month_eq]
    omega

/-! ### day loop -/

def PinD (s : Sched) (off t0 tin t : Int) (a : Bool) : Prop :=
  PinM s off t0 tin t a ∧ has s.month (month (fixedZone off) t) = true

theorem day_rule (t0 tin : Int) (t : Int) (a : Bool) (hp : PinD s off t0 tin t a) :
    match dayLoop s Z innerFuel t a with
    | .next t' a' => PinD s off t0 tin t' a' ∧ dayRule s Z t'
    | .wrap t' a' => a' = true ∧ QW s off t0 tin t'
    | .fuel => False := by
  have hdr := day_range Z t
  refine loop_rule (PinD s off t0 tin)
    (fun t' a' => PinD s off t0 tin t' a' ∧ dayRule s Z t')
    (QW s off t0 tin) (fun t => 32 - day Z t)
    (fun t a hp hok => ⟨hp, (dayMatches_iff s Z t).1 hok⟩) ?_ innerFuel t a hp (by omega)
    (by simp only [innerFuel]; omega)
  clear hdr hp t a
  intro t a ⟨⟨htin, hnm, hf, ht⟩, hmon⟩ hok
  have hok' : ¬ dayRule s Z t := by
    intro h; rw [(dayMatches_iff s Z t).2 h] at hok; exact Bool.noConfusion hok
  have h1 : (if a then t else goDate Z (year Z t) (month Z t) (day Z t) 0 0 0) + off
      = dayNum Z t * 86400 := by
    cases a
    · simpa using reset_day t
    · obtain ⟨_, hal⟩ := ht rfl
      have hh : hour Z t = 0 := by
        by_cases h : hour Z t = 0; exact h; exact absurd (hal.hr h).1 hok'
      have hmi : minute Z t = 0 := by
        by_cases h : minute Z t = 0; exact h; exact absurd (hal.mn h).2.1 hok'
      have hs := hal.sec0
      rw [hour_fixed] at hh; rw [minute_fixed] at hmi; rw [second_fixed] at hs
      simp only [if_true]; rw [dayNum_fixed]; omega
  generalize (if a then t else goDate Z (year Z t) (month Z t) (day Z t) 0 0 0) = t1 at h1
  have hD1 : dayNum Z t1 = dayNum Z t := by
    rw [dayNum_fixed] at h1 ⊢; rw [dayNum_fixed]; omega
  have h2 := inc_day' (t := t1) (off := off) (by rw [hour_fixed]; omega) (by rw [minute_fixed]; omega)
    (by rw [second_fixed]; omega)
  rw [hD1] at h2
  generalize dayInc Z t1 = t2 at h2
  have hD2 : dayNum Z t2 = dayNum Z t + 1 := by rw [dayNum_fixed] at h2 ⊢; rw [dayNum_fixed]; omega
  have hh2 : hour Z t2 = 0 := by rw [hour_fixed]; omega
  have hmi2 : minute Z t2 = 0 := by rw [minute_fixed]; omega
  have hs2 : second Z t2 = 0 := by rw [second_fixed]; omega
  have hlt : t < t2 := by rw [dayNum_fixed] at h2; omega
  have ht0 : t0 ≤ t := Inv0.le ⟨hnm, hf, ht⟩
  have hinv : Inv0 s Z t0 t2 true := by
    refine ⟨hnm.extend ?_, by simp, fun _ => ⟨by omega, ?_⟩⟩
    · intro u hu1 hu2 hmatch
      have : dayNum Z u = dayNum Z t := by
        rw [dayNum_fixed] at h2 ⊢; rw [dayNum_fixed]; omega
      exact hok' ((dayRule_congr this).1 hmatch.2.2.2.2)
    · exact al_of hs2 (Or.inr hD2) hmon (fun h => absurd hmi2 h) (fun h => absurd hh2 h)
  refine ⟨fun _ => ⟨by omega, hinv⟩, fun hw => ?_⟩
  have hw' : day Z t2 ≠ 1 := by simpa using hw
  have hm := mIdx_next_day hD2 hw'
  refine ⟨⟨⟨by omega, hinv⟩, by rw [month_of_mIdx hm]; exact hmon⟩, ?_, ?_⟩
  · have := day_range Z t2; omega
  · have := day_next hD2 hm; omega

/-! ### hour loop -/

def PinH (s : Sched) (off t0 tin t : Int) (a : Bool) : Prop :=
  PinD s off t0 tin t a ∧ dayRule s (fixedZone off) t

theorem hour_rule (t0 tin : Int) (t : Int) (a : Bool) (hp : PinH s off t0 tin t a) :
    match hourLoop s Z innerFuel t a with
    | .next t' a' => PinH s off t0 tin t' a' ∧ has s.hour (hour Z t') = true
    | .wrap t' a' => a' = true ∧ QW s off t0 tin t'
    | .fuel => False := by
  have hhr : 0 ≤ hour Z t ∧ hour Z t < 24 := by rw [hour_fixed]; omega
  refine loop_rule (PinH s off t0 tin)
    (fun t' a' => PinH s off t0 tin t' a' ∧ has s.hour (hour Z t') = true)
    (QW s off t0 tin) (fun t => 24 - hour Z t)
    (fun t a hp hok => ⟨hp, hok⟩) ?_ innerFuel t a hp (by omega)
    (by simp only [innerFuel]; omega)
  clear hhr hp t a
  intro t a ⟨⟨⟨htin, hnm, hf, ht⟩, hmon⟩, hday⟩ hok
  have hok' : ¬ has s.hour (hour Z t) = true := by simpa using hok
  have h1 : (if a then t else goDate Z (year Z t) (month Z t) (day Z t) (hour Z t) 0 0) + off
      = (t + off) - (t + off) % 3600 := by
    cases a
    · simpa using reset_hour t
    · obtain ⟨_, hal⟩ := ht rfl
      have hmi : minute Z t = 0 := by
        by_cases h : minute Z t = 0; exact h; exact absurd (hal.mn h).1 hok'
      have hs := hal.sec0
      rw [minute_fixed] at hmi; rw [second_fixed] at hs
      simp only [if_true]; omega
  generalize (if a then t else goDate Z (year Z t) (month Z t) (day Z t) (hour Z t) 0 0) = t1 at h1
  have hs2 : second Z (t1 + 3600) = 0 := by rw [second_fixed]; omega
  have hmi2 : minute Z (t1 + 3600) = 0 := by rw [minute_fixed]; omega
  have hD : dayNum Z (t1 + 3600) = dayNum Z t ∨ dayNum Z (t1 + 3600) = dayNum Z t + 1 := by
    rw [dayNum_fixed, dayNum_fixed]; omega
  have hh2 : hour Z (t1 + 3600) ≠ 0 → dayNum Z (t1 + 3600) = dayNum Z t ∧
      hour Z (t1 + 3600) = hour Z t + 1 := by
    rw [dayNum_fixed, dayNum_fixed, hour_fixed, hour_fixed]; omega
  have hlt : t < t1 + 3600 := by omega
  have ht0 : t0 ≤ t := Inv0.le ⟨hnm, hf, ht⟩
  have hinv : Inv0 s Z t0 (t1 + 3600) true := by
    refine ⟨hnm.extend ?_, by simp, fun _ => ⟨by omega, ?_⟩⟩
    · intro u hu1 hu2 hmatch
      have : hour Z u = hour Z t := by
        rw [hour_fixed, hour_fixed]; omega
      rw [Matches, this] at hmatch
      exact hok' hmatch.2.2.1
    · exact al_of hs2 hD hmon (fun h => absurd hmi2 h) (fun h => ⟨(hh2 h).1, hday⟩)
  refine ⟨fun _ => ⟨by omega, hinv⟩, fun hw => ?_⟩
  have hw' : ¬ hour Z (t1 + 3600) = 0 ∧ day Z (t1 + 3600) = day Z t1 := by simpa using hw
  obtain ⟨hsame, hnext⟩ := hh2 hw'.1
  refine ⟨⟨⟨⟨by omega, hinv⟩, by rw [month_congr hsame]; exact hmon⟩,
    (dayRule_congr hsame).2 hday⟩, ?_, ?_⟩
  · have : hour Z (t1 + 3600) < 24 := by rw [hour_fixed]; omega
    omega
  · omega

/-! ### minute loop -/

def PinMi (s : Sched) (off t0 tin t : Int) (a : Bool) : Prop :=
  PinH s off t0 tin t a ∧ has s.hour (hour (fixedZone off) t) = true

theorem minute_rule (h60 : off % 60 = 0) (t0 tin : Int) (t : Int) (a : Bool)
    (hp : PinMi s off t0 tin t a) :
    match minuteLoop s Z innerFuel t a with
    | .next t' a' => PinMi s off t0 tin t' a' ∧ has s.minute (minute Z t') = true
    | .wrap t' a' => a' = true ∧ QW s off t0 tin t'
    | .fuel => False := by
  have hmr : 0 ≤ minute Z t ∧ minute Z t < 60 := by rw [minute_fixed]; omega
  refine loop_rule (PinMi s off t0 tin)
    (fun t' a' => PinMi s off t0 tin t' a' ∧ has s.minute (minute Z t') = true)
    (QW s off t0 tin) (fun t => 60 - minute Z t)
    (fun t a hp hok => ⟨hp, hok⟩) ?_ innerFuel t a hp (by omega)
    (by simp only [innerFuel]; omega)
  clear hmr hp t a
  intro t a ⟨⟨⟨⟨htin, hnm, hf, ht⟩, hmon⟩, hday⟩, hhour⟩ hok
  have hok' : ¬ has s.minute (minute Z t) = true := by simpa using hok
  have h1 : (if a then t else truncate t 60) + off = (t + off) - (t + off) % 60 := by
    cases a
    · simpa using reset_minute h60 t
    · obtain ⟨_, hal⟩ := ht rfl
      have hs := hal.sec0
      rw [second_fixed] at hs
      simp only [if_true]; omega
  generalize (if a then t else truncate t 60) = t1 at h1
  have hs2 : second Z (t1 + 60) = 0 := by rw [second_fixed]; omega
  have hD : dayNum Z (t1 + 60) = dayNum Z t ∨ dayNum Z (t1 + 60) = dayNum Z t + 1 := by
    rw [dayNum_fixed, dayNum_fixed]; omega
  have hmi2 : minute Z (t1 + 60) ≠ 0 → dayNum Z (t1 + 60) = dayNum Z t ∧
      hour Z (t1 + 60) = hour Z t ∧ minute Z (t1 + 60) = minute Z t + 1 := by
    rw [dayNum_fixed, dayNum_fixed, hour_fixed, hour_fixed, minute_fixed, minute_fixed]; omega
  have hh2 : hour Z (t1 + 60) ≠ 0 → dayNum Z (t1 + 60) = dayNum Z t := by
    rw [dayNum_fixed, dayNum_fixed, hour_fixed]; omega
  have hlt : t < t1 + 60 := by omega
  have ht0 : t0 ≤ t := Inv0.le ⟨hnm, hf, ht⟩
  have hinv : Inv0 s Z t0 (t1 + 60) true := by
    refine ⟨hnm.extend ?_, by simp, fun _ => ⟨by omega, ?_⟩⟩
    · intro u hu1 hu2 hmatch
      have : minute Z u = minute Z t := by
        rw [minute_fixed, minute_fixed]; omega
      rw [Matches, this] at hmatch
      exact hok' hmatch.2.1
    · exact al_of hs2 hD hmon (fun h => ⟨(hmi2 h).1, (hmi2 h).2.1, hhour, hday⟩)
        (fun h => ⟨hh2 h, hday⟩)
  refine ⟨fun _ => ⟨by omega, hinv⟩, fun hw => ?_⟩
  have hw' : ¬ minute Z (t1 + 60) = 0 := by simpa using hw
  obtain ⟨hsame, hhsame, hnext⟩ := hmi2 hw'
  refine ⟨⟨⟨⟨⟨by omega, hinv⟩, by rw [month_congr hsame]; exact hmon⟩,
    (dayRule_congr hsame).2 hday⟩, by rw [hhsame]; exact hhour⟩, ?_, ?_⟩
  · have : minute Z (t1 + 60) < 60 := by rw [minute_fixed]; omega
    omega
  · omega

/-! ### second loop -/

def PinS (s : Sched) (off t0 tin t : Int) (_a : Bool) : Prop :=
  tin ≤ t ∧ t0 ≤ t ∧ NoMatch s (fixedZone off) t0 t ∧ has s.month (month (fixedZone off) t) = true ∧
  dayRule s (fixedZone off) t ∧ has s.hour (hour (fixedZone off) t) = true ∧
  has s.minute (minute (fixedZone off) t) = true

theorem PinS_of_PinMi {t0 tin t : Int} {a : Bool} (h : PinMi s off t0 tin t a)
    (hm : has s.minute (minute Z t) = true) : PinS s off t0 tin t a :=
  ⟨h.1.1.1.1, Inv0.le h.1.1.1.2, h.1.1.1.2.1, h.1.1.2, h.1.2, h.2, hm⟩

theorem second_rule (t0 tin : Int) (t : Int) (a : Bool) (hp : PinS s off t0 tin t a) :
    match secondLoop s Z innerFuel t a with
    | .next t' _ => t0 ≤ t' ∧ NoMatch s Z t0 t' ∧ Matches s Z t'
    | .wrap t' a' => a' = true ∧ QW s off t0 tin t'
    | .fuel => False := by
  have hsr : 0 ≤ second Z t ∧ second Z t < 60 := by rw [second_fixed]; omega
  refine loop_rule (PinS s off t0 tin)
    (fun t' _ => t0 ≤ t' ∧ NoMatch s Z t0 t' ∧ Matches s Z t')
    (QW s off t0 tin) (fun t => 60 - second Z t)
    (fun t a hp hok => ⟨hp.2.1, hp.2.2.1, hok, hp.2.2.2.2.2.2, hp.2.2.2.2.2.1, hp.2.2.2.1,
      hp.2.2.2.2.1⟩) ?_ innerFuel t a hp (by omega)
    (by simp only [innerFuel]; omega)
  clear hsr hp t a
  intro t a ⟨htin, ht0, hnm, hmon, hday, hhour, hmin⟩ hok
  have hok' : ¬ has s.second (second Z t) = true := by simpa using hok
  have h1 : (if a then t else truncate t 1) = t := by
    cases a
    · simp only [truncate]; simp
    · rfl
  rw [h1]
  have hD : dayNum Z (t + 1) = dayNum Z t ∨ dayNum Z (t + 1) = dayNum Z t + 1 := by
    rw [dayNum_fixed, dayNum_fixed]; omega
  have hs2 : second Z (t + 1) ≠ 0 → dayNum Z (t + 1) = dayNum Z t ∧ hour Z (t + 1) = hour Z t ∧
      minute Z (t + 1) = minute Z t ∧ second Z (t + 1) = second Z t + 1 := by
    rw [dayNum_fixed, dayNum_fixed, hour_fixed, hour_fixed, minute_fixed, minute_fixed,
      second_fixed, second_fixed]; omega
  have hnm2 : NoMatch s Z t0 (t + 1) := by
    refine hnm.extend ?_
    intro u hu1 hu2 hmatch
    have : u = t := by omega
    rw [this] at hmatch
    exact hok' hmatch.1
  refine ⟨fun hw => ?_, fun hw => ?_⟩
  · have hw' : second Z (t + 1) = 0 := by simpa using hw
    have hmi2 : minute Z (t + 1) ≠ 0 → dayNum Z (t + 1) = dayNum Z t ∧
        hour Z (t + 1) = hour Z t := by
      rw [second_fixed] at hw'
      rw [dayNum_fixed, dayNum_fixed, hour_fixed, hour_fixed, minute_fixed]; omega
    have hh2 : hour Z (t + 1) ≠ 0 → dayNum Z (t + 1) = dayNum Z t := by
      rw [second_fixed] at hw'
      rw [dayNum_fixed, dayNum_fixed, hour_fixed]; omega
    exact ⟨by omega, hnm2, by simp, fun _ => ⟨by omega,
      al_of hw' hD hmon (fun h => ⟨(hmi2 h).1, (hmi2 h).2, hhour, hday⟩) (fun h => ⟨hh2 h, hday⟩)⟩⟩
  · have hw' : ¬ second Z (t + 1) = 0 := by simpa using hw
    obtain ⟨hsame, hhsame, hmsame, hnext⟩ := hs2 hw'
    refine ⟨⟨by omega, by omega, hnm2, by rw [month_congr hsame]; exact hmon,
      (dayRule_congr hsame).2 hday, by rw [hhsame]; exact hhour, by rw [hmsame]; exact hmin⟩, ?_, ?_⟩
    · have : second Z (t + 1) < 60 := by rw [second_fixed]; omega
      omega
    · omega

end Fixed
end Kit.CronSpec
