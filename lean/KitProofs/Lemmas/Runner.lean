import KitProofs.Lemmas.RunnerFacts
/-!
Helper lemmas for C12: the inductive invariant of the `RM` transition system
(`concurrency.RunnerManager`) and frame facts used by the closer-manager invariants.
-/
namespace Kit.Runner

/-- Replacing one element changes a `countP` by the difference of the two indicator values. -/
theorem countP_set_add {α} (p : α → Bool) (l : List α) (i : Nat) (old new : α)
    (h : l[i]? = some old) :
    (l.set i new).countP p + (if p old then 1 else 0) = l.countP p + (if p new then 1 else 0) := by
  induction l generalizing i with
  | nil => simp at h
  | cons x xs ih =>
    cases i with
    | zero =>
      simp at h; subst h
      simp [List.countP_cons]; omega
    | succ j =>
      simp at h
      have := ih j h
      simp [List.countP_cons]; omega

/-- If every element satisfies `p` as counted, each single element does. -/
theorem of_countP_eq_length {α} (p : α → Bool) (l : List α) (h : l.countP p = l.length)
    (i : Nat) (x : α) (hx : l[i]? = some x) : p x = true := by
  have := (List.countP_eq_length (p := p) (l := l)).mp h
  exact this x (List.mem_of_getElem? hx)

structure RM.Inv (s : RM) : Prop where
  spawned_le : s.spawned ≤ s.pcs.length
  unspawned : ∀ (i : Nat) p, s.pcs[i]? = some p → s.spawned ≤ i → p = .idle
  collected_eq : s.collected = s.pcs.countP RPc.isDelivered
  errs_count : ∀ e, s.errs.count e = s.pcs.countP (fun p => p.deliveredReal == some e)
  idle_spawned : s.runPc = .idle → s.spawned = 0
  running_iff : s.running = true ↔ s.runPc ≠ .idle
  done_cancel : 0 < s.pcs.countP RPc.isDone → s.cancelCalled = true
  cancel_src : s.cancelCalled = true → 0 < s.pcs.countP RPc.isDone ∨ s.runPc = .finished
  fin : s.runPc = .finished → s.collected = s.pcs.length ∧ s.spawned = s.pcs.length ∧ s.result = some s.errs
  res : s.result.isSome → s.runPc = .finished

theorem RM.inv_init : RM.Inv {} := by
  constructor <;> simp

theorem RM.inv_step {s s' : RM} (a : RLabel) (h : RM.Inv s) (hs : s.step a = some s') :
    RM.Inv s' := by
  obtain ⟨h1, h2, h3, h4, h5, h6, h7, h8, h9, h10⟩ := h
  have c1 := fun i old new => countP_set_add RPc.isDelivered s.pcs i old new
  have c2 := fun e i old new => countP_set_add (fun p => p.deliveredReal == some e) s.pcs i old new
  have c3 := fun i old new => countP_set_add RPc.isDone s.pcs i old new
  cases a <;> constructor <;>
    grind [RM.step, RPc.isDelivered, RPc.deliveredReal, RPc.isDone, Ret.real,
      List.countP_replicate]

theorem RM.inv_of_reach {s : RM} (h : RM.Reach s) : RM.Inv s := by
  induction h with
  | init => exact RM.inv_init
  | step a _ hs ih => exact RM.inv_step a ih hs

theorem RM.inv_of_steps {s t : RM} (h : RM.Steps s t) (hi : RM.Inv s) : RM.Inv t := by
  induction h with
  | refl => exact hi
  | tail a _ hs ih => exact RM.inv_step a ih hs

theorem RM.reach_of_steps {s t : RM} (h : RM.Steps s t) (hr : RM.Reach s) : RM.Reach t := by
  induction h with
  | refl => exact hr
  | tail a _ hs ih => exact RM.Reach.step a ih hs

/-- Once `Run` has returned nothing the manager still does changes its verdict. -/
theorem RM.step_finished {s s' : RM} (a : RLabel) (h : RM.Inv s) (hs : s.step a = some s')
    (hf : s.runPc = .finished) :
    s'.runPc = .finished ∧ s'.errs = s.errs ∧ s'.result = s.result := by
  obtain ⟨h1, h2, h3, h4, h5, h6, h7, h8, h9, h10⟩ := h
  cases a <;> grind [RM.step]

/-- `running` is never reset. -/
theorem RM.step_running {s s' : RM} (a : RLabel) (hs : s.step a = some s')
    (hr : s.running = true) : s'.running = true := by
  cases a <;> grind [RM.step]

/-- The registered runners never change once the manager is running. -/
theorem RM.step_length {s s' : RM} (a : RLabel) (hs : s.step a = some s')
    (hr : s.running = true) : s'.pcs.length = s.pcs.length := by
  cases a <;> grind [RM.step]

end Kit.Runner
