/-
C03: the hand-written model `Kit.CryptoGlue.wrap` (which mirrors keywrap.go statement by
statement) IS RFC 3394 as written, index based, in `Kit.Crypto.kwWrapWith` (KitModel/Crypto/KeyWrap.lean,
from RFC 3394 §2.2.1) — for every block function and every length; and the counter that is xor-ed
into A is the full 64-bit big-endian encoding of t.
-/
import KitProofs.Lemmas.CryptoGlueKW
import KitModel.Crypto
namespace Kit.CryptoGlue
open Kit

/-! ### the counter -/

/-- Value of big-endian bytes. -/
def fromBe64 (bs : Bytes) : Nat := bs.foldl (fun acc b => acc * 256 + b.toNat) 0

/-- The counter bytes of the model carry all 64 bits of `t` (not only its low byte). -/
theorem fromBe64_be64 (t : Nat) : fromBe64 (be64 t) = t % 18446744073709551616 := by
  have h : ∀ x, (UInt8.ofNat x).toNat = x % 256 := fun x => by simp
  unfold fromBe64 be64
  simp only [List.foldl_cons, List.foldl_nil, h, Nat.zero_mul, Nat.zero_add, Nat.mod_mod]
  have e56 : (2 : Nat) ^ 56 = 72057594037927936 := by rfl
  have e48 : (2 : Nat) ^ 48 = 281474976710656 := by rfl
  have e40 : (2 : Nat) ^ 40 = 1099511627776 := by rfl
  have e32 : (2 : Nat) ^ 32 = 4294967296 := by rfl
  have e24 : (2 : Nat) ^ 24 = 16777216 := by rfl
  have e16 : (2 : Nat) ^ 16 = 65536 := by rfl
  have e8 : (2 : Nat) ^ 8 = 256 := by rfl
  rw [e56, e48, e40, e32, e24, e16, e8]
  omega

theorem be64Bytes_eq (t : Nat) : Kit.Crypto.be64Bytes t.toUInt64 = be64 t := by
  simp only [Kit.Crypto.be64Bytes, be64, List.cons.injEq, and_true]
  refine ⟨?_, ?_, ?_, ?_, ?_, ?_, ?_, ?_⟩ <;>
  · apply UInt8.toNat_inj.mp
    simp [UInt64.toNat_shiftRight, Nat.shiftRight_eq_div_pow]
    try omega

/-! ### xor -/

theorem getZ_toBA (l : Bytes) (i : Nat) : Kit.Crypto.getZ (Kit.Crypto.toBA l) i = l.getD i 0 := by
  unfold Kit.Crypto.getZ Kit.Crypto.toBA
  by_cases h : i < l.length
  · simp [h, List.getD_eq_getElem?_getD]
  · simp [h, List.getD_eq_getElem?_getD]

theorem mapIdx_xor_eq_zipWith : ∀ (a b : Bytes), a.length ≤ b.length →
    a.mapIdx (fun i x => x ^^^ b.getD i 0) = List.zipWith (· ^^^ ·) a b
  | [], _, _ => by simp
  | x :: a, [], h => by simp at h
  | x :: a, y :: b, h => by
    have ih := mapIdx_xor_eq_zipWith a b (by simpa using h)
    simp only [List.mapIdx_cons, List.zipWith_cons_cons, List.getD_cons_zero, List.getD_cons_succ]
    rw [ih]

theorem xorBytes_eq_xor (a b : Bytes) (h : a.length ≤ b.length) : Kit.Crypto.xorBytes a b = xor a b := by
  unfold Kit.Crypto.xorBytes Kit.Crypto.xorKS xor
  simp only [getZ_toBA]
  exact mapIdx_xor_eq_zipWith a b h

/-! ### one round (fixed j) of the index-based description = `wrapInner` -/

theorem blocks8_eq_chunksN : ∀ n (bs : Bytes), blocks8 n bs = Kit.Crypto.chunksN n bs
  | 0, _ => rfl
  | n + 1, bs => by simp [blocks8, Kit.Crypto.chunksN, blocks8_eq_chunksN n]

/-- Steps `t = n·j+k+1 … n·j+n` of RFC 3394 on a state whose first `k` registers are already
processed do what `wrapInner` does to the remaining registers. -/
theorem kwSteps_inner (E : Bytes → Bytes) (n j : Nat) :
    ∀ (suf pre : List Bytes) (a : Bytes), pre.length + suf.length = n →
      (List.range' (n * j + pre.length + 1) suf.length).foldl (Kit.Crypto.kwStep E) (a, pre ++ suf) =
        ((wrapInner E n j (pre.length + 1) a suf).1, pre ++ (wrapInner E n j (pre.length + 1) a suf).2)
  | [], pre, a, _ => by simp [wrapInner]
  | r :: suf, pre, a, hn => by
    have hlt : pre.length < n := by simp at hn; omega
    have hidx : (n * j + pre.length + 1 - 1) % (pre ++ r :: suf).length = pre.length := by
      have : (pre ++ r :: suf).length = n := by simp; omega
      rw [this, Nat.add_sub_cancel, Nat.mul_add_mod]
      exact Nat.mod_eq_of_lt hlt
    have hget : (pre ++ r :: suf).getD pre.length [] = r := by
      simp [List.getD_eq_getElem?_getD]
    have hset : (pre ++ r :: suf).set pre.length ((E (a ++ r)).drop 8) = (pre ++ [(E (a ++ r)).drop 8]) ++ suf := by
      simp
    have ih := kwSteps_inner E n j suf (pre ++ [(E (a ++ r)).drop 8])
      (xor ((E (a ++ r)).take 8) (be64 (n * j + pre.length + 1))) (by simp at hn ⊢; omega)
    simp only [List.length_cons, List.range'_succ, List.foldl_cons]
    have hstep : Kit.Crypto.kwStep E (a, pre ++ r :: suf) (n * j + pre.length + 1) =
        (xor ((E (a ++ r)).take 8) (be64 (n * j + pre.length + 1)), (pre ++ [(E (a ++ r)).drop 8]) ++ suf) := by
      simp only [Kit.Crypto.kwStep, hidx, hget, hset, be64Bytes_eq]
      rw [xorBytes_eq_xor _ _ (by simp [be64_length]; exact Nat.min_le_left _ _)]
    rw [hstep]
    simp only [List.length_append, List.length_cons, List.length_nil] at ih
    have e1 : n * j + (pre.length + (0 + 1)) + 1 = n * j + pre.length + 1 + 1 := by omega
    rw [e1] at ih
    rw [ih]
    simp only [wrapInner]
    have e2 : n * j + (pre.length + 1) = n * j + pre.length + 1 := by omega
    have e3 : pre.length + (0 + 1) + 1 = pre.length + 1 + 1 := by omega
    simp only [e2, e3, List.append_assoc, List.singleton_append]

/-- All the steps for `j ∈ js` in order = `wrapRounds`. -/
theorem kwSteps_rounds (E : Bytes → Bytes) (n : Nat) :
    ∀ (js : List Nat) (st : Bytes × List Bytes), st.2.length = n →
      (js.flatMap fun j => List.range' (n * j + 1) n).foldl (Kit.Crypto.kwStep E) st = wrapRounds E n js st ∧
      (wrapRounds E n js st).2.length = n
  | [], st, h => by simp [wrapRounds, h]
  | j :: js, st, h => by
    have hin := kwSteps_inner E n j st.2 [] st.1 (by simpa using h)
    simp only [List.length_nil, Nat.add_zero, Nat.zero_add, List.nil_append, h] at hin
    have hlen : (wrapInner E n j 1 st.1 st.2).2.length = n := by
      have : ∀ (rs : List Bytes) i a, (wrapInner E n j i a rs).2.length = rs.length := by
        intro rs; induction rs with
        | nil => intro i a; rfl
        | cons r rs ih => intro i a; simp [wrapInner, ih]
      rw [this, h]
    obtain ⟨ih1, ih2⟩ := kwSteps_rounds E n js (wrapInner E n j 1 st.1 st.2) hlen
    rw [List.flatMap_cons, List.foldl_append, hin, wrapRounds_cons]
    exact ⟨ih1, ih2⟩

/-- `kwSteps n = [1, …, 6n]` is the six rounds one after the other. -/
theorem kwSteps_eq (n : Nat) :
    Kit.Crypto.kwSteps n = (kwRounds.flatMap fun j => List.range' (n * j + 1) n) := by
  have h6 : 6 * n = n + (n + (n + (n + (n + n)))) := by omega
  have hr : (List.range (6 * n)).map (· + 1) = List.range' 1 (6 * n) := by
    rw [List.range'_eq_map_range]
    apply List.map_congr_left
    intro x _; omega
  unfold Kit.Crypto.kwSteps kwRounds
  rw [hr, h6]
  simp only [← List.range'_append_1, List.flatMap_cons, List.flatMap_nil, List.append_nil]
  have e0 : n * 0 + 1 = 1 := by omega
  have e1 : n * 1 + 1 = 1 + n := by omega
  have e2 : n * 2 + 1 = 1 + n + n := by omega
  have e3 : n * 3 + 1 = 1 + n + n + n := by omega
  have e4 : n * 4 + 1 = 1 + n + n + n + n := by omega
  have e5 : n * 5 + 1 = 1 + n + n + n + n + n := by omega
  rw [e0, e1, e2, e3, e4, e5]

/-- **The model is RFC 3394**: for every block function and every key data in the accepted set,
the Go-shaped `wrap` computes exactly the index-based `kwWrapWith` of RFC 3394 §2.2.1. -/
theorem wrap_eq_kwWrapWith (bc : BlockCipher) (cek : Bytes) (h8 : cek.length % 8 = 0)
    (h16 : 16 ≤ cek.length) : wrap bc cek = .ok (Kit.Crypto.kwWrapWith bc.E cek) := by
  unfold wrap
  rw [if_neg (by omega), if_neg (by omega)]
  have hiv : iv3394 = Kit.Crypto.kwIV := by rfl
  have hlen : (Kit.Crypto.chunks8 cek).length = cek.length / 8 := by
    simp [Kit.Crypto.chunks8, ← blocks8_eq_chunksN, blocks8_length]
  obtain ⟨h1, _⟩ := kwSteps_rounds bc.E (cek.length / 8) kwRounds (iv3394, blocks8 (cek.length / 8) cek)
    (by simp [blocks8_length])
  simp only [Kit.Crypto.kwWrapWith, hlen, kwSteps_eq]
  rw [← hiv, show Kit.Crypto.chunks8 cek = blocks8 (cek.length / 8) cek by
    simp [Kit.Crypto.chunks8, blocks8_eq_chunksN], h1]

end Kit.CryptoGlue
