import KitModel.Locks.Context
namespace Kit.Locks.Context
open Kit.Locks

def PC.hasTok : PC → Bool
  | .haveTok _ | .granted _ | .holding _ | .ulCalled _ | .ulRw _ => true
  | _ => false

def PC.wOwn : PC → Bool
  | .granted md | .holding md | .ulCalled md => md = .w
  | _ => false

def PC.rOwn : PC → Bool
  | .granted md | .holding md | .ulCalled md => md = .r
  | _ => false

def PC.isQueued : PC → Bool
  | .queued _ => true
  | _ => false

structure Inv (s : State) : Prop where
  tokI : ∀ (t : Tid), s.tok = some t ↔ (s.pcs t).hasTok = true
  wI : ∀ (t : Tid), s.w = some t ↔ (s.pcs t).wOwn = true
  rI : ∀ (t : Tid), t ∈ s.rs ↔ (s.pcs t).rOwn = true
  rnd : s.rs.Nodup
  qI : ∀ (t : Tid), t ∈ s.sendq ↔ (s.pcs t).isQueued = true
  qnd : s.sendq.Nodup
  qe : s.tok = none → s.sendq = []

theorem inv_init (n : Nat) : Inv (init n) := by
  constructor <;> simp [init, PC.hasTok, PC.wOwn, PC.rOwn, PC.isQueued]

macro "cx_close" : tactic =>
  `(tactic| (constructor <;> dsimp only <;>
      grind [PC.hasTok, PC.wOwn, PC.rOwn, PC.isQueued, List.Nodup.mem_erase_iff, List.Nodup.erase]))

theorem inv_step (s : State) (a : L) (s' : State) (h : Inv s) (hs : lts.step s a = some s') : Inv s' := by
  obtain ⟨tokI, wI, rI, rnd, qI, qnd, qe⟩ := h
  cases a with
  | call t op =>
    cases op <;> simp only [lts, step] at hs <;> split at hs <;> (try split at hs) <;> simp at hs <;> subst hs
    all_goals cx_close
  | tau t alt =>
    simp only [lts, step] at hs
    split at hs
    · -- called
      (repeat' split at hs) <;> simp at hs <;> subst hs <;> cx_close
    · -- queued
      (repeat' split at hs) <;> simp at hs <;> subst hs <;> cx_close
    · split at hs <;> simp at hs; subst hs; cx_close
    · split at hs <;> simp at hs; subst hs; cx_close
    · split at hs <;> simp at hs; subst hs; cx_close
    · rename_i heq
      have hr : t ∈ s.rs := (rI t).mpr (by simp [heq, PC.rOwn])
      split at hs <;> simp at hs; subst hs
      simp [hr]
      cx_close
    · -- ulRw: token receive, hand-off to the head of the queue
      rename_i heq
      split at hs
      · split at hs
        · simp at hs; subst hs; cx_close
        · rename_i h rest hq
          have hqh : (s.pcs h).isQueued = true := (qI h).mp (by simp [hq])
          have hnd := qnd
          rw [hq] at hnd
          split at hs <;> simp at hs
          subst hs
          cx_close
      · simp at hs
    · simp at hs
  | ret t r =>
    simp only [lts, step] at hs; split at hs <;> simp at hs <;> subst hs
    all_goals cx_close
  | probe t p =>
    cases p; simp only [lts, step] at hs; split at hs <;> simp at hs; subst hs
    exact ⟨tokI, wI, rI, rnd, qI, qnd, qe⟩
  | sys i alt => simp [lts, step] at hs
  | env e =>
    cases e; simp only [lts, step] at hs; simp at hs; subst hs; cx_close

theorem inv_reach (n : Nat) (s : State) (h : Reach lts (init n) s) : Inv s :=
  Reach.inv Inv (inv_init n) inv_step s h

end Kit.Locks.Context
