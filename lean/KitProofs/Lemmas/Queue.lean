import KitModel.Queue
import KitProofs.Lemmas.Processor
/-!
The sorted association list (`Kit.Queue.SortedQ`) refines the queue specification that
`KitModel/Processor.lean` is written against: same live items, one per key, and `Peek`/`Pop`
return an item that the specification allows as head.
-/
namespace Kit.Queue
open Kit.Processor

set_option linter.unusedSectionVars false

variable {κ ν : Type} [DecidableEq κ] [DecidableEq ν]

/-- Non-decreasing scheduled times. -/
def Sorted (q : List (Item κ ν)) : Prop := q.Pairwise (fun a b => a.time ≤ b.time)

/-- One item per key. -/
def KeysDistinct (q : List (Item κ ν)) : Prop := q.Pairwise (fun a b => a.key ≠ b.key)

theorem mem_sortedInsert {r x : Item κ ν} {q : List (Item κ ν)} :
    x ∈ sortedInsert r q ↔ x = r ∨ x ∈ q := by
  induction q with
  | nil => simp [sortedInsert]
  | cons a q ih =>
    simp only [sortedInsert]
    split <;> simp [ih] <;> grind

theorem sorted_sortedInsert {r : Item κ ν} {q : List (Item κ ν)} (h : Sorted q) :
    Sorted (sortedInsert r q) := by
  induction q with
  | nil => simp [sortedInsert, Sorted]
  | cons a q ih =>
    unfold Sorted at *
    simp only [sortedInsert]
    rw [List.pairwise_cons] at h
    split
    · rw [List.pairwise_cons]
      refine ⟨?_, ih h.2⟩
      intro x hx
      rcases mem_sortedInsert.mp hx with rfl | hx
      · assumption
      · exact h.1 x hx
    · rw [List.pairwise_cons]
      refine ⟨?_, List.pairwise_cons.mpr h⟩
      intro x hx
      rcases List.mem_cons.mp hx with rfl | hx
      · omega
      · have := h.1 x hx; omega

/-- The sorted list `sq` represents the specification queue `q`. -/
structure Refines (sq q : List (Item κ ν)) : Prop where
  sorted : Sorted sq
  keys : KeysDistinct sq
  same : ∀ x, x ∈ sq ↔ x ∈ q

theorem refines_nil : Refines ([] : List (Item κ ν)) [] :=
  ⟨List.Pairwise.nil, List.Pairwise.nil, fun _ => Iff.rfl⟩

theorem keysDistinct_sortedInsert {r : Item κ ν} {q : List (Item κ ν)} (h : KeysDistinct q)
    (hr : ∀ x ∈ q, x.key ≠ r.key) : KeysDistinct (sortedInsert r q) := by
  induction q with
  | nil => simp [sortedInsert, KeysDistinct]
  | cons a q ih =>
    unfold KeysDistinct at *
    simp only [sortedInsert]
    rw [List.pairwise_cons] at h
    split
    · rw [List.pairwise_cons]
      refine ⟨?_, ih h.2 (fun x hx => hr x (List.mem_cons_of_mem _ hx))⟩
      intro x hx
      rcases mem_sortedInsert.mp hx with rfl | hx
      · exact hr a (by simp)
      · exact h.1 x hx
    · rw [List.pairwise_cons]
      refine ⟨?_, List.pairwise_cons.mpr h⟩
      intro x hx
      exact fun e => hr x hx e.symm

/-- `Insert(r, true)` on the sorted list refines `insert` of the specification. -/
theorem refines_insert {sq q : List (Item κ ν)} (h : Refines sq q) (r : Item κ ν) :
    Refines (SortedQ.insert sq r) (insert q r) := by
  refine ⟨?_, ?_, ?_⟩
  · exact sorted_sortedInsert (List.Pairwise.sublist List.filter_sublist h.sorted)
  · apply keysDistinct_sortedInsert (List.Pairwise.sublist List.filter_sublist h.keys)
    intro x hx
    exact (mem_remove.mp hx).2
  · intro x
    simp only [SortedQ.insert, mem_sortedInsert, mem_insert, mem_remove, h.same]

/-- `Remove(key)`. -/
theorem refines_remove {sq q : List (Item κ ν)} (h : Refines sq q) (k : κ) :
    Refines (SortedQ.remove sq k) (remove q k) :=
  ⟨List.Pairwise.sublist List.filter_sublist h.sorted, List.Pairwise.sublist List.filter_sublist h.keys,
   fun x => by simp only [SortedQ.remove, mem_remove, h.same]⟩

/-- `Peek()` returns an item the specification accepts as head. -/
theorem refines_peek {sq q : List (Item κ ν)} (h : Refines sq q) : IsHead q (SortedQ.peek sq) := by
  cases sq with
  | nil =>
    simp only [SortedQ.peek, List.head?_nil, IsHead]
    cases q with
    | nil => rfl
    | cons a q => have := (h.same a).mpr (by simp); simp at this
  | cons a sq =>
    simp only [SortedQ.peek, List.head?_cons, IsHead, IsMin]
    have hs := h.sorted
    unfold Sorted at hs
    rw [List.pairwise_cons] at hs
    refine ⟨(h.same a).mp (by simp), ?_⟩
    intro x hx
    rcases List.mem_cons.mp ((h.same x).mpr hx) with rfl | hx'
    · exact Int.le_refl _
    · exact hs.1 x hx'

/-- `Pop()` returns the same head and leaves a list that refines `pop` of the specification. -/
theorem refines_pop {sq q : List (Item κ ν)} (h : Refines sq q) {r : Item κ ν}
    (hp : (SortedQ.pop sq).1 = some r) : Refines (SortedQ.pop sq).2 (pop q r) := by
  cases sq with
  | nil => simp [SortedQ.pop] at hp
  | cons a sq =>
    simp only [SortedQ.pop, List.head?_cons, Option.some.injEq] at hp
    subst hp
    have hs := h.sorted; have hk := h.keys
    unfold Sorted at hs; unfold KeysDistinct at hk
    rw [List.pairwise_cons] at hs hk
    refine ⟨hs.2, hk.2, ?_⟩
    intro x
    simp only [SortedQ.pop, List.tail_cons, mem_pop, ← h.same, List.mem_cons]
    constructor
    · intro hx
      exact ⟨Or.inr hx, fun e => hk.1 x hx (by rw [e])⟩
    · rintro ⟨hx | hx, hne⟩
      · exact absurd hx hne
      · exact hx

end Kit.Queue
