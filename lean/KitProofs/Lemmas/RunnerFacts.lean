import KitModel.Runner
/-!
C12: the facts regenerated from the source (`KitModel/Generated/C12.lean`) as rewrite rules.
Every proof about the models unfolds them through these attributes, so a change of the source that
changes a fact makes the dependent proofs fail to re-check (they do not silently keep talking
about the old code).
-/
namespace Kit.Runner

attribute [grind =, simp] Kit.Generated.C12.addChecksRunningUnderLock
  Kit.Generated.C12.runCasAndSnapshotUnderLock Kit.Generated.C12.runDefersCancel
  Kit.Generated.C12.goroutineDefersCancel Kit.Generated.C12.filterDropsCanceled
  Kit.Generated.C12.collectStart Kit.Generated.C12.collectBoundPlus
  Kit.Generated.C12.collectBoundMinus Kit.Generated.C12.addCloserRechecksClosingUnderLock
  Kit.Generated.C12.closeRunnerMinRunners Kit.Generated.C12.closerLoopStart
  Kit.Generated.C12.closerLoopBoundPlus Kit.Generated.C12.closeFatalAtPlus

attribute [grind =, simp] addAtomic collectTarget RCM.inLoop RCM.atCloseFatal RCM.canReceive

end Kit.Runner
