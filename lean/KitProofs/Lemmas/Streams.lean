import KitModel.Streams
/-!
Helper lemmas for property C16.  The method: every reader `R` gets a *specification function*
`spec : state → Bytes × Err` ("what a consumer will still receive, and how it ends") and a step law
  Read returns (d, nil)  ⇒ spec s = (d ++ bytes(spec s'), end(spec s'))
  Read returns (d, e)    ⇒ spec s = (d, e)
plus a measure that decreases on every read with a non-empty buffer.  `drain_spec` turns that into
"the consumer loop yields exactly `spec s`" for every sequence of buffer sizes.
-/
namespace Kit.Streams

/-! ### generic consumer loop -/

theorem drain_spec {σ : Type} (read : σ → Nat → σ × Bytes × Option Err)
    (spec : σ → Bytes × Err) (Inv : σ → Prop) (Q : σ → Err → Prop) (μ : σ → Nat)
    (hnone : ∀ s m s' d, Inv s → read s m = (s', d, none) →
      Inv s' ∧ spec s = (d ++ (spec s').1, (spec s').2) ∧ μ s' ≤ μ s ∧ (0 < m → μ s' < μ s))
    (hsome : ∀ s m s' d e, Inv s → read s m = (s', d, some e) → Q s' e ∧ spec s = (d, e)) :
    ∀ (fuel : Nat) (s : σ) (bufs : List Nat) (dflt : Nat), Inv s → 0 < dflt →
      μ s + bufs.length < fuel →
      (drain read fuel s bufs dflt).2 = spec s ∧
        Q (drain read fuel s bufs dflt).1 (drain read fuel s bufs dflt).2.2 := by
  intro fuel
  induction fuel with
  | zero => intro s bufs dflt _ _ hf; omega
  | succ f ih =>
    intro s bufs dflt hI hd hf
    rcases hr : read s (bufs.headD dflt) with ⟨s', d, e⟩
    cases e with
    | some e =>
      have h := hsome s _ s' d e hI hr
      simp only [drain, hr]
      exact ⟨h.2.symm, h.1⟩
    | none =>
      have h := hnone s _ s' d hI hr
      obtain ⟨hI', hspec, hle, hlt⟩ := h
      have hf' : μ s' + bufs.tail.length < f := by
        cases bufs with
        | nil =>
          have := hlt (by simpa using hd)
          simp at hf ⊢; omega
        | cons b bs => simp at hf ⊢; omega
      have ih' := ih s' bufs.tail dflt hI' hd hf'
      simp only [drain, hr]
      rcases hd' : drain read f s' bufs.tail dflt with ⟨s'', ds, e'⟩
      rw [hd'] at ih'
      simp only at ih' ⊢
      refine ⟨?_, ih'.2⟩
      rw [hspec, ← ih'.1]

/-! ### scripted source -/

/-- the fields of a source a read never changes -/
def Src.sameMeta (s s' : Src) : Prop :=
  s'.withData = s.withData ∧ s'.term = s.term ∧ s'.closable = s.closable ∧ s'.closes = s.closes

theorem Src.deliver_none {s s' : Src} {k : Nat} {d : Bytes} (h : s.deliver k = (s', d, none)) :
    s.rest = d ++ s'.rest ∧ s.sameMeta s' ∧ s'.script = s.script ∧ d.length ≤ k ∧
      s'.rest.length ≤ s.rest.length ∧ (0 < k → s'.rest.length < s.rest.length) := by
  unfold Src.deliver at h
  split at h
  · cases h; simp [Src.sameMeta]; omega
  · split at h
    · cases h
    · rename_i hk hr
      simp only [Prod.mk.injEq] at h
      obtain ⟨h1, h2, _⟩ := h
      subst h1 h2
      have : 0 < s.rest.length := List.length_pos_iff.mpr hr
      simp [Src.sameMeta, List.length_take]
      omega

theorem Src.deliver_some {s s' : Src} {k : Nat} {d : Bytes} {e : Err}
    (h : s.deliver k = (s', d, some e)) :
    e = s.term ∧ d = s.rest ∧ s'.rest = [] ∧ s.sameMeta s' ∧ s'.script = s.script ∧ d.length ≤ k := by
  unfold Src.deliver at h
  split at h
  · cases h
  · split at h
    · rename_i hr
      cases h; simp [Src.sameMeta, hr]
    · simp only [Prod.mk.injEq] at h
      obtain ⟨h1, h2, h3⟩ := h
      subst h1 h2
      split at h3
      · rename_i hc
        simp only [Option.some.injEq] at h3
        have hlen : s.rest.length ≤ k := List.drop_eq_nil_iff.mp hc.1
        simp [Src.sameMeta, h3, hc.1, List.take_of_length_le hlen]
        exact hlen
      · cases h3

theorem Src.read_none {s s' : Src} {m : Nat} {d : Bytes} (hc : s.closes = 0)
    (h : s.read m = (s', d, none)) :
    s.rest = d ++ s'.rest ∧ s.sameMeta s' ∧ d.length ≤ m ∧ s'.size ≤ s.size ∧
      (0 < m → s'.size < s.size) := by
  unfold Src.read at h
  simp only [hc, Nat.lt_irrefl, ↓reduceIte] at h
  split at h
  · rename_i hs
    have := Src.deliver_none h
    simp only [Src.size, this.2.2.1, hs]
    refine ⟨this.1, this.2.1, this.2.2.2.1, by omega, fun hm => ?_⟩
    have := this.2.2.2.2.2 hm; omega
  · rename_i c sc hs
    have := Src.deliver_none h
    simp only [Src.size, hs] at this ⊢
    refine ⟨this.1, by simpa [Src.sameMeta, hc] using this.2.1, by have := this.2.2.2.1; omega, ?_, fun _ => ?_⟩
    · rw [this.2.2.1]; simp; omega
    · rw [this.2.2.1]; simp; omega

theorem Src.read_some {s s' : Src} {m : Nat} {d : Bytes} {e : Err} (hc : s.closes = 0)
    (h : s.read m = (s', d, some e)) :
    e = s.term ∧ d = s.rest ∧ s'.rest = [] ∧ s.sameMeta s' ∧ d.length ≤ m := by
  unfold Src.read at h
  simp only [hc, Nat.lt_irrefl, ↓reduceIte] at h
  split at h
  · have := Src.deliver_some h
    exact ⟨this.1, this.2.1, this.2.2.1, this.2.2.2.1, this.2.2.2.2.2⟩
  · have := Src.deliver_some h
    simp only at this
    exact ⟨this.1, this.2.1, this.2.2.1, by simpa [Src.sameMeta, hc] using this.2.2.2.1,
      by have := this.2.2.2.2.2; omega⟩

theorem Src.deliver_none_wd {s s' : Src} {k : Nat} {d : Bytes} (h : s.deliver k = (s', d, none))
    (hd : d ≠ []) (hr : s'.rest = []) : s.withData = false := by
  unfold Src.deliver at h
  split at h
  · cases h; exact absurd rfl hd
  · split at h
    · cases h
    · simp only [Prod.mk.injEq] at h
      obtain ⟨h1, _, h3⟩ := h
      subst h1
      simp only at hr
      split at h3
      · cases h3
      · rename_i hc
        cases hw : s.withData with
        | false => rfl
        | true => exact absurd ⟨hr, hw⟩ hc

theorem Src.deliver_some_wd {s s' : Src} {k : Nat} {d : Bytes} {e : Err}
    (h : s.deliver k = (s', d, some e)) (hd : d ≠ []) : s.withData = true := by
  unfold Src.deliver at h
  split at h
  · cases h
  · split at h
    · cases h; exact absurd rfl hd
    · simp only [Prod.mk.injEq] at h
      obtain ⟨_, _, h3⟩ := h
      split at h3
      · rename_i hc; exact hc.2
      · cases h3

theorem Src.read_none_wd {s s' : Src} {m : Nat} {d : Bytes} (hc : s.closes = 0)
    (h : s.read m = (s', d, none)) (hd : d ≠ []) (hr : s'.rest = []) : s.withData = false := by
  unfold Src.read at h
  simp only [hc, Nat.lt_irrefl, ↓reduceIte] at h
  split at h
  · exact Src.deliver_none_wd h hd hr
  · simpa using Src.deliver_none_wd h hd hr

theorem Src.read_some_wd {s s' : Src} {m : Nat} {d : Bytes} {e : Err} (hc : s.closes = 0)
    (h : s.read m = (s', d, some e)) (hd : d ≠ []) : s.withData = true := by
  unfold Src.read at h
  simp only [hc, Nat.lt_irrefl, ↓reduceIte] at h
  split at h
  · exact Src.deliver_some_wd h hd
  · simpa using Src.deliver_some_wd h hd

/-! ### LimitReadCloser -/

/-- What a consumer of a limit reader will still receive. -/
def Limit.spec (l : Limit) : Bytes × Err :=
  if l.n < 0 then ([], .tooLarge)
  else if (l.src.rest.length : Int) ≤ l.n then (l.src.rest, l.src.term)
  else (l.src.rest.take l.n.toNat,
        if (l.src.rest.length : Int) = l.n + 1 ∧ l.src.withData = true ∧ l.src.term ≠ .eof
        then l.src.term else .tooLarge)

/-- `big` is the ghost fact "the source holds more than N bytes"; it is invariant. -/
def Limit.Inv (big : Prop) (l : Limit) : Prop :=
  l.src.closes = (if l.closed then 1 else 0) ∧ (l.closed = true ↔ l.n < 0) ∧
    (big ↔ l.n < (l.src.rest.length : Int))

def Limit.Fin (big : Prop) (l : Limit) (_ : Err) : Prop :=
  l.src.closes = (if l.closed then 1 else 0) ∧ (l.closed = true ↔ big)

theorem clip_fixed {n : Int} (hn : 0 ≤ n) (m : Nat) :
    clip .fixed n m = some (min m (n.toNat + 1)) := by
  unfold clip
  simp only
  split
  · congr 1; omega
  · congr 1; omega

theorem tooLargeErr_fixed (e : Option Err) :
    tooLargeErr .fixed e = some (match e with
      | none => .tooLarge | some .eof => .tooLarge | some e => e) := by
  cases e with
  | none => rfl
  | some e => cases e <;> rfl

/-- One `Read` of the repaired code in the only interesting situation. -/
theorem Limit.read_fixed_open {l : Limit} {m : Nat} (hn : 0 ≤ l.n) (hc : l.closed = false)
    (hm : 0 < m) :
    Limit.read .fixed l m =
      match l.src.read (min m (l.n.toNat + 1)) with
      | (s', d, e) =>
        if l.n - (d.length : Int) < 0 then
          ({ src := s'.close, n := l.n - (d.length : Int), closed := true },
            (if l.n - (d.length : Int) = -1 then d.dropLast else d), tooLargeErr .fixed e)
        else ({ l with src := s', n := l.n - (d.length : Int) }, d, e) := by
  unfold Limit.read
  have h1 : ¬ l.n < 0 := by omega
  have h2 : ¬ m = 0 := by omega
  simp only [h1, h2, hc, ↓reduceIte, clip_fixed hn, Bool.false_eq_true]

theorem Limit.step_none {big : Prop} {l l' : Limit} {m : Nat} {d : Bytes}
    (hI : Limit.Inv big l) (h : Limit.read .fixed l m = (l', d, none)) :
    Limit.Inv big l' ∧ Limit.spec l = (d ++ (Limit.spec l').1, (Limit.spec l').2) ∧
      l'.src.size ≤ l.src.size ∧ (0 < m → l'.src.size < l.src.size) := by
  obtain ⟨hcl, hcn, hbig⟩ := hI
  by_cases hn : l.n < 0
  · simp [Limit.read, hn] at h
  by_cases hm : m = 0
  · simp only [Limit.read, hn, hm, ↓reduceIte, Prod.mk.injEq] at h
    obtain ⟨rfl, rfl, _⟩ := h
    exact ⟨⟨hcl, hcn, hbig⟩, by simp, Nat.le_refl _, fun h => absurd h (by omega)⟩
  have hopen : l.closed = false := by
    cases hc : l.closed with
    | false => rfl
    | true => exact absurd (hcn.mp hc) hn
  have hc0 : l.src.closes = 0 := by simpa [hopen] using hcl
  rw [Limit.read_fixed_open (by omega) hopen (by omega)] at h
  rcases hr : l.src.read (min m (l.n.toNat + 1)) with ⟨s', d0, e⟩
  rw [hr] at h
  simp only at h
  split at h
  · simp [tooLargeErr_fixed] at h
  · rename_i hn'
    simp only [Prod.mk.injEq] at h
    obtain ⟨rfl, rfl, rfl⟩ := h
    obtain ⟨hrest, hmeta, hlen, hsz, hszlt⟩ := Src.read_none hc0 hr
    obtain ⟨hwd, hterm, _, hcls⟩ := hmeta
    have hlen' : (l.src.rest.length : Int) = d0.length + s'.rest.length := by
      rw [hrest]; simp
    refine ⟨⟨?_, ?_, ?_⟩, ?_, hsz, fun _ => hszlt (by omega)⟩
    · simp [hopen, hcls, hc0]
    · simp [hopen]; omega
    · simp only; rw [hbig]; omega
    · unfold Limit.spec
      simp only [hn, ↓reduceIte, hn', hwd, hterm]
      by_cases hle : (l.src.rest.length : Int) ≤ l.n
      · have : (s'.rest.length : Int) ≤ l.n - d0.length := by omega
        simp only [hle, this, ↓reduceIte]
        rw [← hrest]
      · have : ¬ (s'.rest.length : Int) ≤ l.n - d0.length := by omega
        simp only [hle, this, ↓reduceIte]
        have hd : d0.length ≤ l.n.toNat := by omega
        have e1 : List.take l.n.toNat l.src.rest = d0 ++ List.take (l.n - d0.length).toNat s'.rest := by
          rw [hrest, List.take_append]
          rw [List.take_of_length_le hd]
          congr 2; omega
        have e2 : ((l.src.rest.length : Int) = l.n + 1) ↔ ((s'.rest.length : Int) = l.n - d0.length + 1) := by
          omega
        simp only [e1, e2]

theorem Limit.step_some {big : Prop} {l l' : Limit} {m : Nat} {d : Bytes} {e : Err}
    (hI : Limit.Inv big l) (h : Limit.read .fixed l m = (l', d, some e)) :
    Limit.Fin big l' e ∧ Limit.spec l = (d, e) := by
  obtain ⟨hcl, hcn, hbig⟩ := hI
  by_cases hn : l.n < 0
  · simp only [Limit.read, hn, ↓reduceIte, Prod.mk.injEq, Option.some.injEq] at h
    obtain ⟨rfl, rfl, rfl⟩ := h
    refine ⟨⟨hcl, ?_⟩, by simp [Limit.spec, hn]⟩
    rw [hcn, hbig]; constructor <;> intro <;> omega
  by_cases hm : m = 0
  · simp [Limit.read, hn, hm] at h
  have hopen : l.closed = false := by
    cases hc : l.closed with
    | false => rfl
    | true => exact absurd (hcn.mp hc) hn
  have hc0 : l.src.closes = 0 := by simpa [hopen] using hcl
  rw [Limit.read_fixed_open (by omega) hopen (by omega)] at h
  rcases hr : l.src.read (min m (l.n.toNat + 1)) with ⟨s', d0, e0⟩
  rw [hr] at h
  simp only at h
  split at h
  · -- the look-ahead byte was read: too large
    rename_i hn'
    simp only [Prod.mk.injEq] at h
    obtain ⟨rfl, rfl, he⟩ := h
    cases e0 with
    | none =>
      obtain ⟨hrest, hmeta, hlen, _, _⟩ := Src.read_none hc0 hr
      obtain ⟨hwd, hterm, _, hcls⟩ := hmeta
      have hd0 : (d0.length : Int) = l.n + 1 := by omega
      have hlen' : (l.src.rest.length : Int) = d0.length + s'.rest.length := by rw [hrest]; simp
      simp only [tooLargeErr_fixed, Option.some.injEq] at he
      subst he
      refine ⟨⟨by simp [Src.close, hcls, hc0], ?_⟩, ?_⟩
      · simp only [true_iff]; rw [hbig]; omega
      · unfold Limit.spec
        have : ¬ (l.src.rest.length : Int) ≤ l.n := by omega
        simp only [hn, ↓reduceIte, this]
        have hm1 : l.n - (d0.length : Int) = -1 := by omega
        simp only [hm1, ↓reduceIte, Prod.mk.injEq]
        constructor
        · rw [hrest, List.take_append, List.dropLast_eq_take]
          have : l.n.toNat - d0.length = 0 := by omega
          simp [this]; congr 1; omega
        · -- the terminal has not been returned yet: either more bytes remain or it comes alone
          have hd0ne : d0 ≠ [] := by intro h0; rw [h0] at hd0; simp at hd0; omega
          have hwd0 := Src.read_none_wd hc0 hr hd0ne
          by_cases hlast : (l.src.rest.length : Int) = l.n + 1
          · have : s'.rest = [] := List.eq_nil_of_length_eq_zero (by omega)
            simp [hwd0 this]
          · simp [hlast]
    | some e0 =>
      obtain ⟨he0, hd0, hrest', hmeta, hlen⟩ := Src.read_some hc0 hr
      obtain ⟨hwd, hterm, _, hcls⟩ := hmeta
      have hdl : (d0.length : Int) = l.n + 1 := by omega
      have hd0ne : d0 ≠ [] := by intro h0; rw [h0] at hdl; simp at hdl; omega
      have hwd0 := Src.read_some_wd hc0 hr hd0ne
      subst hd0
      refine ⟨⟨by simp [Src.close, hcls, hc0], ?_⟩, ?_⟩
      · simp only [true_iff]; rw [hbig]; omega
      · unfold Limit.spec
        have : ¬ (l.src.rest.length : Int) ≤ l.n := by omega
        simp only [hn, ↓reduceIte, this]
        have hm1 : l.n - (l.src.rest.length : Int) = -1 := by omega
        simp only [Prod.mk.injEq, hdl, hwd0, true_and]
        constructor
        · have : l.n - (l.n + 1) = -1 := by omega
          rw [if_pos this, List.dropLast_eq_take]; congr 1; omega
        · subst he0
          rw [tooLargeErr_fixed] at he
          simp only [Option.some.injEq] at he
          rw [← he]
          cases l.src.term <;> simp
  · -- still within the limit: the source's own terminal
    rename_i hn'
    simp only [Prod.mk.injEq] at h
    obtain ⟨rfl, rfl, rfl⟩ := h
    obtain ⟨he0, hd0, hrest', hmeta, hlen⟩ := Src.read_some hc0 hr
    obtain ⟨hwd, hterm, _, hcls⟩ := hmeta
    subst hd0
    refine ⟨⟨by simp [hopen, hcls, hc0], ?_⟩, ?_⟩
    · simp only [hopen, Bool.false_eq_true, false_iff]; rw [hbig]; omega
    · unfold Limit.spec
      have : (l.src.rest.length : Int) ≤ l.n := by omega
      simp [hn, this, he0]

/-- `Limit.spec` of a fresh reader with a natural-number limit, in natural-number terms. -/
theorem Limit.spec_new (s : Src) (N : Nat) :
    Limit.spec (Limit.new s N) =
      if s.rest.length ≤ N then (s.rest, s.term)
      else (s.rest.take N,
        if s.rest.length = N + 1 ∧ s.withData = true ∧ s.term ≠ .eof then s.term else .tooLarge) := by
  unfold Limit.spec Limit.new
  have h0 : ¬ ((N : Int) < 0) := by omega
  simp only [if_neg h0, Int.toNat_natCast]
  by_cases hle : s.rest.length ≤ N
  · have : (s.rest.length : Int) ≤ (N : Int) := by omega
    simp only [if_pos hle, if_pos this]
  · have : ¬ (s.rest.length : Int) ≤ (N : Int) := by omega
    simp only [if_neg hle, if_neg this]
    have e : ((s.rest.length : Int) = (N : Int) + 1) ↔ (s.rest.length = N + 1) := by omega
    simp only [e]

/-- The consumer loop over the repaired limit reader yields exactly `Limit.spec`, for every
sequence of consumer buffer sizes, and ends in a state where the source has been closed iff the
source was too large. -/
theorem Limit.consume_spec (s : Src) (N : Nat) (bufs : List Nat) (dflt : Nat)
    (hc : s.closes = 0) (hd : 0 < dflt) :
    (Limit.consume .fixed (Limit.new s N) bufs dflt).2 = Limit.spec (Limit.new s N) ∧
      Limit.Fin (N < s.rest.length) (Limit.consume .fixed (Limit.new s N) bufs dflt).1
        (Limit.consume .fixed (Limit.new s N) bufs dflt).2.2 := by
  unfold Limit.consume
  apply drain_spec (Limit.read .fixed) Limit.spec (Limit.Inv (N < s.rest.length))
    (Limit.Fin (N < s.rest.length)) (fun l => l.src.size)
  · intro l m l' d hI h; exact Limit.step_none hI h
  · intro l m l' d e hI h; exact Limit.step_some hI h
  · refine ⟨by simp [Limit.new, hc], by simp [Limit.new], ?_⟩
    simp only [Limit.new]; omega
  · exact hd
  · simp [Limit.fuel, Limit.new]

/-! ### MultiReaderCloser -/

/-- a terminal after which `MultiReaderCloser.Read` moves on to the next source -/
def Err.endsSource (e : Err) : Prop := e = .eof ∨ e = .bodyClosed

instance (e : Err) : Decidable e.endsSource := by unfold Err.endsSource; exact inferInstance

/-- Read path: what a consumer of the remaining readers will receive: the concatenation of the
sources up to and including the first one that ends in an error other than EOF /
`http.ErrBodyReadAfterClose`; EOF iff none does. -/
def multiSpec : List Src → Bytes × Err
  | [] => ([], .eof)
  | s :: ss => if s.term.endsSource then (s.rest ++ (multiSpec ss).1, (multiSpec ss).2) else (s.rest, s.term)

/-- WriteTo path: `io.CopyBuffer` stops at the first source that does not end in EOF
(`http.ErrBodyReadAfterClose` is not special-cased there). -/
def multiSpecWT : List Src → Bytes × Err
  | [] => ([], .eof)
  | s :: ss => if s.term = .eof then (s.rest ++ (multiSpecWT ss).1, (multiSpecWT ss).2) else (s.rest, s.term)

theorem multiSpec_eq_WT : ∀ (srcs : List Src), (∀ s ∈ srcs, s.term ≠ .bodyClosed) →
    multiSpec srcs = multiSpecWT srcs := by
  intro srcs
  induction srcs with
  | nil => intro _; rfl
  | cons s ss ih =>
    intro h
    have h1 : s.term ≠ .bodyClosed := h s (by simp)
    have h2 := ih (fun x hx => h x (by simp [hx]))
    simp only [multiSpec, multiSpecWT, Err.endsSource, h1, or_false, h2]

def Src.closedOnce (s : Src) : Prop := s.closes = if s.closable then 1 else 0

/-- a source the multi reader is done with: closed exactly once if it is a closer — or, if it
ended in `http.ErrBodyReadAfterClose`, possibly not closed (again) at all; never twice. -/
def Src.doneOk (s : Src) : Prop := s.closedOnce ∨ (s.term = .bodyClosed ∧ s.closes = 0)

def listSize (rs : List Src) : Nat := (rs.map (fun s => s.size + 1)).sum

/-- the identity of a source that no operation changes -/
def Src.ident (s : Src) : Bool × Err := (s.closable, s.term)

def Multi.Inv (G : List (Bool × Err)) (M : Multi) : Prop :=
  (∀ s ∈ M.readers, s.closes = 0) ∧ (∀ s ∈ M.done, s.doneOk) ∧
    (M.done ++ M.readers).map Src.ident = G

theorem Multi.readLoop_cons (m : Nat) (r : Src) (rs dn : List Src) :
    Multi.readLoop m (r :: rs) dn =
      if (r.read m).2.2 = some .eof then
        (if (r.read m).2.1 ≠ [] then
          ({ readers := rs, done := dn ++ [(r.read m).1.closeIfCloser] }, (r.read m).2.1,
            if rs = [] then some .eof else none)
        else Multi.readLoop m rs (dn ++ [(r.read m).1.closeIfCloser]))
      else if (r.read m).2.2 = some .bodyClosed then
        (if (r.read m).2.1 ≠ [] then
          ({ readers := rs, done := dn ++ [(r.read m).1] }, (r.read m).2.1,
            if rs = [] then some .eof else none)
        else Multi.readLoop m rs (dn ++ [(r.read m).1]))
      else ({ readers := (r.read m).1 :: rs, done := dn }, (r.read m).2.1, (r.read m).2.2) := by
  rw [Multi.readLoop]
  rcases r.read m with ⟨r', d, e⟩
  cases e with
  | none => simp
  | some e => cases e <;> simp

theorem Src.closeIfCloser_closedOnce {s : Src} (h : s.closes = 0) : s.closeIfCloser.closedOnce := by
  unfold Src.closeIfCloser Src.closedOnce Src.close
  cases hc : s.closable <;> simp [hc, h]

@[simp] theorem Src.closeIfCloser_closable (s : Src) : s.closeIfCloser.closable = s.closable := by
  unfold Src.closeIfCloser Src.close; split <;> rfl

@[simp] theorem Src.closeIfCloser_term (s : Src) : s.closeIfCloser.term = s.term := by
  unfold Src.closeIfCloser Src.close; split <;> rfl

@[simp] theorem Src.closeIfCloser_ident (s : Src) : s.closeIfCloser.ident = s.ident := by
  simp [Src.ident]

theorem Src.sameMeta.ident {s s' : Src} (h : s.sameMeta s') : s'.ident = s.ident := by
  simp [Src.ident, h.2.1, h.2.2.1]

theorem multiSpec_cons_none {r r' : Src} {d : Bytes} (rs : List Src)
    (hrest : r.rest = d ++ r'.rest) (hterm : r'.term = r.term) :
    multiSpec (r :: rs) = (d ++ (multiSpec (r' :: rs)).1, (multiSpec (r' :: rs)).2) := by
  simp only [multiSpec, hterm, hrest]
  split <;> simp

/-- what one `Read` establishes about the stream, by outcome -/
def Multi.stepPost (m : Nat) (rs : List Src) (M' : Multi) (d : Bytes) : Option Err → Prop
  | none => multiSpec rs = (d ++ (multiSpec M'.readers).1, (multiSpec M'.readers).2) ∧
      listSize M'.readers ≤ listSize rs ∧ (0 < m → listSize M'.readers < listSize rs)
  | some e => multiSpec rs = (d, e)

/-- one `Read` of the multi reader (the inner loop over exhausted sources), any outcome -/
theorem Multi.readLoop_step (m : Nat) : ∀ (rs dn : List Src) (M' : Multi) (d : Bytes) (e : Option Err),
    (∀ s ∈ rs, s.closes = 0) → (∀ s ∈ dn, s.doneOk) →
    Multi.readLoop m rs dn = (M', d, e) →
    (∀ s ∈ M'.readers, s.closes = 0) ∧ (∀ s ∈ M'.done, s.doneOk) ∧
    (M'.done ++ M'.readers).map Src.ident = (dn ++ rs).map Src.ident ∧
    Multi.stepPost m rs M' d e := by
  intro rs
  induction rs with
  | nil =>
    intro dn M' d e _ hdn h
    simp only [Multi.readLoop, Prod.mk.injEq] at h
    obtain ⟨rfl, rfl, rfl⟩ := h
    exact ⟨by simp, hdn, by simp, by simp [Multi.stepPost, multiSpec]⟩
  | cons r rs ih =>
    intro dn M' d e hrs hdn h
    have hr0 : r.closes = 0 := hrs r (by simp)
    have hrs' : ∀ s ∈ rs, s.closes = 0 := fun s hs => hrs s (by simp [hs])
    rw [Multi.readLoop_cons] at h
    rcases hr : r.read m with ⟨r', d0, e0⟩
    rw [hr] at h
    simp only at h
    -- the two "source is finished" branches share everything but what is appended to `done`
    have finished : ∀ (r'' : Src), r''.doneOk → r''.ident = r.ident → r.term.endsSource → d0 = r.rest →
        (if d0 ≠ [] then
          (({ readers := rs, done := dn ++ [r''] } : Multi), d0, if rs = [] then some Err.eof else none)
         else Multi.readLoop m rs (dn ++ [r''])) = (M', d, e) →
        (∀ s ∈ M'.readers, s.closes = 0) ∧ (∀ s ∈ M'.done, s.doneOk) ∧
        (M'.done ++ M'.readers).map Src.ident = (dn ++ r :: rs).map Src.ident ∧
        Multi.stepPost m (r :: rs) M' d e := by
      intro r'' hok hid hends hd0 h
      have hdn' : ∀ s ∈ dn ++ [r''], s.doneOk := by
        intro s hs
        rcases List.mem_append.mp hs with hs | hs
        · exact hdn s hs
        · simp only [List.mem_singleton] at hs
          subst hs; exact hok
      have hspec : multiSpec (r :: rs) = (d0 ++ (multiSpec rs).1, (multiSpec rs).2) := by
        simp [multiSpec, hends, hd0]
      by_cases hne : d0 ≠ []
      · simp only [hne, ne_eq, not_false_eq_true, ↓reduceIte, Prod.mk.injEq] at h
        obtain ⟨rfl, rfl, rfl⟩ := h
        refine ⟨hrs', hdn', by simp [hid], ?_⟩
        by_cases hnil : rs = []
        · subst hnil
          simp only [↓reduceIte, Multi.stepPost]
          rw [hspec]; simp [multiSpec]
        · simp only [hnil, ↓reduceIte, Multi.stepPost]
          refine ⟨hspec, ?_, fun _ => ?_⟩ <;> simp [listSize] <;> omega
      · simp only [hne, ↓reduceIte] at h
        have hd0nil : d0 = [] := by simpa using hne
        obtain ⟨i1, i2, i3, i4⟩ := ih _ M' d e hrs' hdn' h
        refine ⟨i1, i2, by rw [i3]; simp [hid], ?_⟩
        cases e with
        | none =>
          simp only [Multi.stepPost] at i4 ⊢
          refine ⟨by rw [hspec, hd0nil, i4.1]; simp, ?_, fun hm => ?_⟩
          · have := i4.2.1; simp [listSize] at this ⊢; omega
          · have := i4.2.2 hm; simp [listSize] at this ⊢; omega
        | some e =>
          simp only [Multi.stepPost] at i4 ⊢
          rw [hspec, hd0nil, i4]; simp
    by_cases he : e0 = some .eof
    · subst he
      obtain ⟨hterm, hd0, _, hmeta, _⟩ := Src.read_some hr0 hr
      simp only [↓reduceIte] at h
      exact finished r'.closeIfCloser
        (Or.inl (Src.closeIfCloser_closedOnce (by rw [hmeta.2.2.2, hr0])))
        (by rw [Src.closeIfCloser_ident, hmeta.ident]) (Or.inl hterm.symm) hd0 h
    by_cases hb : e0 = some .bodyClosed
    · subst hb
      obtain ⟨hterm, hd0, _, hmeta, _⟩ := Src.read_some hr0 hr
      simp only [↓reduceIte] at h
      exact finished r' (Or.inr ⟨by rw [hmeta.2.1, ← hterm], by rw [hmeta.2.2.2, hr0]⟩)
        hmeta.ident (Or.inr hterm.symm) hd0 h
    · simp only [he, hb, ↓reduceIte, Prod.mk.injEq] at h
      obtain ⟨rfl, rfl, rfl⟩ := h
      cases e0 with
      | none =>
        obtain ⟨hrest, hmeta, _, hsz, hszlt⟩ := Src.read_none hr0 hr
        refine ⟨?_, hdn, by simp [hmeta.ident], ?_⟩
        · intro s hs
          simp only [List.mem_cons] at hs
          rcases hs with rfl | hs
          · rw [hmeta.2.2.2, hr0]
          · exact hrs' s hs
        · simp only [Multi.stepPost]
          refine ⟨multiSpec_cons_none rs hrest hmeta.2.1, ?_, fun hm => ?_⟩
          · simp [listSize]; omega
          · have := hszlt hm; simp [listSize]; omega
      | some e1 =>
        obtain ⟨hterm, hd0, _, hmeta, _⟩ := Src.read_some hr0 hr
        refine ⟨?_, hdn, by simp [hmeta.ident], ?_⟩
        · intro s hs
          simp only [List.mem_cons] at hs
          rcases hs with rfl | hs
          · rw [hmeta.2.2.2, hr0]
          · exact hrs' s hs
        · simp only [Multi.stepPost]
          have : ¬ r.term.endsSource := by
            rw [← hterm]; intro h
            rcases h with h | h
            · exact he (by rw [h])
            · exact hb (by rw [h])
          simp [multiSpec, this, hd0, hterm]

/-- The consumer loop over a multi reader yields `multiSpec`, and keeps the close-count invariant. -/
theorem Multi.consume_spec (srcs : List Src) (bufs : List Nat) (dflt : Nat)
    (hc : ∀ s ∈ srcs, s.closes = 0) (hd : 0 < dflt) :
    ((Multi.new srcs).consume bufs dflt).2 = multiSpec srcs ∧
      Multi.Inv (srcs.map Src.ident) ((Multi.new srcs).consume bufs dflt).1 := by
  unfold Multi.consume
  have := drain_spec Multi.read (fun M => multiSpec M.readers) (Multi.Inv (srcs.map Src.ident))
    (fun M _ => Multi.Inv (srcs.map Src.ident) M) (fun M => listSize M.readers)
    (by
      intro M m M' d hI h
      obtain ⟨h1, h2, h3, h4⟩ := Multi.readLoop_step m M.readers M.done M' d none hI.1 hI.2.1 h
      exact ⟨⟨h1, h2, by rw [h3]; exact hI.2.2⟩, h4.1, h4.2.1, h4.2.2⟩)
    (by
      intro M m M' d e hI h
      obtain ⟨h1, h2, h3, h4⟩ := Multi.readLoop_step m M.readers M.done M' d (some e) hI.1 hI.2.1 h
      exact ⟨⟨h1, h2, by rw [h3]; exact hI.2.2⟩, h4⟩)
    ((Multi.new srcs).fuel bufs) (Multi.new srcs) bufs dflt
    ⟨hc, by simp [Multi.new], by simp [Multi.new]⟩ hd
    (by simp [Multi.fuel, Multi.size, Multi.new, listSize])
  exact this

/-- After `Close`: nothing is left; every source is closed exactly once if it is a closer (a
source that ended in `http.ErrBodyReadAfterClose` possibly not at all), never twice; and when no
source ends in that error the close counts are exactly one per closer. -/
theorem Multi.close_counts {G : List (Bool × Err)} {M : Multi} (h : Multi.Inv G M) :
    M.close.readers = [] ∧ M.close.done.map Src.ident = G ∧ (∀ s ∈ M.close.done, s.doneOk) ∧
    ((∀ g ∈ G, g.2 ≠ .bodyClosed) → M.close.closeCounts = G.map (fun g => if g.1 then 1 else 0)) := by
  obtain ⟨h1, h2, h3⟩ := h
  have hok : ∀ s ∈ M.close.done, s.doneOk := by
    intro s hs
    simp only [Multi.close, List.mem_append, List.mem_map] at hs
    rcases hs with hs | ⟨x, hx, rfl⟩
    · exact h2 s hs
    · exact Or.inl (Src.closeIfCloser_closedOnce (h1 x hx))
  have hid : M.close.done.map Src.ident = G := by
    rw [← h3]; simp [Multi.close, List.map_map, Function.comp_def]
  refine ⟨rfl, hid, hok, fun hnb => ?_⟩
  have hcc : M.close.closeCounts = M.close.done.map (·.closes) := by simp [Multi.closeCounts, Multi.close]
  rw [hcc, ← hid, List.map_map]
  apply List.map_congr_left
  intro s hs
  have hne : s.term ≠ .bodyClosed := by
    have : s.ident ∈ G := by rw [← hid]; exact List.mem_map_of_mem hs
    exact hnb _ this
  rcases hok s hs with hco | ⟨hb, _⟩
  · exact hco
  · exact absurd hb hne

/-! #### WriteTo -/

theorem copyLoop_meta (m : Nat) : ∀ (fuel : Nat) (s : Src) (w : Wr), s.closes = 0 →
    s.sameMeta (copyLoop m fuel s w).1 := by
  intro fuel
  induction fuel with
  | zero => intro s w _; simp [copyLoop, Src.sameMeta]
  | succ f ih =>
    intro s w hc
    rw [copyLoop]
    rcases hr : s.read m with ⟨s', d, er⟩
    have hmeta : s.sameMeta s' := by
      cases er with
      | none => exact (Src.read_none hc hr).2.1
      | some e => exact (Src.read_some hc hr).2.2.2.1
    have hc' : s'.closes = 0 := by rw [hmeta.2.2.2, hc]
    have hrec : ∀ w', s.sameMeta (copyLoop m f s' w').1 := by
      intro w'
      have := ih s' w' hc'
      exact ⟨this.1.trans hmeta.1, this.2.1.trans hmeta.2.1, this.2.2.1.trans hmeta.2.2.1,
        this.2.2.2.trans hmeta.2.2.2⟩
    simp only
    split
    · rcases w.write d with ⟨w', nw, ew⟩
      cases ew with
      | some ew => exact hmeta
      | none =>
        cases er with
        | none => exact hrec w'
        | some e => cases e <;> exact hmeta
    · cases er with
      | none => exact hrec w
      | some e => cases e <;> exact hmeta

theorem Src.writeTo_meta (s : Src) (w : Wr) : s.sameMeta (s.writeTo w).1 := by
  unfold Src.writeTo
  split
  · simp [Src.sameMeta]
  · split
    · simp [Src.sameMeta]
    · rcases w.write s.rest with ⟨w', nw, ew⟩
      cases ew <;> simp [Src.sameMeta]

/-- whichever path `io.CopyBuffer` takes, the source's identity and close count are untouched -/
theorem copyBuffer_meta (s : Src) (w : Wr) (hc : s.closes = 0) : s.sameMeta (copyBuffer s w).1 := by
  unfold copyBuffer
  split
  · exact Src.writeTo_meta s w
  · split
    · exact copyLoop_meta _ _ s w hc
    · exact copyLoop_meta _ _ s w hc

theorem Wr.write_good {w : Wr} (h : w.cap = none) (d : Bytes) :
    w.write d = ({ w with got := w.got ++ d }, d.length, none) := by
  unfold Wr.write; rw [h]

/-- the generic read/write loop from a scripted source into a writer that never fails copies the
whole rest of the source and reports the source's error (nil for EOF) -/
theorem copyLoop_good (m : Nat) (hm : 0 < m) : ∀ (fuel : Nat) (s : Src) (w : Wr),
    s.closes = 0 → w.cap = none → s.size < fuel →
    (copyLoop m fuel s w).2.1 = { w with got := w.got ++ s.rest } ∧
      (copyLoop m fuel s w).2.2 = errOfTerm s.term := by
  intro fuel
  induction fuel with
  | zero => intro s w _ _ hf; omega
  | succ f ih =>
    intro s w hc hw hf
    rw [copyLoop]
    rcases hr : s.read m with ⟨s', d, er⟩
    simp only
    cases er with
    | none =>
      obtain ⟨hrest, hmeta, _, _, hszlt⟩ := Src.read_none hc hr
      have hc' : s'.closes = 0 := by rw [hmeta.2.2.2, hc]
      have hf' : s'.size < f := by have := hszlt hm; omega
      split
      · rw [Wr.write_good hw]
        simp only
        have := ih s' { w with got := w.got ++ d } hc' hw hf'
        rw [this.1, this.2, hmeta.2.1, hrest]
        simp
      · rename_i hd
        have hd : d = [] := by simpa using hd
        have := ih s' w hc' hw hf'
        rw [this.1, this.2, hmeta.2.1, hrest, hd]
        simp
    | some e =>
      obtain ⟨hterm, hd, _, _, _⟩ := Src.read_some hc hr
      split
      · rw [Wr.write_good hw]
        simp only
        cases e <;> simp [errOfTerm, ← hterm, hd]
      · rename_i hdn
        have hdn : d = [] := by simpa using hdn
        have : s.rest = [] := by rw [← hd, hdn]
        cases e <;> simp [errOfTerm, ← hterm, this]

/-- `io.CopyBuffer` into a writer that never fails — through the source's `WriteTo`, the
writer's `ReadFrom`, or the generic loop alike — copies the whole rest of the source and reports
the source's error (nil for EOF). -/
theorem copyBuffer_good (s : Src) (w : Wr) (hc : s.closes = 0) (hw : w.cap = none) :
    (copyBuffer s w).2.1 = { w with got := w.got ++ s.rest } ∧
      (copyBuffer s w).2.2 = errOfTerm s.term := by
  unfold copyBuffer
  split
  · unfold Src.writeTo
    simp only [hc, Nat.lt_irrefl, ↓reduceIte]
    split
    · rename_i hr; simp [hr]
    · rw [Wr.write_good hw]; simp
  · split
    · rename_i h; exact copyLoop_good _ h _ s w hc hw (by omega)
    · exact copyLoop_good _ (by decide) _ s w hc hw (by omega)

theorem Multi.writeLoop_inv : ∀ (rs dn : List Src) (w : Wr),
    (∀ s ∈ rs, s.closes = 0) → (∀ s ∈ dn, s.doneOk) →
    (∀ s ∈ (Multi.writeLoop .fixed rs dn w).1.readers, s.closes = 0) ∧
    (∀ s ∈ (Multi.writeLoop .fixed rs dn w).1.done, s.doneOk) ∧
    ((Multi.writeLoop .fixed rs dn w).1.done ++ (Multi.writeLoop .fixed rs dn w).1.readers).map Src.ident
      = (dn ++ rs).map Src.ident := by
  intro rs
  induction rs with
  | nil => intro dn w _ hdn; simp [Multi.writeLoop]; exact hdn
  | cons r rs ih =>
    intro dn w hrs hdn
    have hr0 : r.closes = 0 := hrs r (by simp)
    have hrs' : ∀ s ∈ rs, s.closes = 0 := fun s hs => hrs s (by simp [hs])
    rw [Multi.writeLoop]
    have hmeta := copyBuffer_meta r w hr0
    rcases hcp : copyBuffer r w with ⟨r', w', e⟩
    rw [hcp] at hmeta
    simp only at hmeta
    cases e with
    | some e =>
      simp only
      refine ⟨?_, hdn, by simp [hmeta.ident]⟩
      intro s hs
      simp only [List.mem_cons] at hs
      rcases hs with rfl | hs
      · rw [hmeta.2.2.2, hr0]
      · exact hrs' s hs
    | none =>
      simp only
      have hdn' : ∀ s ∈ dn ++ [r'.closeIfCloser], s.doneOk := by
        intro s hs
        rcases List.mem_append.mp hs with hs | hs
        · exact hdn s hs
        · simp only [List.mem_singleton] at hs
          subst hs
          exact Or.inl (Src.closeIfCloser_closedOnce (by rw [hmeta.2.2.2, hr0]))
      obtain ⟨i1, i2, i3⟩ := ih (dn ++ [r'.closeIfCloser]) w' hrs' hdn'
      exact ⟨i1, i2, by rw [i3]; simp [hmeta.ident]⟩

theorem Multi.writeLoop_good : ∀ (rs dn : List Src) (w : Wr),
    (∀ s ∈ rs, s.closes = 0) → w.cap = none →
    (Multi.writeLoop .fixed rs dn w).2.1 = { w with got := w.got ++ (multiSpecWT rs).1 } ∧
    (Multi.writeLoop .fixed rs dn w).2.2 = errOfTerm (multiSpecWT rs).2 := by
  intro rs
  induction rs with
  | nil => intro dn w _ _; simp [Multi.writeLoop, multiSpecWT, errOfTerm]
  | cons r rs ih =>
    intro dn w hrs hw
    have hr0 : r.closes = 0 := hrs r (by simp)
    have hrs' : ∀ s ∈ rs, s.closes = 0 := fun s hs => hrs s (by simp [hs])
    rw [Multi.writeLoop]
    have hgood := copyBuffer_good r w hr0 hw
    rcases hcp : copyBuffer r w with ⟨r', w', e⟩
    rw [hcp] at hgood
    simp only at hgood
    obtain ⟨hw', he⟩ := hgood
    by_cases ht : r.term = .eof
    · simp only [errOfTerm, ht, ↓reduceIte] at he
      subst he
      simp only
      have hwc : w'.cap = none := by rw [hw']; exact hw
      obtain ⟨i1, i2⟩ := ih (dn ++ [r'.closeIfCloser]) w' hrs' hwc
      rw [i1, i2, hw']
      simp [multiSpecWT, ht]
    · simp only [errOfTerm, ht, ↓reduceIte] at he
      subst he
      simp [multiSpecWT, ht, errOfTerm, hw']

/-- The close-count invariant survives any sequence of `Read`s and `WriteTo`s. -/
theorem Multi.run_inv {G : List (Bool × Err)} : ∀ (ops : List MultiOp) (M : Multi), Multi.Inv G M →
    Multi.Inv G (Multi.run .fixed M ops) := by
  intro ops
  induction ops with
  | nil => intro M h; exact h
  | cons op ops ih =>
    intro M hI
    cases op with
    | read m =>
      rw [Multi.run]
      apply ih
      rcases hr : M.read m with ⟨M', d, e⟩
      obtain ⟨h1, h2, h3, _⟩ := Multi.readLoop_step m M.readers M.done M' d e hI.1 hI.2.1 hr
      exact ⟨h1, h2, by rw [h3]; exact hI.2.2⟩
    | writeTo w =>
      rw [Multi.run]
      apply ih
      obtain ⟨h1, h2, h3⟩ := Multi.writeLoop_inv M.readers M.done w hI.1 hI.2.1
      exact ⟨h1, h2, by rw [show M.writeTo .fixed w = Multi.writeLoop .fixed M.readers M.done w from rfl, h3]; exact hI.2.2⟩

/-! ### TeeReadCloser -/

/-- A stream `(bytes, terminal)` seen through a writer that accepts `cap` more bytes: unchanged if
it fits, else cut at the capacity and ended by the writer's error. -/
def cut (cap : Option Nat) (x : Bytes × Err) : Bytes × Err :=
  match cap with
  | none => x
  | some c => if x.1.length ≤ c then x else (x.1.take c, .wfail)

/-- What a consumer of a tee reader will still receive. -/
def Tee.spec (t : Tee) : Bytes × Err :=
  if t.eof then ([], .eof) else cut t.w.cap (t.src.rest, t.src.term)

/-- `G` = everything the writer will have received at the end; `cl` = whether the source is a closer. -/
def Tee.Inv (G : Bytes) (cl : Bool) (t : Tee) : Prop :=
  t.rOpen = true ∧ t.wOpen = true ∧ t.eof = false ∧ t.src.closes = 0 ∧ t.src.closable = cl ∧
    t.w.got ++ (Tee.spec t).1 = G

def Tee.Fin (G : Bytes) (cl : Bool) (t : Tee) (_ : Err) : Prop :=
  t.rOpen = true ∧ t.wOpen = true ∧ t.src.closes = 0 ∧ t.src.closable = cl ∧ t.w.got = G

/-- a successful write -/
theorem Wr.write_ok {w w' : Wr} {d : Bytes} {nw : Nat} (h : w.write d = (w', nw, none)) :
    w'.got = w.got ++ d ∧ ∀ r e, cut w.cap (d ++ r, e) = (d ++ (cut w'.cap (r, e)).1, (cut w'.cap (r, e)).2) := by
  unfold Wr.write at h
  cases hcap : w.cap with
  | none =>
    rw [hcap] at h
    simp only [Prod.mk.injEq] at h
    obtain ⟨rfl, _, _⟩ := h
    exact ⟨rfl, fun r e => by simp [cut]⟩
  | some c =>
    rw [hcap] at h
    simp only at h
    split at h
    · rename_i hfit
      simp only [Prod.mk.injEq] at h
      obtain ⟨rfl, _, _⟩ := h
      refine ⟨rfl, fun r e => ?_⟩
      simp only [cut, List.length_append]
      by_cases hle : d.length + r.length ≤ c
      · have : r.length ≤ c - d.length := by omega
        simp [hle, this]
      · have : ¬ r.length ≤ c - d.length := by omega
        simp only [hle, this, ↓reduceIte, Prod.mk.injEq, and_true]
        rw [List.take_append, List.take_of_length_le hfit]
    · simp at h

/-- a failing (short) write -/
theorem Wr.write_fail {w w' : Wr} {d : Bytes} {nw : Nat} {ew : Err} (h : w.write d = (w', nw, some ew)) :
    ew = .wfail ∧ w'.got = w.got ++ d.take nw ∧ ∀ r e, cut w.cap (d ++ r, e) = (d.take nw, .wfail) := by
  unfold Wr.write at h
  cases hcap : w.cap with
  | none => rw [hcap] at h; simp at h
  | some c =>
    rw [hcap] at h
    simp only at h
    split at h
    · simp at h
    · rename_i hfit
      simp only [Prod.mk.injEq, Option.some.injEq] at h
      obtain ⟨rfl, rfl, rfl⟩ := h
      refine ⟨rfl, rfl, fun r e => ?_⟩
      have : ¬ d.length + r.length ≤ c := by omega
      simp only [cut, List.length_append, this, ↓reduceIte, Prod.mk.injEq, and_true]
      rw [List.take_append]
      have : c - d.length = 0 := by omega
      simp [this]

theorem cut_nil (cap : Option Nat) (e : Err) : cut cap ([], e) = ([], e) := by
  cases cap <;> simp [cut]

theorem Tee.read_open {t : Tee} (m : Nat) (hr : t.rOpen = true) (hw : t.wOpen = true)
    (he : t.eof = false) :
    t.read m =
      if (t.src.read m).2.1 ≠ [] then
        match t.w.write (t.src.read m).2.1 with
        | (w', nw, some ew) =>
          ({ t with src := (t.src.read m).1, w := w', eof := ((t.src.read m).2.2 == some .eof) },
            (t.src.read m).2.1.take nw, some ew)
        | (w', _, none) =>
          ({ t with src := (t.src.read m).1, w := w', eof := ((t.src.read m).2.2 == some .eof) },
            (t.src.read m).2.1, (t.src.read m).2.2)
      else ({ t with src := (t.src.read m).1, eof := ((t.src.read m).2.2 == some .eof) },
            (t.src.read m).2.1, (t.src.read m).2.2) := by
  unfold Tee.read
  have h1 : ¬ (t.rOpen = false ∨ t.wOpen = false) := by simp [hr, hw]
  rw [if_neg h1, he]
  simp only [Bool.false_eq_true, ↓reduceIte, Bool.false_or]
  rfl

theorem Tee.step {G : Bytes} {cl : Bool} {t t' : Tee} {m : Nat} {d : Bytes} {e : Option Err}
    (hI : Tee.Inv G cl t) (h : t.read m = (t', d, e)) :
    match e with
    | none => Tee.Inv G cl t' ∧ Tee.spec t = (d ++ (Tee.spec t').1, (Tee.spec t').2) ∧
        t'.src.size ≤ t.src.size ∧ (0 < m → t'.src.size < t.src.size)
    | some e => Tee.Fin G cl t' e ∧ Tee.spec t = (d, e) := by
  obtain ⟨hr, hw, he, hc, hcl, hG⟩ := hI
  rw [Tee.read_open m hr hw he] at h
  have hspec0 : Tee.spec t = cut t.w.cap (t.src.rest, t.src.term) := by simp [Tee.spec, he]
  rw [hspec0] at hG
  rcases hrd : t.src.read m with ⟨s', d0, e0⟩
  rw [hrd] at h
  simp only at h
  -- facts about the source's answer
  have hsrc : t.src.sameMeta s' ∧
      (match e0 with
       | none => t.src.rest = d0 ++ s'.rest ∧ s'.size ≤ t.src.size ∧ (0 < m → s'.size < t.src.size)
       | some e1 => e1 = t.src.term ∧ d0 = t.src.rest) := by
    cases e0 with
    | none => have := Src.read_none hc hrd; exact ⟨this.2.1, this.1, this.2.2.2.1, this.2.2.2.2⟩
    | some e1 => have := Src.read_some hc hrd; exact ⟨this.2.2.2.1, this.1, this.2.1⟩
  obtain ⟨⟨_, hterm, hclosable, hcls⟩, hans⟩ := hsrc
  have hc' : s'.closes = 0 := by rw [hcls, hc]
  have hcl' : s'.closable = cl := by rw [hclosable, hcl]
  by_cases hd : d0 = []
  · -- nothing read: nothing written
    simp only [hd, ne_eq, not_true_eq_false, ↓reduceIte, Prod.mk.injEq] at h
    obtain ⟨ht', rfl, rfl⟩ := h
    cases e0 with
    | none =>
      simp only at hans ⊢
      have hrest : s'.rest = t.src.rest := by rw [hans.1, hd]; simp
      have hs : Tee.spec t' = cut t.w.cap (t.src.rest, t.src.term) := by
        rw [← ht']; simp [Tee.spec, hrest, hterm]
      refine ⟨⟨by rw [← ht']; exact hr, by rw [← ht']; exact hw, by rw [← ht']; rfl,
        by rw [← ht']; exact hc', by rw [← ht']; exact hcl', ?_⟩, ?_, ?_, ?_⟩
      · rw [hs, ← ht']; exact hG
      · rw [hs, hspec0]; simp
      · rw [← ht']; exact hans.2.1
      · rw [← ht']; exact hans.2.2
    | some e1 =>
      simp only at hans ⊢
      have hrest : t.src.rest = [] := by rw [← hans.2, hd]
      have hs : Tee.spec t = ([], e1) := by rw [hspec0, hrest, hans.1, cut_nil]
      refine ⟨⟨by rw [← ht']; exact hr, by rw [← ht']; exact hw, by rw [← ht']; exact hc',
        by rw [← ht']; exact hcl', ?_⟩, hs⟩
      rw [← ht']; rw [← hspec0, hs] at hG; simpa using hG
  · simp only [ne_eq, hd, not_false_eq_true, ↓reduceIte] at h
    rcases hwr : t.w.write d0 with ⟨w', nw, ew⟩
    rw [hwr] at h
    cases ew with
    | some ew =>
      -- the writer failed: the consumer gets what was written and the writer's error
      simp only [Prod.mk.injEq] at h
      obtain ⟨ht', rfl, rfl⟩ := h
      obtain ⟨rfl, hgot, hcut⟩ := Wr.write_fail hwr
      have hs : Tee.spec t = (d0.take nw, .wfail) := by
        rw [hspec0]
        cases e0 with
        | none => simp only at hans; rw [hans.1]; exact hcut _ _
        | some e1 =>
          simp only at hans
          have := hcut [] t.src.term
          rw [List.append_nil] at this
          rw [← hans.2]; exact this
      refine ⟨⟨by rw [← ht']; exact hr, by rw [← ht']; exact hw, by rw [← ht']; exact hc',
        by rw [← ht']; exact hcl', ?_⟩, hs⟩
      rw [← ht']; rw [← hspec0, hs] at hG; simp only at hG ⊢; rw [hgot]; exact hG
    | none =>
      simp only [Prod.mk.injEq] at h
      obtain ⟨ht', rfl, rfl⟩ := h
      obtain ⟨hgot, hcut⟩ := Wr.write_ok hwr
      cases e0 with
      | none =>
        simp only at hans ⊢
        have hs' : Tee.spec t' = cut w'.cap (s'.rest, t.src.term) := by
          rw [← ht']; simp [Tee.spec, hterm]
        have hs : Tee.spec t = (d0 ++ (cut w'.cap (s'.rest, t.src.term)).1, (cut w'.cap (s'.rest, t.src.term)).2) := by
          rw [hspec0, hans.1]; exact hcut _ _
        refine ⟨⟨by rw [← ht']; exact hr, by rw [← ht']; exact hw, by rw [← ht']; rfl,
          by rw [← ht']; exact hc', by rw [← ht']; exact hcl', ?_⟩, ?_, ?_, ?_⟩
        · rw [hs', ← ht']; rw [← hspec0, hs] at hG; simp only at hG ⊢; rw [hgot]; simpa using hG
        · rw [hs, hs']
        · rw [← ht']; exact hans.2.1
        · rw [← ht']; exact hans.2.2
      | some e1 =>
        simp only at hans ⊢
        have hs : Tee.spec t = (d0, e1) := by
          rw [hspec0]
          have := hcut [] t.src.term
          rw [List.append_nil, cut_nil] at this
          rw [← hans.2, this, hans.1]; simp
        refine ⟨⟨by rw [← ht']; exact hr, by rw [← ht']; exact hw, by rw [← ht']; exact hc',
          by rw [← ht']; exact hcl', ?_⟩, hs⟩
        rw [← ht']; rw [← hspec0, hs] at hG; simp only at hG ⊢; rw [hgot]; exact hG

theorem Tee.consume_spec (s : Src) (w : Wr) (bufs : List Nat) (dflt : Nat)
    (hc : s.closes = 0) (hd : 0 < dflt) :
    ((Tee.new s w).consume bufs dflt).2 = cut w.cap (s.rest, s.term) ∧
      Tee.Fin (w.got ++ (cut w.cap (s.rest, s.term)).1) s.closable ((Tee.new s w).consume bufs dflt).1
        ((Tee.new s w).consume bufs dflt).2.2 := by
  have hs : Tee.spec (Tee.new s w) = cut w.cap (s.rest, s.term) := by simp [Tee.spec, Tee.new]
  rw [← hs]
  unfold Tee.consume
  apply drain_spec Tee.read Tee.spec (Tee.Inv (w.got ++ (Tee.spec (Tee.new s w)).1) s.closable)
    (Tee.Fin (w.got ++ (Tee.spec (Tee.new s w)).1) s.closable) (fun t => t.src.size)
  · intro t m t' d hI h; exact Tee.step hI h
  · intro t m t' d e hI h; exact Tee.step hI h
  · exact ⟨rfl, rfl, rfl, hc, rfl, rfl⟩
  · exact hd
  · simp [Tee.fuel, Tee.new]


/-! ### LimitReadCloser under any op sequence, any `int64` limit -/

theorem Src.read_closes (s : Src) (m : Nat) : (s.read m).1.closes = s.closes ∧
    (s.read m).2.1.length ≤ m := by
  unfold Src.read
  split
  · simp
  · split
    · unfold Src.deliver
      split
      · simp
      · split
        · simp
        · simp [List.length_take]; omega
    · unfold Src.deliver
      split
      · simp
      · split
        · simp
        · simp [List.length_take]; omega

/-- the source has been closed exactly once iff the limit reader considers it closed -/
def Limit.CInv (l : Limit) : Prop := l.src.closes = if l.closed then 1 else 0

theorem clip_fixed_some (n : Int) (m : Nat) : ∃ m', clip .fixed n m = some m' ∧
    (0 ≤ n → m' ≤ n.toNat + 1) ∧ m' ≤ max m (n + 1).toNat := by
  unfold clip
  simp only
  split
  · exact ⟨_, rfl, fun _ => by omega, by omega⟩
  · exact ⟨_, rfl, fun _ => by omega, by omega⟩

theorem Limit.read_cinv (l : Limit) (m : Nat) (h : l.CInv) :
    (Limit.read .fixed l m).1.CInv ∧ (l.closed = true → (Limit.read .fixed l m).1.closed = true) := by
  unfold Limit.read
  split
  · exact ⟨h, id⟩
  split
  · exact ⟨h, id⟩
  split
  · exact ⟨h, id⟩
  rename_i hcl
  obtain ⟨m', hm', _, _⟩ := clip_fixed_some l.n m
  rw [hm']
  simp only
  have hc0 : l.src.closes = 0 := by simpa [Limit.CInv, hcl] using h
  have hrc := (Src.read_closes l.src m').1
  rcases hr : l.src.read m' with ⟨s', d, e⟩
  rw [hr] at hrc
  simp only at hrc ⊢
  split
  · exact ⟨by simp [Limit.CInv, Src.close, hrc, hc0], fun _ => rfl⟩
  · exact ⟨by simp [Limit.CInv, hcl, hrc, hc0], fun h => absurd h (by simp [hcl])⟩

theorem Limit.close_cinv (l : Limit) (h : l.CInv) : l.close.CInv ∧ l.close.closed = true := by
  unfold Limit.close
  split
  · rename_i hc; exact ⟨h, hc⟩
  · rename_i hc
    have : l.src.closes = 0 := by simpa [Limit.CInv, hc] using h
    exact ⟨by simp [Limit.CInv, Src.close, this], rfl⟩

theorem Limit.run_cinv : ∀ (ops : List LimitOp) (l : Limit), l.CInv →
    (Limit.run .fixed l ops).CInv ∧ (l.closed = true → (Limit.run .fixed l ops).closed = true) ∧
    (LimitOp.close ∈ ops → (Limit.run .fixed l ops).closed = true) := by
  intro ops
  induction ops with
  | nil => intro l h; exact ⟨h, id, by simp⟩
  | cons op ops ih =>
    intro l h
    cases op with
    | read m =>
      rw [Limit.run]
      obtain ⟨h1, h2⟩ := Limit.read_cinv l m h
      obtain ⟨i1, i2, i3⟩ := ih _ h1
      exact ⟨i1, fun hc => i2 (h2 hc), fun hm => i3 (by simpa using hm)⟩
    | close =>
      rw [Limit.run]
      obtain ⟨h1, h2⟩ := Limit.close_cinv l h
      obtain ⟨i1, i2, _⟩ := ih _ h1
      exact ⟨i1, fun _ => i2 h2, fun _ => i2 h2⟩

/-- a negative limit: every `Read` fails with ErrStreamTooLarge and touches nothing -/
theorem Limit.read_negative (v : Version) (l : Limit) (m : Nat) (hn : l.n < 0) :
    Limit.read v l m = (l, [], some .tooLarge) := by
  unfold Limit.read; simp [hn]

/-- one `Read` keeps `l.N` inside `int64` and evaluates `l.N+1` only where it cannot overflow -/
theorem Limit.read_int64 (l : Limit) (m : Nat) (h0 : minInt64 ≤ l.n) (h1 : l.n ≤ maxInt64) :
    minInt64 ≤ (Limit.read .fixed l m).1.n ∧ (Limit.read .fixed l m).1.n ≤ maxInt64 ∧
    (Limit.read .fixed l m).1.n ≤ max l.n (-1) ∧ (0 ≤ l.n → -1 ≤ (Limit.read .fixed l m).1.n) := by
  unfold Limit.read
  split
  · simp only; refine ⟨h0, h1, by omega, fun h => by omega⟩
  split
  · simp only; exact ⟨h0, h1, by omega, fun h => by omega⟩
  split
  · simp only; exact ⟨h0, h1, by omega, fun h => by omega⟩
  rename_i hn _ _
  obtain ⟨m', hm', hle, _⟩ := clip_fixed_some l.n m
  rw [hm']
  simp only
  have hlen := (Src.read_closes l.src m').2
  rcases hr : l.src.read m' with ⟨s', d, e⟩
  rw [hr] at hlen
  simp only at hlen ⊢
  have := hle (by omega)
  unfold minInt64 at *
  unfold maxInt64 at *
  split <;> (simp only; omega)

/-! ### TeeReadCloser from several goroutines -/

/-- whatever a `Read` hands to its caller has been written to the writer, in every state -/
theorem Tee.read_written (t : Tee) (m : Nat) :
    (t.read m).1.w.got = t.w.got ++ (t.read m).2.1 := by
  unfold Tee.read
  split
  · simp
  split
  · simp
  rcases t.src.read m with ⟨s', d, e⟩
  simp only
  split
  · rcases hw : t.w.write d with ⟨w', nw, ew⟩
    cases ew with
    | some ew => simp only; exact (Wr.write_fail hw).2.1
    | none => simp only; exact (Wr.write_ok hw).1
  · rename_i hd
    have : d = [] := by simpa using hd
    simp [this]

theorem Wr.closeIfCloser_got (w : Wr) : w.closeIfCloser.got = w.got := by
  unfold Wr.closeIfCloser; split <;> rfl

theorem Tee.apply_written (t : Tee) (op : TeeOp) :
    (t.apply op).1.w.got = t.w.got ++ (t.apply op).2.1 := by
  cases op with
  | read m => exact Tee.read_written t m
  | close => simp only [Tee.apply, Tee.close, List.append_nil]; split <;> simp [Wr.closeIfCloser_got]
  | stop => simp only [Tee.apply, Tee.stop, List.append_nil]; split <;> simp [Wr.closeIfCloser_got]

/-- after Close or Stop a `Read` returns no data -/
theorem Tee.read_after_close (t : Tee) (m : Nat) (h : t.rOpen = false ∨ t.wOpen = false) :
    t.read m = (t, [], some .closedPipe) := by
  unfold Tee.read; simp [h]

/-- close bookkeeping: each of r and w has been closed exactly once iff it is detached (nil) and a
closer, and not at all while attached -/
def Tee.CInv (cl wcl : Bool) (t : Tee) : Prop :=
  t.src.closable = cl ∧ t.w.closable = wcl ∧
  t.src.closes = (if t.rOpen then 0 else if cl then 1 else 0) ∧
  t.w.closes = (if t.wOpen then 0 else if wcl then 1 else 0)

theorem Wr.write_meta (w : Wr) (d : Bytes) :
    (w.write d).1.closable = w.closable ∧ (w.write d).1.closes = w.closes := by
  unfold Wr.write
  split
  · simp
  · split <;> simp

theorem Src.read_closable (s : Src) (m : Nat) : (s.read m).1.closable = s.closable := by
  unfold Src.read
  split
  · rfl
  · split
    · unfold Src.deliver
      split
      · rfl
      · split <;> rfl
    · unfold Src.deliver
      split
      · rfl
      · split <;> rfl

theorem Tee.read_cinv {cl wcl : Bool} (t : Tee) (m : Nat) (h : t.CInv cl wcl) :
    (t.read m).1.CInv cl wcl ∧ (t.read m).1.rOpen = t.rOpen ∧ (t.read m).1.wOpen = t.wOpen := by
  unfold Tee.read
  split
  · exact ⟨h, rfl, rfl⟩
  split
  · exact ⟨h, rfl, rfl⟩
  have h1 := (Src.read_closes t.src m).1
  have h2 := Src.read_closable t.src m
  rcases hrd : t.src.read m with ⟨s', d, e⟩
  rw [hrd] at h1 h2
  simp only at h1 h2 ⊢
  obtain ⟨a, b, c, dd⟩ := h
  split
  · have hwm := Wr.write_meta t.w d
    rcases hwr : t.w.write d with ⟨w', nw, ew⟩
    rw [hwr] at hwm
    obtain ⟨hw1, hw2⟩ := hwm
    simp only at hw1 hw2
    cases ew <;> exact ⟨⟨by simp [h2, a], by simp [hw1, b], by simp [h1, c], by simp [hw2, dd]⟩, rfl, rfl⟩
  · exact ⟨⟨by simp [h2, a], b, by simp [h1, c], dd⟩, rfl, rfl⟩

theorem Tee.apply_cinv {cl wcl : Bool} (t : Tee) (op : TeeOp) (h : t.CInv cl wcl) :
    (t.apply op).1.CInv cl wcl := by
  cases op with
  | read m => exact (Tee.read_cinv t m h).1
  | close =>
    obtain ⟨a, b, c, d⟩ := h
    simp only [Tee.apply, Tee.close, Tee.CInv]
    refine ⟨?_, ?_, ?_, ?_⟩
    · split <;> simp [a]
    · split <;> simp [Wr.closeIfCloser, b] <;> split <;> simp [b]
    · cases hr : t.rOpen <;> simp [hr] at c ⊢
      · exact c
      · simp [Src.closeIfCloser, Src.close, a]; cases cl <;> simp [c]
    · cases hw : t.wOpen <;> simp [hw] at d ⊢
      · exact d
      · simp [Wr.closeIfCloser, b]; cases wcl <;> simp [d]
  | stop =>
    obtain ⟨a, b, c, d⟩ := h
    simp only [Tee.apply, Tee.stop, Tee.CInv]
    refine ⟨a, ?_, c, ?_⟩
    · split <;> simp [Wr.closeIfCloser, b] <;> split <;> simp [b]
    · cases hw : t.wOpen <;> simp [hw] at d ⊢
      · exact d
      · simp [Wr.closeIfCloser, b]; cases wcl <;> simp [d]

/-- invariant of the concurrent system -/
def TeeConc.Inv (t0 : Tee) (cl wcl : Bool) (c : TeeConc) : Prop :=
  c.tee.CInv cl wcl ∧ (c.holder = none ↔ c.result = none) ∧
  c.tee.w.got = t0.w.got ++ c.returnedData ++ c.pendingData

theorem TeeConc.inv_of_reach {t0 : Tee} {cl wcl : Bool} (h0 : t0.CInv cl wcl) :
    ∀ c, TeeConc.Reach t0 c → TeeConc.Inv t0 cl wcl c := by
  intro c hr
  induction hr with
  | init => exact ⟨h0, by simp [TeeConc.init], by simp [TeeConc.init, TeeConc.returnedData, TeeConc.pendingData]⟩
  | @step c c' l _ hstep ih =>
    obtain ⟨i1, i2, i3⟩ := ih
    cases l with
    | call g op =>
      simp only [TeeConc.step, Option.some.injEq] at hstep
      subst hstep
      exact ⟨i1, i2, i3⟩
    | enter g op =>
      simp only [TeeConc.step] at hstep
      split at hstep
      · rename_i hcond
        have hres : c.result = none := i2.mp hcond.1
        have hw := Tee.apply_written c.tee op
        have hci := Tee.apply_cinv c.tee op i1
        rcases hap : c.tee.apply op with ⟨t', d, e⟩
        rw [hap] at hstep hw hci
        simp only [Option.some.injEq] at hstep
        subst hstep
        refine ⟨hci, by simp, ?_⟩
        simp only [TeeConc.pendingData, TeeConc.returnedData] at i3 ⊢
        simp only at hw
        rw [hw, i3, hres]; simp
      · cases hstep
    | leave g op =>
      simp only [TeeConc.step] at hstep
      split at hstep
      · rename_i h d e hh hres
        split at hstep
        · simp only [Option.some.injEq] at hstep
          subst hstep
          refine ⟨i1, by simp, ?_⟩
          simp only [TeeConc.pendingData, TeeConc.returnedData, hres] at i3 ⊢
          rw [i3]; simp
        · cases hstep
      · cases hstep

end Kit.Streams
