import KitModel.Streams
/-!
Helper lemmas for property C16.  The method: every reader `R` gets a *specification function*
`spec : state → Bytes × Err` ("what a consumer will still receive, and how it ends") and a step law
  Read returns (d, nil)  ⇒ spec s = (d ++ bytes(spec s'), end(spec s'))
  Read returns (d, e)    ⇒ spec s = (d, e)
plus a measure that decreases on every read with a non-empty buffer.  `drain_spec` turns that into
"the consumer loop yields exactly `spec s`" for every sequence of buffer sizes.
-/
namespace Kit.Streams

/-! ### generic consumer loop -/

theorem drain_spec {σ : Type} (read : σ → Nat → σ × Bytes × Option Err)
    (spec : σ → Bytes × Err) (Inv : σ → Prop) (Q : σ → Err → Prop) (μ : σ → Nat)
    (hnone : ∀ s m s' d, Inv s → read s m = (s', d, none) →
      Inv s' ∧ spec s = (d ++ (spec s').1, (spec s').2) ∧ μ s' ≤ μ s ∧ (0 < m → μ s' < μ s))
    (hsome : ∀ s m s' d e, Inv s → read s m = (s', d, some e) → Q s' e ∧ spec s = (d, e)) :
    ∀ (fuel : Nat) (s : σ) (bufs : List Nat) (dflt : Nat), Inv s → 0 < dflt →
      μ s + bufs.length < fuel →
      (drain read fuel s bufs dflt).2 = spec s ∧
        Q (drain read fuel s bufs dflt).1 (drain read fuel s bufs dflt).2.2 := by
  intro fuel
  induction fuel with
  | zero => intro s bufs dflt _ _ hf; omega
  | succ f ih =>
    intro s bufs dflt hI hd hf
    rcases hr : read s (bufs.headD dflt) with ⟨s', d, e⟩
    cases e with
    | some e =>
      have h := hsome s _ s' d e hI hr
      simp only [drain, hr]
      exact ⟨h.2.symm, h.1⟩
    | none =>
      have h := hnone s _ s' d hI hr
      obtain ⟨hI', hspec, hle, hlt⟩ := h
      have hf' : μ s' + bufs.tail.length < f := by
        cases bufs with
        | nil =>
          have := hlt (by simpa using hd)
          simp at hf ⊢; omega
        | cons b bs => simp at hf ⊢; omega
      have ih' := ih s' bufs.tail dflt hI' hd hf'
      simp only [drain, hr]
      rcases hd' : drain read f s' bufs.tail dflt with ⟨s'', ds, e'⟩
      rw [hd'] at ih'
      simp only at ih' ⊢
      refine ⟨?_, ih'.2⟩
      rw [hspec, ← ih'.1]

/-! ### scripted source -/

/-- the fields of a source a read never changes -/
def Src.sameMeta (s s' : Src) : Prop :=
  s'.withData = s.withData ∧ s'.term = s.term ∧ s'.closable = s.closable ∧ s'.closes = s.closes

theorem Src.deliver_none {s s' : Src} {k : Nat} {d : Bytes} (h : s.deliver k = (s', d, none)) :
    s.rest = d ++ s'.rest ∧ s.sameMeta s' ∧ s'.script = s.script ∧ d.length ≤ k ∧
      s'.rest.length ≤ s.rest.length ∧ (0 < k → s'.rest.length < s.rest.length) := by
  unfold Src.deliver at h
  split at h
  · cases h; simp [Src.sameMeta]; omega
  · split at h
    · cases h
    · rename_i hk hr
      simp only [Prod.mk.injEq] at h
      obtain ⟨h1, h2, _⟩ := h
      subst h1 h2
      have : 0 < s.rest.length := List.length_pos_iff.mpr hr
      simp [Src.sameMeta, List.length_take]
      omega

theorem Src.deliver_some {s s' : Src} {k : Nat} {d : Bytes} {e : Err}
    (h : s.deliver k = (s', d, some e)) :
    e = s.term ∧ d = s.rest ∧ s'.rest = [] ∧ s.sameMeta s' ∧ s'.script = s.script ∧ d.length ≤ k := by
  unfold Src.deliver at h
  split at h
  · cases h
  · split at h
    · rename_i hr
      cases h; simp [Src.sameMeta, hr]
    · simp only [Prod.mk.injEq] at h
      obtain ⟨h1, h2, h3⟩ := h
      subst h1 h2
      split at h3
      · rename_i hc
        simp only [Option.some.injEq] at h3
        have hlen : s.rest.length ≤ k := List.drop_eq_nil_iff.mp hc.1
        simp [Src.sameMeta, h3, hc.1, List.take_of_length_le hlen]
        exact hlen
      · cases h3

theorem Src.read_none {s s' : Src} {m : Nat} {d : Bytes} (hc : s.closes = 0)
    (h : s.read m = (s', d, none)) :
    s.rest = d ++ s'.rest ∧ s.sameMeta s' ∧ d.length ≤ m ∧ s'.size ≤ s.size ∧
      (0 < m → s'.size < s.size) := by
  unfold Src.read at h
  simp only [hc, Nat.lt_irrefl, ↓reduceIte] at h
  split at h
  · rename_i hs
    have := Src.deliver_none h
    simp only [Src.size, this.2.2.1, hs]
    refine ⟨this.1, this.2.1, this.2.2.2.1, by omega, fun hm => ?_⟩
    have := this.2.2.2.2.2 hm; omega
  · rename_i c sc hs
    have := Src.deliver_none h
    simp only [Src.size, hs] at this ⊢
    refine ⟨this.1, by simpa [Src.sameMeta, hc] using this.2.1, by have := this.2.2.2.1; omega, ?_, fun _ => ?_⟩
    · rw [this.2.2.1]; simp; omega
    · rw [this.2.2.1]; simp; omega

theorem Src.read_some {s s' : Src} {m : Nat} {d : Bytes} {e : Err} (hc : s.closes = 0)
    (h : s.read m = (s', d, some e)) :
    e = s.term ∧ d = s.rest ∧ s'.rest = [] ∧ s.sameMeta s' ∧ d.length ≤ m := by
  unfold Src.read at h
  simp only [hc, Nat.lt_irrefl, ↓reduceIte] at h
  split at h
  · have := Src.deliver_some h
    exact ⟨this.1, this.2.1, this.2.2.1, this.2.2.2.1, this.2.2.2.2.2⟩
  · have := Src.deliver_some h
    simp only at this
    exact ⟨this.1, this.2.1, this.2.2.1, by simpa [Src.sameMeta, hc] using this.2.2.2.1,
      by have := this.2.2.2.2.2; omega⟩

theorem Src.deliver_none_wd {s s' : Src} {k : Nat} {d : Bytes} (h : s.deliver k = (s', d, none))
    (hd : d ≠ []) (hr : s'.rest = []) : s.withData = false := by
  unfold Src.deliver at h
  split at h
  · cases h; exact absurd rfl hd
  · split at h
    · cases h
    · simp only [Prod.mk.injEq] at h
      obtain ⟨h1, _, h3⟩ := h
      subst h1
      simp only at hr
      split at h3
      · cases h3
      · rename_i hc
        cases hw : s.withData with
        | false => rfl
        | true => exact absurd ⟨hr, hw⟩ hc

theorem Src.deliver_some_wd {s s' : Src} {k : Nat} {d : Bytes} {e : Err}
    (h : s.deliver k = (s', d, some e)) (hd : d ≠ []) : s.withData = true := by
  unfold Src.deliver at h
  split at h
  · cases h
  · split at h
    · cases h; exact absurd rfl hd
    · simp only [Prod.mk.injEq] at h
      obtain ⟨_, _, h3⟩ := h
      split at h3
      · rename_i hc; exact hc.2
      · cases h3

theorem Src.read_none_wd {s s' : Src} {m : Nat} {d : Bytes} (hc : s.closes = 0)
    (h : s.read m = (s', d, none)) (hd : d ≠ []) (hr : s'.rest = []) : s.withData = false := by
  unfold Src.read at h
  simp only [hc, Nat.lt_irrefl, ↓reduceIte] at h
  split at h
  · exact Src.deliver_none_wd h hd hr
  · simpa using Src.deliver_none_wd h hd hr

theorem Src.read_some_wd {s s' : Src} {m : Nat} {d : Bytes} {e : Err} (hc : s.closes = 0)
    (h : s.read m = (s', d, some e)) (hd : d ≠ []) : s.withData = true := by
  unfold Src.read at h
  simp only [hc, Nat.lt_irrefl, ↓reduceIte] at h
  split at h
  · exact Src.deliver_some_wd h hd
  · simpa using Src.deliver_some_wd h hd

/-! ### LimitReadCloser -/

/-- What a consumer of a limit reader will still receive. -/
def Limit.spec (l : Limit) : Bytes × Err :=
  if l.n < 0 then ([], .tooLarge)
  else if (l.src.rest.length : Int) ≤ l.n then (l.src.rest, l.src.term)
  else (l.src.rest.take l.n.toNat,
        if (l.src.rest.length : Int) = l.n + 1 ∧ l.src.withData = true ∧ l.src.term ≠ .eof
        then l.src.term else .tooLarge)

/-- `big` is the ghost fact "the source holds more than N bytes"; it is invariant. -/
def Limit.Inv (big : Prop) (l : Limit) : Prop :=
  l.src.closes = (if l.closed then 1 else 0) ∧ (l.closed = true ↔ l.n < 0) ∧
    (big ↔ l.n < (l.src.rest.length : Int))

def Limit.Fin (big : Prop) (l : Limit) (_ : Err) : Prop :=
  l.src.closes = (if l.closed then 1 else 0) ∧ (l.closed = true ↔ big)

theorem clip_fixed {n : Int} (hn : 0 ≤ n) (m : Nat) :
    clip .fixed n m = some (min m (n.toNat + 1)) := by
  unfold clip
  simp only
  split
  · congr 1; omega
  · congr 1; omega

theorem tooLargeErr_fixed (e : Option Err) :
    tooLargeErr .fixed e = some (match e with
      | none => .tooLarge | some .eof => .tooLarge | some e => e) := by
  cases e with
  | none => rfl
  | some e => cases e <;> rfl

/-- One `Read` of the repaired code in the only interesting situation. -/
theorem Limit.read_fixed_open {l : Limit} {m : Nat} (hn : 0 ≤ l.n) (hc : l.closed = false)
    (hm : 0 < m) :
    Limit.read .fixed l m =
      match l.src.read (min m (l.n.toNat + 1)) with
      | (s', d, e) =>
        if l.n - (d.length : Int) < 0 then
          ({ src := s'.close, n := l.n - (d.length : Int), closed := true },
            (if l.n - (d.length : Int) = -1 then d.dropLast else d), tooLargeErr .fixed e)
        else ({ l with src := s', n := l.n - (d.length : Int) }, d, e) := by
  unfold Limit.read
  have h1 : ¬ l.n < 0 := by omega
  have h2 : ¬ m = 0 := by omega
  simp only [h1, h2, hc, ↓reduceIte, clip_fixed hn, Bool.false_eq_true]

theorem Limit.step_none {big : Prop} {l l' : Limit} {m : Nat} {d : Bytes}
    (hI : Limit.Inv big l) (h : Limit.read .fixed l m = (l', d, none)) :
    Limit.Inv big l' ∧ Limit.spec l = (d ++ (Limit.spec l').1, (Limit.spec l').2) ∧
      l'.src.size ≤ l.src.size ∧ (0 < m → l'.src.size < l.src.size) := by
  obtain ⟨hcl, hcn, hbig⟩ := hI
  by_cases hn : l.n < 0
  · simp [Limit.read, hn] at h
  by_cases hm : m = 0
  · simp only [Limit.read, hn, hm, ↓reduceIte, Prod.mk.injEq] at h
    obtain ⟨rfl, rfl, _⟩ := h
    exact ⟨⟨hcl, hcn, hbig⟩, by simp, Nat.le_refl _, fun h => absurd h (by omega)⟩
  have hopen : l.closed = false := by
    cases hc : l.closed with
    | false => rfl
    | true => exact absurd (hcn.mp hc) hn
  have hc0 : l.src.closes = 0 := by simpa [hopen] using hcl
  rw [Limit.read_fixed_open (by omega) hopen (by omega)] at h
  rcases hr : l.src.read (min m (l.n.toNat + 1)) with ⟨s', d0, e⟩
  rw [hr] at h
  simp only at h
  split at h
  · simp [tooLargeErr_fixed] at h
  · rename_i hn'
    simp only [Prod.mk.injEq] at h
    obtain ⟨rfl, rfl, rfl⟩ := h
    obtain ⟨hrest, hmeta, hlen, hsz, hszlt⟩ := Src.read_none hc0 hr
    obtain ⟨hwd, hterm, _, hcls⟩ := hmeta
    have hlen' : (l.src.rest.length : Int) = d0.length + s'.rest.length := by
      rw [hrest]; simp
    refine ⟨⟨?_, ?_, ?_⟩, ?_, hsz, fun _ => hszlt (by omega)⟩
    · simp [hopen, hcls, hc0]
    · simp [hopen]; omega
    · simp only; rw [hbig]; omega
    · unfold Limit.spec
      simp only [hn, ↓reduceIte, hn', hwd, hterm]
      by_cases hle : (l.src.rest.length : Int) ≤ l.n
      · have : (s'.rest.length : Int) ≤ l.n - d0.length := by omega
        simp only [hle, this, ↓reduceIte]
        rw [← hrest]
      · have : ¬ (s'.rest.length : Int) ≤ l.n - d0.length := by omega
        simp only [hle, this, ↓reduceIte]
        have hd : d0.length ≤ l.n.toNat := by omega
        have e1 : List.take l.n.toNat l.src.rest = d0 ++ List.take (l.n - d0.length).toNat s'.rest := by
          rw [hrest, List.take_append]
          rw [List.take_of_length_le hd]
          congr 2; omega
        have e2 : ((l.src.rest.length : Int) = l.n + 1) ↔ ((s'.rest.length : Int) = l.n - d0.length + 1) := by
          omega
        simp only [e1, e2]

theorem Limit.step_some {big : Prop} {l l' : Limit} {m : Nat} {d : Bytes} {e : Err}
    (hI : Limit.Inv big l) (h : Limit.read .fixed l m = (l', d, some e)) :
    Limit.Fin big l' e ∧ Limit.spec l = (d, e) := by
  obtain ⟨hcl, hcn, hbig⟩ := hI
  by_cases hn : l.n < 0
  · simp only [Limit.read, hn, ↓reduceIte, Prod.mk.injEq, Option.some.injEq] at h
    obtain ⟨rfl, rfl, rfl⟩ := h
    refine ⟨⟨hcl, ?_⟩, by simp [Limit.spec, hn]⟩
    rw [hcn, hbig]; constructor <;> intro <;> omega
  by_cases hm : m = 0
  · simp [Limit.read, hn, hm] at h
  have hopen : l.closed = false := by
    cases hc : l.closed with
    | false => rfl
    | true => exact absurd (hcn.mp hc) hn
  have hc0 : l.src.closes = 0 := by simpa [hopen] using hcl
  rw [Limit.read_fixed_open (by omega) hopen (by omega)] at h
  rcases hr : l.src.read (min m (l.n.toNat + 1)) with ⟨s', d0, e0⟩
  rw [hr] at h
  simp only at h
  split at h
  · -- the look-ahead byte was read: too large
    rename_i hn'
    simp only [Prod.mk.injEq] at h
    obtain ⟨rfl, rfl, he⟩ := h
    cases e0 with
    | none =>
      obtain ⟨hrest, hmeta, hlen, _, _⟩ := Src.read_none hc0 hr
      obtain ⟨hwd, hterm, _, hcls⟩ := hmeta
      have hd0 : (d0.length : Int) = l.n + 1 := by omega
      have hlen' : (l.src.rest.length : Int) = d0.length + s'.rest.length := by rw [hrest]; simp
      simp only [tooLargeErr_fixed, Option.some.injEq] at he
      subst he
      refine ⟨⟨by simp [Src.close, hcls, hc0], ?_⟩, ?_⟩
      · simp only [true_iff]; rw [hbig]; omega
      · unfold Limit.spec
        have : ¬ (l.src.rest.length : Int) ≤ l.n := by omega
        simp only [hn, ↓reduceIte, this]
        have hm1 : l.n - (d0.length : Int) = -1 := by omega
        simp only [hm1, ↓reduceIte, Prod.mk.injEq]
        constructor
        · rw [hrest, List.take_append, List.dropLast_eq_take]
          have : l.n.toNat - d0.length = 0 := by omega
          simp [this]; congr 1; omega
        · -- the terminal has not been returned yet: either more bytes remain or it comes alone
          have hd0ne : d0 ≠ [] := by intro h0; rw [h0] at hd0; simp at hd0; omega
          have hwd0 := Src.read_none_wd hc0 hr hd0ne
          by_cases hlast : (l.src.rest.length : Int) = l.n + 1
          · have : s'.rest = [] := List.eq_nil_of_length_eq_zero (by omega)
            simp [hwd0 this]
          · simp [hlast]
    | some e0 =>
      obtain ⟨he0, hd0, hrest', hmeta, hlen⟩ := Src.read_some hc0 hr
      obtain ⟨hwd, hterm, _, hcls⟩ := hmeta
      have hdl : (d0.length : Int) = l.n + 1 := by omega
      have hd0ne : d0 ≠ [] := by intro h0; rw [h0] at hdl; simp at hdl; omega
      have hwd0 := Src.read_some_wd hc0 hr hd0ne
      subst hd0
      refine ⟨⟨by simp [Src.close, hcls, hc0], ?_⟩, ?_⟩
      · simp only [true_iff]; rw [hbig]; omega
      · unfold Limit.spec
        have : ¬ (l.src.rest.length : Int) ≤ l.n := by omega
        simp only [hn, ↓reduceIte, this]
        have hm1 : l.n - (l.src.rest.length : Int) = -1 := by omega
        simp only [Prod.mk.injEq, hdl, hwd0, true_and]
        constructor
        · have : l.n - (l.n + 1) = -1 := by omega
          rw [if_pos this, List.dropLast_eq_take]; congr 1; omega
        · subst he0
          rw [tooLargeErr_fixed] at he
          simp only [Option.some.injEq] at he
          rw [← he]
          cases l.src.term <;> simp
  · -- still within the limit: the source's own terminal
    rename_i hn'
    simp only [Prod.mk.injEq] at h
    obtain ⟨rfl, rfl, rfl⟩ := h
    obtain ⟨he0, hd0, hrest', hmeta, hlen⟩ := Src.read_some hc0 hr
    obtain ⟨hwd, hterm, _, hcls⟩ := hmeta
    subst hd0
    refine ⟨⟨by simp [hopen, hcls, hc0], ?_⟩, ?_⟩
    · simp only [hopen, Bool.false_eq_true, false_iff]; rw [hbig]; omega
    · unfold Limit.spec
      have : (l.src.rest.length : Int) ≤ l.n := by omega
      simp [hn, this, he0]

/-- `Limit.spec` of a fresh reader with a natural-number limit, in natural-number terms. -/
theorem Limit.spec_new (s : Src) (N : Nat) :
    Limit.spec (Limit.new s N) =
      if s.rest.length ≤ N then (s.rest, s.term)
      else (s.rest.take N,
        if s.rest.length = N + 1 ∧ s.withData = true ∧ s.term ≠ .eof then s.term else .tooLarge) := by
  unfold Limit.spec Limit.new
  have h0 : ¬ ((N : Int) < 0) := by omega
  simp only [if_neg h0, Int.toNat_natCast]
  by_cases hle : s.rest.length ≤ N
  · have : (s.rest.length : Int) ≤ (N : Int) := by omega
    simp only [if_pos hle, if_pos this]
  · have : ¬ (s.rest.length : Int) ≤ (N : Int) := by omega
    simp only [if_neg hle, if_neg this]
    have e : ((s.rest.length : Int) = (N : Int) + 1) ↔ (s.rest.length = N + 1) := by omega
    simp only [e]

/-- The consumer loop over the repaired limit reader yields exactly `Limit.spec`, for every
sequence of consumer buffer sizes, and ends in a state where the source has been closed iff the
source was too large. -/
theorem Limit.consume_spec (s : Src) (N : Nat) (bufs : List Nat) (dflt : Nat)
    (hc : s.closes = 0) (hd : 0 < dflt) :
    (Limit.consume .fixed (Limit.new s N) bufs dflt).2 = Limit.spec (Limit.new s N) ∧
      Limit.Fin (N < s.rest.length) (Limit.consume .fixed (Limit.new s N) bufs dflt).1
        (Limit.consume .fixed (Limit.new s N) bufs dflt).2.2 := by
  unfold Limit.consume
  apply drain_spec (Limit.read .fixed) Limit.spec (Limit.Inv (N < s.rest.length))
    (Limit.Fin (N < s.rest.length)) (fun l => l.src.size)
  · intro l m l' d hI h; exact Limit.step_none hI h
  · intro l m l' d e hI h; exact Limit.step_some hI h
  · refine ⟨by simp [Limit.new, hc], by simp [Limit.new], ?_⟩
    simp only [Limit.new]; omega
  · exact hd
  · simp [Limit.fuel, Limit.new]

end Kit.Streams
