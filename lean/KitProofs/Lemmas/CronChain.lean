import KitModel.CronChain
/-! Invariants of the wrapper model `Kit.CronChain` (cron/chain.go). -/
namespace Kit.CronChain

theorem countP_set_of {p : IPc → Bool} {l : List IPc} {i : Nat} {x y : IPc} (h : l[i]? = some y) :
    (l.set i x).countP p = (l.countP p - if p y then 1 else 0) + (if p x then 1 else 0) ∧
    (p y = true → 1 ≤ l.countP p) := by
  have hlt : i < l.length := by
    rcases Nat.lt_or_ge i l.length with h' | h'
    · exact h'
    · rw [List.getElem?_eq_none h'] at h; cases h
  have hy : l[i] = y := by
    rw [List.getElem?_eq_getElem hlt] at h; exact Option.some.inj h
  refine ⟨by rw [List.countP_set hlt, hy], ?_⟩
  intro hp
  exact List.countP_pos_iff.2 ⟨y, hy ▸ List.getElem_mem hlt, hp⟩

structure Inv (s : State) : Prop where
  /-- skip / delay: at most one inner run, and none while the token / the mutex is free -/
  excl : s.kind ≠ .recover → s.invs.countP isRunning + (if s.free then 1 else 0) ≤ 1
  /-- delay: the mutex is held exactly while an inner run is in progress -/
  delay_exact : s.kind = .delay → s.invs.countP isRunning + (if s.free then 1 else 0) = 1
  /-- every skipped invocation is logged, nothing else is -/
  skips : s.skipLogs = s.invs.countP (· == IPc.skipped)
  /-- only skip turns invocations away -/
  noskip : s.kind ≠ .skip → s.invs.countP (· == IPc.skipped) = 0
  /-- recover never lets a panic out -/
  nopanic : s.kind = .recover → s.invs.countP (· == IPc.panicked) = 0
  /-- skip loses its token only by a panic of the inner job -/
  token : s.kind = .skip → s.free = false →
    s.invs.countP isRunning = 1 ∨ 0 < s.invs.countP (· == IPc.panicked)

theorem inv_init (k : Kind) (t0 : Nat) : Inv (init k t0) := by
  constructor <;> simp [init]

theorem inv_step {s s' : State} {l : Label} (hI : Inv s) (h : step s l = some s') : Inv s' := by
  obtain ⟨h1, h2, h3, h4, h5, h6⟩ := hI
  cases l with
  | call =>
    simp only [step, Option.some.injEq] at h
    subst h
    constructor <;> simp_all [List.countP_append, isRunning]
  | advance t =>
    simp only [step] at h
    split at h
    · cases h
    · cases h
      exact ⟨h1, h2, h3, h4, h5, h6⟩
  | enter i =>
    simp only [step] at h
    split at h
    · rename_i t hi
      have cR := countP_set_of (p := isRunning) (x := IPc.running s.begins) hi
      have cRs := countP_set_of (p := isRunning) (x := IPc.skipped) hi
      have cS := countP_set_of (p := (· == IPc.skipped)) (x := IPc.running s.begins) hi
      have cSs := countP_set_of (p := (· == IPc.skipped)) (x := IPc.skipped) hi
      have cP := countP_set_of (p := (· == IPc.panicked)) (x := IPc.running s.begins) hi
      have cPs := countP_set_of (p := (· == IPc.panicked)) (x := IPc.skipped) hi
      simp only [isRunning, Bool.false_eq_true, if_false, if_true, Nat.sub_zero, Nat.add_zero,
        beq_self_eq_true] at cR cRs cS cSs cP cPs
      have e1 : (IPc.called t == IPc.skipped) = false := by simp
      have e2 : (IPc.running s.begins == IPc.skipped) = false := by simp
      have e3 : (IPc.called t == IPc.panicked) = false := by simp
      have e4 : (IPc.running s.begins == IPc.panicked) = false := by simp
      have e5 : (IPc.skipped == IPc.panicked) = false := by simp
      simp only [e1, e2, e3, e4, e5, Bool.false_eq_true, if_false, Nat.sub_zero, Nat.add_zero] at cS cSs cP cPs
      cases hk : s.kind with
      | skip =>
        simp only [hk] at h
        split at h
        · rename_i hf
          cases h
          have hex := h1 (by simp [hk])
          simp only [hf, if_true] at hex
          have cR1 := cR.1
          refine ⟨?_, by simp [hk], ?_, by simp [hk], by simp [hk], ?_⟩
          · intro _; simp only [Bool.false_eq_true, if_false]; omega
          · simp only; rw [cS.1]; exact h3
          · intro _ _; left; simp only; omega
        · rename_i hf
          cases h
          have hf' : s.free = false := by simpa using hf
          refine ⟨?_, by simp [hk], ?_, by simp [hk], by simp [hk], ?_⟩
          · intro hk'; simp only; rw [cRs.1]; exact h1 (by simp [hk])
          · simp only; rw [cSs.1]; omega
          · intro _ _
            simp only
            rw [cRs.1, cPs.1]
            exact h6 hk hf'
      | delay =>
        simp only [hk] at h
        split at h
        · rename_i hf
          cases h
          have := h2 hk
          simp only [hf, if_true] at this
          have cR1 := cR.1
          refine ⟨?_, ?_, ?_, ?_, by simp [hk], by simp [hk]⟩
          · intro _; simp only [Bool.false_eq_true, if_false]; omega
          · intro _; simp only [Bool.false_eq_true, if_false]; omega
          · simp only; rw [cS.1]; exact h3
          · intro _; simp only; rw [cS.1]; exact h4 (by simp [hk])
        · cases h
      | recover =>
        simp only [hk] at h
        cases h
        refine ⟨by simp [hk], by simp [hk], ?_, ?_, ?_, by simp [hk]⟩
        · simp only; rw [cS.1]; exact h3
        · intro _; simp only; rw [cS.1]; exact h4 (by simp [hk])
        · intro _; simp only; rw [cP.1]; exact h5 hk
    · cases h
  | finish i p =>
    simp only [step] at h
    split at h
    · rename_i b hi
      have cRr := countP_set_of (p := isRunning) (x := IPc.returned) hi
      have cRp := countP_set_of (p := isRunning) (x := IPc.panicked) hi
      have cSr := countP_set_of (p := (· == IPc.skipped)) (x := IPc.returned) hi
      have cSp := countP_set_of (p := (· == IPc.skipped)) (x := IPc.panicked) hi
      have cPr := countP_set_of (p := (· == IPc.panicked)) (x := IPc.returned) hi
      have cPp := countP_set_of (p := (· == IPc.panicked)) (x := IPc.panicked) hi
      have e1 : (IPc.running b == IPc.skipped) = false := by simp
      have e2 : (IPc.returned == IPc.skipped) = false := by simp
      have e3 : (IPc.panicked == IPc.skipped) = false := by simp
      have e4 : (IPc.running b == IPc.panicked) = false := by simp
      have e5 : (IPc.returned == IPc.panicked) = false := by simp
      simp only [isRunning, e1, e2, e3, e4, e5, Bool.false_eq_true, if_false, if_true, Nat.sub_zero,
        Nat.add_zero, beq_self_eq_true] at cRr cRp cSr cSp cPr cPp
      have hge := cRr.2 trivial
      cases hk : s.kind with
      | skip =>
        simp only [hk] at h
        have hexcl := h1 (by simp [hk])
        have hfree : s.free = false := by
          cases hf : s.free with
          | false => rfl
          | true => simp only [hf, if_true] at hexcl; omega
        simp only [hfree, Bool.false_eq_true, if_false] at hexcl
        split at h
        · cases h
          refine ⟨?_, by simp [hk], ?_, by simp [hk], by simp [hk], ?_⟩
          · intro _
            simp only [Kit.Generated.C05.skipTokenDeferred, hfree, Bool.false_eq_true, if_false]
            rw [cRp.1]; omega
          · simp only; rw [cSp.1]; exact h3
          · intro _ _; right; simp only; rw [cPp.1]; omega
        · cases h
          refine ⟨?_, by simp [hk], ?_, by simp [hk], by simp [hk], ?_⟩
          · intro _; simp only [if_true]; rw [cRr.1]; omega
          · simp only; rw [cSr.1]; exact h3
          · intro _ hf; simp at hf
      | delay =>
        simp only [hk] at h
        cases h
        have hex := h2 hk
        have hfree : s.free = false := by
          cases hf : s.free with
          | false => rfl
          | true => simp only [hf, if_true] at hex; omega
        simp only [hfree, Bool.false_eq_true, if_false] at hex
        have hcount : ∀ x, isRunning x = false →
            (s.invs.set i x).countP isRunning = s.invs.countP isRunning - 1 := by
          intro x hx
          have := (countP_set_of (p := isRunning) (x := x) hi).1
          rw [this, hx]; simp [isRunning]
        have hsk : ∀ x, (x == IPc.skipped) = false →
            (s.invs.set i x).countP (· == IPc.skipped) = s.invs.countP (· == IPc.skipped) := by
          intro x hx
          have := (countP_set_of (p := (· == IPc.skipped)) (x := x) hi).1
          rw [this]; simp [hx]
        have hx1 : isRunning (if p = true then IPc.panicked else IPc.returned) = false := by
          cases p <;> rfl
        have hx2 : ((if p = true then IPc.panicked else IPc.returned) == IPc.skipped) = false := by
          cases p <;> decide
        refine ⟨?_, ?_, ?_, ?_, by simp [hk], by simp [hk]⟩
        · intro _
          simp only [Kit.Generated.C05.delayUnlockDeferred, Bool.not_true, Bool.and_false,
            Bool.false_eq_true, if_false, if_true]
          rw [hcount _ hx1]; omega
        · intro _
          simp only [Kit.Generated.C05.delayUnlockDeferred, Bool.not_true, Bool.and_false,
            Bool.false_eq_true, if_false, if_true]
          rw [hcount _ hx1]; omega
        · simp only; rw [hsk _ hx2]; exact h3
        · intro _; simp only; rw [hsk _ hx2]; exact h4 (by simp [hk])
      | recover =>
        simp only [hk] at h
        cases h
        refine ⟨by simp [hk], by simp [hk], ?_, ?_, ?_, by simp [hk]⟩
        · simp only; rw [cSr.1]; exact h3
        · intro _; simp only; rw [cSr.1]; exact h4 (by simp [hk])
        · intro _; simp only; rw [cPr.1]; exact h5 hk
    · cases h

theorem reach_inv {s : State} (hr : Reach s) : Inv s := by
  induction hr with
  | init k t0 => exact inv_init k t0
  | step l _ h ih => exact inv_step ih h

theorem kind_step {s s' : State} {l : Label} (h : step s l = some s') : s'.kind = s.kind := by
  cases l with
  | call => simp only [step, Option.some.injEq] at h; subst h; rfl
  | advance t =>
    simp only [step] at h
    split at h <;> cases h
    rfl
  | enter i =>
    simp only [step] at h
    split at h
    · cases hk : s.kind <;> simp only [hk] at h
      · split at h <;> cases h <;> exact hk.symm ▸ rfl
      · split at h <;> cases h
        exact hk.symm ▸ rfl
      · cases h; exact hk.symm ▸ rfl
    · cases h
  | finish i p =>
    simp only [step] at h
    split at h
    · cases hk : s.kind <;> simp only [hk] at h
      · split at h <;> cases h <;> exact hk.symm ▸ rfl
      · cases h; exact hk.symm ▸ rfl
      · cases h; exact hk.symm ▸ rfl
    · cases h

end Kit.CronChain
