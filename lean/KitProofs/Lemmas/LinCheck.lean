import KitProofs.Lemmas.Containers
/-! Soundness of the executable linearizability checker `linCheck` (C14): whenever it answers
`true`, the history is the history of a run of the atomic object of the specification. -/
namespace Kit.Containers

variable {σ ι ρ : Type}

theorem lookupT_setT {β : Type} (l : List (Nat × β)) (t : Nat) (x : β) (u : Nat) :
    lookupT (setT l t x) u = if u = t then (lookupT l t).map (fun _ => x) else lookupT l u := by
  induction l with
  | nil => simp [setT, lookupT]
  | cons e r ih =>
    obtain ⟨k, y⟩ := e
    by_cases hk : k = t
    · subst hk
      by_cases hu : u = k
      · subst hu; simp [setT, lookupT]
      · have : ¬ k = u := fun e => hu e.symm
        simp [setT, lookupT, hu, this]
    · by_cases hu : u = t
      · subst hu
        have := ih
        simp [setT, lookupT, hk] at this ⊢
        exact this
      · by_cases hku : k = u
        · simp [setT, lookupT, hku, hu]
        · simp [setT, lookupT, hk, hku, hu, ih]

theorem lookupT_append_single {β : Type} (l : List (Nat × β)) (t : Nat) (x : β) (u : Nat)
    (h : lookupT l t = none) : lookupT (l ++ [(t, x)]) u = if u = t then some x else lookupT l u := by
  induction l with
  | nil =>
    by_cases hu : u = t
    · simp [lookupT, hu]
    · have : ¬ t = u := fun e => hu e.symm
      simp [lookupT, hu, this]
  | cons e r ih =>
    obtain ⟨k, y⟩ := e
    by_cases hk : k = t
    · simp [lookupT, hk] at h
    · simp only [lookupT, hk, if_false] at h
      by_cases hku : k = u
      · have : ¬ u = t := fun e => hk (hku.trans e)
        simp [lookupT, hku, this]
      · simp [lookupT, hku, ih h]

theorem lookupT_filter {β : Type} (l : List (Nat × β)) (t u : Nat) :
    lookupT (l.filter (fun e => e.1 != t)) u = if u = t then none else lookupT l u := by
  induction l with
  | nil => simp [lookupT]
  | cons e r ih =>
    obtain ⟨k, y⟩ := e
    by_cases hk : k = t
    · have hkt : (k != t) = false := by simp [hk]
      rw [List.filter_cons]
      simp only [hkt, Bool.false_eq_true, if_false]
      rw [ih]
      by_cases hu : u = t
      · simp [hu]
      · have : ¬ k = u := fun e => hu (e.symm.trans hk)
        simp [hu, lookupT, this]
    · have hkt : (k != t) = true := by simp [hk]
      rw [List.filter_cons]
      simp only [hkt, if_true]
      by_cases hku : k = u
      · have : ¬ u = t := fun e => hk (hku.trans e)
        simp [lookupT, hku, this]
      · simp [lookupT, hku, ih]

theorem mem_dedupe {β : Type} [DecidableEq β] {l : List β} {x : β} (h : x ∈ dedupe l) : x ∈ l := by
  induction l with
  | nil => exact h
  | cons a r ih =>
    simp only [dedupe] at h
    split at h
    · exact List.mem_cons_of_mem _ (ih h)
    · rcases List.mem_cons.mp h with rfl | h
      · simp
      · exact List.mem_cons_of_mem _ (ih h)

def absStatC : Option (CStat ι ρ) → SStat ι ρ
  | none => .idle
  | some (.pend i _) => .pend i
  | some (.done r) => .done r

/-- the configuration of the atomic object a checker configuration stands for -/
def absC (c : CCfg σ ι ρ) : SCfg σ ι ρ :=
  { st := c.st, thr := fun t => absStatC (lookupT c.thr t) }

section
variable [DecidableEq σ] [DecidableEq ι] [DecidableEq ρ]

omit [DecidableEq σ] [DecidableEq ι] [DecidableEq ρ] in
theorem linSucc_sound (S : Spec σ ι ρ) {c c' : CCfg σ ι ρ} (h : c' ∈ linSucc S c) :
    ∃ t i r, S.Step (absC c) (.lin t i r) (absC c') := by
  obtain ⟨e, _, he⟩ := List.mem_filterMap.mp h
  split at he
  · next i r hl =>
    split at he
    · next s' hx =>
      cases he
      refine ⟨e.1, i, r, ?_⟩
      have := @Spec.Step.lin σ ι ρ S (absC c) e.1 i r s' (by simp [absC, hl, absStatC]) (by simpa [absC] using hx)
      suffices heq : absC ({ st := s', thr := setT c.thr e.1 (CStat.done r) } : CCfg σ ι ρ) =
          { st := s', thr := upd (absC c).thr e.1 (SStat.done r) } by rw [heq]; exact this
      simp only [absC, SCfg.mk.injEq, true_and]
      funext u
      rw [lookupT_setT]
      by_cases hu : u = e.1
      · simp [hu, upd, hl, absStatC]
      · simp [hu, upd]
    · cases he
  · cases he

theorem linClose_sound (S : Spec σ ι ρ) (f : Nat) (cs : List (CCfg σ ι ρ)) {c' : CCfg σ ι ρ}
    (h : c' ∈ linClose S f cs) :
    ∃ c ∈ cs, ∃ tr, Run S.Step (absC c) tr (absC c') ∧ tr.filterMap SLabel.hist = [] := by
  induction f generalizing cs with
  | zero => exact ⟨c', h, [], Run.nil _, rfl⟩
  | succ f ih =>
    obtain ⟨c1, hc1, tr, hr, ht⟩ := ih _ h
    rcases List.mem_append.mp (mem_dedupe hc1) with h1 | h1
    · exact ⟨c1, h1, tr, hr, ht⟩
    · obtain ⟨c, hc, hs⟩ := List.mem_flatMap.mp h1
      obtain ⟨t, i, r, hstep⟩ := linSucc_sound S hs
      exact ⟨c, hc, .lin t i r :: tr, Run.cons hstep hr, by simpa [SLabel.hist] using ht⟩

theorem linEvent0_sound (S : Spec σ ι ρ) (cs : List (CCfg σ ι ρ)) (ev : HEv ι ρ) {c' : CCfg σ ι ρ}
    (h : c' ∈ linEvent0 cs ev) :
    ∃ c ∈ cs, S.Step (absC c) (match ev with | .inv t i _ => .inv t i | .ret t r => .ret t r) (absC c') := by
  cases ev with
  | inv t i r =>
    simp only [linEvent0] at h
    obtain ⟨c, hc, he⟩ := List.mem_filterMap.mp h
    split at he
    · cases he
    · next hl =>
      cases he
      refine ⟨c, hc, ?_⟩
      have := @Spec.Step.inv σ ι ρ S (absC c) t i (by simp [absC, hl, absStatC])
      suffices heq : absC ({ c with thr := c.thr ++ [(t, CStat.pend i r)] } : CCfg σ ι ρ) =
          { absC c with thr := upd (absC c).thr t (SStat.pend i) } by rw [heq]; exact this
      simp only [absC, SCfg.mk.injEq, true_and]
      funext u
      rw [lookupT_append_single _ _ _ _ hl]
      by_cases hu : u = t
      · simp [hu, upd, absStatC]
      · simp [hu, upd]
  | ret t r =>
    simp only [linEvent0] at h
    obtain ⟨c, hc, he⟩ := List.mem_filterMap.mp h
    split at he
    · next r' hl =>
      split at he
      · next hrr =>
        cases he
        subst hrr
        refine ⟨c, hc, ?_⟩
        have := @Spec.Step.ret σ ι ρ S (absC c) t r' (by simp [absC, hl, absStatC])
        suffices heq : absC ({ c with thr := c.thr.filter (fun e => e.1 != t) } : CCfg σ ι ρ) =
            { absC c with thr := upd (absC c).thr t SStat.idle } by rw [heq]; exact this
        simp only [absC, SCfg.mk.injEq, true_and]
        funext u
        rw [lookupT_filter]
        by_cases hu : u = t
        · simp [hu, upd, absStatC]
        · simp [hu, upd]
      · cases he
    · cases he

theorem linEvent_sound (S : Spec σ ι ρ) (cs : List (CCfg σ ι ρ)) (ev : HEv ι ρ) {c' : CCfg σ ι ρ}
    (h : c' ∈ linEvent S cs ev) :
    ∃ c ∈ cs, ∃ tr, Run S.Step (absC c) tr (absC c') ∧ tr.filterMap SLabel.hist = [ev.toEv] := by
  simp only [linEvent] at h
  obtain ⟨c1, hc1, tr, hr, ht⟩ := linClose_sound S _ _ h
  obtain ⟨c, hc, hstep⟩ := linEvent0_sound S cs ev hc1
  refine ⟨c, hc, _ :: tr, Run.cons hstep hr, ?_⟩
  cases ev <;> simp [SLabel.hist, ht, HEv.toEv]

theorem foldl_linEvent_sound (S : Spec σ ι ρ) (h : List (HEv ι ρ)) (cs : List (CCfg σ ι ρ))
    (pre : List (Ev ι ρ))
    (hcs : ∀ c ∈ cs, ∃ tr, Run S.Step S.cfg0 tr (absC c) ∧ tr.filterMap SLabel.hist = pre) :
    ∀ c' ∈ h.foldl (linEvent S) cs,
      ∃ tr, Run S.Step S.cfg0 tr (absC c') ∧ tr.filterMap SLabel.hist = pre ++ h.map HEv.toEv := by
  induction h generalizing cs pre with
  | nil => simpa using hcs
  | cons ev rest ih =>
    intro c' hc'
    simp only [List.foldl_cons] at hc'
    have := ih (linEvent S cs ev) (pre ++ [ev.toEv]) ?_ c' hc'
    · simpa using this
    · intro c1 hc1
      obtain ⟨c, hc, tr1, hr1, ht1⟩ := linEvent_sound S cs ev hc1
      obtain ⟨tr0, hr0, ht0⟩ := hcs c hc
      exact ⟨tr0 ++ tr1, Run.append hr0 hr1, by simp [List.filterMap_append, ht0, ht1]⟩

/-- **Soundness of the checker.** -/
theorem linCheck_sound (S : Spec σ ι ρ) (h : List (HEv ι ρ)) (hc : linCheck S h = true) :
    Linearizable S (h.map HEv.toEv) := by
  unfold linCheck at hc
  cases hf : h.foldl (linEvent S) [{ st := S.init, thr := [] }] with
  | nil => rw [hf] at hc; simp at hc
  | cons c' rest =>
    have hmem : c' ∈ h.foldl (linEvent S) [{ st := S.init, thr := [] }] := by rw [hf]; simp
    have := foldl_linEvent_sound S h [{ st := S.init, thr := [] }] [] (by
      intro c hc
      simp at hc; subst hc
      refine ⟨[], ?_, rfl⟩
      have : absC ({ st := S.init, thr := [] } : CCfg σ ι ρ) = S.cfg0 := by
        simp [absC, Spec.cfg0, lookupT, absStatC]
      rw [this]; exact Run.nil _) c' hmem
    obtain ⟨tr, hr, ht⟩ := this
    exact ⟨tr, _, hr, by simpa using ht⟩

end

end Kit.Containers
