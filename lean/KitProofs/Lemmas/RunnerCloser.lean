import KitProofs.Lemmas.Runner
/-!
Helper lemmas for C12: inductive invariants of the `RCM` transition system
(`concurrency.RunnerCloserManager`), in three groups: life cycle (`InvA`), closers (`InvB`),
fatal-shutdown timer (`InvC`).
-/
namespace Kit.Runner

/-- The inner manager performs an `RM` step or does not move, whatever the closer manager does. -/
theorem RCM.inner_step (cfg : Cfg) {s s' : RCM} (a : Label) (hs : s.step cfg a = some s')
    (hlow : s.opc.rank < 3 → s.inner.running = false)
    (hrun : s.running = false → s.opc = .idle) :
    s'.inner = s.inner ∨ ∃ b, s.inner.step b = some s'.inner := by
  cases a with
  | inner b =>
    right; refine ⟨b, ?_⟩
    simp only [RCM.step] at hs
    split at hs
    · cases hb : s.inner.step b with
      | none => simp [hb] at hs
      | some r => simp [hb] at hs; subst hs; rfl
    · simp at hs
  | add k ok =>
    cases ok with
    | false => left; grind [RCM.step]
    | true =>
      right; refine ⟨.add k true, ?_⟩
      simp only [RCM.step] at hs
      grind [RM.step, OPc.rank]
  | prepare =>
    by_cases hl : s.inner.pcs.length > 0
    · right; refine ⟨.add 1 true, ?_⟩
      simp only [RCM.step] at hs
      grind [RM.step, OPc.rank, List.replicate]
    · left; grind [RCM.step]
  | launch => right; exact ⟨.runCall, by grind [RCM.step, RM.step]⟩
  | _ => left; grind [RCM.step]

/-- Life cycle of the closer manager and its link to the inner manager. -/
structure RCM.InvA (s : RCM) : Prop where
  inner : RM.Inv s.inner
  run_iff : s.running = true ↔ (s.opc ≠ .idle ∨ s.closeWon = true)
  won : s.closeWon = true → s.opc = .idle ∧ s.stopped = true
  stopped_src : s.stopped = true → (6 ≤ s.opc.rank ∨ s.closeWon = true)
  stopped_fin : 6 ≤ s.opc.rank → s.stopped = true
  inner_low : s.opc.rank < 3 → s.inner.runPc = .idle ∧ s.inner.pend = 0 ∧ s.inner.running = false
  got_inner : 4 ≤ s.opc.rank → s.inner.runPc = .finished ∧ s.rErr = s.inner.errs
  close_idx : ∀ i, s.closeIdx = some i → i < s.inner.pcs.length
  closing_flag : s.closing = true ↔ 5 ≤ s.opc.rank
  lock_iff : s.lock = true ↔ s.opc = .closing
  ret_low : s.opc.rank < 6 → s.retErr = []

theorem RCM.invA_init : RCM.InvA {} := by
  constructor <;> simp [OPc.rank, RM.inv_init]

set_option maxHeartbeats 4000000 in
theorem RCM.invA_step (cfg : Cfg) {s s' : RCM} (a : Label) (h : RCM.InvA s)
    (hs : s.step cfg a = some s') : RCM.InvA s' := by
  have hin : RM.Inv s'.inner ∧ (s.inner.runPc = .finished → s'.inner.runPc = .finished ∧ s'.inner.errs = s.inner.errs)
      ∧ (s.inner.running = true → s'.inner.pcs.length = s.inner.pcs.length) := by
    rcases RCM.inner_step cfg a hs (fun hl => (h.inner_low hl).2.2)
      (fun hr => by have := h.run_iff; grind) with he | ⟨b, hb⟩
    · rw [he]; exact ⟨h.inner, fun hf => ⟨hf, rfl⟩, fun _ => rfl⟩
    · exact ⟨RM.inv_step b h.inner hb, fun hf => by
        have := RM.step_finished b h.inner hb hf; exact ⟨this.1, this.2.1⟩,
        fun hr => RM.step_length b hb hr⟩
  obtain ⟨hin1, hin2, hin3⟩ := hin
  obtain ⟨h0, h1, h2, h3, h4, h5, h6, h7, h8, h9, h10⟩ := h
  have hri := h0.running_iff
  cases a with
  | inner b =>
    simp only [RCM.step] at hs
    split at hs
    · cases hb : s.inner.step b with
      | none => simp [hb] at hs
      | some r =>
        simp [hb] at hs; subst hs
        have hlen : s.inner.running = true → r.pcs.length = s.inner.pcs.length := fun hr => RM.step_length b hb hr
        have hrun := RM.step_running b hb
        refine ⟨hin1, ?_, ?_, ?_, ?_, ?_, ?_, ?_, ?_, ?_, ?_⟩ <;>
          (cases b <;> grind [RM.step, OPc.rank, RCM.innerAllowed])
    · simp at hs
  | _ => refine ⟨hin1, ?_, ?_, ?_, ?_, ?_, ?_, ?_, ?_, ?_, ?_⟩ <;> grind [RCM.step, OPc.rank, Cfg.off]

end Kit.Runner
