import KitProofs.Lemmas.Runner
/-!
Helper lemmas for C12: inductive invariants of the `RCM` transition system
(`concurrency.RunnerCloserManager`), in three groups: life cycle (`InvA`), closers (`InvB`),
fatal-shutdown timer (`InvC`).
-/
namespace Kit.Runner

/-- Registering one more runner on a manager that is not running keeps the `RM` invariant
(this is what `RunnerCloserManager.Run` does with the closeCh runner before the inner `Run`). -/
theorem RM.inv_append_idle {s : RM} (h : RM.Inv s) (hr : s.running = false) :
    RM.Inv { s with pcs := s.pcs ++ [.idle] } := by
  obtain ⟨h1, h2, h3, h4, h5, h6, h7, h8, h9, h10⟩ := h
  constructor <;> grind [RPc.isDelivered, RPc.deliveredReal, RPc.isDone]

/-- The inner manager performs an `RM` step, registers the closeCh runner while not running, or does
not move, whatever the closer manager does. -/
theorem RCM.inner_step (cfg : Cfg) {s s' : RCM} (a : Label) (hs : s.step cfg a = some s')
    (hlow : s.opc.rank < 3 → s.inner.running = false) :
    s'.inner = s.inner ∨ (∃ b, s.inner.step b = some s'.inner) ∨
      (s.inner.running = false ∧ s'.inner = { s.inner with pcs := s.inner.pcs ++ [.idle] }) := by
  cases a with
  | inner b =>
    right; left; refine ⟨b, ?_⟩
    simp only [RCM.step] at hs
    split at hs
    · cases hb : s.inner.step b with
      | none => simp [hb] at hs
      | some r => simp [hb] at hs; subst hs; rfl
    · simp at hs
  | addOuterCheck k =>
    by_cases hr : s.running = true
    · left; grind [RCM.step]
    · right; left; exact ⟨.addCall k, by grind [RCM.step, RM.step]⟩
  | prepare =>
    by_cases hl : Kit.Generated.C12.closeRunnerMinRunners ≤ s.inner.pcs.length
    · right; right
      simp only [RCM.step] at hs
      grind [OPc.rank]
    · left; grind [RCM.step]
  | launch => right; left; exact ⟨.runCall, by grind [RCM.step, RM.step]⟩
  | _ => left; grind [RCM.step]

/-- Life cycle of the closer manager and its link to the inner manager. -/
structure RCM.InvA (s : RCM) : Prop where
  inner : RM.Inv s.inner
  run_iff : s.running = true ↔ (s.opc ≠ .idle ∨ s.closeWon = true)
  won : s.closeWon = true → s.opc = .idle ∧ s.stopped = true
  stopped_src : s.stopped = true → (6 ≤ s.opc.rank ∨ s.closeWon = true)
  stopped_fin : 6 ≤ s.opc.rank → s.stopped = true
  inner_low : s.opc.rank < 3 → s.inner.runPc = .idle ∧ s.inner.pend = 0 ∧ s.inner.running = false
  got_inner : 4 ≤ s.opc.rank → s.inner.runPc = .finished ∧ s.rErr = s.inner.errs
  close_idx : ∀ i, s.closeIdx = some i → i < s.inner.pcs.length
  closing_flag : s.closing = true ↔ 5 ≤ s.opc.rank
  lock_iff : s.lock = true ↔ s.opc = .closing
  ret_low : s.opc.rank < 6 → s.retErr = []

theorem RCM.invA_init : RCM.InvA {} := by
  constructor <;> simp [OPc.rank, RM.inv_init]

set_option maxHeartbeats 4000000 in
theorem RCM.invA_step (cfg : Cfg) {s s' : RCM} (a : Label) (h : RCM.InvA s)
    (hs : s.step cfg a = some s') : RCM.InvA s' := by
  have hin : RM.Inv s'.inner ∧ (s.inner.runPc = .finished → s'.inner.runPc = .finished ∧ s'.inner.errs = s.inner.errs)
      ∧ (s.inner.running = true → s'.inner.pcs.length = s.inner.pcs.length) := by
    rcases RCM.inner_step cfg a hs (fun hl => (h.inner_low hl).2.2) with he | ⟨b, hb⟩ | ⟨hnr, he⟩
    · rw [he]; exact ⟨h.inner, fun hf => ⟨hf, rfl⟩, fun _ => rfl⟩
    · exact ⟨RM.inv_step b h.inner hb, fun hf => by
        have := RM.step_finished b h.inner hb hf; exact ⟨this.1, this.2.1⟩,
        fun hr => RM.step_length b hb hr⟩
    · rw [he]
      exact ⟨RM.inv_append_idle h.inner hnr, fun hf => by
        have := h.inner.running_iff; simp [hf, hnr] at this, fun hr => by simp [hnr] at hr⟩
  obtain ⟨hin1, hin2, hin3⟩ := hin
  obtain ⟨h0, h1, h2, h3, h4, h5, h6, h7, h8, h9, h10⟩ := h
  have hri := h0.running_iff
  cases a with
  | inner b =>
    simp only [RCM.step] at hs
    split at hs
    · cases hb : s.inner.step b with
      | none => simp [hb] at hs
      | some r =>
        simp [hb] at hs; subst hs
        have hlen : s.inner.running = true → r.pcs.length = s.inner.pcs.length := fun hr => RM.step_length b hb hr
        have hrun := RM.step_running b hb
        refine ⟨hin1, ?_, ?_, ?_, ?_, ?_, ?_, ?_, ?_, ?_, ?_⟩ <;>
          (cases b <;> grind [RM.step, OPc.rank, RCM.innerAllowed])
    · simp at hs
  | _ => refine ⟨hin1, ?_, ?_, ?_, ?_, ?_, ?_, ?_, ?_, ?_, ?_⟩ <;> grind [RCM.step, OPc.rank, Cfg.off]

end Kit.Runner
