import KitProofs.Lemmas.NoPanicGlue
/-!
C07 — helper lemmas for `ParseKey`'s sniffing prefix with the guarded and the sliced value kept
apart (`KitModel/NoPanicKeys.lean`: `parseKeyBranchOn`, `sliceCap`, `trimLeftBlanks`).
-/
namespace Kit.NoPanic.Keys
open Kit Kit.NoPanic

theorem sliceCap_isPanic (fill : UInt8) (s : GoSlice) (hi : Nat) :
    (sliceCap fill s 0 hi).isPanic = decide (s.cap < hi) := by
  unfold sliceCap
  by_cases h : hi ≤ s.cap
  · simp [h, Nat.not_lt.mpr h]
  · simp [h, Nat.lt_of_not_le h]

theorem bind_branch_isPanic (x : Outcome Bytes) :
    (x.bind fun p => if p == dashes then Outcome.ok Branch.pem else Outcome.ok Branch.symmetric).isPanic = x.isPanic := by
  cases x with
  | ok p => simp only [bind_ok]; split <;> rfl
  | err e => rfl
  | panic w => rfl

/-- The model panics exactly when the heuristic reaches the slice expression and the sliced value
has fewer than `hi` elements of capacity. -/
theorem parseKeyBranchOn_isPanic (bound hi : Nat) (fill : UInt8) (view : GoSlice → GoSlice)
    (raw : GoSlice) (ct : String) :
    (parseKeyBranchOn bound hi fill view raw ct).isPanic
      = (sniffReached bound raw.data ct && decide ((view raw).cap < hi)) := by
  obtain ⟨data, spare⟩ := raw
  cases data with
  | nil => simp [parseKeyBranchOn, sniffReached, GoSlice.len]
  | cons c rest =>
    have hidx : idx (c :: rest) 0 = .ok c := by simp [idx]
    unfold parseKeyBranchOn sniffReached
    simp only [GoSlice.len, List.length_cons, hidx, bind_ok, List.head?_cons]
    by_cases h1 : ct = "application/json"
    · simp [h1]
    · by_cases h2 : (ct == "application/x-pem-file" || ct == "application/pkcs8") = true
      · simp [h1, h2]
      · by_cases h3 : (c == 123 && rest.length + 1 != 16 && rest.length + 1 != 24 && rest.length + 1 != 32) = true
        · have h3' : (some c == some (123 : UInt8) && rest.length + 1 != 16 && rest.length + 1 != 24 && rest.length + 1 != 32) = true := by
            simpa using h3
          simp [h1, h2, h3, h3']
        · have h3' : (some c == some (123 : UInt8) && rest.length + 1 != 16 && rest.length + 1 != 24 && rest.length + 1 != 32) = false := by
            simpa using h3
          by_cases h4 : rest.length + 1 > bound
          · simp only [h1, h2, h3, h3', h4]
            simp [bind_branch_isPanic, sliceCap_isPanic]
          · simp [h1, h2, h3, h3', h4]

theorem dropWhile_all {α} (p : α → Bool) : ∀ l : List α, l.dropWhile p = [] ↔ l.all p = true
  | [] => by simp
  | a :: l => by
    by_cases h : p a = true
    · simp [List.dropWhile, h, dropWhile_all p l]
    · simp [List.dropWhile, h]

/-- capacity of `bytes.TrimLeft(s, " \t\r\n")`: 0 when every byte is a blank, otherwise what is
left of the bytes plus the spare capacity. -/
theorem trimLeftBlanks_cap (s : GoSlice) :
    (trimLeftBlanks s).cap = if s.data.all isBlank then 0 else (s.data.dropWhile isBlank).length + s.spare := by
  unfold trimLeftBlanks
  cases h : s.data.dropWhile isBlank with
  | nil => simp [GoSlice.cap, (dropWhile_all isBlank s.data).mp h]
  | cons c rest =>
    have : ¬ (s.data.all isBlank = true) := by
      intro hall
      rw [(dropWhile_all isBlank s.data).mpr hall] at h
      cases h
    simp [GoSlice.cap, this]

end Kit.NoPanic.Keys
