import KitProofs.Lemmas.NoPanicGlue
/-!
C07 — helper lemmas for `ParseKey`'s sniffing prefix with the guarded and the sliced value kept
apart (`KitModel/NoPanicKeys.lean`: `parseKeyBranchOn`, `sliceCap`, `trimLeftBlanks`).
-/
namespace Kit.NoPanic.Keys
open Kit Kit.NoPanic

theorem sliceCap_isPanic (fill : UInt8) (s : GoSlice) (hi : Nat) :
    (sliceCap fill s 0 hi).isPanic = decide (s.cap < hi) := by
  unfold sliceCap
  by_cases h : hi ≤ s.cap
  · simp [h, Nat.not_lt.mpr h]
  · simp [h, Nat.lt_of_not_le h]

theorem sliceCap_eq_slice (fill : UInt8) (raw : Bytes) (spare hi : Nat) (h : hi ≤ raw.length) :
    sliceCap fill { data := raw, spare := spare } 0 hi = slice raw 0 hi := by
  have hcap : hi ≤ GoSlice.cap { data := raw, spare := spare } := by simp only [GoSlice.cap]; omega
  simp only [sliceCap, slice, hcap, h, Nat.zero_le, and_self, if_true, List.drop_zero, Nat.sub_zero,
    List.take_append_of_le_length h]

theorem bind_isPanic_of_total {α β} (x : Outcome α) (f : α → Outcome β) (h : ∀ a, (f a).isPanic = false) :
    (x.bind f).isPanic = x.isPanic := by
  cases x with
  | ok a => simpa using h a
  | err e => rfl
  | panic w => rfl

/-- The model panics exactly when the heuristic reaches the slice expression and the sliced value
has fewer than `hi` elements of capacity. -/
theorem parseKeyBranchOn_isPanic (bound hi : Nat) (fill : UInt8) (view : GoSlice → GoSlice)
    (raw : GoSlice) (ct : String) :
    (parseKeyBranchOn bound hi fill view raw ct).isPanic
      = (sniffReached bound raw.data ct && decide ((view raw).cap < hi)) := by
  obtain ⟨data, spare⟩ := raw
  cases data with
  | nil => simp [parseKeyBranchOn, sniffReached, GoSlice.len]
  | cons c rest =>
    have hidx : idx (c :: rest) 0 = .ok c := by simp [idx]
    have hl : ((rest.length + 1 == 0) = true) = False := by simp
    unfold parseKeyBranchOn sniffReached
    simp only [GoSlice.len, List.length_cons, hidx, bind_ok, hl, if_false]
    generalize (ct == "application/json") = b1
    generalize (ct == "application/x-pem-file" || ct == "application/pkcs8") = b2
    by_cases h3 : (c == 123 && rest.length + 1 != 16 && rest.length + 1 != 24 && rest.length + 1 != 32) = true
    · simp only [h3]; cases b1 <;> cases b2 <;> simp
    · have h3' : (c == 123 && rest.length + 1 != 16 && rest.length + 1 != 24 && rest.length + 1 != 32) = false := by
        simpa using h3
      simp only [h3']
      by_cases h4 : rest.length + 1 > bound
      · cases b1 <;> cases b2 <;> simp [h4]
        rw [bind_isPanic_of_total _ _ (fun p => by split <;> rfl), sliceCap_isPanic]
      · cases b1 <;> cases b2 <;> simp [h4]

theorem sniffReached_length {bound : Nat} {raw : Bytes} {ct : String} (h : sniffReached bound raw ct = true) :
    raw.length > bound := by
  cases raw with
  | nil => simp [sniffReached] at h
  | cons c rest =>
    simp only [sniffReached, Bool.and_eq_true, decide_eq_true_eq] at h
    simpa using h.2

theorem dropWhile_all {α} (p : α → Bool) : ∀ l : List α, l.dropWhile p = [] ↔ l.all p = true
  | [] => by simp
  | a :: l => by
    by_cases h : p a = true
    · simp [List.dropWhile, h, dropWhile_all p l]
    · simp [List.dropWhile, h]

/-- capacity of `bytes.TrimLeft(s, " \t\r\n")`: 0 when every byte is a blank, otherwise what is
left of the bytes plus the spare capacity. -/
theorem trimLeftBlanks_cap (s : GoSlice) :
    (trimLeftBlanks s).cap = if s.data.all isBlank then 0 else (s.data.dropWhile isBlank).length + s.spare := by
  unfold trimLeftBlanks
  cases h : s.data.dropWhile isBlank with
  | nil => simp [GoSlice.cap, (dropWhile_all isBlank s.data).mp h]
  | cons c rest =>
    have : ¬ (s.data.all isBlank = true) := by
      intro hall
      rw [(dropWhile_all isBlank s.data).mpr hall] at h
      cases h
    simp [GoSlice.cap, this]

end Kit.NoPanic.Keys
