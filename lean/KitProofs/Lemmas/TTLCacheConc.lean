import KitModel.TTLCache
import KitProofs.Lemmas.TTLCache
/-! Inductive invariant of the concurrent ttlcache LTS (C15). -/
namespace Kit.TTLCache

theorem findCl_some {cls : List Cleaner} {id : Nat} {c : Cleaner} (h : findCl cls id = some c) :
    c ∈ cls ∧ c.id = id := by
  unfold findCl at h
  exact ⟨List.mem_of_find?_eq_some h, by simpa using List.find?_some h⟩

theorem mem_updCl {cls : List Cleaner} {id : Nat} {f : Cleaner → Cleaner} {c' : Cleaner}
    (h : c' ∈ updCl cls id f) : ∃ c ∈ cls, c = c' ∨ (c.id = id ∧ c' = f c) := by
  unfold updCl at h
  obtain ⟨c, hc, rfl⟩ := List.mem_map.1 h
  refine ⟨c, hc, ?_⟩
  by_cases hid : c.id = id
  · right; simp [hid]
  · left; simp [hid]

/-- The invariant. `sub`: the stored map only ever lacks entries w.r.t. the callers' reference map
`ref`; `seenExpired`: a key collected by a `Cleanup` was expired at that cleaner's clock reading
(as long as the entry it saw is still the current one); `explained`: a reference entry missing
from the stored map is either expired or recorded in `raced`. -/
structure CInv (s : CState) : Prop where
  sub : ∀ k x, mget s.m k = some x → mget s.ref k = some x
  stampRef : ∀ k x, mget s.ref k = some x → x.2 < s.stamp
  stampSeen : ∀ c ∈ s.cls, ∀ p ∈ c.keys, p.2 < s.stamp
  startedEmpty : ∀ c ∈ s.cls, c.phase = .started → c.keys = []
  now0 : ∀ c ∈ s.cls, c.phase ≠ .started → c.now0 ≤ s.now
  seenExpired : ∀ c ∈ s.cls, c.isReset = false → ∀ p ∈ c.keys, ∀ e,
      mget s.ref p.1 = some (e, p.2) → e.exp < c.now0
  explained : ∀ k e st, mget s.ref k = some (e, st) → mget s.m k = none →
      e.exp < s.now ∨ (k, st) ∈ s.raced
  bgCl : ∀ c ∈ s.cls, c.id = 0 → s.bg = .cleaning
  closed : s.runningClosed = true → s.bg = .exited ∧ s.tickerStopped = true

theorem cinv_init (maxTTL t0 period : Int) : CInv (CState.init maxTTL t0 period) := by
  constructor <;> simp [CState.init, mget]

theorem cinv_step {s s' : CState} {l : Label} (h : CInv s) (hs : cstep s l = some s') : CInv s' := by
  cases l with
  | sNow id k v ttl =>
    simp only [cstep] at hs
    split at hs
    · cases hs
    · cases hs
      exact ⟨h.sub, h.stampRef, h.stampSeen, h.startedEmpty, h.now0, h.seenExpired, h.explained, h.bgCl, h.closed⟩
  | gRead id k =>
    simp only [cstep] at hs
    split at hs
    · cases hs
    · cases hs
      exact ⟨h.sub, h.stampRef, h.stampSeen, h.startedEmpty, h.now0, h.seenExpired, h.explained, h.bgCl, h.closed⟩
  | gNow id k r =>
    simp only [cstep] at hs
    split at hs
    · split at hs
      · cases hs
        exact ⟨h.sub, h.stampRef, h.stampSeen, h.startedEmpty, h.now0, h.seenExpired, h.explained, h.bgCl, h.closed⟩
      · cases hs
    · cases hs
  | sStore id k v ttl =>
    simp only [cstep] at hs
    split at hs
    case h_2 => cases hs
    split at hs
    case isFalse => cases hs
    · cases hs
      refine ⟨?_, ?_, ?_, h.startedEmpty, h.now0, ?_, ?_, h.bgCl, h.closed⟩
      · intro k0 x hx
        simp only [mget_put] at hx ⊢
        split
        · rename_i hk; simpa [hk] using hx
        · rename_i hk; simp only [hk, if_false] at hx; exact h.sub k0 x hx
      · intro k0 x hx
        simp only [mget_put] at hx
        split at hx
        · cases hx; exact Nat.lt_succ_self _
        · exact Nat.lt_succ_of_lt (h.stampRef k0 x hx)
      · intro c hc p hp
        exact Nat.lt_succ_of_lt (h.stampSeen c hc p hp)
      · intro c hc hr p hp e he
        simp only [mget_put] at he
        split at he
        · have := h.stampSeen c hc p hp
          simp only [Option.some.injEq, Prod.mk.injEq] at he
          omega
        · exact h.seenExpired c hc hr p hp e he
      · intro k0 e st he hm
        simp only [mget_put] at he hm
        split at hm
        · cases hm
        · rename_i hk
          simp only [hk, if_false] at he
          exact h.explained k0 e st he hm
  | delete k =>
    simp only [cstep] at hs
    cases hs
    refine ⟨?_, ?_, h.stampSeen, h.startedEmpty, h.now0, ?_, ?_, h.bgCl, h.closed⟩
    · intro k0 x hx
      simp only [mget_delKeys_single] at hx ⊢
      split at hx
      · cases hx
      · rename_i hk; simp only [hk, if_false]; exact h.sub k0 x hx
    · intro k0 x hx
      simp only [mget_delKeys_single] at hx
      split at hx
      · cases hx
      · exact h.stampRef k0 x hx
    · intro c hc hr p hp e he
      simp only [mget_delKeys_single] at he
      split at he
      · cases he
      · exact h.seenExpired c hc hr p hp e he
    · intro k0 e st he hm
      simp only [mget_delKeys_single] at he hm
      split at he
      · cases he
      · rename_i hk
        simp only [hk, if_false] at hm
        exact h.explained k0 e st he hm
  | advance d =>
    simp only [cstep] at hs
    have key : s'.m = s.m ∧ s'.ref = s.ref ∧ s'.cls = s.cls ∧ s'.stamp = s.stamp ∧ s'.raced = s.raced ∧
        s'.now = s.now + d ∧ s'.bg = s.bg ∧ s'.runningClosed = s.runningClosed ∧
        s'.tickerStopped = s.tickerStopped := by
      split at hs <;> cases hs <;> simp
    obtain ⟨h1, h2, h3, h4, h5, h6, h7, h8, h9⟩ := key
    refine ⟨?_, ?_, ?_, ?_, ?_, ?_, ?_, ?_, ?_⟩
    · rw [h1, h2]; exact h.sub
    · rw [h2, h4]; exact h.stampRef
    · rw [h3, h4]; exact h.stampSeen
    · rw [h3]; exact h.startedEmpty
    · rw [h3, h6]; intro c hc hp; have := h.now0 c hc hp; omega
    · rw [h3, h2]; exact h.seenExpired
    · rw [h1, h2, h5, h6]
      intro k e st he hm
      rcases h.explained k e st he hm with hlt | hr
      · left; omega
      · right; exact hr
    · rw [h3, h7]; exact h.bgCl
    · rw [h7, h8, h9]; exact h.closed
  | cBegin id r =>
    simp only [cstep] at hs
    split at hs
    · cases hs
    · rename_i hcond
      cases hs
      have hid : id ≠ 0 := fun h0 => hcond (Or.inl h0)
      refine ⟨h.sub, h.stampRef, ?_, ?_, ?_, ?_, h.explained, ?_, h.closed⟩
      · intro c hc p hp
        rcases List.mem_cons.1 hc with rfl | hc
        · simp at hp
        · exact h.stampSeen c hc p hp
      · intro c hc hp
        rcases List.mem_cons.1 hc with rfl | hc
        · rfl
        · exact h.startedEmpty c hc hp
      · intro c hc hp
        rcases List.mem_cons.1 hc with rfl | hc
        · simp at hp
        · exact h.now0 c hc hp
      · intro c hc hr p hp
        rcases List.mem_cons.1 hc with rfl | hc
        · simp at hp
        · exact h.seenExpired c hc hr p hp
      · intro c hc h0
        rcases List.mem_cons.1 hc with rfl | hc
        · exact absurd h0 hid
        · exact h.bgCl c hc h0
  | cNow id =>
    simp only [cstep] at hs
    split at hs
    · split at hs
      · cases hs
        refine ⟨h.sub, h.stampRef, ?_, ?_, ?_, ?_, h.explained, ?_, h.closed⟩
        · intro c' hc' p hp
          obtain ⟨c, hc, hcc | ⟨_, hcc⟩⟩ := mem_updCl hc' <;> subst hcc
          · exact h.stampSeen c hc p hp
          · split at hp
            · exact h.stampSeen c hc p hp
            · exact h.stampSeen c hc p hp
        · intro c' hc' hph
          obtain ⟨c, hc, hcc | ⟨_, hcc⟩⟩ := mem_updCl hc' <;> subst hcc
          · exact h.startedEmpty c hc hph
          · split at hph
            · cases hph
            · split
              · rename_i h1 h2; exact absurd h2 h1
              · exact h.startedEmpty c hc hph
        · intro c' hc' hph
          obtain ⟨c, hc, hcc | ⟨_, hcc⟩⟩ := mem_updCl hc' <;> subst hcc
          · exact h.now0 c hc hph
          · split
            · exact Int.le_refl _
            · rename_i hns; exact h.now0 c hc hns
        · intro c' hc' hr p hp
          obtain ⟨c, hc, hcc | ⟨_, hcc⟩⟩ := mem_updCl hc' <;> subst hcc
          · exact h.seenExpired c hc hr p hp
          · split at hp
            · rename_i hst
              have := h.startedEmpty c hc hst
              simp [this] at hp
            · rename_i hst
              simp only [hst, if_false] at hr ⊢
              exact h.seenExpired c hc hr p hp
        · intro c' hc' h0
          obtain ⟨c, hc, hcc | ⟨_, hcc⟩⟩ := mem_updCl hc' <;> subst hcc
          · exact h.bgCl c hc h0
          · refine h.bgCl c hc ?_
            split at h0 <;> exact h0
      · cases hs
    · cases hs
  | cVisit id k =>
    simp only [cstep] at hs
    split at hs
    · split at hs
      · cases hs
        have hv : ∀ c : Cleaner, (visit s.m c k).id = c.id ∧ (visit s.m c k).phase = c.phase ∧
            (visit s.m c k).now0 = c.now0 ∧ (visit s.m c k).isReset = c.isReset ∧
            ∀ p ∈ (visit s.m c k).keys, p ∈ c.keys ∨
              (p.1 = k ∧ ∃ e, mget s.m k = some (e, p.2) ∧ (c.isReset = true ∨ e.exp < c.now0)) := by
          intro c
          unfold visit
          split
          · rename_i e st hg
            split
            · rename_i hcond
              refine ⟨rfl, rfl, rfl, rfl, ?_⟩
              intro p hp
              rcases List.mem_append.1 hp with hp | hp
              · exact Or.inl hp
              · simp only [List.mem_singleton] at hp
                subst hp
                right
                refine ⟨rfl, e, hg, ?_⟩
                have hc2 : c.isReset = true ∨ expiredAt c.now0 e = true := by simpa using hcond
                rcases hc2 with h1 | h1
                · exact Or.inl h1
                · exact Or.inr (by simpa [expiredAt] using h1)
            · exact ⟨rfl, rfl, rfl, rfl, fun p hp => Or.inl hp⟩
          · exact ⟨rfl, rfl, rfl, rfl, fun p hp => Or.inl hp⟩
        -- every updated cleaner relates to an old one
        have hrel : ∀ c' ∈ updCl s.cls id (fun c => if c.phase = Phase.scanning then
              { visit s.m c k with todo := c.todo.filter (fun x => x != k) } else c),
            ∃ c ∈ s.cls, c'.id = c.id ∧ c'.phase = c.phase ∧ c'.now0 = c.now0 ∧ c'.isReset = c.isReset ∧
              ∀ p ∈ c'.keys, p ∈ c.keys ∨ (c.phase = .scanning ∧
                p.1 = k ∧ ∃ e, mget s.m k = some (e, p.2) ∧ (c.isReset = true ∨ e.exp < c.now0)) := by
          intro c' hc'
          obtain ⟨c, hc, hcc | ⟨_, hcc⟩⟩ := mem_updCl hc' <;> subst hcc
          · exact ⟨c, hc, rfl, rfl, rfl, rfl, fun p hp => Or.inl hp⟩
          · refine ⟨c, hc, ?_⟩
            split
            · rename_i hsc
              obtain ⟨a, b, c1, d, e⟩ := hv c
              refine ⟨a, b, c1, d, fun p hp => ?_⟩
              rcases e p hp with h1 | h1
              · exact Or.inl h1
              · exact Or.inr ⟨hsc, h1⟩
            · exact ⟨rfl, rfl, rfl, rfl, fun p hp => Or.inl hp⟩
        refine ⟨h.sub, h.stampRef, ?_, ?_, ?_, ?_, h.explained, ?_, h.closed⟩
        · intro c' hc' p hp
          obtain ⟨c, hc, _, _, _, _, hk⟩ := hrel c' hc'
          rcases hk p hp with h1 | ⟨_, _, e, hg, _⟩
          · exact h.stampSeen c hc p h1
          · exact h.stampRef k (e, p.2) (h.sub k _ hg)
        · intro c' hc' hph
          obtain ⟨c, hc, _, hp2, _, _, hk⟩ := hrel c' hc'
          have hce := h.startedEmpty c hc (hp2 ▸ hph)
          cases hkeys : c'.keys with
          | nil => rfl
          | cons p ps =>
            have hp : p ∈ c'.keys := by simp [hkeys]
            rcases hk p hp with h1 | ⟨hsc, _⟩
            · simp [hce] at h1
            · rw [← hp2, hph] at hsc; cases hsc
        · intro c' hc' hph
          obtain ⟨c, hc, _, hp2, hn, _, _⟩ := hrel c' hc'
          rw [hn]; exact h.now0 c hc (hp2 ▸ hph)
        · intro c' hc' hr p hp e he
          obtain ⟨c, hc, _, _, hn, hre, hk⟩ := hrel c' hc'
          rw [hn]
          rcases hk p hp with h1 | ⟨_, hpk, e0, hg, hcond⟩
          · exact h.seenExpired c hc (hre ▸ hr) p h1 e he
          · have := h.sub k _ hg
            rw [hpk, this] at he
            simp only [Option.some.injEq, Prod.mk.injEq] at he
            rcases hcond with hcr | hlt
            · rw [← hre, hr] at hcr; cases hcr
            · rw [← he.1]; exact hlt
        · intro c' hc' h0
          obtain ⟨c, hc, hid, _⟩ := hrel c' hc'
          exact h.bgCl c hc (hid ▸ h0)
      · cases hs
    · cases hs
  | cSeal id =>
    simp only [cstep] at hs
    split at hs
    · split at hs
      · cases hs
        have hrel : ∀ c' ∈ updCl s.cls id (fun c => if c.phase = Phase.scanning ∧ c.todo = [] then { c with phase := Phase.deleting } else c),
            ∃ c ∈ s.cls, c'.id = c.id ∧ c'.keys = c.keys ∧ c'.now0 = c.now0 ∧ c'.isReset = c.isReset ∧
              (c'.phase = c.phase ∨ (c.phase = .scanning ∧ c'.phase = .deleting)) := by
          intro c' hc'
          obtain ⟨c, hc, hcc | ⟨_, hcc⟩⟩ := mem_updCl hc' <;> subst hcc
          · exact ⟨c, hc, rfl, rfl, rfl, rfl, Or.inl rfl⟩
          · refine ⟨c, hc, ?_⟩
            split
            · rename_i hsc; exact ⟨rfl, rfl, rfl, rfl, Or.inr ⟨hsc.1, rfl⟩⟩
            · exact ⟨rfl, rfl, rfl, rfl, Or.inl rfl⟩
        refine ⟨h.sub, h.stampRef, ?_, ?_, ?_, ?_, h.explained, ?_, h.closed⟩
        · intro c' hc' p hp
          obtain ⟨c, hc, _, hk, _⟩ := hrel c' hc'
          exact h.stampSeen c hc p (hk ▸ hp)
        · intro c' hc' hph
          obtain ⟨c, hc, _, hk, _, _, hphase⟩ := hrel c' hc'
          rw [hk]
          rcases hphase with h1 | ⟨_, h2⟩
          · exact h.startedEmpty c hc (h1 ▸ hph)
          · rw [h2] at hph; cases hph
        · intro c' hc' hph
          obtain ⟨c, hc, _, _, hn, _, hphase⟩ := hrel c' hc'
          rw [hn]
          rcases hphase with h1 | ⟨h1, _⟩
          · exact h.now0 c hc (h1 ▸ hph)
          · exact h.now0 c hc (by rw [h1]; decide)
        · intro c' hc' hr p hp e he
          obtain ⟨c, hc, _, hk, hn, hre, _⟩ := hrel c' hc'
          rw [hn]
          exact h.seenExpired c hc (hre ▸ hr) p (hk ▸ hp) e he
        · intro c' hc' h0
          obtain ⟨c, hc, hid, _⟩ := hrel c' hc'
          exact h.bgCl c hc (hid ▸ h0)
      · cases hs
    · cases hs
  | cDelOne id k st =>
    simp only [cstep] at hs
    split at hs
    · rename_i c0 hfind
      obtain ⟨hc0, _⟩ := findCl_some hfind
      split at hs
      · rename_i hcond
        obtain ⟨hdel, hmem⟩ := hcond
        have hrel : ∀ c' ∈ updCl s.cls id (fun c => { c with keys := c.keys.filter (fun p => p != (k, st)) }),
            ∃ c ∈ s.cls, c'.id = c.id ∧ c'.phase = c.phase ∧ c'.now0 = c.now0 ∧ c'.isReset = c.isReset ∧
              ∀ p ∈ c'.keys, p ∈ c.keys := by
          intro c' hc'
          obtain ⟨c, hc, hcc | ⟨_, hcc⟩⟩ := mem_updCl hc' <;> subst hcc
          · exact ⟨c, hc, rfl, rfl, rfl, rfl, fun p hp => hp⟩
          · exact ⟨c, hc, rfl, rfl, rfl, rfl, fun p hp => (List.mem_filter.1 hp).1⟩
        -- facts that do not depend on which branch is taken
        have hcls : ∀ (s2 : CState), s2.cls = updCl s.cls id (fun c => { c with keys := c.keys.filter (fun p => p != (k, st)) }) →
            s2.stamp = s.stamp → s2.now = s.now → s2.bg = s.bg →
            (∀ k0 x, mget s2.ref k0 = some x → mget s.ref k0 = some x) →
            (∀ c ∈ s2.cls, ∀ p ∈ c.keys, p.2 < s2.stamp) ∧
            (∀ c ∈ s2.cls, c.phase = .started → c.keys = []) ∧
            (∀ c ∈ s2.cls, c.phase ≠ .started → c.now0 ≤ s2.now) ∧
            (∀ c ∈ s2.cls, c.isReset = false → ∀ p ∈ c.keys, ∀ e,
                mget s2.ref p.1 = some (e, p.2) → e.exp < c.now0) ∧
            (∀ c ∈ s2.cls, c.id = 0 → s2.bg = .cleaning) := by
          intro s2 e1 e2 e3 e4 hsubref
          rw [e1, e2, e3, e4]
          refine ⟨?_, ?_, ?_, ?_, ?_⟩
          · intro c' hc' p hp
            obtain ⟨c, hc, _, _, _, _, hk⟩ := hrel c' hc'
            exact h.stampSeen c hc p (hk p hp)
          · intro c' hc' hph
            obtain ⟨c, hc, _, hp2, _, _, hk⟩ := hrel c' hc'
            have hce := h.startedEmpty c hc (hp2 ▸ hph)
            cases hkeys : c'.keys with
            | nil => rfl
            | cons p ps =>
              have hp : p ∈ c'.keys := by simp [hkeys]
              have := hk p hp
              simp [hce] at this
          · intro c' hc' hph
            obtain ⟨c, hc, _, hp2, hn, _, _⟩ := hrel c' hc'
            rw [hn]; exact h.now0 c hc (hp2 ▸ hph)
          · intro c' hc' hr p hp e he
            obtain ⟨c, hc, _, _, hn, hre, hk⟩ := hrel c' hc'
            rw [hn]
            exact h.seenExpired c hc (hre ▸ hr) p (hk p hp) e (hsubref _ _ he)
          · intro c' hc' h0
            obtain ⟨c, hc, hid, _⟩ := hrel c' hc'
            exact h.bgCl c hc (hid ▸ h0)
        split at hs
        · -- key already absent from the stored map
          cases hs
          obtain ⟨a1, a2, a3, a4, a5⟩ := hcls
            { s with cls := updCl s.cls id (fun c => { c with keys := c.keys.filter (fun p => p != (k, st)) }) }
            rfl rfl rfl rfl (fun _ _ hx => hx)
          exact ⟨h.sub, h.stampRef, a1, a2, a3, a4, h.explained, a5, h.closed⟩
        · rename_i e0 st' hg
          split at hs
          · -- the entry the visit saw is still the current one
            rename_i hst
            subst hst
            cases hs
            have hsubref : ∀ k0 x, mget (if c0.isReset = true then mdelKeys s.ref [k] else s.ref) k0 = some x →
                mget s.ref k0 = some x := by
              intro k0 x hx
              split at hx
              · simp only [mget_delKeys_single] at hx
                split at hx
                · cases hx
                · exact hx
              · exact hx
            obtain ⟨a1, a2, a3, a4, a5⟩ := hcls
              { s with m := mdelKeys s.m [k],
                       cls := updCl s.cls id (fun c => { c with keys := c.keys.filter (fun p => p != (k, st')) }),
                       ref := if c0.isReset = true then mdelKeys s.ref [k] else s.ref }
              rfl rfl rfl rfl hsubref
            refine ⟨?_, ?_, a1, a2, a3, a4, ?_, a5, h.closed⟩
            · intro k0 x hx
              simp only [mget_delKeys_single] at hx
              split at hx
              · cases hx
              · rename_i hk
                have := h.sub k0 x hx
                show mget (if c0.isReset = true then mdelKeys s.ref [k] else s.ref) k0 = some x
                split
                · simp [mget_delKeys_single, hk, this]
                · exact this
            · intro k0 x hx
              exact h.stampRef k0 x (hsubref k0 x hx)
            · intro k0 e st2 he hm
              have he' : mget (if c0.isReset = true then mdelKeys s.ref [k] else s.ref) k0 = some (e, st2) := he
              have hm' : mget (mdelKeys s.m [k]) k0 = none := hm
              show e.exp < s.now ∨ (k0, st2) ∈ s.raced
              simp only [mget_delKeys_single] at hm'
              by_cases hk : k0 = k
              · subst hk
                cases hr : c0.isReset with
                | true =>
                  rw [hr] at he'
                  simp [mget_delKeys_single] at he'
                | false =>
                  rw [hr] at he'
                  simp only [Bool.false_eq_true, if_false] at he'
                  have hsub := h.sub k0 _ hg
                  rw [hsub] at he'
                  simp only [Option.some.injEq, Prod.mk.injEq] at he'
                  obtain ⟨rfl, rfl⟩ := he'
                  have h1 := h.seenExpired c0 hc0 hr (k0, st') hmem e0 hsub
                  have h2 := h.now0 c0 hc0 (by rw [hdel]; decide)
                  left; omega
              · simp only [hk, if_false] at hm'
                refine h.explained k0 e st2 (hsubref _ _ he') hm'
          · -- documented race: the stored entry is newer than the one the visit saw
            rename_i hst
            cases hs
            obtain ⟨a1, a2, a3, a4, a5⟩ := hcls
              { s with m := mdelKeys s.m [k],
                       cls := updCl s.cls id (fun c => { c with keys := c.keys.filter (fun p => p != (k, st)) }),
                       raced := (k, st') :: s.raced }
              rfl rfl rfl rfl (fun _ _ hx => hx)
            refine ⟨?_, h.stampRef, a1, a2, a3, a4, ?_, a5, h.closed⟩
            · intro k0 x hx
              simp only [mget_delKeys_single] at hx
              split at hx
              · cases hx
              · exact h.sub k0 x hx
            · intro k0 e st2 he hm
              have hm' : mget (mdelKeys s.m [k]) k0 = none := hm
              have he' : mget s.ref k0 = some (e, st2) := he
              show e.exp < s.now ∨ (k0, st2) ∈ (k, st') :: s.raced
              simp only [mget_delKeys_single] at hm'
              by_cases hk : k0 = k
              · subst hk
                have hsub := h.sub k0 _ hg
                rw [hsub] at he'
                simp only [Option.some.injEq, Prod.mk.injEq] at he'
                right; simp [he'.2]
              · simp only [hk, if_false] at hm'
                rcases h.explained k0 e st2 he' hm' with h1 | h1
                · exact Or.inl h1
                · exact Or.inr (List.mem_cons_of_mem _ h1)
      · cases hs
    · cases hs
  | cEnd id =>
    simp only [cstep] at hs
    split at hs
    · rename_i c0 hfind
      obtain ⟨hc0, hid0⟩ := findCl_some hfind
      split at hs
      · cases hs
        have hsubl : ∀ c ∈ s.cls.filter (fun c => c.id != id), c ∈ s.cls ∧ c.id ≠ id := by
          intro c hc
          have := List.mem_filter.1 hc
          exact ⟨this.1, by simpa using this.2⟩
        refine ⟨h.sub, h.stampRef, ?_, ?_, ?_, ?_, h.explained, ?_, ?_⟩
        · intro c hc; exact h.stampSeen c (hsubl c hc).1
        · intro c hc; exact h.startedEmpty c (hsubl c hc).1
        · intro c hc; exact h.now0 c (hsubl c hc).1
        · intro c hc; exact h.seenExpired c (hsubl c hc).1
        · intro c hc h0
          obtain ⟨hc1, hne⟩ := hsubl c hc
          have : id ≠ 0 := fun hh => hne (by rw [h0, hh])
          simp only [this, if_false]
          exact h.bgCl c hc1 h0
        · intro hrc
          have := h.closed hrc
          by_cases hz : id = 0
          · have hb := h.bgCl c0 hc0 (by rw [hid0, hz])
            rw [this.1] at hb; cases hb
          · simpa [hz] using this
      · cases hs
    · cases hs
  | bgStart =>
    simp only [cstep] at hs
    split at hs
    · rename_i hsp
      cases hs
      refine ⟨h.sub, h.stampRef, h.stampSeen, h.startedEmpty, h.now0, h.seenExpired, h.explained, ?_, ?_⟩
      · intro c hc h0
        have := h.bgCl c hc h0
        rw [hsp] at this; cases this
      · intro hrc
        have := (h.closed hrc).1
        rw [hsp] at this; cases this
    · cases hs
  | bgTake =>
    simp only [cstep] at hs
    split at hs
    · rename_i hcond
      cases hs
      refine ⟨h.sub, h.stampRef, ?_, ?_, ?_, ?_, h.explained, ?_, ?_⟩
      · intro c hc p hp
        rcases List.mem_cons.1 hc with rfl | hc
        · simp at hp
        · exact h.stampSeen c hc p hp
      · intro c hc hp
        rcases List.mem_cons.1 hc with rfl | hc
        · rfl
        · exact h.startedEmpty c hc hp
      · intro c hc hp
        rcases List.mem_cons.1 hc with rfl | hc
        · simp at hp
        · exact h.now0 c hc hp
      · intro c hc hr p hp
        rcases List.mem_cons.1 hc with rfl | hc
        · simp at hp
        · exact h.seenExpired c hc hr p hp
      · intro _ _ _; rfl
      · intro hrc
        have := (h.closed hrc).1
        rw [hcond.1] at this; cases this
    · cases hs
  | bgExit =>
    simp only [cstep] at hs
    split at hs
    · rename_i hcond
      cases hs
      refine ⟨h.sub, h.stampRef, h.stampSeen, h.startedEmpty, h.now0, h.seenExpired, h.explained, ?_, ?_⟩
      · intro c hc h0
        have := h.bgCl c hc h0
        rw [hcond.1] at this; cases this
      · intro _; exact ⟨rfl, rfl⟩
    · cases hs
  | stopCall caller =>
    simp only [cstep] at hs
    split at hs
    · cases hs
    · cases hs
      exact ⟨h.sub, h.stampRef, h.stampSeen, h.startedEmpty, h.now0, h.seenExpired, h.explained, h.bgCl, h.closed⟩
  | stopReturn caller =>
    simp only [cstep] at hs
    split at hs
    · cases hs
      exact ⟨h.sub, h.stampRef, h.stampSeen, h.startedEmpty, h.now0, h.seenExpired, h.explained, h.bgCl, h.closed⟩
    · cases hs


theorem findSetter_some {l : List Setter} {id : Nat} {x : Setter} (h : findSetter l id = some x) :
    x ∈ l ∧ x.id = id := by
  unfold findSetter at h
  exact ⟨List.mem_of_find?_eq_some h, by simpa using List.find?_some h⟩

theorem findGetter_some {l : List Getter} {id : Nat} {x : Getter} (h : findGetter l id = some x) :
    x ∈ l ∧ x.id = id := by
  unfold findGetter at h
  exact ⟨List.mem_of_find?_eq_some h, by simpa using List.find?_some h⟩

theorem visit_props (m : AMap SEntry) (c : Cleaner) (k : Key) :
    (visit m c k).id = c.id ∧ (visit m c k).phase = c.phase ∧ (visit m c k).now0 = c.now0 ∧
    (visit m c k).isReset = c.isReset ∧ (visit m c k).todo = c.todo ∧ (visit m c k).stamp0 = c.stamp0 ∧
    (∀ p ∈ c.keys, p ∈ (visit m c k).keys) ∧
    (c.isReset = true → ∀ e st, mget m k = some (e, st) → (k, st) ∈ (visit m c k).keys) := by
  unfold visit
  split
  · rename_i e st hg
    split
    · refine ⟨rfl, rfl, rfl, rfl, rfl, rfl, fun p hp => List.mem_append_left _ hp, ?_⟩
      intro _ e' st' hg'
      rw [hg] at hg'
      simp only [Option.some.injEq, Prod.mk.injEq] at hg'
      simp [hg'.2]
    · rename_i hcond
      refine ⟨rfl, rfl, rfl, rfl, rfl, rfl, fun p hp => hp, ?_⟩
      intro hr
      simp [hr] at hcond
  · rename_i hg
    exact ⟨rfl, rfl, rfl, rfl, rfl, rfl, fun p hp => hp, fun _ e st h => by rw [hg] at h; cases h⟩

/-- Second part of the invariant: callers inside `Set`/`Get`, ForEach completeness, Reset floor. -/
structure CInvB (s : CState) : Prop where
  setterExp : ∀ x ∈ s.setters, x.exp ≤ s.now + durNs s.maxTTL x.ttl ∧ 0 < x.ttl
  getStamp0 : ∀ g ∈ s.getters, g.stamp0 ≤ s.stamp
  getterOld : ∀ g ∈ s.getters, ∀ e st, mget s.ref g.k = some (e, st) → st < g.stamp0 →
      g.read = some (e, st) ∨ e.exp < s.now ∨ (g.k, st) ∈ s.raced
  clStamp0 : ∀ c ∈ s.cls, c.stamp0 ≤ s.stamp
  floorLe : s.resetFloor ≤ s.stamp
  sealedTodo : ∀ c ∈ s.cls, c.phase = .deleting → c.todo = []
  resetTodo : ∀ c ∈ s.cls, c.isReset = true → c.phase ≠ .started → ∀ k x, mget s.m k = some x →
      x.2 < c.stamp0 → k ∈ c.todo ∨ (k, x.2) ∈ c.keys
  floor : ∀ k x, mget s.m k = some x → s.resetFloor ≤ x.2

theorem cinvB_init (maxTTL t0 period : Int) : CInvB (CState.init maxTTL t0 period) := by
  constructor <;> simp [CState.init, mget]

theorem cinvB_step {s s' : CState} {l : Label} (hA : CInv s) (h : CInvB s)
    (hs : cstep s l = some s') : CInvB s' := by
  cases l with
  | sNow id k v ttl =>
    simp only [cstep] at hs
    split at hs
    · cases hs
    · rename_i hcond
      cases hs
      refine ⟨?_, h.getStamp0, h.getterOld, h.clStamp0, h.floorLe, h.sealedTodo, h.resetTodo, h.floor⟩
      intro x hx
      rcases List.mem_cons.1 hx with rfl | hx
      · refine ⟨Int.le_refl _, ?_⟩
        have hb : ¬ badTTL ttl := fun hb => hcond (Or.inl hb)
        have : ¬ ttl ≤ 0 := hb
        show 0 < ttl
        omega
      · exact h.setterExp x hx
  | sStore id k v ttl =>
    simp only [cstep] at hs
    split at hs
    case h_2 => cases hs
    split at hs
    case isFalse => cases hs
    · cases hs
      refine ⟨?_, ?_, ?_, ?_, Nat.le_succ_of_le h.floorLe, h.sealedTodo, ?_, ?_⟩
      · intro x hx; exact h.setterExp x (List.mem_filter.1 hx).1
      · intro g hg; exact Nat.le_succ_of_le (h.getStamp0 g hg)
      · intro g hg e st he hst
        simp only [mget_put] at he
        split at he
        · simp only [Option.some.injEq, Prod.mk.injEq] at he
          have := h.getStamp0 g hg
          omega
        · exact h.getterOld g hg e st he hst
      · intro c hc; exact Nat.le_succ_of_le (h.clStamp0 c hc)
      · intro c hc hr hp k0 x hx hlt
        simp only [mget_put] at hx
        split at hx
        · simp only [Option.some.injEq] at hx
          have := h.clStamp0 c hc
          rw [← hx] at hlt
          simp only at hlt
          omega
        · exact h.resetTodo c hc hr hp k0 x hx hlt
      · intro k0 x hx
        simp only [mget_put] at hx
        split at hx
        · simp only [Option.some.injEq] at hx
          rw [← hx]
          exact h.floorLe
        · exact h.floor k0 x hx
  | gRead id k =>
    simp only [cstep] at hs
    split at hs
    · cases hs
    · cases hs
      refine ⟨h.setterExp, ?_, ?_, h.clStamp0, h.floorLe, h.sealedTodo, h.resetTodo, h.floor⟩
      · intro g hg
        rcases List.mem_cons.1 hg with rfl | hg
        · exact Nat.le_refl _
        · exact h.getStamp0 g hg
      · intro g hg e st he hst
        rcases List.mem_cons.1 hg with rfl | hg
        · show mget s.m k = some (e, st) ∨ e.exp < s.now ∨ (k, st) ∈ s.raced
          cases hm : mget s.m k with
          | none => exact Or.inr (hA.explained k e st he hm)
          | some x =>
            have := hA.sub k x hm
            rw [he] at this
            left; rw [this]
        · exact h.getterOld g hg e st he hst
  | gNow id k r =>
    simp only [cstep] at hs
    split at hs
    · split at hs
      · cases hs
        refine ⟨h.setterExp, ?_, ?_, h.clStamp0, h.floorLe, h.sealedTodo, h.resetTodo, h.floor⟩
        · intro g hg; exact h.getStamp0 g (List.mem_filter.1 hg).1
        · intro g hg; exact h.getterOld g (List.mem_filter.1 hg).1
      · cases hs
    · cases hs
  | delete k =>
    simp only [cstep] at hs
    cases hs
    refine ⟨h.setterExp, h.getStamp0, ?_, h.clStamp0, h.floorLe, h.sealedTodo, ?_, ?_⟩
    · intro g hg e st he hst
      simp only [mget_delKeys_single] at he
      split at he
      · cases he
      · exact h.getterOld g hg e st he hst
    · intro c hc hr hp k0 x hx hlt
      simp only [mget_delKeys_single] at hx
      split at hx
      · cases hx
      · exact h.resetTodo c hc hr hp k0 x hx hlt
    · intro k0 x hx
      simp only [mget_delKeys_single] at hx
      split at hx
      · cases hx
      · exact h.floor k0 x hx
  | advance d =>
    simp only [cstep] at hs
    have key : s'.m = s.m ∧ s'.ref = s.ref ∧ s'.cls = s.cls ∧ s'.stamp = s.stamp ∧ s'.raced = s.raced ∧
        s'.now = s.now + d ∧ s'.setters = s.setters ∧ s'.getters = s.getters ∧
        s'.resetFloor = s.resetFloor ∧ s'.maxTTL = s.maxTTL := by
      split at hs <;> cases hs <;> simp
    obtain ⟨h1, h2, h3, h4, h5, h6, h7, h8, h9, h10⟩ := key
    refine ⟨?_, ?_, ?_, ?_, ?_, ?_, ?_, ?_⟩
    · rw [h7, h6, h10]; intro x hx; have := h.setterExp x hx; exact ⟨by omega, this.2⟩
    · rw [h8, h4]; exact h.getStamp0
    · rw [h8, h2, h5, h6]
      intro g hg e st he hst
      rcases h.getterOld g hg e st he hst with h' | h' | h'
      · exact Or.inl h'
      · right; left; omega
      · exact Or.inr (Or.inr h')
    · rw [h3, h4]; exact h.clStamp0
    · rw [h9, h4]; exact h.floorLe
    · rw [h3]; exact h.sealedTodo
    · rw [h3, h1]; exact h.resetTodo
    · rw [h1, h9]; exact h.floor
  | cBegin id r =>
    simp only [cstep] at hs
    split at hs
    · cases hs
    · cases hs
      refine ⟨h.setterExp, h.getStamp0, h.getterOld, ?_, h.floorLe, ?_, ?_, h.floor⟩
      · intro c hc
        rcases List.mem_cons.1 hc with rfl | hc
        · exact Nat.zero_le _
        · exact h.clStamp0 c hc
      · intro c hc hp
        rcases List.mem_cons.1 hc with rfl | hc
        · cases hp
        · exact h.sealedTodo c hc hp
      · intro c hc hr hp
        rcases List.mem_cons.1 hc with rfl | hc
        · exact absurd rfl hp
        · exact h.resetTodo c hc hr hp
  | cNow id =>
    simp only [cstep] at hs
    split at hs
    · split at hs
      · cases hs
        refine ⟨h.setterExp, h.getStamp0, h.getterOld, ?_, h.floorLe, ?_, ?_, h.floor⟩
        · intro c' hc'
          obtain ⟨c, hc, hcc | ⟨_, hcc⟩⟩ := mem_updCl hc' <;> subst hcc
          · exact h.clStamp0 c hc
          · split
            · exact Nat.le_refl _
            · exact h.clStamp0 c hc
        · intro c' hc' hp
          obtain ⟨c, hc, hcc | ⟨_, hcc⟩⟩ := mem_updCl hc' <;> subst hcc
          · exact h.sealedTodo c hc hp
          · split at hp
            · cases hp
            · rename_i hns
              simp only [hns, if_false]
              exact h.sealedTodo c hc hp
        · intro c' hc' hr hp k0 x hx hlt
          obtain ⟨c, hc, hcc | ⟨_, hcc⟩⟩ := mem_updCl hc' <;> subst hcc
          · exact h.resetTodo c hc hr hp k0 x hx hlt
          · by_cases hst : c.phase = Phase.started
            · simp only [hst, if_true]
              left
              exact mem_mkeys_of_mget _ _ _ hx
            · simp only [hst, if_false] at hr hp hlt ⊢
              exact h.resetTodo c hc hr hp k0 x hx hlt
      · cases hs
    · cases hs
  | cVisit id k =>
    simp only [cstep] at hs
    split at hs
    · split at hs
      · cases hs
        refine ⟨h.setterExp, h.getStamp0, h.getterOld, ?_, h.floorLe, ?_, ?_, h.floor⟩
        · intro c' hc'
          obtain ⟨c, hc, hcc | ⟨_, hcc⟩⟩ := mem_updCl hc' <;> subst hcc
          · exact h.clStamp0 c hc
          · split
            · show (visit s.m c k).stamp0 ≤ s.stamp
              rw [(visit_props s.m c k).2.2.2.2.2.1]; exact h.clStamp0 c hc
            · exact h.clStamp0 c hc
        · intro c' hc' hp
          obtain ⟨c, hc, hcc | ⟨_, hcc⟩⟩ := mem_updCl hc' <;> subst hcc
          · exact h.sealedTodo c hc hp
          · by_cases hsc : c.phase = Phase.scanning
            · simp only [hsc, if_true] at hp
              have : (visit s.m c k).phase = Phase.deleting := hp
              rw [(visit_props s.m c k).2.1, hsc] at this
              cases this
            · simp only [hsc, if_false] at hp ⊢
              exact h.sealedTodo c hc hp
        · intro c' hc' hr hp k0 x hx hlt
          obtain ⟨c, hc, hcc | ⟨_, hcc⟩⟩ := mem_updCl hc' <;> subst hcc
          · exact h.resetTodo c hc hr hp k0 x hx hlt
          · by_cases hsc : c.phase = Phase.scanning
            · simp only [hsc, if_true] at hr hlt ⊢
              obtain ⟨_, _, _, hre, _, hst0, hkeep, hcol⟩ := visit_props s.m c k
              have hr' : c.isReset = true := by rw [← hre]; exact hr
              have hlt' : x.2 < c.stamp0 := by rw [← hst0]; exact hlt
              have hp' : c.phase ≠ Phase.started := by rw [hsc]; decide
              show k0 ∈ c.todo.filter (fun y => y != k) ∨ (k0, x.2) ∈ (visit s.m c k).keys
              rcases h.resetTodo c hc hr' hp' k0 x hx hlt' with h1 | h1
              · by_cases hk : k0 = k
                · subst hk
                  right
                  exact hcol hr' x.1 x.2 hx
                · left
                  exact List.mem_filter.2 ⟨h1, by simpa using hk⟩
              · exact Or.inr (hkeep _ h1)
            · simp only [hsc, if_false] at hr hp hlt ⊢
              exact h.resetTodo c hc hr hp k0 x hx hlt
      · cases hs
    · cases hs
  | cSeal id =>
    simp only [cstep] at hs
    split at hs
    · split at hs
      · cases hs
        refine ⟨h.setterExp, h.getStamp0, h.getterOld, ?_, h.floorLe, ?_, ?_, h.floor⟩
        · intro c' hc'
          obtain ⟨c, hc, hcc | ⟨_, hcc⟩⟩ := mem_updCl hc' <;> subst hcc
          · exact h.clStamp0 c hc
          · split <;> exact h.clStamp0 c hc
        · intro c' hc' hp
          obtain ⟨c, hc, hcc | ⟨_, hcc⟩⟩ := mem_updCl hc' <;> subst hcc
          · exact h.sealedTodo c hc hp
          · split
            · rename_i hcond; exact hcond.2
            · rename_i hcond
              simp only [hcond, if_false] at hp
              exact h.sealedTodo c hc hp
        · intro c' hc' hr hp k0 x hx hlt
          obtain ⟨c, hc, hcc | ⟨_, hcc⟩⟩ := mem_updCl hc' <;> subst hcc
          · exact h.resetTodo c hc hr hp k0 x hx hlt
          · by_cases hcond : c.phase = Phase.scanning ∧ c.todo = []
            · simp only [hcond, and_self, if_true] at hr hlt ⊢
              have := h.resetTodo c hc hr (by rw [hcond.1]; decide) k0 x hx hlt
              simpa [hcond.2] using this
            · simp only [hcond, if_false] at hr hp hlt ⊢
              exact h.resetTodo c hc hr hp k0 x hx hlt
      · cases hs
    · cases hs
  | cDelOne id k st =>
    simp only [cstep] at hs
    split at hs
    · rename_i c0 hfind
      split at hs
      · have hrel : ∀ c' ∈ updCl s.cls id (fun c => { c with keys := c.keys.filter (fun p => p != (k, st)) }),
            ∃ c ∈ s.cls, c'.phase = c.phase ∧ c'.isReset = c.isReset ∧ c'.todo = c.todo ∧ c'.stamp0 = c.stamp0 ∧
              ∀ p ∈ c.keys, p.1 ≠ k → p ∈ c'.keys := by
          intro c' hc'
          obtain ⟨c, hc, hcc | ⟨_, hcc⟩⟩ := mem_updCl hc' <;> subst hcc
          · exact ⟨c, hc, rfl, rfl, rfl, rfl, fun p hp _ => hp⟩
          · refine ⟨c, hc, rfl, rfl, rfl, rfl, fun p hp hne => List.mem_filter.2 ⟨hp, ?_⟩⟩
            have : p ≠ (k, st) := fun hh => hne (by rw [hh])
            simpa using this
        -- generic part
        have gen : ∀ (s2 : CState),
            s2.cls = updCl s.cls id (fun c => { c with keys := c.keys.filter (fun p => p != (k, st)) }) →
            s2.stamp = s.stamp → s2.resetFloor = s.resetFloor →
            (∀ k0 x, mget s2.m k0 = some x → k0 ≠ k ∧ mget s.m k0 = some x) →
            (∀ c ∈ s2.cls, c.stamp0 ≤ s2.stamp) ∧ s2.resetFloor ≤ s2.stamp ∧
            (∀ c ∈ s2.cls, c.phase = .deleting → c.todo = []) ∧
            (∀ c ∈ s2.cls, c.isReset = true → c.phase ≠ .started → ∀ k0 x, mget s2.m k0 = some x →
              x.2 < c.stamp0 → k0 ∈ c.todo ∨ (k0, x.2) ∈ c.keys) ∧
            (∀ k0 x, mget s2.m k0 = some x → s2.resetFloor ≤ x.2) := by
          intro s2 e1 e2 e3 hm
          rw [e1, e2, e3]
          refine ⟨?_, h.floorLe, ?_, ?_, ?_⟩
          · intro c' hc'
            obtain ⟨c, hc, _, _, _, h0, _⟩ := hrel c' hc'
            rw [h0]; exact h.clStamp0 c hc
          · intro c' hc' hp
            obtain ⟨c, hc, hph, _, htd, _, _⟩ := hrel c' hc'
            rw [htd]; exact h.sealedTodo c hc (hph ▸ hp)
          · intro c' hc' hr hp k0 x hx hlt
            obtain ⟨c, hc, hph, hre, htd, h0, hk⟩ := hrel c' hc'
            obtain ⟨hne, hx'⟩ := hm k0 x hx
            rcases h.resetTodo c hc (hre ▸ hr) (hph ▸ hp) k0 x hx' (h0 ▸ hlt) with h1 | h1
            · left; rw [htd]; exact h1
            · right; exact hk _ h1 hne
          · intro k0 x hx
            exact h.floor k0 x (hm k0 x hx).2
        have hdel : ∀ k0 x, mget (mdelKeys s.m [k]) k0 = some x → k0 ≠ k ∧ mget s.m k0 = some x := by
          intro k0 x hx
          simp only [mget_delKeys_single] at hx
          split at hx
          · cases hx
          · rename_i hk; exact ⟨hk, hx⟩
        split at hs
        · rename_i hnone
          cases hs
          obtain ⟨a1, a2, a3, a4, a5⟩ := gen
            { s with cls := updCl s.cls id (fun c => { c with keys := c.keys.filter (fun p => p != (k, st)) }) }
            rfl rfl rfl (fun k0 x hx => ⟨(fun hk => by rw [hk, hnone] at hx; cases hx), hx⟩)
          exact ⟨h.setterExp, h.getStamp0, h.getterOld, a1, a2, a3, a4, a5⟩
        · split at hs
          · cases hs
            obtain ⟨a1, a2, a3, a4, a5⟩ := gen
              { s with m := mdelKeys s.m [k],
                       cls := updCl s.cls id (fun c => { c with keys := c.keys.filter (fun p => p != (k, st)) }),
                       ref := if c0.isReset = true then mdelKeys s.ref [k] else s.ref }
              rfl rfl rfl hdel
            refine ⟨h.setterExp, h.getStamp0, ?_, a1, a2, a3, a4, a5⟩
            intro g hg e st2 he hst
            have he' : mget (if c0.isReset = true then mdelKeys s.ref [k] else s.ref) g.k = some (e, st2) := he
            have he2 : mget s.ref g.k = some (e, st2) := by
              split at he'
              · simp only [mget_delKeys_single] at he'
                split at he'
                · cases he'
                · exact he'
              · exact he'
            exact h.getterOld g hg e st2 he2 hst
          · rename_i e0 st' _ _
            cases hs
            obtain ⟨a1, a2, a3, a4, a5⟩ := gen
              { s with m := mdelKeys s.m [k],
                       cls := updCl s.cls id (fun c => { c with keys := c.keys.filter (fun p => p != (k, st)) }),
                       raced := (k, st') :: s.raced }
              rfl rfl rfl hdel
            refine ⟨h.setterExp, h.getStamp0, ?_, a1, a2, a3, a4, a5⟩
            intro g hg e st2 he hst
            rcases h.getterOld g hg e st2 he hst with h' | h' | h'
            · exact Or.inl h'
            · exact Or.inr (Or.inl h')
            · exact Or.inr (Or.inr (List.mem_cons_of_mem _ h'))
      · cases hs
    · cases hs
  | cEnd id =>
    simp only [cstep] at hs
    split at hs
    · rename_i c0 hfind
      obtain ⟨hc0, _⟩ := findCl_some hfind
      split at hs
      · rename_i hcond
        cases hs
        have hsubl : ∀ c ∈ s.cls.filter (fun c => c.id != id), c ∈ s.cls :=
          fun c hc => (List.mem_filter.1 hc).1
        refine ⟨h.setterExp, h.getStamp0, h.getterOld, ?_, ?_, ?_, ?_, ?_⟩
        · intro c hc; exact h.clStamp0 c (hsubl c hc)
        · show (if c0.isReset = true then max s.resetFloor c0.stamp0 else s.resetFloor) ≤ s.stamp
          have := h.clStamp0 c0 hc0
          have := h.floorLe
          split <;> omega
        · intro c hc; exact h.sealedTodo c (hsubl c hc)
        · intro c hc; exact h.resetTodo c (hsubl c hc)
        · intro k0 x hx
          show (if c0.isReset = true then max s.resetFloor c0.stamp0 else s.resetFloor) ≤ x.2
          have hf := h.floor k0 x hx
          split
          · rename_i hr
            have : ¬ x.2 < c0.stamp0 := by
              intro hlt
              have htd := h.sealedTodo c0 hc0 hcond.1
              rcases h.resetTodo c0 hc0 hr (by rw [hcond.1]; decide) k0 x hx hlt with h1 | h1
              · rw [htd] at h1; cases h1
              · rw [hcond.2] at h1; cases h1
            omega
          · exact hf
      · cases hs
    · cases hs
  | bgStart =>
    simp only [cstep] at hs
    split at hs
    · cases hs; exact ⟨h.setterExp, h.getStamp0, h.getterOld, h.clStamp0, h.floorLe, h.sealedTodo, h.resetTodo, h.floor⟩
    · cases hs
  | bgTake =>
    simp only [cstep] at hs
    split at hs
    · cases hs
      refine ⟨h.setterExp, h.getStamp0, h.getterOld, ?_, h.floorLe, ?_, ?_, h.floor⟩
      · intro c hc
        rcases List.mem_cons.1 hc with rfl | hc
        · exact Nat.zero_le _
        · exact h.clStamp0 c hc
      · intro c hc hp
        rcases List.mem_cons.1 hc with rfl | hc
        · cases hp
        · exact h.sealedTodo c hc hp
      · intro c hc hr hp
        rcases List.mem_cons.1 hc with rfl | hc
        · exact absurd rfl hp
        · exact h.resetTodo c hc hr hp
    · cases hs
  | bgExit =>
    simp only [cstep] at hs
    split at hs
    · cases hs; exact ⟨h.setterExp, h.getStamp0, h.getterOld, h.clStamp0, h.floorLe, h.sealedTodo, h.resetTodo, h.floor⟩
    · cases hs
  | stopCall caller =>
    simp only [cstep] at hs
    split at hs
    · cases hs
    · cases hs; exact ⟨h.setterExp, h.getStamp0, h.getterOld, h.clStamp0, h.floorLe, h.sealedTodo, h.resetTodo, h.floor⟩
  | stopReturn caller =>
    simp only [cstep] at hs
    split at hs
    · cases hs; exact ⟨h.setterExp, h.getStamp0, h.getterOld, h.clStamp0, h.floorLe, h.sealedTodo, h.resetTodo, h.floor⟩
    · cases hs

theorem cinv_reach {maxTTL t0 period : Int} {s : CState} (h : Reach maxTTL t0 period s) :
    CInv s ∧ CInvB s := by
  induction h with
  | init => exact ⟨cinv_init _ _ _, cinvB_init _ _ _⟩
  | step l _ hs ih => exact ⟨cinv_step ih.1 hs, cinvB_step ih.1 ih.2 hs⟩

/-! ### the reference map (and what a pending `Get` has read) agree with the backwards scan over
the run's labels -/

/-- History (most recent first) extended by one label. -/
def projCons (l : Label) (hrev : List Op) : List Op :=
  match projOp l with
  | some o => o :: hrev
  | none => hrev

/-- `ref`, and the entries pending `Get`s have read, versus the scan `lastLive` over the callers'
labels so far. A `Set` stamps its expiry from the clock it read *before* storing, so the stored
expiry is at most (store time + ttl). -/
structure RefAgree (M : Int) (s : CState) (hrev : List Op) : Prop where
  max : s.maxTTL = M
  ref : ∀ k x, mget s.ref k = some x →
    ∃ ttl el, lastLive k hrev 0 = some (x.1.val, ttl, el) ∧ x.1.exp ≤ s.now - (el : Int) + durNs M ttl
  get : ∀ g ∈ s.getters, ∀ x, g.read = some x →
    ∃ hnew hpre, hrev = hnew ++ hpre ∧ ∃ ttl el, lastLive g.k hpre 0 = some (x.1.val, ttl, el) ∧
      x.1.exp + (advSum hnew : Int) ≤ s.now - (el : Int) + durNs M ttl

/-- Labels that are neither caller operations nor a `Get`'s map read leave clock and configuration
alone, can only shrink `ref`, and add no pending `Get`. -/
theorem cstep_frame {s s' : CState} {l : Label} (hs : cstep s l = some s') (hp : projOp l = none)
    (hg : ∀ id k, l ≠ .gRead id k) :
    s'.now = s.now ∧ s'.maxTTL = s.maxTTL ∧ (∀ k x, mget s'.ref k = some x → mget s.ref k = some x) ∧
    (∀ g ∈ s'.getters, g ∈ s.getters) := by
  cases l
  case sStore => simp [projOp] at hp
  case delete => simp [projOp] at hp
  case advance => simp [projOp] at hp
  case gRead id k => exact absurd rfl (hg id k)
  case gNow id k r =>
    simp only [cstep] at hs
    split at hs
    · split at hs
      · cases hs
        exact ⟨rfl, rfl, fun _ _ h => h, fun g hg => (List.mem_filter.1 hg).1⟩
      · cases hs
    · cases hs
  case cDelOne id k st =>
    simp only [cstep] at hs
    split at hs
    · split at hs
      · split at hs
        · cases hs; exact ⟨rfl, rfl, fun _ _ h => h, fun _ h => h⟩
        · split at hs
          · cases hs
            refine ⟨rfl, rfl, fun k0 x hx => ?_, fun _ h => h⟩
            have hx' : mget (if (_ : Cleaner).isReset = true then mdelKeys s.ref [k] else s.ref) k0 = some x := hx
            split at hx'
            · simp only [mget_delKeys_single] at hx'
              split at hx'
              · cases hx'
              · exact hx'
            · exact hx'
          · cases hs; exact ⟨rfl, rfl, fun _ _ h => h, fun _ h => h⟩
      · cases hs
    · cases hs
  all_goals
    simp only [cstep] at hs
    repeat' split at hs
    all_goals first
      | (cases hs; exact ⟨rfl, rfl, fun _ _ h => h, fun _ h => h⟩)
      | cases hs

theorem refAgree_init (maxTTL t0 period : Int) : RefAgree maxTTL (CState.init maxTTL t0 period) [] :=
  ⟨rfl, fun k x h => by simp [CState.init, mget] at h, fun g hg => by simp [CState.init] at hg⟩

theorem advSum_cons_nonadv (o : Op) (h : List Op) (hno : ∀ d, o ≠ .advance d) :
    advSum (o :: h) = advSum h := by
  cases o <;> simp [advSum] <;> exact absurd rfl (hno _)

theorem refAgree_step {M : Int} {s s' : CState} {l : Label} {hrev : List Op}
    (hA : CInv s) (hB : CInvB s) (h : RefAgree M s hrev) (hs : cstep s l = some s') :
    RefAgree M s' (projCons l hrev) := by
  obtain ⟨hM, hR, hG⟩ := h
  cases l with
  | sStore id k v ttl =>
    simp only [projCons, projOp]
    simp only [cstep] at hs
    split at hs
    case h_2 => cases hs
    rename_i x hfind
    split at hs
    case isFalse => cases hs
    rename_i hcond
    obtain ⟨hxm, _⟩ := findSetter_some hfind
    obtain ⟨hexp, hpos⟩ := hB.setterExp x hxm
    rw [hcond.2.2, hM] at hexp
    rw [hcond.2.2] at hpos
    cases hs
    refine ⟨hM, fun k0 y hy => ?_, fun g hg y hy => ?_⟩
    · simp only [mget_put] at hy
      by_cases hk : k0 = k
      · subst hk
        simp only [if_true, Option.some.injEq] at hy
        subst hy
        refine ⟨ttl, 0, by simp [lastLive, hpos], ?_⟩
        simpa using hexp
      · simp only [hk, if_false] at hy
        obtain ⟨t, el, h1, h2⟩ := hR k0 y hy
        refine ⟨t, el, ?_, h2⟩
        have : ¬ (k = k0 ∧ 0 < ttl) := fun hh => hk hh.1.symm
        simp only [lastLive, this, if_false]
        exact h1
    · obtain ⟨hnew, hpre, h1, t, el, h2, h3⟩ := hG g hg y hy
      refine ⟨Op.set k v ttl :: hnew, hpre, by rw [h1]; rfl, t, el, h2, ?_⟩
      rw [advSum_cons_nonadv _ _ (fun d => by simp)]
      exact h3
  | delete k =>
    simp only [projCons, projOp]
    simp only [cstep] at hs
    cases hs
    refine ⟨hM, fun k0 y hy => ?_, fun g hg y hy => ?_⟩
    · simp only [mget_delKeys_single] at hy
      split at hy
      · cases hy
      · rename_i hk
        obtain ⟨t, el, h1, h2⟩ := hR k0 y hy
        refine ⟨t, el, ?_, h2⟩
        have : ¬ k = k0 := fun hh => hk hh.symm
        simp only [lastLive, this, if_false]
        exact h1
    · obtain ⟨hnew, hpre, h1, t, el, h2, h3⟩ := hG g hg y hy
      refine ⟨Op.delete k :: hnew, hpre, by rw [h1]; rfl, t, el, h2, ?_⟩
      rw [advSum_cons_nonadv _ _ (fun d => by simp)]
      exact h3
  | advance d =>
    simp only [projCons, projOp]
    simp only [cstep] at hs
    have key : s'.ref = s.ref ∧ s'.now = s.now + d ∧ s'.maxTTL = s.maxTTL ∧ s'.getters = s.getters := by
      split at hs <;> cases hs <;> simp
    obtain ⟨h1, h2, h3, h4⟩ := key
    refine ⟨h3 ▸ hM, fun k0 y hy => ?_, fun g hg y hy => ?_⟩
    · rw [h1] at hy
      obtain ⟨t, el, h5, h6⟩ := hR k0 y hy
      refine ⟨t, el + d, ?_, ?_⟩
      · simp only [lastLive]
        rw [lastLive_acc, h5]
        simp
      · rw [h2]
        simp only [Int.natCast_add]
        omega
    · rw [h4] at hg
      obtain ⟨hnew, hpre, h5, t, el, h6, h7⟩ := hG g hg y hy
      refine ⟨Op.advance d :: hnew, hpre, by rw [h5]; rfl, t, el, h6, ?_⟩
      rw [h2]
      simp only [advSum, Int.natCast_add]
      omega
  | gRead id k =>
    simp only [projCons, projOp]
    simp only [cstep] at hs
    split at hs
    · cases hs
    · cases hs
      refine ⟨hM, hR, fun g hg y hy => ?_⟩
      rcases List.mem_cons.1 hg with rfl | hg
      · have hy' : mget s.m k = some y := hy
        obtain ⟨t, el, h1, h2⟩ := hR k y (hA.sub k y hy')
        exact ⟨[], hrev, rfl, t, el, h1, by simpa [advSum] using h2⟩
      · exact hG g hg y hy
  | sNow id k v ttl =>
    obtain ⟨h1, h2, h3, h4⟩ := cstep_frame hs rfl (fun _ _ => by simp)
    exact ⟨h2 ▸ hM, fun k0 y hy => by rw [h1]; exact hR k0 y (h3 k0 y hy),
           fun g hg y hy => by rw [h1]; exact hG g (h4 g hg) y hy⟩
  | gNow id k r =>
    obtain ⟨h1, h2, h3, h4⟩ := cstep_frame hs rfl (fun _ _ => by simp)
    exact ⟨h2 ▸ hM, fun k0 y hy => by rw [h1]; exact hR k0 y (h3 k0 y hy),
           fun g hg y hy => by rw [h1]; exact hG g (h4 g hg) y hy⟩
  | cBegin id r =>
    obtain ⟨h1, h2, h3, h4⟩ := cstep_frame hs rfl (fun _ _ => by simp)
    exact ⟨h2 ▸ hM, fun k0 y hy => by rw [h1]; exact hR k0 y (h3 k0 y hy),
           fun g hg y hy => by rw [h1]; exact hG g (h4 g hg) y hy⟩
  | cNow id =>
    obtain ⟨h1, h2, h3, h4⟩ := cstep_frame hs rfl (fun _ _ => by simp)
    exact ⟨h2 ▸ hM, fun k0 y hy => by rw [h1]; exact hR k0 y (h3 k0 y hy),
           fun g hg y hy => by rw [h1]; exact hG g (h4 g hg) y hy⟩
  | cVisit id k =>
    obtain ⟨h1, h2, h3, h4⟩ := cstep_frame hs rfl (fun _ _ => by simp)
    exact ⟨h2 ▸ hM, fun k0 y hy => by rw [h1]; exact hR k0 y (h3 k0 y hy),
           fun g hg y hy => by rw [h1]; exact hG g (h4 g hg) y hy⟩
  | cSeal id =>
    obtain ⟨h1, h2, h3, h4⟩ := cstep_frame hs rfl (fun _ _ => by simp)
    exact ⟨h2 ▸ hM, fun k0 y hy => by rw [h1]; exact hR k0 y (h3 k0 y hy),
           fun g hg y hy => by rw [h1]; exact hG g (h4 g hg) y hy⟩
  | cDelOne id k st =>
    obtain ⟨h1, h2, h3, h4⟩ := cstep_frame hs rfl (fun _ _ => by simp)
    exact ⟨h2 ▸ hM, fun k0 y hy => by rw [h1]; exact hR k0 y (h3 k0 y hy),
           fun g hg y hy => by rw [h1]; exact hG g (h4 g hg) y hy⟩
  | cEnd id =>
    obtain ⟨h1, h2, h3, h4⟩ := cstep_frame hs rfl (fun _ _ => by simp)
    exact ⟨h2 ▸ hM, fun k0 y hy => by rw [h1]; exact hR k0 y (h3 k0 y hy),
           fun g hg y hy => by rw [h1]; exact hG g (h4 g hg) y hy⟩
  | bgStart =>
    obtain ⟨h1, h2, h3, h4⟩ := cstep_frame hs rfl (fun _ _ => by simp)
    exact ⟨h2 ▸ hM, fun k0 y hy => by rw [h1]; exact hR k0 y (h3 k0 y hy),
           fun g hg y hy => by rw [h1]; exact hG g (h4 g hg) y hy⟩
  | bgTake =>
    obtain ⟨h1, h2, h3, h4⟩ := cstep_frame hs rfl (fun _ _ => by simp)
    exact ⟨h2 ▸ hM, fun k0 y hy => by rw [h1]; exact hR k0 y (h3 k0 y hy),
           fun g hg y hy => by rw [h1]; exact hG g (h4 g hg) y hy⟩
  | bgExit =>
    obtain ⟨h1, h2, h3, h4⟩ := cstep_frame hs rfl (fun _ _ => by simp)
    exact ⟨h2 ▸ hM, fun k0 y hy => by rw [h1]; exact hR k0 y (h3 k0 y hy),
           fun g hg y hy => by rw [h1]; exact hG g (h4 g hg) y hy⟩
  | stopCall c =>
    obtain ⟨h1, h2, h3, h4⟩ := cstep_frame hs rfl (fun _ _ => by simp)
    exact ⟨h2 ▸ hM, fun k0 y hy => by rw [h1]; exact hR k0 y (h3 k0 y hy),
           fun g hg y hy => by rw [h1]; exact hG g (h4 g hg) y hy⟩
  | stopReturn c =>
    obtain ⟨h1, h2, h3, h4⟩ := cstep_frame hs rfl (fun _ _ => by simp)
    exact ⟨h2 ▸ hM, fun k0 y hy => by rw [h1]; exact hR k0 y (h3 k0 y hy),
           fun g hg y hy => by rw [h1]; exact hG g (h4 g hg) y hy⟩

theorem projCons_rev (l : Label) (ls : List Label) (hrev : List Op) :
    ((l :: ls).filterMap projOp).reverse ++ hrev = (ls.filterMap projOp).reverse ++ projCons l hrev := by
  unfold projCons
  cases hp : projOp l with
  | none => simp [hp]
  | some o => simp [hp]

theorem reach_of_crun {maxTTL t0 period : Int} : ∀ (ls : List Label) (a b : CState),
    Reach maxTTL t0 period a → crun a ls = some b → Reach maxTTL t0 period b := by
  intro ls
  induction ls with
  | nil => intro a b ha h; simp only [crun, Option.some.injEq] at h; subst h; exact ha
  | cons l ls ih =>
    intro a b ha h
    simp only [crun] at h
    cases hst : cstep a l with
    | none => simp [hst] at h
    | some a' =>
      simp only [hst] at h
      exact ih a' b (Reach.step _ ha hst) h

theorem refAgree_run {M maxTTL t0 period : Int} : ∀ (ls : List Label) (s s' : CState) (hrev : List Op),
    Reach maxTTL t0 period s → RefAgree M s hrev → crun s ls = some s' →
    RefAgree M s' ((ls.filterMap projOp).reverse ++ hrev) := by
  intro ls
  induction ls with
  | nil => intro s s' hrev _ h hr; simp only [crun, Option.some.injEq] at hr; subst hr; simpa using h
  | cons l ls ih =>
    intro s s' hrev hreach h hr
    simp only [crun] at hr
    cases hst : cstep s l with
    | none => simp [hst] at hr
    | some s1 =>
      simp only [hst] at hr
      rw [projCons_rev]
      have hI := cinv_reach hreach
      exact ih s1 s' _ (Reach.step _ hreach hst) (refAgree_step hI.1 hI.2 h hst) hr


/-! ### a key nobody touches -/

/-- `k`'s reference entry `(e, st)` is intact: not raced, no Reset in flight, and every cleaner that
has collected `k` saw this very entry. -/
structure Intact (s : CState) (k : Key) (e : Entry) (st : Nat) : Prop where
  ref : mget s.ref k = some (e, st)
  notRaced : (k, st) ∉ s.raced
  noReset : ∀ c ∈ s.cls, c.isReset = false
  seen : ∀ c ∈ s.cls, ∀ p ∈ c.keys, p.1 = k → p.2 = st

/-- The label touches key `k` (stores or deletes it) or starts a Reset. -/
def Touches (k : Key) : Label → Prop
  | .sStore _ k' _ _ => k' = k
  | .delete k' => k' = k
  | .cBegin _ r => r = true
  | _ => False

theorem intact_step {s s' : CState} {l : Label} {k : Key} {e : Entry} {st : Nat}
    (hA : CInv s) (h : Intact s k e st) (hs : cstep s l = some s') (hnt : ¬ Touches k l) :
    Intact s' k e st := by
  obtain ⟨hr, hnr, hre, hseen⟩ := h
  cases l with
  | sNow id k0 v ttl =>
    simp only [cstep] at hs
    split at hs
    · cases hs
    · cases hs; exact ⟨hr, hnr, hre, hseen⟩
  | sStore id k0 v ttl =>
    have hk : k ≠ k0 := fun hh => hnt hh.symm
    simp only [cstep] at hs
    split at hs
    case h_2 => cases hs
    split at hs
    case isFalse => cases hs
    cases hs
    exact ⟨by simp [mget_put, hk, hr], hnr, hre, hseen⟩
  | gRead id k0 =>
    simp only [cstep] at hs
    split at hs
    · cases hs
    · cases hs; exact ⟨hr, hnr, hre, hseen⟩
  | gNow id k0 r =>
    simp only [cstep] at hs
    split at hs
    · split at hs
      · cases hs; exact ⟨hr, hnr, hre, hseen⟩
      · cases hs
    · cases hs
  | delete k0 =>
    have hk : k ≠ k0 := fun hh => hnt hh.symm
    simp only [cstep] at hs
    cases hs
    exact ⟨by simp [mget_delKeys_single, hk, hr], hnr, hre, hseen⟩
  | advance d =>
    simp only [cstep] at hs
    have key : s'.ref = s.ref ∧ s'.raced = s.raced ∧ s'.cls = s.cls := by
      split at hs <;> cases hs <;> simp
    obtain ⟨h1, h2, h3⟩ := key
    exact ⟨h1 ▸ hr, h2 ▸ hnr, h3 ▸ hre, h3 ▸ hseen⟩
  | cBegin id r =>
    have hrf : r = false := by
      cases r
      · rfl
      · exact absurd rfl hnt
    subst hrf
    simp only [cstep] at hs
    split at hs
    · cases hs
    · cases hs
      refine ⟨hr, hnr, ?_, ?_⟩
      · intro c hc
        rcases List.mem_cons.1 hc with rfl | hc
        · rfl
        · exact hre c hc
      · intro c hc p hp
        rcases List.mem_cons.1 hc with rfl | hc
        · simp at hp
        · exact hseen c hc p hp
  | cNow id =>
    simp only [cstep] at hs
    split at hs
    · split at hs
      · cases hs
        refine ⟨hr, hnr, ?_, ?_⟩
        · intro c' hc'
          obtain ⟨c, hc, hcc | ⟨_, hcc⟩⟩ := mem_updCl hc' <;> subst hcc
          · exact hre c hc
          · split <;> exact hre c hc
        · intro c' hc' p hp
          obtain ⟨c, hc, hcc | ⟨_, hcc⟩⟩ := mem_updCl hc' <;> subst hcc
          · exact hseen c hc p hp
          · split at hp <;> exact hseen c hc p hp
      · cases hs
    · cases hs
  | cVisit id k0 =>
    simp only [cstep] at hs
    split at hs
    · split at hs
      · cases hs
        refine ⟨hr, hnr, ?_, ?_⟩
        · intro c' hc'
          obtain ⟨c, hc, hcc | ⟨_, hcc⟩⟩ := mem_updCl hc' <;> subst hcc
          · exact hre c hc
          · split
            · show (visit s.m c k0).isReset = false
              rw [(visit_props s.m c k0).2.2.2.1]; exact hre c hc
            · exact hre c hc
        · intro c' hc' p hp hpk
          obtain ⟨c, hc, hcc | ⟨_, hcc⟩⟩ := mem_updCl hc' <;> subst hcc
          · exact hseen c hc p hp hpk
          · by_cases hsc : c.phase = Phase.scanning
            · simp only [hsc, if_true] at hp
              have hp' : p ∈ (visit s.m c k0).keys := hp
              unfold visit at hp'
              split at hp'
              · rename_i e0 st0 hg
                split at hp'
                · rcases List.mem_append.1 hp' with h1 | h1
                  · exact hseen c hc p h1 hpk
                  · simp only [List.mem_singleton] at h1
                    subst h1
                    simp only at hpk
                    subst hpk
                    have := hA.sub _ _ hg
                    rw [hr] at this
                    simp only [Option.some.injEq, Prod.mk.injEq] at this
                    exact this.2.symm
                · exact hseen c hc p hp' hpk
              · exact hseen c hc p hp' hpk
            · simp only [hsc, if_false] at hp
              exact hseen c hc p hp hpk
      · cases hs
    · cases hs
  | cSeal id =>
    simp only [cstep] at hs
    split at hs
    · split at hs
      · cases hs
        refine ⟨hr, hnr, ?_, ?_⟩
        · intro c' hc'
          obtain ⟨c, hc, hcc | ⟨_, hcc⟩⟩ := mem_updCl hc' <;> subst hcc
          · exact hre c hc
          · split <;> exact hre c hc
        · intro c' hc' p hp
          obtain ⟨c, hc, hcc | ⟨_, hcc⟩⟩ := mem_updCl hc' <;> subst hcc
          · exact hseen c hc p hp
          · split at hp <;> exact hseen c hc p hp
      · cases hs
    · cases hs
  | cDelOne id k0 st0 =>
    simp only [cstep] at hs
    split at hs
    · rename_i c0 hfind
      obtain ⟨hc0, _⟩ := findCl_some hfind
      split at hs
      · rename_i hcond
        have hcls : (∀ c ∈ updCl s.cls id (fun c => { c with keys := c.keys.filter (fun p => p != (k0, st0)) }), c.isReset = false) ∧
            (∀ c ∈ updCl s.cls id (fun c => { c with keys := c.keys.filter (fun p => p != (k0, st0)) }),
              ∀ p ∈ c.keys, p.1 = k → p.2 = st) := by
          constructor
          · intro c' hc'
            obtain ⟨c, hc, hcc | ⟨_, hcc⟩⟩ := mem_updCl hc' <;> subst hcc <;> exact hre c hc
          · intro c' hc' p hp
            obtain ⟨c, hc, hcc | ⟨_, hcc⟩⟩ := mem_updCl hc' <;> subst hcc
            · exact hseen c hc p hp
            · exact hseen c hc p (List.mem_filter.1 hp).1
        split at hs
        · cases hs; exact ⟨hr, hnr, hcls.1, hcls.2⟩
        · rename_i e1 st1 hg
          split at hs
          · cases hs
            refine ⟨?_, hnr, hcls.1, hcls.2⟩
            show mget (if c0.isReset = true then mdelKeys s.ref [k0] else s.ref) k = some (e, st)
            rw [hre c0 hc0]
            simpa using hr
          · rename_i hne
            cases hs
            refine ⟨hr, ?_, hcls.1, hcls.2⟩
            intro hmem
            rcases List.mem_cons.1 hmem with heq | hmem
            · simp only [Prod.mk.injEq] at heq
              obtain ⟨hk, hst⟩ := heq
              subst hk
              have h1 := hseen c0 hc0 (k, st0) hcond.2 rfl
              simp only at h1
              exact hne (by rw [← hst, h1])
            · exact hnr hmem
      · cases hs
    · cases hs
  | cEnd id =>
    simp only [cstep] at hs
    split at hs
    · split at hs
      · cases hs
        exact ⟨hr, hnr, fun c hc => hre c (List.mem_filter.1 hc).1,
               fun c hc => hseen c (List.mem_filter.1 hc).1⟩
      · cases hs
    · cases hs
  | bgStart =>
    simp only [cstep] at hs
    split at hs
    · cases hs; exact ⟨hr, hnr, hre, hseen⟩
    · cases hs
  | bgTake =>
    simp only [cstep] at hs
    split at hs
    · cases hs
      refine ⟨hr, hnr, ?_, ?_⟩
      · intro c hc
        rcases List.mem_cons.1 hc with rfl | hc
        · rfl
        · exact hre c hc
      · intro c hc p hp
        rcases List.mem_cons.1 hc with rfl | hc
        · simp at hp
        · exact hseen c hc p hp
    · cases hs
  | bgExit =>
    simp only [cstep] at hs
    split at hs
    · cases hs; exact ⟨hr, hnr, hre, hseen⟩
    · cases hs
  | stopCall c =>
    simp only [cstep] at hs
    split at hs
    · cases hs
    · cases hs; exact ⟨hr, hnr, hre, hseen⟩
  | stopReturn c =>
    simp only [cstep] at hs
    split at hs
    · cases hs; exact ⟨hr, hnr, hre, hseen⟩
    · cases hs

theorem intact_run {maxTTL t0 period : Int} {k : Key} {e : Entry} {st : Nat} :
    ∀ (ls : List Label) (s s' : CState), Reach maxTTL t0 period s → Intact s k e st →
      crun s ls = some s' → (∀ l ∈ ls, ¬ Touches k l) → Intact s' k e st := by
  intro ls
  induction ls with
  | nil => intro s s' _ h hr _; simp only [crun, Option.some.injEq] at hr; subst hr; exact h
  | cons l ls ih =>
    intro s s' hreach h hr hnt
    simp only [crun] at hr
    cases hst : cstep s l with
    | none => simp [hst] at hr
    | some s1 =>
      simp only [hst] at hr
      exact ih s1 s' (Reach.step _ hreach hst)
        (intact_step (cinv_reach hreach).1 h hst (hnt l (by simp))) hr
        (fun l' hl' => hnt l' (List.mem_cons_of_mem _ hl'))

end Kit.TTLCache
