import KitModel.TTLCache
import KitProofs.Lemmas.TTLCache
/-! Inductive invariant of the concurrent ttlcache LTS (C15). -/
namespace Kit.TTLCache

theorem findCl_some {cls : List Cleaner} {id : Nat} {c : Cleaner} (h : findCl cls id = some c) :
    c ∈ cls ∧ c.id = id := by
  unfold findCl at h
  exact ⟨List.mem_of_find?_eq_some h, by simpa using List.find?_some h⟩

theorem mem_updCl {cls : List Cleaner} {id : Nat} {f : Cleaner → Cleaner} {c' : Cleaner}
    (h : c' ∈ updCl cls id f) : ∃ c ∈ cls, c = c' ∨ (c.id = id ∧ c' = f c) := by
  unfold updCl at h
  obtain ⟨c, hc, rfl⟩ := List.mem_map.1 h
  refine ⟨c, hc, ?_⟩
  by_cases hid : c.id = id
  · right; simp [hid]
  · left; simp [hid]

/-- The invariant. `sub`: the stored map only ever lacks entries w.r.t. the callers' reference map
`ref`; `seenExpired`: a key collected by a `Cleanup` was expired at that cleaner's clock reading
(as long as the entry it saw is still the current one); `explained`: a reference entry missing
from the stored map is either expired or recorded in `raced`. -/
structure CInv (s : CState) : Prop where
  sub : ∀ k x, mget s.m k = some x → mget s.ref k = some x
  stampRef : ∀ k x, mget s.ref k = some x → x.2 < s.stamp
  stampSeen : ∀ c ∈ s.cls, ∀ p ∈ c.keys, p.2 < s.stamp
  startedEmpty : ∀ c ∈ s.cls, c.phase = .started → c.keys = []
  now0 : ∀ c ∈ s.cls, c.phase ≠ .started → c.now0 ≤ s.now
  seenExpired : ∀ c ∈ s.cls, c.isReset = false → ∀ p ∈ c.keys, ∀ e,
      mget s.ref p.1 = some (e, p.2) → e.exp < c.now0
  explained : ∀ k e st, mget s.ref k = some (e, st) → mget s.m k = none →
      e.exp < s.now ∨ (k, st) ∈ s.raced
  bgCl : ∀ c ∈ s.cls, c.id = 0 → s.bg = .cleaning
  closed : s.runningClosed = true → s.bg = .exited ∧ s.tickerStopped = true

theorem cinv_init (maxTTL t0 period : Int) : CInv (CState.init maxTTL t0 period) := by
  constructor <;> simp [CState.init, mget]

theorem cinv_step {s s' : CState} {l : Label} (h : CInv s) (hs : cstep s l = some s') : CInv s' := by
  cases l with
  | set k v ttl =>
    simp only [cstep] at hs
    split at hs
    · cases hs
    · cases hs
      refine ⟨?_, ?_, ?_, h.startedEmpty, h.now0, ?_, ?_, h.bgCl, h.closed⟩
      · intro k0 x hx
        simp only [mget_put] at hx ⊢
        split
        · rename_i hk; simpa [hk] using hx
        · rename_i hk; simp only [hk, if_false] at hx; exact h.sub k0 x hx
      · intro k0 x hx
        simp only [mget_put] at hx
        split at hx
        · cases hx; exact Nat.lt_succ_self _
        · exact Nat.lt_succ_of_lt (h.stampRef k0 x hx)
      · intro c hc p hp
        exact Nat.lt_succ_of_lt (h.stampSeen c hc p hp)
      · intro c hc hr p hp e he
        simp only [mget_put] at he
        split at he
        · have := h.stampSeen c hc p hp
          simp only [Option.some.injEq, Prod.mk.injEq] at he
          omega
        · exact h.seenExpired c hc hr p hp e he
      · intro k0 e st he hm
        simp only [mget_put] at he hm
        split at hm
        · cases hm
        · rename_i hk
          simp only [hk, if_false] at he
          exact h.explained k0 e st he hm
  | get k r =>
    simp only [cstep] at hs
    split at hs
    · cases hs; exact h
    · cases hs
  | delete k =>
    simp only [cstep] at hs
    cases hs
    refine ⟨?_, ?_, h.stampSeen, h.startedEmpty, h.now0, ?_, ?_, h.bgCl, h.closed⟩
    · intro k0 x hx
      simp only [mget_delKeys_single] at hx ⊢
      split at hx
      · cases hx
      · rename_i hk; simp only [hk, if_false]; exact h.sub k0 x hx
    · intro k0 x hx
      simp only [mget_delKeys_single] at hx
      split at hx
      · cases hx
      · exact h.stampRef k0 x hx
    · intro c hc hr p hp e he
      simp only [mget_delKeys_single] at he
      split at he
      · cases he
      · exact h.seenExpired c hc hr p hp e he
    · intro k0 e st he hm
      simp only [mget_delKeys_single] at he hm
      split at he
      · cases he
      · rename_i hk
        simp only [hk, if_false] at hm
        exact h.explained k0 e st he hm
  | advance d =>
    simp only [cstep] at hs
    have key : s'.m = s.m ∧ s'.ref = s.ref ∧ s'.cls = s.cls ∧ s'.stamp = s.stamp ∧ s'.raced = s.raced ∧
        s'.now = s.now + d ∧ s'.bg = s.bg ∧ s'.runningClosed = s.runningClosed ∧
        s'.tickerStopped = s.tickerStopped := by
      split at hs <;> cases hs <;> simp
    obtain ⟨h1, h2, h3, h4, h5, h6, h7, h8, h9⟩ := key
    refine ⟨?_, ?_, ?_, ?_, ?_, ?_, ?_, ?_, ?_⟩
    · rw [h1, h2]; exact h.sub
    · rw [h2, h4]; exact h.stampRef
    · rw [h3, h4]; exact h.stampSeen
    · rw [h3]; exact h.startedEmpty
    · rw [h3, h6]; intro c hc hp; have := h.now0 c hc hp; omega
    · rw [h3, h2]; exact h.seenExpired
    · rw [h1, h2, h5, h6]
      intro k e st he hm
      rcases h.explained k e st he hm with hlt | hr
      · left; omega
      · right; exact hr
    · rw [h3, h7]; exact h.bgCl
    · rw [h7, h8, h9]; exact h.closed
  | cBegin id r =>
    simp only [cstep] at hs
    split at hs
    · cases hs
    · rename_i hcond
      cases hs
      have hid : id ≠ 0 := fun h0 => hcond (Or.inl h0)
      refine ⟨h.sub, h.stampRef, ?_, ?_, ?_, ?_, h.explained, ?_, h.closed⟩
      · intro c hc p hp
        rcases List.mem_cons.1 hc with rfl | hc
        · simp at hp
        · exact h.stampSeen c hc p hp
      · intro c hc hp
        rcases List.mem_cons.1 hc with rfl | hc
        · rfl
        · exact h.startedEmpty c hc hp
      · intro c hc hp
        rcases List.mem_cons.1 hc with rfl | hc
        · simp at hp
        · exact h.now0 c hc hp
      · intro c hc hr p hp
        rcases List.mem_cons.1 hc with rfl | hc
        · simp at hp
        · exact h.seenExpired c hc hr p hp
      · intro c hc h0
        rcases List.mem_cons.1 hc with rfl | hc
        · exact absurd h0 hid
        · exact h.bgCl c hc h0
  | cNow id =>
    simp only [cstep] at hs
    split at hs
    · split at hs
      · cases hs
        refine ⟨h.sub, h.stampRef, ?_, ?_, ?_, ?_, h.explained, ?_, h.closed⟩
        · intro c' hc' p hp
          obtain ⟨c, hc, hcc | ⟨_, hcc⟩⟩ := mem_updCl hc' <;> subst hcc
          · exact h.stampSeen c hc p hp
          · split at hp
            · exact h.stampSeen c hc p hp
            · exact h.stampSeen c hc p hp
        · intro c' hc' hph
          obtain ⟨c, hc, hcc | ⟨_, hcc⟩⟩ := mem_updCl hc' <;> subst hcc
          · exact h.startedEmpty c hc hph
          · split at hph
            · cases hph
            · split
              · rename_i h1 h2; exact absurd h2 h1
              · exact h.startedEmpty c hc hph
        · intro c' hc' hph
          obtain ⟨c, hc, hcc | ⟨_, hcc⟩⟩ := mem_updCl hc' <;> subst hcc
          · exact h.now0 c hc hph
          · split
            · exact Int.le_refl _
            · rename_i hns; exact h.now0 c hc hns
        · intro c' hc' hr p hp
          obtain ⟨c, hc, hcc | ⟨_, hcc⟩⟩ := mem_updCl hc' <;> subst hcc
          · exact h.seenExpired c hc hr p hp
          · split at hp
            · rename_i hst
              have := h.startedEmpty c hc hst
              simp [this] at hp
            · rename_i hst
              simp only [hst, if_false] at hr ⊢
              exact h.seenExpired c hc hr p hp
        · intro c' hc' h0
          obtain ⟨c, hc, hcc | ⟨_, hcc⟩⟩ := mem_updCl hc' <;> subst hcc
          · exact h.bgCl c hc h0
          · refine h.bgCl c hc ?_
            split at h0 <;> exact h0
      · cases hs
    · cases hs
  | cVisit id k =>
    simp only [cstep] at hs
    split at hs
    · split at hs
      · cases hs
        have hv : ∀ c : Cleaner, (visit s.m c k).id = c.id ∧ (visit s.m c k).phase = c.phase ∧
            (visit s.m c k).now0 = c.now0 ∧ (visit s.m c k).isReset = c.isReset ∧
            ∀ p ∈ (visit s.m c k).keys, p ∈ c.keys ∨
              (p.1 = k ∧ ∃ e, mget s.m k = some (e, p.2) ∧ (c.isReset = true ∨ e.exp < c.now0)) := by
          intro c
          unfold visit
          split
          · rename_i e st hg
            split
            · rename_i hcond
              refine ⟨rfl, rfl, rfl, rfl, ?_⟩
              intro p hp
              rcases List.mem_append.1 hp with hp | hp
              · exact Or.inl hp
              · simp only [List.mem_singleton] at hp
                subst hp
                right
                refine ⟨rfl, e, hg, ?_⟩
                have hc2 : c.isReset = true ∨ expiredAt c.now0 e = true := by simpa using hcond
                rcases hc2 with h1 | h1
                · exact Or.inl h1
                · exact Or.inr (by simpa [expiredAt] using h1)
            · exact ⟨rfl, rfl, rfl, rfl, fun p hp => Or.inl hp⟩
          · exact ⟨rfl, rfl, rfl, rfl, fun p hp => Or.inl hp⟩
        -- every updated cleaner relates to an old one
        have hrel : ∀ c' ∈ updCl s.cls id (fun c => if c.phase = Phase.scanning then visit s.m c k else c),
            ∃ c ∈ s.cls, c'.id = c.id ∧ c'.phase = c.phase ∧ c'.now0 = c.now0 ∧ c'.isReset = c.isReset ∧
              ∀ p ∈ c'.keys, p ∈ c.keys ∨ (c.phase = .scanning ∧
                p.1 = k ∧ ∃ e, mget s.m k = some (e, p.2) ∧ (c.isReset = true ∨ e.exp < c.now0)) := by
          intro c' hc'
          obtain ⟨c, hc, hcc | ⟨_, hcc⟩⟩ := mem_updCl hc' <;> subst hcc
          · exact ⟨c, hc, rfl, rfl, rfl, rfl, fun p hp => Or.inl hp⟩
          · refine ⟨c, hc, ?_⟩
            split
            · rename_i hsc
              obtain ⟨a, b, c1, d, e⟩ := hv c
              refine ⟨a, b, c1, d, fun p hp => ?_⟩
              rcases e p hp with h1 | h1
              · exact Or.inl h1
              · exact Or.inr ⟨hsc, h1⟩
            · exact ⟨rfl, rfl, rfl, rfl, fun p hp => Or.inl hp⟩
        refine ⟨h.sub, h.stampRef, ?_, ?_, ?_, ?_, h.explained, ?_, h.closed⟩
        · intro c' hc' p hp
          obtain ⟨c, hc, _, _, _, _, hk⟩ := hrel c' hc'
          rcases hk p hp with h1 | ⟨_, _, e, hg, _⟩
          · exact h.stampSeen c hc p h1
          · exact h.stampRef k (e, p.2) (h.sub k _ hg)
        · intro c' hc' hph
          obtain ⟨c, hc, _, hp2, _, _, hk⟩ := hrel c' hc'
          have hce := h.startedEmpty c hc (hp2 ▸ hph)
          cases hkeys : c'.keys with
          | nil => rfl
          | cons p ps =>
            have hp : p ∈ c'.keys := by simp [hkeys]
            rcases hk p hp with h1 | ⟨hsc, _⟩
            · simp [hce] at h1
            · rw [← hp2, hph] at hsc; cases hsc
        · intro c' hc' hph
          obtain ⟨c, hc, _, hp2, hn, _, _⟩ := hrel c' hc'
          rw [hn]; exact h.now0 c hc (hp2 ▸ hph)
        · intro c' hc' hr p hp e he
          obtain ⟨c, hc, _, _, hn, hre, hk⟩ := hrel c' hc'
          rw [hn]
          rcases hk p hp with h1 | ⟨_, hpk, e0, hg, hcond⟩
          · exact h.seenExpired c hc (hre ▸ hr) p h1 e he
          · have := h.sub k _ hg
            rw [hpk, this] at he
            simp only [Option.some.injEq, Prod.mk.injEq] at he
            rcases hcond with hcr | hlt
            · rw [← hre, hr] at hcr; cases hcr
            · rw [← he.1]; exact hlt
        · intro c' hc' h0
          obtain ⟨c, hc, hid, _⟩ := hrel c' hc'
          exact h.bgCl c hc (hid ▸ h0)
      · cases hs
    · cases hs
  | cSeal id =>
    simp only [cstep] at hs
    split at hs
    · split at hs
      · cases hs
        have hrel : ∀ c' ∈ updCl s.cls id (fun c => if c.phase = Phase.scanning then { c with phase := Phase.deleting } else c),
            ∃ c ∈ s.cls, c'.id = c.id ∧ c'.keys = c.keys ∧ c'.now0 = c.now0 ∧ c'.isReset = c.isReset ∧
              (c'.phase = c.phase ∨ (c.phase = .scanning ∧ c'.phase = .deleting)) := by
          intro c' hc'
          obtain ⟨c, hc, hcc | ⟨_, hcc⟩⟩ := mem_updCl hc' <;> subst hcc
          · exact ⟨c, hc, rfl, rfl, rfl, rfl, Or.inl rfl⟩
          · refine ⟨c, hc, ?_⟩
            split
            · rename_i hsc; exact ⟨rfl, rfl, rfl, rfl, Or.inr ⟨hsc, rfl⟩⟩
            · exact ⟨rfl, rfl, rfl, rfl, Or.inl rfl⟩
        refine ⟨h.sub, h.stampRef, ?_, ?_, ?_, ?_, h.explained, ?_, h.closed⟩
        · intro c' hc' p hp
          obtain ⟨c, hc, _, hk, _⟩ := hrel c' hc'
          exact h.stampSeen c hc p (hk ▸ hp)
        · intro c' hc' hph
          obtain ⟨c, hc, _, hk, _, _, hphase⟩ := hrel c' hc'
          rw [hk]
          rcases hphase with h1 | ⟨_, h2⟩
          · exact h.startedEmpty c hc (h1 ▸ hph)
          · rw [h2] at hph; cases hph
        · intro c' hc' hph
          obtain ⟨c, hc, _, _, hn, _, hphase⟩ := hrel c' hc'
          rw [hn]
          rcases hphase with h1 | ⟨h1, _⟩
          · exact h.now0 c hc (h1 ▸ hph)
          · exact h.now0 c hc (by rw [h1]; decide)
        · intro c' hc' hr p hp e he
          obtain ⟨c, hc, _, hk, hn, hre, _⟩ := hrel c' hc'
          rw [hn]
          exact h.seenExpired c hc (hre ▸ hr) p (hk ▸ hp) e he
        · intro c' hc' h0
          obtain ⟨c, hc, hid, _⟩ := hrel c' hc'
          exact h.bgCl c hc (hid ▸ h0)
      · cases hs
    · cases hs
  | cDelOne id k st =>
    simp only [cstep] at hs
    split at hs
    · rename_i c0 hfind
      obtain ⟨hc0, _⟩ := findCl_some hfind
      split at hs
      · rename_i hcond
        obtain ⟨hdel, hmem⟩ := hcond
        have hrel : ∀ c' ∈ updCl s.cls id (fun c => { c with keys := c.keys.filter (fun p => p != (k, st)) }),
            ∃ c ∈ s.cls, c'.id = c.id ∧ c'.phase = c.phase ∧ c'.now0 = c.now0 ∧ c'.isReset = c.isReset ∧
              ∀ p ∈ c'.keys, p ∈ c.keys := by
          intro c' hc'
          obtain ⟨c, hc, hcc | ⟨_, hcc⟩⟩ := mem_updCl hc' <;> subst hcc
          · exact ⟨c, hc, rfl, rfl, rfl, rfl, fun p hp => hp⟩
          · exact ⟨c, hc, rfl, rfl, rfl, rfl, fun p hp => (List.mem_filter.1 hp).1⟩
        -- facts that do not depend on which branch is taken
        have hcls : ∀ (s2 : CState), s2.cls = updCl s.cls id (fun c => { c with keys := c.keys.filter (fun p => p != (k, st)) }) →
            s2.stamp = s.stamp → s2.now = s.now → s2.bg = s.bg →
            (∀ k0 x, mget s2.ref k0 = some x → mget s.ref k0 = some x) →
            (∀ c ∈ s2.cls, ∀ p ∈ c.keys, p.2 < s2.stamp) ∧
            (∀ c ∈ s2.cls, c.phase = .started → c.keys = []) ∧
            (∀ c ∈ s2.cls, c.phase ≠ .started → c.now0 ≤ s2.now) ∧
            (∀ c ∈ s2.cls, c.isReset = false → ∀ p ∈ c.keys, ∀ e,
                mget s2.ref p.1 = some (e, p.2) → e.exp < c.now0) ∧
            (∀ c ∈ s2.cls, c.id = 0 → s2.bg = .cleaning) := by
          intro s2 e1 e2 e3 e4 hsubref
          rw [e1, e2, e3, e4]
          refine ⟨?_, ?_, ?_, ?_, ?_⟩
          · intro c' hc' p hp
            obtain ⟨c, hc, _, _, _, _, hk⟩ := hrel c' hc'
            exact h.stampSeen c hc p (hk p hp)
          · intro c' hc' hph
            obtain ⟨c, hc, _, hp2, _, _, hk⟩ := hrel c' hc'
            have hce := h.startedEmpty c hc (hp2 ▸ hph)
            cases hkeys : c'.keys with
            | nil => rfl
            | cons p ps =>
              have hp : p ∈ c'.keys := by simp [hkeys]
              have := hk p hp
              simp [hce] at this
          · intro c' hc' hph
            obtain ⟨c, hc, _, hp2, hn, _, _⟩ := hrel c' hc'
            rw [hn]; exact h.now0 c hc (hp2 ▸ hph)
          · intro c' hc' hr p hp e he
            obtain ⟨c, hc, _, _, hn, hre, hk⟩ := hrel c' hc'
            rw [hn]
            exact h.seenExpired c hc (hre ▸ hr) p (hk p hp) e (hsubref _ _ he)
          · intro c' hc' h0
            obtain ⟨c, hc, hid, _⟩ := hrel c' hc'
            exact h.bgCl c hc (hid ▸ h0)
        split at hs
        · -- key already absent from the stored map
          cases hs
          obtain ⟨a1, a2, a3, a4, a5⟩ := hcls
            { s with cls := updCl s.cls id (fun c => { c with keys := c.keys.filter (fun p => p != (k, st)) }) }
            rfl rfl rfl rfl (fun _ _ hx => hx)
          exact ⟨h.sub, h.stampRef, a1, a2, a3, a4, h.explained, a5, h.closed⟩
        · rename_i e0 st' hg
          split at hs
          · -- the entry the visit saw is still the current one
            rename_i hst
            subst hst
            cases hs
            have hsubref : ∀ k0 x, mget (if c0.isReset = true then mdelKeys s.ref [k] else s.ref) k0 = some x →
                mget s.ref k0 = some x := by
              intro k0 x hx
              split at hx
              · simp only [mget_delKeys_single] at hx
                split at hx
                · cases hx
                · exact hx
              · exact hx
            obtain ⟨a1, a2, a3, a4, a5⟩ := hcls
              { s with m := mdelKeys s.m [k],
                       cls := updCl s.cls id (fun c => { c with keys := c.keys.filter (fun p => p != (k, st')) }),
                       ref := if c0.isReset = true then mdelKeys s.ref [k] else s.ref }
              rfl rfl rfl rfl hsubref
            refine ⟨?_, ?_, a1, a2, a3, a4, ?_, a5, h.closed⟩
            · intro k0 x hx
              simp only [mget_delKeys_single] at hx
              split at hx
              · cases hx
              · rename_i hk
                have := h.sub k0 x hx
                show mget (if c0.isReset = true then mdelKeys s.ref [k] else s.ref) k0 = some x
                split
                · simp [mget_delKeys_single, hk, this]
                · exact this
            · intro k0 x hx
              exact h.stampRef k0 x (hsubref k0 x hx)
            · intro k0 e st2 he hm
              have he' : mget (if c0.isReset = true then mdelKeys s.ref [k] else s.ref) k0 = some (e, st2) := he
              have hm' : mget (mdelKeys s.m [k]) k0 = none := hm
              show e.exp < s.now ∨ (k0, st2) ∈ s.raced
              simp only [mget_delKeys_single] at hm'
              by_cases hk : k0 = k
              · subst hk
                cases hr : c0.isReset with
                | true =>
                  rw [hr] at he'
                  simp [mget_delKeys_single] at he'
                | false =>
                  rw [hr] at he'
                  simp only [Bool.false_eq_true, if_false] at he'
                  have hsub := h.sub k0 _ hg
                  rw [hsub] at he'
                  simp only [Option.some.injEq, Prod.mk.injEq] at he'
                  obtain ⟨rfl, rfl⟩ := he'
                  have h1 := h.seenExpired c0 hc0 hr (k0, st') hmem e0 hsub
                  have h2 := h.now0 c0 hc0 (by rw [hdel]; decide)
                  left; omega
              · simp only [hk, if_false] at hm'
                refine h.explained k0 e st2 (hsubref _ _ he') hm'
          · -- documented race: the stored entry is newer than the one the visit saw
            rename_i hst
            cases hs
            obtain ⟨a1, a2, a3, a4, a5⟩ := hcls
              { s with m := mdelKeys s.m [k],
                       cls := updCl s.cls id (fun c => { c with keys := c.keys.filter (fun p => p != (k, st)) }),
                       raced := (k, st') :: s.raced }
              rfl rfl rfl rfl (fun _ _ hx => hx)
            refine ⟨?_, h.stampRef, a1, a2, a3, a4, ?_, a5, h.closed⟩
            · intro k0 x hx
              simp only [mget_delKeys_single] at hx
              split at hx
              · cases hx
              · exact h.sub k0 x hx
            · intro k0 e st2 he hm
              have hm' : mget (mdelKeys s.m [k]) k0 = none := hm
              have he' : mget s.ref k0 = some (e, st2) := he
              show e.exp < s.now ∨ (k0, st2) ∈ (k, st') :: s.raced
              simp only [mget_delKeys_single] at hm'
              by_cases hk : k0 = k
              · subst hk
                have hsub := h.sub k0 _ hg
                rw [hsub] at he'
                simp only [Option.some.injEq, Prod.mk.injEq] at he'
                right; simp [he'.2]
              · simp only [hk, if_false] at hm'
                rcases h.explained k0 e st2 he' hm' with h1 | h1
                · exact Or.inl h1
                · exact Or.inr (List.mem_cons_of_mem _ h1)
      · cases hs
    · cases hs
  | cEnd id =>
    simp only [cstep] at hs
    split at hs
    · rename_i c0 hfind
      obtain ⟨hc0, hid0⟩ := findCl_some hfind
      split at hs
      · cases hs
        have hsubl : ∀ c ∈ s.cls.filter (fun c => c.id != id), c ∈ s.cls ∧ c.id ≠ id := by
          intro c hc
          have := List.mem_filter.1 hc
          exact ⟨this.1, by simpa using this.2⟩
        refine ⟨h.sub, h.stampRef, ?_, ?_, ?_, ?_, h.explained, ?_, ?_⟩
        · intro c hc; exact h.stampSeen c (hsubl c hc).1
        · intro c hc; exact h.startedEmpty c (hsubl c hc).1
        · intro c hc; exact h.now0 c (hsubl c hc).1
        · intro c hc; exact h.seenExpired c (hsubl c hc).1
        · intro c hc h0
          obtain ⟨hc1, hne⟩ := hsubl c hc
          have : id ≠ 0 := fun hh => hne (by rw [h0, hh])
          simp only [this, if_false]
          exact h.bgCl c hc1 h0
        · intro hrc
          have := h.closed hrc
          by_cases hz : id = 0
          · have hb := h.bgCl c0 hc0 (by rw [hid0, hz])
            rw [this.1] at hb; cases hb
          · simpa [hz] using this
      · cases hs
    · cases hs
  | bgTake =>
    simp only [cstep] at hs
    split at hs
    · rename_i hcond
      cases hs
      refine ⟨h.sub, h.stampRef, ?_, ?_, ?_, ?_, h.explained, ?_, ?_⟩
      · intro c hc p hp
        rcases List.mem_cons.1 hc with rfl | hc
        · simp at hp
        · exact h.stampSeen c hc p hp
      · intro c hc hp
        rcases List.mem_cons.1 hc with rfl | hc
        · rfl
        · exact h.startedEmpty c hc hp
      · intro c hc hp
        rcases List.mem_cons.1 hc with rfl | hc
        · simp at hp
        · exact h.now0 c hc hp
      · intro c hc hr p hp
        rcases List.mem_cons.1 hc with rfl | hc
        · simp at hp
        · exact h.seenExpired c hc hr p hp
      · intro _ _ _; rfl
      · intro hrc
        have := (h.closed hrc).1
        rw [hcond.1] at this; cases this
    · cases hs
  | bgExit =>
    simp only [cstep] at hs
    split at hs
    · rename_i hcond
      cases hs
      refine ⟨h.sub, h.stampRef, h.stampSeen, h.startedEmpty, h.now0, h.seenExpired, h.explained, ?_, ?_⟩
      · intro c hc h0
        have := h.bgCl c hc h0
        rw [hcond.1] at this; cases this
      · intro _; exact ⟨rfl, rfl⟩
    · cases hs
  | stopCall caller =>
    simp only [cstep] at hs
    split at hs
    · cases hs
    · cases hs
      exact ⟨h.sub, h.stampRef, h.stampSeen, h.startedEmpty, h.now0, h.seenExpired, h.explained, h.bgCl, h.closed⟩
  | stopReturn caller =>
    simp only [cstep] at hs
    split at hs
    · cases hs
      exact ⟨h.sub, h.stampRef, h.stampSeen, h.startedEmpty, h.now0, h.seenExpired, h.explained, h.bgCl, h.closed⟩
    · cases hs

theorem cinv_reach {maxTTL t0 period : Int} {s : CState} (h : Reach maxTTL t0 period s) : CInv s := by
  induction h with
  | init => exact cinv_init _ _ _
  | step l _ hs ih => exact cinv_step ih hs

/-! ### the reference map agrees with the backwards scan over the run's labels -/

/-- History (most recent first) extended by one label. -/
def projCons (l : Label) (hrev : List Op) : List Op :=
  match projOp l with
  | some o => o :: hrev
  | none => hrev

/-- `ref` versus the scan `lastLive` over the callers' labels so far. -/
def RefAgree (M : Int) (s : CState) (hrev : List Op) : Prop :=
  s.maxTTL = M ∧ ∀ k x, mget s.ref k = some x →
    ∃ ttl el, lastLive k hrev 0 = some (x.1.val, ttl, el) ∧ x.1.exp = s.now - (el : Int) + durNs M ttl

/-- Labels that are not caller operations leave clock and configuration alone and can only
shrink `ref`. -/
theorem cstep_frame {s s' : CState} {l : Label} (hs : cstep s l = some s') (hp : projOp l = none) :
    s'.now = s.now ∧ s'.maxTTL = s.maxTTL ∧ ∀ k x, mget s'.ref k = some x → mget s.ref k = some x := by
  cases l
  case set => simp [projOp] at hp
  case delete => simp [projOp] at hp
  case advance => simp [projOp] at hp
  case cDelOne id k st =>
    simp only [cstep] at hs
    split at hs
    · split at hs
      · split at hs
        · cases hs; exact ⟨rfl, rfl, fun _ _ h => h⟩
        · split at hs
          · cases hs
            refine ⟨rfl, rfl, fun k0 x hx => ?_⟩
            have hx' : mget (if (_ : Cleaner).isReset = true then mdelKeys s.ref [k] else s.ref) k0 = some x := hx
            split at hx'
            · simp only [mget_delKeys_single] at hx'
              split at hx'
              · cases hx'
              · exact hx'
            · exact hx'
          · cases hs; exact ⟨rfl, rfl, fun _ _ h => h⟩
      · cases hs
    · cases hs
  all_goals
    simp only [cstep] at hs
    repeat' split at hs
    all_goals first
      | (cases hs; exact ⟨rfl, rfl, fun _ _ h => h⟩)
      | cases hs

theorem refAgree_init (maxTTL t0 period : Int) : RefAgree maxTTL (CState.init maxTTL t0 period) [] :=
  ⟨rfl, fun k x h => by simp [CState.init, mget] at h⟩

theorem refAgree_step {M : Int} {s s' : CState} {l : Label} {hrev : List Op}
    (h : RefAgree M s hrev) (hs : cstep s l = some s') : RefAgree M s' (projCons l hrev) := by
  obtain ⟨hM, hR⟩ := h
  cases hp : projOp l with
  | none =>
    obtain ⟨h1, h2, h3⟩ := cstep_frame hs hp
    simp only [projCons, hp]
    refine ⟨h2 ▸ hM, fun k x hx => ?_⟩
    rw [h1]
    exact hR k x (h3 k x hx)
  | some o =>
    cases l with
    | set k v ttl =>
      simp only [projOp, Option.some.injEq] at hp
      subst hp
      simp only [projCons, projOp]
      simp only [cstep] at hs
      split at hs
      · cases hs
      · rename_i hb
        have hpos : 0 < ttl := by
          have : ¬ ttl ≤ 0 := hb
          omega
        cases hs
        refine ⟨hM, fun k0 x hx => ?_⟩
        simp only [mget_put] at hx
        by_cases hk : k0 = k
        · subst hk
          simp only [if_true, Option.some.injEq] at hx
          subst hx
          refine ⟨ttl, 0, by simp [lastLive, hpos], ?_⟩
          simp [hM]
        · simp only [hk, if_false] at hx
          obtain ⟨t, el, h1, h2⟩ := hR k0 x hx
          refine ⟨t, el, ?_, h2⟩
          have : ¬ (k = k0 ∧ 0 < ttl) := fun hh => hk hh.1.symm
          simp only [lastLive, this, if_false]
          exact h1
    | delete k =>
      simp only [projOp, Option.some.injEq] at hp
      subst hp
      simp only [projCons, projOp]
      simp only [cstep] at hs
      cases hs
      refine ⟨hM, fun k0 x hx => ?_⟩
      simp only [mget_delKeys_single] at hx
      split at hx
      · cases hx
      · rename_i hk
        obtain ⟨t, el, h1, h2⟩ := hR k0 x hx
        refine ⟨t, el, ?_, h2⟩
        have : ¬ k = k0 := fun hh => hk hh.symm
        simp only [lastLive, this, if_false]
        exact h1
    | advance d =>
      simp only [projOp, Option.some.injEq] at hp
      subst hp
      simp only [projCons, projOp]
      simp only [cstep] at hs
      have key : s'.ref = s.ref ∧ s'.now = s.now + d ∧ s'.maxTTL = s.maxTTL := by
        split at hs <;> cases hs <;> simp
      obtain ⟨h1, h2, h3⟩ := key
      refine ⟨h3 ▸ hM, fun k0 x hx => ?_⟩
      rw [h1] at hx
      obtain ⟨t, el, h4, h5⟩ := hR k0 x hx
      refine ⟨t, el + d, ?_, ?_⟩
      · simp only [lastLive]
        rw [lastLive_acc, h4]
        simp
      · rw [h2, h5]
        simp only [Int.natCast_add]
        omega
    | get _ _ => simp [projOp] at hp
    | cBegin _ _ => simp [projOp] at hp
    | cNow _ => simp [projOp] at hp
    | cVisit _ _ => simp [projOp] at hp
    | cSeal _ => simp [projOp] at hp
    | cDelOne _ _ _ => simp [projOp] at hp
    | cEnd _ => simp [projOp] at hp
    | bgTake => simp [projOp] at hp
    | bgExit => simp [projOp] at hp
    | stopCall _ => simp [projOp] at hp
    | stopReturn _ => simp [projOp] at hp

theorem projCons_rev (l : Label) (ls : List Label) (hrev : List Op) :
    ((l :: ls).filterMap projOp).reverse ++ hrev = (ls.filterMap projOp).reverse ++ projCons l hrev := by
  unfold projCons
  cases hp : projOp l with
  | none => simp [List.filterMap_cons, hp]
  | some o => simp [List.filterMap_cons, hp]

theorem refAgree_run {M : Int} : ∀ (ls : List Label) (s s' : CState) (hrev : List Op),
    RefAgree M s hrev → crun s ls = some s' → RefAgree M s' ((ls.filterMap projOp).reverse ++ hrev) := by
  intro ls
  induction ls with
  | nil => intro s s' hrev h hr; simp only [crun, Option.some.injEq] at hr; subst hr; simpa using h
  | cons l ls ih =>
    intro s s' hrev h hr
    simp only [crun] at hr
    cases hst : cstep s l with
    | none => simp [hst] at hr
    | some s1 =>
      simp only [hst] at hr
      rw [projCons_rev]
      exact ih s1 s' _ (refAgree_step h hst) hr

theorem reach_of_crun {maxTTL t0 period : Int} : ∀ (ls : List Label) (a b : CState),
    Reach maxTTL t0 period a → crun a ls = some b → Reach maxTTL t0 period b := by
  intro ls
  induction ls with
  | nil => intro a b ha h; simp only [crun, Option.some.injEq] at h; subst h; exact ha
  | cons l ls ih =>
    intro a b ha h
    simp only [crun] at h
    cases hst : cstep a l with
    | none => simp [hst] at h
    | some a' =>
      simp only [hst] at h
      exact ih a' b (Reach.step _ ha hst) h

end Kit.TTLCache
