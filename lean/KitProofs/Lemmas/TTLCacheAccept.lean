import KitModel.TTLCache
import KitProofs.Lemmas.TTLCacheConc
/-! Soundness of the scheduled-interleaving acceptor (`respond`, `drive`) w.r.t. the LTS (C15). -/
namespace Kit.TTLCache

theorem crun_append (s : CState) (l1 l2 : List Label) :
    crun s (l1 ++ l2) = (crun s l1).bind (fun s' => crun s' l2) := by
  induction l1 generalizing s with
  | nil => simp [crun]
  | cons l l1 ih =>
    simp only [List.cons_append, crun]
    cases cstep s l with
    | none => simp
    | some s1 => simpa using ih s1

theorem tryRun_sound (s : CState) (ls : List Label) (r : CState → Resp) :
    crun s (tryRun s ls r).labels = some (tryRun s ls r).state := by
  unfold tryRun
  cases h : crun s ls with
  | none => simp [crun]
  | some s' => simp [h]

theorem tryRun_labels (s : CState) (ls : List Label) (r : CState → Resp) :
    (tryRun s ls r).labels = ls ∨ (tryRun s ls r).labels = [] := by
  unfold tryRun
  cases crun s ls <;> simp

theorem firstRun_sound (s : CState) (alts : List (List Label × Resp)) :
    crun s (firstRun s alts).labels = some (firstRun s alts).state := by
  induction alts with
  | nil => simp [firstRun, crun]
  | cons a alts ih =>
    obtain ⟨ls, r⟩ := a
    simp only [firstRun]
    cases h : crun s ls with
    | none => simpa using ih
    | some s' => simp [h]

theorem firstRun_labels (s : CState) (alts : List (List Label × Resp)) :
    (firstRun s alts).labels = [] ∨ ∃ a ∈ alts, (firstRun s alts).labels = a.1 := by
  induction alts with
  | nil => left; rfl
  | cons a alts ih =>
    obtain ⟨ls, r⟩ := a
    simp only [firstRun]
    cases h : crun s ls with
    | none =>
      rcases ih with h1 | ⟨a, ha, h1⟩
      · exact Or.inl h1
      · exact Or.inr ⟨a, List.mem_cons_of_mem _ ha, h1⟩
    | some s' => exact Or.inr ⟨(ls, r), by simp, rfl⟩

/-- **Every answer of the acceptor is a run of the LTS.** -/
theorem respond_sound (s : CState) (r : Req) :
    crun s (respond s r).labels = some (respond s r).state := by
  cases r <;> simp only [respond] <;> (repeat' split) <;>
    first
      | rfl
      | exact tryRun_sound _ _ _
      | exact firstRun_sound _ _

theorem drive_sound (s : CState) (rs : List Req) :
    crun s (drive s rs).2.2 = some (drive s rs).1 := by
  induction rs generalizing s with
  | nil => rfl
  | cons r rs ih =>
    simp only [drive]
    rw [crun_append, respond_sound]
    exact ih _

theorem drive_append (s : CState) (r1 r2 : List Req) :
    drive s (r1 ++ r2) =
      ((drive (drive s r1).1 r2).1, (drive s r1).2.1 ++ (drive (drive s r1).1 r2).2.1,
       (drive s r1).2.2 ++ (drive (drive s r1).1 r2).2.2) := by
  induction r1 generalizing s with
  | nil => simp [drive]
  | cons r r1 ih =>
    simp only [List.cons_append, drive, ih, List.cons_append, List.append_assoc]

/-! ### the callers' history of the executed labels is the callers' history of the script -/

theorem crun_single (s : CState) (l : Label) : crun s [l] = cstep s l := by
  simp only [crun]
  cases cstep s l <;> rfl

/-- `ls` contains no caller operation. -/
def NoOp (ls : List Label) : Prop := ls.filterMap projOp = []

theorem noOp_append {a b : List Label} (ha : NoOp a) (hb : NoOp b) : NoOp (a ++ b) := by
  unfold NoOp at *
  rw [List.filterMap_append, ha, hb]; rfl

theorem noOp_visits (id : Nat) (ks : List Key) : NoOp (ks.map (fun k => Label.cVisit id k)) := by
  unfold NoOp
  induction ks with
  | nil => rfl
  | cons k ks ih => rw [List.map_cons, List.filterMap_cons]; simp [projOp, ih]

theorem noOp_dels (id : Nat) (ps : List (Key × Nat)) :
    NoOp (ps.map (fun p => Label.cDelOne id p.1 p.2)) := by
  unfold NoOp
  induction ps with
  | nil => rfl
  | cons p ps ih => rw [List.map_cons, List.filterMap_cons]; simp [projOp, ih]

theorem noOp_snap (s : CState) (id : Nat) : NoOp (snapLabels s id) := by
  unfold snapLabels
  exact noOp_append (noOp_append rfl (noOp_visits id _)) rfl

theorem noOp_bulk (s : CState) (id : Nat) : NoOp (bulkLabels s id) := by
  unfold bulkLabels
  cases findCl s.cls id with
  | none => rfl
  | some c => exact noOp_append (noOp_dels id _) rfl

theorem tryRun_ok_labels (s : CState) (ls : List Label) (r : CState → Resp)
    (h : (tryRun s ls r).resp ≠ .error) : (tryRun s ls r).labels = ls := by
  unfold tryRun at h ⊢
  cases hc : crun s ls with
  | none => simp [hc] at h
  | some s' => rfl

theorem firstRun_ok_labels (s : CState) (alts : List (List Label × Resp))
    (h : (firstRun s alts).resp ≠ .error) : ∃ a ∈ alts, (firstRun s alts).labels = a.1 := by
  induction alts with
  | nil => exact absurd rfl h
  | cons a alts ih =>
    obtain ⟨ls, r⟩ := a
    simp only [firstRun] at h ⊢
    cases hc : crun s ls with
    | none =>
      simp only [hc] at h
      obtain ⟨a, ha, h2⟩ := ih h
      exact ⟨a, List.mem_cons_of_mem _ ha, h2⟩
    | some s' => exact ⟨(ls, r), by simp, rfl⟩

/-- For an answer other than `error`, the callers' history of the executed labels is the caller
operation the request stands for. -/
theorem respond_projOp (s : CState) (r : Req) (hne : (respond s r).resp ≠ .error) :
    (respond s r).labels.filterMap projOp = (reqOp r).toList := by
  cases r
  case set k v ttl =>
    simp only [respond, reqOp] at hne ⊢
    by_cases hb : badTTL ttl
    · simp only [if_pos hb]; rfl
    · simp only [if_neg hb] at hne ⊢
      rw [tryRun_ok_labels _ _ _ hne]; rfl
  case send id k v ttl =>
    simp only [respond, reqOp] at hne ⊢
    by_cases h0 : id = 0
    · simp [h0] at hne
    · simp only [if_neg h0] at hne ⊢
      rw [tryRun_ok_labels _ _ _ hne]; rfl
  case sbegin id k v ttl =>
    simp only [respond, reqOp] at hne ⊢
    by_cases hb : badTTL ttl
    · simp only [if_pos hb]; rfl
    · simp only [if_neg hb] at hne ⊢
      by_cases h0 : id = 0
      · simp [h0] at hne
      · simp only [if_neg h0] at hne ⊢
        rw [tryRun_ok_labels _ _ _ hne]; rfl
  case gbegin id k =>
    simp only [respond, reqOp] at hne ⊢
    by_cases h0 : id = 0
    · simp [h0] at hne
    · simp only [if_neg h0] at hne ⊢
      rw [tryRun_ok_labels _ _ _ hne]; rfl
  case gend id k =>
    simp only [respond, reqOp] at hne ⊢
    by_cases h0 : id = 0
    · simp [h0] at hne
    · simp only [if_neg h0] at hne ⊢
      cases hf : findGetter s.getters id with
      | none => simp [hf] at hne
      | some g =>
        simp only [hf] at hne ⊢
        rw [tryRun_ok_labels _ _ _ hne]; rfl
  case del k =>
    simp only [respond, reqOp] at hne ⊢
    rw [tryRun_ok_labels _ _ _ hne]; rfl
  case adv d =>
    simp only [respond, reqOp] at hne ⊢
    rw [tryRun_ok_labels _ _ _ hne]; rfl
  case get k =>
    simp only [respond, reqOp] at hne ⊢
    rw [tryRun_ok_labels _ _ _ hne]; rfl
  case cbegin id r =>
    simp only [respond, reqOp] at hne ⊢
    rw [tryRun_ok_labels _ _ _ hne]
    exact noOp_append rfl (noOp_snap s id)
  case cfinish id =>
    simp only [respond, reqOp] at hne ⊢
    by_cases h0 : id = 0
    · simp [h0] at hne
    · simp only [if_neg h0] at hne ⊢
      rw [tryRun_ok_labels _ _ _ hne]
      exact noOp_bulk s id
  case bgsnap =>
    simp only [respond, reqOp] at hne ⊢
    rw [tryRun_ok_labels _ _ _ hne]
    exact noOp_append rfl (noOp_snap s 0)
  case bgfinish =>
    simp only [respond, reqOp] at hne ⊢
    rw [tryRun_ok_labels _ _ _ hne]
    exact noOp_bulk s 0
  case stop =>
    simp only [respond, reqOp] at hne ⊢
    rw [tryRun_ok_labels _ _ _ hne]
    refine noOp_append (noOp_append rfl ?_) rfl
    split
    · rfl
    · split <;> rfl
  case bgstart =>
    simp only [respond, reqOp] at hne ⊢
    rw [tryRun_ok_labels _ _ _ hne]; rfl
  case stopcall id =>
    simp only [respond, reqOp] at hne ⊢
    obtain ⟨a, ha, h1⟩ := firstRun_ok_labels _ _ hne
    rw [h1]
    simp only [List.mem_cons, List.not_mem_nil, or_false] at ha
    rcases ha with rfl | rfl | rfl | rfl <;> rfl
  case stopwait id =>
    simp only [respond, reqOp] at hne ⊢
    obtain ⟨a, ha, h1⟩ := firstRun_ok_labels _ _ hne
    rw [h1]
    simp only [List.mem_cons, List.not_mem_nil, or_false] at ha
    rcases ha with rfl | rfl <;> rfl

theorem drive_projOp (s : CState) (rs : List Req) (hne : Resp.error ∉ (drive s rs).2.1) :
    (drive s rs).2.2.filterMap projOp = rs.filterMap reqOp := by
  induction rs generalizing s with
  | nil => rfl
  | cons r rs ih =>
    simp only [drive, List.mem_cons, not_or] at hne
    simp only [drive, List.filterMap_append, List.filterMap_cons]
    rw [respond_projOp s r (fun h => hne.1 h.symm), ih _ hne.2]
    cases reqOp r <;> simp

/-- What a reported hit of an atomic `get` means. -/
theorem respond_get_hit (s : CState) (k : Key) (v : Val) (h : (respond s (.get k)).resp = .hit v) :
    getOfC s k = some v := by
  simp only [respond, tryRun] at h
  cases hc : crun s [Label.gRead 0 k, Label.gNow 0 k (getOfC s k)] with
  | none => simp [hc] at h
  | some s' =>
    simp only [hc] at h
    cases hg : getOfC s k with
    | none => simp [hg, respOfGet] at h
    | some v' => simp only [hg, respOfGet, Resp.hit.injEq] at h; rw [h]

/-- What the answer of a split `Get`'s second half means: the `gNow` label with that result was
enabled. -/
theorem respond_gend (s : CState) (id : Nat) (k : Key) (hne : (respond s (.gend id k)).resp ≠ .error) :
    ∃ r, (respond s (.gend id k)).resp = respOfGet r ∧
      cstep s (.gNow id k r) = some (respond s (.gend id k)).state := by
  simp only [respond] at hne ⊢
  by_cases h0 : id = 0
  · simp [h0] at hne
  · simp only [if_neg h0] at hne ⊢
    cases hf : findGetter s.getters id with
    | none => simp [hf] at hne
    | some g =>
      simp only [hf] at hne ⊢
      refine ⟨serve g.read s.now, ?_, ?_⟩
      · unfold tryRun at hne ⊢
        cases hc : crun s [Label.gNow id k (serve g.read s.now)] with
        | none => simp [hc] at hne
        | some s' => rfl
      · unfold tryRun at hne ⊢
        rw [crun_single] at hne ⊢
        cases hc : cstep s (Label.gNow id k (serve g.read s.now)) with
        | none => simp [hc] at hne
        | some s' => rfl

theorem firstRun_spec (s : CState) (alts : List (List Label × Resp)) :
    ((firstRun s alts).labels = [] ∧ (firstRun s alts).resp = .error) ∨
    ∃ a ∈ alts, (firstRun s alts).labels = a.1 ∧ (firstRun s alts).resp = a.2 ∧
      crun s a.1 = some (firstRun s alts).state := by
  induction alts with
  | nil => left; exact ⟨rfl, rfl⟩
  | cons a alts ih =>
    obtain ⟨ls, r⟩ := a
    simp only [firstRun]
    cases h : crun s ls with
    | none =>
      rcases ih with h1 | ⟨a, ha, h1⟩
      · exact Or.inl h1
      · exact Or.inr ⟨a, List.mem_cons_of_mem _ ha, h1⟩
    | some s' => exact Or.inr ⟨(ls, r), by simp, rfl, rfl, h⟩

theorem crun_snoc {s s' : CState} {pre : List Label} {l : Label} (h : crun s (pre ++ [l]) = some s') :
    ∃ s2, crun s pre = some s2 ∧ cstep s2 l = some s' := by
  rw [crun_append] at h
  cases hp : crun s pre with
  | none => simp [hp] at h
  | some s2 =>
    simp only [hp, Option.bind_some, crun_single] at h
    exact ⟨s2, rfl, h⟩

theorem drive_resp_length (s : CState) (rs : List Req) : (drive s rs).2.1.length = rs.length := by
  induction rs generalizing s with
  | nil => rfl
  | cons r rs ih => simp [drive, ih]

theorem drive_resp_at (s : CState) (r1 : List Req) (r : Req) (r2 : List Req) :
    (drive s (r1 ++ r :: r2)).2.1[r1.length]? = some (respond (drive s r1).1 r).resp := by
  rw [drive_append]
  simp only [drive]
  rw [List.getElem?_append_right (by rw [drive_resp_length]; exact Nat.le_refl _), drive_resp_length]
  simp

end Kit.TTLCache
