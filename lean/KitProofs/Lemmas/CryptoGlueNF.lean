/-
Helper lemmas for property C03: guard normal forms of `EncryptSymmetric` / `DecryptSymmetric`
for every listed algorithm, per family, derived from the generated tables (through `symFactsB`).
-/
import KitProofs.Lemmas.CryptoGlueSpec
namespace Kit.CryptoGlue
open Kit Kit.CryptoGlue.Facts

theorem aesKeyLen_iff {k : Nat} (h : aesKeyLen k = true) : k = 16 ∨ k = 24 ∨ k = 32 := by
  simp [aesKeyLen] at h; omega

theorem encryptSymmetric_oct (P : Prims) (pt : Bytes) (alg : String) (key nonce ad : Bytes) (callee : String)
    (hs : lookupSwitch Generated.C03.sw_EncryptSymmetric alg = some (callee, "")) :
    encryptSymmetric P pt alg ⟨.oct, key⟩ nonce ad = encHelper P callee pt alg key nonce ad := by
  have hkind : keyTypeName KeyKind.oct = Generated.C03.kind_EncryptSymmetric.1 := by decide
  unfold encryptSymmetric
  simp only [hkind, ne_eq, not_true_eq_false, if_false, hs]

theorem decryptSymmetric_oct (P : Prims) (ct : Bytes) (alg : String) (key nonce tag ad : Bytes) (callee : String)
    (hs : lookupSwitch Generated.C03.sw_DecryptSymmetric alg = some (callee, "")) :
    decryptSymmetric P ct alg ⟨.oct, key⟩ nonce tag ad = decHelper P callee ct alg key nonce tag ad := by
  have hkind : keyTypeName KeyKind.oct = Generated.C03.kind_DecryptSymmetric.1 := by decide
  unfold decryptSymmetric
  simp only [hkind, ne_eq, not_true_eq_false, if_false, hs]

/-- The facts `symFactsB` carries, common part. -/
theorem symFacts_common {alg : String} {d : Denotes} (hf : symFactsB alg d = true) :
    lookupSwitch Generated.C03.sw_EncryptSymmetric alg = some (encHelperName d.family, "") ∧
    lookupSwitch Generated.C03.sw_DecryptSymmetric alg = some (decHelperName d.family, "") ∧
    encryptRoute alg = some "EncryptSymmetric" ∧ decryptRoute alg = some "DecryptSymmetric" := by
  simp only [symFactsB, Bool.and_eq_true, decide_eq_true_eq] at hf
  obtain ⟨⟨⟨⟨h1, h2⟩, h3⟩, h4⟩, _⟩ := hf
  exact ⟨h1, h2, h3, h4⟩

/-! ### CBC -/

theorem symFacts_cbc {alg : String} {d : Denotes} (hf : symFactsB alg d = true) (hfam : d.family = .cbc) :
    expectedKeySize alg = .ok d.keyLen ∧ (d.keyLen = 16 ∨ d.keyLen = 24 ∨ d.keyLen = 32) ∧
    ["A128CBC-NOPAD", "A192CBC-NOPAD", "A256CBC-NOPAD"].contains alg = d.nopad ∧
    Generated.C03.nopad_encryptSymmetricAESCBC.contains alg = d.nopad ∧
    Generated.C03.nopad_decryptSymmetricAESCBC.contains alg = d.nopad ∧ d.nonceLen = 16 ∧ d.tagLen = 0 := by
  simp only [symFactsB, hfam, Bool.and_eq_true, decide_eq_true_eq] at hf
  obtain ⟨_, ⟨⟨⟨⟨⟨⟨h1, h2⟩, h3⟩, h4⟩, h5⟩, h6⟩, h7⟩⟩ := hf
  exact ⟨h1, aesKeyLen_iff h2, h3, h4, h5, h6, h7⟩

theorem encNF_cbc (P : Prims) {alg : String} {d : Denotes} (hf : symFactsB alg d = true)
    (hfam : d.family = .cbc) (pt key nonce ad : Bytes) :
    encryptSymmetric P pt alg ⟨.oct, key⟩ nonce ad =
      if key.length ≠ d.keyLen then .err eKeyTypeMismatch
      else if nonce.length ≠ 16 then .err eInvalidNonce
      else if d.nopad = true ∧ pt.length % 16 ≠ 0 then .err eInvalidPlaintextLength
      else if d.nopad = true then (cbcEncrypt (P.aes key) nonce pt).bind fun ct => .ok (ct, [])
      else (pad pt 16).bind fun padded =>
        (cbcEncrypt (P.aes key) nonce padded).bind fun ct => .ok (ct, []) := by
  obtain ⟨hsE, _, _, _⟩ := symFacts_common hf
  obtain ⟨hk, hk', hnp, hnpE, _, _, _⟩ := symFacts_cbc hf hfam
  rw [encryptSymmetric_oct P pt alg key nonce ad _ hsE, hfam]
  simp only [encHelperName, encHelper, if_true, encryptSymmetricAESCBC, stepsThen,
    runSteps_encAESCBC alg key nonce pt d.keyLen d.nopad hk hk' hnp, hnpE]
  by_cases h1 : key.length = d.keyLen <;> by_cases h2 : nonce.length = 16 <;>
    by_cases h3 : (d.nopad = true ∧ pt.length % 16 ≠ 0) <;> simp [h1, h2, h3, Outcome.bind]

theorem decNF_cbc (P : Prims) {alg : String} {d : Denotes} (hf : symFactsB alg d = true)
    (hfam : d.family = .cbc) (ct key nonce tag ad : Bytes) :
    decryptSymmetric P ct alg ⟨.oct, key⟩ nonce tag ad =
      if key.length ≠ d.keyLen then .err eKeyTypeMismatch
      else if nonce.length ≠ 16 then .err eInvalidNonce
      else if ct.length % 16 ≠ 0 then .err eInvalidCiphertextLength
      else (cbcDecrypt (P.aes key) nonce ct).bind fun pt =>
        if d.nopad = true then .ok pt else unpad pt 16 := by
  obtain ⟨_, hsD, _, _⟩ := symFacts_common hf
  obtain ⟨hk, hk', _, _, hnpD, _, _⟩ := symFacts_cbc hf hfam
  rw [decryptSymmetric_oct P ct alg key nonce tag ad _ hsD, hfam]
  simp only [decHelperName, decHelper, if_true, decryptSymmetricAESCBC, stepsThen,
    runSteps_decAESCBC alg key nonce ct d.keyLen hk hk', hnpD]
  by_cases h1 : key.length = d.keyLen <;> by_cases h2 : nonce.length = 16 <;>
    by_cases h3 : ct.length % 16 = 0 <;> simp [h1, h2, h3, Outcome.bind]

/-! ### GCM -/

theorem symFacts_gcm {alg : String} {d : Denotes} (hf : symFactsB alg d = true) (hfam : d.family = .gcm) :
    expectedKeySize alg = .ok d.keyLen ∧ (d.keyLen = 16 ∨ d.keyLen = 24 ∨ d.keyLen = 32) ∧
    d.nonceLen = 12 ∧ d.tagLen = 16 := by
  simp only [symFactsB, hfam, Bool.and_eq_true, decide_eq_true_eq] at hf
  obtain ⟨_, ⟨⟨⟨h1, h2⟩, h3⟩, h4⟩⟩ := hf
  exact ⟨h1, aesKeyLen_iff h2, h3, h4⟩

theorem encNF_gcm (P : Prims) {alg : String} {d : Denotes} (hf : symFactsB alg d = true)
    (hfam : d.family = .gcm) (pt key nonce ad : Bytes) :
    encryptSymmetric P pt alg ⟨.oct, key⟩ nonce ad =
      if key.length ≠ d.keyLen then .err eKeyTypeMismatch
      else encryptAEAD (P.gcm key) pt nonce ad := by
  obtain ⟨hsE, _, _, _⟩ := symFacts_common hf
  obtain ⟨hk, hk', _, _⟩ := symFacts_gcm hf hfam
  rw [encryptSymmetric_oct P pt alg key nonce ad _ hsE, hfam]
  simp only [encHelperName, encHelper, String.reduceEq, if_false, if_true, encryptSymmetricAESGCM, stepsThen,
    runSteps_encAESGCM alg key d.keyLen hk hk']
  by_cases h1 : key.length = d.keyLen <;> simp [h1, Outcome.bind]

theorem decNF_gcm (P : Prims) {alg : String} {d : Denotes} (hf : symFactsB alg d = true)
    (hfam : d.family = .gcm) (ct key nonce tag ad : Bytes) :
    decryptSymmetric P ct alg ⟨.oct, key⟩ nonce tag ad =
      if key.length ≠ d.keyLen then .err eKeyTypeMismatch
      else decryptAEAD (P.gcm key) ct nonce tag ad := by
  obtain ⟨_, hsD, _, _⟩ := symFacts_common hf
  obtain ⟨hk, hk', _, _⟩ := symFacts_gcm hf hfam
  rw [decryptSymmetric_oct P ct alg key nonce tag ad _ hsD, hfam]
  simp only [decHelperName, decHelper, String.reduceEq, if_false, if_true, decryptSymmetricAESGCM, stepsThen,
    runSteps_decAESGCM alg key d.keyLen hk hk']
  by_cases h1 : key.length = d.keyLen <;> simp [h1, Outcome.bind]

/-! ### key wrap -/

theorem symFacts_kw {alg : String} {d : Denotes} (hf : symFactsB alg d = true) (hfam : d.family = .kw) :
    expectedKeySize alg = .ok d.keyLen ∧ (d.keyLen = 16 ∨ d.keyLen = 24 ∨ d.keyLen = 32) ∧
      d.nonceLen = 0 ∧ d.tagLen = 0 := by
  simp only [symFactsB, hfam, Bool.and_eq_true, decide_eq_true_eq] at hf
  obtain ⟨_, ⟨⟨⟨h1, h2⟩, h3⟩, h4⟩⟩ := hf
  exact ⟨h1, aesKeyLen_iff h2, h3, h4⟩

theorem encNF_kw (P : Prims) {alg : String} {d : Denotes} (hf : symFactsB alg d = true)
    (hfam : d.family = .kw) (pt key nonce ad : Bytes) :
    encryptSymmetric P pt alg ⟨.oct, key⟩ nonce ad =
      if key.length ≠ d.keyLen then .err eKeyTypeMismatch
      else (wrap (P.aes key) pt).bind fun c => .ok (c, []) := by
  obtain ⟨hsE, _, _, _⟩ := symFacts_common hf
  obtain ⟨hk, hk', _, _⟩ := symFacts_kw hf hfam
  rw [encryptSymmetric_oct P pt alg key nonce ad _ hsE, hfam]
  simp only [encHelperName, encHelper, String.reduceEq, if_false, if_true, encryptSymmetricAESKW, stepsThen,
    runSteps_encAESKW alg key d.keyLen hk hk']
  by_cases h1 : key.length = d.keyLen <;> simp [h1, Outcome.bind]

theorem decNF_kw (P : Prims) {alg : String} {d : Denotes} (hf : symFactsB alg d = true)
    (hfam : d.family = .kw) (ct key nonce tag ad : Bytes) :
    decryptSymmetric P ct alg ⟨.oct, key⟩ nonce tag ad =
      if key.length ≠ d.keyLen then .err eKeyTypeMismatch
      else unwrap (P.aes key) ct := by
  obtain ⟨_, hsD, _, _⟩ := symFacts_common hf
  obtain ⟨hk, hk', _, _⟩ := symFacts_kw hf hfam
  rw [decryptSymmetric_oct P ct alg key nonce tag ad _ hsD, hfam]
  simp only [decHelperName, decHelper, String.reduceEq, if_false, if_true, decryptSymmetricAESKW, stepsThen,
    runSteps_decAESKW alg key d.keyLen hk hk']
  by_cases h1 : key.length = d.keyLen <;> simp [h1, Outcome.bind]

/-! ### CBC-HMAC -/

theorem symFacts_cbchmac {alg : String} {d : Denotes} (hf : symFactsB alg d = true) (hfam : d.family = .cbchmac) :
    ∃ c p, Generated.C03.cbcHmacCiphers.find? (·.name == alg) = some c ∧
      Generated.C03.aescbcaeadParams.find? (·.ctor == c.ctor) = some p ∧
      c.keyLen = d.keyLen ∧ c.keyLen = p.encKeySize + p.macKeySize ∧ p.tagSize = d.tagLen ∧
      p.hashBits = d.hashBits ∧ (p.encKeySize = 16 ∨ p.encKeySize = 24 ∨ p.encKeySize = 32) ∧
      p.macKeySize = p.tagSize ∧ 2 * p.tagSize * 8 = p.hashBits ∧ d.nonceLen = 16 := by
  simp only [symFactsB, hfam, Bool.and_eq_true, decide_eq_true_eq] at hf
  obtain ⟨_, hf⟩ := hf
  split at hf
  · cases hf
  · rename_i c hc
    split at hf
    · cases hf
    · rename_i p hp
      simp only [Bool.and_eq_true, decide_eq_true_eq] at hf
      obtain ⟨⟨⟨⟨⟨⟨⟨h1, h2⟩, h3⟩, h4⟩, h5⟩, h6⟩, h7⟩, h8⟩ := hf
      exact ⟨c, p, hc, hp, h1, h2, h3, h4, aesKeyLen_iff h5, h6, h7, h8⟩

theorem encNF_cbchmac (P : Prims) {alg : String} {d : Denotes} (hf : symFactsB alg d = true)
    (hfam : d.family = .cbchmac) (c : CbcHmacCase) (p : AeadParams)
    (hc : Generated.C03.cbcHmacCiphers.find? (·.name == alg) = some c)
    (hp : Generated.C03.aescbcaeadParams.find? (·.ctor == c.ctor) = some p)
    (hkl : c.keyLen = d.keyLen) (hsum : c.keyLen = p.encKeySize + p.macKeySize)
    (pt key nonce ad : Bytes) :
    encryptSymmetric P pt alg ⟨.oct, key⟩ nonce ad =
      if key.length ≠ d.keyLen then .err eKeyTypeMismatch
      else encryptAEAD (cbcHmacAEAD P p key) pt nonce ad := by
  obtain ⟨hsE, _, _, _⟩ := symFacts_common hf
  rw [encryptSymmetric_oct P pt alg key nonce ad _ hsE, hfam]
  simp only [encHelperName, encHelper, String.reduceEq, if_false, if_true, encryptSymmetricAESCBCHMAC, stepsThen,
    runSteps_encCBCHMAC, getAESCBCHMACCipher_eq alg key c p hc hp hsum, hkl]
  by_cases h1 : key.length = d.keyLen <;> simp [h1, Outcome.bind]

theorem decNF_cbchmac (P : Prims) {alg : String} {d : Denotes} (hf : symFactsB alg d = true)
    (hfam : d.family = .cbchmac) (c : CbcHmacCase) (p : AeadParams)
    (hc : Generated.C03.cbcHmacCiphers.find? (·.name == alg) = some c)
    (hp : Generated.C03.aescbcaeadParams.find? (·.ctor == c.ctor) = some p)
    (hkl : c.keyLen = d.keyLen) (hsum : c.keyLen = p.encKeySize + p.macKeySize)
    (ct key nonce tag ad : Bytes) :
    decryptSymmetric P ct alg ⟨.oct, key⟩ nonce tag ad =
      if key.length ≠ d.keyLen then .err eKeyTypeMismatch
      else decryptAEAD (cbcHmacAEAD P p key) ct nonce tag ad := by
  obtain ⟨_, hsD, _, _⟩ := symFacts_common hf
  rw [decryptSymmetric_oct P ct alg key nonce tag ad _ hsD, hfam]
  simp only [decHelperName, decHelper, String.reduceEq, if_false, if_true, decryptSymmetricAESCBCHMAC, stepsThen,
    runSteps_decCBCHMAC, getAESCBCHMACCipher_eq alg key c p hc hp hsum, hkl]
  by_cases h1 : key.length = d.keyLen <;> simp [h1, Outcome.bind]

/-! ### (X)ChaCha20-Poly1305 -/

theorem symFacts_chacha {alg : String} {d : Denotes} (hf : symFactsB alg d = true) (hfam : d.family = .chacha) :
    ∃ c, Generated.C03.chachaCiphers.find? (·.names.contains alg) = some c ∧
      d.keyLen = 32 ∧ c.nonceLen = d.nonceLen ∧ d.tagLen = 16 ∧ Generated.C03.chachaEncryptTagSplit = 16 ∧
      ((c.ctor = "chacha20poly1305.NewX" ∧ d.nonceLen = 24) ∨ (c.ctor = "chacha20poly1305.New" ∧ d.nonceLen = 12)) := by
  simp only [symFactsB, hfam, Bool.and_eq_true, decide_eq_true_eq] at hf
  obtain ⟨_, hf⟩ := hf
  split at hf
  · cases hf
  · rename_i c hc
    simp only [Bool.and_eq_true, decide_eq_true_eq] at hf
    obtain ⟨⟨⟨⟨h1, h2⟩, h3⟩, h4⟩, h5⟩ := hf
    exact ⟨c, hc, h1, h2, h3, h4, h5⟩

theorem encNF_chacha (P : Prims) {alg : String} {d : Denotes} (hf : symFactsB alg d = true)
    (hfam : d.family = .chacha) (c : ChaChaCase)
    (hc : Generated.C03.chachaCiphers.find? (·.names.contains alg) = some c)
    (hkl : d.keyLen = 32) (hnl : c.nonceLen = d.nonceLen) (pt key nonce ad : Bytes) :
    encryptSymmetric P pt alg ⟨.oct, key⟩ nonce ad =
      if key.length ≠ d.keyLen then .err eKeyTypeMismatch
      else if nonce.length ≠ d.nonceLen then .err eInvalidNonce
      else ((chachaAEAD P c key).doSeal nonce pt ad).bind fun out =>
        if out.length < Generated.C03.chachaEncryptTagSplit then .panic "slice bounds out of range"
        else .ok (out.take (out.length - Generated.C03.chachaEncryptTagSplit),
                  out.drop (out.length - Generated.C03.chachaEncryptTagSplit)) := by
  obtain ⟨hsE, _, _, _⟩ := symFacts_common hf
  rw [encryptSymmetric_oct P pt alg key nonce ad _ hsE, hfam]
  simp only [encHelperName, encHelper, String.reduceEq, if_false, if_true, encryptSymmetricChaCha20Poly1305,
    stepsThen, runSteps_encChaCha, getChaChaCipher_eq alg key nonce c hc, hkl, hnl]
  by_cases h1 : key.length = 32 <;> by_cases h2 : nonce.length = d.nonceLen <;> simp [h1, h2, Outcome.bind]

theorem decNF_chacha (P : Prims) {alg : String} {d : Denotes} (hf : symFactsB alg d = true)
    (hfam : d.family = .chacha) (c : ChaChaCase)
    (hc : Generated.C03.chachaCiphers.find? (·.names.contains alg) = some c)
    (hkl : d.keyLen = 32) (hnl : c.nonceLen = d.nonceLen) (ct key nonce tag ad : Bytes) :
    decryptSymmetric P ct alg ⟨.oct, key⟩ nonce tag ad =
      if key.length ≠ d.keyLen then .err eKeyTypeMismatch
      else if nonce.length ≠ d.nonceLen then .err eInvalidNonce
      else if tag.length ≠ (chachaAEAD P c key).overhead then .err eInvalidTag
      else (chachaAEAD P c key).doOpen nonce (ct ++ tag) ad := by
  obtain ⟨_, hsD, _, _⟩ := symFacts_common hf
  rw [decryptSymmetric_oct P ct alg key nonce tag ad _ hsD, hfam]
  simp only [decHelperName, decHelper, String.reduceEq, if_false, if_true, decryptSymmetricChaCha20Poly1305,
    stepsThen, runSteps_decChaCha, getChaChaCipher_eq alg key nonce c hc, hkl, hnl]
  by_cases h1 : key.length = 32 <;> by_cases h2 : nonce.length = d.nonceLen <;>
    by_cases h3 : tag.length = (chachaAEAD P c key).overhead <;> simp [h1, h2, h3, Outcome.bind]

/-- What the stdlib constructors promise about sizes (trusted; the harness measures them). -/
structure Prims.Std (P : Prims) : Prop where
  gcmNonce : ∀ k, (P.gcm k).nonceSize = 12
  gcmOverhead : ∀ k, (P.gcm k).overhead = 16
  chachaNonce : ∀ k, (P.chacha k).nonceSize = 12
  chachaOverhead : ∀ k, (P.chacha k).overhead = 16
  xchachaNonce : ∀ k, (P.xchacha k).nonceSize = 24
  xchachaOverhead : ∀ k, (P.xchacha k).overhead = 16

theorem chachaAEAD_sizes (P : Prims) (hS : P.Std) (c : ChaChaCase) (key : Bytes) (n : Nat)
    (h : (c.ctor = "chacha20poly1305.NewX" ∧ n = 24) ∨ (c.ctor = "chacha20poly1305.New" ∧ n = 12)) :
    (chachaAEAD P c key).nonceSize = n ∧ (chachaAEAD P c key).overhead = 16 := by
  unfold chachaAEAD
  rcases h with ⟨h1, h2⟩ | ⟨h1, h2⟩
  · simp [h1, h2, hS.xchachaNonce, hS.xchachaOverhead]
  · simp [h1, h2, hS.chachaNonce, hS.chachaOverhead]

/-- The primitives behave as their standards say (the abstract hypotheses of the round-trip
theorem; the Lean-native `Kit.Crypto` implementations and Go's are compared on every run). -/
structure Prims.LawfulPrims (P : Prims) : Prop where
  aes : ∀ key, key.length = 16 ∨ key.length = 24 ∨ key.length = 32 → (P.aes key).Lawful
  gcm : ∀ key, (P.gcm key).Lawful
  chacha : ∀ key, (P.chacha key).Lawful
  xchacha : ∀ key, (P.xchacha key).Lawful
  hmacLen : ∀ bits k m, bits / 8 ≤ (P.hmac bits k m).length

/-- CBC over whole blocks: encrypt succeeds, keeps the length, and decrypt inverts it. -/
theorem cbcEncrypt_ok (bc : BlockCipher) (hL : bc.Lawful) (iv data : Bytes) (hiv : iv.length = 16)
    (hd : data.length % 16 = 0) :
    ∃ ct, cbcEncrypt bc iv data = .ok ct ∧ ct.length = data.length ∧ cbcDecrypt bc iv ct = .ok data := by
  have hdl : data.length = 16 * (data.length / 16) := by omega
  have hcl := cbcEncBlocks_length bc.E hL.lenE (data.length / 16) iv data hiv hdl
  refine ⟨cbcEncBlocks bc.E (data.length / 16) iv data, ?_, by omega, ?_⟩
  · unfold cbcEncrypt; rw [if_neg (by omega), if_neg (by omega)]
  · unfold cbcDecrypt
    rw [if_neg (by omega), if_neg (by omega), hcl]
    have : 16 * (data.length / 16) / 16 = data.length / 16 := by omega
    rw [this, cbc_roundtrip bc hL _ iv data hiv hdl]

theorem chachaAEAD_lawful (P : Prims) (hL : P.LawfulPrims) (c : ChaChaCase) (key : Bytes) :
    (chachaAEAD P c key).Lawful := by
  unfold chachaAEAD
  split
  · exact hL.xchacha key
  · exact hL.chacha key

/-! ### toy primitives: the hypotheses `Std` and `LawfulPrims` are satisfiable -/

def toyAEAD (n : Nat) : AEAD where
  nonceSize := n
  overhead := 16
  doSeal := fun _ pt _ => .ok (pt ++ List.replicate 16 0)
  doOpen := fun _ c _ => .ok (c.take (c.length - 16))

def toyPrims : Prims where
  aes := fun _ => idCipher
  gcm := fun _ => toyAEAD 12
  chacha := fun _ => toyAEAD 12
  xchacha := fun _ => toyAEAD 24
  hmac := fun bits _ _ => List.replicate (bits / 8) 0

theorem toyAEAD_lawful (n : Nat) : (toyAEAD n).Lawful := by
  refine ⟨fun nonce pt ad _ => ⟨pt ++ List.replicate 16 0, rfl, by simp [toyAEAD], ?_⟩⟩
  simp [toyAEAD]

theorem toyPrims_ok : toyPrims.Std ∧ toyPrims.LawfulPrims :=
  ⟨⟨fun _ => rfl, fun _ => rfl, fun _ => rfl, fun _ => rfl, fun _ => rfl, fun _ => rfl⟩,
   ⟨fun _ _ => idCipher_perm.toLawful, fun _ => toyAEAD_lawful 12, fun _ => toyAEAD_lawful 12,
    fun _ => toyAEAD_lawful 24, fun bits _ _ => by simp [toyPrims]⟩⟩

end Kit.CryptoGlue
