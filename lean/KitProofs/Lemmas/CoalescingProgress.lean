import KitProofs.Lemmas.CoalescingWindow
/-! Path constructions (progress) and run lemmas for property C09. -/
namespace Kit.Coalescing

theorem running_cases {s : State} (h : s.running = true) : s.loop = .top ∨ s.loop = .sel := by
  simpa [State.running] using h

theorem exec_append (cfg : Config) (s : State) (a b : List Label) :
    exec cfg s (a ++ b) = (exec cfg s a).bind fun s' => exec cfg s' b := by
  induction a generalizing s with
  | nil => simp [exec]
  | cons l a ih =>
    simp only [List.cons_append, exec]
    cases step cfg s l with
    | none => simp
    | some s1 => simp [ih]

/-! ### no Add lost -/

theorem no_add_lost_aux {cfg : Config} {s : State} (hi : Inv cfg s)
    (hrun : s.running = true) (hcl : s.closed = false) (hp : 0 < s.pending) :
    (s.timer.isSome = true ∨ 0 < s.tokens) ∧
    ∃ ls s', exec cfg s ls = some s' ∧ s'.fires = s.fires + 1 ∧ s'.pending = 0 ∧
      ∀ l ∈ ls, l.internal = true ∨ ∃ d, s.timer = some d ∧ l = .advance (max s.now d) := by
  cases htm : s.timer with
  | some d =>
    refine ⟨Or.inl rfl, ?_⟩
    have h1 : s.now ≤ max s.now d := Nat.le_max_left _ _
    have h2 : d ≤ max s.now d := Nat.le_max_right _ _
    rcases running_cases hrun with hl | hl
    · refine ⟨[.top, .advance (max s.now d), .expire],
        handleTimer cfg { s with loop := .sel, now := max s.now d }, ?_, ?_, ?_, ?_⟩
      · simp [exec, step, hl, htm, h1, h2]
      · simp [handleTimer_def, fire_def, hp]
      · simp [handleTimer_def]
      · intro l hl'; simp at hl'
        rcases hl' with rfl | rfl | rfl
        · left; rfl
        · right; exact ⟨d, rfl, rfl⟩
        · left; rfl
    · refine ⟨[.advance (max s.now d), .expire],
        handleTimer cfg { s with now := max s.now d }, ?_, ?_, ?_, ?_⟩
      · simp [exec, step, hl, htm, h1, h2]
      · simp [handleTimer_def, fire_def, hp]
      · simp [handleTimer_def]
      · intro l hl'; simp at hl'
        rcases hl' with rfl | rfl
        · right; exact ⟨d, rfl, rfl⟩
        · left; rfl
  | none =>
    have htok : 0 < s.tokens := by
      rcases hi.lost with h | h
      · simp [hcl] at h
      · have := h htm; omega
    refine ⟨Or.inr htok, ?_⟩
    rcases running_cases hrun with hl | hl
    · refine ⟨[.top, .deliver], handleInput cfg { s with loop := .sel }, ?_, ?_, ?_, ?_⟩
      · simp [exec, step, hl, htok]
      · rw [handleInput_none (by simpa using htm)]; simp [fire_def, hp]
      · rw [handleInput_none (by simpa using htm)]; simp [fire_def, hp]
      · intro l hl'; simp at hl'
        rcases hl' with rfl | rfl <;> (left; rfl)
    · refine ⟨[.deliver], handleInput cfg s, ?_, ?_, ?_, ?_⟩
      · simp [exec, step, hl, htok]
      · rw [handleInput_none htm]; simp [fire_def, hp]
      · rw [handleInput_none htm]; simp [fire_def, hp]
      · intro l hl'; simp at hl'; subst hl'; left; rfl

/-! ### first Add after idle -/

theorem first_after_idle_aux {cfg : Config} {s : State} (htm : s.timer = none) (htok : s.tokens = 0)
    (hpe : s.pending = 0) (hrun : s.running = true) (hcl : s.closed = false) :
    ∃ s1, step cfg s .add = some s1 ∧
    ∃ ls s2, (∀ l ∈ ls, l.internal = true) ∧ exec cfg s1 ls = some s2 ∧
      s2.fires = s.fires + 1 ∧ s2.senders = s.senders + 1 ∧ s2.now = s.now ∧ s2.pending = 0 ∧
      s2.timer = some (s.now + cfg.initial) := by
  refine ⟨{ s with pending := s.pending + 1, tokens := s.tokens + 1, adds := s.adds + 1 }, ?_, ?_⟩
  · simp [step_add_def, hcl]
  rcases running_cases hrun with hl | hl
  · refine ⟨[.top, .deliver], handleInput cfg { s with pending := s.pending + 1, tokens := s.tokens + 1, adds := s.adds + 1, loop := .sel }, ?_, ?_, ?_⟩
    · intro l hl'; simp at hl'; rcases hl' with rfl | rfl <;> rfl
    · simp [exec, step, hl]
    · rw [handleInput_none (by simpa using htm)]; simp [fire_def, hpe]
  · refine ⟨[.deliver], handleInput cfg { s with pending := s.pending + 1, tokens := s.tokens + 1, adds := s.adds + 1 }, ?_, ?_, ?_⟩
    · intro l hl'; simp at hl'; subst hl'; rfl
    · simp [exec, step, hl]
    · rw [handleInput_none (by simpa using htm)]; simp [fire_def, hpe]

theorem first_after_idle_forced_aux {cfg : Config} {s s1 : State} (htm : s.timer = none)
    (htok : s.tokens = 0) (hpe : s.pending = 0) (hrun : s.running = true) (hcl : s.closed = false)
    (hnc : s.cancelled = false) (hcas : s.casDone = true) (hadd : step cfg s .add = some s1) :
    ∀ l s2, l.internal = true → step cfg s1 l = some s2 →
      (l = .top ∧ s2.fires = s.fires ∧ s2.tokens = 1 ∧ s2.loop = .sel) ∨
      (l = .deliver ∧ s2.fires = s.fires + 1 ∧ s2.now = s.now) := by
  simp [step_add_def, hcl] at hadd
  subst hadd
  intro l s2 hint hst
  rcases running_cases hrun with hl | hl
  · cases l <;> simp [Label.internal] at hint <;> simp [step, hl, hnc, hcas, htm, State.ctxDone] at hst
    · left; subst hst; simp [htok]
  · cases l <;> simp [Label.internal] at hint <;> simp [step, hl, hnc, hcas, htm, State.ctxDone] at hst
    · right; subst hst
      refine ⟨rfl, ?_, ?_⟩
      · rw [handleInput_none (by simpa using htm)]; simp [fire_def, hpe]
      · rw [handleInput_none (by simpa using htm)]; simp

/-! ### inside one window -/

theorem expire_effect {cfg : Config} {s s' : State} (hst : step cfg s .expire = some s') :
    s'.timer = none ∧ s'.pending = 0 ∧ s'.fires = s.fires + (if 0 < s.pending then 1 else 0) := by
  simp only [step] at hst
  split at hst
  · split at hst
    · cases hst; simp [handleTimer_def, fire_fires]
    · cases hst
  · cases hst

theorem inwindow_step {cfg : Config} (hcap : cfg.cap = none) {s s' : State} {l : Label}
    (hopen : s.timer.isSome = true) (hne : l ≠ .expire) (hst : step cfg s l = some s') :
    s'.fires = s.fires ∧ s'.timer.isSome = true ∧ s'.pending + s.adds = s.pending + s'.adds ∧
    s.adds ≤ s'.adds := by
  cases l with
  | expire => exact absurd rfl hne
  | deliver =>
    simp only [step] at hst
    split at hst
    · cases hst
      obtain ⟨d0, hd0⟩ := Option.isSome_iff_exists.1 hopen
      have hc : capReached cfg s = false := by simp [capReached_def, hcap]
      rw [handleInput_ext hd0 hc]; simp
    · cases hst
  | add =>
    rw [step_add_def] at hst
    split at hst <;> cases hst
    · exact ⟨rfl, hopen, rfl, Nat.le_refl _⟩
    · refine ⟨rfl, hopen, ?_, ?_⟩ <;> simp <;> omega
  | close => simp only [step] at hst; cases hst; exact ⟨rfl, hopen, rfl, Nat.le_refl _⟩
  | runCall => simp only [step] at hst; cases hst; exact ⟨rfl, hopen, rfl, Nat.le_refl _⟩
  | cancel => simp only [step] at hst; cases hst; exact ⟨rfl, hopen, rfl, Nat.le_refl _⟩
  | run | runErrRet | top | tokenGiveUp | exitLoop | advance _ | closeRet | consume | senderGiveUp | runRet =>
    simp only [step] at hst
    split at hst <;> cases hst <;> exact ⟨rfl, hopen, rfl, Nat.le_refl _⟩

theorem inwindow_exec {cfg : Config} (hcap : cfg.cap = none) (ls : List Label) {s s' : State}
    (hopen : s.timer.isSome = true) (hrun : exec cfg s ls = some s') (hne : ∀ l ∈ ls, l ≠ .expire) :
    s'.fires = s.fires ∧ s'.timer.isSome = true ∧ s'.pending + s.adds = s.pending + s'.adds ∧
    s.adds ≤ s'.adds := by
  induction ls generalizing s with
  | nil => simp [exec] at hrun; subst hrun; exact ⟨rfl, hopen, rfl, Nat.le_refl _⟩
  | cons l ls ih =>
    simp only [exec] at hrun
    cases hst : step cfg s l with
    | none => simp [hst] at hrun
    | some s1 =>
      simp [hst] at hrun
      obtain ⟨a1, a2, a3, a4⟩ := inwindow_step hcap hopen (hne l (by simp)) hst
      obtain ⟨b1, b2, b3, b4⟩ := ih a2 hrun (fun l' hl' => hne l' (by simp [hl']))
      exact ⟨by omega, b2, by omega, by omega⟩

/-! ### window steps, cap, deadline -/

theorem deliver_window {cfg : Config} {s s' : State} (hst : step cfg s .deliver = some s') :
    (s.timer = none → s'.wk = 0 ∧ s'.timer = some (s.now + cfg.initial)) ∧
    (s.timer.isSome = true → capReached cfg s = false →
      s'.wk = s.wk + 1 ∧ s'.timer = some (s.now + s'.cur)) := by
  simp only [step] at hst
  split at hst
  · cases hst
    constructor
    · intro htm; rw [handleInput_none htm]; simp
    · intro hopen hc
      obtain ⟨d0, hd0⟩ := Option.isSome_iff_exists.1 hopen
      rw [handleInput_ext hd0 hc]; simp
  · cases hst

theorem cap_fires_aux {cfg : Config} (hv : cfg.valid) {s : State} (hi : Inv cfg s) {m : Nat}
    (hcap : cfg.cap = some m) (hrun : s.running = true) (hcl : s.closed = false)
    (hm : m ≤ s.pending) :
    0 < s.tokens ∧
    ∃ ls s', (∀ l ∈ ls, l.internal = true) ∧ exec cfg s ls = some s' ∧
      s'.fires = s.fires + 1 ∧ s'.pending = 0 ∧ s'.now = s.now := by
  have hm0 := hv.2.2 m hcap
  have hp : 0 < s.pending := by omega
  have htok : 0 < s.tokens := by
    rcases hi.capi m hcap with h | h
    · simp [hcl] at h
    · omega
  refine ⟨htok, ?_⟩
  have hfire : ∀ s0 : State, s0.pending = s.pending → s0.timer = s.timer → s0.fires = s.fires →
      s0.now = s.now →
      (handleInput cfg s0).fires = s.fires + 1 ∧ (handleInput cfg s0).pending = 0 ∧
      (handleInput cfg s0).now = s.now := by
    intro s0 e1 e2 e3 e4
    have hp0 : 0 < s0.pending := by omega
    cases htm : s0.timer with
    | none => rw [handleInput_none htm]; simp [fire_def, hp0, e3, e4]
    | some d0 =>
      have hc : capReached cfg s0 = true := (capReached_iff cfg s0).2 ⟨m, hcap, by omega⟩
      rw [handleInput_cap htm hc]; simp [fire_def, hp0, e3, e4]
  rcases running_cases hrun with hl | hl
  · refine ⟨[.top, .deliver], handleInput cfg { s with loop := .sel }, ?_, ?_, ?_⟩
    · intro l hl'; simp at hl'; rcases hl' with rfl | rfl <;> rfl
    · simp [exec, step, hl, htok]
    · exact hfire _ rfl rfl rfl rfl
  · refine ⟨[.deliver], handleInput cfg s, ?_, ?_, ?_⟩
    · intro l hl'; simp at hl'; subst hl'; rfl
    · simp [exec, step, hl, htok]
    · exact hfire _ rfl rfl rfl rfl

theorem deadline_bound_aux {cfg : Config} {s s' : State} (hopen : s.timer.isSome = true)
    (hnc : capReached cfg s = false) (hst : step cfg s .deliver = some s') (hp : 0 < s.pending) :
    s'.timer = some (s.now + s'.cur) ∧ s'.pending = s.pending ∧ s'.fires = s.fires ∧
    ∃ s'', exec cfg s' [.top, .advance (s.now + s'.cur), .expire] = some s'' ∧
      s''.fires = s.fires + 1 ∧ s''.now = s.now + s'.cur ∧ s''.pending = 0 := by
  simp only [step] at hst
  split at hst
  · cases hst
    obtain ⟨d0, hd0⟩ := Option.isSome_iff_exists.1 hopen
    rw [handleInput_ext hd0 hnc]
    refine ⟨by simp, by simp, by simp, ?_⟩
    generalize hb : backoffVals cfg s.cur s.factor = b
    refine ⟨handleTimer cfg { s with tokens := s.tokens - 1, loop := .sel, cur := b.1, factor := b.2.1, ovf := s.ovf || b.2.2, timer := some (s.now + b.1), armedAt := s.now, wk := s.wk + 1, now := s.now + b.1 }, ?_, ?_, ?_, ?_⟩
    · simp [exec, step]
    · simp [handleTimer_def, fire_def, hp]
    · simp [handleTimer_def]
    · simp [handleTimer_def]
  · cases hst

theorem late_token_aux {cfg : Config} {s s' : State} (htm : s.timer = none) (hp : s.pending = 0)
    (hst : step cfg s .deliver = some s') :
    s'.fires = s.fires ∧ s'.timer = some (s.now + cfg.initial) ∧ s'.pending = 0 ∧
    ∃ s'', exec cfg s' [.top, .advance (s.now + cfg.initial), .expire] = some s'' ∧
      s''.fires = s.fires ∧ s''.timer = none := by
  simp only [step] at hst
  split at hst
  · cases hst
    rw [handleInput_none htm]
    have hf : fire cfg { s with tokens := s.tokens - 1, loop := Loop.top, timer := some (s.now + cfg.initial), armedAt := s.now, wk := 0 } = { s with tokens := s.tokens - 1, loop := Loop.top, timer := some (s.now + cfg.initial), armedAt := s.now, wk := 0 } := by
      simp [fire_def, hp]
    rw [hf]
    refine ⟨by simp, by simp, by simpa using hp, ?_⟩
    refine ⟨handleTimer cfg { s with tokens := s.tokens - 1, loop := .sel, timer := some (s.now + cfg.initial), armedAt := s.now, wk := 0, now := s.now + cfg.initial }, ?_, ?_, ?_⟩
    · simp [exec, step]
    · simp [handleTimer_def, fire_def, hp]
    · simp [handleTimer_def]
  · cases hst

/-! ### the `running` flag -/

theorem fire_casDone (cfg : Config) (s : State) : (fire cfg s).casDone = s.casDone := by
  rw [fire_def]; split <;> rfl

theorem casDone_step {cfg : Config} {s s' : State} {l : Label} (hc : s.casDone = true)
    (hst : step cfg s l = some s') : s'.casDone = true := by
  cases l with
  | add => rw [step_add_def] at hst; split at hst <;> cases hst <;> exact hc
  | deliver =>
    simp only [step] at hst
    split at hst
    · cases hst
      cases htm : s.timer with
      | none => rw [handleInput_none htm, fire_casDone]; exact hc
      | some d0 =>
        cases hcap : capReached cfg s with
        | true => rw [handleInput_cap htm hcap, fire_casDone]; exact hc
        | false => rw [handleInput_ext htm hcap]; exact hc
    · cases hst
  | expire =>
    simp only [step] at hst
    split at hst
    · split at hst
      · cases hst; rw [handleTimer_def]; simp only []; rw [fire_casDone]; exact hc
      · cases hst
    · cases hst
  | close => simp only [step] at hst; cases hst; exact hc
  | cancel => simp only [step] at hst; cases hst; exact hc
  | runCall => simp only [step] at hst; cases hst; exact hc
  | run => simp only [step] at hst; split at hst <;> cases hst; rfl
  | runErrRet | top | tokenGiveUp | exitLoop | advance _ | closeRet | consume | senderGiveUp | runRet =>
    simp only [step] at hst
    split at hst <;> cases hst <;> exact hc

/-! ### arithmetic range -/

def Range (cfg : Config) (s : State) : Prop :=
  s.ovf = false ∧ s.factor < 2 ^ 63 ∧ f64OfNat cfg.initial * s.factor < 2 ^ 63 ∧
  s.cur ≤ cfg.max ∧ ∃ k, s.factor = 2 ^ k

theorem range_reach {cfg : Config} (hv : cfg.valid) (hn : NoOvf cfg) :
    ∀ s, Reach cfg s → Range cfg s := by
  intro s h
  induction h with
  | init =>
    refine ⟨rfl, by simp [init_def], ?_, hv.2.1, ⟨0, rfl⟩⟩
    have := hn.2
    simp [init_def]; omega
  | @step s s' l hr hst ih =>
    obtain ⟨ho, hf, hp, hc, hk⟩ := ih
    have hw := winv_reach hv s hr
    have ho' : s'.ovf = false := ovf_step_of_noovf hv hn l hw ho hst
    have hw' := winv_reach hv s' (Reach.step l hr hst)
    have hc' : s'.cur ≤ cfg.max := by rw [(hw' ho').1]; exact grow_le_max hv _
    refine ⟨ho', ?_⟩
    have hone : f64OfNat cfg.initial * 1 < 2 ^ 63 := by have := hn.2; omega
    cases l with
    | deliver =>
      simp only [step] at hst
      split at hst
      · cases hst
        cases htm : s.timer with
        | none => rw [handleInput_none htm]; simpa using ⟨hf, hp, hc, hk⟩
        | some d0 =>
          cases hcap : capReached cfg s with
          | true => rw [handleInput_cap htm hcap]; simpa using ⟨hf, hp, hc, hk⟩
          | false =>
            rw [handleInput_ext htm hcap] at ho' hc' ⊢
            simp only [ho, Bool.false_or] at ho'
            simp only [] at hc' ⊢
            by_cases hlt : s.cur < cfg.max
            · rw [backoffVals_lt hlt] at ho' hc' ⊢
              split at ho'
              · next hr' =>
                simp only [hr', and_self, if_true] at hc' ⊢
                obtain ⟨k, hk⟩ := hk
                refine ⟨by simpa [int64Lim] using hr'.1, by simpa [int64Lim] using hr'.2, hc', ⟨k + 1, ?_⟩⟩
                rw [hk, Nat.pow_succ]
              · simp at ho'
            · rw [backoffVals_ge hlt] at hc' ⊢
              exact ⟨hf, hp, hc', hk⟩
      · cases hst
    | expire =>
      simp only [step] at hst
      split at hst
      · split at hst
        · cases hst
          refine ⟨by simp [handleTimer_def], by simpa [handleTimer_def] using hone, ?_, ⟨0, by simp [handleTimer_def]⟩⟩
          simpa using hc'
        · cases hst
      · cases hst
    | add =>
      simp only [step] at hst
      split at hst <;> cases hst <;> exact ⟨hf, hp, hc, hk⟩
    | close => simp only [step] at hst; cases hst; exact ⟨hf, hp, hc, hk⟩
    | runCall => simp only [step] at hst; cases hst; exact ⟨hf, hp, hc, hk⟩
    | cancel => simp only [step] at hst; cases hst; exact ⟨hf, hp, hc, hk⟩
    | run | runErrRet | top | tokenGiveUp | exitLoop | advance _ | closeRet | consume | senderGiveUp | runRet =>
      simp only [step] at hst
      split at hst <;> cases hst <;> exact ⟨hf, hp, hc, hk⟩

/-! ### Close can return -/

theorem exec_tokenGiveUp {cfg : Config} (n : Nat) {s : State} (hc : s.closed = true)
    (hn : s.tokens = n) :
    exec cfg s (List.replicate n .tokenGiveUp) = some { s with tokens := 0 } := by
  induction n generalizing s with
  | zero => simp [exec]; cases s; simp_all
  | succ n ih =>
    simp only [List.replicate, exec]
    have : step cfg s .tokenGiveUp = some { s with tokens := s.tokens - 1 } := by
      simp [step, hc, hn]
    rw [this]
    simp only [Option.bind_some]
    rw [ih (s := { s with tokens := s.tokens - 1 }) hc (by simp [hn])]

theorem exec_senderGiveUp {cfg : Config} (n : Nat) {s : State} (hc : s.ctxDone = true)
    (hn : s.senders = n) :
    exec cfg s (List.replicate n .senderGiveUp) =
      some { s with senders := 0, dropped := s.dropped + n } := by
  induction n generalizing s with
  | zero => simp [exec]; cases s; simp_all
  | succ n ih =>
    simp only [List.replicate, exec]
    have : step cfg s .senderGiveUp =
        some { s with senders := s.senders - 1, dropped := s.dropped + 1 } := by
      simp [step, hc, hn]
    rw [this]
    simp only [Option.bind_some]
    rw [ih (s := { s with senders := s.senders - 1, dropped := s.dropped + 1 })
      (by simpa [State.ctxDone] using hc) (by simp [hn])]
    simp; omega

theorem mem_replicate_internal {n : Nat} {x l : Label} (hx : x.internal = true)
    (h : l ∈ List.replicate n x) : l.internal = true := by
  rw [List.mem_replicate] at h; rw [h.2]; exact hx

theorem close_returns_aux {cfg : Config} {s : State} (hi : Inv cfg s) (hw : 0 < s.closeWaiting) :
    ∃ ls s', (∀ l ∈ ls, l.internal = true) ∧ exec cfg s ls = some s' ∧
      (step cfg s' .closeRet).isSome = true := by
  have hcl : s.closed = true := hi.cl (Or.inl hw)
  -- stage 1: the run loop leaves
  have stage1 : ∃ pre s1, (∀ l ∈ pre, l.internal = true) ∧ exec cfg s pre = some s1 ∧
      s1.closed = true ∧ s1.closeWaiting = s.closeWaiting ∧ s1.running = false ∧
      (s1.senders = 0 ∨ s1.ctxDone = true) := by
    cases hl : s.loop with
    | off =>
      exact ⟨[], s, by simp, by simp [exec], hcl, rfl, by simp [State.running, hl], Or.inl (hi.off hl)⟩
    | done =>
      exact ⟨[], s, by simp, by simp [exec], hcl, rfl, by simp [State.running, hl],
        Or.inr (by simp [State.ctxDone, hl])⟩
    | sel =>
      refine ⟨[.exitLoop], { s with loop := .done }, ?_, by simp [exec, step, hl, hcl], hcl, rfl,
        by simp [State.running], Or.inr (by simp [State.ctxDone])⟩
      intro l h; simp at h; subst h; rfl
    | top =>
      refine ⟨[.top, .exitLoop], { s with loop := .done }, ?_, by simp [exec, step, hl, hcl], hcl, rfl,
        by simp [State.running], Or.inr (by simp [State.ctxDone])⟩
      intro l h; simp at h; rcases h with rfl | rfl <;> rfl
  obtain ⟨pre, s1, hpre, he1, hc1, hw1, hr1, hs1⟩ := stage1
  -- stage 2: tokens give up; stage 3: senders give up
  have he2 := exec_tokenGiveUp (cfg := cfg) s1.tokens hc1 rfl
  have hs2 : ({ s1 with tokens := 0 } : State).senders = 0 ∨ ({ s1 with tokens := 0 } : State).ctxDone = true := by
    rcases hs1 with h | h
    · left; simpa using h
    · right; simpa [State.ctxDone] using h
  have he3 : ∃ s3, exec cfg { s1 with tokens := 0 } (List.replicate s1.senders .senderGiveUp) = some s3 ∧
      s3.tokens = 0 ∧ s3.senders = 0 ∧ s3.running = false ∧ s3.closeWaiting = s.closeWaiting := by
    rcases hs2 with h | h
    · have h0 : s1.senders = 0 := by simpa using h
      rw [h0]
      exact ⟨{ s1 with tokens := 0 }, by simp [exec, h0], rfl, by simpa using h0, by simpa [State.running] using hr1, by simpa using hw1⟩
    · have := exec_senderGiveUp (cfg := cfg) s1.senders (s := { s1 with tokens := 0 }) h rfl
      exact ⟨_, this, rfl, rfl, by simpa [State.running] using hr1, by simpa using hw1⟩
  obtain ⟨s3, he3, t3, d3, r3, w3⟩ := he3
  refine ⟨pre ++ (List.replicate s1.tokens .tokenGiveUp ++ List.replicate s1.senders .senderGiveUp), s3, ?_, ?_, ?_⟩
  · intro l hl
    rcases List.mem_append.1 hl with h | h
    · exact hpre l h
    · rcases List.mem_append.1 h with h | h
      · exact mem_replicate_internal rfl h
      · exact mem_replicate_internal rfl h
  · rw [exec_append, he1]; simp only [Option.bind_some]
    rw [exec_append, he2]; simp only [Option.bind_some]
    exact he3
  · have : s3.helpers = 0 := by simp [State.helpers, t3, d3, r3]
    simp [step, this, w3, hw]

end Kit.Coalescing
