/-
C03: further structural facts — the RFC 7518 MAC input is an injective encoding (that is what the
`AL` field is for), and the sign-side and verify-side dispatch of the signature entry points agree
for EVERY key kind (also EC keys of arbitrary size).
-/
import KitProofs.Lemmas.CryptoGlueKWSpec
import KitProofs.Lemmas.CryptoGlueSpec
import KitProofs.Lemmas.CryptoGlueNF
namespace Kit.CryptoGlue
open Kit Kit.CryptoGlue.Facts

/-! ### `AD ‖ IV ‖ C ‖ AL` determines its parts -/

theorem be64_inj_small {a b : Nat} (ha : a < 18446744073709551616) (hb : b < 18446744073709551616)
    (h : be64 a = be64 b) : a = b := by
  have h1 := fromBe64_be64 a
  have h2 := fromBe64_be64 b
  rw [h] at h1
  rw [h1] at h2
  omega

theorem macInput_inj (ad iv ct ad' iv' ct' : Bytes) (hiv : iv.length = iv'.length)
    (hal : ad.length < 2305843009213693952) (hal' : ad'.length < 2305843009213693952)
    (h : macInput ad iv ct = macInput ad' iv' ct') : ad = ad' ∧ iv = iv' ∧ ct = ct' := by
  unfold macInput at h
  have h8 : (be64 (ad.length * 8)).length = (be64 (ad'.length * 8)).length := by
    rw [be64_length, be64_length]
  obtain ⟨hpre, hbe⟩ := List.append_inj' h h8
  have hlen : ad.length = ad'.length := by
    have := be64_inj_small (by omega) (by omega) hbe
    omega
  rw [List.append_assoc, List.append_assoc] at hpre
  obtain ⟨hadeq, hrest⟩ := List.append_inj hpre hlen
  obtain ⟨hiveq, hcteq⟩ := List.append_inj hrest hiv
  exact ⟨hadeq, hiveq, hcteq⟩

/-! ### sign-side and verify-side dispatch agree -/

def pubTypeOf (priv : String) : String :=
  if priv = "rsa.PrivateKey" then "rsa.PublicKey"
  else if priv = "ecdsa.PrivateKey" then "ecdsa.PublicKey"
  else if priv = "ed25519.PrivateKey" then "ed25519.PublicKey"
  else "?"

/-- The stdlib verifier that belongs to a stdlib signer / the decryption that belongs to an encryption. -/
def verifyCallOf (s : String) : String :=
  if s = "rsa.SignPKCS1v15" then "rsa.VerifyPKCS1v15"
  else if s = "rsa.SignPSS" then "rsa.VerifyPSS"
  else if s = "ecdsa.SignASN1" then "ecdsa.VerifyASN1"
  else if s = "ed25519.Sign" then "ed25519.Verify"
  else "?"

def decCallOf (s : String) : String :=
  if s = "rsa.EncryptPKCS1v15" then "rsa.DecryptPKCS1v15"
  else if s = "rsa.EncryptOAEP" then "rsa.DecryptOAEP"
  else "?"

/-- Two dispatch results denote the same primitive: the second helper's stdlib call is the counterpart
of the first's, with the same hash and the same curve. -/
def PlansMatch (callOf : String → String) (a b : AsymPlan) : Prop :=
  b.helper.stdCall = callOf a.helper.stdCall ∧ callOf a.helper.stdCall ≠ "?" ∧ b.hash = a.hash ∧ b.curve = a.curve

/-- A family of signature schemes indexed by the dispatch result is lawful if what the scheme of a
sign-side plan signs, the scheme of every MATCHING verify-side plan accepts. -/
def SigFamilyLawful {SK PK : Type} (F : AsymPlan → SigScheme SK PK) : Prop :=
  ∀ a b, PlansMatch verifyCallOf a b → ∀ sk d r s,
    (F a).sign sk d r = .ok s → (F b).verify ((F a).pub sk) d s = .valid

/-- Likewise for public-key encryption. -/
def PkeFamilyLawful {SK PK : Type} (F : AsymPlan → PkeScheme SK PK) : Prop :=
  ∀ a b, PlansMatch decCallOf a b → ∀ sk m l r c,
    (F a).enc ((F a).pub sk) m l r = .ok c → (F b).dec sk c l = .ok m

/-- The verify-side plan is the public counterpart of the sign-side plan. -/
def planPairOK (a b : AsymPlan) : Bool :=
  (a.helper.rawType == "rsa.PrivateKey" || a.helper.rawType == "ecdsa.PrivateKey" ||
    a.helper.rawType == "ed25519.PrivateKey") &&
  b.helper.rawType == pubTypeOf a.helper.rawType && b.helper.checksCurve == a.helper.checksCurve &&
  b.curve == a.curve && b.hash == a.hash && b.helper.stdCall == verifyCallOf a.helper.stdCall &&
  verifyCallOf a.helper.stdCall != "?"

def sigPairOK (alg : String) : Bool :=
  match asymPlan Generated.C03.sw_SignPrivateKey alg, asymPlan Generated.C03.sw_VerifyPublicKey alg with
  | .ok a, .ok b => planPairOK a b
  | _, _ => false

theorem sigPairOK_all : ∀ alg ∈ Generated.C03.supportedSignature, sigPairOK alg = true := by decide

theorem curveBits_toPublic (k : KeyKind) : curveBits (toPublic k) = curveBits k := by
  cases k <;> rfl

theorem rawFits_pub (ty : String) (k : KeyKind)
    (hty : ty = "rsa.PrivateKey" ∨ ty = "ecdsa.PrivateKey" ∨ ty = "ed25519.PrivateKey")
    (h : rawFits ty k = true) : rawFits (pubTypeOf ty) (toPublic k) = true := by
  rcases hty with rfl | rfl | rfl <;> cases k <;> simp_all [rawFits, toPublic, pubTypeOf]

theorem asymGuard_pair (a b : AsymPlan) (h : planPairOK a b = true) (k : KeyKind)
    (hg : asymGuard a k = none) : asymGuard b (toPublic k) = none := by
  simp only [planPairOK, Bool.and_eq_true, Bool.or_eq_true, beq_iff_eq] at h
  obtain ⟨⟨⟨⟨⟨⟨hty, hpub⟩, hcc⟩, hcv⟩, _⟩, _⟩, _⟩ := h
  have h1 : rawFits a.helper.rawType k = true := by
    cases hr : rawFits a.helper.rawType k with
    | true => rfl
    | false => simp [asymGuard, hr] at hg
  have h2 : ¬ (a.helper.checksCurve = true ∧ curveBits k ≠ a.curve) := by
    intro hc
    simp [asymGuard, h1, hc] at hg
  have hty' : a.helper.rawType = "rsa.PrivateKey" ∨ a.helper.rawType = "ecdsa.PrivateKey" ∨
      a.helper.rawType = "ed25519.PrivateKey" := by
    rcases hty with (h | h) | h
    · exact Or.inl h
    · exact Or.inr (Or.inl h)
    · exact Or.inr (Or.inr h)
  have h3 := rawFits_pub _ k hty' h1
  unfold asymGuard
  rw [hpub, h3, hcc, hcv, curveBits_toPublic]
  simp only [not_true_eq_false, if_false]
  rw [if_neg h2]

theorem planPairOK_match (a b : AsymPlan) (h : planPairOK a b = true) : PlansMatch verifyCallOf a b := by
  simp only [planPairOK, Bool.and_eq_true, Bool.or_eq_true, beq_iff_eq, bne_iff_ne] at h
  obtain ⟨⟨⟨⟨_, hcv⟩, hh⟩, hc⟩, hq⟩ := h
  exact ⟨hc, hq, hh, hcv⟩

/-! ### `asymDispatch` vs `asymOutcome`, and totality -/

def asymSwitchOf (fn : String) : Switch :=
  if fn = "EncryptPublicKey" then Generated.C03.sw_EncryptPublicKey
  else if fn = "DecryptPrivateKey" then Generated.C03.sw_DecryptPrivateKey
  else if fn = "SignPrivateKey" then Generated.C03.sw_SignPrivateKey
  else Generated.C03.sw_VerifyPublicKey

def asymKeySeen (fn : String) (k : KeyKind) : KeyKind :=
  if fn = "EncryptPublicKey" ∨ fn = "VerifyPublicKey" then toPublic k else k

theorem asymDispatch_eq (fn alg : String) (k : KeyKind) :
    asymDispatch fn alg k =
      match asymPlan (asymSwitchOf fn) alg with
      | .err e => .err e
      | .panic w => .panic w
      | .ok pl => match asymGuard pl (asymKeySeen fn k) with
        | some e => .err e
        | none => .ok pl := rfl

theorem asymOutcome_eq (fn alg : String) (k : KeyKind) :
    asymOutcome fn alg k =
      match asymPlan (asymSwitchOf fn) alg with
      | .err e => .err e
      | .panic w => .panic w
      | .ok pl => match asymGuard pl (asymKeySeen fn k) with
        | some e => .err e
        | none => .ok () := rfl

/-- `asymOutcome` is `asymDispatch` with the plan forgotten. -/
theorem asymOutcome_of_dispatch (fn alg : String) (k : KeyKind) :
    asymOutcome fn alg k = (match asymDispatch fn alg k with
      | .ok _ => .ok () | .err e => .err e | .panic w => .panic w) := by
  rw [asymOutcome_eq, asymDispatch_eq]
  cases asymPlan (asymSwitchOf fn) alg with
  | ok pl =>
    simp only
    cases hg : asymGuard pl (asymKeySeen fn k) <;> simp
  | err e => rfl
  | panic w => rfl

theorem asymDispatch_ok {fn alg : String} {k : KeyKind} {pl : AsymPlan}
    (h : asymDispatch fn alg k = .ok pl) :
    asymPlan (asymSwitchOf fn) alg = .ok pl ∧ asymGuard pl (asymKeySeen fn k) = none := by
  rw [asymDispatch_eq] at h
  cases hp : asymPlan (asymSwitchOf fn) alg with
  | ok pl' =>
    rw [hp] at h
    simp only at h
    cases hg : asymGuard pl' (asymKeySeen fn k) with
    | none => rw [hg] at h; injection h with h; subst h; exact ⟨rfl, hg⟩
    | some e => rw [hg] at h; cases h
  | err e => rw [hp] at h; cases h
  | panic w => rw [hp] at h; cases h

def fourSwitches : List Switch :=
  [Generated.C03.sw_EncryptPublicKey, Generated.C03.sw_DecryptPrivateKey,
   Generated.C03.sw_SignPrivateKey, Generated.C03.sw_VerifyPublicKey]

theorem asymSwitchOf_mem (fn : String) : asymSwitchOf fn ∈ fourSwitches := by
  unfold asymSwitchOf fourSwitches
  split
  · simp
  · split
    · simp
    · split <;> simp

/-- Every name that occurs in a case list of one of the four switches gets a plan: no lookup panics,
the helper exists, and the only error its key guard can return is `ErrKeyTypeMismatch`. -/
theorem asymPlan_listed :
    ∀ sw ∈ fourSwitches, ∀ c ∈ sw.cases, ∀ a ∈ c.1,
      (match asymPlan sw a with
        | .ok pl => pl.helper.guardErr == eKeyTypeMismatch
        | _ => false) = true := by
  decide

theorem fourSwitches_dflt : ∀ sw ∈ fourSwitches, sw.dflt = eUnsupportedAlgorithm := by decide

/-- For EVERY string: the dispatch either says `ErrUnsupportedAlgorithm` or yields a plan whose
guard error is `ErrKeyTypeMismatch` — never a panic (names shorter than the slices of
`getSHAHash`/`expectedKeySize` included: they are in no case list, so no table is consulted). -/
theorem asymPlan_total (sw : Switch) (hsw : sw ∈ fourSwitches) (alg : String) :
    asymPlan sw alg = .err eUnsupportedAlgorithm ∨
    ∃ pl, asymPlan sw alg = .ok pl ∧ pl.helper.guardErr = eKeyTypeMismatch := by
  cases hl : lookupSwitch sw alg with
  | none =>
    left
    unfold asymPlan
    rw [hl, fourSwitches_dflt sw hsw]
  | some ce =>
    right
    -- the name occurs in a case list
    unfold lookupSwitch at hl
    rw [Option.map_eq_some_iff] at hl
    obtain ⟨c, hfind, _⟩ := hl
    have hc : c ∈ sw.cases := List.mem_of_find?_eq_some hfind
    have ha : alg ∈ c.1 := by
      have := List.find?_some hfind
      simpa using this
    have := asymPlan_listed sw hsw c hc alg ha
    cases hp : asymPlan sw alg with
    | ok pl => rw [hp] at this; exact ⟨pl, rfl, by simpa using this⟩
    | err e => rw [hp] at this; cases this
    | panic w => rw [hp] at this; cases this

theorem asymGuard_cases (pl : AsymPlan) (k : KeyKind) :
    asymGuard pl k = none ∨ asymGuard pl k = some pl.helper.guardErr := by
  unfold asymGuard
  split
  · right; rfl
  · split
    · right; rfl
    · left; rfl

/-! ### encryption-side and decryption-side dispatch agree -/

def encPairOK (alg : String) : Bool :=
  match asymPlan Generated.C03.sw_EncryptPublicKey alg, asymPlan Generated.C03.sw_DecryptPrivateKey alg with
  | .ok a, .ok b => b.helper.stdCall == decCallOf a.helper.stdCall && decCallOf a.helper.stdCall != "?" &&
      b.hash == a.hash && b.curve == a.curve
  | _, _ => false

theorem encPairOK_all : ∀ alg ∈ Generated.C03.supportedAsymmetric, encPairOK alg = true := by decide

theorem lookupSwitch_some_mem {sw : Switch} {alg : String} {ce : String × String}
    (h : lookupSwitch sw alg = some ce) : ∃ c ∈ sw.cases, alg ∈ c.1 := by
  unfold lookupSwitch at h
  rw [Option.map_eq_some_iff] at h
  obtain ⟨c, hfind, _⟩ := h
  exact ⟨c, List.mem_of_find?_eq_some hfind, by simpa using List.find?_some hfind⟩

theorem asymPlan_ok_mem {sw : Switch} {alg : String} {pl : AsymPlan} (h : asymPlan sw alg = .ok pl) :
    ∃ c ∈ sw.cases, alg ∈ c.1 := by
  cases hl : lookupSwitch sw alg with
  | none => unfold asymPlan at h; rw [hl] at h; cases h
  | some ce => exact lookupSwitch_some_mem hl

/-- Sign-side and verify-side dispatch agree for EVERY name and key kind: if `SignPrivateKey` proceeds
with plan `a`, `VerifyPublicKey` (on the same key or its public half) proceeds with a plan `b` that
denotes the same primitive — counterpart stdlib call, same hash, same curve. -/
theorem sig_dispatch_agrees_lemma (alg : String) (kind : KeyKind) (a : AsymPlan)
    (h : asymDispatch "SignPrivateKey" alg kind = .ok a) :
    ∃ b, asymDispatch "VerifyPublicKey" alg kind = .ok b ∧ PlansMatch verifyCallOf a b := by
  obtain ⟨hpa, hga⟩ := asymDispatch_ok h
  have hswS : asymSwitchOf "SignPrivateKey" = Generated.C03.sw_SignPrivateKey := by decide
  have hswV : asymSwitchOf "VerifyPublicKey" = Generated.C03.sw_VerifyPublicKey := by decide
  rw [hswS] at hpa
  obtain ⟨c, hc, hac⟩ := asymPlan_ok_mem hpa
  have hsub : ∀ c ∈ Generated.C03.sw_SignPrivateKey.cases, ∀ x ∈ c.1, x ∈ Generated.C03.supportedSignature := by
    decide
  have hp := sigPairOK_all alg (hsub c hc alg hac)
  unfold sigPairOK at hp
  rw [hpa] at hp
  cases hV : asymPlan Generated.C03.sw_VerifyPublicKey alg with
  | ok b =>
    rw [hV] at hp
    simp only at hp
    have hkS : asymKeySeen "SignPrivateKey" kind = kind := by simp [asymKeySeen]
    have hkV : asymKeySeen "VerifyPublicKey" kind = toPublic kind := by simp [asymKeySeen]
    rw [hkS] at hga
    have hgb := asymGuard_pair a b hp kind hga
    refine ⟨b, ?_, planPairOK_match a b hp⟩
    rw [asymDispatch_eq, hswV, hV, hkV]
    simp only [hgb]
  | err e => rw [hV] at hp; cases hp
  | panic w => rw [hV] at hp; cases hp

/-- Encryption-side and decryption-side dispatch agree (whatever the two key kinds). -/
theorem pke_dispatch_agrees_lemma (alg : String) (kE kD : KeyKind) (a b : AsymPlan)
    (ha : asymDispatch "EncryptPublicKey" alg kE = .ok a)
    (hb : asymDispatch "DecryptPrivateKey" alg kD = .ok b) : PlansMatch decCallOf a b := by
  obtain ⟨hpa, _⟩ := asymDispatch_ok ha
  obtain ⟨hpb, _⟩ := asymDispatch_ok hb
  have hswE : asymSwitchOf "EncryptPublicKey" = Generated.C03.sw_EncryptPublicKey := by decide
  have hswD : asymSwitchOf "DecryptPrivateKey" = Generated.C03.sw_DecryptPrivateKey := by decide
  rw [hswE] at hpa
  rw [hswD] at hpb
  obtain ⟨c, hc, hac⟩ := asymPlan_ok_mem hpa
  have hsub : ∀ c ∈ Generated.C03.sw_EncryptPublicKey.cases, ∀ x ∈ c.1, x ∈ Generated.C03.supportedAsymmetric := by
    decide
  have hp := encPairOK_all alg (hsub c hc alg hac)
  unfold encPairOK at hp
  rw [hpa, hpb] at hp
  simp only [Bool.and_eq_true, beq_iff_eq, bne_iff_ne] at hp
  obtain ⟨⟨⟨h1, h2⟩, h3⟩, h4⟩ := hp
  exact ⟨h1, h2, h3, h4⟩

/-! ### which key kinds each signature name takes (specification side) -/

def kindBase : KeyKind → String
  | .oct => "oct"
  | .rsaPriv | .rsaPub => "rsa"
  | .ecPriv b | .ecPub b => "ec" ++ toString b
  | .ed25519Priv | .ed25519Pub => "ed25519"
  | .x25519Priv | .x25519Pub => "x25519"

def kindIsPriv : KeyKind → Bool
  | .rsaPriv | .ecPriv _ | .ed25519Priv | .x25519Priv => true
  | _ => false

/-- What the JOSE name says about the key: RSA for RS*/PS*, the curve for ES*, Ed25519 for EdDSA. -/
def wantBase (alg : String) : String :=
  if alg = "ES256" then "ec256" else if alg = "ES384" then "ec384" else if alg = "ES512" then "ec521"
  else if alg = "EdDSA" then "ed25519" else "rsa"

/-! ### the AEAD input tuple -/

theorem aead_input_inj (ct tag ct' tag' nonce nonce' ad ad' : Bytes) (ht : tag'.length = tag.length)
    (h : (nonce', ct' ++ tag', ad') = (nonce, ct ++ tag, ad)) :
    ct' = ct ∧ tag' = tag ∧ nonce' = nonce ∧ ad' = ad := by
  injection h with h1 h2
  injection h2 with h2 h3
  obtain ⟨hc, htg⟩ := List.append_inj' h2 ht
  exact ⟨hc, htg, h1, h3⟩

/-- The AEAD object a listed AEAD name (GCM, CBC-HMAC, (X)ChaCha20-Poly1305) is decrypted with. -/
def SymAeadOf (P : Prims) (alg : String) (d : Denotes) (key : Bytes) (a : AEAD) : Prop :=
  (d.family = .gcm ∧ a = P.gcm key) ∨
  (d.family = .cbchmac ∧ ∃ c p, Generated.C03.cbcHmacCiphers.find? (·.name == alg) = some c ∧
      Generated.C03.aescbcaeadParams.find? (·.ctor == c.ctor) = some p ∧ a = cbcHmacAEAD P p key) ∨
  (d.family = .chacha ∧ ∃ c, Generated.C03.chachaCiphers.find? (·.names.contains alg) = some c ∧
      a = chachaAEAD P c key)

/-- Core of the tamper statement at the level of `decryptSymmetricAEAD`. -/
theorem decryptAEAD_tampered (a : AEAD) (nonce ad ct tag : Bytes) (htl : tag.length = a.overhead)
    (ct' nonce' tag' ad' : Bytes) (hchanged : (ct', nonce', tag', ad') ≠ (ct, nonce, tag, ad))
    (hNF : (nonce', ct' ++ tag', ad') ≠ (nonce, ct ++ tag, ad) →
      ∃ e, a.doOpen nonce' (ct' ++ tag') ad' = .err e) :
    ∃ e, decryptAEAD a ct' nonce' tag' ad' = .err e := by
  rw [decryptAEAD_eq]
  by_cases hn : nonce'.length ≠ a.nonceSize
  · exact ⟨_, by rw [if_pos hn]⟩
  · by_cases ht : tag'.length ≠ a.overhead
    · exact ⟨_, by rw [if_neg hn, if_pos ht]⟩
    · rw [if_neg hn, if_neg ht]
      apply hNF
      intro heq
      obtain ⟨h1, h2, h3, h4⟩ := aead_input_inj ct tag ct' tag' nonce nonce' ad ad' (by omega) heq
      exact hchanged (by rw [h1, h2, h3, h4])

end Kit.CryptoGlue
