/-
C03: further structural facts — the RFC 7518 MAC input is an injective encoding (that is what the
`AL` field is for), and the sign-side and verify-side dispatch of the signature entry points agree
for EVERY key kind (also EC keys of arbitrary size).
-/
import KitProofs.Lemmas.CryptoGlueKWSpec
import KitProofs.Lemmas.CryptoGlueSpec
namespace Kit.CryptoGlue
open Kit Kit.CryptoGlue.Facts

/-! ### `AD ‖ IV ‖ C ‖ AL` determines its parts -/

theorem be64_inj_small {a b : Nat} (ha : a < 18446744073709551616) (hb : b < 18446744073709551616)
    (h : be64 a = be64 b) : a = b := by
  have h1 := fromBe64_be64 a
  have h2 := fromBe64_be64 b
  rw [h] at h1
  rw [h1] at h2
  omega

theorem macInput_inj (ad iv ct ad' iv' ct' : Bytes) (hiv : iv.length = iv'.length)
    (hal : ad.length < 2305843009213693952) (hal' : ad'.length < 2305843009213693952)
    (h : macInput ad iv ct = macInput ad' iv' ct') : ad = ad' ∧ iv = iv' ∧ ct = ct' := by
  unfold macInput at h
  have h8 : (be64 (ad.length * 8)).length = (be64 (ad'.length * 8)).length := by
    rw [be64_length, be64_length]
  obtain ⟨hpre, hbe⟩ := List.append_inj' h h8
  have hlen : ad.length = ad'.length := by
    have := be64_inj_small (by omega) (by omega) hbe
    omega
  rw [List.append_assoc, List.append_assoc] at hpre
  obtain ⟨hadeq, hrest⟩ := List.append_inj hpre hlen
  obtain ⟨hiveq, hcteq⟩ := List.append_inj hrest hiv
  exact ⟨hadeq, hiveq, hcteq⟩

/-! ### sign-side and verify-side dispatch agree -/

def pubTypeOf (priv : String) : String :=
  if priv = "rsa.PrivateKey" then "rsa.PublicKey"
  else if priv = "ecdsa.PrivateKey" then "ecdsa.PublicKey"
  else if priv = "ed25519.PrivateKey" then "ed25519.PublicKey"
  else "?"

/-- The verify-side plan is the public counterpart of the sign-side plan. -/
def planPairOK (a b : AsymPlan) : Bool :=
  (a.helper.rawType == "rsa.PrivateKey" || a.helper.rawType == "ecdsa.PrivateKey" ||
    a.helper.rawType == "ed25519.PrivateKey") &&
  b.helper.rawType == pubTypeOf a.helper.rawType && b.helper.checksCurve == a.helper.checksCurve &&
  b.curve == a.curve

def sigPairOK (alg : String) : Bool :=
  match asymPlan Generated.C03.sw_SignPrivateKey alg, asymPlan Generated.C03.sw_VerifyPublicKey alg with
  | .ok a, .ok b => planPairOK a b
  | _, _ => false

theorem sigPairOK_all : ∀ alg ∈ Generated.C03.supportedSignature, sigPairOK alg = true := by decide

theorem curveBits_toPublic (k : KeyKind) : curveBits (toPublic k) = curveBits k := by
  cases k <;> rfl

theorem rawFits_pub (ty : String) (k : KeyKind)
    (hty : ty = "rsa.PrivateKey" ∨ ty = "ecdsa.PrivateKey" ∨ ty = "ed25519.PrivateKey")
    (h : rawFits ty k = true) : rawFits (pubTypeOf ty) (toPublic k) = true := by
  rcases hty with rfl | rfl | rfl <;> cases k <;> simp_all [rawFits, toPublic, pubTypeOf]

theorem asymGuard_pair (a b : AsymPlan) (h : planPairOK a b = true) (k : KeyKind)
    (hg : asymGuard a k = none) : asymGuard b (toPublic k) = none := by
  simp only [planPairOK, Bool.and_eq_true, Bool.or_eq_true, beq_iff_eq] at h
  obtain ⟨⟨⟨hty, hpub⟩, hcc⟩, hcv⟩ := h
  have h1 : rawFits a.helper.rawType k = true := by
    cases hr : rawFits a.helper.rawType k with
    | true => rfl
    | false => simp [asymGuard, hr] at hg
  have h2 : ¬ (a.helper.checksCurve = true ∧ curveBits k ≠ a.curve) := by
    intro hc
    simp [asymGuard, h1, hc] at hg
  have hty' : a.helper.rawType = "rsa.PrivateKey" ∨ a.helper.rawType = "ecdsa.PrivateKey" ∨
      a.helper.rawType = "ed25519.PrivateKey" := by
    rcases hty with (h | h) | h
    · exact Or.inl h
    · exact Or.inr (Or.inl h)
    · exact Or.inr (Or.inr h)
  have h3 := rawFits_pub _ k hty' h1
  unfold asymGuard
  rw [hpub, h3, hcc, hcv, curveBits_toPublic]
  simp only [not_true_eq_false, if_false]
  rw [if_neg h2]

end Kit.CryptoGlue
