import KitModel.NoPanicPrefix
import KitProofs.Lemmas.NoPanicGlue
/-! Helper lemmas for C07: `config.PrefixedBy` / `uncapitalize` (KitModel/NoPanicPrefix.lean). -/
namespace Kit.NoPanic.Prefix
open Kit Kit.NoPanic

/-- `[]rune(str)` of a non-empty string has at least one element (an invalid first byte included:
it decodes to U+FFFD). -/
theorem runesOf_ne_nil : ∀ s : Bytes, s ≠ [] → runesOf s ≠ []
  | [], h => absurd rfl h
  | p0 :: rest, _ => by
    unfold runesOf
    simp only [List.length_cons, runesFuel]
    exact List.cons_ne_nil _ _

theorem runesOf_length_pos (s : Bytes) (h : s ≠ []) : 0 < (runesOf s).length :=
  List.length_pos_iff.mpr (runesOf_ne_nil s h)

theorem runesOf_nil : runesOf [] = [] := rfl

/-- every decoding step consumes at least one byte and never more than there are -/
theorem decodeRune_width (p0 : UInt8) (rest : Bytes) :
    1 ≤ (decodeRune p0 rest).2 ∧ (decodeRune p0 rest).2 ≤ rest.length + 1 := by
  unfold decodeRune
  simp only
  split
  · simp
  · split
    · simp
    · rename_i sz lo hi _
      cases rest with
      | nil => simp
      | cons b1 r1 =>
        simp only
        split
        · simp
        · split
          · simp
          · cases r1 with
            | nil => simp
            | cons b2 r2 =>
              simp only
              split
              · simp
              · split
                · simp
                · cases r2 with
                  | nil => simp
                  | cons b3 r3 =>
                    simp only
                    split <;> simp

/-- the fuel of `runesOf` is never the reason decoding stops: any fuel ≥ `len(str)` gives the same runes -/
theorem runesFuel_indep : ∀ (f1 : Nat) (s : Bytes) (f2 : Nat),
    s.length ≤ f1 → s.length ≤ f2 → runesFuel f1 s = runesFuel f2 s := by
  intro f1
  induction f1 with
  | zero =>
    intro s f2 h1 _
    have : s = [] := List.eq_nil_of_length_eq_zero (by omega)
    subst this
    cases f2 <;> rfl
  | succ n ih =>
    intro s f2 h1 h2
    cases s with
    | nil => cases f2 <;> rfl
    | cons p0 rest =>
      cases f2 with
      | zero => simp at h2
      | succ m =>
        simp only [runesFuel]
        simp only [List.length_cons] at h1 h2
        congr 1
        apply ih <;> simp only [List.length_drop] <;> omega

theorem idxR_zero_ok {vv : List Rune} (h : 0 < vv.length) : idxR vv 0 = .ok vv[0] := by
  simp [idxR, h]

theorem setR_zero_ok {vv : List Rune} (h : 0 < vv.length) (v : Rune) : setR vv 0 v = .ok (vv.set 0 v) := by
  simp [setR, h]

/-- the body of `uncapitalize` behind its guard -/
theorem uncapBody_ok (toLower : Rune → Rune) (str : Bytes) (h : str ≠ []) :
    uncapitalizeUnguarded toLower str =
      .ok (stringOf ((runesOf str).set 0 (toLower ((runesOf str)[0]'(runesOf_length_pos str h))))) := by
  unfold uncapitalizeUnguarded
  have hp := runesOf_length_pos str h
  simp only [idxR_zero_ok hp, bind_ok, setR_zero_ok hp]

theorem uncapitalize_eq_unguarded (toLower : Rune → Rune) (str : Bytes) (h : str ≠ []) :
    uncapitalize toLower str = uncapitalizeUnguarded toLower str := by
  unfold uncapitalize uncapitalizeUnguarded
  have : ¬ str.length = 0 := by
    intro h0
    exact h (List.eq_nil_of_length_eq_zero h0)
  rw [if_neg this]

theorem uncapitalize_noPanic (toLower : Rune → Rune) (str : Bytes) :
    (uncapitalize toLower str).isPanic = false := by
  by_cases h : str = []
  · subst h; rfl
  · rw [uncapitalize_eq_unguarded toLower str h, uncapBody_ok toLower str h]; rfl

theorem uncapitalizeUnguarded_nil (toLower : Rune → Rune) :
    uncapitalizeUnguarded toLower [] = .panic "index out of range" := rfl

theorem uncapitalizeUnguarded_panics_iff (toLower : Rune → Rune) (str : Bytes) :
    (uncapitalizeUnguarded toLower str).isPanic = true ↔ str = [] := by
  constructor
  · intro hp
    by_cases h : str = []
    · exact h
    · rw [uncapBody_ok toLower str h] at hp; simp at hp
  · intro h; subst h; rfl

theorem convertKeys_noPanic (uncap : Bytes → Outcome Bytes) (hu : ∀ s, (uncap s).isPanic = false) (pre : Bytes) :
    ∀ ks : List Bytes, (convertKeys uncap pre ks).isPanic = false
  | [] => rfl
  | k :: ks => by
    unfold convertKeys
    refine ite_noPanic _ _ _ ?_ (convertKeys_noPanic uncap hu pre ks)
    refine bind_noPanic _ _ (hu _) fun key _ => ?_
    exact bind_noPanic _ _ (convertKeys_noPanic uncap hu pre ks) fun _ _ => rfl

/-- a key is "nothing but the prefix" exactly when it has the prefix and nothing is left of it -/
theorem key_eq_prefix_iff (k pre : Bytes) : (hasPrefix k pre = true ∧ trimPrefix k pre = []) ↔ k = pre := by
  constructor
  · rintro ⟨hp, ht⟩
    unfold trimPrefix at ht
    rw [if_pos hp] at ht
    unfold hasPrefix at hp
    obtain ⟨t, rfl⟩ := List.isPrefixOf_iff_prefix.mp hp
    simp at ht
    simp [ht]
  · rintro rfl
    have hp : hasPrefix k k = true := by
      unfold hasPrefix
      exact List.isPrefixOf_iff_prefix.mpr (List.prefix_refl k)
    refine ⟨hp, ?_⟩
    unfold trimPrefix
    rw [if_pos hp]
    simp

/-- With the guard of `uncapitalize` gone, the conversion loop panics exactly when one of the keys
is byte for byte the prefix. -/
theorem convertKeys_unguarded_panics_iff (toLower : Rune → Rune) (pre : Bytes) :
    ∀ ks : List Bytes, (convertKeys (uncapitalizeUnguarded toLower) pre ks).isPanic = true ↔ pre ∈ ks
  | [] => by simp [convertKeys]
  | k :: ks => by
    have ih := convertKeys_unguarded_panics_iff toLower pre ks
    unfold convertKeys
    by_cases hp : hasPrefix k pre = true
    · rw [if_pos hp]
      by_cases ht : trimPrefix k pre = []
      · have hk : k = pre := (key_eq_prefix_iff k pre).mp ⟨hp, ht⟩
        rw [ht, uncapitalizeUnguarded_nil]
        simp [hk]
      · have hk : ¬ pre = k := fun e => ht ((key_eq_prefix_iff k pre).mpr e.symm).2
        rw [uncapBody_ok toLower _ ht, bind_ok]
        cases hc : convertKeys (uncapitalizeUnguarded toLower) pre ks with
        | ok rest =>
          rw [hc] at ih
          simp only [bind_ok, isPanic_ok, List.mem_cons, hk, false_or]
          simpa using ih
        | err e =>
          rw [hc] at ih
          simp only [bind_err, isPanic_err, List.mem_cons, hk, false_or]
          simpa using ih
        | panic w =>
          rw [hc] at ih
          simp only [bind_panic, isPanic_panic, List.mem_cons, hk, false_or, true_iff]
          simpa using ih
    · rw [if_neg hp]
      have hk : ¬ pre = k := fun e => hp ((key_eq_prefix_iff k pre).mpr e.symm).1
      simp only [List.mem_cons, hk, false_or]
      exact ih

theorem prefixedByWith_noPanic (uncap : Bytes → Outcome Bytes) (hu : ∀ s, (uncap s).isPanic = false)
    (inp : Input) (pre : Bytes) : (prefixedByWith uncap inp pre).isPanic = false := by
  unfold prefixedByWith
  refine bind_noPanic _ _ (Decode.normalize_noPanic _) fun _ _ => ?_
  cases inp.keys with
  | none => rfl
  | some ks => exact convertKeys_noPanic uncap hu pre ks

end Kit.NoPanic.Prefix
