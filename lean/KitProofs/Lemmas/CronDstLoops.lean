/-
Hour zones: the five loop rules of `Next` (repaired code).
-/
import KitProofs.Lemmas.CronDstInv

namespace Kit.CronSpec
open Kit.CronCal

theorem Prog.adv {tin : Int} {ain : Bool} {t : Int} {a : Bool} {t' : Int} (h : Prog tin ain t a)
    (h1 : t - 3600 < t') (h2 : a = true → t < t') :
    Prog tin ain t' true ∧ ((ain = true → tin < t') ∧ (ain = false → tin - 3600 < t')) := by
  simp only [Prog] at *
  cases a
  · obtain ⟨rfl, rfl⟩ := h.1 rfl
    simp; omega
  · obtain ⟨ha, hb⟩ := h.2 rfl
    have := h2 rfl
    refine ⟨⟨by simp, fun _ => ⟨fun h => ?_, fun h => ?_⟩⟩, fun h => ?_, fun h => ?_⟩
    · have := ha h; omega
    · have := hb h; omega
    · have := ha h; omega
    · have := hb h; omega

section
variable {s : Sched} {z : Zone} {b : Int → Int} (H : HourZone z b)
include H

/-! ### second loop -/

def PinSD (s : Sched) (z : Zone) (t0 tin : Int) (ain : Bool) (t : Int) (a : Bool) : Prop :=
  Prog tin ain t a ∧ NoMatchB s z t0 t ∧ has s.month (month z t) = true ∧ dayRule s z t ∧
  has s.hour (hour z t) = true ∧ has s.minute (minute z t) = true

theorem second_ruleD (t0 tin : Int) (ain : Bool) (t : Int) (a : Bool)
    (hp : PinSD s z t0 tin ain t a) :
    match secondLoop s z innerFuel t a with
    | .next t' _ => NoMatchB s z t0 t' ∧ Matches s z t'
    | .wrap t' a' => a' = true ∧ QWD s z b t0 tin ain t'
    | .fuel => False := by
  have hsr : 0 ≤ second z t ∧ second z t < 60 := by rw [second_hz H]; omega
  refine loop_rule2 (PinSD s z t0 tin ain)
    (fun t' _ => NoMatchB s z t0 t' ∧ Matches s z t')
    (QWD s z b t0 tin ain) (fun t _ => 60 - second z t)
    (fun t a hp hok => ⟨hp.2.1, hok, hp.2.2.2.2.2, hp.2.2.2.2.1, hp.2.2.1, hp.2.2.2.1⟩) ?_
    innerFuel t a hp (by omega) (by simp only [innerFuel]; omega)
  clear hsr hp t a
  intro t a ⟨hprog, hnm, hmon, hday, hhour, hmin⟩ hok
  have hok' : ¬ has s.second (second z t) = true := by simpa using hok
  have h1 : (if a then t else truncate t 1) = t := by
    cases a
    · simp only [truncate]; simp
    · rfl
  rw [h1]
  have hs2 : second z (t + 1) ≠ 0 → (t + 1) / 3600 = t / 3600 ∧ minute z (t + 1) = minute z t ∧
      second z (t + 1) = second z t + 1 := by
    rw [second_hz H, second_hz H, minute_hz H, minute_hz H]; omega
  have hnm2 : NoMatchB s z t0 (t + 1) := by
    refine hnm.step ?_
    intro u hu hmatch
    have : u = t := by simp only [Between] at hu; omega
    rw [this] at hmatch
    exact hok' hmatch.1
  obtain ⟨hpr, hq⟩ := hprog.adv (t' := t + 1) (by omega) (fun _ => by omega)
  refine ⟨fun hw => ?_, fun hw => ?_⟩
  · have hw' : second z (t + 1) = 0 := by simpa using hw
    refine ⟨hq, hnm2, by simp, fun _ => ?_⟩
    have hpos : (t + 1) / 3600 = t / 3600 ∨ t + 1 = 3600 * (t / 3600 + 1) := by omega
    exact alD_carry H (t := t) (kc := t / 3600) rfl hpos hw' hmon hday (fun _ => hhour)
  · have hw' : ¬ second z (t + 1) = 0 := by simpa using hw
    obtain ⟨hsame, hmsame, hnext⟩ := hs2 hw'
    obtain ⟨hh, hd⟩ := fields_of_lam H (u := t + 1) (t := t) (by rw [hsame])
    refine ⟨⟨hpr, hnm2, by rw [month_congr hd]; exact hmon, (dayRule_congr hd).2 hday,
      by rw [hh]; exact hhour, by rw [hmsame]; exact hmin⟩, ?_, ?_⟩
    · have : second z (t + 1) < 60 := by rw [second_hz H]; omega
      omega
    · omega

/-! ### minute loop -/

def PinMiD (s : Sched) (z : Zone) (b : Int → Int) (t0 tin : Int) (ain : Bool) (t : Int) (a : Bool) :
    Prop :=
  Prog tin ain t a ∧ InvD s z b t0 t a ∧ has s.month (month z t) = true ∧ dayRule s z t ∧
  has s.hour (hour z t) = true

theorem minute_ruleD (t0 tin : Int) (ain : Bool) (t : Int) (a : Bool)
    (hp : PinMiD s z b t0 tin ain t a) :
    match minuteLoop s z innerFuel t a with
    | .next t' a' => PinMiD s z b t0 tin ain t' a' ∧ has s.minute (minute z t') = true
    | .wrap t' a' => a' = true ∧ QWD s z b t0 tin ain t'
    | .fuel => False := by
  have hmr : 0 ≤ minute z t ∧ minute z t < 60 := by rw [minute_hz H]; omega
  refine loop_rule2 (PinMiD s z b t0 tin ain)
    (fun t' a' => PinMiD s z b t0 tin ain t' a' ∧ has s.minute (minute z t') = true)
    (QWD s z b t0 tin ain) (fun t _ => 60 - minute z t)
    (fun t a hp hok => ⟨hp, hok⟩) ?_
    innerFuel t a hp (by omega) (by simp only [innerFuel]; omega)
  clear hmr hp t a
  intro t a ⟨hprog, ⟨hnm, hf, ht⟩, hmon, hday, hhour⟩ hok
  have hok' : ¬ has s.minute (minute z t) = true := by simpa using hok
  have h1 : (if a then t else truncate t 60) = t - t % 60 := by
    cases a
    · simp only [truncate, unixToInternal]; simp; omega
    · have hs := (ht rfl).sec0
      rw [second_hz H] at hs
      simp only [if_true]; omega
  rw [h1]
  have hmi2 : minute z (t - t % 60 + 60) ≠ 0 → (t - t % 60 + 60) / 3600 = t / 3600 ∧
      minute z (t - t % 60 + 60) = minute z t + 1 := by
    rw [minute_hz H, minute_hz H]; omega
  have hs2 : second z (t - t % 60 + 60) = 0 := by rw [second_hz H]; omega
  have hnm2 : NoMatchB s z t0 (t - t % 60 + 60) := by
    refine hnm.step ?_
    intro u hu hmatch
    have : minute z u = minute z t := by
      simp only [Between] at hu
      rw [minute_hz H, minute_hz H]; omega
    rw [Matches, this] at hmatch
    exact hok' hmatch.2.1
  obtain ⟨hpr, hq⟩ := hprog.adv (t' := t - t % 60 + 60) (by omega) (fun _ => by omega)
  have hpos : (t - t % 60 + 60) / 3600 = t / 3600 ∨ t - t % 60 + 60 = 3600 * (t / 3600 + 1) := by
    omega
  have hal : AlD s z b (t - t % 60 + 60) :=
    alD_carry H (t := t) (kc := t / 3600) rfl hpos hs2 hmon hday (fun _ => hhour)
  have hinv : InvD s z b t0 (t - t % 60 + 60) true := ⟨hnm2, by simp, fun _ => hal⟩
  refine ⟨fun _ => ⟨hq, hinv⟩, fun hw => ?_⟩
  have hw' : ¬ minute z (t - t % 60 + 60) = 0 := by simpa using hw
  obtain ⟨hsame, hnext⟩ := hmi2 hw'
  obtain ⟨hh, hd⟩ := fields_of_lam H (u := t - t % 60 + 60) (t := t) (by rw [hsame])
  refine ⟨⟨hpr, hinv, by rw [month_congr hd]; exact hmon, (dayRule_congr hd).2 hday,
    by rw [hh]; exact hhour⟩, ?_, ?_⟩
  · have : minute z (t - t % 60 + 60) < 60 := by rw [minute_hz H]; omega
    omega
  · omega

/-! ### hour loop -/

def PinHD (s : Sched) (z : Zone) (b : Int → Int) (t0 tin : Int) (ain : Bool) (t : Int) (a : Bool) :
    Prop :=
  Prog tin ain t a ∧ InvD s z b t0 t a ∧ has s.month (month z t) = true ∧ dayRule s z t

/-- Measure of the hour loop: twice the local hours left in the day, corrected so that it also
drops across a repeated hour. -/
def muH (b : Int → Int) (t : Int) (a : Bool) : Int :=
  2 * 24 * (lam b (t / 3600) / 24 + 1) + 2 - lam b (t / 3600) - lam b (t / 3600 + 1) +
    (if a then 0 else 2)

theorem hour_ruleD (t0 tin : Int) (ain : Bool) (t : Int) (a : Bool)
    (hp : PinHD s z b t0 tin ain t a) :
    match hourLoop s z innerFuel t a with
    | .next t' a' => PinHD s z b t0 tin ain t' a' ∧ has s.hour (hour z t') = true
    | .wrap t' a' => a' = true ∧ QWD s z b t0 tin ain t'
    | .fuel => False := by
  have hmu : 0 ≤ muH b t a ∧ muH b t a < 100 := by
    have st := lam_step H (t / 3600)
    simp only [muH]
    cases a <;> simp <;> omega
  refine loop_rule2 (PinHD s z b t0 tin ain)
    (fun t' a' => PinHD s z b t0 tin ain t' a' ∧ has s.hour (hour z t') = true)
    (QWD s z b t0 tin ain) (muH b)
    (fun t a hp hok => ⟨hp, hok⟩) ?_
    innerFuel t a hp hmu.1 (by simp only [innerFuel]; omega)
  clear hmu hp t a
  intro t a ⟨hprog, ⟨hnm, hf, ht⟩, hmon, hday⟩ hok
  have hok' : ¬ has s.hour (hour z t) = true := by simpa using hok
  obtain ⟨ρ, hρ, hlam, hat⟩ : ∃ ρ,
      (if a then t else goDate z (year z t) (month z t) (day z t) (hour z t) 0 0) = 3600 * ρ ∧
      lam b ρ = lam b (t / 3600) ∧ (a = true → ρ = t / 3600 ∧ t = 3600 * ρ) := by
    cases a
    · obtain ⟨ρ, h1, h2⟩ := hour_reset_hz H t
      exact ⟨ρ, by simpa using h1, h2, fun h => Bool.noConfusion h⟩
    · have hbs : BS t := by
        by_cases h : BS t; exact h; exact absurd ((ht rfl).bs h).1 hok'
      simp only [BS] at hbs
      exact ⟨t / 3600, by simp only [if_true]; omega, rfl, fun _ => ⟨rfl, by omega⟩⟩
  rw [hρ]
  have hnear : t / 3600 - 1 ≤ ρ ∧ ρ ≤ t / 3600 + 1 := by
    constructor
    · by_cases h : t / 3600 - 1 ≤ ρ; exact h
      have := lam_strict H (j := ρ) (k := t / 3600) (by omega); omega
    · by_cases h : ρ ≤ t / 3600 + 1; exact h
      have := lam_strict H (j := t / 3600) (k := ρ) (by omega); omega
  have e2 : (3600 * ρ + 3600) / 3600 = ρ + 1 := by omega
  have hs2 : second z (3600 * ρ + 3600) = 0 := by rw [second_hz H]; omega
  have hbs2 : BS (3600 * ρ + 3600) := by simp only [BS]; omega
  have hnm2 : NoMatchB s z t0 (3600 * ρ + 3600) := by
    refine hnm.step ?_
    intro u hu hmatch
    have hk : u / 3600 = t / 3600 ∨ u / 3600 = ρ := by simp only [Between] at hu; omega
    have : lam b (u / 3600) = lam b (t / 3600) := by
      rcases hk with hk | hk <;> rw [hk]
      exact hlam
    rw [Matches, (fields_of_lam H this).1] at hmatch
    exact hok' hmatch.2.2.1
  obtain ⟨hpr, hq⟩ := hprog.adv (t' := 3600 * ρ + 3600) (by omega)
    (fun h => by have := hat h; omega)
  have hal : AlD s z b (3600 * ρ + 3600) :=
    alD_carry H (t := t) (kc := ρ) hlam (Or.inr (by omega)) hs2 hmon hday (fun h => absurd hbs2 h)
  have hinv : InvD s z b t0 (3600 * ρ + 3600) true := ⟨hnm2, by simp, fun _ => hal⟩
  refine ⟨fun _ => ⟨hq, hinv⟩, fun hw => ?_⟩
  have hw' : ¬ hour z (3600 * ρ + 3600) = 0 ∧ day z (3600 * ρ + 3600) = day z (3600 * ρ) := by
    simpa using hw
  have e3 : 3600 * ρ + 3600 = 3600 * (ρ + 1) := by omega
  have hdd : lam b ρ / 24 = lam b (ρ + 1) / 24 := by
    have := (day_eq_iff_block H (j := ρ) (k := ρ + 1) (by omega)).1 (by rw [← e3]; exact hw'.2.symm)
    exact this
  have hd : dayNum z (3600 * ρ + 3600) = dayNum z t := by
    rw [dayNum_hz H, dayNum_hz H, e2, ← hlam]; exact hdd.symm
  refine ⟨⟨hpr, hinv, by rw [month_congr hd]; exact hmon, (dayRule_congr hd).2 hday⟩, ?_, ?_⟩
  · have st := lam_step H (ρ + 1)
    simp only [muH, e2, if_true]; omega
  · -- the measure drops
    simp only [muH, e2]
    have s0 := lam_step H (t / 3600 - 1)
    have s1 := lam_step H (t / 3600)
    have s2 := lam_step H (t / 3600 + 1)
    have s3 := lam_step H (t / 3600 + 2)
    have e4 : t / 3600 - 1 + 1 = t / 3600 := by omega
    have e5 : t / 3600 + 1 + 1 = t / 3600 + 2 := by omega
    have e6 : t / 3600 + 2 + 1 = t / 3600 + 3 := by omega
    rw [e4] at s0; rw [e5] at s2; rw [e6] at s3
    -- two consecutive repeated hours are impossible (one transition per window)
    have hsp : ∀ j, t / 3600 - 1 ≤ j → j ≤ t / 3600 + 1 →
        ¬ (lam b (j + 1) = lam b j ∧ lam b (j + 2) = lam b (j + 1)) := by
      intro j hj1 hj2
      simp only [lam]
      obtain ⟨τ, ba, bb, h1, h2⟩ := win H j
      have := h2 j (by omega) (by omega)
      have := h2 (j + 1) (by omega) (by omega)
      have := h2 (j + 2) (by omega) (by omega)
      omega
    have p0 := hsp (t / 3600 - 1) (by omega) (by omega)
    have p1 := hsp (t / 3600) (by omega) (by omega)
    have p2 := hsp (t / 3600 + 1) (by omega) (by omega)
    have e7 : t / 3600 - 1 + 2 = t / 3600 + 1 := by omega
    have e8 : t / 3600 + 1 + 2 = t / 3600 + 3 := by omega
    rw [e4, e7] at p0; rw [e5, e8] at p2
    have hcase : ρ = t / 3600 - 1 ∨ ρ = t / 3600 ∨ ρ = t / 3600 + 1 := by omega
    cases a
    · simp only [Bool.false_eq_true, if_false, if_true]
      rcases hcase with h | h | h <;> subst h
      · rw [e4] at hdd ⊢; omega
      · rw [e5]; omega
      · rw [e5] at hdd ⊢; rw [e6]; omega
    · obtain ⟨h, _⟩ := hat rfl
      subst h
      simp only [if_true]; rw [e5]; omega

/-! ### day loop -/

def PinDD (s : Sched) (z : Zone) (b : Int → Int) (t0 tin : Int) (ain : Bool) (t : Int) (a : Bool) :
    Prop :=
  Prog tin ain t a ∧ InvD s z b t0 t a ∧ has s.month (month z t) = true

theorem day_ruleD (t0 tin : Int) (ain : Bool) (t : Int) (a : Bool)
    (hp : PinDD s z b t0 tin ain t a) :
    match dayLoop s z innerFuel t a with
    | .next t' a' => PinDD s z b t0 tin ain t' a' ∧ dayRule s z t'
    | .wrap t' a' => a' = true ∧ QWD s z b t0 tin ain t'
    | .fuel => False := by
  have hdr := day_range z t
  refine loop_rule2 (PinDD s z b t0 tin ain)
    (fun t' a' => PinDD s z b t0 tin ain t' a' ∧ dayRule s z t')
    (QWD s z b t0 tin ain) (fun t _ => 32 - day z t)
    (fun t a hp hok => ⟨hp, (dayMatches_iff s z t).1 hok⟩) ?_
    innerFuel t a hp (by omega) (by simp only [innerFuel]; omega)
  clear hdr hp t a
  intro t a ⟨hprog, ⟨hnm, hf, ht⟩, hmon⟩ hok
  have hok' : ¬ dayRule s z t := by
    intro h; rw [(dayMatches_iff s z t).2 h] at hok; exact Bool.noConfusion hok
  obtain ⟨k1, hk1, hland, hat⟩ : ∃ k1,
      (if a then t else goDate z (year z t) (month z t) (day z t) 0 0 0) = 3600 * k1 ∧
      Land0 b k1 (dayNum z t) ∧ (a = true → t = 3600 * k1) := by
    cases a
    · obtain ⟨h1, h2⟩ := day_reset_hz H t
      exact ⟨_, by simpa using h1, h2, fun h => Bool.noConfusion h⟩
    · have hdf : DF b t := by
        by_cases h : DF b t; exact h; exact absurd ((ht rfl).df h).1 hok'
      obtain ⟨hbs, hlt⟩ := hdf
      simp only [BS] at hbs
      refine ⟨t / 3600, by simp only [if_true]; omega, ?_, fun _ => by omega⟩
      rw [dayNum_hz H]
      exact DFb.land0 H ⟨rfl, hlt⟩
  rw [hk1, dayInc_hz H]
  obtain ⟨hdf2, hlt12⟩ := dib_DF H hland
  generalize dib b k1 = k2 at hdf2 hlt12
  have e2 : 3600 * k2 / 3600 = k2 := by omega
  have hD2 : dayNum z (3600 * k2) = dayNum z t + 1 := by rw [dayNum_hz H (3600 * k2), e2]; exact hdf2.1
  have hlt : t < 3600 * k2 := by
    by_cases h : t < 3600 * k2; exact h
    have := dayNum_mono H (u := 3600 * k2) (v := t) (by omega); omega
  have hprev : lam b (k2 - 1) / 24 = dayNum z t := by
    have h1 := hdf2.2
    have h2 := lam_mono H (j := t / 3600) (k := k2 - 1) (by omega)
    rw [dayNum_hz H]; rw [dayNum_hz H] at h1; omega
  have hs2 : second z (3600 * k2) = 0 := by rw [second_hz H]; omega
  have hbs2 : BS (3600 * k2) := by simp only [BS]; omega
  have hDF2 : DF b (3600 * k2) := by
    refine ⟨hbs2, ?_⟩
    rw [e2]; have := hdf2.1; have := hdf2.2; omega
  have hnm2 : NoMatchB s z t0 (3600 * k2) := by
    refine hnm.step ?_
    intro u hu hmatch
    have hu' : t ≤ u ∧ u < 3600 * k2 := by simp only [Between] at hu; omega
    have h1 := dayNum_mono H hu'.1
    have h2 := lam_mono H (j := u / 3600) (k := k2 - 1) (by omega)
    have : dayNum z u = dayNum z t := by
      have h3 := dayNum_hz H u
      omega
    exact hok' ((dayRule_congr this).1 hmatch.2.2.2.2)
  obtain ⟨hpr, hq⟩ := hprog.adv (t' := 3600 * k2) (by omega) (fun _ => hlt)
  have hal : AlD s z b (3600 * k2) := by
    refine ⟨hs2, fun h => absurd hbs2 h, fun h => absurd hDF2 h, fun hn => ?_⟩
    have hnlt : ¬ monthIndex (lam b (k2 - 1) / 24) < monthIndex (lam b k2 / 24) := by
      intro h; apply hn; refine ⟨hDF2, ?_⟩; rw [e2]; exact h
    have hle : monthIndex (lam b (k2 - 1) / 24) ≤ monthIndex (lam b k2 / 24) :=
      monthIndex_mono (by have := hdf2.1; omega)
    have : mIdx z (3600 * k2) = mIdx z t := by
      simp only [mIdx]
      rw [dayNum_hz H (3600 * k2), e2, ← hprev]; omega
    rw [month_of_mIdx this]; exact hmon
  have hinv : InvD s z b t0 (3600 * k2) true := ⟨hnm2, by simp, fun _ => hal⟩
  refine ⟨fun _ => ⟨hq, hinv⟩, fun hw => ?_⟩
  have hw' : day z (3600 * k2) ≠ 1 := by simpa using hw
  have hm := mIdx_next_day hD2 hw'
  refine ⟨⟨hpr, hinv, by rw [month_of_mIdx hm]; exact hmon⟩, ?_, ?_⟩
  · have := day_range z (3600 * k2); omega
  · have := day_next hD2 hm; omega

/-! ### month loop -/

omit H in
theorem monthIndex_lt_monthStart {d M : Int} (h : d < monthStart M) : monthIndex d < M := by
  by_cases hc : monthIndex d < M
  · exact hc
  · exfalso
    have lo := monthStart_le d
    by_cases he : monthIndex d = M
    · rw [he] at lo; omega
    · have := monthStart_strictMono (M := M) (M' := monthIndex d) (by omega); omega

omit H in
theorem eq_monthStart_of_boundary {D : Int} (h : monthIndex (D - 1) < monthIndex D) :
    D = monthStart (monthIndex D) := by
  have lo := monthStart_le D
  by_cases he : D = monthStart (monthIndex D)
  · exact he
  · exfalso
    have hi := lt_monthStart_succ D
    have := monthIndex_unique (n := D - 1) (M := monthIndex D) (by omega) (by omega)
    omega

def PinMD (s : Sched) (z : Zone) (b : Int → Int) (t0 tin : Int) (ain : Bool) (t : Int) (a : Bool) :
    Prop :=
  Prog tin ain t a ∧ InvD s z b t0 t a

theorem month_ruleD (t0 tin : Int) (ain : Bool) (t : Int) (a : Bool)
    (hp : PinMD s z b t0 tin ain t a) :
    match monthLoop s z innerFuel t a with
    | .next t' a' => PinMD s z b t0 tin ain t' a' ∧ has s.month (month z t') = true
    | .wrap t' a' => a' = true ∧ QWD s z b t0 tin ain t'
    | .fuel => False := by
  have hmr := month_range z t
  refine loop_rule2 (PinMD s z b t0 tin ain)
    (fun t' a' => PinMD s z b t0 tin ain t' a' ∧ has s.month (month z t') = true)
    (QWD s z b t0 tin ain) (fun t _ => 13 - month z t)
    (fun t a hp hok => ⟨hp, hok⟩) ?_
    innerFuel t a hp (by omega) (by simp only [innerFuel]; omega)
  clear hmr hp t a
  intro t a ⟨hprog, ⟨hnm, hf, ht⟩⟩ hok
  have hok' : ¬ has s.month (month z t) = true := by simpa using hok
  obtain ⟨k1, hk1, hdf, hat⟩ : ∃ k1,
      (if a then t else dayStart z (goDate z (year z t) (month z t) 1 0 0 0)) = 3600 * k1 ∧
      DFb b k1 (monthStart (mIdx z t)) ∧ (a = true → t = 3600 * k1) := by
    cases a
    · exact ⟨_, by simpa using month_reset_hz H t, month_reset_DF H _, fun h => Bool.noConfusion h⟩
    · have hmf : MF b t := by
        by_cases h : MF b t; exact h; exact absurd ((ht rfl).mf h) hok'
      obtain ⟨⟨hbs, hlt⟩, hmlt⟩ := hmf
      simp only [BS] at hbs
      refine ⟨t / 3600, by simp only [if_true]; omega, ?_, fun _ => by omega⟩
      have st := lam_step H (t / 3600 - 1)
      have e : t / 3600 - 1 + 1 = t / 3600 := by omega
      rw [e] at st
      have hprev : lam b (t / 3600 - 1) / 24 = lam b (t / 3600) / 24 - 1 := by omega
      rw [hprev] at hmlt
      have hD := eq_monthStart_of_boundary hmlt
      have hM : mIdx z t = monthIndex (lam b (t / 3600) / 24) := by
        simp only [mIdx]; rw [dayNum_hz H]
      rw [hM]
      exact ⟨hD, by omega⟩
  rw [hk1, month_inc_hz H hdf]
  obtain ⟨hdf2, hlt12⟩ := mib_DF H hdf
  generalize mib b k1 (mIdx z t) = k2 at hdf2 hlt12
  have e2 : 3600 * k2 / 3600 = k2 := by omega
  have hD2 : dayNum z (3600 * k2) = monthStart (mIdx z t + 1) := by
    rw [dayNum_hz H (3600 * k2), e2]; exact hdf2.1
  have hM2 : mIdx z (3600 * k2) = mIdx z t + 1 := by
    simp only [mIdx]; rw [hD2]; exact monthIndex_monthStart _
  have lo := mIdx_lo z t
  have hi := mIdx_hi z t
  have hlt : t < 3600 * k2 := by
    by_cases h : t < 3600 * k2; exact h
    have := dayNum_mono H (u := 3600 * k2) (v := t) (by omega); omega
  have hs2 : second z (3600 * k2) = 0 := by rw [second_hz H]; omega
  have hbs2 : BS (3600 * k2) := by simp only [BS]; omega
  have hDF2 : DF b (3600 * k2) := by
    refine ⟨hbs2, ?_⟩
    rw [e2]; have := hdf2.1; have := hdf2.2; omega
  have hMF2 : MF b (3600 * k2) := by
    refine ⟨hDF2, ?_⟩
    rw [e2, hdf2.1, monthIndex_monthStart]
    exact monthIndex_lt_monthStart hdf2.2
  have hnm2 : NoMatchB s z t0 (3600 * k2) := by
    refine hnm.step ?_
    intro u hu hmatch
    have hu' : t ≤ u ∧ u < 3600 * k2 := by simp only [Between] at hu; omega
    have h1 := dayNum_mono H hu'.1
    have h2 := lam_mono H (j := u / 3600) (k := k2 - 1) (by omega)
    have h3 := dayNum_hz H u
    have h4 := hdf2.2
    have : mIdx z u = mIdx z t := mIdx_between (by omega) (by omega)
    rw [Matches, month_of_mIdx this] at hmatch
    exact hok' hmatch.2.2.2.1
  obtain ⟨hpr, hq⟩ := hprog.adv (t' := 3600 * k2) (by omega) (fun _ => hlt)
  have hal : AlD s z b (3600 * k2) :=
    ⟨hs2, fun h => absurd hbs2 h, fun h => absurd hDF2 h, fun h => absurd hMF2 h⟩
  have hinv : InvD s z b t0 (3600 * k2) true := ⟨hnm2, by simp, fun _ => hal⟩
  refine ⟨fun _ => ⟨hq, hinv⟩, fun hw => ⟨⟨hpr, hinv⟩, ?_, ?_⟩⟩
  · have := month_range z (3600 * k2); omega
  · have hw' : month z (3600 * k2) ≠ 1 := by simpa using hw
    rw [month_eq, hM2] at hw' ⊢
    rw [month_eq]
    omega

end
end Kit.CronSpec
