import KitModel.RunnerSim
/-! C12: soundness of the state-set simulation of `KitModel/RunnerSim.lean`. -/
namespace Kit.Runner
namespace Sim
variable {σ α : Type} [BEq σ] [Hashable σ] [LawfulBEq σ]

/-- every member of the set satisfies `P` -/
def Good (P : σ → Prop) (h : Std.HashSet σ) : Prop := ∀ x, x ∈ h → P x

theorem good_insert {P : σ → Prop} {h : Std.HashSet σ} (hg : Good P h) {s : σ} (hs : P s) :
    Good P (h.insert s) := by
  intro x hx
  rcases Std.HashSet.mem_insert.mp hx with he | hm
  · have : s = x := by simpa using he
    exact this ▸ hs
  · exact hg x hm

theorem expand_list_good (M : Sim σ α) (P : σ → Prop) (s : σ) (l : List α)
    (hstep : ∀ a s', a ∈ l → M.step s a = some s' → P s')
    (acc : Std.HashSet σ × List σ) (h1 : Good P acc.1) (h2 : ∀ x ∈ acc.2, P x) :
    Good P (l.foldl (fun acc a =>
      match M.step s a with
      | some s' => if acc.1.contains s' then acc else (acc.1.insert s', s' :: acc.2)
      | none => acc) acc).1 ∧
    ∀ x ∈ (l.foldl (fun acc a =>
      match M.step s a with
      | some s' => if acc.1.contains s' then acc else (acc.1.insert s', s' :: acc.2)
      | none => acc) acc).2, P x := by
  induction l generalizing acc with
  | nil => exact ⟨h1, h2⟩
  | cons a as ih =>
    simp only [List.foldl_cons]
    apply ih (fun b s' hb => hstep b s' (List.mem_cons_of_mem _ hb))
    · cases hsa : M.step s a with
      | none => simpa using h1
      | some s' =>
        have hp : P s' := hstep a s' (List.mem_cons_self) hsa
        by_cases hc : acc.1.contains s' = true
        · simpa [hc] using h1
        · simpa [hc] using good_insert h1 hp
    · cases hsa : M.step s a with
      | none => simpa using h2
      | some s' =>
        have hp : P s' := hstep a s' (List.mem_cons_self) hsa
        by_cases hc : acc.1.contains s' = true
        · simpa [hc] using h2
        · simp only [hc]
          intro x hx
          simp at hx
          rcases hx with rfl | hx
          · exact hp
          · exact h2 x hx

theorem closeUnder_good (M : Sim σ α) (P : σ → Prop)
    (hτ : ∀ s a s', P s → a ∈ M.taus s → M.step s a = some s' → P s')
    (fuel : Nat) (seen : Std.HashSet σ) (work : List σ)
    (h1 : Good P seen) (h2 : ∀ x ∈ work, P x) : Good P (M.closeUnder fuel seen work) := by
  induction fuel generalizing seen work with
  | zero => simpa [closeUnder] using h1
  | succ n ih =>
    cases work with
    | nil => simpa [closeUnder] using h1
    | cons s rest =>
      simp only [closeUnder]
      have hs : P s := h2 s (List.mem_cons_self)
      have := expand_list_good M P s (M.taus s) (fun a s' ha hst => hτ s a s' hs ha hst) (seen, [])
        h1 (by simp)
      apply ih
      · exact this.1
      · intro x hx
        rcases List.mem_append.mp hx with hx | hx
        · exact this.2 x hx
        · exact h2 x (List.mem_cons_of_mem _ hx)

theorem closure_good (M : Sim σ α) (P : σ → Prop)
    (hτ : ∀ s a s', P s → a ∈ M.taus s → M.step s a = some s' → P s')
    (ss : List σ) (h : ∀ x ∈ ss, P x) : ∀ x ∈ M.closure ss, P x := by
  have hseen : ∀ (l : List σ) (acc : Std.HashSet σ), Good P acc → (∀ x ∈ l, P x) →
      Good P (l.foldl (fun acc s => acc.insert s) acc) := by
    intro l
    induction l with
    | nil => intro acc ha _; exact ha
    | cons y ys ih =>
      intro acc ha hl
      simp only [List.foldl_cons]
      exact ih _ (good_insert ha (hl y (List.mem_cons_self))) (fun x hx => hl x (List.mem_cons_of_mem _ hx))
  have h0 : Good P (ss.foldl (fun acc s => acc.insert s) (Std.HashSet.emptyWithCapacity 64)) :=
    hseen ss _ (by intro x hx; simp at hx) h
  intro x hx
  simp only [closure] at hx
  have hg := closeUnder_good M P hτ fuel _ _ h0 (by
    intro y hy
    exact h0 y (Std.HashSet.mem_toList.mp hy))
  exact hg x (Std.HashSet.mem_toList.mp hx)

omit [BEq σ] [Hashable σ] [LawfulBEq σ] in
theorem nexts_good (M : Sim σ α) (P Q : σ → Prop) (e : Ev σ α)
    (hobs : ∀ s a s', P s → e.1 s = true → a ∈ e.2 → M.step s a = some s' → Q s')
    (ss : List σ) (h : ∀ x ∈ ss, P x) : ∀ x ∈ M.nexts ss e, Q x := by
  have inner : ∀ (s : σ) (l : List α) (acc : List σ), P s → e.1 s = true → (∀ a ∈ l, a ∈ e.2) →
      (∀ x ∈ acc, Q x) →
      ∀ x ∈ l.foldl (fun acc a => match M.step s a with
        | some s' => s' :: acc
        | none => acc) acc, Q x := by
    intro s l
    induction l with
    | nil => intro acc _ _ _ ha; simpa using ha
    | cons a as ih =>
      intro acc hp he hl ha
      simp only [List.foldl_cons]
      apply ih _ hp he (fun b hb => hl b (List.mem_cons_of_mem _ hb))
      cases hsa : M.step s a with
      | none => simpa using ha
      | some s' =>
        intro x hx
        simp at hx
        rcases hx with rfl | hx
        · exact hobs s a _ hp he (hl a (List.mem_cons_self)) hsa
        · exact ha x hx
  have outer : ∀ (l : List σ) (acc : List σ), (∀ x ∈ l, P x) → (∀ x ∈ acc, Q x) →
      ∀ x ∈ l.foldl (fun acc s =>
        if e.1 s then e.2.foldl (fun acc a => match M.step s a with
          | some s' => s' :: acc
          | none => acc) acc else acc) acc, Q x := by
    intro l
    induction l with
    | nil => intro acc _ ha; simpa using ha
    | cons s rest ih =>
      intro acc hl ha
      simp only [List.foldl_cons]
      apply ih _ (fun x hx => hl x (List.mem_cons_of_mem _ hx))
      by_cases he : e.1 s = true
      · simp only [he, if_true]
        exact inner s e.2 acc (hl s (List.mem_cons_self)) he (fun a ha => ha) ha
      · simpa [he] using ha
  exact outer ss [] h (by simp)

theorem run_good (M : Sim σ α) (init : σ) (evs : List (Ev σ α)) :
    ∀ x ∈ M.run init evs, Sim.Reached M init evs x := by
  have hτ : ∀ (pre : List (Ev σ α)) s a s', Sim.Reached M init pre s → a ∈ M.taus s →
      M.step s a = some s' → Sim.Reached M init pre s' :=
    fun pre s a s' h ha hs => Sim.Reached.tau a h ha hs
  have gen : ∀ (evs pre : List (Ev σ α)) (ss : List σ), (∀ x ∈ ss, Sim.Reached M init pre x) →
      ∀ x ∈ evs.foldl M.advance ss, Sim.Reached M init (pre ++ evs) x := by
    intro evs
    induction evs with
    | nil => intro pre ss h; simpa using h
    | cons e es ih =>
      intro pre ss h
      simp only [List.foldl_cons]
      have hadv : ∀ x ∈ M.advance ss e, Sim.Reached M init (pre ++ [e]) x := by
        apply closure_good M _ (hτ (pre ++ [e]))
        exact nexts_good M _ _ e (fun s a s' hp he ha hs => Sim.Reached.obs e a hp he ha hs) ss h
      have := ih (pre ++ [e]) _ hadv
      simpa [List.append_assoc] using this
  have h0 : ∀ x ∈ M.closure [init], Sim.Reached M init [] x :=
    closure_good M _ (hτ []) [init] (by intro x hx; simp at hx; subst hx; exact Sim.Reached.init)
  simpa [run] using gen evs [] _ h0

end Sim
end Kit.Runner
