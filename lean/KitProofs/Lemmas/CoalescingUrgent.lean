import KitProofs.Lemmas.CoalescingProgress
/-!
Universal (∀-execution) timing statements for C09: what holds in EVERY execution in which the
limiter's own goroutines move before the clock advances further ("urgent" executions = the
harness's settle discipline), for any cap, any consumer speed, any number of `Add` callers.
-/
namespace Kit.Coalescing

/-- No goroutine of the limiter can move. -/
def Quiescent (cfg : Config) (s : State) : Prop :=
  ∀ l, l.internal = true → step cfg s l = none

/-- An execution in which the clock advances only from quiescent states. -/
inductive UrgentExec (cfg : Config) : State → List Label → State → Prop where
  | nil (s : State) : UrgentExec cfg s [] s
  | cons {s s1 s' : State} {l : Label} {ls : List Label} :
      step cfg s l = some s1 → (∀ t, l = .advance t → Quiescent cfg s) →
      UrgentExec cfg s1 ls s' → UrgentExec cfg s (l :: ls) s'

theorem UrgentExec.exec {cfg : Config} {s s' : State} {ls : List Label}
    (h : UrgentExec cfg s ls s') : Kit.Coalescing.exec cfg s ls = some s' := by
  induction h with
  | nil s => rfl
  | cons hst _ _ ih => simp [Kit.Coalescing.exec, hst, ih]

/-- Every clock advance of an urgent execution starts in a quiescent state, and the part of the
execution before it is an execution. -/
theorem UrgentExec.advance_from_quiescent {cfg : Config} {s s' : State} {ls1 ls2 : List Label} {t : Nat}
    (h : UrgentExec cfg s (ls1 ++ .advance t :: ls2) s') :
    ∃ q, Kit.Coalescing.exec cfg s ls1 = some q ∧ Quiescent cfg q ∧ (step cfg q (.advance t)).isSome = true := by
  induction ls1 generalizing s with
  | nil =>
    cases h with
    | cons hst hq _ => exact ⟨s, rfl, hq t rfl, by simp [hst]⟩
  | cons l ls1 ih =>
    cases h with
    | cons hst _ hr =>
      obtain ⟨q, e, hq, ha⟩ := ih hr
      exact ⟨q, by simp [Kit.Coalescing.exec, hst, e], hq, ha⟩

/-! ### signals are never taken back; pending only drops through a signal -/

theorem fires_pending_step {cfg : Config} {s s' : State} {l : Label} (hst : step cfg s l = some s') :
    s.fires ≤ s'.fires ∧ (s'.fires = s.fires → s.pending ≤ s'.pending) := by
  cases l with
  | add => rw [step_add_def] at hst; split at hst <;> cases hst <;> simp
  | deliver =>
    simp only [step] at hst
    split at hst
    · cases hst
      cases htm : s.timer with
      | none =>
        rw [handleInput_none htm, fire_def]
        by_cases hp : 0 < s.pending <;> simp [hp]
      | some d0 =>
        cases hcap : capReached cfg s with
        | true =>
          rw [handleInput_cap htm hcap, fire_def]
          by_cases hp : 0 < s.pending <;> simp [hp]
        | false => rw [handleInput_ext htm hcap]; simp
    · cases hst
  | expire =>
    simp only [step] at hst
    split at hst
    · split at hst
      · cases hst
        rw [handleTimer_def, fire_def]
        by_cases hp : 0 < s.pending <;> simp [hp]
        omega
      · cases hst
    · cases hst
  | close => simp only [step] at hst; cases hst; simp
  | cancel => simp only [step] at hst; cases hst; simp
  | runCall => simp only [step] at hst; cases hst; simp
  | run | runErrRet | top | tokenGiveUp | exitLoop | advance _ | closeRet | consume | senderGiveUp | runRet =>
    simp only [step] at hst
    split at hst <;> cases hst <;> simp

theorem fires_pending_exec {cfg : Config} (ls : List Label) {s s' : State}
    (h : exec cfg s ls = some s') :
    s.fires ≤ s'.fires ∧ (s'.fires = s.fires → s.pending ≤ s'.pending) := by
  induction ls generalizing s with
  | nil => simp [exec] at h; subst h; simp
  | cons l ls ih =>
    simp only [exec] at h
    cases hst : step cfg s l with
    | none => simp [hst] at h
    | some s1 =>
      simp [hst] at h
      obtain ⟨a1, a2⟩ := fires_pending_step hst
      obtain ⟨b1, b2⟩ := ih h
      exact ⟨by omega, fun he => by
        have e1 : s1.fires = s.fires := by omega
        have e2 : s'.fires = s1.fires := by omega
        have := a2 e1; have := b2 e2; omega⟩

/-! ### never quiescent with an overdue pending Add -/

/-- Running, not closed, an `Add` pending, and no window end in the future: some goroutine of the
limiter can move (loop head, token delivery or the expiry). Any cap, any consumer. -/
theorem not_quiescent_overdue {cfg : Config} {s : State} (hi : Inv cfg s)
    (hrun : s.running = true) (hcl : s.closed = false) (hp : 0 < s.pending)
    (hdue : ∀ d, s.timer = some d → d ≤ s.now) :
    (s.loop = .top ∧ (step cfg s .top).isSome = true) ∨
    (s.loop = .sel ∧ 0 < s.tokens ∧ (step cfg s .deliver).isSome = true) ∨
    (s.loop = .sel ∧ (step cfg s .expire).isSome = true) := by
  rcases running_cases hrun with hl | hl
  · exact Or.inl ⟨hl, by simp [step, hl]⟩
  · by_cases ht : 0 < s.tokens
    · exact Or.inr (Or.inl ⟨hl, ht, by simp [step, hl, ht]⟩)
    · cases htm : s.timer with
      | none =>
        rcases hi.lost with h | h
        · simp [hcl] at h
        · have := h htm; omega
      | some d => exact Or.inr (Or.inr ⟨hl, by simp [step, htm, hl, hdue d htm]⟩)

/-- Hence in a quiescent state of a running, not closed limiter every pending `Add` has an armed
window whose end lies strictly in the future. -/
theorem quiescent_pending_has_future_deadline {cfg : Config} {s : State} (hi : Inv cfg s)
    (hq : Quiescent cfg s) (hrun : s.running = true) (hcl : s.closed = false) (hp : 0 < s.pending) :
    ∃ d, s.timer = some d ∧ s.now < d := by
  cases htm : s.timer with
  | none =>
    have := not_quiescent_overdue hi hrun hcl hp (by intro d hd; simp [htm] at hd)
    rcases this with ⟨_, h⟩ | ⟨_, _, h⟩ | ⟨_, h⟩
    · simp [hq .top rfl] at h
    · simp [hq .deliver rfl] at h
    · simp [hq .expire rfl] at h
  | some d =>
    refine ⟨d, rfl, ?_⟩
    rcases Nat.lt_or_ge s.now d with h | h
    · exact h
    · have := not_quiescent_overdue hi hrun hcl hp (by intro d' hd'; simp [htm] at hd'; omega)
      rcases this with ⟨_, h⟩ | ⟨_, _, h⟩ | ⟨_, h⟩
      · simp [hq .top rfl] at h
      · simp [hq .deliver rfl] at h
      · simp [hq .expire rfl] at h

/-- The cap: with `m ≤ pending` the limiter is not quiescent either (a token is in flight and the
loop can take it — which fires). -/
theorem not_quiescent_at_cap {cfg : Config} (hv : cfg.valid) {s : State} (hi : Inv cfg s) {m : Nat}
    (hcap : cfg.cap = some m) (hrun : s.running = true) (hcl : s.closed = false) (hm : m ≤ s.pending) :
    0 < s.tokens ∧
    ((s.loop = .top ∧ (step cfg s .top).isSome = true) ∨
     (s.loop = .sel ∧ ∃ s', step cfg s .deliver = some s' ∧ s'.fires = s.fires + 1 ∧ s'.pending = 0 ∧
        s'.now = s.now)) := by
  have hm0 := hv.2.2 m hcap
  have htok : 0 < s.tokens := by
    rcases hi.capi m hcap with h | h
    · simp [hcl] at h
    · omega
  refine ⟨htok, ?_⟩
  rcases running_cases hrun with hl | hl
  · exact Or.inl ⟨hl, by simp [step, hl]⟩
  · refine Or.inr ⟨hl, handleInput cfg s, by simp [step, hl, htok], ?_⟩
    have hp : 0 < s.pending := by omega
    cases htm : s.timer with
    | none => rw [handleInput_none htm]; simp [fire_def, hp]
    | some d0 =>
      have hc : capReached cfg s = true := (capReached_iff cfg s).2 ⟨m, hcap, hm⟩
      rw [handleInput_cap htm hc]; simp [fire_def, hp]

theorem quiescent_below_cap {cfg : Config} (hv : cfg.valid) {s : State} (hi : Inv cfg s) {m : Nat}
    (hcap : cfg.cap = some m) (hq : Quiescent cfg s) (hrun : s.running = true) (hcl : s.closed = false) :
    s.pending < m := by
  rcases Nat.lt_or_ge s.pending m with h | h
  · exact h
  · obtain ⟨_, h1 | ⟨_, s', h2, _⟩⟩ := not_quiescent_at_cap hv hi hcap hrun hcl h
    · simp [hq .top rfl] at h1
    · simp [hq .deliver rfl] at h2

/-! ### inside an open window with a cap -/

/-- Inside an open window (no expiry handled) a signal can only be a cap signal: it is started by
the delivery of a token that finds `pending ≥ cap`, at that clock value, and covers everything. -/
theorem capped_window_step {cfg : Config} {s s' : State} {l : Label}
    (hopen : s.timer.isSome = true) (hne : l ≠ .expire) (hst : step cfg s l = some s') :
    s'.timer.isSome = true ∧
    ((s'.fires = s.fires ∧ s.pending ≤ s'.pending) ∨
     (l = .deliver ∧ capReached cfg s = true ∧ s'.fires = s.fires + 1 ∧ s'.pending = 0 ∧ s'.now = s.now)) := by
  cases l with
  | expire => exact absurd rfl hne
  | deliver =>
    simp only [step] at hst
    split at hst
    · cases hst
      obtain ⟨d0, hd0⟩ := Option.isSome_iff_exists.1 hopen
      cases hc : capReached cfg s with
      | false => rw [handleInput_ext hd0 hc]; simp
      | true =>
        obtain ⟨m, hm, hmp⟩ := (capReached_iff cfg s).1 hc
        rw [handleInput_cap hd0 hc]
        by_cases hp : 0 < s.pending
        · refine ⟨by simpa using hopen, Or.inr ⟨rfl, rfl, ?_, ?_, ?_⟩⟩ <;> simp [fire_def, hp]
        · refine ⟨by simpa using hopen, Or.inl ?_⟩; simp [fire_def, hp]
    · cases hst
  | add =>
    rw [step_add_def] at hst
    split at hst <;> cases hst
    · exact ⟨hopen, Or.inl ⟨rfl, Nat.le_refl _⟩⟩
    · exact ⟨hopen, Or.inl ⟨rfl, by simp⟩⟩
  | close => simp only [step] at hst; cases hst; exact ⟨hopen, Or.inl ⟨rfl, Nat.le_refl _⟩⟩
  | cancel => simp only [step] at hst; cases hst; exact ⟨hopen, Or.inl ⟨rfl, Nat.le_refl _⟩⟩
  | runCall => simp only [step] at hst; cases hst; exact ⟨hopen, Or.inl ⟨rfl, Nat.le_refl _⟩⟩
  | run | runErrRet | top | tokenGiveUp | exitLoop | advance _ | closeRet | consume | senderGiveUp | runRet =>
    simp only [step] at hst
    split at hst <;> cases hst <;> exact ⟨hopen, Or.inl ⟨rfl, Nat.le_refl _⟩⟩

/-- Number of cap signals along a label list: deliveries that find `pending ≥ cap` (and > 0). -/
def capFires (cfg : Config) : State → List Label → Nat
  | _, [] => 0
  | s, l :: ls =>
    match step cfg s l with
    | none => 0
    | some s' =>
      (if l = .deliver ∧ capReached cfg s = true ∧ 0 < s.pending then 1 else 0) + capFires cfg s' ls

theorem capped_window_exec {cfg : Config} (ls : List Label) {s s' : State}
    (hopen : s.timer.isSome = true) (hrun : exec cfg s ls = some s') (hne : ∀ l ∈ ls, l ≠ .expire) :
    s'.timer.isSome = true ∧ s'.fires = s.fires + capFires cfg s ls := by
  induction ls generalizing s with
  | nil => simp [exec] at hrun; subst hrun; exact ⟨hopen, rfl⟩
  | cons l ls ih =>
    simp only [exec] at hrun
    cases hst : step cfg s l with
    | none => simp [hst] at hrun
    | some s1 =>
      simp [hst] at hrun
      obtain ⟨a1, a2⟩ := capped_window_step hopen (hne l (by simp)) hst
      obtain ⟨b1, b2⟩ := ih a1 hrun (fun l' hl' => hne l' (by simp [hl']))
      refine ⟨b1, ?_⟩
      simp only [capFires, hst]
      rcases a2 with ⟨e, _⟩ | ⟨rfl, hc, e, _, _⟩
      · have : ¬ (l = .deliver ∧ capReached cfg s = true ∧ 0 < s.pending) := by
          rintro ⟨rfl, hc, hp⟩
          -- a delivery with the cap reached and something pending does fire
          simp only [step] at hst
          split at hst
          · cases hst
            obtain ⟨d0, hd0⟩ := Option.isSome_iff_exists.1 hopen
            rw [handleInput_cap hd0 hc] at e
            simp [fire_def, hp] at e
          · cases hst
        simp [this]; omega
      · have hp : 0 < s.pending := by
          obtain ⟨m, hm, hmp⟩ := (capReached_iff cfg s).1 hc
          rcases Nat.eq_zero_or_pos s.pending with h0 | h0
          · exfalso
            simp only [step] at hst
            split at hst
            · cases hst
              obtain ⟨d0, hd0⟩ := Option.isSome_iff_exists.1 hopen
              rw [handleInput_cap hd0 hc] at e
              simp [fire_def, h0] at e
            · cases hst
          · exact h0
        simp [hc, hp]; omega


theorem now_step {cfg : Config} {s s' : State} {l : Label} (hst : step cfg s l = some s')
    (hna : ∀ t, l ≠ .advance t) : s'.now = s.now := by
  cases l with
  | advance t => exact absurd rfl (hna t)
  | add => rw [step_add_def] at hst; split at hst <;> cases hst <;> rfl
  | deliver =>
    simp only [step] at hst
    split at hst
    · cases hst
      cases htm : s.timer with
      | none => rw [handleInput_none htm]; simp
      | some d0 =>
        cases hcap : capReached cfg s with
        | true => rw [handleInput_cap htm hcap]; simp
        | false => rw [handleInput_ext htm hcap]
    · cases hst
  | expire =>
    simp only [step] at hst
    split at hst
    · split at hst
      · cases hst; rw [handleTimer_def]; simp
      · cases hst
    · cases hst
  | close => simp only [step] at hst; cases hst; rfl
  | cancel => simp only [step] at hst; cases hst; rfl
  | runCall => simp only [step] at hst; cases hst; rfl
  | run | runErrRet | top | tokenGiveUp | exitLoop | closeRet | consume | senderGiveUp | runRet =>
    simp only [step] at hst
    split at hst <;> cases hst <;> rfl

theorem now_exec {cfg : Config} (ls : List Label) {s s' : State} (h : exec cfg s ls = some s')
    (hna : ∀ l ∈ ls, ∀ t, l ≠ .advance t) : s'.now = s.now := by
  induction ls generalizing s with
  | nil => simp [exec] at h; subst h; rfl
  | cons l ls ih =>
    simp only [exec] at h
    cases hst : step cfg s l with
    | none => simp [hst] at h
    | some s1 =>
      simp [hst] at h
      rw [ih h (fun l' hl' => hna l' (by simp [hl'])), now_step hst (hna l (by simp))]


/-! ### an executable check that a label list is an urgent execution (for examples) -/

def quiescentB (cfg : Config) (s : State) : Bool :=
  [Label.run, .top, .deliver, .tokenGiveUp, .expire, .exitLoop, .senderGiveUp].all
    fun l => (step cfg s l).isNone

theorem quiescentB_sound {cfg : Config} {s : State} (h : quiescentB cfg s = true) : Quiescent cfg s := by
  simp only [quiescentB, List.all_cons, List.all_nil, Bool.and_true, Bool.and_eq_true,
    Option.isNone_iff_eq_none] at h
  obtain ⟨h1, h2, h3, h4, h5, h6, h7⟩ := h
  intro l hl
  cases l <;> simp [Label.internal] at hl <;> assumption

def urgentOk (cfg : Config) : State → List Label → Bool
  | _, [] => true
  | s, l :: ls =>
    match step cfg s l with
    | none => false
    | some s1 =>
      (match l with
       | .advance _ => quiescentB cfg s
       | _ => true) && urgentOk cfg s1 ls

theorem urgentOk_sound {cfg : Config} (ls : List Label) {s : State} (h : urgentOk cfg s ls = true) :
    ∃ s', UrgentExec cfg s ls s' := by
  induction ls generalizing s with
  | nil => exact ⟨s, .nil s⟩
  | cons l ls ih =>
    simp only [urgentOk] at h
    cases hst : step cfg s l with
    | none => simp [hst] at h
    | some s1 =>
      simp only [hst, Bool.and_eq_true] at h
      obtain ⟨s', hr⟩ := ih h.2
      refine ⟨s', .cons hst (fun t ht => ?_) hr⟩
      subst ht
      exact quiescentB_sound (by simpa using h.1)

end Kit.Coalescing
