import KitProofs.Lemmas.CoalescingBridge
/-! Helper lemmas for property C09 (coalescing rate limiter). -/
namespace Kit.Coalescing

/-! ### unfolding helpers -/

theorem fire_pending (cfg : Config) (s : State) : (fire cfg s).pending = 0 := by
  rw [fire_def]; split <;> simp_all <;> omega

theorem fire_fires (cfg : Config) (s : State) : (fire cfg s).fires = s.fires + (if 0 < s.pending then 1 else 0) := by
  rw [fire_def]; split <;> simp_all

theorem fire_senders (cfg : Config) (s : State) : (fire cfg s).senders = s.senders + (if 0 < s.pending then 1 else 0) := by
  rw [fire_def]; split <;> simp_all

/-- Everything `fire` does not touch. -/
theorem fire_frame (cfg : Config) (s : State) :
    (fire cfg s).tokens = s.tokens ∧ (fire cfg s).timer = s.timer ∧ (fire cfg s).cur = s.cur ∧
    (fire cfg s).factor = s.factor ∧ (fire cfg s).ovf = s.ovf ∧ (fire cfg s).consumed = s.consumed ∧
    (fire cfg s).dropped = s.dropped ∧ (fire cfg s).adds = s.adds ∧ (fire cfg s).now = s.now ∧
    (fire cfg s).closed = s.closed ∧ (fire cfg s).cancelled = s.cancelled ∧ (fire cfg s).runCalls = s.runCalls ∧
    (fire cfg s).loop = s.loop ∧ (fire cfg s).closeWaiting = s.closeWaiting ∧
    (fire cfg s).closeReturned = s.closeReturned ∧ (fire cfg s).runReturned = s.runReturned ∧
    (fire cfg s).wk = s.wk ∧ (fire cfg s).armedAt = s.armedAt := by
  rw [fire_def]; split <;> simp

@[simp] theorem fire_tokens (cfg : Config) (s : State) : (fire cfg s).tokens = s.tokens := (fire_frame cfg s).1
@[simp] theorem fire_timer (cfg : Config) (s : State) : (fire cfg s).timer = s.timer := (fire_frame cfg s).2.1
@[simp] theorem fire_cur (cfg : Config) (s : State) : (fire cfg s).cur = s.cur := (fire_frame cfg s).2.2.1
@[simp] theorem fire_factor (cfg : Config) (s : State) : (fire cfg s).factor = s.factor := (fire_frame cfg s).2.2.2.1
@[simp] theorem fire_ovf (cfg : Config) (s : State) : (fire cfg s).ovf = s.ovf := (fire_frame cfg s).2.2.2.2.1
@[simp] theorem fire_adds (cfg : Config) (s : State) : (fire cfg s).adds = s.adds := (fire_frame cfg s).2.2.2.2.2.2.2.1
@[simp] theorem fire_now (cfg : Config) (s : State) : (fire cfg s).now = s.now := (fire_frame cfg s).2.2.2.2.2.2.2.2.1
@[simp] theorem fire_closed (cfg : Config) (s : State) : (fire cfg s).closed = s.closed := (fire_frame cfg s).2.2.2.2.2.2.2.2.2.1
@[simp] theorem fire_loop (cfg : Config) (s : State) : (fire cfg s).loop = s.loop := (fire_frame cfg s).2.2.2.2.2.2.2.2.2.2.2.2.1
@[simp] theorem fire_wk (cfg : Config) (s : State) : (fire cfg s).wk = s.wk := (fire_frame cfg s).2.2.2.2.2.2.2.2.2.2.2.2.2.2.2.2.1
@[simp] theorem fire_armedAt (cfg : Config) (s : State) : (fire cfg s).armedAt = s.armedAt := (fire_frame cfg s).2.2.2.2.2.2.2.2.2.2.2.2.2.2.2.2.2

theorem handleInput_none {cfg : Config} {s : State} (htm : s.timer = none) :
    handleInput cfg s =
      fire cfg { s with tokens := s.tokens - 1, loop := Loop.top, timer := some (s.now + cfg.initial), armedAt := s.now, wk := 0 } := by
  simp [handleInput, htm, newTimerArg_def]

theorem handleInput_cap {cfg : Config} {s : State} {d0 : Nat} (htm : s.timer = some d0)
    (hcap : capReached cfg s = true) :
    handleInput cfg s = fire cfg { s with tokens := s.tokens - 1, loop := Loop.top } := by
  simp [handleInput, htm, hcap, resetTimerArg_def]

theorem handleInput_ext {cfg : Config} {s : State} {d0 : Nat} (htm : s.timer = some d0)
    (hcap : capReached cfg s = false) :
    handleInput cfg s =
      { s with tokens := s.tokens - 1, loop := Loop.top,
               cur := (backoffVals cfg s.cur s.factor).1,
               factor := (backoffVals cfg s.cur s.factor).2.1,
               ovf := s.ovf || (backoffVals cfg s.cur s.factor).2.2,
               timer := some (s.now + (backoffVals cfg s.cur s.factor).1),
               armedAt := s.now, wk := s.wk + 1 } := by
  simp [handleInput, htm, hcap, resetTimerArg_def]

end Kit.Coalescing

namespace Kit.Coalescing

/-- The safety invariant of the limiter (any interleaving, any number of callers). -/
structure Inv (cfg : Config) (s : State) : Prop where
  sig : s.fires + s.pending ≤ s.adds
  acct : s.consumed + s.senders + s.dropped = s.fires
  lost : s.closed = true ∨ (s.timer = none → s.pending ≤ s.tokens)
  idle : s.timer = none → s.cur = cfg.initial ∧ s.factor = 1 ∧ s.wk = 0
  armed : ∀ d, s.timer = some d → d = s.armedAt + s.cur ∧ s.armedAt ≤ s.now
  capi : ∀ m, cfg.cap = some m → s.closed = true ∨ s.pending < m + s.tokens
  cl : (0 < s.closeWaiting ∨ 0 < s.closeReturned) → s.closed = true
  clret : 0 < s.closeReturned → s.tokens = 0 ∧ s.senders = 0 ∧ s.running = false
  off : s.loop = .off → s.senders = 0
  cas : s.casDone = false → s.loop = .off

theorem inv_init (cfg : Config) (hv : cfg.valid) : Inv cfg (init cfg) := by
  constructor <;> simp [init_def]
  intro m hm
  exact hv.2.2 m hm

theorem capReached_iff (cfg : Config) (s : State) :
    capReached cfg s = true ↔ ∃ m, cfg.cap = some m ∧ m ≤ s.pending := by
  rw [capReached_def]
  cases cfg.cap <;> simp

theorem inv_handleInput {cfg : Config} (hv : cfg.valid) {s : State} (hi : Inv cfg s)
    (hsel : s.loop = .sel) (_htok : 0 < s.tokens) : Inv cfg (handleInput cfg s) := by
  obtain ⟨sig, acct, lost, idle, armed, capi, cl, clret, off, cas⟩ := hi
  have hrun : s.running = true := by simp [State.running, hsel]
  have hcr : s.closeReturned = 0 := by
    rcases Nat.eq_zero_or_pos s.closeReturned with h | h
    · exact h
    · have := (clret h).2.2; simp [hrun] at this
  cases htm : s.timer with
  | none =>
    have hid := idle htm
    rw [handleInput_none htm]
    by_cases hp : 0 < s.pending
    · simp only [fire_def, hp, if_true]
      constructor <;> simp_all [State.running]
      · omega
      · omega
      · intro m hm; have := hv.2.2 m hm; omega
    · simp only [fire_def, hp, if_false]
      constructor <;> simp_all [State.running]
      · intro m hm; have := hv.2.2 m hm; omega
  | some d0 =>
    have harm := armed d0 htm
    cases hcap : capReached cfg s with
    | true =>
      obtain ⟨m, hm, hmp⟩ := (capReached_iff cfg s).1 hcap
      have hm0 := hv.2.2 m hm
      have hp : 0 < s.pending := by omega
      rw [handleInput_cap htm hcap]
      simp only [fire_def, hp, if_true]
      constructor <;> simp_all [State.running]
      · omega
      · omega
      · right; omega
    | false =>
      rw [handleInput_ext htm hcap]
      constructor <;> simp_all [State.running]
      · intro m hm
        have hnc : ¬ m ≤ s.pending := by
          intro h; have := (capReached_iff cfg s).2 ⟨m, hm, h⟩; simp [hcap] at this
        right; omega

macro "cfin" : tactic =>
  `(tactic| (constructor <;> simp_all [State.running] <;> (try omega) <;> (try (intros; omega))))

theorem inv_handleTimer {cfg : Config} (hv : cfg.valid) {s : State} (hi : Inv cfg s)
    (hsel : s.loop = .sel) : Inv cfg (handleTimer cfg s) := by
  obtain ⟨sig, acct, lost, idle, armed, capi, cl, clret, off, cas⟩ := hi
  have hrun : s.running = true := by simp [State.running, hsel]
  have hcr : s.closeReturned = 0 := by
    rcases Nat.eq_zero_or_pos s.closeReturned with h | h
    · exact h
    · have := (clret h).2.2; simp [hrun] at this
  rw [handleTimer_def]
  by_cases hp : 0 < s.pending
  · simp only [fire_def, hp, if_true]
    cfin
    intro m hm; have := hv.2.2 m hm; right; omega
  · simp only [fire_def, hp, if_false]
    cfin
    try (intro m hm; have := hv.2.2 m hm; right; omega)

/-- The invariant is preserved by every transition. -/
theorem inv_step {cfg : Config} (hv : cfg.valid) {s s' : State} (l : Label)
    (hi : Inv cfg s) (hst : step cfg s l = some s') : Inv cfg s' := by
  cases l with
  | deliver =>
    simp only [step] at hst
    split at hst
    · next h => cases hst; exact inv_handleInput hv hi h.1 h.2
    · cases hst
  | expire =>
    simp only [step] at hst
    split at hst
    · split at hst
      · next h => cases hst; exact inv_handleTimer hv hi h.1
      · cases hst
    · cases hst
  | runCall =>
    obtain ⟨sig, acct, lost, idle, armed, capi, cl, clret, off, cas⟩ := hi
    simp only [step] at hst
    cases hst; cfin
  | run =>
    obtain ⟨sig, acct, lost, idle, armed, capi, cl, clret, off, cas⟩ := hi
    simp only [step] at hst
    split at hst
    · next h =>
      cases hst
      cfin
    · cases hst
  | add =>
    obtain ⟨sig, acct, lost, idle, armed, capi, cl, clret, off, cas⟩ := hi
    rw [step_add_def] at hst
    split at hst
    · cases hst; constructor <;> assumption
    · next hc =>
      cases hst
      cfin
      intro m hm; have := capi m hm; omega
  | top =>
    obtain ⟨sig, acct, lost, idle, armed, capi, cl, clret, off, cas⟩ := hi
    simp only [step] at hst
    split at hst
    · next h => cases hst; cfin
    · cases hst
  | tokenGiveUp =>
    obtain ⟨sig, acct, lost, idle, armed, capi, cl, clret, off, cas⟩ := hi
    simp only [step] at hst
    split at hst
    · next h => cases hst; cfin
    · cases hst
  | exitLoop =>
    obtain ⟨sig, acct, lost, idle, armed, capi, cl, clret, off, cas⟩ := hi
    simp only [step] at hst
    split at hst
    · next h => cases hst; cfin
    · cases hst
  | advance t =>
    obtain ⟨sig, acct, lost, idle, armed, capi, cl, clret, off, cas⟩ := hi
    simp only [step] at hst
    split at hst
    · next h =>
      cases hst; cfin
      intro d hd; have := armed d hd; omega
    · cases hst
  | close =>
    obtain ⟨sig, acct, lost, idle, armed, capi, cl, clret, off, cas⟩ := hi
    simp only [step] at hst
    cases hst; cfin
  | closeRet =>
    obtain ⟨sig, acct, lost, idle, armed, capi, cl, clret, off, cas⟩ := hi
    simp only [step] at hst
    split at hst
    · next h =>
      cases hst
      have hh := h.2
      simp only [State.helpers] at hh
      cfin
    · cases hst
  | cancel =>
    obtain ⟨sig, acct, lost, idle, armed, capi, cl, clret, off, cas⟩ := hi
    simp only [step] at hst
    cases hst; cfin
  | consume =>
    obtain ⟨sig, acct, lost, idle, armed, capi, cl, clret, off, cas⟩ := hi
    simp only [step] at hst
    split at hst
    · next h =>
      cases hst; cfin
    · cases hst
  | senderGiveUp =>
    obtain ⟨sig, acct, lost, idle, armed, capi, cl, clret, off, cas⟩ := hi
    simp only [step] at hst
    split at hst
    · next h =>
      cases hst; cfin
    · cases hst
  | runRet =>
    obtain ⟨sig, acct, lost, idle, armed, capi, cl, clret, off, cas⟩ := hi
    simp only [step] at hst
    split at hst
    · next h => cases hst; cfin
    · cases hst
  | runErrRet =>
    obtain ⟨sig, acct, lost, idle, armed, capi, cl, clret, off, cas⟩ := hi
    simp only [step] at hst
    split at hst
    · next h => cases hst; exact ⟨sig, acct, lost, idle, armed, capi, cl, clret, off, cas⟩
    · cases hst

theorem inv_reach {cfg : Config} (hv : cfg.valid) : ∀ s, Reach cfg s → Inv cfg s :=
  reach_inv (Inv cfg) (inv_init cfg hv) (fun _ l _ _ hi hst => inv_step hv l hi hst)

end Kit.Coalescing
