import KitModel.Spiffe
/-! Helper lemmas for property C19 (readiness LTS invariants, progress measure, renewal automaton). -/
namespace Kit.Spiffe

/-! ### sums over the consumer list -/

def sumBy (f : ConsPc → Nat) : List ConsPc → Nat
  | [] => 0
  | c :: cs => f c + sumBy f cs

theorem sumBy_append (f : ConsPc → Nat) (l₁ l₂ : List ConsPc) :
    sumBy f (l₁ ++ l₂) = sumBy f l₁ + sumBy f l₂ := by
  induction l₁ with
  | nil => simp [sumBy]
  | cons a l ih => simp [sumBy, ih]; omega

theorem sumBy_set (f : ConsPc → Nat) : ∀ (l : List ConsPc) (i : Nat) (a b : ConsPc),
    l[i]? = some a → sumBy f (l.set i b) + f a = sumBy f l + f b := by
  intro l
  induction l with
  | nil => intro i a b h; simp at h
  | cons c cs ih =>
    intro i a b h
    cases i with
    | zero => simp at h; subst h; simp [sumBy]; omega
    | succ j =>
      simp at h
      have := ih j a b h
      simp [sumBy]; omega

theorem sumBy_pos_exists (f : ConsPc → Nat) : ∀ (l : List ConsPc), 0 < sumBy f l →
    ∃ (i : Nat) (a : ConsPc), l[i]? = some a ∧ 0 < f a := by
  intro l
  induction l with
  | nil => intro h; simp [sumBy] at h
  | cons c cs ih =>
    intro h
    by_cases hc : 0 < f c
    · exact ⟨0, c, by simp, hc⟩
    · have : 0 < sumBy f cs := by simp [sumBy] at h; omega
      obtain ⟨i, a, hi, ha⟩ := ih this
      exact ⟨i + 1, a, by simpa using hi, ha⟩

theorem sumBy_ge_of_getElem (f : ConsPc → Nat) (l : List ConsPc) (i : Nat) (a : ConsPc)
    (h : l[i]? = some a) : f a ≤ sumBy f l := by
  induction l generalizing i with
  | nil => simp at h
  | cons c cs ih =>
    cases i with
    | zero => simp at h; subst h; simp [sumBy]
    | succ j => simp at h; have := ih j h; simp [sumBy]; omega

theorem mem_set_cases {l : List ConsPc} {i : Nat} {b c : ConsPc} (h : c ∈ l.set i b) : c = b ∨ c ∈ l := by
  rcases List.mem_or_eq_of_mem_set h with h | h
  · exact Or.inr h
  · exact Or.inl h

/-! ### facts that are functions of the Run goroutine's pc -/

def RunPc.pend : RunPc → Bool
  | .pendLock | .rotPendLock _ => true
  | _ => false

def RunPc.held : RunPc → Bool
  | .fetch | .setSvid _ | .closeOk | .closeErr | .unlockOk | .unlockErr | .rotSet _ | .rotUnlock => true
  | _ => false

def RunPc.readsR : RunPc → Nat
  | .rotRUnlock => 1
  | _ => 0

def RunPc.started : RunPc → Bool
  | .idle | .called => false
  | _ => true

def RunPc.isReady : RunPc → Bool
  | .idle | .called | .wantLock | .pendLock | .fetch | .setSvid _ | .closeOk | .closeErr => false
  | _ => true

/-- Outcome of the initial fetch as a function of where `Run` is. -/
def RunPc.initVal : RunPc → Option Bool
  | .idle | .called | .wantLock | .pendLock | .fetch => none
  | .closeErr | .unlockErr | .retErr => some false
  | _ => some true

def RunPc.hasSvid : RunPc → Bool
  | .idle | .called | .wantLock | .pendLock | .fetch | .setSvid _ | .closeErr | .unlockErr | .retErr => false
  | _ => true

/-- Token fetched but not yet installed. -/
def RunPc.carrying : RunPc → Option Nat
  | .setSvid v | .rotWantLock v | .rotPendLock v | .rotSet v => some v
  | _ => none

/-- Invariant of the lock, the flags and the ghost fields; holds for both variants. -/
structure BaseInv (s : St) : Prop where
  pend : s.wPend = s.run.pend
  held : s.wHeld = s.run.held
  readers : s.readers = sumBy holdsR s.cons + s.run.readsR
  running : s.running = s.run.started
  ready : s.ready = s.run.isReady
  init : s.init = s.run.initVal
  svid : s.svid.isSome = s.run.hasSvid

theorem baseInv_init : BaseInv init := by
  constructor <;> simp [Kit.Spiffe.init, RunPc.pend, RunPc.held, RunPc.readsR, RunPc.started, RunPc.isReady,
    RunPc.initVal, RunPc.hasSvid, sumBy]

theorem holdsR_le_one (c : ConsPc) : holdsR c ≤ 1 := by cases c <;> simp [holdsR]

/-- A consumer statement changes only that consumer's pc and the reader count accordingly. -/
theorem consStep_shape {v : Variant} {s t : St} {i : Nat} (hs : step v s (.cons i) = some t) :
    ∃ pc b, s.cons[i]? = some pc ∧
      t = { s with readers := s.readers + holdsR b - holdsR pc, cons := s.cons.set i b } := by
  simp only [step, consStep] at hs
  split at hs
  · simp at hs
  · rename_i pc hi
    refine ⟨pc, ?_⟩
    split at hs <;> (try split at hs) <;> (try split at hs) <;> simp at hs <;> subst hs
    · exact ⟨.yDone true, hi, by simp [holdsR]⟩
    · exact ⟨.gHoldWait, hi, by simp [holdsR]⟩
    · exact ⟨.gPassed, hi, by simp [holdsR]⟩
    · exact ⟨.gHold, hi, by simp [holdsR]⟩
    · exact ⟨.gHold, hi, by simp [holdsR]⟩
    · exact ⟨.gUnlock s.svid, hi, by simp [holdsR]⟩
    · rename_i r; exact ⟨.gDone r, hi, by simp [holdsR]⟩

theorem baseInv_step (v : Variant) {s t : St} {l : Lbl} (h : BaseInv s) (hs : step v s l = some t) :
    BaseInv t := by
  obtain ⟨h1, h2, h3, h4, h5, h6, h7⟩ := h
  cases l with
  | callRun =>
    simp only [step] at hs
    split at hs <;> simp at hs
    subst hs
    constructor <;> simp_all [RunPc.pend, RunPc.held, RunPc.readsR, RunPc.started, RunPc.isReady, RunPc.initVal, RunPc.hasSvid]
  | callReady =>
    simp only [step, Option.some.injEq] at hs
    subst hs
    constructor <;> simp_all [sumBy_append, sumBy, holdsR]
  | callGet =>
    simp only [step, Option.some.injEq] at hs
    subst hs
    constructor <;> simp_all [sumBy_append, sumBy, holdsR]
  | runLoser =>
    simp only [step] at hs
    split at hs <;> simp at hs
    subst hs
    exact ⟨h1, h2, h3, h4, h5, h6, h7⟩
  | ctxDone i =>
    simp only [step] at hs
    split at hs <;> simp at hs
    subst hs
    rename_i hi
    have := sumBy_set holdsR s.cons i _ (.yDone false) hi
    constructor <;> simp_all [holdsR]
  | stop =>
    simp only [step] at hs
    split at hs <;> simp at hs
    subst hs
    constructor <;> simp_all [RunPc.pend, RunPc.held, RunPc.readsR, RunPc.started, RunPc.isReady, RunPc.initVal, RunPc.hasSvid]
  | cancelRun =>
    simp only [step, Option.some.injEq] at hs
    subst hs
    exact ⟨h1, h2, h3, h4, h5, h6, h7⟩
  | renew =>
    simp only [step] at hs
    split at hs <;> simp at hs
    subst hs
    constructor <;> simp_all [RunPc.pend, RunPc.held, RunPc.readsR, RunPc.started, RunPc.isReady, RunPc.initVal, RunPc.hasSvid]
  | reply ok =>
    simp only [step, replyStep] at hs
    split at hs <;> (try split at hs) <;> simp at hs <;> subst hs <;>
      constructor <;> simp_all [RunPc.pend, RunPc.held, RunPc.readsR, RunPc.started, RunPc.isReady, RunPc.initVal, RunPc.hasSvid]
  | run =>
    simp only [step, runStep] at hs
    split at hs <;> (try split at hs) <;> simp at hs <;> subst hs <;>
      constructor <;> simp_all [RunPc.pend, RunPc.held, RunPc.readsR, RunPc.started, RunPc.isReady, RunPc.initVal, RunPc.hasSvid, St.canRLock]
  | cons i =>
    obtain ⟨pc, b, hi, rfl⟩ := consStep_shape hs
    have hset := sumBy_set holdsR s.cons i pc b hi
    have hle := sumBy_ge_of_getElem holdsR s.cons i pc hi
    constructor <;> simp_all <;> omega

/-! ### frames of the Run goroutine's steps -/

theorem runStep_frame {s t : St} (hs : runStep s = some t) :
    t.cons = s.cons ∧ t.init = s.init ∧ (s.ready = true → t.ready = true) ∧ t.good = s.good ∧
      t.nfetch = s.nfetch := by
  simp only [runStep] at hs
  split at hs <;> (try split at hs) <;> simp at hs <;> subst hs <;> simp

theorem replyStep_frame {s t : St} {ok : Bool} (hs : replyStep s ok = some t) :
    t.cons = s.cons ∧ t.ready = s.ready ∧ (t.init = s.init ∨ s.run = .fetch) ∧ t.svid = s.svid := by
  simp only [replyStep] at hs
  split at hs <;> (try split at hs) <;> simp at hs <;> subst hs <;> simp_all

/-- Complete description of a consumer statement in the repaired code. -/
theorem consStep_fixed_cases {s t : St} {i : Nat} (hs : step .fixed s (.cons i) = some t) :
    ∃ pc b, s.cons[i]? = some pc ∧
      t = { s with readers := s.readers + holdsR b - holdsR pc, cons := s.cons.set i b } ∧
      ((pc = .yWait ∧ b = .yDone true ∧ s.ready = true) ∨
       (pc = .gCall ∧ b = .gPassed ∧ s.ready = true) ∨
       (pc = .gHoldWait ∧ b = .gHold ∧ s.ready = true) ∨
       (pc = .gPassed ∧ b = .gHold ∧ s.canRLock = true) ∨
       (pc = .gHold ∧ b = .gUnlock s.svid) ∨
       (∃ r, pc = .gUnlock r ∧ b = .gDone r)) := by
  simp only [step, consStep] at hs
  split at hs
  · simp at hs
  · rename_i pc hi
    refine ⟨pc, ?_⟩
    split at hs <;> (try split at hs) <;> simp at hs <;> subst hs
    · exact ⟨.yDone true, hi, by simp [holdsR], by simp_all⟩
    · exact ⟨.gPassed, hi, by simp [holdsR], by simp_all⟩
    · exact ⟨.gHold, hi, by simp [holdsR], by simp_all⟩
    · exact ⟨.gHold, hi, by simp [holdsR], by simp_all⟩
    · exact ⟨.gUnlock s.svid, hi, by simp [holdsR], by simp⟩
    · rename_i r; exact ⟨.gDone r, hi, by simp [holdsR], by simp⟩

theorem isReady_initVal (r : RunPc) (h : r.isReady = true) : r.initVal = some r.hasSvid := by
  cases r <;> simp_all [RunPc.isReady, RunPc.initVal, RunPc.hasSvid]

/-- Invariant specific to the repaired `GetX509SVID`. -/
structure FixedInv (s : St) : Prop where
  pre : s.ready = false → ∀ c ∈ s.cons, c = .yWait ∨ c = .yDone false ∨ c = .gCall
  res : ∀ c ∈ s.cons, ∀ r, (c = .gUnlock r ∨ c = .gDone r) → s.init = some r.isSome

theorem fixedInv_init : FixedInv init := by
  constructor <;> simp [Kit.Spiffe.init]

theorem fixedInv_step {s t : St} {l : Lbl} (hb : BaseInv s) (h : FixedInv s)
    (hs : step .fixed s l = some t) : FixedInv t := by
  obtain ⟨hpre, hres⟩ := h
  cases l with
  | callRun =>
    simp only [step] at hs
    split at hs <;> simp at hs
    subst hs
    exact ⟨hpre, hres⟩
  | callReady =>
    simp only [step, Option.some.injEq] at hs
    subst hs
    constructor
    · intro hr c hc
      simp only [List.mem_append, List.mem_singleton] at hc
      rcases hc with hc | hc
      · exact hpre hr c hc
      · exact Or.inl hc
    · intro c hc r hcr
      simp only [List.mem_append, List.mem_singleton] at hc
      rcases hc with hc | hc
      · exact hres c hc r hcr
      · subst hc; simp at hcr
  | callGet =>
    simp only [step, Option.some.injEq] at hs
    subst hs
    constructor
    · intro hr c hc
      simp only [List.mem_append, List.mem_singleton] at hc
      rcases hc with hc | hc
      · exact hpre hr c hc
      · exact Or.inr (Or.inr hc)
    · intro c hc r hcr
      simp only [List.mem_append, List.mem_singleton] at hc
      rcases hc with hc | hc
      · exact hres c hc r hcr
      · subst hc; simp at hcr
  | runLoser =>
    simp only [step] at hs
    split at hs <;> simp at hs
    subst hs
    exact ⟨hpre, hres⟩
  | ctxDone i =>
    simp only [step] at hs
    split at hs <;> simp at hs
    subst hs
    constructor
    · intro hr c hc
      rcases mem_set_cases hc with hc | hc
      · exact Or.inr (Or.inl hc)
      · exact hpre hr c hc
    · intro c hc r hcr
      rcases mem_set_cases hc with hc | hc
      · subst hc; simp at hcr
      · exact hres c hc r hcr
  | stop =>
    simp only [step] at hs
    split at hs <;> simp at hs
    subst hs
    exact ⟨hpre, hres⟩
  | cancelRun =>
    simp only [step, Option.some.injEq] at hs
    subst hs
    exact ⟨hpre, hres⟩
  | renew =>
    simp only [step] at hs
    split at hs <;> simp at hs
    subst hs
    exact ⟨hpre, hres⟩
  | reply ok =>
    simp only [step] at hs
    obtain ⟨hc, hr, hi, _⟩ := replyStep_frame hs
    constructor
    · intro hrt c hcm
      rw [hc] at hcm
      exact hpre (hr ▸ hrt) c hcm
    · intro c hcm r hcr
      rw [hc] at hcm
      rcases hi with hi | hi
      · rw [hi]; exact hres c hcm r hcr
      · have hnr : s.ready = false := by rw [hb.ready, hi]; rfl
        rcases hpre hnr c hcm with h | h | h <;> subst h <;> simp at hcr
  | run =>
    simp only [step] at hs
    obtain ⟨hc, hi, hr, _, _⟩ := runStep_frame hs
    constructor
    · intro hrt c hcm
      rw [hc] at hcm
      have : s.ready = false := by
        cases hsr : s.ready
        · rfl
        · rw [hr hsr] at hrt; cases hrt
      exact hpre this c hcm
    · intro c hcm r hcr
      rw [hc] at hcm
      rw [hi]; exact hres c hcm r hcr
  | cons i =>
    obtain ⟨pc, b, hi, rfl, hcase⟩ := consStep_fixed_cases hs
    have hpcm : pc ∈ s.cons := List.mem_of_getElem? hi
    constructor
    · intro hrt c hcm
      have hrs : s.ready = false := hrt
      have hpc := hpre hrs pc hpcm
      rcases hcase with ⟨h1, _, h3⟩ | ⟨h1, _, h3⟩ | ⟨h1, _, h3⟩ | ⟨h1, _, _⟩ | ⟨h1, _⟩ | ⟨r, h1, _⟩
      · rw [hrs] at h3; cases h3
      · rw [hrs] at h3; cases h3
      · rw [hrs] at h3; cases h3
      · subst h1; simp at hpc
      · subst h1; simp at hpc
      · subst h1; simp at hpc
    · intro c hcm r hcr
      rcases mem_set_cases hcm with hcb | hcm
      · subst hcb
        rcases hcase with ⟨_, h2, _⟩ | ⟨_, h2, _⟩ | ⟨_, h2, _⟩ | ⟨_, h2, _⟩ | ⟨h1, h2⟩ | ⟨r', h1, h2⟩
        · subst h2; simp at hcr
        · subst h2; simp at hcr
        · subst h2; simp at hcr
        · subst h2; simp at hcr
        · subst h2
          simp at hcr
          subst hcr
          -- pc = gHold is in cons, so readiness has been seen
          have hready : s.ready = true := by
            cases hsr : s.ready
            · have := hpre hsr pc hpcm; subst h1; simp at this
            · rfl
          show s.init = some s.svid.isSome
          rw [hb.init, hb.svid]
          exact isReady_initVal _ (hb.ready ▸ hready)
        · subst h2
          simp at hcr
          subst hcr
          exact hres pc hpcm r' (Or.inl h1)
      · exact hres c hcm r hcr

/-! ### progress measure -/

def runRank : RunPc → Nat
  | .called => 13 | .wantLock => 12 | .pendLock => 11 | .fetch => 10
  | .setSvid _ => 9 | .closeOk => 8 | .unlockOk => 7 | .rotRLock => 6 | .rotRUnlock => 5
  | .closeErr => 9 | .unlockErr => 8
  | .rotFetch => 5 | .rotWantLock _ => 4 | .rotPendLock _ => 3 | .rotSet _ => 2 | .rotUnlock => 1
  | _ => 0

def consRank : ConsPc → Nat
  | .yWait => 1 | .gCall => 4 | .gHoldWait => 3 | .gPassed => 3 | .gHold => 2 | .gUnlock _ => 1
  | _ => 0

def total (s : St) : Nat := runRank s.run + sumBy consRank s.cons

/-- pcs at which the Run goroutine's next statement cannot block (given the invariant). -/
def RunPc.free : RunPc → Bool
  | .called | .wantLock | .setSvid _ | .closeOk | .closeErr | .unlockOk | .unlockErr
  | .rotRLock | .rotRUnlock | .rotWantLock _ | .rotSet _ | .rotUnlock => true
  | _ => false

theorem run_progress {v : Variant} {s : St} (h : BaseInv s) (hA : s.run.free = true) :
    ∃ t, step v s .run = some t ∧ total t < total s := by
  obtain ⟨h1, h2, h3, h4, h5, h6, h7⟩ := h
  cases hr : s.run <;> simp [RunPc.free, hr] at hA <;>
    simp_all [step, runStep, total, runRank, RunPc.held, RunPc.pend, RunPc.started, St.canRLock]

theorem acquire_progress {v : Variant} {s : St} (hr : s.run = .pendLock ∨ ∃ w, s.run = .rotPendLock w)
    (h0 : s.readers = 0) : ∃ t, step v s .run = some t ∧ total t < total s := by
  rcases hr with hr | ⟨w, hr⟩ <;> simp [step, runStep, hr, h0, total, runRank]

theorem reply_progress {v : Variant} {s : St} (ok : Bool) (hr : s.run = .fetch ∨ s.run = .rotFetch) :
    ∃ t, step v s (.reply ok) = some t ∧ total t < total s := by
  rcases hr with hr | hr <;> cases ok <;> simp [step, replyStep, hr, total, runRank]

theorem cons_progress {s : St} {i : Nat} {pc : ConsPc} (hi : s.cons[i]? = some pc)
    (hen : (pc = .gHold ∨ ∃ r, pc = .gUnlock r) ∨
           (s.ready = true ∧ (pc = .yWait ∨ pc = .gCall ∨ pc = .gHoldWait)) ∨
           (s.canRLock = true ∧ pc = .gPassed)) :
    ∃ t, step .fixed s (.cons i) = some t ∧ total t < total s := by
  have hset := fun b => sumBy_set consRank s.cons i pc b hi
  rcases hen with (h | ⟨r, h⟩) | ⟨hr, h | h | h⟩ | ⟨hc, h⟩ <;> subst h
  · have := hset (.gUnlock s.svid)
    refine ⟨_, by simp [step, consStep, hi]; rfl, ?_⟩
    simp [total, consRank] at *; omega
  · have := hset (.gDone r)
    refine ⟨_, by simp [step, consStep, hi]; rfl, ?_⟩
    simp [total, consRank] at *; omega
  · have := hset (.yDone true)
    refine ⟨_, by simp [step, consStep, hi, hr]; rfl, ?_⟩
    simp [total, consRank] at *; omega
  · have := hset .gPassed
    refine ⟨_, by simp [step, consStep, hi, hr]; rfl, ?_⟩
    simp [total, consRank] at *; omega
  · have := hset .gHold
    refine ⟨_, by simp [step, consStep, hi, hr]; rfl, ?_⟩
    simp [total, consRank] at *; omega
  · have := hset .gHold
    refine ⟨_, by simp [step, consStep, hi, hc]; rfl, ?_⟩
    simp [total, consRank] at *; omega

theorem sumBy_zero_of_forall (f : ConsPc → Nat) (l : List ConsPc) (h : ∀ c ∈ l, f c = 0) : sumBy f l = 0 := by
  induction l with
  | nil => rfl
  | cons a l ih =>
    simp only [sumBy]
    rw [h a (by simp), ih (fun c hc => h c (by simp [hc]))]

theorem holdsR_pos_cases {a : ConsPc} (h : 0 < holdsR a) : a = .gHoldWait ∨ a = .gHold ∨ ∃ r, a = .gUnlock r := by
  cases a <;> simp_all [holdsR]

theorem not_returned_cases {a : ConsPc} (h : a.returned = false) :
    a = .yWait ∨ a = .gCall ∨ a = .gHoldWait ∨ a = .gPassed ∨ a = .gHold ∨ ∃ r, a = .gUnlock r := by
  cases a <;> simp_all [ConsPc.returned]

/-- In the repaired code, as long as `Run` has been called and some call has not returned, some
goroutine can take a step (the issuer answering counts as a step), and the measure decreases. -/
theorem progress_step (ok : Bool) {s : St} (hb : BaseInv s) (hf : FixedInv s) (hrun : s.run ≠ .idle)
    (hnot : s.allReturned = false) :
    ∃ l t, l.internal ok = true ∧ step .fixed s l = some t ∧ total t < total s := by
  by_cases hfree : s.run.free = true
  · obtain ⟨t, ht, hlt⟩ := run_progress (v := .fixed) hb hfree
    exact ⟨.run, t, rfl, ht, hlt⟩
  by_cases hfetch : s.run = .fetch ∨ s.run = .rotFetch
  · obtain ⟨t, ht, hlt⟩ := reply_progress (v := .fixed) ok hfetch
    exact ⟨.reply ok, t, by simp [Lbl.internal], ht, hlt⟩
  by_cases hpl : s.run = .pendLock
  · -- readyCh is not closed yet, so no consumer holds the read lock
    have hnr : s.ready = false := by rw [hb.ready, hpl]; rfl
    have h0 : s.readers = 0 := by
      rw [hb.readers, hpl]
      have : sumBy holdsR s.cons = 0 := sumBy_zero_of_forall _ _ (fun c hc => by
        rcases hf.pre hnr c hc with h | h | h <;> subst h <;> rfl)
      simp [this, RunPc.readsR]
    obtain ⟨t, ht, hlt⟩ := acquire_progress (v := .fixed) (Or.inl hpl) h0
    exact ⟨.run, t, rfl, ht, hlt⟩
  by_cases hrp : ∃ w, s.run = .rotPendLock w
  · obtain ⟨w, hw⟩ := hrp
    by_cases h0 : s.readers = 0
    · obtain ⟨t, ht, hlt⟩ := acquire_progress (v := .fixed) (Or.inr ⟨w, hw⟩) h0
      exact ⟨.run, t, rfl, ht, hlt⟩
    · -- some consumer holds the read lock; it can always continue
      have hpos : 0 < sumBy holdsR s.cons := by
        have := hb.readers; rw [hw] at this; simp [RunPc.readsR] at this; omega
      obtain ⟨i, a, hi, ha⟩ := sumBy_pos_exists holdsR s.cons hpos
      have hready : s.ready = true := by rw [hb.ready, hw]; rfl
      have hen : (a = .gHold ∨ ∃ r, a = .gUnlock r) ∨
          (s.ready = true ∧ (a = .yWait ∨ a = .gCall ∨ a = .gHoldWait)) ∨
          (s.canRLock = true ∧ a = .gPassed) := by
        rcases holdsR_pos_cases ha with h | h | h
        · exact Or.inr (Or.inl ⟨hready, Or.inr (Or.inr h)⟩)
        · exact Or.inl (Or.inl h)
        · exact Or.inl (Or.inr h)
      obtain ⟨t, ht, hlt⟩ := cons_progress hi hen
      exact ⟨.cons i, t, rfl, ht, hlt⟩
  · -- Run rests (rotation wait, returned): readyCh is closed and no writer is around
    have hrest : s.run = .rotWait ∨ s.run = .retErr ∨ s.run = .stopped := by
      cases hr : s.run <;> simp_all [RunPc.free]
    have hready : s.ready = true := by
      rw [hb.ready]; rcases hrest with h | h | h <;> rw [h] <;> rfl
    have hcan : s.canRLock = true := by
      simp only [St.canRLock, hb.held, hb.pend]
      rcases hrest with h | h | h <;> rw [h] <;> rfl
    have : ∃ a ∈ s.cons, a.returned = false := by
      simp only [St.allReturned] at hnot
      have := List.all_eq_false.mp hnot
      obtain ⟨a, ha, hna⟩ := this
      exact ⟨a, ha, by simpa using hna⟩
    obtain ⟨a, ham, hna⟩ := this
    obtain ⟨i, hi⟩ := List.getElem?_of_mem ham
    have hen : (a = .gHold ∨ ∃ r, a = .gUnlock r) ∨
        (s.ready = true ∧ (a = .yWait ∨ a = .gCall ∨ a = .gHoldWait)) ∨
        (s.canRLock = true ∧ a = .gPassed) := by
      rcases not_returned_cases hna with h | h | h | h | h | h
      · exact Or.inr (Or.inl ⟨hready, Or.inl h⟩)
      · exact Or.inr (Or.inl ⟨hready, Or.inr (Or.inl h)⟩)
      · exact Or.inr (Or.inl ⟨hready, Or.inr (Or.inr h)⟩)
      · exact Or.inr (Or.inr ⟨hcan, h⟩)
      · exact Or.inl (Or.inl h)
      · exact Or.inl (Or.inr h)
    obtain ⟨t, ht, hlt⟩ := cons_progress hi hen
    exact ⟨.cons i, t, rfl, ht, hlt⟩

theorem run_ne_idle_step {v : Variant} {s t : St} {l : Lbl} (hs : step v s l = some t)
    (h : s.run ≠ .idle) : t.run ≠ .idle := by
  cases l with
  | callRun => simp only [step] at hs; split at hs <;> simp at hs; subst hs; simp
  | callReady => simp only [step, Option.some.injEq] at hs; subst hs; exact h
  | callGet => simp only [step, Option.some.injEq] at hs; subst hs; exact h
  | runLoser => simp only [step] at hs; split at hs <;> simp at hs; subst hs; exact h
  | ctxDone i => simp only [step] at hs; split at hs <;> simp at hs; subst hs; exact h
  | stop => simp only [step] at hs; split at hs <;> simp at hs; subst hs; simp
  | cancelRun => simp only [step, Option.some.injEq] at hs; subst hs; exact h
  | renew => simp only [step] at hs; split at hs <;> simp at hs; subst hs; simp
  | reply ok =>
    simp only [step, replyStep] at hs
    split at hs <;> (try split at hs) <;> simp at hs <;> subst hs <;> simp
  | run =>
    simp only [step, runStep] at hs
    split at hs <;> (try split at hs) <;> simp at hs <;> subst hs <;> simp
  | cons i =>
    obtain ⟨pc, b, _, rfl⟩ := consStep_shape hs
    exact h

/-- Internal progress to a state in which every consumer call has returned. -/
theorem progress_fixed (ok : Bool) : ∀ (n : Nat) (s : St), total s ≤ n → BaseInv s → FixedInv s →
    s.run ≠ .idle → ∃ t, IntPath .fixed ok s t ∧ t.allReturned = true := by
  intro n
  induction n with
  | zero =>
    intro s hn hb hf hrun
    cases hall : s.allReturned
    · obtain ⟨l, t, _, _, hlt⟩ := progress_step ok hb hf hrun hall
      omega
    · exact ⟨s, .refl s, hall⟩
  | succ n ih =>
    intro s hn hb hf hrun
    cases hall : s.allReturned
    · obtain ⟨l, t, hl, ht, hlt⟩ := progress_step ok hb hf hrun hall
      obtain ⟨u, hp, hu⟩ := ih t (by omega) (baseInv_step .fixed hb ht) (fixedInv_step hb hf ht)
        (run_ne_idle_step ht hrun)
      exact ⟨u, .head l hl ht hp, hu⟩
    · exact ⟨s, .refl s, hall⟩

theorem reach_of_intPath {v : Variant} {ok : Bool} {a s t : St} (h : Reach v a s) (p : IntPath v ok s t) :
    Reach v a t := by
  induction p with
  | refl s => exact h
  | head l _ hs _ ih => exact ih (.tail l h hs)

theorem baseInv_reach {v : Variant} {s t : St} (hb : BaseInv s) (h : Reach v s t) : BaseInv t := by
  induction h with
  | refl => exact hb
  | tail l _ hs ih => exact baseInv_step v ih hs

theorem fixedInv_reach {s t : St} (hb : BaseInv s) (hf : FixedInv s) (h : Reach .fixed s t) :
    BaseInv t ∧ FixedInv t := by
  induction h with
  | refl => exact ⟨hb, hf⟩
  | tail l _ hs ih => exact ⟨baseInv_step .fixed ih.1 hs, fixedInv_step ih.1 ih.2 hs⟩

/-- Along internal steps the recorded outcome of the initial fetch only changes from "outstanding"
to the issuer's answer. -/
theorem init_step {v : Variant} {ok : Bool} {s t : St} {l : Lbl} (hb : BaseInv s)
    (hl : l.internal ok = true) (hs : step v s l = some t) :
    t.init = s.init ∨ (s.init = none ∧ t.init = some ok) := by
  cases l with
  | run => simp only [step] at hs; exact Or.inl (runStep_frame hs).2.1
  | cons i => obtain ⟨pc, b, _, rfl⟩ := consStep_shape hs; exact Or.inl rfl
  | reply b =>
    simp [Lbl.internal] at hl
    subst hl
    simp only [step, replyStep] at hs
    have hi := hb.init
    split at hs <;> (try split at hs) <;> simp at hs <;> subst hs <;> simp_all [RunPc.initVal]
  | _ => simp [Lbl.internal] at hl

theorem init_path {v : Variant} {ok : Bool} {s t : St} (hb : BaseInv s) (p : IntPath v ok s t) :
    (∀ b, s.init = some b → t.init = some b) ∧ (s.init = none → t.init = none ∨ t.init = some ok) := by
  induction p with
  | refl s => exact ⟨fun _ h => h, fun h => Or.inl h⟩
  | head l hl hs _ ih =>
    have ih := ih (baseInv_step v hb hs)
    rcases init_step hb hl hs with h | ⟨h1, h2⟩
    · rw [h] at ih; exact ih
    · constructor
      · intro b hb'; rw [h1] at hb'; cases hb'
      · intro _; exact Or.inr (ih.1 ok h2)

theorem length_path {v : Variant} {ok : Bool} {s t : St} (p : IntPath v ok s t) :
    t.cons.length = s.cons.length := by
  induction p with
  | refl s => rfl
  | head l hl hs _ ih =>
    rw [ih]
    cases l with
    | run => simp only [step] at hs; rw [(runStep_frame hs).1]
    | cons i => obtain ⟨pc, b, _, rfl⟩ := consStep_shape hs; simp
    | reply b => simp only [step] at hs; rw [(replyStep_frame hs).1]
    | _ => simp [Lbl.internal] at hl

/-! ### each call keeps its identity along internal steps -/

def ConsPc.isGet : ConsPc → Bool
  | .gCall | .gHoldWait | .gPassed | .gHold | .gUnlock _ | .gDone _ => true
  | _ => false

/-- How one consumer's pc may change along internal steps: a `Ready` call stays as it is or returns
nil; a `GetX509SVID` call stays a `GetX509SVID` call. -/
def Evolves (a b : ConsPc) : Prop :=
  a = b ∨ (a = .yWait ∧ b = .yDone true) ∨ (a.isGet = true ∧ b.isGet = true)

theorem Evolves.refl (a : ConsPc) : Evolves a a := Or.inl rfl

theorem Evolves.trans {a b c : ConsPc} (h1 : Evolves a b) (h2 : Evolves b c) : Evolves a c := by
  rcases h1 with rfl | ⟨rfl, rfl⟩ | ⟨ha, hb⟩
  · exact h2
  · rcases h2 with h | ⟨h, _⟩ | ⟨h, _⟩
    · subst h; exact Or.inr (Or.inl ⟨rfl, rfl⟩)
    · cases h
    · simp [ConsPc.isGet] at h
  · rcases h2 with rfl | ⟨rfl, _⟩ | ⟨_, hc⟩
    · exact Or.inr (Or.inr ⟨ha, hb⟩)
    · simp [ConsPc.isGet] at hb
    · exact Or.inr (Or.inr ⟨ha, hc⟩)

theorem evolves_step {v : Variant} {ok : Bool} {s t : St} {l : Lbl} (hl : l.internal ok = true)
    (hs : step v s l = some t) (i : Nat) (a : ConsPc) (ha : s.cons[i]? = some a) :
    ∃ b, t.cons[i]? = some b ∧ Evolves a b := by
  cases l with
  | run => simp only [step] at hs; rw [(runStep_frame hs).1]; exact ⟨a, ha, .refl a⟩
  | reply b => simp only [step] at hs; rw [(replyStep_frame hs).1]; exact ⟨a, ha, .refl a⟩
  | cons j =>
    by_cases hij : j = i
    · subst hij
      simp only [step, consStep, ha] at hs
      have hlt : j < s.cons.length := (List.getElem?_eq_some_iff.mp ha).1
      have key : ∀ b, Evolves a b → t.cons = s.cons.set j b → ∃ b, t.cons[j]? = some b ∧ Evolves a b :=
        fun b hb ht => ⟨b, by rw [ht]; simp [hlt], hb⟩
      cases a <;> simp at hs
      · obtain ⟨_, rfl⟩ := hs
        exact key (.yDone true) (Or.inr (Or.inl ⟨rfl, rfl⟩)) rfl
      · cases v <;> simp at hs <;> obtain ⟨_, rfl⟩ := hs
        · exact key .gHoldWait (Or.inr (Or.inr ⟨rfl, rfl⟩)) rfl
        · exact key .gPassed (Or.inr (Or.inr ⟨rfl, rfl⟩)) rfl
      · obtain ⟨_, rfl⟩ := hs
        exact key .gHold (Or.inr (Or.inr ⟨rfl, rfl⟩)) rfl
      · obtain ⟨_, rfl⟩ := hs
        exact key .gHold (Or.inr (Or.inr ⟨rfl, rfl⟩)) rfl
      · subst hs
        exact key (.gUnlock s.svid) (Or.inr (Or.inr ⟨rfl, rfl⟩)) rfl
      · rename_i r
        subst hs
        exact key (.gDone r) (Or.inr (Or.inr ⟨rfl, rfl⟩)) rfl
    · obtain ⟨pc, b, _, rfl⟩ := consStep_shape hs
      exact ⟨a, by simp [List.getElem?_set_ne hij, ha], .refl a⟩
  | _ => simp [Lbl.internal] at hl

theorem evolves_path {v : Variant} {ok : Bool} {s t : St} (p : IntPath v ok s t) (i : Nat) (a : ConsPc)
    (ha : s.cons[i]? = some a) : ∃ b, t.cons[i]? = some b ∧ Evolves a b := by
  induction p generalizing a with
  | refl s => exact ⟨a, ha, .refl a⟩
  | head l hl hs _ ih =>
    obtain ⟨b, hb, hab⟩ := evolves_step hl hs i a ha
    obtain ⟨c, hc, hbc⟩ := ih b hb
    exact ⟨c, hc, hab.trans hbc⟩

/-! ### what is served is the latest installed fetch -/

/-- `currentSVID` is the newest successful fetch, except while the Run goroutine carries a newer one
towards the write lock. -/
structure GoodInv (s : St) : Prop where
  carry : match s.run.carrying with
    | some w => ∃ rest, s.good = w :: rest ∧ s.svid = rest.head?
    | none => s.svid = s.good.head?
  results : ∀ c ∈ s.cons, ∀ w, (c = .gUnlock (some w) ∨ c = .gDone (some w)) → w ∈ s.good

theorem goodInv_init : GoodInv init := by
  constructor <;> simp [Kit.Spiffe.init, RunPc.carrying]

theorem svid_mem_good {s : St} (h : GoodInv s) {w : Nat} (hw : s.svid = some w) : w ∈ s.good := by
  have hc := h.carry
  cases hcar : s.run.carrying with
  | none =>
    rw [hcar] at hc; simp only at hc
    rw [hc] at hw
    exact List.mem_of_mem_head? hw
  | some u =>
    rw [hcar] at hc; simp only at hc
    obtain ⟨rest, hg, hs⟩ := hc
    rw [hs] at hw
    rw [hg]
    exact List.mem_cons_of_mem _ (List.mem_of_mem_head? hw)

theorem goodInv_step {v : Variant} {s t : St} {l : Lbl} (h : GoodInv s) (hs : step v s l = some t) :
    GoodInv t := by
  have hcarry := h.carry
  have hres := h.results
  cases l with
  | callRun =>
    simp only [step] at hs; split at hs <;> simp at hs
    subst hs
    rename_i hidle
    constructor
    · simp only [RunPc.carrying]; rw [hidle] at hcarry; simpa [RunPc.carrying] using hcarry
    · exact hres
  | callReady =>
    simp only [step, Option.some.injEq] at hs; subst hs
    refine ⟨hcarry, ?_⟩
    intro c hc w hcw
    simp only [List.mem_append, List.mem_singleton] at hc
    rcases hc with hc | hc
    · exact hres c hc w hcw
    · subst hc; simp at hcw
  | callGet =>
    simp only [step, Option.some.injEq] at hs; subst hs
    refine ⟨hcarry, ?_⟩
    intro c hc w hcw
    simp only [List.mem_append, List.mem_singleton] at hc
    rcases hc with hc | hc
    · exact hres c hc w hcw
    · subst hc; simp at hcw
  | runLoser =>
    simp only [step] at hs; split at hs <;> simp at hs
    subst hs; exact h
  | ctxDone i =>
    simp only [step] at hs; split at hs <;> simp at hs
    subst hs
    refine ⟨hcarry, ?_⟩
    intro c hc w hcw
    rcases mem_set_cases hc with hc | hc
    · subst hc; simp at hcw
    · exact hres c hc w hcw
  | stop =>
    simp only [step] at hs; split at hs <;> simp at hs
    subst hs
    rename_i hr
    constructor
    · simp only [RunPc.carrying]; rw [hr] at hcarry; simpa [RunPc.carrying] using hcarry
    · exact hres
  | cancelRun =>
    simp only [step, Option.some.injEq] at hs
    subst hs; exact ⟨hcarry, hres⟩
  | renew =>
    simp only [step] at hs; split at hs <;> simp at hs
    subst hs
    rename_i hr
    constructor
    · simp only [RunPc.carrying]; rw [hr] at hcarry; simpa [RunPc.carrying] using hcarry
    · exact hres
  | reply ok =>
    simp only [step] at hs
    cases hr : s.run <;> simp [replyStep, hr] at hs
    all_goals (rw [hr] at hcarry; simp only [RunPc.carrying] at hcarry)
    all_goals (cases ok <;> simp at hs <;> subst hs <;> constructor)
    all_goals first
      | exact hres
      | (intro c hc w hcw; exact List.mem_cons_of_mem _ (hres c hc w hcw))
      | simp_all [RunPc.carrying]
  | run =>
    simp only [step] at hs
    cases hr : s.run <;> simp [runStep, hr] at hs
    all_goals (rw [hr] at hcarry; simp only [RunPc.carrying] at hcarry)
    all_goals (try split at hs)
    all_goals first
      | (obtain ⟨_, rfl⟩ := hs; constructor)
      | (subst hs; constructor)
    all_goals first
      | exact hres
      | (obtain ⟨rest, hg, _⟩ := hcarry; simp [RunPc.carrying, hg]; done)
      | simp_all [RunPc.carrying]
  | cons i =>
    simp only [step, consStep] at hs
    split at hs
    · simp at hs
    · rename_i pc hi
      have key : ∀ b, (∀ w, (b = ConsPc.gUnlock (some w) ∨ b = ConsPc.gDone (some w)) → w ∈ s.good) →
          ∀ c ∈ s.cons.set i b, ∀ w, (c = .gUnlock (some w) ∨ c = .gDone (some w)) → w ∈ s.good := by
        intro b hb c hc w hcw
        rcases mem_set_cases hc with hc | hc
        · subst hc; exact hb w hcw
        · exact hres c hc w hcw
      have hpcm : pc ∈ s.cons := List.mem_of_getElem? hi
      split at hs <;> (try split at hs) <;> (try split at hs) <;> simp at hs <;> subst hs <;>
        refine ⟨hcarry, key _ ?_⟩ <;> intro w hw <;> simp at hw
      · exact svid_mem_good h hw
      · rename_i r; subst hw; exact hres _ hpcm w (Or.inl rfl)

theorem goodInv_reach {v : Variant} {s t : St} (hg : GoodInv s) (h : Reach v s t) : GoodInv t := by
  induction h with
  | refl => exact hg
  | tail l _ hs ih => exact goodInv_step ih hs

/-! ### a renewal that succeeded is always installed -/

/-- pcs at which the Run goroutine rests until the environment acts (timer, ctx, or it has returned). -/
def RunPc.atRest : RunPc → Bool
  | .idle | .rotWait | .retErr | .stopped => true
  | _ => false

/-- As long as the Run goroutine is not at rest, some goroutine can step (repaired code). -/
theorem run_progress_step (ok : Bool) {s : St} (hb : BaseInv s) (hf : FixedInv s) (hnr : s.run.atRest = false) :
    ∃ l t, l.internal ok = true ∧ step .fixed s l = some t ∧ total t < total s := by
  by_cases hfree : s.run.free = true
  · obtain ⟨t, ht, hlt⟩ := run_progress (v := .fixed) hb hfree
    exact ⟨.run, t, rfl, ht, hlt⟩
  by_cases hfetch : s.run = .fetch ∨ s.run = .rotFetch
  · obtain ⟨t, ht, hlt⟩ := reply_progress (v := .fixed) ok hfetch
    exact ⟨.reply ok, t, by simp [Lbl.internal], ht, hlt⟩
  by_cases hpl : s.run = .pendLock
  · have hnr' : s.ready = false := by rw [hb.ready, hpl]; rfl
    have h0 : s.readers = 0 := by
      rw [hb.readers, hpl]
      have : sumBy holdsR s.cons = 0 := sumBy_zero_of_forall _ _ (fun c hc => by
        rcases hf.pre hnr' c hc with h | h | h <;> subst h <;> rfl)
      simp [this, RunPc.readsR]
    obtain ⟨t, ht, hlt⟩ := acquire_progress (v := .fixed) (Or.inl hpl) h0
    exact ⟨.run, t, rfl, ht, hlt⟩
  · have hrp : ∃ w, s.run = .rotPendLock w := by
      cases hr : s.run <;> simp_all [RunPc.free, RunPc.atRest]
    obtain ⟨w, hw⟩ := hrp
    by_cases h0 : s.readers = 0
    · obtain ⟨t, ht, hlt⟩ := acquire_progress (v := .fixed) (Or.inr ⟨w, hw⟩) h0
      exact ⟨.run, t, rfl, ht, hlt⟩
    · have hpos : 0 < sumBy holdsR s.cons := by
        have := hb.readers; rw [hw] at this; simp [RunPc.readsR] at this; omega
      obtain ⟨i, a, hi, ha⟩ := sumBy_pos_exists holdsR s.cons hpos
      have hready : s.ready = true := by rw [hb.ready, hw]; rfl
      have hen : (a = .gHold ∨ ∃ r, a = .gUnlock r) ∨
          (s.ready = true ∧ (a = .yWait ∨ a = .gCall ∨ a = .gHoldWait)) ∨
          (s.canRLock = true ∧ a = .gPassed) := by
        rcases holdsR_pos_cases ha with h | h | h
        · exact Or.inr (Or.inl ⟨hready, Or.inr (Or.inr h)⟩)
        · exact Or.inl (Or.inl h)
        · exact Or.inl (Or.inr h)
      obtain ⟨t, ht, hlt⟩ := cons_progress hi hen
      exact ⟨.cons i, t, rfl, ht, hlt⟩

theorem run_to_rest (ok : Bool) : ∀ (n : Nat) (s : St), total s ≤ n → BaseInv s → FixedInv s →
    ∃ t, IntPath .fixed ok s t ∧ t.run.atRest = true := by
  intro n
  induction n with
  | zero =>
    intro s hn hb hf
    cases hr : s.run.atRest
    · obtain ⟨l, t, _, _, hlt⟩ := run_progress_step ok hb hf hr
      omega
    · exact ⟨s, .refl s, hr⟩
  | succ n ih =>
    intro s hn hb hf
    cases hr : s.run.atRest
    · obtain ⟨l, t, hl, ht, hlt⟩ := run_progress_step ok hb hf hr
      obtain ⟨u, hp, hu⟩ := ih t (by omega) (baseInv_step .fixed hb ht) (fixedInv_step hb hf ht)
      exact ⟨u, .head l hl ht hp, hu⟩
    · exact ⟨s, .refl s, hr⟩

/-- pcs after a fetch has returned, up to the next rest. -/
def RunPc.postFetch : RunPc → Bool
  | .setSvid _ | .closeOk | .unlockOk | .rotRLock | .rotRUnlock | .rotWantLock _ | .rotPendLock _ | .rotSet _
  | .rotUnlock | .rotWait | .closeErr | .unlockErr | .retErr => true
  | _ => false

/-- From such a pc, internal steps keep the list of successful fetches (no request is outstanding, so
no answer can arrive) and stay among such pcs. -/
theorem good_step {v : Variant} {ok : Bool} {s t : St} {l : Lbl} (hl : l.internal ok = true)
    (hs : step v s l = some t) (hpf : s.run.postFetch = true) :
    t.good = s.good ∧ t.run.postFetch = true := by
  cases l with
  | run =>
    simp only [step] at hs
    refine ⟨(runStep_frame hs).2.2.2.1, ?_⟩
    cases hr : s.run <;> simp [RunPc.postFetch, hr] at hpf <;> simp [runStep, hr] at hs
    all_goals first
      | (obtain ⟨_, rfl⟩ := hs; simp [RunPc.postFetch])
      | (subst hs; simp [RunPc.postFetch])
  | cons i => obtain ⟨pc, b, _, rfl⟩ := consStep_shape hs; exact ⟨rfl, hpf⟩
  | reply b =>
    simp only [step, replyStep] at hs
    cases hr : s.run <;> simp [RunPc.postFetch, hr] at hpf <;> simp [hr] at hs
  | _ => simp [Lbl.internal] at hl

theorem good_path {v : Variant} {ok : Bool} {s t : St} (p : IntPath v ok s t) (hpf : s.run.postFetch = true) :
    t.good = s.good ∧ t.run.postFetch = true := by
  induction p with
  | refl s => exact ⟨rfl, hpf⟩
  | head l hl hs _ ih =>
    obtain ⟨h1, h2⟩ := good_step hl hs hpf
    obtain ⟨h3, h4⟩ := ih h2
    exact ⟨h3.trans h1, h4⟩

/-! ### a renewal in flight does not block readers -/

/-- Paths made of consumer statements only (no statement of Run, no issuer answer). -/
inductive ConsPath (v : Variant) : St → St → Prop where
  | refl (s : St) : ConsPath v s s
  | head {s t u : St} (i : Nat) : step v s (.cons i) = some t → ConsPath v t u → ConsPath v s u

/-- Results held in `t` were already held in `s0` or are `s0`'s current SVID. -/
def ReadOld (s0 t : St) : Prop :=
  ∀ (i : Nat) (r : Option Nat), (t.cons[i]? = some (.gUnlock r) ∨ t.cons[i]? = some (.gDone r)) →
    (s0.cons[i]? = some (.gUnlock r) ∨ s0.cons[i]? = some (.gDone r)) ∨ r = s0.svid

theorem readOld_step {s0 s t : St} {j : Nat} (h : ReadOld s0 s) (hsv : s.svid = s0.svid)
    (hs : step .fixed s (.cons j) = some t) : ReadOld s0 t ∧ t.svid = s0.svid ∧ t.run = s.run := by
  obtain ⟨pc, b, hj, rfl, hcase⟩ := consStep_fixed_cases hs
  refine ⟨?_, hsv, rfl⟩
  intro i r hir
  by_cases hij : j = i
  · subst hij
    have hlt : j < s.cons.length := (List.getElem?_eq_some_iff.mp hj).1
    simp only [List.getElem?_set_self hlt, Option.some.injEq] at hir
    rcases hcase with ⟨_, rfl, _⟩ | ⟨_, rfl, _⟩ | ⟨_, rfl, _⟩ | ⟨_, rfl, _⟩ | ⟨_, rfl⟩ | ⟨r', hpc, rfl⟩
    · simp at hir
    · simp at hir
    · simp at hir
    · simp at hir
    · simp at hir; exact Or.inr (hir ▸ hsv.symm ▸ rfl)
    · simp at hir; subst hir; exact h j r' (Or.inl (hpc ▸ hj))
  · have : (s.cons.set j b)[i]? = s.cons[i]? := List.getElem?_set_ne hij
    simp only [this] at hir
    exact h i r hir

theorem cons_only_progress : ∀ (n : Nat) (s0 s : St), sumBy consRank s.cons ≤ n → BaseInv s → FixedInv s →
    s.run = .rotFetch → ReadOld s0 s → s.svid = s0.svid →
    ∃ t, ConsPath .fixed s t ∧ t.allReturned = true ∧ t.run = .rotFetch ∧ t.svid = s0.svid ∧ ReadOld s0 t ∧
      t.cons.length = s.cons.length := by
  intro n
  induction n with
  | zero =>
    intro s0 s hn hb hf hrun hro hsv
    cases hall : s.allReturned
    · -- some consumer is not returned but the measure is 0: impossible
      have : ∃ a ∈ s.cons, a.returned = false := by
        simp only [St.allReturned] at hall
        obtain ⟨a, ha, hna⟩ := List.all_eq_false.mp hall
        exact ⟨a, ha, by simpa using hna⟩
      obtain ⟨a, ham, hna⟩ := this
      obtain ⟨i, hi⟩ := List.getElem?_of_mem ham
      have := sumBy_ge_of_getElem consRank s.cons i a hi
      rcases not_returned_cases hna with h | h | h | h | h | ⟨r, h⟩ <;> subst h <;> simp [consRank] at this <;> omega
    · exact ⟨s, .refl s, hall, hrun, hsv, hro, rfl⟩
  | succ n ih =>
    intro s0 s hn hb hf hrun hro hsv
    cases hall : s.allReturned
    · have : ∃ a ∈ s.cons, a.returned = false := by
        simp only [St.allReturned] at hall
        obtain ⟨a, ha, hna⟩ := List.all_eq_false.mp hall
        exact ⟨a, ha, by simpa using hna⟩
      obtain ⟨a, ham, hna⟩ := this
      obtain ⟨i, hi⟩ := List.getElem?_of_mem ham
      have hready : s.ready = true := by rw [hb.ready, hrun]; rfl
      have hcan : s.canRLock = true := by simp only [St.canRLock, hb.held, hb.pend, hrun]; rfl
      have hen : (a = .gHold ∨ ∃ r, a = .gUnlock r) ∨
          (s.ready = true ∧ (a = .yWait ∨ a = .gCall ∨ a = .gHoldWait)) ∨
          (s.canRLock = true ∧ a = .gPassed) := by
        rcases not_returned_cases hna with h | h | h | h | h | h
        · exact Or.inr (Or.inl ⟨hready, Or.inl h⟩)
        · exact Or.inr (Or.inl ⟨hready, Or.inr (Or.inl h)⟩)
        · exact Or.inr (Or.inl ⟨hready, Or.inr (Or.inr h)⟩)
        · exact Or.inr (Or.inr ⟨hcan, h⟩)
        · exact Or.inl (Or.inl h)
        · exact Or.inl (Or.inr h)
      obtain ⟨t, ht, hlt⟩ := cons_progress hi hen
      obtain ⟨hro', hsv', hrun'⟩ := readOld_step hro hsv ht
      have hlen : t.cons.length = s.cons.length := by
        obtain ⟨pc, b, _, rfl⟩ := consStep_shape ht; simp
      have hmeas : sumBy consRank t.cons ≤ n := by
        simp only [total, hrun'] at hlt; omega
      obtain ⟨u, hp, hu⟩ := ih s0 t hmeas (baseInv_step .fixed hb ht) (fixedInv_step hb hf ht) (hrun' ▸ hrun) hro' hsv'
      exact ⟨u, .head i ht hp, hu.1, hu.2.1, hu.2.2.1, hu.2.2.2.1, by rw [hu.2.2.2.2, hlen]⟩
    · exact ⟨s, .refl s, hall, hrun, hsv, hro, rfl⟩

/-! ### the deadlock of the code before the repair -/

/-- `GetX509SVID` took the read lock and waits for `readyCh`; `Run` won the CAS, announced itself as
writer and waits for the reader to leave. -/
def deadlockState : St :=
  { running := true, readers := 1, wPend := true, run := .pendLock, cons := [.gHoldWait] }

structure Stuck (s : St) : Prop where
  run : s.run = .pendLock
  get : s.cons[0]? = some .gHoldWait
  notReady : s.ready = false

theorem stuck_step {s t : St} {l : Lbl} (hb : BaseInv s) (h : Stuck s) (hs : step .cur s l = some t) :
    Stuck t := by
  obtain ⟨hrun, hget, hnr⟩ := h
  have hne : s.cons ≠ [] := by intro h; rw [h] at hget; simp at hget
  cases l with
  | callRun => simp [step, hrun] at hs
  | callReady =>
    simp only [step, Option.some.injEq] at hs
    subst hs
    refine ⟨hrun, ?_, hnr⟩
    cases hc : s.cons with
    | nil => exact absurd hc hne
    | cons a l => rw [hc] at hget; simpa using hget
  | callGet =>
    simp only [step, Option.some.injEq] at hs
    subst hs
    refine ⟨hrun, ?_, hnr⟩
    cases hc : s.cons with
    | nil => exact absurd hc hne
    | cons a l => rw [hc] at hget; simpa using hget
  | runLoser =>
    simp only [step] at hs
    split at hs <;> simp at hs
    subst hs
    exact ⟨hrun, hget, hnr⟩
  | ctxDone i =>
    simp only [step] at hs
    split at hs <;> simp at hs
    subst hs
    rename_i hi
    have hi0 : i ≠ 0 := by intro h0; subst h0; rw [hget] at hi; cases hi
    exact ⟨hrun, by simp [List.getElem?_set_ne hi0, hget], hnr⟩
  | stop => simp [step, hrun] at hs
  | cancelRun =>
    simp only [step, Option.some.injEq] at hs
    subst hs
    exact ⟨hrun, hget, hnr⟩
  | renew => simp [step, hrun] at hs
  | reply ok => simp [step, replyStep, hrun] at hs
  | run =>
    have h1 : 1 ≤ sumBy holdsR s.cons := sumBy_ge_of_getElem holdsR s.cons 0 _ hget
    have h2 := hb.readers
    have : s.readers ≠ 0 := by omega
    simp [step, runStep, hrun, this] at hs
  | cons i =>
    by_cases hi0 : i = 0
    · subst hi0
      simp [step, consStep, hget, hnr] at hs
    · obtain ⟨pc, b, _, rfl⟩ := consStep_shape hs
      exact ⟨hrun, by simp [List.getElem?_set_ne hi0, hget], hnr⟩

end Kit.Spiffe
