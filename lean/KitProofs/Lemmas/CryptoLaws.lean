/-
Laws of the concrete executable crypto specifications (`KitModel/Crypto`), proved of the very
definitions the driver runs:

* `xorKS` (CTR-mode xor with a key stream) is length preserving and an involution;
* AES-GCM, ChaCha20-Poly1305, XChaCha20-Poly1305: `open k n (seal k n p ad) ad = some p`,
  `|seal k n p ad| = |p| + 16`;
* RFC 3394: `kwUnwrapWith dec (kwWrapWith enc cek) = some cek` for any 16-byte block function with
  `dec (enc b) = b`; instantiated to `kwUnwrap kek (kwWrap kek cek) = some cek` under the hypothesis
  that AES decryption inverts AES encryption under `kek` (not proved here).

These show that the abstract `open ∘ seal = id` hypotheses used by the framing proofs (C01/C03)
are satisfiable by the functions the driver executes.  Nothing here is about cryptographic strength.
-/
import KitModel.Crypto.Gcm
import KitModel.Crypto.ChaCha
import KitModel.Crypto.KeyWrap

namespace Kit.Crypto

/-! ### xor with a key stream -/

theorem xorKS_length (ks : ByteArray) (p : Bytes) : (xorKS ks p).length = p.length := by
  simp [xorKS]

theorem xorKS_involutive (ks : ByteArray) (p : Bytes) : xorKS ks (xorKS ks p) = p := by
  apply List.ext_getElem
  · simp [xorKS]
  · intro i h1 h2
    simp [xorKS, UInt8.xor_assoc]

theorem xorBytes_length (a b : Bytes) : (xorBytes a b).length = a.length := xorKS_length _ _

theorem xorBytes_involutive (a b : Bytes) : xorBytes (xorBytes a b) b = a := xorKS_involutive _ _

/-- Splitting `c ‖ t` at `|c ‖ t| - |t|` gives back `c` and `t`. -/
theorem take_drop_tag (c t : Bytes) (n : Nat) (ht : t.length = n) :
    (c ++ t).take ((c ++ t).length - n) = c ∧ (c ++ t).drop ((c ++ t).length - n) = t := by
  have : (c ++ t).length - n = c.length := by simp [ht]
  rw [this]
  simp

/-! ### AES-GCM -/

theorem gcmTag_length (k n c ad : Bytes) : (gcmTag k n c ad).length = 16 := by
  simp [gcmTag, be64Bytes]

theorem gcmSeal_length (k n p ad : Bytes) (h : gcmArgsOk k n = true) :
    (gcmSeal k n p ad).length = p.length + 16 := by
  simp [gcmSeal, h, xorKS_length, gcmTag_length]

theorem gcmOpen_gcmSeal (k n p ad : Bytes) (h : gcmArgsOk k n = true) :
    gcmOpen k n (gcmSeal k n p ad) ad = some p := by
  simp [gcmOpen, gcmSeal, h, xorKS_length, gcmTag_length, xorKS_involutive]

/-- A changed tag, ciphertext or associated data is rejected unless the recomputed tag collides
(the explicit no-forgery side condition; nothing is claimed about how likely a collision is). -/
theorem gcmOpen_none_of_tag_ne (k n x ad : Bytes)
    (h : gcmTag k n (x.take (x.length - 16)) ad ≠ x.drop (x.length - 16)) :
    gcmOpen k n x ad = none := by
  simp [gcmOpen, h]

/-! ### ChaCha20-Poly1305 and XChaCha20-Poly1305 -/

theorem chachaTag_length (k n c ad : Bytes) : (chachaTag k n c ad).length = 16 := by
  simp [chachaTag, ChaCha.poly1305]

theorem chacha20Poly1305Seal_length (k n p ad : Bytes) (hk : k.length = 32) (hn : n.length = 12) :
    (chacha20Poly1305Seal k n p ad).length = p.length + 16 := by
  simp [chacha20Poly1305Seal, hk, hn, xorKS_length, chachaTag_length]

theorem chacha20Poly1305Open_Seal (k n p ad : Bytes) (hk : k.length = 32) (hn : n.length = 12) :
    chacha20Poly1305Open k n (chacha20Poly1305Seal k n p ad) ad = some p := by
  simp [chacha20Poly1305Open, chacha20Poly1305Seal, hk, hn, xorKS_length, chachaTag_length,
    xorKS_involutive]

theorem xchachaSubkey_length (k n : Bytes) : (xchachaSubkey k n).length = 32 := by
  simp [xchachaSubkey, ChaCha.hchacha20, le32Bytes]

theorem xchachaNonce_length (n : Bytes) (hn : n.length = 24) : (xchachaNonce n).length = 12 := by
  simp [xchachaNonce, zeros, hn]

theorem xchacha20Poly1305Seal_length (k n p ad : Bytes) (hk : k.length = 32) (hn : n.length = 24) :
    (xchacha20Poly1305Seal k n p ad).length = p.length + 16 := by
  simp [xchacha20Poly1305Seal, hk, hn,
    chacha20Poly1305Seal_length _ _ p ad (xchachaSubkey_length k n) (xchachaNonce_length n hn)]

theorem xchacha20Poly1305Open_Seal (k n p ad : Bytes) (hk : k.length = 32) (hn : n.length = 24) :
    xchacha20Poly1305Open k n (xchacha20Poly1305Seal k n p ad) ad = some p := by
  simp [xchacha20Poly1305Open, xchacha20Poly1305Seal, hk, hn,
    chacha20Poly1305Open_Seal _ _ p ad (xchachaSubkey_length k n) (xchachaNonce_length n hn)]

/-! ### RFC 3394 key wrap -/

theorem flatten_length_of_blocks (R : List Bytes) (h : ∀ b ∈ R, b.length = 8) :
    R.flatten.length = 8 * R.length := by
  induction R with
  | nil => simp
  | cons b R ih =>
    have hb : b.length = 8 := h b (by simp)
    have := ih (fun x hx => h x (by simp [hx]))
    simp [hb, this]; omega

theorem chunksN_flatten (R : List Bytes) (h : ∀ b ∈ R, b.length = 8) :
    chunksN R.length R.flatten = R := by
  induction R with
  | nil => simp [chunksN]
  | cons b R ih =>
    have hb : b.length = 8 := h b (by simp)
    have := ih (fun x hx => h x (by simp [hx]))
    simp only [List.length_cons, chunksN, List.flatten_cons, List.take_left' hb,
      List.drop_left' hb, this]

theorem chunks8_flatten (R : List Bytes) (h : ∀ b ∈ R, b.length = 8) : chunks8 R.flatten = R := by
  unfold chunks8
  rw [flatten_length_of_blocks R h]
  simpa using chunksN_flatten R h

theorem chunksN_spec (n : Nat) (l : Bytes) (h : l.length = 8 * n) :
    (chunksN n l).flatten = l ∧ (∀ b ∈ chunksN n l, b.length = 8) ∧ (chunksN n l).length = n := by
  induction n generalizing l with
  | zero => simp [chunksN]; simpa using h
  | succ n ih =>
    have hd : (l.drop 8).length = 8 * n := by simp; omega
    obtain ⟨h1, h2, h3⟩ := ih (l.drop 8) hd
    refine ⟨?_, ?_, ?_⟩
    · simp [chunksN, h1]
    · intro b hb
      simp [chunksN] at hb
      rcases hb with rfl | hb
      · simp; omega
      · exact h2 b hb
    · simp [chunksN, h3]

/-- Invariant of the wrap state: `A` and every `R_i` are 8 bytes. -/
def KwInv (s : KwState) : Prop := s.1.length = 8 ∧ ∀ b ∈ s.2, b.length = 8

section
variable (enc dec : Bytes → Bytes)
variable (hlen : ∀ b : Bytes, b.length = 16 → (enc b).length = 16)
variable (hinv : ∀ b : Bytes, b.length = 16 → dec (enc b) = b)

/-- The block touched by step `t`: it is 8 bytes and writing it back changes nothing. -/
theorem kw_block (s : KwState) (t : Nat) (hs : KwInv s) (hn : 0 < s.2.length) :
    (s.2.getD ((t - 1) % s.2.length) []).length = 8 ∧
    s.2.set ((t - 1) % s.2.length) (s.2.getD ((t - 1) % s.2.length) []) = s.2 := by
  have hi : (t - 1) % s.2.length < s.2.length := Nat.mod_lt _ hn
  have hr : s.2.getD ((t - 1) % s.2.length) [] = s.2[(t - 1) % s.2.length] := by
    rw [List.getD_eq_getElem?_getD, List.getElem?_eq_getElem hi]; rfl
  rw [hr]
  exact ⟨hs.2 _ (List.getElem_mem hi), List.set_getElem_self hi⟩

include hlen in
theorem kwStep_inv (s : KwState) (t : Nat) (hs : KwInv s) (hn : 0 < s.2.length) :
    KwInv (kwStep enc s t) ∧ (kwStep enc s t).2.length = s.2.length := by
  obtain ⟨hb, -⟩ := kw_block s t hs hn
  obtain ⟨hA, hR⟩ := hs
  simp only [kwStep]
  generalize s.2.getD ((t - 1) % s.2.length) [] = r at hb
  have he := hlen (s.1 ++ r) (by simp [hA, hb])
  refine ⟨⟨?_, ?_⟩, ?_⟩
  · simp only [xorBytes_length, List.length_take, he]; omega
  · intro b hb'
    rcases List.mem_or_eq_of_mem_set hb' with h | h
    · exact hR b h
    · subst h; simp only [List.length_drop, he]
  · simp only [List.length_set]

include hinv in
theorem kwUnstep_kwStep (s : KwState) (t : Nat) (hs : KwInv s) (hn : 0 < s.2.length) :
    kwUnstep dec (kwStep enc s t) t = s := by
  obtain ⟨hb, hset⟩ := kw_block s t hs hn
  obtain ⟨hA, hR⟩ := hs
  have hi : (t - 1) % s.2.length < s.2.length := Nat.mod_lt _ hn
  obtain ⟨a, R⟩ := s
  simp only at hA hR hb hset hi
  simp only [kwUnstep, kwStep, List.length_set, xorBytes_involutive]
  generalize R.getD ((t - 1) % R.length) [] = r at hb hset
  have hd := hinv (a ++ r) (by simp [hA, hb])
  have hget : (R.set ((t - 1) % R.length) (List.drop 8 (enc (a ++ r)))).getD ((t - 1) % R.length) []
      = List.drop 8 (enc (a ++ r)) := by
    rw [List.getD_eq_getElem?_getD, List.getElem?_eq_getElem (by simpa using hi)]
    simp
  rw [hget, List.take_append_drop, hd, List.take_left' hA, List.drop_left' hA, List.set_set, hset]

include hlen in
theorem kwSteps_inv (ts : List Nat) (s : KwState) (hs : KwInv s) (hn : 0 < s.2.length) :
    KwInv (ts.foldl (kwStep enc) s) ∧ (ts.foldl (kwStep enc) s).2.length = s.2.length := by
  induction ts generalizing s with
  | nil => exact ⟨hs, rfl⟩
  | cons t ts ih =>
    obtain ⟨h1, h2⟩ := kwStep_inv enc hlen s t hs hn
    obtain ⟨h3, h4⟩ := ih (kwStep enc s t) h1 (by omega)
    exact ⟨h3, by simpa [h2] using h4⟩

include hlen hinv in
theorem kwUnsteps_kwSteps (ts : List Nat) (s : KwState) (hs : KwInv s) (hn : 0 < s.2.length) :
    ts.reverse.foldl (kwUnstep dec) (ts.foldl (kwStep enc) s) = s := by
  induction ts generalizing s with
  | nil => rfl
  | cons t ts ih =>
    obtain ⟨h1, h2⟩ := kwStep_inv enc hlen s t hs hn
    simp only [List.foldl_cons, List.reverse_cons, List.foldl_append, List.foldl_nil]
    rw [ih (kwStep enc s t) h1 (by omega)]
    exact kwUnstep_kwStep enc dec hinv s t hs hn

include hlen hinv in
/-- RFC 3394 unwrap inverts wrap for every 16-byte block function pair with `dec ∘ enc = id`. -/
theorem kwUnwrapWith_kwWrapWith (cek : Bytes) (h8 : cek.length % 8 = 0) (h16 : 16 ≤ cek.length) :
    kwUnwrapWith dec (kwWrapWith enc cek) = some cek := by
  have hlen8 : cek.length = 8 * (cek.length / 8) := by omega
  obtain ⟨c1, c2, c3⟩ := chunksN_spec (cek.length / 8) cek hlen8
  have hs0 : KwInv (kwIV, chunks8 cek) := ⟨by simp [kwIV], c2⟩
  have hn0 : 0 < (kwIV, chunks8 cek).2.length := by
    show 0 < (chunksN (cek.length / 8) cek).length
    rw [c3]; omega
  obtain ⟨⟨hA, hR⟩, hL⟩ := kwSteps_inv enc hlen (kwSteps (chunks8 cek).length) _ hs0 hn0
  have hback := kwUnsteps_kwSteps enc dec hlen hinv (kwSteps (chunks8 cek).length) _ hs0 hn0
  generalize hS : (kwSteps (chunks8 cek).length).foldl (kwStep enc) (kwIV, chunks8 cek) = S at *
  obtain ⟨A, R⟩ := S
  simp only at hA hR hL
  have hRl : R.length = cek.length / 8 := by rw [hL]; exact c3
  have hfl := flatten_length_of_blocks R hR
  have hwl : (A ++ R.flatten).length = 8 + 8 * R.length := by simp [hA, hfl]
  have htake : (A ++ R.flatten).take 8 = A := List.take_left' hA
  have hdrop : (A ++ R.flatten).drop 8 = R.flatten := List.drop_left' hA
  unfold kwUnwrapWith kwWrapWith
  simp only [hS, hwl, htake, hdrop, chunks8_flatten R hR]
  have hcond : ((8 + 8 * R.length) % 8 == 0 && decide (8 + 8 * R.length ≥ 24)) = true := by
    simp; omega
  rw [if_pos hcond, hL, hback]
  show (if (kwIV == kwIV) = true then some (chunks8 cek).flatten else none) = some cek
  simp [chunks8, c1]
end

/-- `aesEncryptBlock` returns 16 bytes for valid sizes. -/
theorem aesEncryptBlock_length (k b : Bytes) (hk : validAesKeyLen k.length = true)
    (hb : b.length = 16) : (aesEncryptBlock k b).length = 16 := by
  simp [aesEncryptBlock, hk, hb, Aes.W4.toBytes, be32Bytes]

/-- RFC 3394 round trip for the AES instantiation, given that AES decryption inverts AES
encryption under `kek` on 16-byte blocks (a fact about `Aes.encryptW/decryptW` that is tested —
`Vectors.lean`, `cryptodiff` — but not proved). -/
theorem kwUnwrap_kwWrap (kek cek : Bytes) (hk : validAesKeyLen kek.length = true)
    (h8 : cek.length % 8 = 0) (h16 : 16 ≤ cek.length)
    (haes : ∀ b : Bytes, b.length = 16 → aesDecryptBlock kek (aesEncryptBlock kek b) = b) :
    kwUnwrap kek (kwWrap kek cek) = some cek := by
  have hc : (validAesKeyLen kek.length && cek.length % 8 == 0 && decide (cek.length ≥ 16)) = true := by
    simp [hk, h8]; omega
  unfold kwUnwrap kwWrap
  rw [if_pos hk, if_pos hc]
  exact kwUnwrapWith_kwWrapWith _ _ (fun b hb => aesEncryptBlock_length kek b hk hb) haes cek h8 h16

/-! ### the hypotheses are satisfiable (non-trivial instances, evaluated) -/

example : gcmArgsOk (List.replicate 32 7) (List.replicate 12 9) = true := by decide
example : ∃ k n : Bytes, k.length = 32 ∧ n.length = 12 := ⟨List.replicate 32 1, List.replicate 12 2, rfl, rfl⟩
example : ∃ k n : Bytes, k.length = 32 ∧ n.length = 24 := ⟨List.replicate 32 1, List.replicate 24 2, rfl, rfl⟩
/-- The abstract block-function hypotheses of `kwUnwrapWith_kwWrapWith` hold e.g. for a byte-wise
involution (so the theorem is not vacuous independently of AES). -/
example : ∃ enc dec : Bytes → Bytes, (∀ b, b.length = 16 → (enc b).length = 16) ∧
    (∀ b, b.length = 16 → dec (enc b) = b) :=
  ⟨List.map (· ^^^ 0x5a), List.map (· ^^^ 0x5a), by simp, by
    intro b _; simp [List.map_map, Function.comp_def, UInt8.xor_assoc]⟩

end Kit.Crypto
