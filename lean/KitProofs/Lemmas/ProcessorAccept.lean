import KitModel.ProcessorAccept
import KitProofs.Lemmas.Processor
/-!
Soundness of the trace acceptor of `KitModel/ProcessorAccept.lean`: every state in the simulation's
final set is reached by an explicit sequence of labels (`Exec`), which lifts to a real run of `step`
(with the ghost history) from the initial state, and whose visible labels are the events.
-/
namespace Kit.Processor
open Kit.Queue

set_option linter.unusedSectionVars false

variable {κ ν : Type} [DecidableEq κ] [DecidableEq ν]

/-! ### stripping the ghost history commutes with `step` -/

theorem strip_strip (s : State κ ν) : strip (strip s) = strip s := rfl

theorem step_strip (cfg : Cfg) (s : State κ ν) (l : Label κ ν) :
    (step cfg (strip s) l).map strip = (step cfg s l).map strip := by
  obtain ⟨q, token, reset, stopped, stopClosed, pc, cpc, now, nextId, log, timer, readAt, armAt, root⟩ := s
  have hs : strip (κ := κ) (ν := ν) ⟨q, token, reset, stopped, stopClosed, pc, cpc, now, nextId, log, timer, readAt, armAt, root⟩ =
      ⟨q, token, reset, stopped, stopClosed, pc, cpc, now, nextId, [], timer, 0, 0, root⟩ := rfl
  rw [hs]
  cases l <;> simp only [step] <;> (try (cases pc <;> simp only [])) <;>
    (repeat' split) <;> (try rfl) <;> (cases token <;> simp_all [process, strip]) <;> (try split) <;> simp_all

/-! ### declarative meaning of acceptance -/

/-- `Exec cfg fr s tr ls t`: starting in `s` with the loop held iff `fr`, the labels `ls` lead to
`t` (history stripped after every step) and explain the events `tr`: hidden labels anywhere, one
candidate label per action event, no label for an observation that holds of the current state. -/
inductive Exec (cfg : Cfg) : Bool → State κ ν → List (Obs κ ν) → List (Label κ ν) → State κ ν → Prop
  | done (fr : Bool) (s : State κ ν) : Exec cfg fr s [] [] (strip s)
  | hid {fr : Bool} {s s' t : State κ ν} {l : Label κ ν} {tr : List (Obs κ ν)} {ls : List (Label κ ν)} :
      l ∈ hiddenLabels fr → step cfg s l = some s' → Exec cfg fr (strip s') tr ls t →
      Exec cfg fr s tr (l :: ls) t
  | act {fr : Bool} {s s' t : State κ ν} {e : Obs κ ν} {l : Label κ ν} {tr : List (Obs κ ν)}
      {ls : List (Label κ ν)} :
      some l ∈ evCands cfg e s → step cfg s l = some s' →
      Exec cfg (nextFrozen cfg fr e) (strip s') tr ls t → Exec cfg fr s (e :: tr) (l :: ls) t
  | see {fr : Bool} {s t : State κ ν} {e : Obs κ ν} {tr : List (Obs κ ν)} {ls : List (Label κ ν)} :
      none ∈ evCands cfg e s → Exec cfg (nextFrozen cfg fr e) (strip s) tr ls t →
      Exec cfg fr s (e :: tr) ls t

/-- A path of hidden steps (stripped after each). -/
inductive HidPath (cfg : Cfg) (fr : Bool) : State κ ν → List (Label κ ν) → State κ ν → Prop
  | refl (s : State κ ν) : HidPath cfg fr s [] s
  | cons {s s' t : State κ ν} {l : Label κ ν} {ls : List (Label κ ν)} :
      l ∈ hiddenLabels fr → Processor.step cfg s l = some s' → HidPath cfg fr (strip s') ls t →
      HidPath cfg fr s (l :: ls) t

theorem HidPath.snoc {cfg : Cfg} {fr : Bool} {s t u : State κ ν} {ls : List (Label κ ν)} {l : Label κ ν}
    (h : HidPath cfg fr s ls t) (hl : l ∈ hiddenLabels fr) (hst : Processor.step cfg t l = some u) :
    HidPath cfg fr s (ls ++ [l]) (strip u) := by
  induction h with
  | refl s => exact HidPath.cons hl hst (HidPath.refl _)
  | cons h1 h2 _ ih => exact HidPath.cons h1 h2 (ih hst)

theorem HidPath.exec {cfg : Cfg} {fr : Bool} {s u t : State κ ν} {hs ls : List (Label κ ν)}
    {tr : List (Obs κ ν)} (h : HidPath cfg fr s hs u) (he : Exec cfg fr u tr ls t) :
    Exec cfg fr s tr (hs ++ ls) t := by
  induction h with
  | refl s => exact he
  | cons h1 h2 _ ih => exact Exec.hid h1 h2 (ih he)

/-! ### the closure is sound -/

theorem mem_of_mem_dedup {xs : List (State κ ν)} {x : State κ ν} (h : x ∈ dedup xs) : x ∈ xs := by
  unfold dedup at h
  have key : ∀ (ys acc : List (State κ ν)), x ∈ ys.foldl (fun acc x => if acc.contains x then acc else acc ++ [x]) acc →
      x ∈ acc ∨ x ∈ ys := by
    intro ys
    induction ys with
    | nil => intro acc h; exact Or.inl h
    | cons y ys ih =>
      intro acc h
      simp only [List.foldl_cons] at h
      rcases ih _ h with h1 | h1
      · split at h1
        · exact Or.inl h1
        · rcases List.mem_append.mp h1 with h2 | h2
          · exact Or.inl h2
          · simp at h2; exact Or.inr (by simp [h2])
      · exact Or.inr (List.mem_cons_of_mem _ h1)
  rcases key xs [] h with h1 | h1
  · simp at h1
  · exact h1

/-- Reachable from the set `base` by hidden steps. -/
def HidReach (cfg : Cfg) (fr : Bool) (base : List (State κ ν)) (x : State κ ν) : Prop :=
  ∃ u ∈ base, ∃ hs, HidPath cfg fr (strip u) hs x

theorem hidReach_succ {cfg : Cfg} {fr : Bool} {base : List (State κ ν)} {x y : State κ ν}
    (hx : HidReach cfg fr base x) (hy : y ∈ hiddenSucc cfg fr x) : HidReach cfg fr base y := by
  obtain ⟨u, hu, hs, hp⟩ := hx
  unfold hiddenSucc at hy
  simp only [List.mem_filterMap] at hy
  obtain ⟨l, hl, hst⟩ := hy
  cases hstep : step cfg x l with
  | none => simp [hstep] at hst
  | some x' =>
    simp [hstep] at hst
    subst hst
    exact ⟨u, hu, hs ++ [l], hp.snoc hl hstep⟩

theorem closureFuel_sound {cfg : Cfg} {fr : Bool} {base : List (State κ ν)} :
    ∀ (fuel : Nat) (seen frontier : List (State κ ν)),
      (∀ x ∈ seen, HidReach cfg fr base x) → (∀ x ∈ frontier, HidReach cfg fr base x) →
      ∀ t ∈ closureFuel cfg fr fuel seen frontier, HidReach cfg fr base t := by
  intro fuel
  induction fuel with
  | zero => intro seen _ hs _ t ht; exact hs t ht
  | succ fuel ih =>
    intro seen frontier hs hf t ht
    simp only [closureFuel] at ht
    have hfresh : ∀ x ∈ (dedup (frontier.flatMap (hiddenSucc cfg fr))).filter (fun s => !seen.contains s),
        HidReach cfg fr base x := by
      intro x hx
      have hx1 := mem_of_mem_dedup (List.mem_filter.mp hx).1
      obtain ⟨f, hfm, hxf⟩ := List.mem_flatMap.mp hx1
      exact hidReach_succ (hf f hfm) hxf
    split at ht
    · exact hs t ht
    · apply ih _ _ _ hfresh t ht
      intro x hx
      rcases List.mem_append.mp hx with h1 | h1
      · exact hs x h1
      · exact hfresh x h1

theorem closure_sound {cfg : Cfg} {fr : Bool} {ss : List (State κ ν)} {t : State κ ν}
    (ht : t ∈ closure cfg fr ss) : HidReach cfg fr ss t := by
  unfold closure at ht
  have hbase : ∀ x ∈ dedup (ss.map strip), HidReach cfg fr ss x := by
    intro x hx
    obtain ⟨u, hu, rfl⟩ := List.mem_map.mp (mem_of_mem_dedup hx)
    exact ⟨u, hu, [], HidPath.refl _⟩
  exact closureFuel_sound 64 _ _ hbase hbase t ht

/-! ### the simulation is sound -/

theorem simRun_sound (cfg : Cfg) : ∀ (tr : List (Obs κ ν)) (sim : Sim κ ν) (t : State κ ν),
    t ∈ (simRun cfg sim tr).states → ∃ s0 ∈ sim.states, ∃ ls, Exec cfg sim.frozen s0 tr ls (strip t) := by
  intro tr
  induction tr with
  | nil =>
    intro sim t ht
    exact ⟨t, ht, [], Exec.done _ _⟩
  | cons e tr ih =>
    intro sim t ht
    simp only [simRun, List.foldl_cons] at ht
    obtain ⟨s1, hs1, ls, hex⟩ := ih (simStep cfg sim e) t ht
    simp only [simStep] at hs1 hex
    obtain ⟨u, hu, hs, hp⟩ := closure_sound hs1
    obtain ⟨s0, hs0, hu0⟩ := List.mem_flatMap.mp hu
    refine ⟨s0, hs0, ?_⟩
    unfold evSucc at hu0
    obtain ⟨c, hc, hcu⟩ := List.mem_filterMap.mp hu0
    cases c with
    | none =>
      simp at hcu
      subst hcu
      exact ⟨hs ++ ls, Exec.see hc (hp.exec hex)⟩
    | some l =>
      cases hstep : step cfg s0 l with
      | none => simp [hstep] at hcu
      | some s' =>
        simp [hstep] at hcu
        subst hcu
        rw [strip_strip] at hp
        exact ⟨l :: (hs ++ ls), Exec.act hc hstep (hp.exec hex)⟩

/-! ### from `Exec` to a real run -/

/-- Run labels, stripping the history after every step. -/
def runS (cfg : Cfg) (s : State κ ν) : List (Label κ ν) → Option (State κ ν)
  | [] => some (strip s)
  | l :: ls => (step cfg s l).bind fun s' => runS cfg (strip s') ls

theorem runS_strip (cfg : Cfg) : ∀ (ls : List (Label κ ν)) (s : State κ ν),
    runS cfg (strip s) ls = runS cfg s ls := by
  intro ls
  induction ls with
  | nil => intro s; rfl
  | cons l ls ih =>
    intro s
    simp only [runS]
    have h := step_strip cfg s l
    cases h1 : step cfg (strip s) l <;> cases h2 : step cfg s l <;> simp [h1, h2] at h ⊢
    rw [h]

theorem exec_runS {cfg : Cfg} {fr : Bool} {s t : State κ ν} {tr : List (Obs κ ν)} {ls : List (Label κ ν)}
    (h : Exec cfg fr s tr ls t) : runS cfg s ls = some t := by
  induction h with
  | done fr s => rfl
  | hid _ hst _ ih => simp [runS, hst, ih]
  | act _ hst _ ih => simp [runS, hst, ih]
  | see _ _ ih => rw [runS_strip] at ih; exact ih

theorem runS_lift (cfg : Cfg) : ∀ (ls : List (Label κ ν)) (s t : State κ ν),
    runS cfg s ls = some t → ∃ s', runFrom cfg s ls = some s' ∧ strip s' = t := by
  intro ls
  induction ls with
  | nil => intro s t h; simp [runS] at h; exact ⟨s, rfl, h⟩
  | cons l ls ih =>
    intro s t h
    simp only [runS] at h
    cases hst : step cfg s l with
    | none => simp [hst] at h
    | some s1 =>
      simp only [hst, Option.bind_some] at h
      rw [runS_strip] at h
      obtain ⟨s', hr, hs⟩ := ih s1 t h
      exact ⟨s', by simp [runFrom, hst, hr], hs⟩

/-! ### the visible labels are the events -/

/-- Events that stand for a step (the others observe the state). -/
def Obs.isAction : Obs κ ν → Bool
  | .park _ _ | .unpark | .quiet => false
  | _ => true

/-- Labels that the harness logs. -/
def Label.isVisible : Label κ ν → Bool
  | .enqueue .. | .dequeue .. | .advance _ | .arm | .closeBegin | .closeReturn | .closeAgain | .peek _
  | .execCheck _ | .cbStart | .cbReturn => true
  | _ => false

/-- The step an action event stands for. -/
def Explains : Obs κ ν → Label κ ν → Prop
  | .enq k t v _ first _, .enqueue k' t' v' first' => k = k' ∧ t = t' ∧ v = v' ∧ first = first'
  | .deq k first _, .dequeue k' first' => k = k' ∧ first = first'
  | .adv t, .advance t' => t = t'
  | .newtimer _ _, .arm => True
  | .peeked (some id), .peek (some r) => r.id = id
  | .peeked none, .peek none => True
  | .popped id, .execCheck (some r) => r.id = id
  | .stale _, .execCheck _ => True
  | .exec _ _ _ _, .cbStart => True
  | .ret _, .cbReturn => True
  | .closecall, .closeBegin => True
  | .closeret, .closeReturn => True
  | .closeret2, .closeAgain => True
  | _, _ => False

theorem hidden_not_visible {fr : Bool} {l : Label κ ν} (h : l ∈ hiddenLabels fr) : l.isVisible = false := by
  unfold hiddenLabels at h
  cases fr
  · simp at h
    rcases h with h | h | h | h | h | h | h | h | h | h <;> subst h <;> rfl
  · simp at h
    rcases h with h | h <;> subst h <;> rfl

theorem cand_explains {cfg : Cfg} {e : Obs κ ν} {s : State κ ν} {l : Label κ ν}
    (h : some l ∈ evCands cfg e s) : e.isAction = true ∧ l.isVisible = true ∧ Explains e l := by
  cases e <;> simp only [evCands] at h
  case enq k t v id first out => split at h <;> simp at h; subst h; simp [Obs.isAction, Label.isVisible, Explains]
  case deq k first out => split at h <;> simp at h; subst h; simp [Obs.isAction, Label.isVisible, Explains]
  case adv t => simp at h; subst h; simp [Obs.isAction, Label.isVisible, Explains]
  case newtimer dur created =>
    split at h <;> simp at h
    obtain ⟨_, rfl⟩ := h
    simp [Obs.isAction, Label.isVisible, Explains]
  case peeked id =>
    cases id with
    | none => simp at h; subst h; simp [Obs.isAction, Label.isVisible, Explains]
    | some id =>
      simp at h
      obtain ⟨r, ⟨_, hr⟩, rfl⟩ := h
      simp [Obs.isAction, Label.isVisible, Explains, hr]
  case popped id =>
    split at h <;> simp at h
    obtain ⟨hr, rfl⟩ := h
    simp [Obs.isAction, Label.isVisible, Explains, hr]
  case stale id =>
    split at h <;> simp at h
    obtain ⟨_, h⟩ := h
    rcases h with rfl | ⟨a, _, rfl⟩ <;> simp [Obs.isAction, Label.isVisible, Explains]
  case exec id k t now =>
    split at h <;> simp at h
    obtain ⟨_, rfl⟩ := h
    simp [Obs.isAction, Label.isVisible, Explains]
  case ret id =>
    split at h <;> simp at h
    obtain ⟨_, rfl⟩ := h
    simp [Obs.isAction, Label.isVisible, Explains]
  case closecall => simp at h; subst h; simp [Obs.isAction, Label.isVisible, Explains]
  case closeret => simp at h; subst h; simp [Obs.isAction, Label.isVisible, Explains]
  case closeret2 => simp at h; subst h; simp [Obs.isAction, Label.isVisible, Explains]
  case park p id => split at h <;> simp at h
  case unpark => simp at h
  case quiet => split at h <;> simp at h

theorem none_cand_observes {cfg : Cfg} {e : Obs κ ν} {s : State κ ν}
    (h : none ∈ evCands cfg e s) : e.isAction = false := by
  cases e with
  | park p id => rfl
  | unpark => rfl
  | quiet => rfl
  | enq k t v id first out => simp only [evCands] at h; split at h <;> simp at h
  | deq k first out => simp only [evCands] at h; split at h <;> simp at h
  | adv t => simp [evCands] at h
  | newtimer dur created => simp only [evCands] at h; split at h <;> (try split at h) <;> simp at h
  | peeked id => cases id <;> simp [evCands] at h
  | popped id => simp only [evCands] at h; split at h <;> (try split at h) <;> simp at h
  | stale id => simp only [evCands] at h; split at h <;> (try split at h) <;> simp at h
  | exec id k t now => simp only [evCands] at h; split at h <;> (try split at h) <;> simp at h
  | ret id => simp only [evCands] at h; split at h <;> (try split at h) <;> simp at h
  | closecall => simp [evCands] at h
  | closeret => simp [evCands] at h
  | closeret2 => simp [evCands] at h

/-- Pointwise relation between two lists of equal length. -/
inductive Pairs {α β : Type} (R : α → β → Prop) : List α → List β → Prop
  | nil : Pairs R [] []
  | cons {a : α} {b : β} {as : List α} {bs : List β} : R a b → Pairs R as bs → Pairs R (a :: as) (b :: bs)

theorem exec_projection {cfg : Cfg} {fr : Bool} {s t : State κ ν} {tr : List (Obs κ ν)}
    {ls : List (Label κ ν)} (h : Exec cfg fr s tr ls t) :
    Pairs Explains (tr.filter Obs.isAction) (ls.filter Label.isVisible) := by
  induction h with
  | done => exact Pairs.nil
  | hid hl _ _ ih => simp only [List.filter_cons, hidden_not_visible hl]; exact ih
  | act hc _ _ ih =>
    obtain ⟨h1, h2, h3⟩ := cand_explains hc
    simp only [List.filter_cons, h1, h2, ite_true]
    exact Pairs.cons h3 ih
  | see hc _ ih =>
    simp only [List.filter_cons, none_cand_observes hc]
    exact ih

/-! ### what reachable-state invariants say about accepted traces -/

theorem strip_eq_fields {a b : State κ ν} (h : strip a = strip b) :
    a.pc = b.pc ∧ a.now = b.now ∧ a.q = b.q := by
  have h1 : (strip a).pc = (strip b).pc := by rw [h]
  have h2 : (strip a).now = (strip b).now := by rw [h]
  have h3 : (strip a).q = (strip b).q := by rw [h]
  exact ⟨h1, h2, h3⟩

theorem step_lift {cfg : Cfg} {s s0 s' : State κ ν} {l : Label κ ν} (hs : strip s0 = strip s)
    (hst : step cfg s l = some s') : ∃ s0', step cfg s0 l = some s0' ∧ strip s0' = strip s' := by
  have h1 := step_strip cfg s l
  have h2 := step_strip cfg s0 l
  rw [hs, h1, hst] at h2
  cases h3 : step cfg s0 l with
  | none => simp [h3] at h2
  | some s0' => simp [h3] at h2; exact ⟨s0', rfl, h2.symm⟩

/-- Every callback event of an accepted trace satisfies the timing invariant of the repaired model. -/
theorem exec_callbacks_not_early {fr : Bool} {s t : State κ ν} {tr : List (Obs κ ν)} {ls : List (Label κ ν)}
    (h : Exec fixedCfg fr s tr ls t) :
    ∀ s0, Reach (lts fixedCfg) s0 → strip s0 = strip s →
      ∀ id k tm now, Obs.exec id k tm now ∈ tr → tm - halfMs ≤ now ∨ maxDur ≤ now := by
  induction h with
  | done => intro _ _ _ id k tm now hm; simp at hm
  | hid _ hst _ ih =>
    intro s0 hr hs
    obtain ⟨s0', h1, h2⟩ := step_lift hs hst
    exact ih s0' (Reach.step _ hr h1) (by rw [h2, strip_strip])
  | act hc hst _ ih =>
    rename_i fr s s' t e l tr ls
    intro s0 hr hs id k tm now hm
    obtain ⟨s0', h1, h2⟩ := step_lift hs hst
    rcases List.mem_cons.mp hm with he | hm'
    · subst he
      simp only [evCands] at hc
      split at hc <;> simp at hc
      rename_i r hpc
      obtain ⟨⟨_, _, htm, hnow⟩, _⟩ := hc
      obtain ⟨f1, f2, _⟩ := strip_eq_fields hs
      have := invC hr r (Or.inr (by rw [f1, hpc]))
      rw [f2, hnow, htm] at this
      rcases this with h' | h'
      · exact Or.inl (Int.le_of_lt h')
      · exact Or.inr h'
    · exact ih s0' (Reach.step _ hr h1) (by rw [h2, strip_strip]) id k tm now hm'
  | see hc _ ih =>
    intro s0 hr hs id k tm now hm
    rcases List.mem_cons.mp hm with he | hm'
    · subst he
      have := none_cand_observes hc
      simp [Obs.isAction] at this
    · exact ih s0 hr (by rw [hs, strip_strip]) id k tm now hm'

end Kit.Processor
