/-
Zones with daylight-saving transitions of exactly one hour at whole hours (`HourZone`): the wall
clock in terms of the hour-block function `b` (offset in hours of the UTC hour block `k`), its
monotonicity, and what `time.Date` (`goDate`) returns for local times that exist, are missing or
are repeated.
-/
import KitModel.CronSpec
import KitProofs.Lemmas.CronSpecFixed

namespace Kit.CronSpec
open Kit.CronCal

/-- `z` is a zone whose offset is a whole number of hours (`b k` for the UTC hour block `k`,
|b| ≤ 26), changes only between hour blocks, by exactly one hour, and at most once in any stretch
of 1801 hours (75 days); the offset is constant on each period `lookup` reports. -/
structure HourZone (z : Zone) (b : Int → Int) : Prop where
  off_eq : ∀ u, offsetAt z u = 3600 * b (u / 3600)
  bound : ∀ k, -26 ≤ b k ∧ b k ≤ 26
  window : ∀ c, ∃ τ ba bb, (bb = ba ∨ bb = ba + 1 ∨ bb = ba - 1) ∧
    ∀ k, c - 900 ≤ k → k ≤ c + 900 → b k = if k < τ then ba else bb
  look : ∀ u v, (lookup z u).2.1 ≤ v → v < (lookup z u).2.2 → offsetAt z v = (lookup z u).1

/-- Local hour index of the UTC hour block `k`. -/
def lam (b : Int → Int) (k : Int) : Int := k + b k

section
variable {z : Zone} {b : Int → Int} (H : HourZone z b)
include H

theorem localSec_hz (u : Int) : localSec z u = u + 3600 * b (u / 3600) := by
  simp only [localSec, H.off_eq]

theorem hour_hz (u : Int) : hour z u = lam b (u / 3600) % 24 := by
  simp only [hour, localSec_hz H, lam]
  generalize b (u / 3600) = B
  omega

theorem dayNum_hz (u : Int) : dayNum z u = lam b (u / 3600) / 24 := by
  simp only [dayNum, localSec_hz H, lam]
  generalize b (u / 3600) = B
  omega

theorem minute_hz (u : Int) : minute z u = u % 3600 / 60 := by
  simp only [minute, localSec_hz H]
  generalize b (u / 3600) = B
  omega

theorem second_hz (u : Int) : second z u = u % 60 := by
  simp only [second, localSec_hz H]
  generalize b (u / 3600) = B
  omega

/-- Within 900 blocks of `c` the offset is `ba` before some `τ` and `bb` from `τ` on. -/
theorem win (c : Int) : ∃ τ ba bb, (bb = ba ∨ bb = ba + 1 ∨ bb = ba - 1) ∧
    ∀ k, c - 900 ≤ k → k ≤ c + 900 → ((k < τ ∧ b k = ba) ∨ (τ ≤ k ∧ b k = bb)) := by
  obtain ⟨τ, ba, bb, h1, h2⟩ := H.window c
  refine ⟨τ, ba, bb, h1, fun k hk1 hk2 => ?_⟩
  have := h2 k hk1 hk2
  by_cases hlt : k < τ
  · left; rw [if_pos hlt] at this; exact ⟨hlt, this⟩
  · right; rw [if_neg hlt] at this; exact ⟨by omega, this⟩

theorem lam_mono {j k : Int} (h : j ≤ k) : lam b j ≤ lam b k := by
  simp only [lam]
  by_cases hn : k ≤ j + 900
  · obtain ⟨τ, ba, bb, h1, h2⟩ := win H j
    have hj := h2 j (by omega) (by omega)
    have hk := h2 k (by omega) (by omega)
    omega
  · have := H.bound j; have := H.bound k; omega

theorem lam_step (k : Int) : lam b k ≤ lam b (k + 1) ∧ lam b (k + 1) ≤ lam b k + 2 := by
  simp only [lam]
  obtain ⟨τ, ba, bb, h1, h2⟩ := win H k
  have hj := h2 k (by omega) (by omega)
  have hk := h2 (k + 1) (by omega) (by omega)
  omega

theorem lam_strict {j k : Int} (h : j + 2 ≤ k) : lam b j < lam b k := by
  simp only [lam]
  by_cases hn : k ≤ j + 900
  · obtain ⟨τ, ba, bb, h1, h2⟩ := win H j
    have hj := h2 j (by omega) (by omega)
    have hk := h2 k (by omega) (by omega)
    omega
  · have := H.bound j; have := H.bound k; omega

theorem dayNum_mono {u v : Int} (h : u ≤ v) : dayNum z u ≤ dayNum z v := by
  rw [dayNum_hz H, dayNum_hz H]
  have := lam_mono H (j := u / 3600) (k := v / 3600) (by omega)
  omega

/-- `time.Date` on an hour zone: the local reading `L` (as seconds) is resolved with the offset
found at `L` minus the offset found at `L` itself. -/
theorem goDate_hz (y m d h mi s : Int) :
    goDate z y m d h mi s =
      (daysFromCivil (y + (m - 1) / 12) ((m - 1) % 12 + 1) d * 86400 + h * 3600 + mi * 60 + s)
        - offsetAt z ((daysFromCivil (y + (m - 1) / 12) ((m - 1) % 12 + 1) d * 86400 + h * 3600 +
            mi * 60 + s)
          - offsetAt z (daysFromCivil (y + (m - 1) / 12) ((m - 1) % 12 + 1) d * 86400 + h * 3600 +
            mi * 60 + s)) := by
  simp only [goDate]
  generalize daysFromCivil (y + (m - 1) / 12) ((m - 1) % 12 + 1) d * 86400 + h * 3600 + mi * 60 + s = L
  have hb := H.bound (L / 3600)
  have ho : (lookup z L).1 = offsetAt z L := rfl
  have hl := H.look L (L - offsetAt z L)
  by_cases h0 : (lookup z L).1 = 0
  · rw [if_neg (by simpa using h0)]
    rw [ho] at h0
    rw [h0]; simp [h0]
  · rw [if_pos h0]
    rw [ho] at *
    by_cases hin : (lookup z L).2.1 ≤ L - offsetAt z L ∧ L - offsetAt z L < (lookup z L).2.2
    · have := hl hin.1 hin.2
      rw [if_neg (by omega), this]
    · rw [if_pos (by omega)]

/-! ### where `time.Date` lands -/

end

/-- Block index `time.Date` answers for the local hour index `Λs` (minute = second = 0). -/
def land (b : Int → Int) (Λs : Int) : Int := Λs - b (Λs - b Λs)

section
variable {z : Zone} {b : Int → Int} (H : HourZone z b)
include H

theorem goDate_land (y m d h : Int) :
    goDate z y m d h 0 0 =
      3600 * land b (24 * daysFromCivil (y + (m - 1) / 12) ((m - 1) % 12 + 1) d + h) := by
  rw [goDate_hz H]
  generalize daysFromCivil (y + (m - 1) / 12) ((m - 1) % 12 + 1) d = X
  have e1 : X * 86400 + h * 3600 + 0 * 60 + 0 = 3600 * (24 * X + h) := by omega
  rw [e1, H.off_eq (3600 * (24 * X + h))]
  have e2 : 3600 * (24 * X + h) / 3600 = 24 * X + h := by omega
  rw [e2, H.off_eq]
  have e3 : (3600 * (24 * X + h) - 3600 * b (24 * X + h)) / 3600 = 24 * X + h - b (24 * X + h) := by
    omega
  rw [e3]; simp only [land]; omega

/-- A local hour that exists is hit exactly. -/
theorem land_exists {Λs k : Int} (hk : lam b k = Λs) : lam b (land b Λs) = Λs := by
  simp only [lam, land] at *
  obtain ⟨τ, ba, bb, h1, h2⟩ := win H Λs
  have b0 := H.bound Λs
  have b1 := H.bound (Λs - b Λs)
  have b2 := H.bound k
  have w0 := h2 Λs (by omega) (by omega)
  have w1 := h2 (Λs - b Λs) (by omega) (by omega)
  have w2 := h2 (Λs - b (Λs - b Λs)) (by omega) (by omega)
  have wk := h2 k (by omega) (by omega)
  omega

/-- A local hour that does not exist (spring-forward gap): the answer is the block just before the
gap or the block just after it. -/
theorem land_gap {Λs : Int} (hno : ∀ k, lam b k ≠ Λs) :
    (lam b (land b Λs) = Λs + 1 ∧ lam b (land b Λs - 1) = Λs - 1) ∨
    (lam b (land b Λs) = Λs - 1 ∧ lam b (land b Λs + 1) = Λs + 1) := by
  simp only [lam, land] at *
  obtain ⟨τ, ba, bb, h1, h2⟩ := win H Λs
  have b0 := H.bound Λs
  have b1 := H.bound (Λs - b Λs)
  have b2 := H.bound (Λs - b (Λs - b Λs))
  have w0 := h2 Λs (by omega) (by omega)
  have w1 := h2 (Λs - b Λs) (by omega) (by omega)
  have w2 := h2 (Λs - b (Λs - b Λs)) (by omega) (by omega)
  have w2m := h2 (Λs - b (Λs - b Λs) - 1) (by omega) (by omega)
  have w2p := h2 (Λs - b (Λs - b Λs) + 1) (by omega) (by omega)
  have na := hno (Λs - ba)
  have nb := hno (Λs - bb)
  have wa := h2 (Λs - ba) (by omega) (by omega)
  have wb := h2 (Λs - bb) (by omega) (by omega)
  omega

end
end Kit.CronSpec
