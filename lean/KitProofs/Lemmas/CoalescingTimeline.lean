import KitProofs.Lemmas.CoalescingProgress
/-!
Timelines: the signal times of the limiter as an explicit function of when `Add`s happen and where
the clock stops (no cap, prompt consumer, limiter running), and the proof that the LTS — run
"urgently": after every environment event the limiter's own goroutines run until nothing is
enabled — produces exactly those times.
-/
namespace Kit.Coalescing.Timeline
open Kit.Coalescing

/-- Environment events of a timeline. -/
inductive TEv where
  | add            -- an `Add` at the current clock value
  | adv (t : Nat)  -- the clock moves to `t` (ignored if not later than now)
  deriving Repr, DecidableEq

/-- What the statement of C09 talks about: the clock, the open window (its end and the number of
`Add`s that extended it) and whether an `Add` is waiting for the window's end. -/
structure TSt where
  now : Nat := 0
  win : Option (Nat × Nat) := none
  pend : Bool := false
  deriving Repr, DecidableEq

/-- The specification, straight from the property text: an `Add` with no open window is signalled
at once and opens a window of the initial delay; an `Add` inside an open window waits and moves
the window's end to `now + grow (k+1)` (`grow` = `initial`, then `min(max, initial·2^k)`); when the
clock reaches the end of the window, one signal is sent iff something waited, and the window closes.
Result: new state and the clock values of the signals. -/
def specStep (cfg : Config) (st : TSt) : TEv → TSt × List Nat
  | .add =>
    match st.win with
    | none => ({ st with win := some (st.now + cfg.initial, 0), pend := false }, [st.now])
    | some (_, k) => ({ st with win := some (st.now + grow cfg (k + 1), k + 1), pend := true }, [])
  | .adv t =>
    let n := max st.now t
    match st.win with
    | none => ({ st with now := n }, [])
    | some (d, _) =>
      if d ≤ n then ({ now := n, win := none, pend := false }, if st.pend then [n] else [])
      else ({ st with now := n }, [])

def spec (cfg : Config) : TSt → List TEv → List Nat
  | _, [] => []
  | st, ev :: evs => (specStep cfg st ev).2 ++ spec cfg (specStep cfg st ev).1 evs

def specEnd (cfg : Config) : TSt → List TEv → TSt
  | st, [] => st
  | st, ev :: evs => specEnd cfg (specStep cfg st ev).1 evs

/-- The labels of the urgent execution of one event (the environment event, then the limiter's
goroutines until quiescence, the prompt consumer receiving at once). -/
def scriptStep (st : TSt) : TEv → List Label
  | .add =>
    match st.win with
    | none => [.add, .deliver, .top, .consume]
    | some _ => [.add, .deliver, .top]
  | .adv t =>
    let n := max st.now t
    match st.win with
    | none => [.advance n]
    | some (d, _) =>
      if d ≤ n then [.advance n, .expire, .top] ++ (if st.pend then [.consume] else [])
      else [.advance n]

def script (cfg : Config) : TSt → List TEv → List Label
  | _, [] => []
  | st, ev :: evs => scriptStep st ev ++ script cfg (specStep cfg st ev).1 evs

/-- Clock values at which the consumer receives along a run. -/
def recvTimes (cfg : Config) : State → List Label → List Nat
  | _, [] => []
  | s, l :: ls =>
    match step cfg s l with
    | none => []
    | some s' => (if l = .consume then [s.now] else []) ++ recvTimes cfg s' ls

theorem recvTimes_append (cfg : Config) (s s' : State) (a b : List Label)
    (h : exec cfg s a = some s') :
    recvTimes cfg s (a ++ b) = recvTimes cfg s a ++ recvTimes cfg s' b := by
  induction a generalizing s with
  | nil => simp [exec] at h; subst h; simp [recvTimes]
  | cons l a ih =>
    simp only [exec] at h
    cases hst : step cfg s l with
    | none => simp [hst] at h
    | some s1 =>
      simp [hst] at h
      simp [recvTimes, hst, ih s1 h]

theorem grow_pos {cfg : Config} (hv : cfg.valid) (k : Nat) : 0 < grow cfg k := by
  cases k with
  | zero => exact hv.1
  | succ k =>
    simp only [grow]
    have h1 : 0 < cfg.max := Nat.lt_of_lt_of_le hv.1 hv.2.1
    have h2 : 0 < f64OfNat cfg.initial * 2 ^ (k + 1) :=
      Nat.mul_pos (f64_pos hv.1) (Nat.pow_pos (by decide))
    exact Nat.lt_min.2 ⟨h1, h2⟩

/-- The limiter state matches the specification state at a quiescent point. -/
structure Rel (cfg : Config) (st : TSt) (s : State) : Prop where
  reach : Reach cfg s
  now : s.now = st.now
  loop : s.loop = .sel
  tok : s.tokens = 0
  snd : s.senders = 0
  ncl : s.closed = false
  ncan : s.cancelled = false
  tm : s.timer = st.win.map (·.1)
  wk : ∀ d k, st.win = some (d, k) → s.wk = k ∧ s.now < d
  pend : decide (0 < s.pending) = st.pend
  nowin : st.win = none → s.pending = 0
  allRecv : s.consumed = s.fires

/-- Nothing of the limiter can move in a matching state: the urgent execution stops exactly there. -/
theorem Rel.quiescent {cfg : Config} (hv : cfg.valid) {st : TSt} {s : State} (h : Rel cfg st s) :
    ∀ l, l.internal = true → step cfg s l = none := by
  have hcas : s.casDone = true := by
    cases hc : s.casDone with
    | true => rfl
    | false => have := (inv_reach hv s h.reach).cas hc; simp [h.loop] at this
  intro l hl
  cases l <;> simp [Label.internal] at hl <;> simp [step, h.loop, h.tok, h.snd, h.ncl, h.ncan, hcas]
  -- expire: the window's end lies in the future
  cases hw : st.win with
  | none => simp [h.tm, hw]
  | some p =>
    obtain ⟨d, k⟩ := p
    have := (h.wk d k hw).2
    simp [h.tm, hw]; omega


theorem rel_reach_facts {cfg : Config} (hv : cfg.valid) (hn : NoOvf cfg) {s : State}
    (h : Reach cfg s) : s.ovf = false ∧ s.cur = grow cfg s.wk :=
  ⟨(range_reach hv hn s h).1, (winv_reach hv s h (range_reach hv hn s h).1).1⟩

/-- One event of the timeline, executed urgently, keeps the limiter in step with the specification
and makes the consumer receive exactly at the specified clock values. -/
theorem rel_step {cfg : Config} (hv : cfg.valid) (hn : NoOvf cfg) (hcap : cfg.cap = none)
    {st : TSt} {s : State} (h : Rel cfg st s) (ev : TEv) :
    ∃ s', exec cfg s (scriptStep st ev) = some s' ∧ Rel cfg (specStep cfg st ev).1 s' ∧
      recvTimes cfg s (scriptStep st ev) = (specStep cfg st ev).2 := by
  obtain ⟨hreach, hnow, hloop, htok, hsnd, hncl, hncan, htm, hwk, hpend, hnowin, hall⟩ := h
  cases ev with
  | add =>
    cases hw : st.win with
    | none =>
      have htm' : s.timer = none := by simpa [hw] using htm
      have hp0 : s.pending = 0 := hnowin hw
      -- the run
      have hex : exec cfg s [.add, .deliver, .top, .consume] =
          some { s with pending := 0, tokens := 0, adds := s.adds + 1, timer := some (s.now + cfg.initial),
                        armedAt := s.now, wk := 0, fires := s.fires + 1, senders := 0,
                        consumed := s.consumed + 1, loop := .sel } := by
        simp only [exec, step_add_def, hncl]
        simp [step, hloop, htok, hsnd, hp0]
        rw [handleInput_none (by simpa using htm')]
        simp [fire_def, hp0, hsnd, htok]
      refine ⟨_, by simpa [scriptStep, hw] using hex, ?_, ?_⟩
      · have hr := reach_exec _ hreach hex
        refine ⟨hr, ?_, rfl, rfl, rfl, hncl, hncan, ?_, ?_, ?_, ?_, by simp [hall]⟩ <;> simp [specStep, hw, hnow]
        exact hv.1
      · simp only [scriptStep, specStep, hw, recvTimes, step_add_def, hncl]
        simp [step, hloop, htok, hsnd, hp0]
        rw [handleInput_none (by simpa using htm')]
        simp [fire_def, hp0, hsnd, htok, hnow]
    | some p =>
      obtain ⟨d, k⟩ := p
      have htm' : s.timer = some d := by simpa [hw] using htm
      obtain ⟨hk, hd⟩ := hwk d k hw
      have hc : ∀ s0 : State, capReached cfg s0 = false := by intro s0; simp [capReached_def, hcap]
      let b := backoffVals cfg s.cur s.factor
      have hex : exec cfg s [.add, .deliver, .top] =
          some { s with pending := s.pending + 1, tokens := 0, adds := s.adds + 1,
                        cur := b.1, factor := b.2.1, ovf := s.ovf || b.2.2,
                        timer := some (s.now + b.1), armedAt := s.now, wk := s.wk + 1, loop := .sel } := by
        simp only [exec, step_add_def, hncl]
        simp [step, hloop, htok]
        rw [handleInput_ext (d0 := d) (by simpa using htm') (hc _)]
        simp [htok, b]
      have hr := reach_exec _ hreach hex
      obtain ⟨_, hcur⟩ := rel_reach_facts hv hn hr
      simp only [] at hcur
      refine ⟨_, by simpa [scriptStep, hw] using hex, ?_, ?_⟩
      · refine ⟨hr, ?_, rfl, rfl, hsnd, hncl, hncan, ?_, ?_, ?_, ?_, hall⟩
        · simp [specStep, hw, hnow]
        · simp [specStep, hw, hcur, hk, hnow]
        · intro d' k' he
          simp [specStep, hw] at he
          obtain ⟨rfl, rfl⟩ := he
          refine ⟨by simp [hk], ?_⟩
          have := grow_pos hv (k + 1)
          simp [hnow]; omega
        · simp [specStep, hw]
        · simp [specStep, hw]
      · simp only [scriptStep, specStep, hw, recvTimes, step_add_def, hncl]
        simp [step, hloop, htok]
        rw [handleInput_ext (d0 := d) (by simpa using htm') (hc _)]
        simp
  | adv t =>
    have hle : s.now ≤ max st.now t := by rw [hnow]; exact Nat.le_max_left _ _
    cases hw : st.win with
    | none =>
      have hex : exec cfg s [.advance (max st.now t)] = some { s with now := max st.now t } := by
        simp [exec, step, hle]
      refine ⟨_, by simpa [scriptStep, hw] using hex, ?_, ?_⟩
      · refine ⟨reach_exec _ hreach hex, ?_, hloop, htok, hsnd, hncl, hncan, ?_, ?_, ?_, ?_, hall⟩ <;>
          simp [specStep, hw, htm, hnowin]
        have hp0 := hnowin hw
        rw [← hpend]; simp [hp0]
      · simp [scriptStep, specStep, hw, recvTimes, step, hle]
    | some p =>
      obtain ⟨d, k⟩ := p
      have htm' : s.timer = some d := by simpa [hw] using htm
      obtain ⟨hk, hd⟩ := hwk d k hw
      by_cases hexp : d ≤ max st.now t
      · by_cases hp : 0 < s.pending
        · have hpe : st.pend = true := by rw [← hpend]; simp [hp]
          have hex : exec cfg s [.advance (max st.now t), .expire, .top, .consume] =
              some { s with now := max st.now t, pending := 0, cur := cfg.initial, factor := 1,
                            timer := none, wk := 0, fires := s.fires + 1, senders := 0,
                            consumed := s.consumed + 1, loop := .sel } := by
            simp [exec, step, hle, htm', hloop, hexp, handleTimer_def, fire_def, hp, hsnd]
          refine ⟨_, by simpa [scriptStep, hw, hexp, hpe] using hex, ?_, ?_⟩
          · refine ⟨reach_exec _ hreach hex, ?_, rfl, htok, rfl, hncl, hncan, ?_, ?_, ?_, ?_, by simp [hall]⟩ <;>
              simp [specStep, hw, hexp]
          · simp [scriptStep, specStep, hw, hexp, hpe, recvTimes, step, hle, htm', hloop, handleTimer_def,
              fire_def, hp, hsnd]
        · have hpe : st.pend = false := by rw [← hpend]; simp [hp]
          have hp0 : s.pending = 0 := by omega
          have hex : exec cfg s [.advance (max st.now t), .expire, .top] =
              some { s with now := max st.now t, pending := 0, cur := cfg.initial, factor := 1,
                            timer := none, wk := 0, loop := .sel } := by
            simp [exec, step, hle, htm', hloop, hexp, handleTimer_def, fire_def, hp0]
          refine ⟨_, by simpa [scriptStep, hw, hexp, hpe] using hex, ?_, ?_⟩
          · refine ⟨reach_exec _ hreach hex, ?_, rfl, htok, hsnd, hncl, hncan, ?_, ?_, ?_, ?_, hall⟩ <;>
              simp [specStep, hw, hexp]
          · simp [scriptStep, specStep, hw, hexp, hpe, recvTimes, step, hle, htm', hloop, handleTimer_def,
              fire_def, hp0]
      · have hex : exec cfg s [.advance (max st.now t)] = some { s with now := max st.now t } := by
          simp [exec, step, hle]
        refine ⟨_, by simpa [scriptStep, hw, hexp] using hex, ?_, ?_⟩
        · refine ⟨reach_exec _ hreach hex, ?_, hloop, htok, hsnd, hncl, hncan, ?_, ?_, ?_, ?_, hall⟩ <;>
            simp [specStep, hw, hexp]
          · simpa [hw] using htm
          · exact ⟨hk, by omega⟩
          · simpa using hpend
        · simp [scriptStep, specStep, hw, hexp, recvTimes, step, hle]


theorem rel_run {cfg : Config} (hv : cfg.valid) (hn : NoOvf cfg) (hcap : cfg.cap = none)
    (evs : List TEv) {st : TSt} {s : State} (h : Rel cfg st s) :
    ∃ s', exec cfg s (script cfg st evs) = some s' ∧ Rel cfg (specEnd cfg st evs) s' ∧
      recvTimes cfg s (script cfg st evs) = spec cfg st evs := by
  induction evs generalizing st s with
  | nil => exact ⟨s, rfl, h, rfl⟩
  | cons ev evs ih =>
    obtain ⟨s1, e1, r1, t1⟩ := rel_step hv hn hcap h ev
    obtain ⟨s2, e2, r2, t2⟩ := ih r1
    refine ⟨s2, ?_, r2, ?_⟩
    · simp only [script]; rw [exec_append, e1]; exact e2
    · simp only [script, spec]; rw [recvTimes_append cfg s s1 _ _ e1, t1, t2]

/-- The limiter right after `Run` has parked in its `select` for the first time. -/
def start (cfg : Config) : State :=
  { init cfg with casDone := true, loop := .sel }

theorem start_exec (cfg : Config) : exec cfg (init cfg) [.runCall, .run, .top] = some (start cfg) := by
  simp [exec, step, init_def, start]

theorem start_rel (cfg : Config) : Rel cfg {} (start cfg) := by
  refine ⟨reach_exec _ Reach.init (start_exec cfg), ?_, ?_, ?_, ?_, ?_, ?_, ?_, ?_, ?_, ?_, ?_⟩ <;>
    simp [start, init_def]

/-- Continuous time: the clock passes through every value, so an open window's end `d` is a clock
stop before any later `Add`. `ts` are the clock values at which the `Add`s happen (an `Add` whose
time is not later than the previous one happens at the same clock value). -/
def expand (cfg : Config) : TSt → List Nat → List TEv
  | st, [] => match st.win with
    | some (d, _) => [.adv d]
    | none => []
  | st, t :: ts =>
    let pre : List TEv := match st.win with
      | some (d, _) => if d ≤ t then [.adv d] else []
      | none => []
    let evs := pre ++ [.adv t, .add]
    evs ++ expand cfg (specEnd cfg st evs) ts

/-- Signal times for `Add`s at the clock values `ts` (no cap, prompt consumer). -/
def signalTimes (cfg : Config) (ts : List Nat) : List Nat :=
  spec cfg {} (expand cfg {} ts)

end Kit.Coalescing.Timeline
