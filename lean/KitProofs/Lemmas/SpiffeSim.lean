import KitModel.Spiffe
/-! Soundness of the τ-closed state-set simulation `Kit.Spiffe.accept` (property C19). -/
namespace Kit.Spiffe

/-- One internal step the harness allows: a statement of the Run goroutine, or of a consumer that is
not held at the hook. -/
inductive TauStep (v : Variant) (c : Ctx) : St → St → Prop where
  | run {s t : St} : runHeldAtHook c s = false → step v s .run = some t → TauStep v c s t
  | cons {s t : St} (i : Nat) : heldAtHook v c.parked s i = false → step v s (.cons i) = some t →
      TauStep v c s t

inductive TauStar (v : Variant) (c : Ctx) : St → St → Prop where
  | refl (s : St) : TauStar v c s s
  | tail {s t u : St} : TauStar v c s t → TauStep v c t u → TauStar v c s u

theorem TauStar.trans {v : Variant} {c : Ctx} {s t u : St}
    (h1 : TauStar v c s t) (h2 : TauStar v c t u) : TauStar v c s u := by
  induction h2 with
  | refl => exact h1
  | tail _ hs ih => exact .tail ih hs

/-- A real execution seen through its observable events: each event is interpreted on the current
state by `evState` (a label of the LTS, or a predicate the state satisfies), followed by internal
steps. -/
inductive TraceRun (v : Variant) : Ctx → St → List Ev → St → Prop where
  | nil (c : Ctx) (s : St) : TraceRun v c s [] s
  | cons {c : Ctx} {s s1 s2 t : St} {e : Ev} {es : List Ev} :
      evState v c s e = some s1 → TauStar v (c.after e) s1 s2 →
      TraceRun v (c.after e) s2 es t → TraceRun v c s (e :: es) t

theorem tauSucc_sound {v : Variant} {c : Ctx} {s t : St} (h : t ∈ tauSucc v c s) :
    TauStep v c s t := by
  simp only [tauSucc, List.mem_append, List.mem_filterMap, List.mem_range] at h
  rcases h with h | ⟨i, _, h⟩
  · cases hrh : runHeldAtHook c s with
    | true => rw [hrh] at h; simp at h
    | false =>
      rw [hrh] at h
      cases hr : step v s .run with
      | none => rw [hr] at h; simp at h
      | some u => rw [hr] at h; simp at h; subst h; exact .run hrh hr
  · cases hh : heldAtHook v c.parked s i with
    | true => rw [hh] at h; simp at h
    | false => rw [hh] at h; simp at h; exact .cons i hh h

theorem mem_foldl_insertNew (xs : List St) : ∀ (acc : List St) (t : St),
    t ∈ xs.foldl insertNew acc → t ∈ acc ∨ t ∈ xs := by
  induction xs with
  | nil => intro acc t h; exact Or.inl h
  | cons x xs ih =>
    intro acc t h
    simp only [List.foldl_cons] at h
    rcases ih _ t h with h | h
    · simp only [insertNew] at h
      split at h
      · exact Or.inl h
      · simp only [List.mem_append, List.mem_singleton] at h
        rcases h with h | h
        · exact Or.inl h
        · exact Or.inr (by simp [h])
    · exact Or.inr (by simp [h])

theorem closure_sound {v : Variant} {c : Ctx} (P : St → Prop)
    (hP : ∀ s t, P s → TauStep v c s t → P t) :
    ∀ (n : Nat) (seen : Seen) (acc todo : List St), (∀ t ∈ acc, P t) → (∀ t ∈ todo, P t) →
      ∀ t ∈ closure v c n seen acc todo, P t := by
  intro n
  induction n with
  | zero => intro seen acc todo ha _ t ht; simp only [closure] at ht; exact ha t ht
  | succ n ih =>
    intro seen acc todo ha htodo t ht
    cases todo with
    | nil => simp only [closure] at ht; exact ha t ht
    | cons s todo =>
      simp only [closure] at ht
      have hs : P s := htodo s (by simp)
      have hnew : ∀ u ∈ ((tauSucc v c s).filter fun t => !(seen.contains t)).foldl insertNew [],
          P u := by
        intro u hu
        rcases mem_foldl_insertNew _ [] u hu with h | h
        · simp at h
        · exact hP s u hs (tauSucc_sound (List.mem_filter.mp h).1)
      apply ih _ _ _ _ _ t ht
      · intro u hu
        rcases List.mem_append.mp hu with h | h
        · exact hnew u h
        · exact ha u h
      · intro u hu
        rcases List.mem_append.mp hu with h | h
        · exact hnew u h
        · exact htodo u (by simp [h])

theorem close_sound {v : Variant} {m : Sim} {t : St} (ht : t ∈ (close v m).states) :
    ∃ s ∈ m.states, TauStar v m.toCtx s t := by
  simp only [close] at ht
  have hinit : ∀ u ∈ m.states.foldl insertNew [], ∃ s ∈ m.states, TauStar v m.toCtx s u := by
    intro u hu
    rcases mem_foldl_insertNew _ [] u hu with h | h
    · simp at h
    · exact ⟨u, h, .refl u⟩
  exact closure_sound (fun u => ∃ s ∈ m.states, TauStar v m.toCtx s u)
    (fun s t ⟨s0, h0, hs⟩ hst => ⟨s0, h0, .tail hs hst⟩) _ _ _ _ hinit hinit t ht

theorem close_ctx (v : Variant) (m : Sim) : (close v m).toCtx = m.toCtx := rfl

theorem acceptFrom_sound {v : Variant} : ∀ (es : List Ev) (m : Sim) (k : Nat) (mf : Sim),
    acceptFrom v m k es = (none, mf) →
    ∀ t ∈ mf.states, ∃ s ∈ m.states, TraceRun v m.toCtx s es t := by
  intro es
  induction es with
  | nil =>
    intro m k mf h t ht
    simp only [acceptFrom, Prod.mk.injEq, true_and] at h
    subst h
    exact ⟨t, ht, .nil _ _⟩
  | cons e es ih =>
    intro m k mf h t ht
    simp only [acceptFrom] at h
    split at h
    · simp at h
    · obtain ⟨s2, hs2, htr⟩ := ih _ _ _ h t ht
      rw [close_ctx] at htr
      obtain ⟨s1, hs1, htau⟩ := close_sound hs2
      simp only [simEvent, List.mem_filterMap] at hs1
      obtain ⟨s, hs, hev⟩ := hs1
      exact ⟨s, hs, .cons hev htau htr⟩

/-- Every step of a `TraceRun` is a step of the LTS (or no step at all): the run exists in the LTS. -/
theorem tauStar_reach {v : Variant} {c : Ctx} {a s t : St} (h0 : Reach v a s)
    (h : TauStar v c s t) : Reach v a t := by
  induction h with
  | refl => exact h0
  | tail _ hs ih =>
    cases hs with
    | run _ h => exact .tail _ ih h
    | cons i _ h => exact .tail _ ih h

theorem of_ite_some {c : Prop} [Decidable c] {s t : St}
    (h : (if c then some s else none) = some t) : s = t := by
  split at h <;> simp_all

theorem evState_reach {v : Variant} {c : Ctx} {a s t : St} {e : Ev} (h0 : Reach v a s)
    (h : evState v c s e = some t) : Reach v a t := by
  cases e with
  | callRun => exact .tail .callRun h0 h
  | callRunHeld => exact .tail .callRun h0 h
  | runPark => simp only [evState] at h; exact (of_ite_some h) ▸ h0
  | runRelease => simp only [evState, Option.some.injEq] at h; subst h; exact h0
  | callReady => exact .tail .callReady h0 h
  | callGet p => exact .tail .callGet h0 h
  | callRun2 => exact .tail .runLoser h0 h
  | rep ok => exact .tail (.reply ok) h0 h
  | park i => simp only [evState] at h; exact (of_ite_some h) ▸ h0
  | release i => simp only [evState, Option.some.injEq] at h; subst h; exact h0
  | nop => simp only [evState, Option.some.injEq] at h; subst h; exact h0
  | ret i pc => simp only [evState] at h; exact (of_ite_some h) ▸ h0
  | runRet err =>
    simp only [evState] at h
    split at h
    · exact (of_ite_some h) ▸ h0
    · split at h
      · simp at h; subst h; exact h0
      · split at h
        · exact .tail .stop h0 h
        · simp at h
  | cancelRun => exact .tail .cancelRun h0 h
  | quiet p => simp only [evState] at h; exact (of_ite_some h) ▸ h0
  | cancel i =>
    simp only [evState] at h
    split at h
    · rename_i u hu; simp at h; subst h; exact .tail _ h0 hu
    · split at h <;> simp at h; subst h; exact h0
  | req k =>
    simp only [evState] at h
    split at h
    · split at h
      · simp at h; subst h; exact h0
      · exact .tail _ h0 h
    · simp at h
  | stopRun =>
    simp only [evState] at h
    split at h
    · rename_i u hu; simp at h; subst h; exact .tail _ h0 hu
    · split at h <;> simp at h; subst h; exact h0

theorem traceRun_reach {v : Variant} {c : Ctx} {a s t : St} {es : List Ev} (h0 : Reach v a s)
    (h : TraceRun v c s es t) : Reach v a t := by
  induction h with
  | nil => exact h0
  | cons hev htau _ ih => exact ih (tauStar_reach (evState_reach h0 hev) htau)

theorem closure_superset {v : Variant} {c : Ctx} : ∀ (n : Nat) (seen : Seen) (acc todo : List St) (t : St),
    t ∈ acc → t ∈ closure v c n seen acc todo := by
  intro n
  induction n with
  | zero => intro seen acc todo t h; simpa [closure] using h
  | succ n ih =>
    intro seen acc todo t h
    cases todo with
    | nil => simpa [closure] using h
    | cons s todo => simp only [closure]; exact ih _ _ _ t (List.mem_append.mpr (Or.inr h))

theorem acceptFrom_nonempty {v : Variant} : ∀ (es : List Ev) (m : Sim) (k : Nat) (mf : Sim),
    acceptFrom v m k es = (none, mf) → m.states ≠ [] → mf.states ≠ [] := by
  intro es
  induction es with
  | nil =>
    intro m k mf h hne
    simp only [acceptFrom, Prod.mk.injEq, true_and] at h
    subst h; exact hne
  | cons e es ih =>
    intro m k mf h _
    simp only [acceptFrom] at h
    split at h
    · simp at h
    · rename_i hne
      exact ih _ _ _ h (by intro h0; rw [h0] at hne; simp at hne)

end Kit.Spiffe
