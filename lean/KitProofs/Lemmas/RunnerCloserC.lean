import KitProofs.Lemmas.RunnerCloser
/-! C12 helper lemmas: fatal-shutdown timer invariant `InvC` of the `RCM` transition system. -/
namespace Kit.Runner

structure RCM.InvC (s : RCM) : Prop where
  armed_dl : ∀ dl, s.fpc = .armed dl → s.deadline = some dl
  parked_dl : ∀ dl, s.fpc = .parked dl → s.deadline = some dl ∧ s.now < dl ∧ s.cfs = false
  fire_set : (s.fpc = .willFire ∨ s.fired = true) → s.deadline.isSome
  fire_exp : ∀ dl, s.deadline = some dl → (s.fpc = .willFire ∨ s.fired = true) → dl ≤ s.now
  quiet_cfs : (s.fpc = .ready ∨ s.fpc = .collected) → s.fired = false → s.cfs = true
  dec_ok : ∀ d, s.decision = some d →
    (d.fire = true → d.expired = true) ∧ (d.fire = false → d.closed = true)
  dec_iff : s.decision.isSome ↔ (s.fpc = .willFire ∨ s.fpc = .ready ∨ s.fpc = .collected)
  fired_dec : s.fired = true → ∀ d, s.decision = some d → d.fire = true
  quiet_dec : (s.fpc = .ready ∨ s.fpc = .collected) → s.fired = false →
    ∀ d, s.decision = some d → d.fire = false
  will_dec : s.fpc = .willFire → s.fired = false ∧ ∀ d, s.decision = some d → d.fire = true
  fired_pc : s.fired = true → (s.fpc = .ready ∨ s.fpc = .collected)

theorem RCM.invC_init : RCM.InvC {} := by
  constructor <;> simp

set_option maxHeartbeats 8000000 in
theorem RCM.invC_step (cfg : Cfg) {s s' : RCM} (a : Label) (h : RCM.InvC s)
    (hs : s.step cfg a = some s') : RCM.InvC s' := by
  obtain ⟨h1, h2, h3, h4, h5, h6, h7, h8, h9, h10, h11⟩ := h
  cases a with
  | inner b =>
    simp only [RCM.step] at hs
    split at hs
    · cases hb : s.inner.step b with
      | none => simp [hb] at hs
      | some r =>
        simp [hb] at hs; subst hs
        exact ⟨h1, h2, h3, h4, h5, h6, h7, h8, h9, h10, h11⟩
    · simp at hs
  | _ => constructor <;> grind [RCM.step, timerExpired]

end Kit.Runner
