import KitProofs.Lemmas.LocksOuterCancel
/-!
Slot ownership of `lock.OuterCancel` while it is running (`closed = false`):
the 1-slot `lock` channel is occupied ⇔ exactly one hold owns it — the handler between taking the
slot and (writer) answering / (reader) releasing it, a writer whose grant is in flight, or a
granted writer that has not unlocked.  Every hold in `ch` or in the handler's hands is the
current hold of its caller (`g = gen t`), so the handler's answer always reaches it.
-/
namespace Kit.Locks.OuterCancel
open Kit.Locks

/-- a hold the handler has received and not yet answered -/
def HPC.pending : HPC → Option (Tid × Nat × Bool)
  | .have t g w | .slot t g w => some (t, g, w)
  | .wait t g => some (t, g, true)
  | _ => none

/-- the caller for whose hold the handler holds the slot -/
def HPC.holds : HPC → Option Tid
  | .slot t _ _ | .wait t _ | .rel t _ => some t
  | _ => none

def sentPc (w : Bool) : PC := if w then .wSent else .rSent

/-- the writer's answer is on its way: granted, slot kept for it -/
def inflight (s : State) (t : Tid) : Prop := s.pcs t = .wSent ∧ s.resp t = some false

/-- reader states after a successful answer was received -/
def PC.afterGrant : PC → Bool
  | .rGranted | .rHolding | .rUnlocking | .rDone | .idle => true
  | _ => false

def PC.shutPath : PC → Bool
  | .wShut | .wGranted true | .wHolding true | .wUnlocking true => true
  | _ => false

structure RInv (s : State) : Prop where
  /-- holds in `ch` are current, unanswered, and not also in the handler's hands -/
  p1 : ∀ (t : Tid) (g : Nat) (w : Bool), s.chBuf = some (t, g, w) →
        g = s.gen t ∧ s.pcs t = sentPc w ∧ s.resp t = none ∧ ∀ g' w', s.hpc.pending ≠ some (t, g', w')
  /-- the hold the handler works on is current and unanswered -/
  p2 : ∀ (t : Tid) (g : Nat) (w : Bool), s.hpc.pending = some (t, g, w) →
        g = s.gen t ∧ s.pcs t = sentPc w ∧ s.resp t = none
  /-- answers exist only for waiting callers; error answers only for readers -/
  r0 : ∀ (t : Tid) (b : Bool), s.resp t = some b → s.pcs t = .wSent ∨ s.pcs t = .rSent
  r1 : ∀ (t : Tid), s.resp t = some true → s.pcs t = .rSent
  /-- slot ownership -/
  s1 : ∀ (t : Tid), s.hpc.holds = some t → s.slot = some t
  s2 : ∀ (t : Tid), inflight s t → s.slot = some t ∧ s.hpc.holds = none
  s3 : ∀ (t : Tid), (s.pcs t).slotWriter = true → s.slot = some t ∧ s.hpc.holds = none
  s4 : ∀ (t : Tid), s.slot = some t →
        s.hpc.holds = some t ∨ inflight s t ∨ (s.pcs t).slotWriter = true
  /-- while running nobody is on the shutdown path -/
  z : ∀ (t : Tid), (s.pcs t).shutPath = false
  /-- a granted writer excludes live reader registrations -/
  n1 : ∀ (w t : Tid), (s.pcs w).slotWriter = true ∨ inflight s w → s.live t = false
  /-- a live registration belongs to a reader that was answered and has not released -/
  n3 : ∀ (t : Tid), s.live t = true →
        (s.pcs t = .rSent ∧ s.resp t = some false) ∨ (s.pcs t).reading = true ∨ s.pcs t = .rUnlocking
  /-- the hold whose slot the handler is about to give back is an answered reader hold: an older one,
  or the caller's current one, which then is past (or at) its successful answer -/
  e1 : ∀ (t : Tid) (g : Nat), s.hpc = .rel t g → g ≤ s.gen t ∧
        (g = s.gen t → (s.pcs t = .rSent ∧ s.resp t = some false) ∨ (s.pcs t).afterGrant = true)
  /-- an admitted reader is registered or was told to stop -/
  n2 : ∀ (t : Tid), (s.pcs t).reading = true ∨ (s.pcs t = .rSent ∧ s.resp t = some false) →
        s.live t = true ∨ (s.told t).isSome = true

theorem rinv_init (n g : Nat) : RInv (init n g) := by
  constructor <;> simp [init, HPC.pending, HPC.holds, inflight, PC.slotWriter, PC.shutPath, PC.reading, PC.afterGrant]

/-- `closed` is never reset. -/
theorem closed_mono (s s' : State) (a : L) (hs : step s a = some s') (h : s'.closed = false) :
    s.closed = false := by
  cases hc : s.closed with
  | false => rfl
  | true =>
    exfalso
    cases a with
    | call t op =>
      cases op <;> simp only [step, stepCore] at hs <;> (repeat' split at hs) <;> simp at hs <;>
        subst hs <;> simp_all
    | tau t alt =>
      simp only [step, stepCore] at hs
      (repeat' split at hs) <;> (try simp at hs) <;> (try subst hs) <;> (try simp_all)
      all_goals (simp [rcancel] at h; split at h <;> simp_all)
    | ret t r =>
      simp only [step, stepCore] at hs
      (repeat' split at hs) <;> simp at hs <;> subst hs <;> simp_all
    | probe t p =>
      cases p <;> simp only [step, stepCore] at hs <;> (repeat' split at hs) <;> simp at hs <;>
        subst hs <;> simp_all
    | env e =>
      cases e <;> simp only [step, stepCore] at hs <;> simp at hs <;> subst hs <;> simp_all
    | sys i alt =>
      match i with
      | 0 =>
        simp only [step, stepCore] at hs
        (repeat' split at hs) <;> (try simp at hs) <;> (try subst hs) <;> (try simp_all)
      | 1 =>
        simp only [step, stepCore] at hs
        split at hs <;> simp at hs; subst hs; simp_all
      | j + 2 =>
        simp only [step, stepCore] at hs
        (repeat' split at hs) <;> (try simp at hs) <;> (try subst hs) <;> (try simp_all)
        all_goals (simp [rcancel] at h; split at h <;> simp_all)

macro "ri_close" : tactic =>
  `(tactic| (constructor <;> dsimp only <;>
      grind [HPC.pending, HPC.holds, sentPc, inflight, PC.slotWriter, PC.shutPath, PC.reading, PC.afterGrant,
             rcancel, launchAll, deliver]))

set_option maxHeartbeats 4000000 in
theorem rinv_call (s : State) (t : Tid) (op : Op) (s' : State) (h : RInv s) (hc : s.closed = false)
    (hs : step s (.call t op) = some s') : RInv s' := by
  obtain ⟨p1, p2, r0, r1, s1, s2, s3, s4, z, n1, n3, e1, n2⟩ := h
  cases op <;> simp only [step, stepCore] at hs <;> (repeat' split at hs) <;> simp at hs <;> subst hs
  all_goals ri_close

set_option maxHeartbeats 4000000 in
theorem rinv_ret (s : State) (t : Tid) (r : Nat) (s' : State) (h : RInv s) (hc : s.closed = false)
    (hs : step s (.ret t r) = some s') : RInv s' := by
  obtain ⟨p1, p2, r0, r1, s1, s2, s3, s4, z, n1, n3, e1, n2⟩ := h
  simp only [step, stepCore] at hs
  (repeat' split at hs) <;> simp at hs <;> subst hs
  all_goals ri_close

theorem rinv_probe (s : State) (t : Tid) (p : Probe) (s' : State) (h : RInv s)
    (hs : step s (.probe t p) = some s') : RInv s' := by
  cases p <;> simp only [step, stepCore] at hs <;> (repeat' split at hs) <;> simp at hs <;>
    subst hs <;> exact h

set_option maxHeartbeats 4000000 in
theorem rinv_env (s : State) (e : Env) (s' : State) (h : RInv s) (hc : s.closed = false)
    (hs : step s (.env e) = some s') : RInv s' := by
  obtain ⟨p1, p2, r0, r1, s1, s2, s3, s4, z, n1, n3, e1, n2⟩ := h
  cases e <;> simp only [step, stepCore] at hs <;> simp at hs <;> subst hs
  all_goals ri_close

theorem resp_none_of_called {s : State} (r0 : ∀ (t : Tid) (b : Bool), s.resp t = some b → s.pcs t = .wSent ∨ s.pcs t = .rSent)
    {t : Tid} (h : s.pcs t = .wCalled ∨ s.pcs t = .rCalled) : s.resp t = none := by
  cases hr : s.resp t with
  | none => rfl
  | some b => have := r0 t b hr; rcases h with h | h <;> rw [h] at this <;> simp at this

theorem no_pending_of_called {s : State}
    (p2 : ∀ (t : Tid) (g : Nat) (w : Bool), s.hpc.pending = some (t, g, w) → g = s.gen t ∧ s.pcs t = sentPc w ∧ s.resp t = none)
    {t : Tid} (h : s.pcs t = .wCalled ∨ s.pcs t = .rCalled) (g' : Nat) (w' : Bool) :
    s.hpc.pending ≠ some (t, g', w') := by
  intro hp
  have := (p2 t g' w' hp).2.1
  rcases h with h | h <;> rw [h] at this <;> cases w' <;> simp [sentPc] at this

set_option maxHeartbeats 4000000 in
theorem rinv_tau (s : State) (t : Tid) (alt : Nat) (s' : State) (h : RInv s) (hc : s.closed = false)
    (hs : step s (.tau t alt) = some s') : RInv s' := by
  obtain ⟨p1, p2, r0, r1, s1, s2, s3, s4, z, n1, n3, e1, n2⟩ := h
  simp only [step, stepCore, hc] at hs
  split at hs
  · -- wCalled
    rename_i heq
    have hrn := resp_none_of_called r0 (Or.inl heq)
    have hnp := no_pending_of_called p2 (Or.inl heq)
    (repeat' split at hs) <;> simp at hs <;> subst hs <;> ri_close
  · -- wSent: the answer arrives
    rename_i heq
    by_cases ha : alt = 0
    · simp [ha] at hs
    simp only [ha, if_false] at hs
    cases hval : s.resp t with
    | none => simp [hval] at hs
    | some val =>
    simp [hval] at hs; subst hs
    have hv : val = false := by
      cases val with
      | false => rfl
      | true => have := r1 t hval; rw [heq] at this; simp at this
    subst hv
    have hin : inflight s t := ⟨heq, hval⟩
    have hs2 := s2 t hin
    have hn1 := fun u => n1 t u (Or.inr hin)
    ri_close
  · (repeat' split at hs) <;> simp at hs <;> subst hs <;> ri_close
  · (repeat' split at hs) <;> simp at hs <;> subst hs <;> ri_close
  · (repeat' split at hs) <;> simp at hs <;> subst hs <;> ri_close
  · -- rCalled
    rename_i heq
    have hrn := resp_none_of_called r0 (Or.inr heq)
    have hnp := no_pending_of_called p2 (Or.inr heq)
    (repeat' split at hs) <;> simp at hs <;> subst hs <;> ri_close
  · (repeat' split at hs) <;> simp at hs <;> subst hs <;> ri_close
  · simp at hs; subst hs
    unfold rcancel; split <;> ri_close
  · simp at hs

set_option maxHeartbeats 4000000 in
theorem rinv_grace (s : State) (j alt : Nat) (s' : State) (h : RInv s) (hc : s.closed = false)
    (hs : step s (.sys (j + 2) alt) = some s') : RInv s' := by
  obtain ⟨p1, p2, r0, r1, s1, s2, s3, s4, z, n1, n3, e1, n2⟩ := h
  simp only [step, stepCore, hc] at hs
  split at hs
  · split at hs
    · (repeat' split at hs) <;> simp at hs <;> subst hs <;> ri_close
    · simp at hs; subst hs
      unfold rcancel; split <;> ri_close
  · simp at hs

set_option maxHeartbeats 4000000 in
theorem rinv_handler (s : State) (alt : Nat) (s' : State) (h : RInv s) (hc : s.closed = false)
    (hlv : ∀ t, s.live t = true → t < s.n)
    (hs : step s (.sys 0 alt) = some s') : RInv s' := by
  obtain ⟨p1, p2, r0, r1, s1, s2, s3, s4, z, n1, n3, e1, n2⟩ := h
  simp only [step, stepCore, hc] at hs
  split at hs
  · -- idle
    (repeat' split at hs) <;> simp at hs <;> subst hs <;> ri_close
  · -- have
    rename_i t g w heq
    have hp := p2 t g w (by simp [heq, HPC.pending])
    have hd : ∀ b, deliver s t g b = upd s.resp t (some b) := by intro b; simp [deliver, hp.1]
    simp only [hd] at hs
    (repeat' split at hs) <;> simp at hs <;> subst hs <;> ri_close
  · -- slot writer
    rename_i t g heq
    have hp := p2 t g true (by simp [heq, HPC.pending])
    simp at hs; subst hs; ri_close
  · -- slot reader
    rename_i t g heq
    have hp := p2 t g false (by simp [heq, HPC.pending])
    have hd : ∀ b, deliver s t g b = upd s.resp t (some b) := by intro b; simp [deliver, hp.1]
    simp only [hd] at hs
    simp at hs; subst hs; ri_close
  · -- wait
    rename_i t g heq
    have hp := p2 t g true (by simp [heq, HPC.pending])
    have hd : ∀ b, deliver s t g b = upd s.resp t (some b) := by intro b; simp [deliver, hp.1]
    simp only [hd] at hs
    split at hs <;> simp at hs
    rename_i hnl
    have hno : ∀ t, s.live t = false := by
      intro t
      by_cases ht : t < s.n
      · exact noLive_spec s hnl t ht
      · cases hl : s.live t with
        | false => rfl
        | true => exact absurd (hlv t hl) ht
    subst hs; ri_close
  · -- rel
    (repeat' split at hs) <;> simp at hs <;> subst hs <;> ri_close
  · simp at hs; subst hs; ri_close
  · simp at hs

/-- While running, the slot-ownership invariant holds in every reachable state. -/
theorem rinv_reach (n g : Nat) (s : State) (h : Reach lts (init n g) s) : s.closed = false → RInv s := by
  induction h with
  | init => intro _; exact rinv_init n g
  | @next s s' a hr hstep ih =>
    intro hc'
    have hstep' : step s a = some s' := hstep
    have hc : s.closed = false := closed_mono s s' a hstep' hc'
    have hi := ih hc
    have hlv := (inv_reach n g s hr).lv
    cases a with
    | call t op => exact rinv_call s t op s' hi hc hstep'
    | tau t alt => exact rinv_tau s t alt s' hi hc hstep'
    | ret t r => exact rinv_ret s t r s' hi hc hstep'
    | probe t p => exact rinv_probe s t p s' hi hstep'
    | env e => exact rinv_env s e s' hi hc hstep'
    | sys i alt =>
      match i with
      | 0 => exact rinv_handler s alt s' hi hc hlv hstep'
      | 1 =>
        exfalso
        simp only [step, stepCore] at hstep'
        split at hstep' <;> simp at hstep'
        subst hstep'; simp at hc'
      | j + 2 => exact rinv_grace s j alt s' hi hc hstep'

end Kit.Locks.OuterCancel
