/-
The search of `cron/spec.go` as it was BEFORE the repair commit ("fix: cron Next where DST skips or
repeats local midnight"): no `dayStart`, the day loop's fix-up subtracts an hour into the previous
day, and the hour loop re-checks the day only when `Hour() == 0`.  Kept only for the witness
theorems that show what the repair changed.
-/
import KitModel.CronSpec

namespace Kit.CronSpec

def fixupOld (z : Zone) (t : Int) : Int :=
  let h := hour z t
  if h ≠ 0 then (if h > 12 then t + (24 - h) * 3600 else t - h * 3600) else t

def monthLoopOld (s : Sched) (z : Zone) : Nat → Int → Bool → LoopOut :=
  loop (fun t => has s.month (month z t))
    (fun t => goDate z (year z t) (month z t) 1 0 0 0)
    (fun t => addDate z t 0 1 0)
    (fun _ t2 => month z t2 = 1)

def dayLoopOld (s : Sched) (z : Zone) : Nat → Int → Bool → LoopOut :=
  loop (fun t => dayMatches s z t)
    (fun t => goDate z (year z t) (month z t) (day z t) 0 0 0)
    (fun t => fixupOld z (addDate z t 0 0 1))
    (fun _ t2 => day z t2 = 1)

def hourLoopOld (s : Sched) (z : Zone) : Nat → Int → Bool → LoopOut :=
  loop (fun t => has s.hour (hour z t))
    (fun t => goDate z (year z t) (month z t) (day z t) (hour z t) 0 0)
    (fun t => t + 3600)
    (fun _ t2 => hour z t2 = 0)

def LoopOut.andThenOld (o : LoopOut) (wrapK k : Int → Bool → Result) : Result :=
  match o with
  | .fuel => .fuel
  | .wrap t a => wrapK t a
  | .next t a => k t a

def nextFromOld (s : Sched) (z : Zone) (yearLimit : Int) : Nat → Int → Bool → Result
  | 0, _, _ => .fuel
  | f + 1, t, added =>
    if year z t > yearLimit then .zero
    else
      (monthLoopOld s z innerFuel t added).andThenOld (nextFromOld s z yearLimit f) fun t a =>
      (dayLoopOld s z innerFuel t a).andThenOld (nextFromOld s z yearLimit f) fun t a =>
      (hourLoopOld s z innerFuel t a).andThenOld (nextFromOld s z yearLimit f) fun t a =>
      (minuteLoop s z innerFuel t a).andThenOld (nextFromOld s z yearLimit f) fun t a =>
      (secondLoop s z innerFuel t a).andThenOld (nextFromOld s z yearLimit f) fun t _ => .at t

def nextOld (s : Sched) (z : Zone) (tn : Int) : Result :=
  let t := roundUp tn
  nextFromOld s z (year z t + 5) outerFuel t false

end Kit.CronSpec
