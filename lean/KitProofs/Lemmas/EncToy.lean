/-
A toy lawful `Crypto` and a toy lawful `Codec`: the hypotheses of the C01/C02 theorems are
satisfiable (non-vacuity), and the negation witness of C02 has an instance to live in.
-/
import KitModel.Enc
import KitProofs.Lemmas.EncHeader

namespace Kit.Enc.Toy
open Kit Kit.Enc

/-! ### crypto: tag = the nonce padded to 16 bytes -/

def toyCrypto : Crypto where
  aseal _ _ n p := p ++ fitTo 16 n
  aopen _ _ n x :=
    if 16 ≤ x.length ∧ x.drop (x.length - 16) = fitTo 16 n then some (x.take (x.length - 16)) else none
  hkdf ikm salt info len := fitTo len (ikm ++ salt ++ info)
  hmac k msg := 1 :: (k ++ msg).take 8

theorem fitTo_length (n : Nat) (s : Bytes) : (fitTo n s).length = n := by
  simp [fitTo]; omega

theorem toyCrypto_lawful : toyCrypto.Lawful 16 where
  open_seal := by
    intro cph k n p
    simp [toyCrypto, fitTo_length]
  seal_length := by
    intro cph k n p
    simp [toyCrypto, fitTo_length]
  hmac_ne := by intro k msg; simp [toyCrypto]

/-! ### codec: every byte as two letters, fields separated by 0, numbers in unary -/

def encB (b : UInt8) : Bytes := [UInt8.ofNat (65 + b.toNat / 16), UInt8.ofNat (65 + b.toNat % 16)]
def encL (bs : Bytes) : Bytes := bs.flatMap encB

def decL : Bytes → Option Bytes
  | [] => some []
  | [_] => none
  | x :: y :: rest => (decL rest).map (UInt8.ofNat ((x.toNat - 65) * 16 + (y.toNat - 65)) :: ·)

theorem decL_encL (bs : Bytes) : decL (encL bs) = some bs := by
  induction bs with
  | nil => rfl
  | cons b t ih =>
    have hb := b.toNat_lt
    simp only [encL, List.flatMap_cons, encB, List.cons_append, List.nil_append, decL] at ih ⊢
    rw [ih]
    simp only [Option.map_some, Option.some.injEq, List.cons.injEq, and_true]
    have h1 : (UInt8.ofNat (65 + b.toNat / 16)).toNat = 65 + b.toNat / 16 := by
      rw [UInt8.toNat_ofNat']; omega
    have h2 : (UInt8.ofNat (65 + b.toNat % 16)).toNat = 65 + b.toNat % 16 := by
      rw [UInt8.toNat_ofNat']; omega
    rw [h1, h2]
    have : (65 + b.toNat / 16 - 65) * 16 + (65 + b.toNat % 16 - 65) = b.toNat := by omega
    rw [this, UInt8.ofNat_toNat]

theorem encL_mem (bs : Bytes) (x : UInt8) (h : x ∈ encL bs) : 65 ≤ x.toNat := by
  simp only [encL, List.mem_flatMap, encB, List.mem_cons, List.not_mem_nil, or_false] at h
  obtain ⟨b, _, hx⟩ := h
  have hb := b.toNat_lt
  rcases hx with hx | hx <;> (rw [hx, UInt8.toNat_ofNat']; omega)

theorem encL_not_mem (bs : Bytes) (v : UInt8) (hv : v.toNat < 65) : v ∉ encL bs :=
  fun h => by have := encL_mem bs v h; omega

def cut0 : Bytes → Option (Bytes × Bytes)
  | [] => none
  | b :: bs =>
    if b = 0 then some ([], bs)
    else match cut0 bs with
      | none => none
      | some (l, rest) => some (b :: l, rest)

theorem cut0_append (a b : Bytes) (h : (0 : UInt8) ∉ a) : cut0 (a ++ 0 :: b) = some (a, b) := by
  induction a with
  | nil => simp [cut0]
  | cons x xs ih =>
    have hx : x ≠ 0 := fun h0 => h (by simp [h0])
    have hxs : (0 : UInt8) ∉ xs := fun h0 => h (by simp [h0])
    simp [cut0, hx, ih hxs]

def toyRender (m : Manifest) : Bytes :=
  encL m.keyName ++ 0 :: (encL m.wfk ++ 0 :: (encL m.np ++ 0 :: (List.replicate m.kw 66 ++ 0 :: List.replicate m.cph 66)))

def toyParse (bs : Bytes) : Option Manifest :=
  match cut0 bs with
  | none => none
  | some (f1, r1) =>
    match cut0 r1 with
    | none => none
    | some (f2, r2) =>
      match cut0 r2 with
      | none => none
      | some (f3, r3) =>
        match cut0 r3 with
        | none => none
        | some (f4, f5) =>
          match decL f1, decL f2, decL f3 with
          | some k, some w, some n => some ⟨k, f4.length, w, f5.length, n⟩
          | _, _, _ => none

def toyCodec : Codec where
  render := toyRender
  parse := toyParse
  b64 := encL
  unb64 := decL

theorem replicate66_not_mem (n : Nat) (v : UInt8) (hv : v ≠ 66) : v ∉ List.replicate n 66 := by
  intro h; exact hv (List.eq_of_mem_replicate h)

theorem toyCodec_lawful (P : EncParams) : toyCodec.Lawful P where
  parse_render := by
    intro m _
    simp only [toyCodec, toyRender, toyParse]
    rw [cut0_append _ _ (encL_not_mem _ 0 (by decide))]
    simp only []
    rw [cut0_append _ _ (encL_not_mem _ 0 (by decide))]
    simp only []
    rw [cut0_append _ _ (encL_not_mem _ 0 (by decide))]
    simp only []
    rw [cut0_append _ _ (replicate66_not_mem _ 0 (by decide))]
    simp only [decL_encL, List.length_replicate]
  render_line := by
    intro m
    constructor
    · simp [toyCodec, toyRender]
    · simp only [toyCodec, toyRender, List.mem_append, List.mem_cons, not_or]
      have h10 : ∀ bs, (10 : UInt8) ∉ encL bs := fun bs => encL_not_mem bs 10 (by decide)
      have hr : ∀ n, (10 : UInt8) ∉ List.replicate n 66 := fun n => replicate66_not_mem n 10 (by decide)
      refine ⟨h10 _, by decide, h10 _, by decide, h10 _, by decide, hr _, by decide, hr _⟩
  unb64_b64 := by intro x; exact decL_encL x
  b64_line := by
    intro x hx
    constructor
    · cases x with
      | nil => exact absurd rfl hx
      | cons b t => simp [toyCodec, encL, encB]
    · exact encL_not_mem x 10 (by decide)

end Kit.Enc.Toy
