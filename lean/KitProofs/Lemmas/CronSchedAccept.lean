import KitModel.CronSchedAccept
import KitProofs.Lemmas.CronSched
/-!
Soundness of the trace acceptor `Kit.CronSched.acceptRun` (the function `kitdrv C05` runs):
every state in the result is the (log-erased) end state of a run of `step` whose observable
projection is the trace.
-/
namespace Kit.CronSched

theorem stepN_strip (S : Scheds) (s : State) (l : Label) : stepN S (strip s) l = stepN S s l := by
  obtain ⟨clock, running, nextID, entries, now, pc, jobs, ctxs, log⟩ := s
  cases l <;> simp only [stepN, step, strip]
  case add sid => cases running <;> cases pc <;> simp [isParked, strip]
  case remove id => cases running <;> cases pc <;> simp [isParked, strip]
  case snapshot => cases running <;> cases pc <;> simp [isParked, strip]
  case start => cases running <;> simp [strip]
  case stop => cases running <;> cases pc <;> simp [isParked, strip]
  case advance t =>
    by_cases h : t < clock
    · simp [h]
    · simp only [h, if_false]
      cases pc with
      | parked tm => cases tm <;> simp [strip]
      | _ => simp [strip]
  case boot => cases pc <;> simp [strip]
  case refresh =>
    cases pc with
    | refresh p =>
      cases p with
      | none => simp [strip]
      | some q => obtain ⟨a, b⟩ := q; simp [strip]
    | _ => simp [strip]
  case arm => cases pc <;> simp [strip]
  case wake =>
    cases pc with
    | parked tm =>
      cases tm with
      | none => simp
      | some tm =>
        obtain ⟨a, d, f⟩ := tm
        cases f <;> simp [strip]
    | _ => simp
  case jobBegin i =>
    cases jobs[i]? with
    | none => simp
    | some j =>
      obtain ⟨a, b, c, st⟩ := j
      cases st <;> simp [strip]
  case jobDone i =>
    cases jobs[i]? with
    | none => simp
    | some j =>
      obtain ⟨a, b, c, st⟩ := j
      cases st <;> simp [strip]
  case ctxWait k =>
    cases ctxs[k]? with
    | none => simp
    | some c => cases c <;> simp [strip]

/-- Run a label list with the log erased after every step. -/
def runFromN (S : Scheds) (s : State) : List Label → Option State
  | [] => some s
  | l :: ls => match stepN S s l with
    | some s' => runFromN S s' ls
    | none => none

/-- A log-erased run lifts to a real run (the log is never read). -/
theorem runFromN_lift (S : Scheds) (ls : List Label) :
    ∀ (s : State) (u : State), runFromN S (strip s) ls = some u →
      ∃ s', runFrom S s ls = some s' ∧ strip s' = u := by
  induction ls with
  | nil => intro s u h; simp [runFromN] at h; exact ⟨s, rfl, h⟩
  | cons l ls ih =>
    intro s u h
    simp only [runFromN, stepN_strip] at h
    simp only [runFrom]
    unfold stepN at h
    cases hl : step S s l with
    | none => simp [hl] at h
    | some s1 =>
      simp only [hl, Option.map_some] at h
      exact ih s1 u h

/-- The label an observed API/job event stands for in state `s` (with its side conditions). -/
def ObsLabel (s : State) (o : Obs) (l : Label) (s' : State) : Prop :=
  match o with
  | .advance t => l = .advance t
  | .add sid id => l = .add sid ∧ s'.nextID = id
  | .remove id => l = .remove id
  | .entries r => l = .snapshot ∧ snapTriples s = r
  | .start => l = .start
  | .stop => l = .stop
  | .jobBegin id c => ∃ i j, l = .jobBegin i ∧ s.jobs[i]? = some j ∧ j.eid = id ∧
      j.st = .launched ∧ s.clock = c
  | .jobDone id c => ∃ i j, l = .jobDone i ∧ s.jobs[i]? = some j ∧ j.eid = id ∧ j.st = .begun c
  | _ => False

/-- What an observed hook / harness assertion says about the current state. -/
def ObsCheck (s : State) (o : Obs) : Prop :=
  match o with
  | .armed b => ∃ tm, s.pc = .parked tm ∧ tm.isSome = b
  | .woke w => s.pc = .arm ∧ s.now = w
  | .quiet => quiescent s = true
  | .ctx k d => d = true → s.ctxs[k]? = some CtxSt.done
  | .finish => True
  | _ => False

/-- `Exec S s tr ls s'`: running the labels `ls` from `s` (log erased) ends in `s'`, and the
observable projection of that run is `tr`: internal labels (`boot, refresh, arm, wake, ctxWait`)
are unobserved, every other label is the one its event stands for, every assertion event holds in
the state where it occurs. -/
inductive Exec (S : Scheds) : State → List Obs → List Label → State → Prop where
  | nil (s : State) : Exec S s [] [] s
  | tau {s s' s'' : State} {tr : List Obs} {ls : List Label} (l : Label) :
      l ∈ internalLabels s → stepN S s l = some s' → Exec S s' tr ls s'' → Exec S s tr (l :: ls) s''
  | lab {s s' s'' : State} {o : Obs} {tr : List Obs} {ls : List Label} (l : Label) :
      ObsLabel s o l s' → stepN S s l = some s' → Exec S s' tr ls s'' →
      Exec S s (o :: tr) (l :: ls) s''
  | chk {s s'' : State} {o : Obs} {tr : List Obs} {ls : List Label} :
      ObsCheck s o → Exec S s tr ls s'' → Exec S s (o :: tr) ls s''

theorem exec_trans {S : Scheds} {a b c : State} {t1 t2 : List Obs} {l1 l2 : List Label}
    (h1 : Exec S a t1 l1 b) (h2 : Exec S b t2 l2 c) : Exec S a (t1 ++ t2) (l1 ++ l2) c := by
  induction h1 with
  | nil s => simpa using h2
  | tau l hi hs _ ih => exact Exec.tau l hi hs (ih h2)
  | lab l ho hs _ ih => exact Exec.lab l ho hs (ih h2)
  | chk hc _ ih => exact Exec.chk hc (ih h2)

theorem exec_runFromN {S : Scheds} {a b : State} {tr : List Obs} {ls : List Label}
    (h : Exec S a tr ls b) : runFromN S a ls = some b := by
  induction h with
  | nil s => rfl
  | tau l _ hs _ ih => simp [runFromN, hs, ih]
  | lab l _ hs _ ih => simp [runFromN, hs, ih]
  | chk _ _ ih => exact ih

theorem mem_dedup {a : State} : ∀ {l : List State}, a ∈ dedup l → a ∈ l := by
  intro l
  induction l with
  | nil => intro h; cases h
  | cons x xs ih =>
    intro h
    simp only [dedup] at h
    split at h
    · exact List.mem_cons_of_mem _ (ih h)
    · rcases List.mem_cons.1 h with rfl | h'
      · exact List.mem_cons_self
      · exact List.mem_cons_of_mem _ (ih h')

/-- reachable from the base set by unobserved steps -/
def TauReach (S : Scheds) (base : List State) (s : State) : Prop :=
  ∃ s0 ∈ base, ∃ ls, Exec S s0 [] ls s

theorem tauReach_step {S : Scheds} {base : List State} {s s' : State} {l : Label}
    (h : TauReach S base s) (hi : l ∈ internalLabels s) (hs : stepN S s l = some s') :
    TauReach S base s' := by
  obtain ⟨s0, h0, ls, he⟩ := h
  exact ⟨s0, h0, ls ++ [l], by simpa using exec_trans he (Exec.tau l hi hs (Exec.nil s'))⟩

theorem tauSuccs_reach {S : Scheds} {base frontier : List State}
    (hf : ∀ s ∈ frontier, TauReach S base s) : ∀ s ∈ tauSuccs S frontier, TauReach S base s := by
  intro s hs
  unfold tauSuccs at hs
  obtain ⟨u, hu, hs⟩ := List.mem_flatMap.1 hs
  obtain ⟨l, hl, hstep⟩ := List.mem_filterMap.1 hs
  exact tauReach_step (hf u hu) hl hstep

theorem closure_sound {S : Scheds} {base : List State} :
    ∀ (fuel : Nat) (acc frontier : List State), (∀ s ∈ acc, TauReach S base s) →
      (∀ s ∈ frontier, TauReach S base s) → ∀ s ∈ closure S fuel acc frontier, TauReach S base s := by
  intro fuel
  induction fuel with
  | zero => intro acc frontier ha _ s hs; exact ha s (by simpa [closure] using hs)
  | succ n ih =>
    intro acc frontier ha hf s hs
    cases frontier with
    | nil => exact ha s (by simpa [closure] using hs)
    | cons x xs =>
      simp only [closure] at hs
      have hfresh : ∀ s ∈ dedup ((tauSuccs S (x :: xs)).filter fun s => !acc.contains s),
          TauReach S base s := by
        intro u hu
        exact tauSuccs_reach hf u (List.mem_filter.1 (mem_dedup hu)).1
      refine ih _ _ ?_ hfresh s hs
      intro u hu
      rcases List.mem_append.1 hu with h | h
      · exact ha u h
      · exact hfresh u h

theorem close_sound {S : Scheds} {ss : List State} : ∀ s ∈ close S ss, TauReach S ss s := by
  intro s hs
  unfold close at hs
  have hb : ∀ u ∈ dedup ss, TauReach S ss u :=
    fun u hu => ⟨u, mem_dedup hu, [], Exec.nil u⟩
  exact closure_sound 64 _ _ hb hb s hs

theorem mem_indicesWhere {js : List Job} {p : Job → Bool} {i : Nat}
    (h : i ∈ indicesWhere js p) : ∃ j, js[i]? = some j ∧ p j = true := by
  unfold indicesWhere at h
  have := (List.mem_filter.1 h).2
  cases hj : js[i]? with
  | none => simp [hj] at this
  | some j => exact ⟨j, rfl, by simpa [hj] using this⟩

/-- One observed event: every direct successor computed by the acceptor is an `Exec` of that event. -/
theorem obsSucc_exec {S : Scheds} {s s' : State} {o : Obs} (h : s' ∈ obsSucc S s o) :
    ∃ ls, Exec S s [o] ls s' := by
  cases o with
  | advance t =>
    simp only [obsSucc, Option.mem_toList] at h
    exact ⟨[_], Exec.lab (.advance t) rfl h (Exec.nil _)⟩
  | add sid id =>
    simp only [obsSucc, List.mem_filter, Option.mem_toList, beq_iff_eq] at h
    exact ⟨[_], Exec.lab (.add sid) ⟨rfl, h.2⟩ h.1 (Exec.nil _)⟩
  | remove id =>
    simp only [obsSucc, Option.mem_toList] at h
    exact ⟨[_], Exec.lab (.remove id) rfl h (Exec.nil _)⟩
  | entries r =>
    simp only [obsSucc] at h
    split at h
    · rename_i hr
      simp only [Option.mem_toList] at h
      exact ⟨[_], Exec.lab .snapshot ⟨rfl, by simpa using hr⟩ h (Exec.nil _)⟩
    · cases h
  | start =>
    simp only [obsSucc, Option.mem_toList] at h
    exact ⟨[_], Exec.lab .start rfl h (Exec.nil _)⟩
  | stop =>
    simp only [obsSucc, Option.mem_toList] at h
    exact ⟨[_], Exec.lab .stop rfl h (Exec.nil _)⟩
  | armed b =>
    simp only [obsSucc] at h
    split at h
    · rename_i hb
      simp only [List.mem_singleton] at h; subst h
      refine ⟨[], Exec.chk ?_ (Exec.nil _)⟩
      unfold armedOK at hb
      cases hpc : s'.pc with
      | parked tm => rw [hpc] at hb; exact ⟨tm, hpc, by simpa using hb⟩
      | _ => rw [hpc] at hb; cases hb
    · cases h
  | woke w =>
    simp only [obsSucc] at h
    split at h
    · rename_i hb
      simp only [List.mem_singleton] at h; subst h
      simp only [Bool.and_eq_true, beq_iff_eq] at hb
      exact ⟨[], Exec.chk hb (Exec.nil _)⟩
    · cases h
  | quiet =>
    simp only [obsSucc] at h
    split at h
    · rename_i hb
      simp only [List.mem_singleton] at h; subst h
      exact ⟨[], Exec.chk hb (Exec.nil _)⟩
    · cases h
  | jobBegin id c =>
    simp only [obsSucc] at h
    split at h
    · rename_i hc
      obtain ⟨i, hi, hstep⟩ := List.mem_filterMap.1 h
      obtain ⟨j, hj, hp⟩ := mem_indicesWhere hi
      simp only [Bool.and_eq_true, beq_iff_eq] at hp
      exact ⟨[_], Exec.lab (.jobBegin i) ⟨i, j, rfl, hj, hp.1, hp.2, by simpa using hc⟩ hstep (Exec.nil _)⟩
    · cases h
  | jobDone id c =>
    simp only [obsSucc] at h
    obtain ⟨i, hi, hstep⟩ := List.mem_filterMap.1 h
    obtain ⟨j, hj, hp⟩ := mem_indicesWhere hi
    simp only [Bool.and_eq_true, beq_iff_eq] at hp
    exact ⟨[_], Exec.lab (.jobDone i) ⟨i, j, rfl, hj, hp.1, hp.2⟩ hstep (Exec.nil _)⟩
  | ctx k d =>
    simp only [obsSucc] at h
    cases d with
    | false =>
      simp only [Bool.false_eq_true, if_false, List.mem_singleton] at h; subst h
      exact ⟨[], Exec.chk (by intro hd; cases hd) (Exec.nil _)⟩
    | true =>
      simp only [if_true] at h
      split at h
      · rename_i hb
        simp only [List.mem_singleton] at h; subst h
        exact ⟨[], Exec.chk (fun _ => by simpa using hb) (Exec.nil _)⟩
      · cases h
  | finish =>
    simp only [obsSucc, List.mem_singleton] at h; subst h
    exact ⟨[], Exec.chk trivial (Exec.nil _)⟩

theorem acceptStep_sound {S : Scheds} {ss : List State} {o : Obs} {s : State}
    (h : s ∈ acceptStep S ss o) : ∃ s1 ∈ ss, ∃ ls, Exec S s1 [o] ls s := by
  unfold acceptStep at h
  obtain ⟨u, hu, l2, he2⟩ := close_sound s h
  obtain ⟨s1, hs1, hu1⟩ := List.mem_flatMap.1 hu
  obtain ⟨l1, he1⟩ := obsSucc_exec hu1
  exact ⟨s1, hs1, l1 ++ l2, by simpa using exec_trans he1 he2⟩

theorem acceptRun_sound {S : Scheds} (tr : List Obs) :
    ∀ (ss : List State) (s : State), s ∈ acceptRun S ss tr → ∃ s0 ∈ ss, ∃ ls, Exec S s0 tr ls s := by
  induction tr with
  | nil => intro ss s h; exact ⟨s, by simpa [acceptRun] using h, [], Exec.nil s⟩
  | cons o tr ih =>
    intro ss s h
    simp only [acceptRun, List.foldl_cons] at h
    obtain ⟨s1, hs1, l2, he2⟩ := ih (acceptStep S ss o) s h
    obtain ⟨s0, hs0, l1, he1⟩ := acceptStep_sound hs1
    exact ⟨s0, hs0, l1 ++ l2, by simpa using exec_trans he1 he2⟩

end Kit.CronSched
