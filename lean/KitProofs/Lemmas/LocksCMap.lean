import KitModel.Locks.CMap
namespace Kit.Locks.CMap
open Kit.Locks

def PC.usesMx : PC → Option Nat
  | .lkFound _ _ m | .lkGranted _ _ m | .holding _ _ m | .ulCalled _ _ m _ => some m
  | _ => none

def PC.ptr : PC → Option (Key × Nat)
  | .lkFound k _ m | .lkGranted k _ m | .holding k _ m | .ulCalled k _ m _ => some (k, m)
  | _ => none

def PC.wOwner : PC → Option Nat
  | .lkGranted _ md m | .holding _ md m | .ulCalled _ md m _ => if md = .w then some m else none
  | _ => none

def PC.rOwner : PC → Option Nat
  | .lkGranted _ md m | .holding _ md m | .ulCalled _ md m _ => if md = .r then some m else none
  | _ => none

theorem usesMx_of_ptr {pc : PC} {k m : Nat} (h : pc.ptr = some (k, m)) : pc.usesMx = some m := by
  cases pc <;> simp_all [PC.ptr, PC.usesMx]
theorem usesKey_of_ptr {pc : PC} {k m : Nat} (h : pc.ptr = some (k, m)) : pc.usesKey k = true := by
  cases pc <;> simp_all [PC.ptr, PC.usesKey]
theorem usesMx_of_wOwner {pc : PC} {m : Nat} (h : pc.wOwner = some m) : pc.usesMx = some m := by
  unfold PC.wOwner at h; unfold PC.usesMx; split at h <;> simp_all
theorem usesMx_of_rOwner {pc : PC} {m : Nat} (h : pc.rOwner = some m) : pc.usesMx = some m := by
  unfold PC.rOwner at h; unfold PC.usesMx; split at h <;> simp_all

theorem holdsW_spec {pc : PC} {k : Key} (h : pc.holdsW k = true) :
    ∃ m, pc.wOwner = some m ∧ pc.ptr = some (k, m) := by
  unfold PC.holdsW at h
  split at h <;> simp at h <;> subst h <;> exact ⟨_, rfl, rfl⟩

theorem holdsR_spec {pc : PC} {k : Key} (h : pc.holdsR k = true) :
    ∃ m, pc.rOwner = some m ∧ pc.ptr = some (k, m) := by
  unfold PC.holdsR at h
  split at h <;> simp at h <;> subst h <;> exact ⟨_, rfl, rfl⟩

theorem mem_of_length_le_one {l : List Nat} {a b : Nat} (h : l.length ≤ 1) (ha : a ∈ l) (hb : b ∈ l) :
    a = b := by
  match l, h with
  | [x], _ => simp_all

structure Inv (s : State) : Prop where
  rc : s.rc = true
  bnd : ∀ (k : Key) (m : Nat), s.items k = some m → m < s.next
  pbnd : ∀ (t : Tid) (m : Nat), (s.pcs t).usesMx = some m → m < s.next
  ptr : ∀ (t : Tid) (k : Key) (m : Nat), (s.pcs t).ptr = some (k, m) → s.items k = some m
  usr : ∀ (m : Nat) (t : Tid), t ∈ (s.rws m).users ↔ (s.pcs t).usesMx = some m
  refs : ∀ (m : Nat), (s.rws m).users.Nodup ∧ (s.rws m).refs = (s.rws m).users.length
  wo : ∀ (m : Nat) (t : Tid), (s.rws m).w = some t ↔ (s.pcs t).wOwner = some m
  ro : ∀ (m : Nat) (t : Tid), t ∈ (s.rws m).rs ↔ (s.pcs t).rOwner = some m
  rnd : ∀ (m : Nat), (s.rws m).rs.Nodup
  excl : ∀ (m : Nat) (t : Tid), (s.rws m).w = some t → (s.rws m).rs = []

theorem inv_init (n nk : Nat) : Inv (init true n nk) := by
  constructor <;> simp [init, newRW, PC.usesMx, PC.ptr, PC.wOwner, PC.rOwner]

macro "cm_close" : tactic =>
  `(tactic| (constructor <;> dsimp only <;>
      grind [→ usesMx_of_ptr, → usesKey_of_ptr, → usesMx_of_wOwner, → usesMx_of_rOwner,
             newRW, addRef, RW.free, RW.acquire, RW.release,
             PC.usesMx, PC.ptr, PC.wOwner, PC.rOwner, PC.usesKey, mem_of_length_le_one,
             List.Nodup.mem_erase_iff, List.Nodup.erase, List.length_erase_of_mem]))

theorem inv_call (s : State) (t : Tid) (op : Op) (s' : State) (h : Inv s)
    (hs : step s (.call t op) = some s') : Inv s' := by
  obtain ⟨rc, bnd, pbnd, ptr, usr, refs, wo, ro, rnd, excl⟩ := h
  cases op <;> simp only [step] at hs <;> split at hs <;> (try split at hs) <;> simp at hs <;> subst hs
  all_goals cm_close

theorem inv_ret (s : State) (t : Tid) (r : Option Nat) (s' : State) (h : Inv s)
    (hs : step s (.ret t r) = some s') : Inv s' := by
  obtain ⟨rc, bnd, pbnd, ptr, usr, refs, wo, ro, rnd, excl⟩ := h
  simp only [step] at hs; split at hs <;> (try split at hs) <;> simp at hs <;> subst hs
  all_goals cm_close

theorem inv_probe (s : State) (t : Tid) (p : Probe) (s' : State) (h : Inv s)
    (hs : step s (.probe t p) = some s') : Inv s' := by
  cases p <;> simp only [step] at hs <;> split at hs <;> (try split at hs) <;> simp at hs <;>
    (try subst hs) <;> (try exact h)
  all_goals (obtain ⟨_, rfl⟩ := hs; exact h)

theorem inv_tau_ul_w (s : State) (t : Tid) (alt : Nat) (s' : State) (h : Inv s)
    (k : Key) (m : Nat) (del : Bool) (heq : s.pcs t = .ulCalled k .w m del)
    (hs : step s (.tau t alt) = some s') : Inv s' := by
  obtain ⟨rc, bnd, pbnd, ptr, usr, refs, wo, ro, rnd, excl⟩ := h
  simp only [step, heq] at hs
  have hitem : s.items k = some m := ptr t k m (by simp [heq, PC.ptr])
  have husr : t ∈ (s.rws m).users := (usr m t).mpr (by simp [heq, PC.usesMx])
  have hrefs := refs m
  have huniq : (s.rws m).refs - 1 ≤ 0 → ∀ t', (s.pcs t').usesMx = some m → t' = t := by
    intro h0 t' ht'
    have h1 := (usr m t').mpr ht'
    exact mem_of_length_le_one (by omega) h1 husr
  have hrn := rnd m
  have hw : (s.rws m).w = some t := (wo m t).mpr (by simp [heq, PC.wOwner])
  have hrel : (s.rws m).release t .w = some { (s.rws m) with w := none } := by
    simp [RW.release, hw]
  rw [hitem] at hs
  simp only [hrel] at hs
  simp only [rc, Bool.not_true, Bool.false_or, Option.some.injEq] at hs
  subst hs
  by_cases hdel : (del = true ∧ (s.rws m).refs - 1 ≤ 0)
  · have hu := huniq hdel.2
    obtain ⟨hd1, hd2⟩ := hdel
    simp [hd1, hd2]
    cm_close
  · have hne : (del && decide ((s.rws m).refs - 1 ≤ 0)) = false := by
      cases del <;> simp_all
    simp [hne]
    cm_close

theorem inv_tau_ul_r (s : State) (t : Tid) (alt : Nat) (s' : State) (h : Inv s)
    (k : Key) (m : Nat) (del : Bool) (heq : s.pcs t = .ulCalled k .r m del)
    (hs : step s (.tau t alt) = some s') : Inv s' := by
  obtain ⟨rc, bnd, pbnd, ptr, usr, refs, wo, ro, rnd, excl⟩ := h
  simp only [step, heq] at hs
  have hitem : s.items k = some m := ptr t k m (by simp [heq, PC.ptr])
  have husr : t ∈ (s.rws m).users := (usr m t).mpr (by simp [heq, PC.usesMx])
  have hrefs := refs m
  have huniq : (s.rws m).refs - 1 ≤ 0 → ∀ t', (s.pcs t').usesMx = some m → t' = t := by
    intro h0 t' ht'
    have h1 := (usr m t').mpr ht'
    exact mem_of_length_le_one (by omega) h1 husr
  have hrn := rnd m
  have hr : t ∈ (s.rws m).rs := (ro m t).mpr (by simp [heq, PC.rOwner])
  have hrel : (s.rws m).release t .r = some { (s.rws m) with rs := (s.rws m).rs.erase t } := by
    unfold RW.release
    cases hrs : (s.rws m).rs with
    | nil => rw [hrs] at hr; simp at hr
    | cons a rest =>
      have hr' : t ∈ a :: rest := hrs ▸ hr
      simp only [if_pos hr']
  rw [hitem] at hs
  simp only [hrel] at hs
  simp only [rc, Bool.not_true, Bool.false_or, Option.some.injEq] at hs
  subst hs
  by_cases hdel : (del = true ∧ (s.rws m).refs - 1 ≤ 0)
  · have hu := huniq hdel.2
    obtain ⟨hd1, hd2⟩ := hdel
    simp [hd1, hd2]
    cm_close
  · have hne : (del && decide ((s.rws m).refs - 1 ≤ 0)) = false := by
      cases del <;> simp_all
    simp [hne]
    cm_close

theorem inv_tau (s : State) (t : Tid) (alt : Nat) (s' : State) (h : Inv s)
    (hs : step s (.tau t alt) = some s') (hsafe : ¬ unsafeDelete s (.tau t alt)) : Inv s' := by
  obtain ⟨rc, bnd, pbnd, ptr, usr, refs, wo, ro, rnd, excl⟩ := h
  simp only [step] at hs
  simp only [unsafeDelete] at hsafe
  split at hs
  · -- lkCalled
    split at hs <;> simp at hs <;> subst hs
    · cm_close
    · cm_close
  · -- lkMiss
    split at hs <;> simp at hs <;> subst hs
    · cm_close
    · cm_close
  · -- lkFound
    rename_i k md m heq
    split at hs <;> simp at hs; subst hs
    cases md <;> cm_close
  · -- ulCalled
    rename_i k md m del heq
    cases md
    · exact inv_tau_ul_w s t alt s' ⟨rc, bnd, pbnd, ptr, usr, refs, wo, ro, rnd, excl⟩ k m del heq (by simpa [step, heq] using hs)
    · exact inv_tau_ul_r s t alt s' ⟨rc, bnd, pbnd, ptr, usr, refs, wo, ro, rnd, excl⟩ k m del heq (by simpa [step, heq] using hs)
  · -- delCalled
    rename_i k heq
    rw [heq] at hsafe; simp at hsafe
    simp at hs; subst hs; cm_close
  · -- clrCalled
    rename_i heq
    rw [heq] at hsafe; simp at hsafe
    simp at hs; subst hs; cm_close
  · -- cntCalled
    simp at hs; subst hs; cm_close
  · simp at hs

theorem inv_step (s : State) (a : L) (s' : State) (h : Inv s) (hs : step s a = some s')
    (hsafe : ¬ unsafeDelete s a) : Inv s' := by
  cases a with
  | call t op => exact inv_call s t op s' h hs
  | tau t alt => exact inv_tau s t alt s' h hs hsafe
  | ret t r => exact inv_ret s t r s' h hs
  | probe t p => exact inv_probe s t p s' h hs
  | sys i alt => simp [step] at hs
  | env e => simp [step] at hs

theorem inv_reach (n nk : Nat) (s : State) (h : ReachNoDelete (init true n nk) s) : Inv s := by
  induction h with
  | init => exact inv_init n nk
  | next _ hstep hsafe ih => exact inv_step _ _ _ ih hstep hsafe

/-- a label that is certainly not a `Delete`/`Clear` section -/
def notDeleteSection (s : State) : L → Bool
  | .tau t _ => match s.pcs t with
    | .delCalled _ | .clrCalled => false
    | _ => true
  | _ => true

theorem not_unsafe_of_notDeleteSection {s : State} {a : L} (h : notDeleteSection s a = true) :
    ¬ unsafeDelete s a := by
  cases a <;> simp [unsafeDelete]
  rename_i t alt
  simp only [notDeleteSection] at h
  split <;> simp_all

/-- run a label list under a policy, refusing delete sections -/
def runUnder (policy : State → L → Bool) (s : State) : List L → Option State
  | [] => some s
  | a :: as =>
    if policy s a && notDeleteSection s a then
      match step s a with
      | some s' => runUnder policy s' as
      | none => none
    else none

theorem ReachNoDeleteUnder.of_runUnder {policy : State → L → Bool} {s0 s s' : State}
    (h : ReachNoDeleteUnder policy s0 s) : ∀ {as : List L}, runUnder policy s as = some s' →
    ReachNoDeleteUnder policy s0 s' := by
  intro as
  induction as generalizing s with
  | nil => intro e; simp [runUnder] at e; exact e ▸ h
  | cons a as ih =>
    intro e
    simp only [runUnder] at e
    split at e
    · rename_i hp
      simp at hp
      cases hs : step s a with
      | none => simp [hs] at e
      | some s1 =>
        rw [hs] at e
        exact ih (ReachNoDeleteUnder.next h hp.1 hs (not_unsafe_of_notDeleteSection hp.2)) e
    · simp at e

end Kit.Locks.CMap
