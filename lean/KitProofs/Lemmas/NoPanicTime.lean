import KitModel.NoPanicTime
/-! Helper lemmas for C07: the index/slice arithmetic of `ParseISO8601Duration` stays in bounds. -/
namespace Kit.NoPanic.Time
open Kit Kit.NoPanic

theorem scanR_ok (s : Bytes) : ∀ (fuel i : Nat), i < s.length → s.length - i ≤ fuel →
    ∃ j, scanR s fuel i = .ok j ∧ i < j ∧ j ≤ s.length := by
  intro fuel
  induction fuel with
  | zero => intro i h1 h2; omega
  | succ n ih =>
    intro i h1 h2
    unfold scanR
    by_cases hEq : (i + 1 == s.length) = true
    · simp only [hEq, if_true]
      have : i + 1 = s.length := by simpa using hEq
      exact ⟨i + 1, rfl, by omega, by omega⟩
    · have hne : i + 1 ≠ s.length := by simpa using hEq
      have hlt : i + 1 < s.length := by omega
      simp only [hEq, idx_ok hlt, bind_ok]
      by_cases hc : (s[i + 1] == 47) = true
      · simp only [hc, if_true]
        exact ⟨i + 1, rfl, by omega, by omega⟩
      · simp only [hc]
        obtain ⟨j, hj, h3, h4⟩ := ih (i + 1) hlt (by omega)
        exact ⟨j, hj, by omega, h4⟩

/-- `numField` either fails with an error or succeeds with `start = i + 1`. -/
theorem numField_spec (s : Bytes) (i : Nat) (st : St) (k : Int → St → St)
    (h1 : st.start ≤ i) (h2 : i ≤ s.length) :
    (∃ e, numField s i st k = .err e) ∨ (∃ st', numField s i st k = .ok st' ∧ st'.start = i + 1) := by
  unfold numField
  rw [slice_ok h1 h2]
  simp only [bind_ok]
  cases atoi ((s.drop st.start).take (i - st.start)) with
  | none => left; exact ⟨_, rfl⟩
  | some v => right; exact ⟨_, rfl, rfl⟩

/-- outcome of one loop iteration: an error, or a state whose `start` is at most `i + 1` -/
def Good (i : Nat) (o : Outcome St) : Prop :=
  (∃ e, o = .err e) ∨ (∃ st', o = .ok st' ∧ st'.start ≤ i + 1)

theorem good_bad (i : Nat) : Good i (bad : Outcome St) := Or.inl ⟨_, rfl⟩

theorem good_ite (i : Nat) (c : Prop) [Decidable c] (a b : Outcome St) (ha : Good i a) (hb : Good i b) :
    Good i (if c then a else b) := by
  by_cases h : c
  · rw [if_pos h]; exact ha
  · rw [if_neg h]; exact hb

theorem isoStep_spec (s : Bytes) (i : Nat) (st : St) (h1 : st.start ≤ i) (h2 : i < s.length) :
    Good i (isoStep s i st) := by
  have lift : ∀ k, Good i (numField s i st k) := by
    intro k
    rcases numField_spec s i st k h1 (Nat.le_of_lt h2) with h | ⟨st', h, hs⟩
    · exact Or.inl h
    · exact Or.inr ⟨st', h, by omega⟩
  have hT : Good i (.ok { st with inTime := true, start := i + 1 }) := Or.inr ⟨_, rfl, Nat.le_refl _⟩
  have hSt : Good i (.ok st) := Or.inr ⟨st, rfl, by omega⟩
  rw [isoStep, idx_ok h2, bind_ok]
  refine good_ite _ _ _ _ (good_ite _ _ _ _ (good_bad i) hT) ?_
  refine good_ite _ _ _ _ (good_ite _ _ _ _ (good_bad i) (lift _)) ?_
  refine good_ite _ _ _ _ (good_ite _ _ _ _ (good_bad i) (lift _)) ?_
  refine good_ite _ _ _ _ (good_ite _ _ _ _ (good_bad i) (lift _)) ?_
  refine good_ite _ _ _ _ (good_ite _ _ _ _ (good_bad i) (lift _)) ?_
  refine good_ite _ _ _ _ (good_ite _ _ _ _ (good_bad i) (lift _)) ?_
  exact good_ite _ _ _ _ (good_ite _ _ _ _ (good_bad i) (lift _)) hSt

theorem isoLoop_noPanic (s : Bytes) : ∀ (fuel i : Nat) (st : St), st.start ≤ i → s.length - i ≤ fuel →
    (isoLoop s fuel i st).isPanic = false := by
  intro fuel
  induction fuel with
  | zero =>
    intro i st h1 h2
    unfold isoLoop
    have : ¬ i < s.length := by omega
    simp [this]
  | succ n ih =>
    intro i st h1 h2
    unfold isoLoop
    by_cases hlt : i < s.length
    · simp only [hlt, if_true]
      rcases isoStep_spec s i st h1 hlt with ⟨e, he⟩ | ⟨st', he, hs⟩
      · simp [he]
      · simp only [he, bind_ok]
        exact ih (i + 1) st' hs (by omega)
    · simp [hlt]

theorem isoBody_noPanic (s : Bytes) (i : Nat) (rep : Int) (h : i < s.length) :
    (isoBody s i rep).isPanic = false := by
  unfold isoBody
  rw [idx_ok h]
  simp only [bind_ok]
  split
  · rfl
  · have := isoLoop_noPanic s s.length (i + 1)
      { start := i + 1, inTime := false, years := 0, months := 0, days := 0, dur := 0 } (Nat.le_refl _) (by omega)
    revert this
    cases isoLoop s s.length (i + 1) { start := i + 1, inTime := false, years := 0, months := 0, days := 0, dur := 0 } <;> simp

theorem parseISO8601_noPanic (s : Bytes) : (parseISO8601 s).isPanic = false := by
  unfold parseISO8601
  by_cases hl : s.length < 2
  · simp [hl, bad]
  · simp only [hl, if_false]
    have h0 : 0 < s.length := by omega
    rw [idx_ok h0]
    simp only [bind_ok]
    split
    · obtain ⟨j, hj, h3, h4⟩ := scanR_ok s s.length 0 h0 (by omega)
      simp only [hj, bind_ok]
      split
      · rfl
      · rw [slice_ok (by omega) h4]
        simp only [bind_ok]
        cases atoi ((s.drop 1).take (j - 1)) with
        | none => rfl
        | some r =>
          simp only
          split
          · rfl
          · exact isoBody_noPanic s (j + 1) r (by omega)
    · exact isoBody_noPanic s 0 (-1) h0

end Kit.NoPanic.Time
