import KitModel.TTLCache
/-! Helper lemmas for C15 (ttlcache): the association map, time arithmetic, the history scan. -/
namespace Kit.TTLCache

/-- `omega` after unfolding the regenerated source constants (the comparison operators unfold by
themselves: `Cmp.rel` is reducible). -/
macro "src_omega" : tactic =>
  `(tactic| first
    | omega
    | (simp only [Src.capEnabledBound, Src.ttlUnitNs, Src.setPanicBound, Src.intervalDefaultBound,
        Src.intervalDefaultNs, Src.capEnabledCmp, Src.capCmp, Src.getHitCmp, Src.cleanupCmp,
        Src.setPanicCmp, Src.intervalDefaultCmp, Src.Cmp.rel, second, badTTL] at *; omega))

/-! ### the map -/

theorem mget_delKeys {α : Type} (m : AMap α) (ks : List Key) (k : Key) :
    mget (mdelKeys m ks) k = if k ∈ ks then none else mget m k := by
  induction m with
  | nil => simp [mdelKeys, mget]
  | cons p m ih =>
    obtain ⟨k', e⟩ := p
    unfold mdelKeys at ih ⊢
    by_cases hk' : k' ∈ ks
    · have h1 : List.filter (fun p : Key × α => !ks.contains p.1) ((k', e) :: m)
          = List.filter (fun p : Key × α => !ks.contains p.1) m := by
        simp [hk']
      rw [h1, ih]
      by_cases hk : k ∈ ks
      · simp [hk]
      · have hne : k ≠ k' := fun h => hk (h ▸ hk')
        simp [hk, mget, hne]
    · have h1 : List.filter (fun p : Key × α => !ks.contains p.1) ((k', e) :: m)
          = (k', e) :: List.filter (fun p : Key × α => !ks.contains p.1) m := by
        simp [hk']
      rw [h1]
      simp only [mget]
      rw [ih]
      by_cases hkk : k = k'
      · subst hkk; simp [hk']
      · simp [hkk]

theorem mget_delKeys_single {α : Type} (m : AMap α) (k' k : Key) :
    mget (mdelKeys m [k']) k = if k = k' then none else mget m k := by
  rw [mget_delKeys]; simp

theorem mget_put {α : Type} (m : AMap α) (k' : Key) (e : α) (k : Key) :
    mget (mput m k' e) k = if k = k' then some e else mget m k := by
  unfold mput
  simp only [mget]
  by_cases h : k = k'
  · simp [h]
  · simp [h, mget_delKeys_single]

theorem mem_mkeys_of_mget {α : Type} (m : AMap α) (k : Key) (e : α) (h : mget m k = some e) :
    k ∈ mkeys m := by
  induction m with
  | nil => simp [mget] at h
  | cons p m ih =>
    obtain ⟨k', e'⟩ := p
    simp only [mget] at h
    by_cases hk : k = k'
    · simp [mkeys, hk]
    · simp only [hk, if_false] at h
      have := ih h
      simp [mkeys] at this ⊢
      exact Or.inr this

theorem mem_mkeysWhere {α : Type} (m : AMap α) (p : α → Bool) (k : Key) :
    k ∈ mkeysWhere m p ↔ ∃ e, mget m k = some e ∧ p e = true := by
  unfold mkeysWhere
  rw [List.mem_filter]
  constructor
  · rintro ⟨_, h⟩
    cases hg : mget m k with
    | none => simp [hg] at h
    | some e => exact ⟨e, rfl, by simpa [hg] using h⟩
  · rintro ⟨e, hg, hp⟩
    exact ⟨mem_mkeys_of_mget m k e hg, by simp [hg, hp]⟩

/-! ### time -/

theorem wrap64_id (x : Int) (h1 : -9223372036854775808 ≤ x) (h2 : x < 9223372036854775808) :
    wrap64 x = x := by
  unfold wrap64; omega

theorem effTTL_pos (maxTTL ttl : Int) (h : 0 < ttl) : 0 < effTTL maxTTL ttl := by
  unfold effTTL; split <;> src_omega

theorem effTTL_le (maxTTL ttl : Int) : effTTL maxTTL ttl ≤ ttl := by
  unfold effTTL; split <;> src_omega

theorem effTTL_capped (maxTTL ttl : Int) (h : 0 < maxTTL) : effTTL maxTTL ttl = min ttl maxTTL := by
  unfold effTTL; split <;> src_omega

theorem effTTL_uncapped (maxTTL ttl : Int) (h : maxTTL ≤ 0) : effTTL maxTTL ttl = ttl := by
  unfold effTTL; split <;> src_omega

/-- Under the explicit overflow bound, Go's wrapped product is the mathematical product. -/
theorem durNs_exact (maxTTL ttl : Int) (hpos : 0 < ttl) (hno : NoOverflow maxTTL ttl) :
    durNs maxTTL ttl = effTTL maxTTL ttl * second := by
  unfold durNs
  apply wrap64_id
  · have := effTTL_pos maxTTL ttl hpos
    src_omega
  · exact hno

/-! ### the history scan -/

theorem lastLive_acc (k : Key) (h : List Op) (acc : Nat) :
    lastLive k h acc = (lastLive k h 0).map (fun r => (r.1, r.2.1, r.2.2 + acc)) := by
  induction h generalizing acc with
  | nil => simp [lastLive]
  | cons o h ih =>
    cases o with
    | set k' v ttl =>
      simp only [lastLive]
      split
      · simp
      · exact ih acc
    | get k' => simpa [lastLive] using ih acc
    | delete k' =>
      simp only [lastLive]
      split
      · simp
      · exact ih acc
    | cleanup => simpa [lastLive] using ih acc
    | reset => simp [lastLive]
    | advance d =>
      simp only [lastLive]
      rw [ih (acc + d), ih (0 + d)]
      cases lastLive k h 0 with
      | none => simp
      | some r => simp [Nat.add_comm, Nat.add_left_comm]

theorem run_append (c : Cache) (h : List Op) (o : Op) : run c (h ++ [o]) = (step (run c h) o).1 := by
  simp [run, List.foldl_append]

theorem run_maxTTL (c : Cache) (h : List Op) : (run c h).maxTTL = c.maxTTL := by
  induction h generalizing c with
  | nil => rfl
  | cons o h ih =>
    simp only [run, List.foldl_cons]
    have := ih (step c o).1
    simp only [run] at this
    rw [this]
    cases o <;> simp [step, doSet, doCleanup, doReset] <;> split <;> simp

/-! ### the sequential simulation invariant: the stored map agrees with the history scan -/

/-- `c` (reached by the history whose reverse is `hrev`) agrees with the reference on key `k`. -/
structure Agree (c : Cache) (hrev : List Op) (k : Key) : Prop where
  absent : lastLive k hrev 0 = none → mget c.m k = none
  present : ∀ v ttl el e, lastLive k hrev 0 = some (v, ttl, el) → mget c.m k = some e →
      e.val = v ∧ e.exp = c.now - (el : Int) + durNs c.maxTTL ttl
  cleaned : ∀ v ttl el, lastLive k hrev 0 = some (v, ttl, el) → mget c.m k = none →
      durNs c.maxTTL ttl < (el : Int)

theorem agree_init (maxTTL t0 : Int) (k : Key) : Agree (Cache.init maxTTL t0) [] k :=
  ⟨fun _ => rfl, fun _ _ _ _ h => by simp [lastLive] at h, fun _ _ _ h => by simp [lastLive] at h⟩

theorem agree_step (c : Cache) (hrev : List Op) (o : Op) (k : Key) (h : Agree c hrev k) :
    Agree (step c o).1 (o :: hrev) k := by
  obtain ⟨ha, hp, hc⟩ := h
  cases o with
  | set k' v ttl =>
    by_cases httl : ttl ≤ 0
    · have hl : lastLive k (Op.set k' v ttl :: hrev) 0 = lastLive k hrev 0 := by
        simp only [lastLive]; rw [if_neg]; omega
      simp only [step, if_pos httl]
      exact ⟨fun h => ha (hl ▸ h), fun v t el e h1 h2 => hp v t el e (hl ▸ h1) h2,
             fun v t el h1 h2 => hc v t el (hl ▸ h1) h2⟩
    · have hpos : 0 < ttl := by omega
      simp only [step, if_neg httl]
      by_cases hk : k' = k
      · subst hk
        have hl : lastLive k' (Op.set k' v ttl :: hrev) 0 = some (v, ttl, 0) := by
          simp [lastLive, hpos]
        refine ⟨(fun h => by rw [hl] at h; cases h), ?_, ?_⟩
        · intro v1 t1 el1 e h1 h2
          rw [hl] at h1
          simp only [doSet, mget_put, if_true] at h2
          cases h1; cases h2
          simp [doSet]
        · intro v1 t1 el1 h1 h2
          simp [doSet, mget_put] at h2
      · have hl : lastLive k (Op.set k' v ttl :: hrev) 0 = lastLive k hrev 0 := by
          simp [lastLive, hk]
        have hm : mget (doSet c k' v ttl).m k = mget c.m k := by
          have : k ≠ k' := fun h => hk h.symm
          simp [doSet, mget_put, this]
        exact ⟨fun h => by rw [hm]; exact ha (hl ▸ h),
               fun v t el e h1 h2 => hp v t el e (hl ▸ h1) (hm ▸ h2),
               fun v t el h1 h2 => hc v t el (hl ▸ h1) (hm ▸ h2)⟩
  | get k' => exact ⟨ha, hp, hc⟩
  | delete k' =>
    simp only [step]
    by_cases hk : k' = k
    · subst hk
      have hl : lastLive k' (Op.delete k' :: hrev) 0 = none := by simp [lastLive]
      refine ⟨fun _ => by simp [mget_delKeys_single], ?_, ?_⟩
      · intro v t el e h1; rw [hl] at h1; cases h1
      · intro v t el h1; rw [hl] at h1; cases h1
    · have hl : lastLive k (Op.delete k' :: hrev) 0 = lastLive k hrev 0 := by simp [lastLive, hk]
      have hm : mget (mdelKeys c.m [k']) k = mget c.m k := by
        have : k ≠ k' := fun h => hk h.symm
        simp [mget_delKeys_single, this]
      exact ⟨fun h => by simp only [hm]; exact ha (hl ▸ h),
             fun v t el e h1 h2 => hp v t el e (hl ▸ h1) (by simpa only [hm] using h2),
             fun v t el h1 h2 => hc v t el (hl ▸ h1) (by simpa only [hm] using h2)⟩
  | cleanup =>
    have hl : lastLive k (Op.cleanup :: hrev) 0 = lastLive k hrev 0 := by simp [lastLive]
    simp only [step, doCleanup]
    refine ⟨?_, ?_, ?_⟩
    · intro h
      simp only [mget_delKeys]
      split
      · rfl
      · exact ha (hl ▸ h)
    · intro v t el e h1 h2
      simp only [mget_delKeys] at h2
      split at h2
      · cases h2
      · exact hp v t el e (hl ▸ h1) h2
    · intro v t el h1 h2
      simp only [mget_delKeys] at h2
      split at h2
      · rename_i hmem
        obtain ⟨e, hg, hexp⟩ := (mem_mkeysWhere _ _ _).1 hmem
        have := (hp v t el e (hl ▸ h1) hg).2
        simp only [expiredAt, decide_eq_true_eq] at hexp
        show durNs c.maxTTL t < (el : Int)
        omega
      · exact hc v t el (hl ▸ h1) h2
  | reset =>
    have hl : lastLive k (Op.reset :: hrev) 0 = none := by simp [lastLive]
    simp only [step, doReset]
    refine ⟨?_, ?_, ?_⟩
    · intro _
      simp only [mget_delKeys]
      split
      · rfl
      · rename_i hn
        cases hg : mget c.m k with
        | none => rfl
        | some e => exact absurd ((mem_mkeysWhere _ _ _).2 ⟨e, hg, rfl⟩) hn
    · intro v t el e h1; rw [hl] at h1; cases h1
    · intro v t el h1; rw [hl] at h1; cases h1
  | advance d =>
    have hl : lastLive k (Op.advance d :: hrev) 0
        = (lastLive k hrev 0).map (fun r => (r.1, r.2.1, r.2.2 + d)) := by
      simp only [lastLive]; rw [lastLive_acc]; simp
    simp only [step]
    refine ⟨?_, ?_, ?_⟩
    · intro h
      rw [hl] at h
      cases hll : lastLive k hrev 0 with
      | none => exact ha hll
      | some r => simp [hll] at h
    · intro v t el e h1 h2
      rw [hl] at h1
      cases hll : lastLive k hrev 0 with
      | none => simp [hll] at h1
      | some r =>
        obtain ⟨v0, t0, el0⟩ := r
        simp only [hll, Option.map_some, Option.some.injEq, Prod.mk.injEq] at h1
        obtain ⟨rfl, rfl, rfl⟩ := h1
        have := hp v0 t0 el0 e hll h2
        refine ⟨this.1, ?_⟩
        have h3 := this.2
        simp only [Int.natCast_add]
        omega
    · intro v t el h1 h2
      rw [hl] at h1
      cases hll : lastLive k hrev 0 with
      | none => simp [hll] at h1
      | some r =>
        obtain ⟨v0, t0, el0⟩ := r
        simp only [hll, Option.map_some, Option.some.injEq, Prod.mk.injEq] at h1
        obtain ⟨rfl, rfl, rfl⟩ := h1
        have := hc v0 t0 el0 hll h2
        simp only [Int.natCast_add]
        omega

theorem agree_run_from (c : Cache) (hrev : List Op) (k : Key) (h : Agree c hrev k) (ops : List Op) :
    Agree (run c ops) (ops.reverse ++ hrev) k := by
  induction ops generalizing c hrev with
  | nil => simpa [run] using h
  | cons o ops ih =>
    have := ih (step c o).1 (o :: hrev) (agree_step c hrev o k h)
    simpa [run, List.reverse_cons, List.append_assoc] using this

theorem agree_run (maxTTL t0 : Int) (hist : List Op) (k : Key) :
    Agree (run (Cache.init maxTTL t0) hist) hist.reverse k := by
  simpa using agree_run_from _ [] k (agree_init maxTTL t0 k) hist

/-- The `Set` found by the scan is in the history and was a successful one. -/
theorem lastLive_mem (k : Key) (v : Val) (ttl : Int) (el : Nat) :
    ∀ (l : List Op) (acc : Nat), lastLive k l acc = some (v, ttl, el) →
      Op.set k v ttl ∈ l ∧ 0 < ttl := by
  intro l
  induction l with
  | nil => intro acc h; simp [lastLive] at h
  | cons o l ih =>
    intro acc h
    cases o with
    | set k' v'' ttl' =>
      simp only [lastLive] at h
      split at h
      · rename_i hc
        simp only [Option.some.injEq, Prod.mk.injEq] at h
        obtain ⟨rfl, rfl, _⟩ := h
        exact ⟨by simp [hc.1], hc.2⟩
      · have := ih acc h
        exact ⟨List.mem_cons_of_mem _ this.1, this.2⟩
    | get k' => simp only [lastLive] at h; have := ih acc h; exact ⟨List.mem_cons_of_mem _ this.1, this.2⟩
    | delete k' =>
      simp only [lastLive] at h
      split at h
      · cases h
      · have := ih acc h; exact ⟨List.mem_cons_of_mem _ this.1, this.2⟩
    | cleanup => simp only [lastLive] at h; have := ih acc h; exact ⟨List.mem_cons_of_mem _ this.1, this.2⟩
    | reset => simp [lastLive] at h
    | advance d => simp only [lastLive] at h; have := ih _ h; exact ⟨List.mem_cons_of_mem _ this.1, this.2⟩

/-! ### observational equivalence (for `cleanup_unobservable`) -/

/-- The entry `Get k` would serve, if any. -/
def live (c : Cache) (k : Key) : Option Entry :=
  match mget c.m k with
  | some e => if c.now < e.exp then some e else none
  | none => none

theorem getOf_eq_live (c : Cache) (k : Key) : getOf c k = (live c k).map (·.val) := by
  unfold getOf live
  cases mget c.m k with
  | none => rfl
  | some e =>
    by_cases h : c.now < e.exp
    · have h' : Src.getHitCmp.rel e.exp c.now := h
      simp [h, h']
    · have h' : ¬ Src.getHitCmp.rel e.exp c.now := h
      simp [h, h']

/-- Two caches no sequence of operations can tell apart: same clock, same configuration, same
servable entries (stored-but-expired entries may differ). -/
def ObsEq (c1 c2 : Cache) : Prop :=
  c1.now = c2.now ∧ c1.maxTTL = c2.maxTTL ∧ ∀ k, live c1 k = live c2 k

theorem live_cleanup (c : Cache) (k : Key) : live (doCleanup c) k = live c k := by
  unfold live
  have hm : mget (doCleanup c).m k
      = if k ∈ mkeysWhere c.m (expiredAt c.now) then none else mget c.m k := by
    simp [doCleanup, mget_delKeys]
  rw [hm]
  by_cases hmem : k ∈ mkeysWhere c.m (expiredAt c.now)
  · rw [if_pos hmem]
    obtain ⟨e, hg, hexp⟩ := (mem_mkeysWhere _ _ _).1 hmem
    simp only [expiredAt, decide_eq_true_eq] at hexp
    have hlt : e.exp < c.now := hexp
    have : ¬ c.now < e.exp := by omega
    simp [hg, this]
  · rw [if_neg hmem]
    rfl

theorem live_reset (c : Cache) (k : Key) : live (doReset c) k = none := by
  unfold live
  have hm : mget (doReset c).m k = none := by
    simp only [doReset, mget_delKeys]
    split
    · rfl
    · rename_i hn
      cases hg : mget c.m k with
      | none => rfl
      | some e => exact absurd ((mem_mkeysWhere _ _ _).2 ⟨e, hg, rfl⟩) hn
  rw [hm]

theorem live_advance (c : Cache) (d : Nat) (k : Key) :
    live { c with now := c.now + d } k
      = (live c k).bind (fun e => if c.now + d < e.exp then some e else none) := by
  unfold live
  cases mget c.m k with
  | none => rfl
  | some e =>
    by_cases h1 : c.now + (d : Int) < e.exp
    · have h2 : c.now < e.exp := by omega
      simp [h1, h2]
    · by_cases h2 : c.now < e.exp
      · simp [h1, h2]
      · simp [h1, h2]

theorem live_set (c : Cache) (k' : Key) (v : Val) (ttl : Int) (k : Key) :
    live (doSet c k' v ttl) k
      = if k = k' then
          (if c.now < c.now + durNs c.maxTTL ttl then some ⟨v, c.now + durNs c.maxTTL ttl⟩ else none)
        else live c k := by
  unfold live
  simp only [doSet, mget_put]
  by_cases hk : k = k'
  · simp only [hk, if_true]; rfl
  · simp only [hk, if_false]; rfl

theorem live_delete (c : Cache) (k' k : Key) :
    live { c with m := mdelKeys c.m [k'] } k = if k = k' then none else live c k := by
  unfold live
  simp only [mget_delKeys_single]
  by_cases hk : k = k'
  · simp [hk]
  · simp [hk]

theorem obsEq_step {c1 c2 : Cache} (h : ObsEq c1 c2) (o : Op) :
    ObsEq (step c1 o).1 (step c2 o).1 ∧ (step c1 o).2 = (step c2 o).2 := by
  obtain ⟨hn, hx, hl⟩ := h
  cases o with
  | set k v ttl =>
    simp only [step]
    by_cases hb : badTTL ttl
    · simp only [if_pos hb]; exact ⟨⟨hn, hx, hl⟩, by first | rfl | trivial⟩
    · simp only [if_neg hb]
      refine ⟨⟨hn, hx, fun k' => ?_⟩, by first | rfl | trivial⟩
      rw [live_set, live_set, hn, hx, hl k']
  | get k =>
    simp only [step]
    refine ⟨⟨hn, hx, hl⟩, ?_⟩
    rw [getOf_eq_live, getOf_eq_live, hl k]
  | delete k =>
    simp only [step]
    refine ⟨⟨hn, hx, fun k' => ?_⟩, by first | rfl | trivial⟩
    rw [live_delete, live_delete, hl k']
  | cleanup =>
    simp only [step]
    refine ⟨⟨hn, hx, fun k' => ?_⟩, by first | rfl | trivial⟩
    rw [live_cleanup, live_cleanup, hl k']
  | reset =>
    simp only [step]
    refine ⟨⟨hn, hx, fun k' => ?_⟩, by first | rfl | trivial⟩
    rw [live_reset, live_reset]
  | advance d =>
    simp only [step]
    refine ⟨⟨by simp [hn], hx, fun k' => ?_⟩, by first | rfl | trivial⟩
    rw [live_advance, live_advance, hl k', hn]

theorem obsEq_outputs {c1 c2 : Cache} (h : ObsEq c1 c2) (ops : List Op) :
    outputs c1 ops = outputs c2 ops := by
  induction ops generalizing c1 c2 with
  | nil => rfl
  | cons o ops ih =>
    obtain ⟨h1, h2⟩ := obsEq_step h o
    simp only [outputs, h2, ih h1]

end Kit.TTLCache
