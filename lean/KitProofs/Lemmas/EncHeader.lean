/-
`readHeader`: the byte-wise scan, and the loop over reader scripts.
-/
import KitModel.Enc
import KitProofs.Lemmas.EncReader

namespace Kit.Enc
open Kit

def hdrBytes (scheme ml cl : Bytes) : Bytes := scheme ++ [10] ++ ml ++ [10] ++ cl ++ [10]

structure HdrWF (scheme ml cl : Bytes) : Prop where
  scheme_ne : scheme ≠ []
  scheme_nl : (10 : UInt8) ∉ scheme
  ml_ne : ml ≠ []
  ml_nl : (10 : UInt8) ∉ ml
  cl_ne : cl ≠ []
  cl_nl : (10 : UInt8) ∉ cl

theorem hdrScan_cons (scheme st b bs) :
    hdrScan scheme st (b :: bs) = match hdrStep scheme st b with
      | .error e => .error e
      | .ok st' => hdrScan scheme st' bs := rfl

theorem hdrScan_append (scheme : Bytes) : ∀ (a b : Bytes) (st : HdrState),
    hdrScan scheme st (a ++ b) = match hdrScan scheme st a with
      | .error e => .error e
      | .ok st' => hdrScan scheme st' b := by
  intro a
  induction a with
  | nil => intro b st; rfl
  | cons x xs ih =>
    intro b st
    rw [List.cons_append, hdrScan_cons, hdrScan_cons]
    cases hdrStep scheme st x with
    | error e => rfl
    | ok st' => exact ih b st'

theorem hdrScan_line (scheme : Bytes) : ∀ (bs : Bytes) (st : HdrState), st.newlines < 3 → (10 : UInt8) ∉ bs →
    hdrScan scheme st bs = .ok { st with curRev := bs.reverse ++ st.curRev } := by
  intro bs
  induction bs with
  | nil => intro st _ _; rfl
  | cons b bs ih =>
    intro st hn hnl
    have hb : b ≠ 10 := fun h => hnl (by simp [h])
    have hbs : (10 : UInt8) ∉ bs := fun h => hnl (by simp [h])
    have hstep : hdrStep scheme st b = .ok { st with curRev := b :: st.curRev } := by
      have : ¬ st.newlines ≥ 3 := by omega
      simp [hdrStep, this, hb]
    rw [hdrScan_cons, hstep]
    simp only []
    rw [ih { st with curRev := b :: st.curRev } hn hbs]
    simp

theorem hdrScan_extra (scheme : Bytes) : ∀ (bs : Bytes) (st : HdrState), 3 ≤ st.newlines →
    hdrScan scheme st bs = .ok { st with curRev := bs.reverse ++ st.curRev } := by
  intro bs
  induction bs with
  | nil => intro st _; rfl
  | cons b bs ih =>
    intro st hn
    have hstep : hdrStep scheme st b = .ok { st with curRev := b :: st.curRev } := by
      simp [hdrStep, hn]
    rw [hdrScan_cons, hstep]
    simp only []
    rw [ih { st with curRev := b :: st.curRev } hn]
    simp

/-- Scanning a complete well-formed header from the initial state. -/
theorem hdrScan_header (scheme ml cl : Bytes) (wf : HdrWF scheme ml cl) :
    hdrScan scheme {} (hdrBytes scheme ml cl) =
      .ok { newlines := 3, curRev := [], manifest := ml, mac := cl } := by
  unfold hdrBytes
  have hs : scheme.reverse ≠ [] := by simpa using wf.scheme_ne
  have hm : ml.reverse ≠ [] := by simpa using wf.ml_ne
  have hc : cl.reverse ≠ [] := by simpa using wf.cl_ne
  simp only [List.append_assoc]
  rw [hdrScan_append, hdrScan_line scheme scheme {} (by simp) wf.scheme_nl]
  simp only [List.append_nil]
  rw [List.singleton_append, hdrScan_cons]
  have h1 : hdrStep scheme { curRev := scheme.reverse } 10 = .ok { newlines := 1, curRev := [] } := by
    simp [hdrStep, wf.scheme_ne]
  rw [h1]
  simp only []
  rw [hdrScan_append, hdrScan_line scheme ml _ (by simp) wf.ml_nl]
  simp only [List.append_nil]
  rw [List.singleton_append, hdrScan_cons]
  have h2 : hdrStep scheme { newlines := 1, curRev := ml.reverse } 10 =
      .ok { newlines := 2, curRev := [], manifest := ml } := by
    simp [hdrStep, wf.ml_ne]
  rw [h2]
  simp only []
  rw [hdrScan_append, hdrScan_line scheme cl _ (by simp) wf.cl_nl]
  simp only [List.append_nil]
  rw [hdrScan_cons]
  have h3 : hdrStep scheme { newlines := 2, curRev := cl.reverse, manifest := ml } 10 =
      .ok { newlines := 3, curRev := [], manifest := ml, mac := cl } := by
    simp [hdrStep, wf.cl_ne]
  rw [h3]
  rfl

/-- The newline counter is the number of line feeds scanned, capped at three. -/
theorem hdrScan_newlines (scheme : Bytes) : ∀ (bs : Bytes) (st st' : HdrState), st.newlines ≤ 3 →
    hdrScan scheme st bs = .ok st' → st'.newlines = min 3 (st.newlines + bs.count 10) := by
  intro bs
  induction bs with
  | nil =>
    intro st st' h hs
    simp only [hdrScan] at hs
    cases hs
    simp; omega
  | cons b bs ih =>
    intro st st' h hs
    rw [hdrScan_cons] at hs
    cases hstep : hdrStep scheme st b with
    | error e => rw [hstep] at hs; cases hs
    | ok st1 =>
      rw [hstep] at hs
      simp only [] at hs
      -- one step
      have h1 : st1.newlines ≤ 3 ∧ st1.newlines = min 3 (st.newlines + (if b = 10 then 1 else 0)) := by
        unfold hdrStep at hstep
        by_cases hge : st.newlines ≥ 3
        · simp only [hge, if_true] at hstep
          cases hstep
          simp only []
          constructor
          · exact h
          · split <;> omega
        · simp only [hge, if_false] at hstep
          by_cases hb : b ≠ 10
          · simp only [hb, ne_eq, not_false_eq_true, if_true] at hstep
            cases hstep
            have : ¬ b = 10 := hb
            simp only [this, if_false]
            constructor <;> omega
          · have hb' : b = 10 := by simpa using hb
            simp only [hb', ne_eq, not_true_eq_false, if_false] at hstep
            by_cases he : st.curRev.isEmpty = true
            · simp [he] at hstep
            · simp only [he, Bool.false_eq_true, if_false] at hstep
              simp only [hb', if_true]
              match hn : st.newlines with
              | 0 =>
                rw [hn] at hstep
                simp only [] at hstep
                split at hstep
                · cases hstep; simp
                · cases hstep
              | 1 => rw [hn] at hstep; simp only [] at hstep; cases hstep; simp
              | 2 => rw [hn] at hstep; simp only [] at hstep; cases hstep; simp
              | k + 3 => omega
      have := ih st1 st' h1.1 hs
      rw [this, h1.2, List.count_cons]
      by_cases hb : b = 10
      · subst hb; simp; omega
      · have : ¬ (b == 10) = true := by simpa using hb
        simp [hb]; omega


theorem hdrBytes_count (scheme ml cl : Bytes) (wf : HdrWF scheme ml cl) :
    (hdrBytes scheme ml cl).count 10 = 3 := by
  unfold hdrBytes
  simp only [List.count_append, List.count_eq_zero.mpr wf.scheme_nl, List.count_eq_zero.mpr wf.ml_nl,
    List.count_eq_zero.mpr wf.cl_nl]
  decide

/-- What the scan knows after `consumed`, a prefix of a well-formed header followed by anything. -/
theorem hdrScan_prefix (scheme ml cl rest : Bytes) (wf : HdrWF scheme ml cl)
    (consumed tail : Bytes) (h : consumed ++ tail = hdrBytes scheme ml cl ++ rest) :
    ∃ st, hdrScan scheme {} consumed = .ok st ∧
      (consumed.length < (hdrBytes scheme ml cl).length → st.newlines < 3) ∧
      ((hdrBytes scheme ml cl).length ≤ consumed.length →
        st.newlines = 3 ∧ st.manifest = ml ∧ st.mac = cl ∧
        hdrBytes scheme ml cl ++ st.curRev.reverse = consumed) := by
  generalize hH : hdrBytes scheme ml cl = H at *
  by_cases hlen : H.length ≤ consumed.length
  · -- the whole header has been consumed
    have hc : consumed = H ++ consumed.drop H.length := by
      have h1 : (consumed ++ tail).take H.length = consumed.take H.length := by
        rw [List.take_append_of_le_length hlen]
      have h2 : (H ++ rest).take H.length = H := by simp
      rw [h] at h1
      rw [h2] at h1
      conv => lhs; rw [← List.take_append_drop H.length consumed]
      rw [← h1]
    have hscan : hdrScan scheme {} consumed =
        .ok { newlines := 3, curRev := (consumed.drop H.length).reverse, manifest := ml, mac := cl } := by
      rw [hc, hdrScan_append, ← hH, hdrScan_header scheme ml cl wf]
      simp only []
      rw [hdrScan_extra scheme _ _ (by simp)]
      simp
    refine ⟨_, hscan, fun h' => by omega, fun _ => ⟨rfl, rfl, rfl, ?_⟩⟩
    simp only [List.reverse_reverse]
    exact hc.symm
  · -- a proper prefix of the header
    have hlt : consumed.length < H.length := by omega
    have hc : H = consumed ++ H.drop consumed.length := by
      have h1 : (consumed ++ tail).take consumed.length = consumed := by simp
      have h2 : (H ++ rest).take consumed.length = H.take consumed.length := by
        rw [List.take_append_of_le_length (by omega)]
      rw [h] at h1
      rw [h2] at h1
      conv => lhs; rw [← List.take_append_drop consumed.length H]
      rw [h1]
    have hfull := hdrScan_header scheme ml cl wf
    rw [hH, hc, hdrScan_append] at hfull
    cases hsc : hdrScan scheme {} consumed with
    | error e => rw [hsc] at hfull; cases hfull
    | ok st =>
      refine ⟨st, rfl, fun _ => ?_, fun h' => by omega⟩
      have hn := hdrScan_newlines scheme consumed {} st (by decide) hsc
      -- fewer than three line feeds in a proper prefix: the last byte of the header is one
      have hcount : consumed.count 10 + (H.drop consumed.length).count 10 = 3 := by
        have := hdrBytes_count scheme ml cl wf
        rw [hH, hc, List.count_append] at this
        exact this
      have hlast : (10 : UInt8) ∈ H.drop consumed.length := by
        have hX : H = (scheme ++ [10] ++ ml ++ [10] ++ cl) ++ [10] := by rw [← hH]; rfl
        have hXl : consumed.length ≤ (scheme ++ [10] ++ ml ++ [10] ++ cl).length := by
          have := congrArg List.length hX
          simp only [List.length_append, List.length_singleton] at this ⊢
          omega
        rw [hX, List.drop_append_of_le_length hXl]
        simp
      have hpos : 0 < (H.drop consumed.length).count 10 := List.count_pos_iff.mpr hlast
      simp at hn
      omega


theorem hdrLoop_succ (scheme : Bytes) (hdrMax fuel : Nat) (r : Reader) (n : Nat) (st : HdrState) :
    hdrLoop scheme hdrMax (fuel + 1) r n st =
      if st.newlines ≥ 3 then .ok (st, .none, r)
      else if n = hdrMax then .ok (st, .none, r)
      else
        match hdrScan scheme st (r.read (hdrMax - n)).1 with
        | .error e => .error e
        | .ok st' =>
          if (r.read (hdrMax - n)).2.1 = .none then
            hdrLoop scheme hdrMax fuel (r.read (hdrMax - n)).2.2 (n + (r.read (hdrMax - n)).1.length) st'
          else .ok (st', (r.read (hdrMax - n)).2.1, (r.read (hdrMax - n)).2.2) := rfl

/-- Completeness for non-failing sources: a well-formed header of at most `hdrMax` bytes is
    found whatever the chunking, and the reader continues with exactly the rest. -/
theorem hdrLoop_complete (scheme ml cl rest : Bytes) (hdrMax : Nat) (wf : HdrWF scheme ml cl)
    (hmax : (hdrBytes scheme ml cl).length ≤ hdrMax) :
    ∀ (fuel : Nat) (r : Reader) (st : HdrState) (consumed : Bytes),
      r.measure < fuel → r.term = .eof → hdrScan scheme {} consumed = .ok st →
      consumed ++ r.stream = hdrBytes scheme ml cl ++ rest →
      ∃ st' res r', hdrLoop scheme hdrMax fuel r consumed.length st = .ok (st', res, r') ∧ res ≠ .fail ∧
        st'.newlines = 3 ∧ st'.manifest = ml ∧ st'.mac = cl ∧
        st'.curRev.reverse ++ r'.stream = rest ∧ r'.term = .eof := by
  intro fuel
  induction fuel with
  | zero => intro r st consumed h; omega
  | succ fuel ih =>
    intro r st consumed hf heof hscan hsplit
    obtain ⟨st0, hst0, hlt3, hge3⟩ := hdrScan_prefix scheme ml cl rest wf consumed r.stream hsplit
    rw [hscan] at hst0
    cases hst0
    rw [hdrLoop_succ]
    by_cases hn : st.newlines ≥ 3
    · -- already complete
      simp only [hn, if_true]
      have hlen : (hdrBytes scheme ml cl).length ≤ consumed.length := by
        by_cases h : consumed.length < (hdrBytes scheme ml cl).length
        · have := hlt3 h; omega
        · omega
      obtain ⟨h3, hm, hc, hcons⟩ := hge3 hlen
      refine ⟨st, .none, r, rfl, by simp, h3, hm, hc, ?_, heof⟩
      rw [← hcons, List.append_assoc] at hsplit
      exact List.append_cancel_left hsplit
    · simp only [hn, if_false]
      have hclt : consumed.length < (hdrBytes scheme ml cl).length := by
        by_cases h : (hdrBytes scheme ml cl).length ≤ consumed.length
        · have := (hge3 h).1; omega
        · omega
      have hne : ¬ consumed.length = hdrMax := by omega
      simp only [hne, if_false]
      have hm : 0 < hdrMax - consumed.length := by omega
      -- one read
      have hsplit' : ∀ chunk (r' : Reader), chunk ++ r'.stream = r.stream →
          (consumed ++ chunk) ++ r'.stream = hdrBytes scheme ml cl ++ rest := by
        intro chunk r' h; rw [List.append_assoc, h]; exact hsplit
      rcases r.read_cases (hdrMax - consumed.length) hm with hnone | hend
      · obtain ⟨hres, hstream, _, hmeas, hterm, _, _⟩ := hnone
        generalize r.read (hdrMax - consumed.length) = x at *
        obtain ⟨chunk, res, r'⟩ := x
        simp only at hres hstream hmeas hterm
        subst hres
        obtain ⟨st1, hst1, _, _⟩ := hdrScan_prefix scheme ml cl rest wf (consumed ++ chunk) r'.stream (hsplit' chunk r' hstream)
        have hsc : hdrScan scheme st chunk = .ok st1 := by
          rw [hdrScan_append, hscan] at hst1; exact hst1
        simp only [hsc, if_true]
        have := ih r' st1 (consumed ++ chunk) (by omega) (by rw [hterm]; exact heof) hst1 (hsplit' chunk r' hstream)
        simpa using this
      · obtain ⟨hres, hchunk, _, hstream, hterm, _, _, _⟩ := hend
        generalize r.read (hdrMax - consumed.length) = x at *
        obtain ⟨chunk, res, r'⟩ := x
        simp only at hres hchunk hstream hterm
        rw [heof] at hres hterm
        have hresne : res ≠ .none := by rw [hres]; simp [Term.res]
        have hsp : (consumed ++ chunk) ++ r'.stream = hdrBytes scheme ml cl ++ rest := by
          rw [hstream, List.append_nil, hchunk]; exact hsplit
        obtain ⟨st1, hst1, _, hge⟩ := hdrScan_prefix scheme ml cl rest wf (consumed ++ chunk) r'.stream hsp
        have hsc : hdrScan scheme st chunk = .ok st1 := by
          rw [hdrScan_append, hscan] at hst1; exact hst1
        simp only [hsc, hresne, if_false]
        have hlen : (hdrBytes scheme ml cl).length ≤ (consumed ++ chunk).length := by
          have := congrArg List.length hsp
          simp only [List.length_append, hstream, List.length_nil] at this ⊢
          omega
        obtain ⟨h3, hm', hc', hcons⟩ := hge hlen
        refine ⟨st1, res, r', rfl, by rw [hres]; simp [Term.res], h3, hm', hc', ?_, by rw [hterm]; rfl⟩
        rw [← hcons, List.append_assoc] at hsp
        exact List.append_cancel_left hsp


/-- `readHeader` on a non-failing source that starts with a well-formed header: manifest and MAC
    lines are returned and the stream continues with exactly the rest — for every script. -/
theorem readHeader_complete (b : Bool) (P : EncParams) (ml cl rest : Bytes) (wf : HdrWF P.scheme ml cl)
    (hmax : (hdrBytes P.scheme ml cl).length ≤ P.hdrMax) (r : Reader) (heof : r.term = .eof)
    (hstream : r.stream = hdrBytes P.scheme ml cl ++ rest) :
    ∃ r', readHeaderWith b P r = .ok (ml, cl, r') ∧ r'.stream = rest ∧ r'.term = .eof := by
  obtain ⟨st', res, r', hloop, hres, h3, hm, hc, hrest, hterm⟩ :=
    hdrLoop_complete P.scheme ml cl rest P.hdrMax wf hmax (r.measure + 1) r {} [] (by omega) heof rfl
      (by simpa using hstream)
  simp only [List.length_nil] at hloop
  unfold readHeaderWith
  rw [hloop]
  have h1 : ¬ st'.newlines < 1 := by omega
  have hmne : st'.manifest.isEmpty = false := by rw [hm]; simpa using wf.ml_ne
  have hcne : st'.mac.isEmpty = false := by rw [hc]; simpa using wf.cl_ne
  have hp : (b && decide (res = .fail)) = false := by simp [hres]
  simp only [h1, if_false, hmne, hcne, Bool.false_eq_true, hp]
  refine ⟨{ r' with pushback := st'.curRev.reverse ++ r'.pushback }, by rw [hm, hc], ?_, hterm⟩
  simp only [Reader.stream] at hrest ⊢
  rw [List.append_assoc]; exact hrest

/-- The loop never consumes the failure of a failing source without reporting it. -/
theorem hdrLoop_term (scheme : Bytes) (hdrMax : Nat) : ∀ (fuel : Nat) (r : Reader) (n : Nat) (st st' : HdrState)
    (res : ReadRes) (r' : Reader),
    hdrLoop scheme hdrMax fuel r n st = .ok (st', res, r') → res ≠ .fail →
    r'.term.fails = r.term.fails := by
  intro fuel
  induction fuel with
  | zero => intro r n st st' res r' h; simp [hdrLoop] at h
  | succ fuel ih =>
    intro r n st st' res r' h hres
    rw [hdrLoop_succ] at h
    by_cases hn : st.newlines ≥ 3
    · simp only [hn, if_true] at h; cases h; rfl
    · simp only [hn, if_false] at h
      by_cases hne : n = hdrMax
      · simp only [hne, if_true] at h; cases h; rfl
      · simp only [hne, if_false] at h
        -- the scan result
        cases hsc : hdrScan scheme st (r.read (hdrMax - n)).1 with
        | error e => rw [hsc] at h; cases h
        | ok st1 =>
          rw [hsc] at h
          simp only [] at h
          by_cases h0 : hdrMax - n = 0
          · have hread : r.read (hdrMax - n) = ([], .none, r) := by simp [Reader.read, h0]
            rw [hread] at h
            simp only [if_true] at h
            exact ih r _ st1 st' res r' h hres
          · rcases r.read_cases (hdrMax - n) (by omega) with hnone | hend
            · obtain ⟨hr, _, _, _, hterm, _, _⟩ := hnone
              rw [hr] at h
              simp only [if_true] at h
              rw [ih _ _ st1 st' res r' h hres, hterm]
            · obtain ⟨hr, _, _, _, hterm, _, _, _⟩ := hend
              have hrn : (r.read (hdrMax - n)).2.1 ≠ .none := by rw [hr]; exact Term.res_ne_none _
              simp only [hrn, if_false] at h
              cases h
              rw [hterm]
              -- the delivered result is not a failure, so the terminal was EOF
              cases ht : r.term with
              | eof => rfl
              | failOnce => rw [hr, ht] at hres; exact absurd rfl hres
              | failSticky => rw [hr, ht] at hres; exact absurd rfl hres

/-- `readHeader` (after the fix) never hides the failure of a failing source. -/
theorem readHeader_term (P : EncParams) (r : Reader) (ml cl : Bytes) (r' : Reader)
    (h : readHeaderWith true P r = .ok (ml, cl, r')) : r'.term.fails = r.term.fails := by
  unfold readHeaderWith at h
  cases hl : hdrLoop P.scheme P.hdrMax (r.measure + 1) r 0 {} with
  | error e => rw [hl] at h; cases h
  | ok x =>
    obtain ⟨st, res, r1⟩ := x
    rw [hl] at h
    simp only [] at h
    split at h
    · cases h
    · split at h
      · cases h
      · split at h
        · cases h
        · split at h
          · cases h
          · rename_i hp
            cases h
            have hres : res ≠ .fail := by
              intro hf; apply hp; simp [hf]
            exact hdrLoop_term P.scheme P.hdrMax _ r 0 {} st res r1 hl hres

end Kit.Enc
