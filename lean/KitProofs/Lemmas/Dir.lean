import KitModel.Dir
/-!
Helper lemmas for C18: how each file-system operation changes `look`, and the step-by-step
description of one `Write` started in a state satisfying the crash-robust invariant `W`.
-/
namespace Kit.Dir

/-! ### the finite map -/

theorem get_filter_ne (fs : FS) (p q : Path) :
    get (fs.filter (fun e => decide (e.1 ≠ p))) q = if q = p then none else get fs q := by
  induction fs with
  | nil => simp [get]
  | cons e rest ih =>
    obtain ⟨k, n⟩ := e
    by_cases hk : k = p
    · subst hk
      simp only [List.filter, ne_eq, not_true_eq_false, decide_false]
      rw [ih]
      by_cases hq : q = k
      · simp [hq]
      · have : ¬ k = q := fun h => hq h.symm
        simp [hq, get, this]
    · simp only [List.filter, ne_eq, hk, not_false_eq_true, decide_true, get]
      rw [ih]
      by_cases hkq : k = q
      · subst hkq; simp [hk]
      · simp [hkq]

theorem get_set (fs : FS) (p q : Path) (v : Option Node) :
    get (set fs p v) q = if q = p then v else get fs q := by
  unfold set
  cases v with
  | none => simp only []; rw [get_filter_ne]
  | some n =>
    simp only [get]
    rw [get_filter_ne]
    by_cases h : p = q
    · subst h; simp
    · have : ¬ q = p := fun h' => h h'.symm
      simp [h, this]

theorem look_nil (fs : FS) : look fs [] = some .dir := by simp [look]

theorem look_set (fs : FS) (p q : Path) (v : Option Node) (hp : p ≠ []) :
    look (set fs p v) q = if q = p then v else look fs q := by
  unfold look
  by_cases hq : q = []
  · subst hq
    have : ¬ ([] : Path) = p := fun h => hp h.symm
    simp [this]
  · simp [hq, get_set]

theorem get_removeTree (fs : FS) (p q : Path) :
    get (removeTree fs p) q = if p <+: q then none else get fs q := by
  unfold removeTree
  induction fs with
  | nil => simp [get]
  | cons e rest ih =>
    obtain ⟨k, n⟩ := e
    by_cases hk : p <+: k
    · simp only [List.filter, hk, not_true_eq_false, decide_false]
      rw [ih]
      by_cases hq : p <+: q
      · simp [hq]
      · have : ¬ k = q := fun h => hq (h ▸ hk)
        simp [hq, get, this]
    · simp only [List.filter, hk, not_false_eq_true, decide_true, get]
      rw [ih]
      by_cases hkq : k = q
      · subst hkq; simp [hk]
      · simp [hkq]

theorem look_removeTree (fs : FS) (p q : Path) (hp : p ≠ []) :
    look (removeTree fs p) q = if p <+: q then none else look fs q := by
  unfold look
  by_cases hq : q = []
  · subst hq
    have : ¬ p <+: ([] : Path) := by simpa using hp
    simp [this]
  · simp [hq, get_removeTree]

/-! ### prefixes -/

theorem mem_prefixes (p q : Path) : q ∈ prefixes p ↔ q ≠ [] ∧ q <+: p := by
  induction p generalizing q with
  | nil => simp [prefixes]
  | cons c r ih =>
    simp only [prefixes, List.mem_cons, List.mem_map]
    constructor
    · rintro (rfl | ⟨t, ht, rfl⟩)
      · simp
      · have := (ih t).1 ht
        simp [this.2]
    · rintro ⟨hne, hpre⟩
      cases q with
      | nil => exact absurd rfl hne
      | cons a t =>
        rw [List.cons_prefix_cons] at hpre
        obtain ⟨rfl, ht⟩ := hpre
        by_cases htn : t = []
        · left; simp [htn]
        · right; exact ⟨t, (ih t).2 ⟨htn, ht⟩, rfl⟩

/-! ### operations -/

theorem mkdirChain_spec (qs : List Path) (fs : FS)
    (h : ∀ q ∈ qs, look fs q = none ∨ look fs q = some .dir) :
    ∃ fs', mkdirChain fs qs = .ok fs' ∧
      ∀ q, look fs' q = if q ∈ qs then some .dir else look fs q := by
  induction qs generalizing fs with
  | nil => exact ⟨fs, rfl, by simp⟩
  | cons q0 qs ih =>
    have h0 := h q0 (by simp)
    rcases h0 with h0 | h0
    · have hne : q0 ≠ [] := by
        intro e; subst e; simp [look] at h0
      have hrest : ∀ q ∈ qs, look (set fs q0 (some .dir)) q = none ∨
          look (set fs q0 (some .dir)) q = some .dir := by
        intro q hq
        rw [look_set _ _ _ _ hne]
        by_cases e : q = q0
        · simp [e]
        · simp [e]; exact h q (by simp [hq])
      obtain ⟨fs', hrun, hlook⟩ := ih _ hrest
      refine ⟨fs', by simp [mkdirChain, h0, hrun], ?_⟩
      intro q
      rw [hlook q, look_set _ _ _ _ hne]
      by_cases e : q = q0
      · simp [e]
      · simp [e]
    · have hrest : ∀ q ∈ qs, look fs q = none ∨ look fs q = some .dir :=
        fun q hq => h q (by simp [hq])
      obtain ⟨fs', hrun, hlook⟩ := ih _ hrest
      refine ⟨fs', by simp [mkdirChain, h0, hrun], ?_⟩
      intro q
      rw [hlook q]
      by_cases e : q = q0
      · simp [e, h0]
      · simp [e]

theorem mkdirAll_spec (fs : FS) (p : Path)
    (h : ∀ q, q <+: p → look fs q = none ∨ look fs q = some .dir) :
    ∃ fs', mkdirAll fs p = .ok fs' ∧
      ∀ q, look fs' q = if q <+: p then some .dir else look fs q := by
  obtain ⟨fs', hrun, hlook⟩ := mkdirChain_spec (prefixes p) fs
    (fun q hq => h q ((mem_prefixes p q).1 hq).2)
  refine ⟨fs', hrun, ?_⟩
  intro q
  rw [hlook q]
  by_cases hq : q = []
  · subst hq; simp [look_nil]
  · simp [mem_prefixes, hq]

theorem walk_none (fs : FS) (qs : List Path) (h : ∀ q ∈ qs, look fs q = some .dir) :
    walk fs qs = none := by
  induction qs with
  | nil => rfl
  | cons q qs ih =>
    simp [walk, h q (by simp)]
    exact ih (fun q' hq' => h q' (by simp [hq']))

theorem parentErr_none (fs : FS) (par : Path) (x : Name)
    (h : ∀ q, q <+: par → look fs q = some .dir) : parentErr fs (par ++ [x]) = none := by
  unfold parentErr
  rw [List.dropLast_concat]
  exact walk_none fs _ (fun q hq => h q ((mem_prefixes par q).1 hq).2)

theorem concat_ne_nil (par : Path) (x : Name) : par ++ [x] ≠ [] := by simp

theorem writeFile_spec (fs : FS) (par : Path) (x : Name) (b : Bytes)
    (hpar : ∀ q, q <+: par → look fs q = some .dir)
    (hcur : look fs (par ++ [x]) = none ∨ ∃ b', look fs (par ++ [x]) = some (.file b')) :
    ∃ fs', writeFile fs (par ++ [x]) b = .ok fs' ∧
      ∀ q, look fs' q = if q = par ++ [x] then some (.file b) else look fs q := by
  have hp := parentErr_none fs par x hpar
  rcases hcur with h | ⟨b', h⟩
  · exact ⟨_, by simp [writeFile, hp, h], fun q => look_set _ _ _ _ (concat_ne_nil par x)⟩
  · exact ⟨_, by simp [writeFile, hp, h], fun q => look_set _ _ _ _ (concat_ne_nil par x)⟩

theorem removeIfExists_spec (fs : FS) (par : Path) (x : Name)
    (hpar : ∀ q, q <+: par → look fs q = some .dir)
    (hcur : look fs (par ++ [x]) ≠ some .dir) :
    ∃ fs', (Op.removeIfExists (par ++ [x])).apply fs = .ok fs' ∧
      ∀ q, look fs' q = if q = par ++ [x] then none else look fs q := by
  have hp := parentErr_none fs par x hpar
  cases h : look fs (par ++ [x]) with
  | none =>
    refine ⟨fs, by simp [Op.apply, remove, hp, h], ?_⟩
    intro q
    by_cases e : q = par ++ [x]
    · simp [e, h]
    · simp [e]
  | some nd =>
    cases nd with
    | dir => exact absurd h hcur
    | file b => exact ⟨_, by simp [Op.apply, remove, hp, h], fun q => look_set _ _ _ _ (concat_ne_nil par x)⟩
    | link t => exact ⟨_, by simp [Op.apply, remove, hp, h], fun q => look_set _ _ _ _ (concat_ne_nil par x)⟩

theorem symlink_spec (fs : FS) (to par : Path) (x : Name)
    (hpar : ∀ q, q <+: par → look fs q = some .dir)
    (hcur : look fs (par ++ [x]) = none) :
    ∃ fs', symlink fs to (par ++ [x]) = .ok fs' ∧
      ∀ q, look fs' q = if q = par ++ [x] then some (.link to) else look fs q := by
  have hp := parentErr_none fs par x hpar
  exact ⟨_, by simp [symlink, hp, hcur], fun q => look_set _ _ _ _ (concat_ne_nil par x)⟩

/-- Rename of a symlink over anything that is not a directory: atomic replace. -/
theorem rename_link_spec (fs : FS) (par : Path) (x y : Name) (t : Path) (hxy : x ≠ y)
    (hpar : ∀ q, q <+: par → look fs q = some .dir)
    (ho : look fs (par ++ [x]) = some (.link t))
    (hn : look fs (par ++ [y]) ≠ some .dir) :
    ∃ fs', rename fs (par ++ [x]) (par ++ [y]) = .ok fs' ∧
      ∀ q, look fs' q = if q = par ++ [x] then none
                        else if q = par ++ [y] then some (.link t) else look fs q := by
  have hpx := parentErr_none fs par x hpar
  have hpy := parentErr_none fs par y hpar
  have hlook : ∀ q, look (set (set fs (par ++ [y]) (some (.link t))) (par ++ [x]) none) q
      = if q = par ++ [x] then none else if q = par ++ [y] then some (.link t) else look fs q := by
    intro q
    rw [look_set _ _ _ _ (concat_ne_nil par x), look_set _ _ _ _ (concat_ne_nil par y)]
  cases h : look fs (par ++ [y]) with
  | none => exact ⟨_, by simp [rename, hpx, hpy, ho, h, hxy], hlook⟩
  | some nd =>
    cases nd with
    | dir => exact absurd h hn
    | file b => exact ⟨_, by simp [rename, hpx, hpy, ho, h, hxy], hlook⟩
    | link t' => exact ⟨_, by simp [rename, hpx, hpy, ho, h, hxy], hlook⟩

/-- Rename of a symlink over an existing directory fails (Go: EEXIST) and changes nothing. -/
theorem rename_onto_dir_fails (fs : FS) (par : Path) (x y : Name) (t : Path)
    (hpar : ∀ q, q <+: par → look fs q = some .dir)
    (ho : look fs (par ++ [x]) = some (.link t))
    (hn : look fs (par ++ [y]) = some .dir) :
    rename fs (par ++ [x]) (par ++ [y]) = .error .EEXIST := by
  have hpx := parentErr_none fs par x hpar
  have hpy := parentErr_none fs par y hpar
  simp [rename, hpx, hpy, ho, hn]

theorem removeAll_spec (fs : FS) (par : Path) (x : Name)
    (hpar : ∀ q, q <+: par → look fs q = some .dir) :
    ∃ fs', removeAll fs (par ++ [x]) = .ok fs' ∧
      ∀ q, look fs' q = if par ++ [x] <+: q then none else look fs q := by
  have hp := parentErr_none fs par x hpar
  exact ⟨_, by simp [removeAll, hp], fun q => look_removeTree _ _ _ (concat_ne_nil par x)⟩

/-! ### crash semantics: every prefix of an operation list -/

/-- `P` holds in every state a crash can leave: after any prefix of `ops` (an error ends the run). -/
def Safe (P : FS → Prop) (fs : FS) (ops : List Op) : Prop :=
  ∀ k, P (runOps fs (ops.take k)).1

theorem safe_nil {P : FS → Prop} {fs : FS} (h : P fs) : Safe P fs [] := by
  intro k; simpa [runOps] using h

theorem safe_cons_ok {P : FS → Prop} {fs fs' : FS} {op : Op} {rest : List Op}
    (h : P fs) (hop : op.apply fs = .ok fs') (hrest : Safe P fs' rest) : Safe P fs (op :: rest) := by
  intro k
  cases k with
  | zero => simpa [runOps] using h
  | succ k => simpa [runOps, hop] using hrest k

/-- A failing operation ends the run: every longer prefix leaves the same state. -/
theorem safe_cons_err {P : FS → Prop} {fs : FS} {op : Op} {rest : List Op} {e : Errno}
    (h : P fs) (hop : op.apply fs = .error e) : Safe P fs (op :: rest) := by
  intro k
  cases k with
  | zero => simpa [runOps] using h
  | succ k => simpa [runOps, hop] using h

theorem runOps_append_ok {fs fs' : FS} {a : List Op} (b : List Op)
    (h : runOps fs a = (fs', none)) : runOps fs (a ++ b) = runOps fs' b := by
  induction a generalizing fs with
  | nil => simp [runOps] at h; simp [h]
  | cons op rest ih =>
    simp only [List.cons_append, runOps] at h ⊢
    cases hop : op.apply fs with
    | ok fs1 => simp only [hop] at h ⊢; exact ih h
    | error e => simp [hop] at h

theorem runOps_append_err {fs fs' : FS} {a : List Op} {e : Errno} (b : List Op)
    (h : runOps fs a = (fs', some e)) : runOps fs (a ++ b) = (fs', some e) := by
  induction a generalizing fs with
  | nil => simp [runOps] at h
  | cons op rest ih =>
    simp only [List.cons_append, runOps] at h ⊢
    cases hop : op.apply fs with
    | ok fs1 => simp only [hop] at h ⊢; exact ih h
    | error e' => simpa [hop] using h

theorem safe_append {P : FS → Prop} {fs fs' : FS} {a b : List Op}
    (ha : Safe P fs a) (hrun : runOps fs a = (fs', none)) (hb : Safe P fs' b) :
    Safe P fs (a ++ b) := by
  intro k
  rw [List.take_append]
  by_cases hk : k ≤ a.length
  · have : k - a.length = 0 := by omega
    simpa [this] using ha k
  · have h1 : List.take k a = a := List.take_of_length_le (by omega)
    rw [h1, runOps_append_ok _ hrun]
    exact hb _

/-- If the first part of a run ends in an error, nothing of the second part happens. -/
theorem safe_append_err {P : FS → Prop} {fs fs' : FS} {a : List Op} (b : List Op) {e : Errno}
    (ha : Safe P fs a) (hrun : runOps fs a = (fs', some e)) : Safe P fs (a ++ b) := by
  intro k
  rw [List.take_append]
  by_cases hk : k ≤ a.length
  · have : k - a.length = 0 := by omega
    simpa [this] using ha k
  · have h1 : List.take k a = a := List.take_of_length_le (by omega)
    rw [h1, runOps_append_err _ hrun]
    have := ha a.length
    simpa [hrun] using this

/-- The state in which a run ends (with or without error) is one of the crash states. -/
theorem safe_last {P : FS → Prop} {fs : FS} {ops : List Op}
    (h : Safe P fs ops) : P (runOps fs ops).1 := by
  have := h ops.length
  simpa using this

/-! ### paths below the base directory -/

theorem not_ext_prefix (B : Path) (x : Name) (r : Path) : ¬ (B ++ x :: r <+: B) := by
  intro h
  have := h.length_le
  simp at this
  omega

theorem prefix_ver_iff (B : Path) (a x : Name) (r : Path) : (B ++ [a] <+: B ++ x :: r) ↔ a = x := by
  simp [List.prefix_append_right_inj, List.cons_prefix_cons]

theorem prefix_verDir (B : Path) (c : Nat) (q : Path) (hq : q <+: verDir B c) :
    q <+: B ∨ q = verDir B c := by
  simp only [verDir] at hq ⊢
  rcases List.prefix_concat_iff.1 hq with h | h
  · exact Or.inr h
  · exact Or.inl h

theorem target_not_prefix_ver (B : Path) (c : Nat) : ¬ target B <+: verDir B c := by
  simp [target, verDir, List.prefix_append_right_inj, List.cons_prefix_cons]

theorem targetNew_not_prefix_ver (B : Path) (c : Nat) : ¬ targetNew B <+: verDir B c := by
  simp [targetNew, verDir, List.prefix_append_right_inj, List.cons_prefix_cons]

/-! ### the invariant -/

/-- `d` is a directory holding exactly the regular files of the map `m`. -/
def DirIs (fs : FS) (d : Path) (m : Name → Option Bytes) : Prop :=
  look fs d = some .dir ∧ (∀ nm, look fs (d ++ [nm]) = (m nm).map .file) ∧
    (∀ a b r, look fs (d ++ a :: b :: r) = none)

/-- A path no `Write` of this process ever touches or looks below: not an ancestor of the base,
not the target or `.new`, not a version directory this process may create (id ≥ `c0`). The
version directories of earlier processes (id < `c0`) are of this kind. -/
def Foreign (B : Path) (c0 : Nat) (t : Path) : Prop :=
  ¬ t <+: B ∧ t ≠ target B ∧ t ≠ targetNew B ∧ ∀ n s, c0 ≤ n → t ≠ B ++ .ver n :: s

/-- Every state a process can find when it starts: the ancestors of the base are directories or
missing; no version directory with an id the process will use (`≥ c0`) exists; `<target>.new`
is absent, a (stale) symlink or a file; the target is ANYTHING — absent, a symlink left by an
earlier process (to an existing version directory, dangling, or elsewhere), a plain file or a
plain directory. Everything else (other entries in the base, other directories) is unconstrained. -/
structure Prior (B : Path) (c0 : Nat) (fs0 : FS) : Prop where
  chain : ∀ q, q <+: B → look fs0 q = none ∨ look fs0 q = some .dir
  fresh : ∀ n, c0 ≤ n → ∀ r, look fs0 (B ++ .ver n :: r) = none
  tnew : look fs0 (targetNew B) ≠ some .dir
  tlink : ∀ t, look fs0 (target B) = some (.link t) → Foreign B c0 t

/-- The entry found at the target when the process started is still there, untouched: the entry
itself, everything below it, and (for a symlink) everything at and below what it points to. -/
def ForeignKept (B : Path) (fs0 fs : FS) : Prop :=
  look fs0 (target B) ≠ none ∧ look fs (target B) = look fs0 (target B) ∧
  (∀ x r, look fs (target B ++ x :: r) = look fs0 (target B ++ x :: r)) ∧
  (∀ t, look fs0 (target B) = some (.link t) → ∀ r, look fs (t ++ r) = look fs0 (t ++ r))

/-- The target is a symlink to a version directory of this process holding exactly the files of
one `Write` call of `H`. -/
def Complete (B : Path) (c0 : Nat) (fs : FS) (clock : Nat) (H : List Files) : Prop :=
  ∃ n files, c0 ≤ n ∧ n < clock ∧ files ∈ H ∧ look fs (target B) = some (.link (verDir B n)) ∧
    DirIs fs (verDir B n) (asMap files)

def TgtOK (B : Path) (fs0 : FS) (c0 : Nat) (fs : FS) (clock : Nat) (H : List Files) : Prop :=
  look fs (target B) = none ∨ Complete B c0 fs clock H ∨ ForeignKept B fs0 fs

/-- Crash-robust invariant: holds after every file-system operation of every history. -/
structure W (B : Path) (fs0 : FS) (c0 : Nat) (fs : FS) (clock : Nat) (H : List Files) : Prop where
  chain : ∀ q, q <+: B → look fs q = none ∨ look fs q = some .dir
  fresh : ∀ n, clock ≤ n → ∀ r, look fs (B ++ .ver n :: r) = none
  tgt : TgtOK B fs0 c0 fs clock H
  tnew : look fs (targetNew B) ≠ some .dir
  le : c0 ≤ clock

/-- Paths a `Write` with version id `c` (and old version `rm`) may modify below the base. -/
def Touch (B : Path) (c : Nat) (rm : Option Nat) (q : Path) : Prop :=
  q = target B ∨ q = targetNew B ∨ verDir B c <+: q ∨ ∃ n, rm = some n ∧ verDir B n <+: q

/-- `fs'` differs from `fs` only where a `Write` may touch. -/
structure Mid (B : Path) (c : Nat) (rm : Option Nat) (fs fs' : FS) : Prop where
  chain : ∀ q, q <+: B → look fs' q = look fs q ∨ look fs' q = some .dir
  off : ∀ q, ¬ q <+: B → ¬ Touch B c rm q → look fs' q = look fs q

theorem Mid.refl (B : Path) (c : Nat) (rm : Option Nat) (fs : FS) : Mid B c rm fs fs :=
  ⟨fun _ _ => Or.inl rfl, fun _ _ _ => rfl⟩

theorem Mid.step {B : Path} {c : Nat} {rm : Option Nat} {fs fs' fs'' : FS}
    (h : Mid B c rm fs fs') (hag : ∀ q, ¬ Touch B c rm q → look fs'' q = look fs' q)
    (hnt : ∀ q, q <+: B → ¬ Touch B c rm q) : Mid B c rm fs fs'' := by
  constructor
  · intro q hq; rw [hag q (hnt q hq)]; exact h.chain q hq
  · intro q hq ht; rw [hag q ht]; exact h.off q hq ht

theorem not_touch_of_prefix (B : Path) (c : Nat) (rm : Option Nat) (q : Path) (hq : q <+: B) :
    ¬ Touch B c rm q := by
  intro h
  rcases h with h | h | h | ⟨n, _, h⟩
  · subst h; exact not_ext_prefix B _ [] hq
  · subst h; exact not_ext_prefix B _ [] hq
  · exact not_ext_prefix B (.ver c) [] (h.trans hq)
  · exact not_ext_prefix B (.ver n) [] (h.trans hq)

theorem Mid.weaken {B : Path} {c : Nat} {rm : Option Nat} {fs fs' : FS}
    (h : Mid B c none fs fs') : Mid B c rm fs fs' := by
  constructor
  · exact h.chain
  · intro q hq ht
    apply h.off q hq
    intro h'
    rcases h' with h' | h' | h' | ⟨n, hn, _⟩
    · exact ht (Or.inl h')
    · exact ht (Or.inr (Or.inl h'))
    · exact ht (Or.inr (Or.inr (Or.inl h')))
    · simp at hn

theorem not_touch_ver (B : Path) (c n : Nat) (rm : Option Nat) (r : Path) (hn : n ≠ c)
    (hrm : rm ≠ some n) : ¬ Touch B c rm (B ++ .ver n :: r) := by
  intro h
  rcases h with h | h | h | ⟨k, hk, h⟩
  · simp [target] at h
  · simp [targetNew] at h
  · have := (prefix_ver_iff B (.ver c) (.ver n) r).1 h
    simp at this; omega
  · have := (prefix_ver_iff B (.ver k) (.ver n) r).1 h
    simp at this; subst this; exact hrm hk

/-- Nothing a `Write` touches lies at or below a foreign path. -/
theorem not_touch_foreign {B : Path} {c0 c : Nat} {rm : Option Nat} {t : Path}
    (hf : Foreign B c0 t) (hc : c0 ≤ c) (hrm : ∀ n, rm = some n → c0 ≤ n) (r : Path) :
    ¬ (t ++ r <+: B) ∧ ¬ Touch B c rm (t ++ r) := by
  obtain ⟨h1, h2, h3, h4⟩ := hf
  have hver : ∀ n, c0 ≤ n → ¬ verDir B n <+: t ++ r := by
    intro n hn h
    rcases List.prefix_or_prefix_of_prefix h (List.prefix_append t r) with h' | h'
    · obtain ⟨s, hs⟩ := h'
      apply h4 n s hn
      rw [← hs]; simp [verDir]
    · rcases prefix_verDir B n t h' with h'' | h''
      · exact h1 h''
      · exact h4 n [] hn (by simpa [verDir] using h'')
  have hleaf : ∀ x : Name, t ≠ B ++ [x] → t ++ r ≠ B ++ [x] := by
    intro x hx e
    have : t <+: B ++ [x] := e ▸ List.prefix_append t r
    rcases List.prefix_concat_iff.1 this with h | h
    · exact hx h
    · exact h1 h
  refine ⟨fun h => h1 ((List.prefix_append t r).trans h), ?_⟩
  intro h
  rcases h with h | h | h | ⟨n, hn, h⟩
  · exact hleaf .tgt h2 h
  · exact hleaf .tgtNew h3 h
  · exact hver c hc h
  · exact hver n (hrm n hn) h

/-- Nothing a `Write` touches lies strictly below the target path. -/
theorem not_touch_below_target (B : Path) (c : Nat) (rm : Option Nat) (x : Name) (r : Path) :
    ¬ (target B ++ x :: r <+: B) ∧ ¬ Touch B c rm (target B ++ x :: r) := by
  have e : target B ++ x :: r = B ++ .tgt :: x :: r := by simp [target]
  rw [e]
  refine ⟨not_ext_prefix B _ _, ?_⟩
  intro h
  rcases h with h | h | h | ⟨n, _, h⟩
  · simp [target] at h
  · simp [targetNew] at h
  · have := (prefix_ver_iff B (.ver c) .tgt (x :: r)).1 h; simp at this
  · have := (prefix_ver_iff B (.ver n) .tgt (x :: r)).1 h; simp at this

theorem DirIs.transport {fs fs' : FS} {B : Path} {n : Nat} {m : Name → Option Bytes}
    (h : DirIs fs (verDir B n) m) (hag : ∀ r, look fs' (B ++ .ver n :: r) = look fs (B ++ .ver n :: r)) :
    DirIs fs' (verDir B n) m := by
  obtain ⟨h1, h2, h3⟩ := h
  refine ⟨?_, ?_, ?_⟩
  · have := hag []; simp only [verDir] at h1 ⊢; rw [this]; exact h1
  · intro nm
    have := hag [nm]
    simp only [verDir, List.append_assoc, List.cons_append, List.nil_append] at h2 ⊢
    rw [this]; exact h2 nm
  · intro a b r
    have := hag (a :: b :: r)
    simp only [verDir, List.append_assoc, List.cons_append, List.nil_append] at h3 ⊢
    rw [this]; exact h3 a b r

theorem ForeignKept.carry {B : Path} {fs0 : FS} {c0 c : Nat} {rm : Option Nat} {fs fs' : FS}
    (hp : Prior B c0 fs0) (h : ForeignKept B fs0 fs) (hm : Mid B c rm fs fs') (hc : c0 ≤ c)
    (hrm : ∀ n, rm = some n → c0 ≤ n)
    (hsame : look fs' (target B) = look fs (target B)) : ForeignKept B fs0 fs' := by
  obtain ⟨h1, h2, h3, h4⟩ := h
  refine ⟨h1, by rw [hsame]; exact h2, ?_, ?_⟩
  · intro x r
    have := not_touch_below_target B c rm x r
    rw [hm.off _ this.1 this.2]; exact h3 x r
  · intro t ht r
    have := not_touch_foreign (hp.tlink t ht) hc hrm r
    rw [hm.off _ this.1 this.2]; exact h4 t ht r

/-- The invariant after a step of a `Write`, from the frame facts and the two link clauses. -/
theorem W_of_mid {B : Path} {fs0 : FS} {c0 c : Nat} {rm : Option Nat} {fs fs' : FS} {H : List Files}
    (files : Files)
    (hW : W B fs0 c0 fs c H) (hm : Mid B c rm fs fs') (hrm : ∀ n, rm = some n → n < c)
    (htgt : TgtOK B fs0 c0 fs' (c + 1) (files :: H))
    (htnew : look fs' (targetNew B) ≠ some .dir) :
    W B fs0 c0 fs' (c + 1) (files :: H) := by
  refine ⟨?_, ?_, htgt, htnew, by have := hW.le; omega⟩
  · intro q hq
    rcases hm.chain q hq with h | h
    · rw [h]; exact hW.chain q hq
    · exact Or.inr h
  · intro n hn r
    rw [hm.off _ (not_ext_prefix B _ r)
      (not_touch_ver B c n rm r (by omega) (fun h => by have := hrm n h; omega))]
    exact hW.fresh n (by omega) r

/-- Before the rename: the target clause carries over. -/
theorem TgtOK.carry {B : Path} {fs0 : FS} {c0 c : Nat} {fs fs' : FS} {H : List Files}
    (files : Files) (hp : Prior B c0 fs0) (hc : c0 ≤ c)
    (h : TgtOK B fs0 c0 fs c H) (hm : Mid B c none fs fs')
    (hsame : look fs' (target B) = look fs (target B)) :
    TgtOK B fs0 c0 fs' (c + 1) (files :: H) := by
  rcases h with h | ⟨n, fl, hn0, hn, hmem, hl, hd⟩ | h
  · left; rw [hsame]; exact h
  · right; left
    refine ⟨n, fl, hn0, by omega, List.mem_cons_of_mem _ hmem, by rw [hsame]; exact hl, ?_⟩
    apply hd.transport
    intro r
    apply hm.off _ (not_ext_prefix B _ r)
    exact not_touch_ver B c n none r (by omega) (by simp)
  · right; right
    exact h.carry hp hm hc (by simp) hsame

/-- Any state of a `Write` before its rename satisfies the invariant. -/
theorem pre_ok {B : Path} {fs0 : FS} {c0 c : Nat} {fs fs' : FS} {H : List Files} (files : Files)
    (hp : Prior B c0 fs0) (hW : W B fs0 c0 fs c H) (hm : Mid B c none fs fs')
    (hT : look fs' (target B) = look fs (target B))
    (hTN : look fs' (targetNew B) ≠ some .dir) :
    W B fs0 c0 fs' (c + 1) (files :: H) ∧
      (look fs' (target B) = look fs (target B) ∨
        (look fs' (target B) = some (.link (verDir B c)) ∧ look fs (target B) ≠ some .dir)) :=
  ⟨W_of_mid files hW hm (by simp) (hW.tgt.carry files hp hW.le hm hT) hTN, Or.inl hT⟩

/-! ### one Write, step by step -/

def upd (m : Name → Option Bytes) (kb : Name × Bytes) : Name → Option Bytes :=
  fun nm => if nm = kb.1 then some kb.2 else m nm

theorem asMap_eq (files : Files) : asMap files = files.foldl upd (fun _ => none) := rfl

/-- All file names are single path components. -/
def AllValid (files : Files) : Prop := ∀ kb ∈ files, validName kb.1 = true

def wfOps (B : Path) (c : Nat) (files : Files) : List Op :=
  files.map (fun kb =>
    if validName kb.1 then Op.writeFile (verDir B c ++ [kb.1]) kb.2 else Op.badName kb.1)

def tailOps (B : Path) : Option Nat → List Op
  | some n => [.removeAll (verDir B n)]
  | none => []

theorem writeOps_eq (B : Path) (prev : Option Nat) (c : Nat) (files : Files) :
    writeOps B prev c files =
      [.mkdirAll B, .mkdirAll (verDir B c)] ++ (wfOps B c files ++
        ([.removeIfExists (targetNew B), .symlink (verDir B c) (targetNew B),
          .rename (targetNew B) (target B)] ++ tailOps B prev)) := by
  cases prev <;> simp [writeOps, writeOpsOf, fixedSteps, stepOps, wfOps, tailOps]

/-- State of the file loop: the new version directory holds the map `m`, nothing else differs
from the state `fs2` before the loop. -/
structure LoopInv (B : Path) (c : Nat) (fs2 fs' : FS) (m : Name → Option Bytes) : Prop where
  files : ∀ nm, look fs' (verDir B c ++ [nm]) = (m nm).map .file
  off : ∀ q, (∀ nm, q ≠ verDir B c ++ [nm]) → look fs' q = look fs2 q

theorem prefix_ne_child {d q : Path} (hq : q <+: d) (nm : Name) : q ≠ d ++ [nm] := by
  intro e
  have := hq.length_le
  simp [e] at this
  omega

/-- The file loop: every crash state satisfies `P`; it runs to its end iff all names are valid,
and stops at the first invalid name otherwise, having written a prefix of the files. -/
theorem loop_spec (B : Path) (c : Nat) (P : FS → Prop) (fs2 : FS)
    (hdir : ∀ q, q <+: verDir B c → look fs2 q = some .dir)
    (hP : ∀ fs' m, LoopInv B c fs2 fs' m → P fs') :
    ∀ (rest : Files) (fs' : FS) (m : Name → Option Bytes), LoopInv B c fs2 fs' m →
      Safe P fs' (wfOps B c rest) ∧
      ∃ fs'' e m', runOps fs' (wfOps B c rest) = (fs'', e) ∧ LoopInv B c fs2 fs'' m' ∧
        (e = none → m' = rest.foldl upd m) ∧ (e = none ↔ AllValid rest) := by
  intro rest
  induction rest with
  | nil =>
    intro fs' m h
    exact ⟨safe_nil (hP _ _ h), fs', none, m, rfl, h, fun _ => rfl, by simp [AllValid]⟩
  | cons kb rest ih =>
    intro fs' m h
    by_cases hv : validName kb.1 = true
    · have hpar : ∀ q, q <+: verDir B c → look fs' q = some .dir := by
        intro q hq
        rw [h.off q (fun nm => prefix_ne_child hq nm)]
        exact hdir q hq
      have hcur : look fs' (verDir B c ++ [kb.1]) = none ∨
          ∃ b', look fs' (verDir B c ++ [kb.1]) = some (.file b') := by
        rw [h.files kb.1]
        cases m kb.1 with
        | none => left; rfl
        | some b' => right; exact ⟨b', rfl⟩
      obtain ⟨fs1, hrun, hlook⟩ := writeFile_spec fs' (verDir B c) kb.1 kb.2 hpar hcur
      have hinv : LoopInv B c fs2 fs1 (upd m kb) := by
        constructor
        · intro nm
          rw [hlook]
          by_cases e : nm = kb.1
          · subst e; simp [upd]
          · have : ¬ (verDir B c ++ [nm] = verDir B c ++ [kb.1]) := by simpa using e
            simp [this, upd, e, h.files nm]
        · intro q hq
          rw [hlook]
          simp [hq kb.1, h.off q hq]
      obtain ⟨hsafe, fs'', e, m', hrun', hinv', hm', hiff⟩ := ih fs1 (upd m kb) hinv
      have hop : (if validName kb.1 then Op.writeFile (verDir B c ++ [kb.1]) kb.2
          else Op.badName kb.1).apply fs' = .ok fs1 := by simpa [hv, Op.apply] using hrun
      refine ⟨?_, fs'', e, m', ?_, hinv', ?_, ?_⟩
      · exact safe_cons_ok (hP _ _ h) hop hsafe
      · simp only [wfOps, List.map_cons, runOps, hop]
        exact hrun'
      · intro he; simpa using hm' he
      · rw [hiff]
        simp [AllValid, hv]
    · have hop : (if validName kb.1 then Op.writeFile (verDir B c ++ [kb.1]) kb.2
          else Op.badName kb.1).apply fs' = .error .BADNAME := by simp [hv, Op.apply]
      refine ⟨?_, fs', some .BADNAME, m, ?_, h, by simp, ?_⟩
      · exact safe_cons_err (hP _ _ h) hop
      · simp only [wfOps, List.map_cons, runOps, hop]
      · simp [AllValid, hv]

/-- A prefix of the operations of a `Write` that is long enough to contain the rename consists of
everything up to the rename plus nothing or the whole tail (the removal of the old version). -/
theorem take_writeOps (B : Path) (prev : Option Nat) (c : Nat) (files : Files) (k : Nat)
    (hk : files.length + 5 ≤ k) :
    ∃ tl, (tl = [] ∨ tl = tailOps B prev) ∧
      (writeOps B prev c files).take k =
        [.mkdirAll B, .mkdirAll (verDir B c)] ++ (wfOps B c files ++
          ([.removeIfExists (targetNew B), .symlink (verDir B c) (targetNew B),
            .rename (targetNew B) (target B)] ++ tl)) := by
  rw [writeOps_eq]
  have hwf : (wfOps B c files).length = files.length := by simp [wfOps]
  rw [List.take_append, List.take_of_length_le (by simp; omega)]
  rw [List.take_append, List.take_of_length_le (by simp [hwf]; omega)]
  rw [List.take_append, List.take_of_length_le (by simp; omega)]
  refine ⟨List.take (k - [Op.mkdirAll B, Op.mkdirAll (verDir B c)].length - (wfOps B c files).length -
      [Op.removeIfExists (targetNew B), Op.symlink (verDir B c) (targetNew B),
        Op.rename (targetNew B) (target B)].length) (tailOps B prev), ?_, rfl⟩
  cases prev with
  | none => left; simp [tailOps]
  | some n =>
    simp only [tailOps]
    generalize (k - _ - _ - _) = j
    cases j with
    | zero => left; rfl
    | succ j => right; simp

/-- What a `Write` that ran to its end leaves behind. -/
structure Final (B : Path) (c : Nat) (prev : Option Nat) (fs fs' : FS) (files : Files) : Prop where
  tgt : look fs' (target B) = some (.link (verDir B c))
  dir : DirIs fs' (verDir B c) (asMap files)
  tnew : look fs' (targetNew B) = none
  mid : Mid B c prev fs fs'
  gone : ∀ n, prev = some n → ∀ r, look fs' (B ++ .ver n :: r) = none
  base : ∀ q, q <+: B → look fs' q = some .dir

/-- What a `Write` that returned an error leaves behind: it stopped at or before its rename;
the target entry is the one from before the call and nothing outside the new version directory
and `<target>.new` changed (`Mid`: in particular what the target points to is intact). -/
structure Failed (B : Path) (c : Nat) (fs fs' : FS) : Prop where
  mid : Mid B c none fs fs'
  tgt : look fs' (target B) = look fs (target B)

/-- How a `Write` (operations `ops`) ends. -/
structure Outcome (B : Path) (c : Nat) (prev : Option Nat) (fs : FS) (files : Files)
    (fs' : FS) (e : Option Errno) : Prop where
  ok_iff : e = none ↔ (AllValid files ∧ look fs (target B) ≠ some .dir)
  fin : e = none → Final B c prev fs fs' files
  failed : e ≠ none → Failed B c fs fs'
  after : e = none → ∀ k, files.length + 5 ≤ k →
    look (runOps fs ((writeOps B prev c files).take k)).1 (target B) = some (.link (verDir B c))

/-- What every crash state of a `Write` started in `fs` satisfies: the invariant, and the target
entry is the one from before the call or — only if that was not a directory — the link to this
call's version directory. -/
abbrev Post (B : Path) (fs0 : FS) (c0 c : Nat) (files : Files) (H : List Files) (fs : FS) : FS → Prop :=
  fun fs' => W B fs0 c0 fs' (c + 1) (files :: H) ∧
    (look fs' (target B) = look fs (target B) ∨
      (look fs' (target B) = some (.link (verDir B c)) ∧ look fs (target B) ≠ some .dir))

theorem write_spec (B : Path) (fs0 : FS) (c0 : Nat) (hp : Prior B c0 fs0)
    (fs : FS) (c : Nat) (H : List Files) (files : Files) (prev : Option Nat)
    (hW : W B fs0 c0 fs c H)
    (hprev : ∀ n, prev = some n → c0 ≤ n ∧ n < c ∧ look fs (target B) = some (.link (verDir B n))) :
    Safe (Post B fs0 c0 c files H fs) fs (writeOps B prev c files) ∧
    ∃ fs' e, runOps fs (writeOps B prev c files) = (fs', e) ∧ Outcome B c prev fs files fs' e := by
  -- phase A: the two MkdirAll calls
  obtain ⟨fs1, hr1, h1⟩ := mkdirAll_spec fs B hW.chain
  have hVnone : look fs (verDir B c) = none := by
    simpa [verDir] using hW.fresh c (Nat.le_refl _) []
  have hVB : ¬ verDir B c <+: B := not_ext_prefix B _ []
  obtain ⟨fs2, hr2, h2⟩ := mkdirAll_spec fs1 (verDir B c) (by
    intro q hq
    rcases prefix_verDir B c q hq with h | h
    · right; rw [h1]; simp [h]
    · left; rw [h1, h]; simp [hVB, hVnone])
  have h2' : ∀ q, look fs2 q = if q <+: verDir B c then some .dir else look fs q := by
    intro q
    rw [h2]
    by_cases hq : q <+: verDir B c
    · simp [hq]
    · have : ¬ q <+: B := fun h => hq (h.trans (List.prefix_append _ _))
      simp [hq, h1, this]
  have hm0 : Mid B c none fs fs := Mid.refl B c none fs
  have hm1 : Mid B c none fs fs1 :=
    ⟨fun q hq => Or.inr (by rw [h1]; simp [hq]), fun q hq _ => by rw [h1]; simp [hq]⟩
  have hm2 : Mid B c none fs fs2 := by
    constructor
    · intro q hq
      right; rw [h2']
      have : q <+: verDir B c := hq.trans (List.prefix_append _ _)
      simp [this]
    · intro q hq ht
      rw [h2']
      have : ¬ q <+: verDir B c := by
        intro h
        rcases prefix_verDir B c q h with h' | h'
        · exact hq h'
        · exact ht (Or.inr (Or.inr (Or.inl (h' ▸ List.prefix_refl _))))
      simp [this]
  have hT1 : look fs1 (target B) = look fs (target B) := by
    rw [h1]; simp [target, not_ext_prefix]
  have hTN1 : look fs1 (targetNew B) = look fs (targetNew B) := by
    rw [h1]; simp [targetNew, not_ext_prefix]
  have hT2 : look fs2 (target B) = look fs (target B) := by
    rw [h2']; simp [target_not_prefix_ver]
  have hTN2 : look fs2 (targetNew B) = look fs (targetNew B) := by
    rw [h2']; simp [targetNew_not_prefix_ver]
  have hP0 : Post B fs0 c0 c files H fs fs := pre_ok files hp hW hm0 rfl hW.tnew
  have hP1 : Post B fs0 c0 c files H fs fs1 := pre_ok files hp hW hm1 hT1 (by rw [hTN1]; exact hW.tnew)
  have hP2 : Post B fs0 c0 c files H fs fs2 := pre_ok files hp hW hm2 hT2 (by rw [hTN2]; exact hW.tnew)
  -- phase B: the file loop
  have hdir2 : ∀ q, q <+: verDir B c → look fs2 q = some .dir := by
    intro q hq; rw [h2']; simp [hq]
  have child_ne : ∀ nm, target B ≠ verDir B c ++ [nm] ∧ targetNew B ≠ verDir B c ++ [nm] := by
    intro nm; simp [target, targetNew, verDir]
  have hmLoop : ∀ fs' m, LoopInv B c fs2 fs' m → Mid B c none fs fs' := by
    intro fs' m hl
    apply hm2.step
    · intro q hq
      apply hl.off
      intro nm e
      exact hq (Or.inr (Or.inr (Or.inl (e ▸ List.prefix_append _ _))))
    · exact fun q hq => not_touch_of_prefix B c none q hq
  have hTLoop : ∀ fs' m, LoopInv B c fs2 fs' m → look fs' (target B) = look fs (target B) := by
    intro fs' m hl; rw [hl.off _ (fun nm => (child_ne nm).1)]; exact hT2
  have hTNLoop : ∀ fs' m, LoopInv B c fs2 fs' m → look fs' (targetNew B) = look fs (targetNew B) := by
    intro fs' m hl; rw [hl.off _ (fun nm => (child_ne nm).2)]; exact hTN2
  have hPloop : ∀ fs' m, LoopInv B c fs2 fs' m → Post B fs0 c0 c files H fs fs' := by
    intro fs' m hl
    exact pre_ok files hp hW (hmLoop fs' m hl) (hTLoop fs' m hl) (by rw [hTNLoop fs' m hl]; exact hW.tnew)
  have hl0 : LoopInv B c fs2 fs2 (fun _ => none) := by
    constructor
    · intro nm
      rw [h2']
      have hn : ¬ (verDir B c ++ [nm] <+: verDir B c) := by
        intro h; have := h.length_le; simp at this; omega
      have : look fs (verDir B c ++ [nm]) = none := by
        simpa [verDir] using hW.fresh c (Nat.le_refl _) [nm]
      simp [hn, this]
    · intro q _; rfl
  obtain ⟨hsafeB, fs3, e3, m3, hr3, hl3, hm3eq, hiff3⟩ :=
    loop_spec B c (Post B fs0 c0 c files H fs) fs2 hdir2 hPloop files fs2 _ hl0
  have hrunA : ∀ tl, runOps fs ([.mkdirAll B, .mkdirAll (verDir B c)] ++ tl) = runOps fs2 tl := by
    intro tl
    have e1 : (Op.mkdirAll B).apply fs = .ok fs1 := by simpa [Op.apply] using hr1
    have e2 : (Op.mkdirAll (verDir B c)).apply fs1 = .ok fs2 := by simpa [Op.apply] using hr2
    simp [runOps, e1, e2]
  have hsafeA : ∀ tl, Safe (Post B fs0 c0 c files H fs) fs2 tl →
      Safe (Post B fs0 c0 c files H fs) fs ([.mkdirAll B, .mkdirAll (verDir B c)] ++ tl) := by
    intro tl htl
    refine safe_cons_ok hP0 (by simpa [Op.apply] using hr1) ?_
    exact safe_cons_ok hP1 (by simpa [Op.apply] using hr2) htl
  have hm3 : Mid B c none fs fs3 := hmLoop fs3 m3 hl3
  have hT3 : look fs3 (target B) = look fs (target B) := hTLoop fs3 m3 hl3
  have hTN3 : look fs3 (targetNew B) = look fs (targetNew B) := hTNLoop fs3 m3 hl3
  have hP3 : Post B fs0 c0 c files H fs fs3 := hPloop fs3 m3 hl3
  rw [writeOps_eq]
  cases e3 with
  | some err =>
    -- an invalid file name: the Write returns that error
    have hnv : ¬ AllValid files := fun h => by have := hiff3.2 h; simp at this
    refine ⟨hsafeA _ (safe_append_err _ hsafeB hr3), fs3, some err, ?_, ?_⟩
    · rw [hrunA, runOps_append_err _ hr3]
    · exact ⟨by simp [hnv], by simp, fun _ => ⟨hm3, hT3⟩, by simp⟩
  | none =>
  have hvalid : AllValid files := hiff3.1 rfl
  have hm3' := hm3eq rfl
  rw [← asMap_eq] at hm3'
  subst hm3'
  -- phase C: remove stale .new, symlink, rename
  have hbase3 : ∀ q, q <+: B → look fs3 q = some .dir := by
    intro q hq
    have hq' : q <+: verDir B c := hq.trans (List.prefix_append _ _)
    rw [hl3.off q (fun nm => prefix_ne_child hq' nm)]
    exact hdir2 q hq'
  obtain ⟨fs4, hr4, h4⟩ := removeIfExists_spec fs3 B .tgtNew hbase3 (by
    have := hW.tnew; simp only [targetNew] at this hTN3; rw [hTN3]; exact this)
  obtain ⟨fs5, hr5, h5⟩ := symlink_spec fs4 (verDir B c) B .tgtNew (by
    intro q hq; rw [h4]
    have : q ≠ B ++ [Name.tgtNew] := prefix_ne_child hq _
    simp [this]; exact hbase3 q hq) (by rw [h4]; simp)
  have hT5 : look fs5 (target B) = look fs (target B) := by
    rw [h5, h4]; simp [target]; exact hT3
  have hbase5 : ∀ q, q <+: B → look fs5 q = some .dir := by
    intro q hq; rw [h5, h4]
    have : q ≠ B ++ [Name.tgtNew] := prefix_ne_child hq _
    simp [this]; exact hbase3 q hq
  have hm4 : Mid B c none fs fs4 := by
    apply hm3.step
    · intro q hq
      rw [h4]
      have : q ≠ B ++ [Name.tgtNew] := fun e => hq (Or.inr (Or.inl e))
      simp [this]
    · exact fun q hq => not_touch_of_prefix B c none q hq
  have hm5 : Mid B c none fs fs5 := by
    apply hm4.step
    · intro q hq
      rw [h5]
      have : q ≠ B ++ [Name.tgtNew] := fun e => hq (Or.inr (Or.inl e))
      simp [this]
    · exact fun q hq => not_touch_of_prefix B c none q hq
  have hP4 : Post B fs0 c0 c files H fs fs4 := by
    apply pre_ok files hp hW hm4
    · rw [h4]; simp [target]; exact hT3
    · rw [h4]; simp [targetNew]
  have hP5 : Post B fs0 c0 c files H fs fs5 := by
    apply pre_ok files hp hW hm5 hT5
    rw [h5]; simp [targetNew]
  have e4 : (Op.removeIfExists (targetNew B)).apply fs3 = .ok fs4 := by simpa [targetNew] using hr4
  have e5 : (Op.symlink (verDir B c) (targetNew B)).apply fs4 = .ok fs5 := by
    simpa [Op.apply, targetNew] using hr5
  by_cases hTd : look fs (target B) = some .dir
  · -- a plain directory sits at the target: Rename fails, nothing but `.new` and the new version exists
    have hren := rename_onto_dir_fails fs5 B .tgtNew .tgt (verDir B c) hbase5
      (by rw [h5]; simp) (by have := hT5; simp only [target] at this hTd; rw [this]; exact hTd)
    have e6 : (Op.rename (targetNew B) (target B)).apply fs5 = .error .EEXIST := by
      simpa [Op.apply, targetNew, target] using hren
    refine ⟨hsafeA _ (safe_append hsafeB hr3 ?_), fs5, some .EEXIST, ?_, ?_⟩
    · exact safe_cons_ok hP3 e4 (safe_cons_ok hP4 e5 (safe_cons_err hP5 e6))
    · rw [hrunA, runOps_append_ok _ hr3]
      simp [runOps, e4, e5, e6]
    · exact ⟨by simp [hTd], by simp, fun _ => ⟨hm5, hT5⟩, by simp⟩
  · obtain ⟨fs6, hr6, h6⟩ := rename_link_spec fs5 B .tgtNew .tgt (verDir B c) (by simp) hbase5
      (by rw [h5]; simp) (by have := hT5; simp only [target] at this hTd; rw [this]; exact hTd)
    have hm6 : Mid B c none fs fs6 := by
      apply hm5.step
      · intro q hq
        rw [h6]
        have h1 : q ≠ B ++ [Name.tgtNew] := fun e => hq (Or.inr (Or.inl e))
        have h2 : q ≠ B ++ [Name.tgt] := fun e => hq (Or.inl e)
        simp [h1, h2]
      · exact fun q hq => not_touch_of_prefix B c none q hq
    -- the new version directory is complete from the end of the loop on
    have hd3 : DirIs fs3 (verDir B c) (asMap files) := by
      refine ⟨?_, hl3.files, ?_⟩
      · rw [hl3.off _ (fun nm => prefix_ne_child (List.prefix_refl _) nm)]
        exact hdir2 _ (List.prefix_refl _)
      · intro a b r
        rw [hl3.off _ (by intro nm; simp), h2']
        have hn : ¬ (verDir B c ++ a :: b :: r <+: verDir B c) := by
          intro h; have := h.length_le; simp at this; omega
        have : look fs (verDir B c ++ a :: b :: r) = none := by
          simpa [verDir] using hW.fresh c (Nat.le_refl _) (a :: b :: r)
        simp [hn, this]
    have hver6 : ∀ r, look fs6 (B ++ .ver c :: r) = look fs3 (B ++ .ver c :: r) := by
      intro r; rw [h6, h5, h4]; simp
    have hd6 : DirIs fs6 (verDir B c) (asMap files) := hd3.transport hver6
    have hT6 : look fs6 (target B) = some (.link (verDir B c)) := by
      rw [h6]; simp [target]
    have hTN6 : look fs6 (targetNew B) = none := by
      rw [h6]; simp [targetNew]
    have htgt6 : TgtOK B fs0 c0 fs6 (c + 1) (files :: H) :=
      Or.inr (Or.inl ⟨c, files, hW.le, by omega, by simp, hT6, hd6⟩)
    have hP6 : Post B fs0 c0 c files H fs fs6 :=
      ⟨W_of_mid files hW hm6 (by simp) htgt6 (by rw [hTN6]; simp), Or.inr ⟨hT6, hTd⟩⟩
    have hbase6 : ∀ q, q <+: B → look fs6 q = some .dir := by
      intro q hq
      rw [h6]
      have h1 : q ≠ B ++ [Name.tgtNew] := prefix_ne_child hq _
      have h2 : q ≠ B ++ [Name.tgt] := prefix_ne_child hq _
      simp [h1, h2]; exact hbase5 q hq
    have e6 : (Op.rename (targetNew B) (target B)).apply fs5 = .ok fs6 := by
      simpa [Op.apply, targetNew, target] using hr6
    have hsafeC : ∀ tl, Safe (Post B fs0 c0 c files H fs) fs6 tl →
        Safe (Post B fs0 c0 c files H fs) fs3
          ([.removeIfExists (targetNew B), .symlink (verDir B c) (targetNew B),
            .rename (targetNew B) (target B)] ++ tl) := by
      intro tl htl
      exact safe_cons_ok hP3 e4 (safe_cons_ok hP4 e5 (safe_cons_ok hP5 e6 htl))
    have hrunC : ∀ tl, runOps fs3
          ([.removeIfExists (targetNew B), .symlink (verDir B c) (targetNew B),
            .rename (targetNew B) (target B)] ++ tl) = runOps fs6 tl := by
      intro tl
      simp [runOps, e4, e5, e6]
    have hafter : ∀ fsEnd, runOps fs6 (tailOps B prev) = (fsEnd, none) →
        look fsEnd (target B) = some (.link (verDir B c)) →
        ∀ k, files.length + 5 ≤ k →
          look (runOps fs ((writeOps B prev c files).take k)).1 (target B) = some (.link (verDir B c)) := by
      intro fsEnd hend hTend k hk
      obtain ⟨tl, htl, htake⟩ := take_writeOps B prev c files k hk
      rw [htake, hrunA, runOps_append_ok _ hr3, hrunC]
      rcases htl with h | h
      · subst h; simpa [runOps] using hT6
      · subst h; rw [hend]; exact hTend
    have hok : (none : Option Errno) = none ↔ (AllValid files ∧ look fs (target B) ≠ some .dir) := by
      simp [hvalid, hTd]
    -- phase D: remove the previous version
    cases prev with
    | none =>
      refine ⟨hsafeA _ (safe_append hsafeB hr3 (hsafeC [] (safe_nil hP6))), fs6, none, ?_, ?_⟩
      · rw [hrunA, runOps_append_ok _ hr3, hrunC]; rfl
      · exact ⟨hok, fun _ => ⟨hT6, hd6, hTN6, hm6, by simp, hbase6⟩, by simp,
          fun _ => hafter fs6 rfl hT6⟩
    | some n =>
      obtain ⟨_, hnc, hTn⟩ := hprev n rfl
      obtain ⟨fs7, hr7, h7⟩ := removeAll_spec fs6 B (.ver n) hbase6
      have hnot : ∀ r, ¬ (B ++ [Name.ver n] <+: B ++ Name.ver c :: r) := by
        intro r h
        have := (prefix_ver_iff B (.ver n) (.ver c) r).1 h
        simp at this; omega
      have hm7 : Mid B c (some n) fs fs7 := by
        apply (hm6.weaken (rm := some n)).step
        · intro q hq
          rw [h7]
          have : ¬ (B ++ [Name.ver n] <+: q) := fun h => hq (Or.inr (Or.inr (Or.inr ⟨n, rfl, h⟩)))
          simp [this]
        · exact fun q hq => not_touch_of_prefix B c (some n) q hq
      have hT7 : look fs7 (target B) = some (.link (verDir B c)) := by
        rw [h7]
        have : ¬ (B ++ [Name.ver n] <+: target B) := by
          simp [target, List.prefix_append_right_inj, List.cons_prefix_cons]
        simp [this, hT6]
      have hTN7 : look fs7 (targetNew B) = none := by
        rw [h7]
        have : ¬ (B ++ [Name.ver n] <+: targetNew B) := by
          simp [targetNew, List.prefix_append_right_inj, List.cons_prefix_cons]
        simp [this, hTN6]
      have hd7 : DirIs fs7 (verDir B c) (asMap files) := by
        apply hd6.transport
        intro r; rw [h7]; simp [hnot r]
      have htgt7 : TgtOK B fs0 c0 fs7 (c + 1) (files :: H) :=
        Or.inr (Or.inl ⟨c, files, hW.le, by omega, by simp, hT7, hd7⟩)
      have hP7 : Post B fs0 c0 c files H fs fs7 :=
        ⟨W_of_mid files hW hm7 (by intro k hk; simp at hk; omega) htgt7 (by rw [hTN7]; simp),
          Or.inr ⟨hT7, hTd⟩⟩
      have e7 : (Op.removeAll (verDir B n)).apply fs6 = .ok fs7 := by simpa [Op.apply, verDir] using hr7
      refine ⟨hsafeA _ (safe_append hsafeB hr3 (hsafeC _ (safe_cons_ok hP6 e7 (safe_nil hP7)))),
        fs7, none, ?_, ?_⟩
      · rw [hrunA, runOps_append_ok _ hr3, hrunC]
        simp [tailOps, runOps, e7]
      · refine ⟨hok, fun _ => ⟨hT7, hd7, hTN7, hm7, ?_, ?_⟩, by simp,
          fun _ => hafter fs7 (by simp [tailOps, runOps, e7]) hT7⟩
        · intro k hk r
          simp at hk; subst hk
          rw [h7]
          have : B ++ [Name.ver n] <+: B ++ Name.ver n :: r := (prefix_ver_iff B _ _ r).2 rfl
          simp [this]
        · intro q hq
          rw [h7]
          have : ¬ (B ++ [Name.ver n] <+: q) := fun h => not_ext_prefix B (.ver n) [] (h.trans hq)
          simp [this]; exact hbase6 q hq

/-! ### histories -/

/-- Initial file systems of the property's own quantifier (first process on a new target): the
ancestors of the base are directories or missing, and nothing exists below the base yet. -/
def Clean (B : Path) (fs0 : FS) : Prop :=
  (∀ q, q <+: B → look fs0 q = none ∨ look fs0 q = some .dir) ∧
  (∀ x r, look fs0 (B ++ x :: r) = none)

theorem prior_of_clean {B : Path} {fs0 : FS} (h : Clean B fs0) : Prior B 0 fs0 :=
  ⟨h.1, fun n _ r => h.2 _ r, by simp [targetNew, h.2 .tgtNew []],
    fun t ht => by simp [target, h.2 .tgt []] at ht⟩

theorem clean_target_none {B : Path} {fs0 : FS} (h : Clean B fs0) : look fs0 (target B) = none := by
  simpa [target] using h.2 .tgt []

/-- History invariant: `W` plus what the live `Dir` remembers (`prev` is the version the target
points to). -/
def Inv (B : Path) (fs0 : FS) (c0 : Nat) (s : St) (H : List Files) : Prop :=
  W B fs0 c0 s.fs s.clock H ∧
  ∀ n, s.prev = some n → c0 ≤ n ∧ n < s.clock ∧ look s.fs (target B) = some (.link (verDir B n))

theorem inv_init (B : Path) (fs0 : FS) (c0 : Nat) (hp : Prior B c0 fs0) :
    Inv B fs0 c0 (initAt fs0 c0) [] := by
  refine ⟨⟨hp.chain, hp.fresh, ?_, hp.tnew, Nat.le_refl _⟩, ?_⟩
  · by_cases h : look fs0 (target B) = none
    · exact Or.inl h
    · exact Or.inr (Or.inr ⟨h, rfl, fun _ _ => rfl, fun _ _ _ => rfl⟩)
  · intro n hn; simp [initAt] at hn

/-- State after a `Write` that ended in `fs'` with result `e`. -/
def afterWrite (s : St) (fs' : FS) (e : Option Errno) : St :=
  { fs := fs', clock := s.clock + 1, prev := (match e with | none => some s.clock | some _ => s.prev),
    lastErr := e }

theorem step_write_eq (B : Path) (s : St) (files : Files) (fs' : FS) (e : Option Errno)
    (h : runOps s.fs (writeOps B s.prev s.clock files) = (fs', e)) :
    step B s (.write files) = afterWrite s fs' e := by
  have h' : runOps s.fs (writeOpsOf fixedSteps B s.prev s.clock files) = (fs', e) := h
  simp only [step, stepWith, h', afterWrite]
  cases e <;> rfl

/-- One event: the invariant is kept; the target entry stays or (unless it was a directory)
becomes the link to the new version. -/
theorem inv_step (B : Path) (fs0 : FS) (c0 : Nat) (hp : Prior B c0 fs0) (s : St) (H : List Files)
    (ev : Ev) (h : Inv B fs0 c0 s H) :
    Inv B fs0 c0 (step B s ev) (ev.files :: H) ∧
    (look (step B s ev).fs (target B) = look s.fs (target B) ∨
      (look (step B s ev).fs (target B) = some (.link (verDir B s.clock)) ∧
        look s.fs (target B) ≠ some .dir)) := by
  obtain ⟨hW, hpv⟩ := h
  cases ev with
  | write files =>
    obtain ⟨hsafe, fs', e, hrun, hout⟩ := write_spec B fs0 c0 hp s.fs s.clock H files s.prev hW hpv
    have hP := safe_last hsafe
    rw [hrun] at hP
    rw [step_write_eq B s files fs' e hrun]
    refine ⟨⟨hP.1, ?_⟩, hP.2⟩
    intro n hn
    cases e with
    | none =>
      simp [afterWrite] at hn; subst hn
      exact ⟨hW.le, by simp [afterWrite], (hout.fin rfl).tgt⟩
    | some err =>
      simp only [afterWrite] at hn
      obtain ⟨h1, h2, h3⟩ := hpv n hn
      refine ⟨h1, by simp [afterWrite]; omega, ?_⟩
      simp only [afterWrite]
      rw [(hout.failed (by simp)).tgt]; exact h3
  | crash files k =>
    have hsafe := (write_spec B fs0 c0 hp s.fs s.clock H files s.prev hW hpv).1 k
    refine ⟨⟨hsafe.1, ?_⟩, hsafe.2⟩
    intro n hn
    simp [step, stepWith] at hn

theorem run_cons (B : Path) (s : St) (ev : Ev) (evs : List Ev) :
    run B s (ev :: evs) = run B (step B s ev) evs := rfl

theorem run_append (B : Path) (s : St) (e1 e2 : List Ev) :
    run B s (e1 ++ e2) = run B (run B s e1) e2 := by
  simp [run, runWith, List.foldl_append]

theorem inv_run (B : Path) (fs0 : FS) (c0 : Nat) (hp : Prior B c0 fs0) (evs : List Ev) :
    ∀ (s : St) (H : List Files), Inv B fs0 c0 s H →
    Inv B fs0 c0 (run B s evs) ((evs.map Ev.files).reverse ++ H) ∧
    (look s.fs (target B) ≠ none → look (run B s evs).fs (target B) ≠ none) ∧
    (look s.fs (target B) = some .dir → look (run B s evs).fs (target B) = some .dir) := by
  induction evs with
  | nil => intro s H h; exact ⟨by simpa [run, runWith] using h, fun h => h, fun h => h⟩
  | cons ev evs ih =>
    intro s H h
    obtain ⟨h1, hp1⟩ := inv_step B fs0 c0 hp s H ev h
    obtain ⟨h2, hp2, hd2⟩ := ih _ _ h1
    rw [run_cons]
    refine ⟨by simpa using h2, ?_, ?_⟩
    · intro hne
      apply hp2
      rcases hp1 with e | ⟨e, _⟩
      · rw [e]; exact hne
      · rw [e]; simp
    · intro hd
      apply hd2
      rcases hp1 with e | ⟨_, e⟩
      · rw [e]; exact hd
      · exact absurd hd e

theorem inv_history_at (B : Path) (fs0 : FS) (c0 : Nat) (hp : Prior B c0 fs0) (evs : List Ev) :
    Inv B fs0 c0 (run B (initAt fs0 c0) evs) (evs.map Ev.files).reverse := by
  simpa using (inv_run B fs0 c0 hp evs (initAt fs0 c0) [] (inv_init B fs0 c0 hp)).1

theorem inv_history (B : Path) (fs0 : FS) (h0 : Clean B fs0) (evs : List Ev) :
    Inv B fs0 0 (run B (init fs0) evs) (evs.map Ev.files).reverse :=
  inv_history_at B fs0 0 (prior_of_clean h0) evs

/-- The target is a plain directory only if it was one when the process started. -/
theorem tgt_not_dir {B : Path} {fs0 : FS} {c0 : Nat} {s : St} {H : List Files}
    (h : Inv B fs0 c0 s H) (h0 : look fs0 (target B) ≠ some .dir) :
    look s.fs (target B) ≠ some .dir := by
  rcases h.1.tgt with e | ⟨n, fl, _, _, _, e, _⟩ | ⟨_, e, _⟩
  · rw [e]; simp
  · rw [e]; simp
  · rw [e]; exact h0

/-- What a reader sees when the target is a link to a directory. -/
theorem resolve_link_dir (fs : FS) (p d : Path) (h1 : look fs p = some (.link d))
    (h2 : look fs d = some .dir) : resolve fs p = some (d, .dir) := by
  simp [resolve, resolveN, h1, h2]

theorem resolve_none (fs : FS) (p : Path) (h : look fs p = none) : resolve fs p = none := by
  simp [resolve, resolveN, h]

/-- Result of a complete `Write` with valid names in a state whose target is not a plain directory. -/
theorem write_result (B : Path) (fs0 : FS) (c0 : Nat) (hp : Prior B c0 fs0) (s : St) (H : List Files)
    (files : Files) (h : Inv B fs0 c0 s H) (hv : AllValid files)
    (hnd : look s.fs (target B) ≠ some .dir) :
    ∃ fs', step B s (.write files) =
        { fs := fs', clock := s.clock + 1, prev := some s.clock, lastErr := none } ∧
      Final B s.clock s.prev s.fs fs' files := by
  obtain ⟨_, fs', e, hrun, hout⟩ := write_spec B fs0 c0 hp s.fs s.clock H files s.prev h.1 h.2
  have he : e = none := hout.ok_iff.2 ⟨hv, hnd⟩
  subst he
  exact ⟨fs', by rw [step_write_eq B s files fs' none hrun]; rfl, hout.fin rfl⟩

/-- Result of a `Write` that returns an error (whatever the reason). -/
theorem write_failed (B : Path) (fs0 : FS) (c0 : Nat) (hp : Prior B c0 fs0) (s : St) (H : List Files)
    (files : Files) (h : Inv B fs0 c0 s H) (herr : (step B s (.write files)).lastErr ≠ none) :
    Failed B s.clock s.fs (step B s (.write files)).fs ∧ (step B s (.write files)).prev = s.prev ∧
    ¬ (AllValid files ∧ look s.fs (target B) ≠ some .dir) := by
  obtain ⟨_, fs', e, hrun, hout⟩ := write_spec B fs0 c0 hp s.fs s.clock H files s.prev h.1 h.2
  rw [step_write_eq B s files fs' e hrun] at herr ⊢
  cases e with
  | none => simp [afterWrite] at herr
  | some err =>
    exact ⟨hout.failed (by simp), rfl, fun hc => by have := hout.ok_iff.2 hc; simp at this⟩

/-- A `Write` returns nil exactly when its names are valid and the target is not a plain directory. -/
theorem write_ok_iff (B : Path) (fs0 : FS) (c0 : Nat) (hp : Prior B c0 fs0) (s : St) (H : List Files)
    (files : Files) (h : Inv B fs0 c0 s H) :
    (step B s (.write files)).lastErr = none ↔ (AllValid files ∧ look s.fs (target B) ≠ some .dir) := by
  obtain ⟨_, fs', e, hrun, hout⟩ := write_spec B fs0 c0 hp s.fs s.clock H files s.prev h.1 h.2
  rw [step_write_eq B s files fs' e hrun]
  exact hout.ok_iff

/-! ### crash-free histories: exactly one version directory -/

/-- Below the base there is only the target link and version directory `n`. -/
def OnlyVersion (B : Path) (fs : FS) (n : Nat) : Prop :=
  ∀ x r, look fs (B ++ x :: r) ≠ none → (x = .tgt ∧ r = []) ∨ x = .ver n

/-- What lies below the base between the `Write`s of a crash-free history. -/
def PreOnly (B : Path) (fs : FS) : Option Nat → Prop
  | none => ∀ x r, look fs (B ++ x :: r) = none
  | some n => OnlyVersion B fs n

theorem only_after_write (B : Path) (c : Nat) (prev : Option Nat) (fs fs' : FS) (files : Files)
    (hfin : Final B c prev fs fs' files) (hpre : PreOnly B fs prev) :
    OnlyVersion B fs' c := by
  intro x r hne
  by_cases ht : Touch B c prev (B ++ x :: r)
  · rcases ht with h | h | h | ⟨n, hn, h⟩
    · left; simpa [target] using h
    · exfalso; apply hne; rw [h]; exact hfin.tnew
    · right; exact ((prefix_ver_iff B (.ver c) x r).1 h).symm
    · exfalso; apply hne
      have hx := (prefix_ver_iff B (.ver n) x r).1 h
      subst hx
      exact hfin.gone n hn r
  · exfalso
    have hsame := hfin.mid.off _ (not_ext_prefix B x r) ht
    rw [hsame] at hne
    cases prev with
    | none => exact hne (hpre x r)
    | some n =>
      rcases hpre x r hne with ⟨hx, hr⟩ | hx
      · subst hx; subst hr; exact ht (Or.inl rfl)
      · subst hx
        exact ht (Or.inr (Or.inr (Or.inr ⟨n, rfl, (prefix_ver_iff B _ _ r).2 rfl⟩)))

/-- Crash-free invariant (first process on a clean target). -/
def CF (B : Path) (fs0 : FS) (s : St) : Prop :=
  (∃ H, Inv B fs0 0 s H) ∧ PreOnly B s.fs s.prev ∧ look s.fs (target B) ≠ some .dir

theorem cf_step (B : Path) (fs0 : FS) (h0 : Clean B fs0) (s : St) (w : Files) (hv : AllValid w)
    (h : CF B fs0 s) :
    CF B fs0 (step B s (.write w)) ∧
    ∃ fs', step B s (.write w) = { fs := fs', clock := s.clock + 1, prev := some s.clock, lastErr := none } ∧
      Final B s.clock s.prev s.fs fs' w ∧ OnlyVersion B fs' s.clock := by
  obtain ⟨⟨H, hinv⟩, hpre, hnd⟩ := h
  have hp := prior_of_clean h0
  obtain ⟨fs', hstep, hfin⟩ := write_result B fs0 0 hp s H w hinv hv hnd
  have honly := only_after_write B _ _ _ fs' w hfin hpre
  refine ⟨⟨⟨_, (inv_step B fs0 0 hp s H (.write w) hinv).1⟩, ?_, ?_⟩, fs', hstep, hfin, honly⟩
  · rw [hstep]; exact honly
  · rw [hstep]; simp only []; rw [hfin.tgt]; simp

theorem cf_run (B : Path) (fs0 : FS) (h0 : Clean B fs0) (ws : List Files) :
    (∀ w ∈ ws, AllValid w) → ∀ s, CF B fs0 s → CF B fs0 (run B s (ws.map .write)) := by
  induction ws with
  | nil => intro _ s h; exact h
  | cons w ws ih =>
    intro hv s h
    exact ih (fun w' hw' => hv w' (by simp [hw'])) _ (cf_step B fs0 h0 s w (hv w (by simp)) h).1

theorem cf_init (B : Path) (fs0 : FS) (h0 : Clean B fs0) : CF B fs0 (init fs0) :=
  ⟨⟨[], inv_init B fs0 0 (prior_of_clean h0)⟩, by simpa [PreOnly, init, initAt] using h0.2,
    by simp [init, initAt, clean_target_none h0]⟩

/-! ### crash after the rename: the target is present -/

theorem crash_after_rename_present (B : Path) (fs0 : FS) (c0 : Nat) (hp : Prior B c0 fs0) (s : St)
    (H : List Files) (files : Files) (k : Nat)
    (h : Inv B fs0 c0 s H) (hv : AllValid files) (hnd : look s.fs (target B) ≠ some .dir)
    (hk : files.length + 5 ≤ k) :
    look (step B s (.crash files k)).fs (target B) = some (.link (verDir B s.clock)) := by
  obtain ⟨_, fs', e, hrun, hout⟩ := write_spec B fs0 c0 hp s.fs s.clock H files s.prev h.1 h.2
  exact hout.after (hout.ok_iff.2 ⟨hv, hnd⟩) k hk

/-! ### the code before the repair: a stale `.new` blocks every later Write -/

theorem mkdirChain_frame (qs : List Path) : ∀ (fs fs' : FS) (q : Path), q ∉ qs →
    mkdirChain fs qs = .ok fs' → look fs' q = look fs q := by
  induction qs with
  | nil => intro fs fs' q _ h; simp [mkdirChain] at h; rw [h]
  | cons q0 qs ih =>
    intro fs fs' q hq h
    have hne : q ≠ q0 := fun e => hq (by simp [e])
    have hq' : q ∉ qs := fun e => hq (by simp [e])
    cases h0 : look fs q0 with
    | none =>
      have hq0 : q0 ≠ [] := by intro e; subst e; simp [look] at h0
      simp only [mkdirChain, h0] at h
      rw [ih _ _ q hq' h, look_set _ _ _ _ hq0]
      simp [hne]
    | some nd =>
      cases nd with
      | dir => simp only [mkdirChain, h0] at h; exact ih _ _ q hq' h
      | file b => simp [mkdirChain, h0] at h
      | link t => simp [mkdirChain, h0] at h

theorem writeFile_frame (fs fs' : FS) (p q : Path) (b : Bytes) (hq : q ≠ p)
    (h : writeFile fs p b = .ok fs') : look fs' q = look fs q := by
  unfold writeFile at h
  by_cases hp : p = []
  · simp [hp] at h
  · simp only [hp, if_false] at h
    cases hpe : parentErr fs p with
    | some e => simp [hpe] at h
    | none =>
      simp only [hpe] at h
      cases hl : look fs p with
      | none =>
        simp only [hl] at h
        injection h with h; subst h
        rw [look_set _ _ _ _ hp]; simp [hq]
      | some nd =>
        cases nd with
        | dir => simp [hl] at h
        | file b' =>
          simp only [hl] at h
          injection h with h; subst h
          rw [look_set _ _ _ _ hp]; simp [hq]
        | link t => simp [hl] at h

/-- Operations that cannot change what is at path `q`. -/
def NoTouch (q : Path) : Op → Prop
  | .mkdirAll p => ¬ q <+: p
  | .writeFile p _ => q ≠ p
  | .badName _ => True
  | _ => False

theorem runOps_frame (q : Path) (ops : List Op) : ∀ (fs : FS), (∀ op ∈ ops, NoTouch q op) →
    look (runOps fs ops).1 q = look fs q := by
  induction ops with
  | nil => intro fs _; rfl
  | cons op ops ih =>
    intro fs h
    have hop := h op (by simp)
    have hrest : ∀ o ∈ ops, NoTouch q o := fun o ho => h o (by simp [ho])
    simp only [runOps]
    cases hap : op.apply fs with
    | error e => rfl
    | ok fs1 =>
      simp only []
      rw [ih fs1 hrest]
      cases op with
      | mkdirAll p =>
        simp only [Op.apply, mkdirAll] at hap
        exact mkdirChain_frame _ _ _ q (fun hm => hop ((mem_prefixes p q).1 hm).2) hap
      | writeFile p b =>
        simp only [Op.apply] at hap
        exact writeFile_frame _ _ p q b hop hap
      | removeIfExists p => exact absurd hop (by simp [NoTouch])
      | symlink t p => exact absurd hop (by simp [NoTouch])
      | rename o n => exact absurd hop (by simp [NoTouch])
      | removeAll p => exact absurd hop (by simp [NoTouch])
      | badName nm => simp [Op.apply] at hap

theorem runOps_append (fs : FS) (a b : List Op) :
    runOps fs (a ++ b) =
      match (runOps fs a).2 with
      | none => runOps (runOps fs a).1 b
      | some e => ((runOps fs a).1, some e) := by
  induction a generalizing fs with
  | nil => simp [runOps]
  | cons op rest ih =>
    simp only [List.cons_append, runOps]
    cases hop : op.apply fs with
    | ok fs1 => simp only []; exact ih fs1
    | error e => simp

theorem symlink_exists_fails (fs : FS) (to p : Path) (h : look fs p ≠ none) :
    ∃ e, symlink fs to p = .error e := by
  unfold symlink
  by_cases hp : p = []
  · exact ⟨.EEXIST, by simp [hp]⟩
  · simp only [hp, if_false]
    cases parentErr fs p with
    | some e => exact ⟨e, rfl⟩
    | none =>
      cases hl : look fs p with
      | none => exact absurd hl h
      | some nd => exact ⟨.EEXIST, rfl⟩

theorem origOps_eq (B : Path) (prev : Option Nat) (c : Nat) (files : Files) :
    writeOpsOf origSteps B prev c files =
      ([.mkdirAll B, .mkdirAll (verDir B c)] ++ wfOps B c files) ++
        (.symlink (verDir B c) (targetNew B) :: (.rename (targetNew B) (target B) :: tailOps B prev)) := by
  cases prev <;> simp [writeOpsOf, origSteps, stepOps, wfOps, tailOps]

theorem orig_runOps_blocked (B : Path) (fs : FS) (prev : Option Nat) (c : Nat) (files : Files)
    (h : look fs (targetNew B) ≠ none) :
    (runOps fs (writeOpsOf origSteps B prev c files)).2 ≠ none ∧
    look (runOps fs (writeOpsOf origSteps B prev c files)).1 (targetNew B) ≠ none := by
  have hpre : ∀ op ∈ ([.mkdirAll B, .mkdirAll (verDir B c)] ++ wfOps B c files : List Op),
      NoTouch (targetNew B) op := by
    intro op hop
    simp only [List.mem_append, List.mem_cons, List.not_mem_nil, or_false, wfOps, List.mem_map] at hop
    rcases hop with (rfl | rfl) | ⟨kb, _, rfl⟩
    · exact not_ext_prefix B _ []
    · exact targetNew_not_prefix_ver B _
    · by_cases hv : validName kb.1 = true <;> simp [hv, NoTouch, targetNew, verDir]
  have hframe := runOps_frame (targetNew B) _ fs hpre
  rw [origOps_eq, runOps_append]
  generalize hr : runOps fs ([.mkdirAll B, .mkdirAll (verDir B c)] ++ wfOps B c files) = r at hframe
  obtain ⟨fs3, e⟩ := r
  cases e with
  | some e => exact ⟨by simp, by simpa using (by rw [hframe]; exact h)⟩
  | none =>
    simp only at hframe ⊢
    obtain ⟨e, hsym⟩ := symlink_exists_fails fs3 (verDir B c) (targetNew B) (by rw [hframe]; exact h)
    simp only [runOps, Op.apply, hsym]
    exact ⟨by simp, by rw [hframe]; exact h⟩

/-- Before the repair: if `<target>.new` exists, a `Write` fails and leaves it in place. -/
theorem orig_write_blocked (B : Path) (s : St) (files : Files)
    (h : look s.fs (targetNew B) ≠ none) :
    (stepWith origSteps B s (.write files)).lastErr ≠ none ∧
    look (stepWith origSteps B s (.write files)).fs (targetNew B) ≠ none :=
  orig_runOps_blocked B s.fs s.prev s.clock files h

/-! ### residue of a call that was itself interrupted -/

/-- `fs'` differs from `fs` only by what a single `os` call of `Write` that is not one system call
can leave when the process dies inside it:
* `MkdirAll`: some missing ancestors of the base have been created (`mkdir` one by one);
* `WriteFile` / `RemoveAll`: anything inside a version directory that exists (id below the clock)
  and that the target does not point to (`WriteFile` only writes into the not yet linked new
  version, `RemoveAll` only deletes the version the target no longer points to). -/
def ResidueOnly (B : Path) (c0 clock : Nat) (fs fs' : FS) : Prop :=
  ∀ q, look fs' q = look fs q ∨
    (q <+: B ∧ look fs q = none ∧ look fs' q = some .dir) ∨
    ∃ n r, q = B ++ .ver n :: r ∧ c0 ≤ n ∧ n < clock ∧
      look fs (target B) ≠ some (.link (verDir B n))

theorem inv_of_residue (B : Path) (fs0 : FS) (c0 : Nat) (hp : Prior B c0 fs0) (s : St)
    (H : List Files) (fs' : FS) (h : Inv B fs0 c0 s H)
    (hd : ResidueOnly B c0 s.clock s.fs fs') :
    Inv B fs0 c0 { s with fs := fs', prev := none } H := by
  obtain ⟨hW, _⟩ := h
  have same : ∀ q, ¬ q <+: B → (∀ n r, q ≠ B ++ Name.ver n :: r) → look fs' q = look s.fs q := by
    intro q hqB hq
    rcases hd q with h | ⟨h, _⟩ | ⟨n, r, e, _⟩
    · exact h
    · exact absurd h hqB
    · exact absurd e (hq n r)
  have hT : look fs' (target B) = look s.fs (target B) :=
    same _ (not_ext_prefix B _ []) (by intro n r; simp [target])
  have hTN : look fs' (targetNew B) = look s.fs (targetNew B) :=
    same _ (not_ext_prefix B _ []) (by intro n r; simp [targetNew])
  have hver : ∀ n r, look s.fs (target B) = some (.link (verDir B n)) →
      look fs' (B ++ .ver n :: r) = look s.fs (B ++ .ver n :: r) := by
    intro n r hl
    rcases hd (B ++ .ver n :: r) with h | ⟨h, _⟩ | ⟨m, r', e, _, _, hne⟩
    · exact h
    · exact absurd h (not_ext_prefix B _ r)
    · have : n = m := (by simpa using (List.append_cancel_left e) : n = m ∧ _).1
      subst this; exact absurd hl hne
  refine ⟨⟨?_, ?_, ?_, ?_, hW.le⟩, by intro n hn; simp at hn⟩
  · intro q hq
    rcases hd q with h | ⟨_, _, h⟩ | ⟨n, r, e, _⟩
    · rw [h]; exact hW.chain q hq
    · exact Or.inr h
    · exact absurd (e ▸ hq) (not_ext_prefix B _ r)
  · intro n hn r
    rcases hd (B ++ .ver n :: r) with h | ⟨h, _⟩ | ⟨m, r', e, _, hm, _⟩
    · rw [h]; exact hW.fresh n hn r
    · exact absurd h (not_ext_prefix B _ r)
    · have : n = m := (by simpa using (List.append_cancel_left e) : n = m ∧ _).1
      simp only [] at hn; omega
  · rcases hW.tgt with h | ⟨n, fl, hn0, hn, hmem, hl, hdir⟩ | ⟨h1, h2, h3, h4⟩
    · left; rw [hT]; exact h
    · right; left
      exact ⟨n, fl, hn0, hn, hmem, by rw [hT]; exact hl, hdir.transport (fun r => hver n r hl)⟩
    · right; right
      refine ⟨h1, by rw [hT]; exact h2, ?_, ?_⟩
      · intro x r
        have e : target B ++ x :: r = B ++ .tgt :: x :: r := by simp [target]
        rw [same _ (by rw [e]; exact not_ext_prefix B _ _) (by intro n r'; rw [e]; simp)]
        exact h3 x r
      · intro t ht r
        have hf := hp.tlink t ht
        -- below a foreign path nothing of this process's version directories or of the base chain lies
        have hnt := not_touch_foreign (c := s.clock) (rm := none) hf hW.le (by simp) r
        rcases hd (t ++ r) with h | ⟨h, _⟩ | ⟨n, r', e, hn0, _, _⟩
        · rw [h]; exact h4 t ht r
        · exact absurd h hnt.1
        · -- residue lies in a version directory of this process (id ≥ c0): never below a foreign path
          exfalso
          have hnt' := not_touch_foreign (c := n) (rm := none) hf hn0 (by simp) r
          apply hnt'.2
          right; right; left
          rw [e]; simp [verDir]
  · rw [hTN]; exact hW.tnew

/-! ### small corollaries used by the property theorems -/

/-- On a clean start the pre-existing-entry alternative of `TgtOK` cannot occur. -/
theorem absent_or_complete_of_clean {B : Path} {fs0 fs : FS} {clock : Nat} {H : List Files}
    (h0 : Clean B fs0) (h : TgtOK B fs0 0 fs clock H) :
    look fs (target B) = none ∨ Complete B 0 fs clock H := by
  rcases h with h | h | ⟨h, _⟩
  · exact Or.inl h
  · exact Or.inr h
  · exact absurd (clean_target_none h0) h

/-- A failed `Write` leaves the directory the target points to intact. -/
theorem Failed.keeps_dir {B : Path} {c : Nat} {fs fs' : FS} (hf : Failed B c fs fs')
    (hfresh : ∀ r, look fs (B ++ .ver c :: r) = none) (n : Nat) (m : Name → Option Bytes)
    (hd : DirIs fs (verDir B n) m) : DirIs fs' (verDir B n) m := by
  have hne : n ≠ c := by
    intro e; subst e
    have := hfresh []
    rw [show B ++ [Name.ver n] = verDir B n from rfl, hd.1] at this
    simp at this
  apply hd.transport
  intro r
  exact hf.mid.off _ (not_ext_prefix B _ r) (not_touch_ver B c n none r hne (by simp))

end Kit.Dir
