import KitProofs.Lemmas.LinCheck
/-! Completeness of the executable linearizability checker `linCheck` (C14) for complete,
consistently annotated histories: if the history is linearizable, the checker answers `true`. -/
set_option linter.unusedSectionVars false
namespace Kit.Containers

variable {σ ι ρ : Type}

/-- `WellAnnotated pend h`: scanning `h` with the hints of the operations in flight (`pend`), every
invocation is by an idle thread, every response carries exactly the result announced at the
thread's invocation, and at the end nothing is in flight (the history is complete). -/
def WellAnnotated : (Nat → Option ρ) → List (HEv ι ρ) → Prop
  | pend, [] => ∀ t, pend t = none
  | pend, .inv t _ k :: rest => pend t = none ∧ WellAnnotated (upd pend t (some k)) rest
  | pend, .ret t r :: rest => pend t = some r ∧ WellAnnotated (upd pend t none) rest

/-! ### the annotated atomic object: threads remember the announced result -/

inductive AStat (ι ρ : Type) where
  | idle
  | pend (i : ι) (k : ρ)
  | done (r : ρ) (k : ρ)

structure ACfg (σ ι ρ : Type) where
  st : σ
  thr : Nat → AStat ι ρ

inductive ALabel (ι ρ : Type) where
  | ev (e : HEv ι ρ)
  | lin (t : Nat)

def ALabel.ev? : ALabel ι ρ → Option (HEv ι ρ)
  | .ev e => some e
  | .lin _ => none

inductive AStep (S : Spec σ ι ρ) : ACfg σ ι ρ → ALabel ι ρ → ACfg σ ι ρ → Prop where
  | inv {c : ACfg σ ι ρ} {t : Nat} {i : ι} {k : ρ} : c.thr t = .idle →
      AStep S c (.ev (.inv t i k)) { c with thr := upd c.thr t (.pend i k) }
  | lin {c : ACfg σ ι ρ} {t : Nat} {i : ι} {k r : ρ} {s' : σ} : c.thr t = .pend i k → S.exec c.st i r = some s' →
      AStep S c (.lin t) { st := s', thr := upd c.thr t (.done r k) }
  | ret {c : ACfg σ ι ρ} {t : Nat} {r k : ρ} : c.thr t = .done r k →
      AStep S c (.ev (.ret t r)) { c with thr := upd c.thr t .idle }

def acfg0 (S : Spec σ ι ρ) : ACfg σ ι ρ := { st := S.init, thr := fun _ => .idle }

/-- every linearized operation answered what was announced -/
def Honest (c : ACfg σ ι ρ) : Prop := ∀ t r k, c.thr t = .done r k → r = k

def hints (c : ACfg σ ι ρ) : Nat → Option ρ := fun t =>
  match c.thr t with
  | .idle => none
  | .pend _ k => some k
  | .done _ k => some k

def forget (c : ACfg σ ι ρ) : SCfg σ ι ρ :=
  { st := c.st, thr := fun t => match c.thr t with
      | .idle => .idle
      | .pend i _ => .pend i
      | .done r _ => .done r }

/-! ### from a run of the atomic object and an annotated history to an annotated run -/

theorem annotate (S : Spec σ ι ρ) {sc sc' : SCfg σ ι ρ} {tr : List (SLabel ι ρ)} (hr : Run S.Step sc tr sc')
    (h : List (HEv ι ρ)) (hh : tr.filterMap SLabel.hist = h.map HEv.toEv)
    (ac : ACfg σ ι ρ) (hf : forget ac = sc) :
    ∃ als ac', Run (AStep S) ac als ac' ∧ als.filterMap ALabel.ev? = h := by
  induction hr generalizing h ac with
  | nil c => cases h with
    | nil => exact ⟨[], ac, Run.nil _, rfl⟩
    | cons e _ => simp at hh
  | @cons c c1 c2 l ls hs _ ih =>
    subst hf
    cases hs with
    | @inv t i hidle =>
      simp only [List.filterMap_cons, SLabel.hist] at hh
      cases h with
      | nil => simp at hh
      | cons e rest =>
        simp only [List.map_cons, List.cons.injEq] at hh
        obtain ⟨he, hrest⟩ := hh
        cases e with
        | ret u r => simp [HEv.toEv] at he
        | inv u j k =>
          simp only [HEv.toEv, Ev.inv.injEq] at he
          obtain ⟨rfl, rfl⟩ := he
          have hid : ac.thr t = .idle := by
            simp only [forget] at hidle
            cases hx : ac.thr t <;> simp [hx] at hidle ⊢
          obtain ⟨als, ac', hrun, hev⟩ := ih rest hrest { ac with thr := upd ac.thr t (.pend i k) } (by
            simp only [forget, SCfg.mk.injEq, true_and]
            funext u; by_cases hu : u = t <;> simp [upd, hu])
          exact ⟨.ev (.inv t i k) :: als, ac', Run.cons (AStep.inv hid) hrun, by simp [ALabel.ev?, hev]⟩
    | @lin t i r s' hp he =>
      simp only [List.filterMap_cons, SLabel.hist] at hh
      have hpd : ∃ k, ac.thr t = .pend i k := by
        simp only [forget] at hp
        cases hx : ac.thr t with
        | idle => simp [hx] at hp
        | pend j k => simp [hx] at hp; subst hp; exact ⟨k, rfl⟩
        | done r k => simp [hx] at hp
      obtain ⟨k, hk⟩ := hpd
      obtain ⟨als, ac', hrun, hev⟩ := ih h hh { st := s', thr := upd ac.thr t (.done r k) } (by
        simp only [forget, SCfg.mk.injEq, true_and]
        funext u; by_cases hu : u = t <;> simp [upd, hu])
      exact ⟨.lin t :: als, ac', Run.cons (AStep.lin hk (by simpa [forget] using he)) hrun, by simp only [List.filterMap_cons, ALabel.ev?]; exact hev⟩
    | @ret t r hd =>
      simp only [List.filterMap_cons, SLabel.hist] at hh
      cases h with
      | nil => simp at hh
      | cons e rest =>
        simp only [List.map_cons, List.cons.injEq] at hh
        obtain ⟨he, hrest⟩ := hh
        cases e with
        | inv u j k => simp [HEv.toEv] at he
        | ret u r' =>
          simp only [HEv.toEv, Ev.ret.injEq] at he
          obtain ⟨rfl, rfl⟩ := he
          have hdn : ∃ k, ac.thr t = .done r k := by
            simp only [forget] at hd
            cases hx : ac.thr t with
            | idle => simp [hx] at hd
            | pend j k => simp [hx] at hd
            | done r1 k => simp [hx] at hd; subst hd; exact ⟨k, rfl⟩
          obtain ⟨k, hk⟩ := hdn
          obtain ⟨als, ac', hrun, hev⟩ := ih rest hrest { ac with thr := upd ac.thr t .idle } (by
            simp only [forget, SCfg.mk.injEq, true_and]
            funext u; by_cases hu : u = t <;> simp [upd, hu])
          exact ⟨.ev (.ret t r) :: als, ac', Run.cons (AStep.ret hk) hrun, by simp [ALabel.ev?, hev]⟩

/-- in an annotated run over a well-annotated complete history every linearization answered
what was announced (looking ahead to the response that must come) -/
theorem honest_of_wellAnnotated (S : Spec σ ι ρ) {c c' : ACfg σ ι ρ} {als : List (ALabel ι ρ)}
    (hr : Run (AStep S) c als c') (hw : WellAnnotated (hints c) (als.filterMap ALabel.ev?)) :
    Honest c ∧ Run (fun a l b => AStep S a l b ∧ Honest b) c als c' := by
  induction hr with
  | nil c =>
    refine ⟨?_, Run.nil _⟩
    intro t r k ht
    have := hw t
    simp [hints, ht] at this
  | @cons c c1 c2 l ls hs _ ih =>
    cases hs with
    | @inv t i k hidle =>
      simp only [List.filterMap_cons, ALabel.ev?, WellAnnotated] at hw
      have hh : hints ({ c with thr := upd c.thr t (.pend i k) } : ACfg σ ι ρ) = upd (hints c) t (some k) := by
        funext u; by_cases hu : u = t <;> simp [hints, upd, hu]
      obtain ⟨h1, hrun⟩ := ih (by rw [hh]; exact hw.2)
      refine ⟨?_, Run.cons ⟨AStep.inv hidle, h1⟩ hrun⟩
      intro u r k' hu
      by_cases hut : u = t
      · subst hut; rw [hidle] at hu; cases hu
      · exact h1 u r k' (by simpa [upd, hut] using hu)
    | @lin t i k r s' hp he =>
      simp only [List.filterMap_cons, ALabel.ev?] at hw
      have hh : hints ({ st := s', thr := upd c.thr t (.done r k) } : ACfg σ ι ρ) = hints c := by
        funext u; by_cases hu : u = t
        · subst hu; simp [hints, upd, hp]
        · simp [hints, upd, hu]
      obtain ⟨h1, hrun⟩ := ih (by rw [hh]; exact hw)
      refine ⟨?_, Run.cons ⟨AStep.lin hp he, h1⟩ hrun⟩
      intro u r' k' hu
      by_cases hut : u = t
      · subst hut; rw [hp] at hu; cases hu
      · exact h1 u r' k' (by simpa [upd, hut] using hu)
    | @ret t r k hd =>
      simp only [List.filterMap_cons, ALabel.ev?, WellAnnotated] at hw
      have hh : hints ({ c with thr := upd c.thr t .idle } : ACfg σ ι ρ) = upd (hints c) t none := by
        funext u; by_cases hu : u = t <;> simp [hints, upd, hu]
      obtain ⟨h1, hrun⟩ := ih (by rw [hh]; exact hw.2)
      refine ⟨?_, Run.cons ⟨AStep.ret hd, h1⟩ hrun⟩
      intro u r' k' hu
      by_cases hut : u = t
      · subst hut
        rw [hd] at hu; cases hu
        have := hw.1
        simp [hints, hd] at this
        exact this.symm
      · exact h1 u r' k' (by simpa [upd, hut] using hu)

/-! ### the checker follows every honest annotated run -/

section
variable [DecidableEq σ] [DecidableEq ι] [DecidableEq ρ]

theorem mem_dedupe_of_mem {β : Type} [DecidableEq β] {l : List β} {x : β} (h : x ∈ l) : x ∈ dedupe l := by
  induction l with
  | nil => exact h
  | cons a r ih =>
    simp only [dedupe]
    rcases List.mem_cons.mp h with rfl | h
    · split
      · assumption
      · simp
    · split
      · exact ih h
      · exact List.mem_cons_of_mem _ (ih h)

theorem mem_linClose_of_mem (S : Spec σ ι ρ) (f : Nat) {cs : List (CCfg σ ι ρ)} {c : CCfg σ ι ρ} (h : c ∈ cs) :
    c ∈ linClose S f cs := by
  induction f generalizing cs with
  | zero => exact h
  | succ f ih => exact ih (mem_dedupe_of_mem (List.mem_append_left _ h))

/-- `Path S j c c'`: `c'` is reached from `c` by linearizing `j` pending operations -/
inductive Path (S : Spec σ ι ρ) : Nat → CCfg σ ι ρ → CCfg σ ι ρ → Prop where
  | zero (c : CCfg σ ι ρ) : Path S 0 c c
  | succ {j : Nat} {c1 c2 c3 : CCfg σ ι ρ} : c2 ∈ linSucc S c1 → Path S j c2 c3 → Path S (j + 1) c1 c3

theorem Path.snoc (S : Spec σ ι ρ) {j : Nat} {c1 c2 c3 : CCfg σ ι ρ} (hp : Path S j c1 c2) (hs : c3 ∈ linSucc S c2) :
    Path S (j + 1) c1 c3 := by
  induction hp with
  | zero c => exact Path.succ hs (Path.zero _)
  | succ h1 _ ih => exact Path.succ h1 (ih hs)

theorem path_mem_linClose (S : Spec σ ι ρ) {j f : Nat} {cs : List (CCfg σ ι ρ)} {c1 c : CCfg σ ι ρ}
    (h1 : c1 ∈ cs) (hp : Path S j c1 c) (hj : j ≤ f) : c ∈ linClose S f cs := by
  induction f generalizing cs c1 j with
  | zero =>
    have : j = 0 := by omega
    subst this; cases hp; exact h1
  | succ f ih =>
    cases hp with
    | zero => exact mem_linClose_of_mem S _ h1
    | @succ j' _ c2 _ hs hrest =>
      refine ih (c1 := c2) ?_ hrest (by omega)
      exact mem_dedupe_of_mem (List.mem_append_right _ (List.mem_flatMap.mpr ⟨c1, h1, hs⟩))

def pendCount : List (Nat × CStat ι ρ) → Nat
  | [] => 0
  | (_, .pend _ _) :: r => pendCount r + 1
  | (_, .done _) :: r => pendCount r

theorem pendCount_le_length (l : List (Nat × CStat ι ρ)) : pendCount l ≤ l.length := by
  induction l with
  | nil => exact Nat.le_refl _
  | cons e r ih =>
    obtain ⟨u, x⟩ := e
    cases x <;> simp [pendCount] <;> omega

theorem pendCount_setT (l : List (Nat × CStat ι ρ)) (t : Nat) (i : ι) (r k : ρ)
    (h : lookupT l t = some (.pend i r)) : pendCount (setT l t (.done k)) + 1 = pendCount l := by
  induction l with
  | nil => simp [lookupT] at h
  | cons e rest ih =>
    obtain ⟨u, x⟩ := e
    by_cases hu : u = t
    · subst hu
      simp only [lookupT, if_true, Option.some.injEq] at h
      subst h
      simp [setT, pendCount]
    · simp only [lookupT, hu, if_false] at h
      have := ih h
      cases x <;> simp [setT, hu, pendCount] <;> omega

omit [DecidableEq σ] in
theorem linSucc_pendCount (S : Spec σ ι ρ) {c c' : CCfg σ ι ρ} (h : c' ∈ linSucc S c) :
    pendCount c'.thr + 1 = pendCount c.thr := by
  obtain ⟨e, _, he⟩ := List.mem_filterMap.mp h
  split at he
  · next i r hl =>
    split at he
    · cases he; exact pendCount_setT _ _ i r r hl
    · cases he
  · cases he

theorem path_pendCount (S : Spec σ ι ρ) {j : Nat} {c1 c : CCfg σ ι ρ} (hp : Path S j c1 c) :
    j + pendCount c.thr = pendCount c1.thr := by
  induction hp with
  | zero c => simp
  | succ hs _ ih => have := linSucc_pendCount S hs; omega

theorem le_foldl_max (cs : List (CCfg σ ι ρ)) (n : Nat) :
    n ≤ cs.foldl (fun n c => max n c.thr.length) n ∧
    ∀ c ∈ cs, c.thr.length ≤ cs.foldl (fun n c => max n c.thr.length) n := by
  induction cs generalizing n with
  | nil => simp
  | cons a r ih =>
    obtain ⟨h1, h2⟩ := ih (max n a.thr.length)
    refine ⟨by simp only [List.foldl_cons]; omega, ?_⟩
    intro c hc
    simp only [List.foldl_cons]
    rcases List.mem_cons.mp hc with rfl | hc
    · omega
    · exact h2 c hc

theorem mem_maxLen {cs : List (CCfg σ ι ρ)} {c : CCfg σ ι ρ} (h : c ∈ cs) : c.thr.length ≤ maxLen cs :=
  (le_foldl_max cs 0).2 c h

omit [DecidableEq σ] [DecidableEq ι] [DecidableEq ρ] in
theorem lookupT_some_mem {β : Type} (l : List (Nat × β)) (t : Nat) (x : β) (h : lookupT l t = some x) :
    ∃ e ∈ l, e.1 = t := by
  induction l with
  | nil => simp [lookupT] at h
  | cons e r ih =>
    obtain ⟨u, y⟩ := e
    by_cases hu : u = t
    · exact ⟨(u, y), by simp, hu⟩
    · simp only [lookupT, hu, if_false] at h
      obtain ⟨e, he, het⟩ := ih h
      exact ⟨e, List.mem_cons_of_mem _ he, het⟩

def repStat : AStat ι ρ → Option (CStat ι ρ)
  | .idle => none
  | .pend i k => some (.pend i k)
  | .done r _ => some (.done r)

/-- checker configuration `c` stands for the annotated configuration `ac` -/
def RepC (c : CCfg σ ι ρ) (ac : ACfg σ ι ρ) : Prop :=
  c.st = ac.st ∧ ∀ t, lookupT c.thr t = repStat (ac.thr t)

/-- the frontier is the closure of `cs1`, and some configuration standing for `ac` is reachable in it -/
def InvF (S : Spec σ ι ρ) (F : List (CCfg σ ι ρ)) (ac : ACfg σ ι ρ) : Prop :=
  ∃ cs1 c1 j c, F = linClose S (maxLen cs1) cs1 ∧ c1 ∈ cs1 ∧ Path S j c1 c ∧ RepC c ac

theorem InvF.mem (S : Spec σ ι ρ) {F : List (CCfg σ ι ρ)} {ac : ACfg σ ι ρ} (h : InvF S F ac) :
    ∃ c ∈ F, RepC c ac := by
  obtain ⟨cs1, c1, j, c, rfl, h1, hp, hr⟩ := h
  refine ⟨c, path_mem_linClose S h1 hp ?_, hr⟩
  have := path_pendCount S hp
  have := pendCount_le_length c1.thr
  have := mem_maxLen h1
  omega

theorem follow (S : Spec σ ι ρ) {ac ac' : ACfg σ ι ρ} {als : List (ALabel ι ρ)}
    (hr : Run (fun a l b => AStep S a l b ∧ Honest b) ac als ac') (F : List (CCfg σ ι ρ)) (hi : InvF S F ac) :
    InvF S ((als.filterMap ALabel.ev?).foldl (linEvent S) F) ac' := by
  induction hr generalizing F with
  | nil c => exact hi
  | @cons c c1 c2 l ls hs _ ih =>
    obtain ⟨hstep, hhon⟩ := hs
    cases hstep with
    | @inv t i k hidle =>
      simp only [List.filterMap_cons, ALabel.ev?, List.foldl_cons]
      apply ih
      obtain ⟨cc, hcF, hst, hth⟩ := hi.mem
      have hl : lookupT cc.thr t = none := by rw [hth t, hidle]; rfl
      refine ⟨linEvent0 F (.inv t i k), { cc with thr := cc.thr ++ [(t, .pend i k)] }, 0, _, rfl, ?_, Path.zero _, ?_⟩
      · simp only [linEvent0]
        exact List.mem_filterMap.mpr ⟨cc, hcF, by simp [hl]⟩
      · refine ⟨hst, ?_⟩
        intro u
        rw [lookupT_append_single _ _ _ _ hl]
        by_cases hu : u = t
        · simp [hu, upd, repStat]
        · simp [hu, upd, hth u]
    | @lin t i k r s' hp he =>
      simp only [List.filterMap_cons, ALabel.ev?]
      apply ih
      obtain ⟨cs1, cc1, j, cc, hF, h1, hpath, hst, hth⟩ := hi
      have hrk : r = k := hhon t r k (by simp [upd])
      subst hrk
      have hl : lookupT cc.thr t = some (.pend i r) := by rw [hth t, hp]; rfl
      obtain ⟨e, hemem, het⟩ := lookupT_some_mem _ _ _ hl
      have hsucc : ({ st := s', thr := setT cc.thr t (.done r) } : CCfg σ ι ρ) ∈ linSucc S cc := by
        simp only [linSucc]
        refine List.mem_filterMap.mpr ⟨e, hemem, ?_⟩
        rw [het, hl]
        simp only
        rw [hst, he]
      refine ⟨cs1, cc1, j + 1, _, hF, h1, Path.snoc S hpath hsucc, rfl, ?_⟩
      intro u
      rw [lookupT_setT]
      by_cases hu : u = t
      · simp [hu, upd, repStat, hl]
      · simp [hu, upd, hth u]
    | @ret t r k hd =>
      simp only [List.filterMap_cons, ALabel.ev?, List.foldl_cons]
      apply ih
      obtain ⟨cc, hcF, hst, hth⟩ := hi.mem
      have hl : lookupT cc.thr t = some (.done r) := by rw [hth t, hd]; rfl
      refine ⟨linEvent0 F (.ret t r), { cc with thr := cc.thr.filter (fun e => e.1 != t) }, 0, _, rfl, ?_, Path.zero _, ?_⟩
      · simp only [linEvent0]
        exact List.mem_filterMap.mpr ⟨cc, hcF, by simp [hl]⟩
      · refine ⟨hst, ?_⟩
        intro u
        rw [lookupT_filter]
        by_cases hu : u = t
        · simp [hu, upd, repStat]
        · simp [hu, upd, hth u]

/-- **Completeness of the checker** for complete, consistently annotated histories. -/
theorem linCheck_complete (S : Spec σ ι ρ) (h : List (HEv ι ρ))
    (hw : WellAnnotated (fun _ => none) h) (hl : Linearizable S (h.map HEv.toEv)) : linCheck S h = true := by
  obtain ⟨tr, sc, hrun, hhist⟩ := hl
  obtain ⟨als, ac', harun, hev⟩ := annotate S hrun h hhist (acfg0 S) (by simp [forget, acfg0, Spec.cfg0])
  have hw' : WellAnnotated (hints (acfg0 S)) (als.filterMap ALabel.ev?) := by
    rw [hev]
    have : hints (acfg0 S) = (fun _ => none : Nat → Option ρ) := by funext t; simp [hints, acfg0]
    rw [this]; exact hw
  obtain ⟨_, hhrun⟩ := honest_of_wellAnnotated S harun hw'
  have h0 : InvF S [{ st := S.init, thr := [] }] (acfg0 S) := by
    refine ⟨[{ st := S.init, thr := [] }], { st := S.init, thr := [] }, 0, { st := S.init, thr := [] }, ?_, by simp, Path.zero _, rfl, ?_⟩
    · simp [maxLen, linClose]
    · intro t; simp [lookupT, acfg0, repStat]
  have := (follow S hhrun _ h0).mem
  rw [hev] at this
  obtain ⟨c, hc, _⟩ := this
  unfold linCheck
  cases hf : h.foldl (linEvent S) [{ st := S.init, thr := [] }] with
  | nil => rw [hf] at hc; cases hc
  | cons a b => rfl

end

theorem wellAnnotatedB_sound [DecidableEq ρ] (pend : List (Nat × ρ)) (h : List (HEv ι ρ))
    (hb : wellAnnotatedB pend h = true) : WellAnnotated (fun t => lookupT pend t) h := by
  induction h generalizing pend with
  | nil =>
    intro t
    cases pend with
    | nil => rfl
    | cons e r => simp [wellAnnotatedB] at hb
  | cons e rest ih =>
    cases e with
    | inv t i k =>
      simp only [wellAnnotatedB, Bool.and_eq_true, Option.isNone_iff_eq_none] at hb
      refine ⟨hb.1, ?_⟩
      have := ih _ hb.2
      have heq : (fun u => lookupT ((t, k) :: pend) u) = upd (fun u => lookupT pend u) t (some k) := by
        funext u
        by_cases hu : u = t
        · subst hu; simp [lookupT, upd]
        · have : ¬ t = u := fun e => hu e.symm
          simp [lookupT, upd, hu, this]
      rw [heq] at this; exact this
    | ret t r =>
      simp only [wellAnnotatedB, Bool.and_eq_true, decide_eq_true_eq] at hb
      refine ⟨hb.1, ?_⟩
      have := ih _ hb.2
      have heq : (fun u => lookupT (pend.filter (fun e => e.1 != t)) u) = upd (fun u => lookupT pend u) t none := by
        funext u
        rw [lookupT_filter]
        by_cases hu : u = t <;> simp [upd, hu]
      rw [heq] at this; exact this

end Kit.Containers
