import KitProofs.Lemmas.LocksSim
import KitModel.Locks.Acceptor
namespace Kit.Locks.Acceptor
open Kit.Locks

variable {σ α : Type}

theorem foldl_feedSet_none [BEq σ] (S : Sim σ α) (fuel : Nat) (tr : List α) :
    tr.foldl (feedSet S fuel) none = none := by
  induction tr with
  | nil => rfl
  | cons a tr ih => simpa [feedSet] using ih

theorem foldl_feedSet_some [BEq σ] (S : Sim σ α) (fuel : Nat) :
    ∀ (tr : List α) (set set' : List σ), tr.foldl (feedSet S fuel) (some set) = some set' →
      set' = tr.foldl (S.observe fuel) set := by
  intro tr
  induction tr with
  | nil => intro set set' h; simpa using h.symm
  | cons a tr ih =>
    intro set set' h
    simp only [List.foldl_cons, feedSet] at h
    split at h
    · rw [foldl_feedSet_none] at h; simp at h
    · simpa using ih _ _ h

/-- What the driver computes is `Sim.after`: the set of model states compatible with the trace. -/
theorem run_eq_after [BEq σ] (S : Sim σ α) (fuel : Nat) (s0 : σ) (tr : List α) (set : List σ)
    (h : run S fuel s0 tr = some set) : set = S.after fuel s0 tr :=
  foldl_feedSet_some S fuel tr _ _ h

/-- Soundness of the acceptor: if the trace is accepted (the driver answered `ok` to its last
event), every state it keeps is reached by a run of the LTS from the initial state whose observable
labels are exactly the trace. -/
theorem run_sound [BEq σ] (S : Sim σ α) (fuel : Nat) (s0 : σ) (tr : List α) (set : List σ)
    (h : run S fuel s0 tr = some set) : ∀ x ∈ set, S.Witness s0 tr x := by
  rw [run_eq_after S fuel s0 tr set h]
  exact S.after_sound s0 fuel tr

/-- … and if at least one event was fed, the kept set is not empty, so such a run exists. -/
theorem accepted_has_run [BEq σ] (S : Sim σ α) (fuel : Nat) (s0 : σ) (tr : List α) (a : α) (set : List σ)
    (h : run S fuel s0 (tr ++ [a]) = some set) :
    ∃ (r : List α) (s : σ), S.M.run s0 r = some s ∧ S.obsOf r = tr ++ [a] := by
  have hne : set ≠ [] := by
    simp only [run, List.foldl_append, List.foldl_cons, List.foldl_nil] at h
    cases hpre : tr.foldl (feedSet S fuel) (some (S.start fuel s0)) with
    | none => rw [hpre] at h; simp [feedSet] at h
    | some pre =>
      rw [hpre] at h
      simp only [feedSet] at h
      split at h
      · simp at h
      · rename_i hne
        simp at h; subst h
        intro e; rw [e] at hne; simp at hne
  obtain ⟨x, hx⟩ := List.exists_mem_of_ne_nil _ hne
  obtain ⟨r, hr, ho⟩ := run_sound S fuel s0 _ set h x hx
  exact ⟨r, x, hr, ho⟩

end Kit.Locks.Acceptor
