import KitProofs.Lemmas.Ring
/-! Representation invariant of `ring.Buffered` over the heap model and its preservation. -/
namespace Kit.Ring

abbrev H := Heap (Option Nat)

/-- `Rep h ring Q F q`: the ring starting at `ring` lists the committed nodes `Q` (holding the
queue `q`, oldest first) followed by the free nodes `F` (all holding nil). -/
structure Rep (h : H) (ring : Nat) (Q F : List Nat) (q : List (Option Nat)) : Prop where
  isRing : IsRing h (Q ++ F)
  head : (Q ++ F).head? = some ring
  vals : Q.map (vl h) = q
  free : ∀ x ∈ F, vl h x = none

theorem iter_links_last {α : Type} {h : Heap α} (a : Nat) (xs : List Nat) (hl : Links h (a :: xs)) :
    iter (nx h) xs.length a = lastOf a xs := by
  induction xs generalizing a with
  | nil => rfl
  | cons x xs ih =>
    obtain ⟨h1, _, h3⟩ := hl
    simp only [List.length_cons, iter_succ, h1, lastOf_cons]
    exact ih x h3

theorem links_suffix {α : Type} {h : Heap α} (A B : List Nat) (hl : Links h (A ++ B)) : Links h B := by
  cases A with
  | nil => simpa using hl
  | cons a xs =>
    cases B with
    | nil => trivial
    | cons b ys => exact ((links_append h a xs b ys).mp hl).2.2.2

theorem links_prefix {α : Type} {h : Heap α} (A B : List Nat) (hl : Links h (A ++ B)) : Links h A := by
  cases A with
  | nil => trivial
  | cons a xs =>
    cases B with
    | nil => simpa using hl
    | cons b ys => exact ((links_append h a xs b ys).mp hl).1

theorem IsRing.links {α : Type} {h : Heap α} {l : List Nat} (hr : IsRing h l) : Links h l := by
  cases l with
  | nil => trivial
  | cons a xs => exact hr.1

/-- from the head of the ring, `Move(|Q|)` reaches the first free node -/
theorem Rep.move_end {h : H} {ring : Nat} {Q : List Nat} {f : Nat} {F : List Nat} {q : List (Option Nat)}
    (r : Rep h ring Q (f :: F) q) : move h ring (Q.length : Int) = f := by
  cases Q with
  | nil =>
    have := r.head; simp at this; subst this
    simp [move]
  | cons a Q' =>
    have := r.head; simp at this; subst this
    have hl : Links h (a :: Q' ++ f :: F) := r.isRing.links
    rw [move_nonneg]; exact iter_next_links a Q' f F hl

theorem Rep.len_eq {h : H} {ring : Nat} {Q F : List Nat} {q : List (Option Nat)}
    (r : Rep h ring Q F q) : len h ring = Q.length + F.length := by
  have hr := r.isRing
  cases hL : Q ++ F with
  | nil => rw [hL] at hr; exact hr.elim
  | cons a xs =>
    have hh := r.head; rw [hL] at hh hr; simp at hh; subst hh
    rw [len_ring hr]
    have : (Q ++ F).length = xs.length + 1 := by rw [hL]; rfl
    simp at this; omega

theorem Rep.qlen {h : H} {ring : Nat} {Q F : List Nat} {q : List (Option Nat)}
    (r : Rep h ring Q F q) : q.length = Q.length := by rw [← r.vals]; simp

/-- the value at the head is the front of the queue (nil when empty) -/
theorem Rep.front {h : H} {ring : Nat} {Q F : List Nat} {q : List (Option Nat)}
    (r : Rep h ring Q F q) : vl h ring = q.head?.getD none := by
  cases Q with
  | nil =>
    have hv := r.vals; simp at hv; subst hv
    cases F with
    | nil => exact (r.isRing).elim
    | cons f F =>
      have := r.head; simp at this; subst this
      simpa using r.free f (by simp)
  | cons a Q' =>
    have := r.head; simp at this; subst this
    rw [← r.vals]; simp

/-- writing the first free node commits it -/
theorem Rep.store {h : H} {ring : Nat} {Q : List Nat} {f : Nat} {F : List Nat} {q : List (Option Nat)}
    (r : Rep h ring Q (f :: F) q) (v : Option Nat) :
    Rep (setVal h f v) ring (Q ++ [f]) F (q ++ [v]) := by
  have hr := r.isRing
  have hnd : (Q ++ f :: F).Nodup := hr.nodup
  have hflt : f < h.size := hr.mem_lt (by simp)
  obtain ⟨ndQ, ndF, dis⟩ := List.nodup_append.mp hnd
  refine ⟨?_, ?_, ?_, ?_⟩
  · rw [List.append_assoc]
    exact hr.congr (by simp) (by simp) (by simp)
  · rw [List.append_assoc]; exact r.head
  · rw [List.map_append, ← r.vals]
    congr 1
    · apply List.map_congr_left
      intro x hx
      rw [vl_setVal, if_neg]
      exact fun ⟨e, _⟩ => dis x hx f (by simp) e
    · simp [vl_setVal, hflt]
  · intro x hx
    rw [vl_setVal, if_neg]
    · exact r.free x (List.mem_cons_of_mem _ hx)
    · rintro ⟨e, _⟩
      subst e
      exact (List.nodup_cons.mp ndF).1 hx

/-- a full ring grows by a fresh ring of `n+1` nil nodes linked in after its last node -/
theorem Rep.grow {h : H} {ring : Nat} {Q : List Nat} {q : List (Option Nat)}
    (r : Rep h ring Q [] q) (n : Nat) :
    Rep (link (Ring.new h ((n + 1 : Nat) : Int) none).1
          (move (Ring.new h ((n + 1 : Nat) : Int) none).1 ring ((Q.length : Int) - 1))
          (Ring.new h ((n + 1 : Nat) : Int) none).2).1
      ring Q (List.range' h.size (n + 1)) q := by
  obtain ⟨e2, e1, hF, frame, hnone⟩ := new_spec h n (none : Option Nat)
  generalize Ring.new h ((n + 1 : Nat) : Int) none = res at e1 e2 hF frame hnone
  obtain ⟨h1, s⟩ := res
  simp only at e1 e2 hF frame hnone ⊢
  subst e2
  have hr0 := r.isRing
  simp only [List.append_nil] at hr0
  cases Q with
  | nil => exact hr0.elim
  | cons a Q' =>
    have hh := r.head; simp at hh; subst hh
    have hQ1 : IsRing h1 (a :: Q') :=
      hr0.congr (fun x hx => (frame x (hr0.mem_lt hx)).1) (fun x hx => (frame x (hr0.mem_lt hx)).2.1) (by omega)
    have hmv : move h1 a (((a :: Q').length : Int) - 1) = lastOf a Q' := by
      have : (((a :: Q').length : Int) - 1) = ((Q'.length : Nat) : Int) := by simp
      rw [this, move_nonneg]; exact iter_links_last a Q' hQ1.1
    rw [hmv]
    rw [List.range'_succ] at hF hnone ⊢
    have dis : ∀ x ∈ a :: Q', ∀ y ∈ h.size :: List.range' (h.size + 1) n, x ≠ y := by
      intro x hx y hy
      have hx' := hr0.mem_lt hx
      have hy' : h.size ≤ y := by
        rcases List.mem_cons.mp hy with rfl | hy
        · exact Nat.le_refl _
        · have := List.mem_range'_1.mp hy; omega
      omega
    obtain ⟨hcat, _⟩ := link_concat hQ1 hF dis
    refine ⟨hcat, by simp, ?_, ?_⟩
    · rw [← r.vals]
      apply List.map_congr_left
      intro x hx
      rw [vl_link]; exact (frame x (hr0.mem_lt hx)).2.2
    · intro x hx
      rw [vl_link]; exact hnone x hx

/-- `AppendBack` on the representation -/
theorem Rep.appendBack {b : Buf} {Q F : List Nat} {q : List (Option Nat)}
    (r : Rep b.heap b.ring Q F q) (he : b.end = Q.length) (hb : 1 ≤ b.bsize) (v : Option Nat) :
    ∃ Q' F', Rep (b.appendBack v).heap (b.appendBack v).ring Q' F' (q ++ [v]) ∧
      (b.appendBack v).end = Q'.length ∧ (b.appendBack v).bsize = b.bsize ∧
      ((F'.length : Int) = if F = [] then b.bsize - 1 else (F.length : Int) - 1) := by
  have hlen := r.len_eq
  cases F with
  | cons f F' =>
    have hc : ¬ (b.end ≥ (len b.heap b.ring : Int)) := by
      rw [hlen, he]; simp; omega
    refine ⟨Q ++ [f], F', ?_, ?_, rfl, by simp⟩
    · simp only [Buf.appendBack, hc, if_false]
      rw [he, r.move_end]
      exact r.store v
    · simp [Buf.appendBack, he]
  | nil =>
    have hc : b.end ≥ (len b.heap b.ring : Int) := by
      rw [hlen, he]; simp
    obtain ⟨n, hn⟩ : ∃ n : Nat, b.bsize = ((n + 1 : Nat) : Int) := ⟨(b.bsize - 1).toNat, by omega⟩
    have g := r.grow n
    rw [List.range'_succ] at g
    refine ⟨Q ++ [b.heap.size], List.range' (b.heap.size + 1) n, ?_, ?_, rfl, by simp [hn]⟩
    · simp only [Buf.appendBack, hc, if_true]
      rw [hn, he]
      have hm := g.move_end
      rw [hm]
      exact g.store v
    · simp [Buf.appendBack, he]

theorem link_split_at {α : Type} {h : Heap α} {P : List Nat} {r m : Nat} {ms : List Nat} {s : Nat} {ys : List Nat}
    (hr : IsRing h (P ++ r :: (m :: ms ++ s :: ys))) :
    IsRing (link h r (some s)).1 (P ++ r :: s :: ys) ∧ IsRing (link h r (some s)).1 (m :: ms) ∧
      (link h r (some s)).2 = m := by
  cases P with
  | nil =>
    have := link_split (a := r) (xs := []) (m := m) (ms := ms) (s := s) (ys := ys) (by simpa using hr)
    simpa using this
  | cons p P' =>
    have := link_split (a := p) (xs := P' ++ [r]) (m := m) (ms := ms) (s := s) (ys := ys) (by simpa using hr)
    simpa using this

theorem link_split' {α : Type} {h : Heap α} {P : List Nat} {r m : Nat} {ms : List Nat} {s : Nat} {ys : List Nat}
    (hr : IsRing h (P ++ r :: (m :: ms ++ s :: ys))) :
    IsRing (link h r (some s)).1 (P ++ r :: s :: ys) := (link_split_at hr).1

/-- dropping the oldest element: its node is cleared and becomes the last free node -/
theorem Rep.pop {h : H} {a : Nat} {Q' F : List Nat} {q : List (Option Nat)}
    (r : Rep h a (a :: Q') F q) : Rep (setVal h a none) (nx h a) Q' (F ++ [a]) q.tail := by
  have hr : IsRing h (a :: (Q' ++ F)) := r.isRing
  have hnd := hr.nodup
  have halt : a < h.size := hr.head_lt
  have h1 : IsRing (setVal h a none) (a :: (Q' ++ F)) := hr.congr (by simp) (by simp) (by simp)
  have hrot := h1.rotate
  have hnotin : ∀ x ∈ Q' ++ F, x ≠ a := head_not_mem_tail hnd
  refine ⟨by simpa [List.append_assoc] using hrot, ?_, ?_, ?_⟩
  · cases hL : Q' ++ F with
    | nil =>
      have hq : Q' = [] := (List.append_eq_nil_iff.mp hL).1
      have hf : F = [] := (List.append_eq_nil_iff.mp hL).2
      subst hq; subst hf
      rw [hL] at hr
      have : nx h a = a := hr.2.1
      simp [this]
    | cons y rest =>
      rw [hL] at hr
      have : nx h a = y := hr.1.1
      rw [← List.append_assoc, hL]; simp [this]
  · rw [← r.vals]
    simp only [List.map_cons, List.tail_cons]
    apply List.map_congr_left
    intro x hx
    rw [vl_setVal, if_neg]
    exact fun ⟨e, _⟩ => hnotin x (List.mem_append_left _ hx) e
  · intro x hx
    rcases List.mem_append.mp hx with hx | hx
    · rw [vl_setVal, if_neg]
      · exact r.free x hx
      · exact fun ⟨e, _⟩ => hnotin x (List.mem_append_right _ hx) e
    · simp at hx; subst hx
      simp [vl_setVal, halt]

/-- with more than `2(n+1)` free nodes, `Unlink(n+1)` at the first free node removes the next
`n+1` free nodes -/
theorem Rep.shrink {h : H} {ring : Nat} {Q : List Nat} {f0 : Nat} {F1 : List Nat} {q : List (Option Nat)}
    (r : Rep h ring Q (f0 :: F1) q) (n : Nat) (hlen : 2 * (n + 1) < F1.length + 1) :
    Rep (unlink h (move h ring (Q.length : Int)) ((n + 1 : Nat) : Int)).1 ring Q (f0 :: F1.drop (n + 1)) q := by
  rw [r.move_end]
  have hpos : ¬ (((n + 1 : Nat) : Int) ≤ 0) := by omega
  rw [unlink_fst h f0 _ hpos]
  have hsplit : F1 = F1.take (n + 1) ++ F1.drop (n + 1) := (List.take_append_drop _ _).symm
  cases hM : F1.take (n + 1) with
  | nil =>
    have := congrArg List.length hM
    rw [List.length_take] at this
    simp only [List.length_nil] at this; omega
  | cons m ms =>
    cases hS : F1.drop (n + 1) with
    | nil =>
      have := congrArg List.length hS
      rw [List.length_drop] at this
      simp only [List.length_nil] at this; omega
    | cons s ys =>
      have hMlen : (m :: ms).length = n + 1 := by
        rw [← hM, List.length_take]; omega
      rw [hM, hS] at hsplit
      have hr : IsRing h (Q ++ f0 :: (m :: ms ++ s :: ys)) := by
        have := r.isRing; rw [hsplit] at this; exact this
      have hl : Links h (f0 :: (m :: ms) ++ s :: ys) := by
        have := links_suffix Q _ hr.links
        simpa using this
      have hmv : move h f0 (((n + 1 : Nat) : Int) + 1) = s := by
        have : (((n + 1 : Nat) : Int) + 1) = (((m :: ms).length + 1 : Nat) : Int) := by rw [hMlen]; simp
        rw [this, move_nonneg]
        exact iter_next_links f0 (m :: ms) s ys hl
      rw [hmv]
      have hr' : IsRing (initNode h f0) (Q ++ f0 :: (m :: ms ++ s :: ys)) :=
        hr.congr (by simp) (by simp) (by simp)
      have hnew := link_split' hr'
      refine ⟨hnew, ?_, ?_, ?_⟩
      · have := r.head
        cases Q <;> simpa using this
      · rw [← r.vals]
        apply List.map_congr_left
        intro x _
        rw [vl_link, vl_initNode]
      · intro x hx
        rw [vl_link, vl_initNode]
        apply r.free
        rw [hsplit]
        rcases List.mem_cons.mp hx with rfl | hx
        · simp
        · apply List.mem_cons_of_mem
          exact List.mem_append_right _ hx

/-- `RemoveFront` on the representation -/
theorem Rep.removeFront {b : Buf} {Q F : List Nat} {q : List (Option Nat)}
    (r : Rep b.heap b.ring Q F q) (he : b.end = Q.length) (hb : 1 ≤ b.bsize) :
    ∃ Q' F', Rep b.removeFront.1.heap b.removeFront.1.ring Q' F' q.tail ∧
      b.removeFront.1.end = Q'.length ∧ b.removeFront.1.bsize = b.bsize ∧
      b.removeFront.2 = q.tail.head?.getD none ∧
      ((F'.length : Int) = if Q = [] then (F.length : Int)
        else if (F.length : Int) + 1 > 2 * b.bsize then (F.length : Int) + 1 - b.bsize else (F.length : Int) + 1) := by
  cases Q with
  | nil =>
    have hq : q = [] := by rw [← r.vals]; rfl
    subst hq
    have he0 : b.end = 0 := by simpa using he
    refine ⟨[], F, ?_, ?_, ?_, ?_, by simp⟩ <;> simp [Buf.removeFront, he0]
    exact r
  | cons a Q'' =>
    have hring : b.ring = a := by have := r.head; simpa using this.symm
    have hne : ¬ (b.end = 0) := by rw [he]; simp; omega
    obtain ⟨n, hn⟩ : ∃ n : Nat, b.bsize = ((n + 1 : Nat) : Int) := ⟨(b.bsize - 1).toNat, by omega⟩
    have hp := (hring ▸ r : Rep b.heap a (a :: Q'') F q).pop
    have hlen := hp.len_eq
    have he' : b.end - 1 = (Q''.length : Int) := by rw [he]; simp
    simp only [Buf.removeFront, hne, if_false, nx_setVal, hring, he', hn]
    by_cases hc : (len (setVal b.heap a none) (nx b.heap a) : Int) - (Q''.length : Int) > ((n + 1 : Nat) : Int) * 2
    · simp only [hc, if_true]
      cases hF : F ++ [a] with
      | nil => simp at hF
      | cons f0 F1 =>
        rw [hF] at hp
        have hl : 2 * (n + 1) < F1.length + 1 := by
          rw [hlen] at hc
          have : (F ++ [a]).length = F1.length + 1 := by rw [hF]; rfl
          push_cast at hc; omega
        have hs := hp.shrink n hl
        refine ⟨Q'', f0 :: F1.drop (n + 1), hs, rfl, trivial, hs.front, ?_⟩
        have h2 : (F ++ [a]).length = F1.length + 1 := by rw [hF]; rfl
        simp only [List.length_append, List.length_singleton] at h2
        have hcond : (F.length : Int) + 1 > 2 * ((n + 1 : Nat) : Int) := by push_cast; omega
        simp only [List.length_cons, List.length_drop, reduceCtorEq, if_false, hcond, if_true]
        push_cast; omega
    · simp only [hc, if_false]
      refine ⟨Q'', F ++ [a], hp, rfl, trivial, hp.front, ?_⟩
      have hcond : ¬ ((F.length : Int) + 1 > 2 * ((n + 1 : Nat) : Int)) := by
        rw [hlen] at hc
        simp only [List.length_append, List.length_singleton] at hc
        push_cast at hc ⊢; omega
      simp only [reduceCtorEq, if_false, List.length_append, List.length_singleton]
      rw [if_neg hcond]; push_cast; rfl

theorem rangeLoop_links {h : H} (stop : Option Nat → Bool) (x : Nat) (A B : List Nat) (acc : List (Option Nat))
    (hl : Links h (x :: A ++ B)) :
    rangeLoop h stop (A.length + 1) x acc = acc.reverse ++ takeUntil stop ((x :: A).map (vl h)) := by
  induction A generalizing x acc with
  | nil =>
    simp only [List.length_nil, rangeLoop, List.map_cons, List.map_nil, takeUntil]
    by_cases hs : stop (vl h x) <;> simp [hs]
  | cons y A ih =>
    have h1 : nx h x = y := hl.1
    have h3 : Links h (y :: A ++ B) := hl.2.2
    rw [List.length_cons, rangeLoop]
    simp only [h1, List.map_cons, takeUntil]
    by_cases hs : stop (vl h x)
    · simp [hs]
    · simp only [hs]
      rw [ih y (vl h x :: acc) h3]
      simp [takeUntil]

theorem Rep.range {b : Buf} {Q F : List Nat} {q : List (Option Nat)}
    (r : Rep b.heap b.ring Q F q) (he : b.end = Q.length) (stop : Option Nat → Bool) :
    b.range stop = takeUntil stop q := by
  unfold Buf.range
  rw [he]
  cases Q with
  | nil =>
    have hq : q = [] := by rw [← r.vals]; rfl
    subst hq; simp [rangeLoop, takeUntil]
  | cons a Q' =>
    have hring : b.ring = a := by have := r.head; simpa using this.symm
    have hl : Links b.heap (a :: Q' ++ F) := r.isRing.links
    rw [hring, ← r.vals]
    simpa using rangeLoop_links stop a Q' F [] hl

/-- the invariant tying a `Buffered` to the queue it represents -/
def BInv (b : Buf) (q : List (Option Nat)) : Prop :=
  ∃ Q F, Rep b.heap b.ring Q F q ∧ b.end = Q.length ∧ 1 ≤ b.bsize

theorem BInv.new (initial bsize : Int) : BInv (Buf.new initial bsize) [] := by
  obtain ⟨n, hn⟩ : ∃ n : Nat, (if initial < 1 then 1 else initial) = ((n + 1 : Nat) : Int) :=
    ⟨((if initial < 1 then 1 else initial) - 1).toNat, by split <;> omega⟩
  have hbs : 1 ≤ (if bsize < 1 then 1 else bsize) := by split <;> omega
  obtain ⟨e2, _, hF, _, hnone⟩ := new_spec (#[] : H) n (none : Option Nat)
  unfold Buf.new
  simp only [hn]
  generalize Ring.new (#[] : H) ((n + 1 : Nat) : Int) none = res at e2 hF hnone
  obtain ⟨h1, s⟩ := res
  simp only at e2 hF hnone
  subst e2
  simp only
  refine ⟨[], List.range' 0 (n + 1), ⟨by simpa using hF, by simp [List.range'_succ], rfl, by simpa using hnone⟩, rfl, hbs⟩

theorem BInv.step {b : Buf} {q : List (Option Nat)} (hi : BInv b q) (op : BOp) :
    BInv (b.step op).1 (Queue.step q op).1 ∧ (b.step op).2 = (Queue.step q op).2 := by
  obtain ⟨Q, F, r, he, hb⟩ := hi
  cases op with
  | append v =>
    obtain ⟨Q', F', r', he', hb', _⟩ := r.appendBack he hb v
    show BInv (b.appendBack v) (q ++ [v]) ∧ BOut.unit = BOut.unit
    exact ⟨⟨Q', F', r', he', by rw [hb']; exact hb⟩, rfl⟩
  | removeFront =>
    obtain ⟨Q', F', r', he', hb', hv, _⟩ := r.removeFront he hb
    show BInv b.removeFront.1 q.tail ∧ BOut.val b.removeFront.2 = BOut.val (q.tail.head?.getD none)
    exact ⟨⟨Q', F', r', he', by rw [hb']; exact hb⟩, by rw [hv]⟩
  | front =>
    refine ⟨⟨Q, F, r, he, hb⟩, ?_⟩
    simp only [Buf.step, Queue.step, Buf.front, r.front]
  | len =>
    refine ⟨⟨Q, F, r, he, hb⟩, ?_⟩
    simp only [Buf.step, Queue.step, Buf.len, he, r.qlen]
  | range s =>
    refine ⟨⟨Q, F, r, he, hb⟩, ?_⟩
    simp only [Buf.step, Queue.step, r.range he]

theorem BInv.run {b : Buf} {q : List (Option Nat)} (hi : BInv b q) (ops : List BOp) :
    b.run ops = Queue.run q ops := by
  induction ops generalizing b q with
  | nil => rfl
  | cons op ops ih =>
    obtain ⟨h1, h2⟩ := hi.step op
    simp only [Buf.run, Queue.run, h2, ih h1]

/-- the invariant with the memory bound: never more than `M` free nodes -/
def BInvB (bs M : Int) (b : Buf) (q : List (Option Nat)) : Prop :=
  ∃ Q F, Rep b.heap b.ring Q F q ∧ b.end = Q.length ∧ b.bsize = bs ∧ (F.length : Int) ≤ M

theorem BInvB.new (initial bsize : Int) :
    BInvB (if bsize < 1 then 1 else bsize)
      (max (if initial < 1 then 1 else initial) (2 * (if bsize < 1 then 1 else bsize)))
      (Buf.new initial bsize) [] := by
  obtain ⟨n, hn⟩ : ∃ n : Nat, (if initial < 1 then 1 else initial) = ((n + 1 : Nat) : Int) :=
    ⟨((if initial < 1 then 1 else initial) - 1).toNat, by split <;> omega⟩
  obtain ⟨e2, _, hF, _, hnone⟩ := new_spec (#[] : H) n (none : Option Nat)
  unfold Buf.new
  simp only [hn]
  generalize Ring.new (#[] : H) ((n + 1 : Nat) : Int) none = res at e2 hF hnone
  obtain ⟨h1, s⟩ := res
  simp only at e2 hF hnone
  subst e2
  simp only
  refine ⟨[], List.range' 0 (n + 1), ⟨by simpa using hF, by simp [List.range'_succ], rfl, by simpa using hnone⟩, rfl, rfl, ?_⟩
  simp only [List.length_range']
  omega

theorem BInvB.step {bs M : Int} (hbs : 1 ≤ bs) (hM : 2 * bs ≤ M) {b : Buf} {q : List (Option Nat)}
    (hi : BInvB bs M b q) (op : BOp) : BInvB bs M (b.step op).1 (Queue.step q op).1 := by
  obtain ⟨Q, F, r, he, hb, hF⟩ := hi
  have hb1 : 1 ≤ b.bsize := by rw [hb]; exact hbs
  cases op with
  | append v =>
    obtain ⟨Q', F', r', he', hb', hl⟩ := r.appendBack he hb1 v
    show BInvB bs M (b.appendBack v) (q ++ [v])
    refine ⟨Q', F', r', he', by rw [hb', hb], ?_⟩
    rw [hl]; split <;> omega
  | removeFront =>
    obtain ⟨Q', F', r', he', hb', _, hl⟩ := r.removeFront he hb1
    show BInvB bs M b.removeFront.1 q.tail
    refine ⟨Q', F', r', he', by rw [hb', hb], ?_⟩
    rw [hl]
    split
    · exact hF
    · split <;> omega
  | front => exact ⟨Q, F, r, he, hb, hF⟩
  | len => exact ⟨Q, F, r, he, hb, hF⟩
  | range s => exact ⟨Q, F, r, he, hb, hF⟩

/-- what the bounded invariant says about the observable quantities -/
theorem BInvB.bounds {bs M : Int} {b : Buf} {q : List (Option Nat)} (hi : BInvB bs M b q) :
    0 ≤ b.len ∧ b.len ≤ (Ring.len b.heap b.ring : Int) ∧ (Ring.len b.heap b.ring : Int) - b.len ≤ M := by
  obtain ⟨Q, F, r, he, _, hF⟩ := hi
  have := r.len_eq
  simp only [Buf.len, he, this]
  push_cast
  omega

end Kit.Ring
