/-
Hour zones: invariants of the five loops of `Next` (repaired code) across daylight-saving
transitions of one hour at whole hours, including missing and repeated midnights.
-/
import KitProofs.Lemmas.CronDstLand
import KitProofs.Lemmas.CronSpecInv

namespace Kit.CronSpec
open Kit.CronCal

/-- `u` lies between `t0` and `t` (either order), lower end included. -/
def Between (t0 t u : Int) : Prop := (t0 ≤ u ∧ u < t) ∨ (t ≤ u ∧ u < t0)

/-- No matching instant between `t0` and `t`. -/
def NoMatchB (s : Sched) (z : Zone) (t0 t : Int) : Prop := ∀ u, Between t0 t u → ¬ Matches s z u

theorem NoMatchB.step {s : Sched} {z : Zone} {t0 t t' : Int} (h : NoMatchB s z t0 t)
    (h2 : ∀ u, Between t t' u → ¬ Matches s z u) : NoMatchB s z t0 t' := by
  intro u hu
  by_cases hb : Between t0 t u
  · exact h u hb
  · apply h2 u
    simp only [Between] at *
    omega

theorem NoMatchB.refl (s : Sched) (z : Zone) (t : Int) : NoMatchB s z t t := by
  intro u hu; simp only [Between] at hu; omega

/-- `t` is at the start of an hour block. -/
def BS (t : Int) : Prop := t % 3600 = 0

/-- `t` is the first instant of its local day. -/
def DF (b : Int → Int) (t : Int) : Prop :=
  BS t ∧ lam b (t / 3600 - 1) / 24 < lam b (t / 3600) / 24

/-- `t` is the first instant of its local month. -/
def MF (b : Int → Int) (t : Int) : Prop :=
  DF b t ∧ monthIndex (lam b (t / 3600 - 1) / 24) < monthIndex (lam b (t / 3600) / 24)

/-- Alignment whenever `added` is set (outside the seconds loop), on an hour zone: a field is away
from the first instant of its unit only if all higher fields are known to match. -/
structure AlD (s : Sched) (z : Zone) (b : Int → Int) (t : Int) : Prop where
  sec0 : second z t = 0
  bs : ¬ BS t → has s.hour (hour z t) = true ∧ dayRule s z t ∧ has s.month (month z t) = true
  df : ¬ DF b t → dayRule s z t ∧ has s.month (month z t) = true
  mf : ¬ MF b t → has s.month (month z t) = true

def InvD (s : Sched) (z : Zone) (b : Int → Int) (t0 t : Int) (a : Bool) : Prop :=
  NoMatchB s z t0 t ∧ (a = false → t = t0) ∧ (a = true → AlD s z b t)

/-- Progress bookkeeping relative to the state `(tin, ain)` at the last `WRAP`: only the very first
advance (in a repeated hour) may step back, by less than an hour. -/
def Prog (tin : Int) (ain : Bool) (t : Int) (a : Bool) : Prop :=
  (a = false → t = tin ∧ ain = false) ∧
  (a = true → (ain = true → tin ≤ t) ∧ (ain = false → tin - 3600 < t))

/-- What every `goto WRAP` establishes. -/
def QWD (s : Sched) (z : Zone) (b : Int → Int) (t0 tin : Int) (ain : Bool) (t : Int) : Prop :=
  ((ain = true → tin < t) ∧ (ain = false → tin - 3600 < t)) ∧ InvD s z b t0 t true

section
variable {s : Sched} {z : Zone} {b : Int → Int} (H : HourZone z b)
include H

/-! ### fields depend on the local hour index of the block only -/

theorem fields_of_lam {u t : Int} (h : lam b (u / 3600) = lam b (t / 3600)) :
    hour z u = hour z t ∧ dayNum z u = dayNum z t := by
  rw [hour_hz H, hour_hz H, dayNum_hz H, dayNum_hz H, h]; exact ⟨rfl, rfl⟩

theorem mIdx_mono {u v : Int} (h : u ≤ v) : mIdx z u ≤ mIdx z v :=
  monthIndex_mono (dayNum_mono H h)

theorem year_mono_hz {u v : Int} (h : u ≤ v) : year z u ≤ year z v := by
  rw [year_eq, year_eq]
  have := mIdx_mono H h
  omega

/-- Carry the context of `t` (block with the same local hour as `kc`) to `t2`, which lies in
block `kc` or is the start of block `kc + 1`. -/
theorem alD_carry {t t2 kc : Int} (hkc : lam b kc = lam b (t / 3600))
    (hpos : t2 / 3600 = kc ∨ t2 = 3600 * (kc + 1)) (hs : second z t2 = 0)
    (hM : has s.month (month z t) = true) (hD : dayRule s z t)
    (hH : ¬ BS t2 → has s.hour (hour z t) = true) : AlD s z b t2 := by
  rcases hpos with hp | hp
  · have hl : lam b (t2 / 3600) = lam b (t / 3600) := by rw [hp]; exact hkc
    obtain ⟨hh, hd⟩ := fields_of_lam H hl
    have hm : has s.month (month z t2) = true := by rw [month_congr hd]; exact hM
    have hdr : dayRule s z t2 := (dayRule_congr hd).2 hD
    exact ⟨hs, fun h => ⟨by rw [hh]; exact hH h, hdr, hm⟩, fun _ => ⟨hdr, hm⟩, fun _ => hm⟩
  · have e1 : t2 / 3600 = kc + 1 := by omega
    have e3 : kc + 1 - 1 = kc := by omega
    have hbs : BS t2 := by simp only [BS]; omega
    have mono := lam_mono H (j := kc) (k := kc + 1) (by omega)
    have same_of : ¬ DF b t2 → dayNum z t2 = dayNum z t := by
      intro hn
      simp only [DF, e1, e3] at hn
      rw [dayNum_hz H, dayNum_hz H, e1, ← hkc]
      have : ¬ lam b kc / 24 < lam b (kc + 1) / 24 := fun h => hn ⟨hbs, h⟩
      omega
    have hdf : ¬ DF b t2 → dayRule s z t2 ∧ has s.month (month z t2) = true := by
      intro hn
      have hd := same_of hn
      exact ⟨(dayRule_congr hd).2 hD, by rw [month_congr hd]; exact hM⟩
    refine ⟨hs, fun h => absurd hbs h, hdf, ?_⟩
    intro hn
    by_cases hdf' : DF b t2
    · have hlt : ¬ monthIndex (lam b kc / 24) < monthIndex (lam b (kc + 1) / 24) := by
        intro h; apply hn; refine ⟨hdf', ?_⟩; rw [e1, e3]; exact h
      have hle : monthIndex (lam b kc / 24) ≤ monthIndex (lam b (kc + 1) / 24) :=
        monthIndex_mono (by omega)
      have : mIdx z t2 = mIdx z t := by
        simp only [mIdx]
        rw [dayNum_hz H, dayNum_hz H, e1, ← hkc]; omega
      rw [month_of_mIdx this]; exact hM
    · exact (hdf hdf').2

end

/-- Invariant rule for one `for` loop with a measure that may depend on `added`. -/
theorem loop_rule2 {ok : Int → Bool} {reset inc : Int → Int} {wrapped : Int → Int → Bool}
    (Pin Qnext : Int → Bool → Prop) (Qwrap : Int → Prop) (μ : Int → Bool → Int)
    (hexit : ∀ t a, Pin t a → ok t = true → Qnext t a)
    (hstep : ∀ t a, Pin t a → ok t = false →
      (wrapped (if a then t else reset t) (inc (if a then t else reset t)) = true →
        Qwrap (inc (if a then t else reset t))) ∧
      (wrapped (if a then t else reset t) (inc (if a then t else reset t)) = false →
        Pin (inc (if a then t else reset t)) true ∧
        0 ≤ μ (inc (if a then t else reset t)) true ∧ μ (inc (if a then t else reset t)) true < μ t a)) :
    ∀ (f : Nat) (t : Int) (a : Bool), Pin t a → 0 ≤ μ t a → μ t a < f →
      match loop ok reset inc wrapped f t a with
      | .next t' a' => Qnext t' a'
      | .wrap t' a' => a' = true ∧ Qwrap t'
      | .fuel => False := by
  intro f
  induction f with
  | zero =>
    intro t a _ h0 hμ
    omega
  | succ f ih =>
    intro t a hp h0 hμ
    simp only [loop]
    cases hok : ok t
    · simp only [Bool.false_eq_true, if_false]
      have hs := hstep t a hp hok
      by_cases hw : wrapped (if a then t else reset t) (inc (if a then t else reset t)) = true
      · simp only [hw, if_true]
        exact ⟨trivial, hs.1 hw⟩
      · simp only [hw]
        have := hs.2 (by simpa using hw)
        exact ih _ true this.1 this.2.1 (by omega)
    · simp only [if_true]
      exact hexit t a hp hok

end Kit.CronSpec
