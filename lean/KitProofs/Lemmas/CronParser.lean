import KitModel.CronParser
import KitProofs.Lemmas.CronParserSpec
/-!
Helper lemmas for `KitProofs.Props.C04Parser`: bit-set arithmetic of `getBits`, the Go string
helpers (`splitBy`, `atoi`), and the syntax ↔ `getRange` correspondence.
-/
namespace Kit.Cron
open Kit

theorem shift_form (a b i : Nat) (hi : i < 64) :
    ((~~~(allOnes64 <<< (b+1))) &&& (allOnes64 <<< a)).getLsbD i = decide (a ≤ i ∧ i ≤ b) := by
  simp [allOnes64, hi, -BitVec.reduceAllOnes]
  by_cases h1 : i < b + 1 <;> by_cases h2 : i < a <;> simp [h1, h2] <;> omega

theorem one_shl_getLsbD (i j : Nat) (hj : j < 64) :
    (((1 : BitVec 64) <<< i)).getLsbD j = decide (j = i) := by
  simp [hj]
  by_cases h : j < i
  · simp [h]; omega
  · simp [h]
    constructor
    · intro h0; omega
    · intro h0; omega

theorem dvd_step_iff (step i j : Nat) (hs : 1 ≤ step) :
    (i ≤ j ∧ step ∣ (j - i)) ↔ (j = i ∨ (i + step ≤ j ∧ step ∣ (j - (i + step)))) := by
  constructor
  · rintro ⟨hle, hd⟩
    by_cases h : j = i
    · exact Or.inl h
    · right
      have hpos : 0 < j - i := by omega
      have hge : step ≤ j - i := Nat.le_of_dvd hpos hd
      refine ⟨by omega, ?_⟩
      have : j - (i + step) = (j - i) - step := by omega
      rw [this]
      exact Nat.dvd_sub hd (Nat.dvd_refl _)
  · rintro (h | ⟨hle, hd⟩)
    · subst h; simp
    · refine ⟨by omega, ?_⟩
      have : j - i = (j - (i + step)) + step := by omega
      rw [this]
      exact Nat.dvd_add hd (Nat.dvd_refl _)

theorem loop_spec (max step : Nat) (hs : 1 ≤ step) :
    ∀ (fuel i : Nat) (bits : BitVec 64) (j : Nat), j < 64 → max + 1 ≤ fuel + i →
    (getBitsLoop max step fuel i bits).getLsbD j =
      (bits.getLsbD j || decide (i ≤ j ∧ j ≤ max ∧ step ∣ (j - i))) := by
  intro fuel
  induction fuel with
  | zero =>
    intro i bits j hj hf
    simp [getBitsLoop]
    omega
  | succ n ih =>
    intro i bits j hj hf
    unfold getBitsLoop
    split
    · rename_i hle
      rw [ih (i + step) _ j hj (by omega)]
      rw [BitVec.getLsbD_or, one_shl_getLsbD i j hj]
      have := dvd_step_iff step i j hs
      by_cases hb : bits.getLsbD j <;> simp [hb]
      by_cases hji : j = i
      · subst hji; simp; omega
      · simp [hji]
        apply Bool.eq_iff_iff.mpr
        simp only [Bool.and_eq_true, decide_eq_true_eq]
        constructor
        · rintro ⟨h1, h2, h3⟩
          exact ⟨by omega, h2, (this.2 (Or.inr ⟨h1, h3⟩)).2⟩
        · rintro ⟨h1, h2, h3⟩
          rcases this.1 ⟨h1, h3⟩ with h | ⟨h4, h5⟩
          · exact absurd h hji
          · exact ⟨h4, h2, h5⟩
    · simp; omega
/-! ### splitBy -/

theorem splitBy_ne_nil (p : Char → Bool) (s : List Char) : splitBy p s ≠ [] := by
  cases s with
  | nil => simp [splitBy]
  | cons c cs => simp only [splitBy]; split <;> simp

theorem splitBy_noSep (p : Char → Bool) (a : List Char) (h : ∀ x ∈ a, p x = false) :
    splitBy p a = [a] := by
  induction a with
  | nil => simp [splitBy]
  | cons c cs ih =>
    have hc : p c = false := h c (by simp)
    have := ih (fun x hx => h x (by simp [hx]))
    simp [splitBy, hc, this]

theorem splitBy_append_sep (p : Char → Bool) (a : List Char) (c : Char) (s : List Char)
    (h : ∀ x ∈ a, p x = false) (hc : p c = true) :
    splitBy p (a ++ c :: s) = a :: splitBy p s := by
  induction a with
  | nil => simp [splitBy, hc]
  | cons d ds ih =>
    have hd : p d = false := h d (by simp)
    have := ih (fun x hx => h x (by simp [hx]))
    simp [splitBy, hd, this]

theorem splitBy_cons_inv (p : Char → Bool) :
    ∀ (s a : List Char) (rest : List (List Char)), splitBy p s = a :: rest →
      (∀ x ∈ a, p x = false) ∧
      ((rest = [] ∧ s = a) ∨ ∃ c s', p c = true ∧ s = a ++ c :: s' ∧ splitBy p s' = rest) := by
  intro s
  induction s with
  | nil =>
    intro a rest h
    simp [splitBy] at h
    obtain ⟨h1, h2⟩ := h
    subst h1; subst h2
    simp
  | cons c cs ih =>
    intro a rest h
    simp only [splitBy] at h
    by_cases hc : p c = true
    · simp [hc] at h
      obtain ⟨h1, h2⟩ := h
      subst h1
      refine ⟨by simp, Or.inr ⟨c, cs, hc, by simp, h2⟩⟩
    · simp [hc] at h
      obtain ⟨h1, h2⟩ := h
      have hne := splitBy_ne_nil p cs
      cases hr : splitBy p cs with
      | nil => exact absurd hr hne
      | cons a' rest' =>
        rw [hr] at h1 h2
        simp at h1 h2
        subst h1; subst h2
        obtain ⟨ha, hcases⟩ := ih a' rest' hr
        refine ⟨?_, ?_⟩
        · intro x hx
          simp at hx
          rcases hx with hx | hx
          · subst hx; simpa using hc
          · exact ha x hx
        · rcases hcases with ⟨h3, h4⟩ | ⟨c', s', h3, h4, h5⟩
          · left; exact ⟨h3, by rw [h4]⟩
          · right; exact ⟨c', s', h3, by rw [h4]; simp, h5⟩


open Kit.Cron.Spec

/-! ### atoi / mustParseInt ↔ `Numeral` -/

theorem digitVal_some (c : Char) (d : Nat) : digitVal c = some d ↔ IsDigit c ∧ d = c.toNat - 48 := by
  unfold digitVal IsDigit
  split
  · rename_i h; simp [h, eq_comm]
  · rename_i h; simp only [reduceCtorEq, false_iff]; intro h2; exact h h2.1

theorem digitVal_none (c : Char) : digitVal c = none ↔ ¬ IsDigit c := by
  unfold digitVal IsDigit
  split
  · rename_i h; simp [h]
  · rename_i h; simp [h]

theorem digitsVal_spec : ∀ (ds : List Char) (acc v : Nat),
    digitsVal ds acc = some v ↔
      (∀ c ∈ ds, IsDigit c) ∧ v = ds.foldl (fun a c => a * 10 + (c.toNat - 48)) acc := by
  intro ds
  induction ds with
  | nil => intro acc v; simp [digitsVal, eq_comm]
  | cons c cs ih =>
    intro acc v
    simp only [digitsVal]
    cases h : digitVal c with
    | none =>
      have := (digitVal_none c).1 h
      simp [this]
    | some d =>
      obtain ⟨h1, h2⟩ := (digitVal_some c d).1 h
      simp [ih, h1, h2]

theorem isDigit_ne_sign (c : Char) (h : IsDigit c) : c ≠ '-' ∧ c ≠ '+' ∧ c ≠ '/' := by
  unfold IsDigit at h
  refine ⟨?_, ?_, ?_⟩ <;> (intro hc; subst hc; exact absurd h (by decide))

/-- `atoi` on an unsigned digit string. -/
theorem atoi_digits (ds : List Char) (hne : ds ≠ []) (hd : ∀ c ∈ ds, IsDigit c) :
    atoi ds = if decVal ds < 2 ^ 63 then some (decVal ds : Int) else none := by
  cases ds with
  | nil => exact absurd rfl hne
  | cons c cs =>
    obtain ⟨h1, h2, _⟩ := isDigit_ne_sign c (hd c (by simp))
    have hv : digitsVal (c :: cs) 0 = some (decVal (c :: cs)) :=
      (digitsVal_spec (c :: cs) 0 _).2 ⟨hd, rfl⟩
    simp [atoi, h1, h2, hv]

theorem atoi_plus (ds : List Char) (hne : ds ≠ []) (hd : ∀ c ∈ ds, IsDigit c) :
    atoi ('+' :: ds) = if decVal ds < 2 ^ 63 then some (decVal ds : Int) else none := by
  have hv : digitsVal ds 0 = some (decVal ds) := (digitsVal_spec ds 0 _).2 ⟨hd, rfl⟩
  simp [atoi, hv, hne]

theorem mustParseInt_of_numeral (s : List Char) (n : Nat) (h : Numeral s n) :
    mustParseInt s = .ok n := by
  obtain ⟨ds, hs, hne, hd, hv, hlt⟩ := h
  rcases hs with hs | hs
  · rw [hs]; subst hv
    simp [mustParseInt, atoi_digits ds hne hd, hlt]
  · rw [hs]; subst hv
    simp [mustParseInt, atoi_plus ds hne hd, hlt]

theorem mustParseInt_not_panic (s : List Char) (w : String) : mustParseInt s ≠ .panic w := by
  unfold mustParseInt
  split
  · simp
  · split <;> simp

/-- A successful `mustParseInt` is a numeral, except for `-0…0` which yields 0. -/
theorem numeral_of_mustParseInt (s : List Char) (n : Nat) (h : mustParseInt s = .ok n) :
    Numeral s n ∨ (n = 0 ∧ s.head? = some '-') := by
  unfold mustParseInt at h
  cases ha : atoi s with
  | none => simp [ha] at h
  | some v =>
    rw [ha] at h
    simp only at h
    split at h
    · simp at h
    rename_i hnn
    simp only [Outcome.ok.injEq] at h
    have hvn : v.toNat = n := h
    cases s with
    | nil => simp [atoi] at ha
    | cons c cs =>
      by_cases hm : c = '-'
      · right
        subst hm
        simp [atoi] at ha
        obtain ⟨_, ha⟩ := ha
        cases hdv : digitsVal cs 0 with
        | none => simp [hdv] at ha
        | some m =>
          simp [hdv] at ha
          obtain ⟨_, hv⟩ := ha
          refine ⟨?_, by simp⟩
          omega
      · left
        by_cases hp : c = '+'
        · subst hp
          simp [atoi] at ha
          obtain ⟨hne, ha⟩ := ha
          cases hdv : digitsVal cs 0 with
          | none => simp [hdv] at ha
          | some m =>
            simp [hdv] at ha
            obtain ⟨hlt, hv⟩ := ha
            obtain ⟨hd, hm2⟩ := (digitsVal_spec cs 0 m).1 hdv
            refine ⟨cs, Or.inr rfl, hne, hd, ?_, ?_⟩
            · unfold decVal; omega
            · omega
        · simp [atoi, hm, hp] at ha
          cases hdv : digitsVal (c :: cs) 0 with
          | none => simp [hdv] at ha
          | some m =>
            simp [hdv] at ha
            obtain ⟨hlt, hv⟩ := ha
            obtain ⟨hd, hm2⟩ := (digitsVal_spec (c :: cs) 0 m).1 hdv
            refine ⟨c :: cs, Or.inl rfl, by simp, hd, ?_, ?_⟩
            · unfold decVal; omega
            · omega


/-! ### getRange ↔ TermSyn -/

def baseTriple (b : Bounds) : Base → Nat × Nat × BitVec 64
  | .star => (b.min, b.max, starBit)
  | .single n => (n, n, 0)
  | .range lo hi => (lo, hi, 0)

def Spec.Base.isRange : Base → Bool
  | .range _ _ => true
  | _ => false

/-- The bit set the documented meaning assigns to a term (star bit included). -/
def termBits (b : Bounds) (t : Term) : BitVec 64 :=
  getBits (t.lo b) (t.hi b) t.stepVal ||| (if t.starred then starBit else 0)

theorem wildGuard_on : Gen.wildcardBoundGuard = true := rfl

theorem parseIntOrName_not_panic (a : List Char) (names) (w : String) :
    parseIntOrName a names ≠ .panic w := by
  unfold parseIntOrName
  split
  · simp
  · exact mustParseInt_not_panic a w

theorem atom_of_parseIntOrName (b : Bounds) (a : List Char) (n : Nat) (hm : '-' ∉ a)
    (h : parseIntOrName a b.names = .ok n) : Atom b a n := by
  unfold parseIntOrName at h
  cases hl : nameLookup b.names (toLower a) with
  | some m =>
    simp [hl] at h
    subst h; exact Or.inl hl
  | none =>
    simp [hl] at h
    rcases numeral_of_mustParseInt a n h with hn | ⟨_, hh⟩
    · exact Or.inr ⟨hl, hn⟩
    · cases a with
      | nil => simp at hh
      | cons c cs => simp at hh; subst hh; simp at hm

theorem parseIntOrName_of_atom (b : Bounds) (a : List Char) (n : Nat) (h : Atom b a n) :
    parseIntOrName a b.names = .ok n := by
  unfold parseIntOrName
  rcases h with hl | ⟨hl, hn⟩
  · simp [hl]
  · simp [hl, mustParseInt_of_numeral a n hn]

theorem mem_of_splitOn_piece {sep : Char} {a : List Char} (h : ∀ x ∈ a, (x == sep) = false) :
    sep ∉ a := by
  intro hm
  have := h sep hm
  simp at this

theorem piece_of_not_mem {sep : Char} {a : List Char} (h : sep ∉ a) :
    ∀ x ∈ a, (x == sep) = false := by
  intro x hx
  simp
  intro hxs
  subst hxs
  exact h hx

theorem isWild_iff (s : List Char) : isWild s = true ↔ (s = ['*'] ∨ s = ['?']) := by
  simp [isWild]

/-- (A, base) a successful `parseBase` on the pieces of `rs0` is the syntax of a base. -/
theorem parseBase_ok (b : Bounds) (rs0 lh0 : List Char) (lhRest : List (List Char))
    (tr : Nat × Nat × BitVec 64)
    (hs : splitOn '-' rs0 = lh0 :: lhRest) (h : parseBase true b lh0 lhRest = .ok tr) :
    ∃ base, BaseSyn b rs0 base ∧ tr = baseTriple b base ∧ lhRest.isEmpty = !base.isRange := by
  obtain ⟨hno, hcase⟩ := splitBy_cons_inv _ rs0 lh0 lhRest hs
  have hno0 : '-' ∉ lh0 := mem_of_splitOn_piece hno
  unfold parseBase at h
  by_cases hw : isWild lh0 = true
  · rw [if_pos hw] at h
    cases lhRest with
    | cons x xs => simp at h
    | nil =>
      simp at h
      rcases hcase with ⟨_, h2⟩ | ⟨c, s', _, _, h5⟩
      · subst h2
        exact ⟨.star, (isWild_iff _).1 hw, h.symm, rfl⟩
      · exact absurd h5 (splitBy_ne_nil _ _)
  · rw [if_neg hw] at h
    cases hp : parseIntOrName lh0 b.names with
    | err e => simp [hp] at h
    | panic w => simp [hp] at h
    | ok start =>
      simp [hp] at h
      have hat := atom_of_parseIntOrName b lh0 start hno0 hp
      match lhRest, hcase, h with
      | [], hcase, h =>
        simp at h
        rcases hcase with ⟨_, h2⟩ | ⟨c, s', _, _, h5⟩
        · subst h2
          exact ⟨.single start, ⟨by simpa using hw, hno0, hat⟩, h.symm, rfl⟩
        · exact absurd h5 (splitBy_ne_nil _ _)
      | [lh1], hcase, h =>
        simp at h
        cases hp1 : parseIntOrName lh1 b.names with
        | err e => simp [hp1] at h
        | panic w => simp [hp1] at h
        | ok e =>
          simp [hp1] at h
          rcases hcase with ⟨h1, _⟩ | ⟨c, s', h3, h4, h5⟩
          · simp at h1
          · obtain ⟨hno1, hcase1⟩ := splitBy_cons_inv _ s' lh1 [] h5
            have hno1' : '-' ∉ lh1 := mem_of_splitOn_piece hno1
            have hs' : s' = lh1 := by
              rcases hcase1 with ⟨_, h2⟩ | ⟨c', s'', _, _, h5'⟩
              · exact h2
              · exact absurd h5' (splitBy_ne_nil _ _)
            have hc : c = '-' := by simpa using h3
            subst hs'; subst hc
            have hat1 := atom_of_parseIntOrName b s' e hno1' hp1
            exact ⟨.range start e, ⟨lh0, s', h4, by simpa using hw, hno0, hno1', hat, hat1⟩, h.symm, rfl⟩
      | _ :: _ :: _, _, h => simp at h

/-- (B, base) the syntax of a base is parsed to its triple. -/
theorem parseBase_of_syn (b : Bounds) (rs0 : List Char) (base : Base) (h : BaseSyn b rs0 base) :
    ∃ lh0 lhRest, splitOn '-' rs0 = lh0 :: lhRest ∧
      parseBase true b lh0 lhRest = .ok (baseTriple b base) ∧
      lhRest.isEmpty = !base.isRange := by
  cases base with
  | star =>
    have hw : isWild rs0 = true := (isWild_iff _).2 h
    have hs : splitOn '-' rs0 = [rs0] := by
      rcases h with h | h <;> subst h <;> simp [splitOn, splitBy]
    exact ⟨rs0, [], hs, by simp [parseBase, hw, baseTriple], rfl⟩
  | single n =>
    obtain ⟨hw, hno, hat⟩ := h
    have hs : splitOn '-' rs0 = [rs0] := splitBy_noSep _ _ (piece_of_not_mem hno)
    refine ⟨rs0, [], hs, ?_, rfl⟩
    simp [parseBase, hw, parseIntOrName_of_atom b rs0 n hat, baseTriple]
  | range lo hi =>
    obtain ⟨a, c, hs0, hw, hna, hnc, hata, hatc⟩ := h
    have hs : splitOn '-' rs0 = [a, c] := by
      subst hs0
      unfold splitOn
      rw [splitBy_append_sep _ a '-' c (piece_of_not_mem hna) (by simp),
        splitBy_noSep _ c (piece_of_not_mem hnc)]
    refine ⟨a, [c], hs, ?_, rfl⟩
    simp [parseBase, hw, parseIntOrName_of_atom b a lo hata, parseIntOrName_of_atom b c hi hatc,
      baseTriple]

theorem numeral_no_slash (st : List Char) (n : Nat) (h : Numeral st n) : '/' ∉ st := by
  obtain ⟨ds, hs, _, hd, _, _⟩ := h
  have hds : '/' ∉ ds := fun hm => (isDigit_ne_sign _ (hd _ hm)).2.2 rfl
  rcases hs with hs | hs
  · subst hs; exact hds
  · subst hs
    intro hm
    simp at hm
    exact hds hm

theorem finishRange_ok (b : Bounds) (st en step : Nat) (ex bits : BitVec 64) :
    finishRange b st en step ex = .ok bits ↔
      (b.min ≤ st ∧ en ≤ b.max ∧ st ≤ en ∧ 1 ≤ step) ∧ bits = getBits st en step ||| ex := by
  unfold finishRange
  by_cases h1 : st < b.min
  · simp [h1]; omega
  by_cases h2 : en > b.max
  · simp [h1, h2]; omega
  by_cases h3 : st > en
  · simp [h1, h2, h3]; omega
  by_cases h4 : step = 0
  · simp [h1, h2, h3, h4]
  simp [h1, h2, h3, h4, eq_comm]
  intro _
  omega

/-- Error kind `getRange` reports for the syntax of an ill-formed term. -/
def refusal (b : Bounds) (t : Term) : String :=
  if t.lo b < b.min then "below-min"
  else if t.hi b > b.max then "above-max"
  else if t.lo b > t.hi b then "inverted"
  else "zero-step"

theorem finishRange_term (b : Bounds) (t : Term) (ex : BitVec 64)
    (hex : ex = if t.starred then starBit else 0) :
    finishRange b (t.lo b) (t.hi b) t.stepVal ex =
      if t.WF b then .ok (termBits b t) else .err (refusal b t) := by
  unfold finishRange Term.WF refusal termBits
  by_cases h1 : t.lo b < b.min
  · simp [h1]; intro; omega
  by_cases h2 : t.hi b > b.max
  · simp [h1, h2]; intro _ h; omega
  by_cases h3 : t.lo b > t.hi b
  · simp [h1, h2, h3]; intro _ _ h; omega
  by_cases h4 : t.stepVal = 0
  · simp [h1, h2, h3, h4]
  have : b.min ≤ t.lo b ∧ t.hi b ≤ b.max ∧ t.lo b ≤ t.hi b ∧ 1 ≤ t.stepVal := by omega
  simp [h1, h2, h3, h4, this, hex]

/-- (A) whatever `getRange` accepts is the concrete syntax of a well-formed term, and the bits
are that term's. -/
theorem getRange_ok (b : Bounds) (e : List Char) (bits : BitVec 64) (h : getRange b e = .ok bits) :
    ∃ t, TermSyn b e t ∧ t.WF b ∧ bits = termBits b t := by
  unfold getRange getRangeG at h
  rw [wildGuard_on] at h
  cases h1 : splitOn '/' e with
  | nil => simp [h1] at h
  | cons rs0 rsRest =>
    rw [h1] at h
    simp only at h
    obtain ⟨hno, hcase⟩ := splitBy_cons_inv _ e rs0 rsRest h1
    have hno' : '/' ∉ rs0 := mem_of_splitOn_piece hno
    cases h2 : splitOn '-' rs0 with
    | nil => simp [h2] at h
    | cons lh0 lhRest =>
      rw [h2] at h
      simp only at h
      cases hb : parseBase true b lh0 lhRest with
      | err x => simp [hb] at h
      | panic x => simp [hb] at h
      | ok tr =>
        rw [hb] at h
        obtain ⟨st, en, ex⟩ := tr
        simp only at h
        obtain ⟨base, hsyn, htr, hsingle⟩ := parseBase_ok b rs0 lh0 lhRest _ h2 hb
        unfold applyStep at h
        match rsRest, hcase, h with
        | [], hcase, h =>
          simp only at h
          rcases hcase with ⟨_, he⟩ | ⟨c, s', _, _, h5⟩
          · subst he
            refine ⟨⟨base, none⟩, ⟨e, none, by simp [stepSuffix], hno', hsyn, trivial⟩, ?_⟩
            have := (finishRange_ok b st en 1 ex bits).1 h
            cases base <;> simp [baseTriple] at htr <;> obtain ⟨h1, h2, h3⟩ := htr <;>
              subst h1 <;> subst h2 <;> subst h3 <;>
              simpa [Term.WF, Term.lo, Term.hi, Term.stepVal, termBits, Term.starred] using this
          · exact absurd h5 (splitBy_ne_nil _ _)
        | [stS], hcase, h =>
          simp only at h
          cases hm : mustParseInt stS with
          | err x => simp [hm] at h
          | panic x => simp [hm] at h
          | ok step =>
            rw [hm] at h
            simp only at h
            rcases hcase with ⟨h0, _⟩ | ⟨c, s', h3, h4, h5⟩
            · simp at h0
            · obtain ⟨_, hcase1⟩ := splitBy_cons_inv _ s' stS [] h5
              have hs' : s' = stS := by
                rcases hcase1 with ⟨_, h2⟩ | ⟨c', s'', _, _, h5'⟩
                · exact h2
                · exact absurd h5' (splitBy_ne_nil _ _)
              have hc : c = '/' := by simpa using h3
              subst hs'; subst hc
              have hfin := (finishRange_ok b st _ step _ bits).1 h
              have hstep : 1 ≤ step := hfin.1.2.2.2
              have hnum : Numeral s' step := by
                rcases numeral_of_mustParseInt s' step hm with hn | ⟨h0, _⟩
                · exact hn
                · omega
              refine ⟨⟨base, some step⟩, ⟨rs0, some s', by simp [stepSuffix, h4], hno', hsyn, hnum⟩, ?_⟩
              cases base <;> simp [baseTriple] at htr <;> obtain ⟨h1, h2, h3⟩ := htr <;>
                subst h1 <;> subst h2 <;> subst h3 <;> simp [Spec.Base.isRange] at hsingle <;>
                simp [hsingle] at hfin <;>
                simp [Term.WF, Term.lo, Term.hi, Term.stepVal, termBits, Term.starred] <;>
                first
                | exact hfin
                | (obtain ⟨ha, hbb⟩ := hfin
                   refine ⟨ha, ?_⟩
                   rw [hbb]
                   by_cases hs1 : 1 < step
                   · have : ¬ step ≤ 1 := by omega
                     simp [hs1, this]
                   · have : step ≤ 1 := by omega
                     simp [hs1, this])
        | _ :: _ :: _, _, h => simp at h

/-- (B) the concrete syntax of a term is accepted iff the term is well-formed, with exactly the
term's bits; otherwise it is refused with an error. -/
theorem getRange_of_syn (b : Bounds) (e : List Char) (t : Term) (hs : TermSyn b e t) :
    getRange b e = if t.WF b then .ok (termBits b t) else .err (refusal b t) := by
  obtain ⟨baseS, stepS, he, hno, hbase, hstep⟩ := hs
  obtain ⟨lh0, lhRest, hsp, hpb, hsingle⟩ := parseBase_of_syn b baseS t.base hbase
  obtain ⟨base, step⟩ := t
  simp only at hbase hstep hpb hsingle
  unfold getRange getRangeG
  rw [wildGuard_on]
  match stepS, step, hstep, he with
  | none, none, _, he =>
    have h1 : splitOn '/' e = [baseS] := by
      rw [he]; simp [stepSuffix]
      exact splitBy_noSep _ _ (piece_of_not_mem hno)
    rw [h1]; simp only
    rw [hsp]; simp only
    rw [hpb]
    rw [← finishRange_term b ⟨base, none⟩ _ rfl]
    cases base <;> simp [baseTriple, applyStep, Term.lo, Term.hi, Term.stepVal, Term.starred]
  | some stS, some n, hnum, he =>
    have hns : '/' ∉ stS := numeral_no_slash stS n hnum
    have h1 : splitOn '/' e = [baseS, stS] := by
      rw [he]; simp only [stepSuffix]
      unfold splitOn
      rw [splitBy_append_sep _ baseS '/' stS (piece_of_not_mem hno) (by simp),
        splitBy_noSep _ stS (piece_of_not_mem hns)]
    rw [h1]; simp only
    rw [hsp]; simp only
    rw [hpb]
    rw [← finishRange_term b ⟨base, some n⟩ _ rfl]
    have hm := mustParseInt_of_numeral stS n hnum
    cases base <;> simp [Spec.Base.isRange] at hsingle <;>
      simp [baseTriple, applyStep, hm, hsingle, Term.lo, Term.hi, Term.stepVal, Term.starred] <;>
      (by_cases hs1 : 1 < n
       · have : ¬ n ≤ 1 := by omega
         simp [hs1, this]
       · have : n ≤ 1 := by omega
         simp [hs1, this])


theorem getBits_getLsbD (mn mx step i : Nat) (hs : 1 ≤ step) (hi : i < 64) :
    (getBits mn mx step).getLsbD i = decide (mn ≤ i ∧ i ≤ mx ∧ step ∣ (i - mn)) := by
  unfold getBits
  split
  · rename_i h1
    subst h1
    rw [shift_form mn mx i hi]
    simp
  · rw [loop_spec mx step hs (mx + 1) mn 0 i hi (by omega)]
    simp

theorem starBit_getLsbD (v : Nat) (hv : v < 64) : starBit.getLsbD v = decide (v = 63) := by
  have : starBit = (1 : BitVec 64) <<< 63 := by decide
  rw [this, one_shl_getLsbD 63 v hv]

theorem termBits_getLsbD (b : Bounds) (t : Term) (hb : b.max ≤ 62) (hwf : t.WF b) (v : Nat)
    (hv : v < 64) :
    (termBits b t).getLsbD v = true ↔ (v < 63 ∧ t.denote b v) ∨ (v = 63 ∧ t.starred) := by
  obtain ⟨h1, h2, h3, h4⟩ := hwf
  unfold termBits
  rw [BitVec.getLsbD_or, getBits_getLsbD _ _ _ v h4 hv]
  unfold Term.denote
  by_cases hst : t.starred
  · simp only [hst, if_true, starBit_getLsbD v hv]
    simp
    constructor
    · rintro (h | h)
      · left; exact ⟨by omega, h⟩
      · right; exact h
    · rintro (⟨_, h⟩ | h)
      · left; exact h
      · right; exact h
  · simp only [hst, if_false]
    simp
    intro _ _ _; omega

theorem finishRange_not_panic (b st en step ex) (w : String) :
    finishRange b st en step ex ≠ .panic w := by
  unfold finishRange
  repeat' split
  all_goals simp

theorem getRange_not_panic (b : Bounds) (e : List Char) (w : String) : getRange b e ≠ .panic w := by
  unfold getRange getRangeG
  cases h1 : splitOn '/' e with
  | nil => exact absurd h1 (splitBy_ne_nil _ _)
  | cons rs0 rsRest =>
    simp only
    cases h2 : splitOn '-' rs0 with
    | nil => exact absurd h2 (splitBy_ne_nil _ _)
    | cons lh0 lhRest =>
      simp only
      cases hb : parseBase Gen.wildcardBoundGuard b lh0 lhRest with
      | err x => simp
      | panic x =>
        exfalso
        unfold parseBase at hb
        split at hb
        · split at hb <;> simp at hb
        · split at hb
          · simp at hb
          · rename_i hp; exact parseIntOrName_not_panic _ _ _ hp
          · split at hb
            · simp at hb
            · split at hb
              · simp at hb
              · rename_i hp; exact parseIntOrName_not_panic _ _ _ hp
              · simp at hb
            · simp at hb
      | ok tr =>
        obtain ⟨st, en, ex⟩ := tr
        simp only
        unfold applyStep
        split
        · exact finishRange_not_panic _ _ _ _ _ _
        · split
          · simp
          · rename_i hp; exact absurd hp (mustParseInt_not_panic _ _)
          · exact finishRange_not_panic _ _ _ _ _ _
        · simp


theorem getFieldLoop_ok (b : Bounds) : ∀ (items : List (List Char)) (acc bits : BitVec 64),
    getFieldLoop b items acc = .ok bits →
    ∃ ts, ItemsSyn b items ts ∧ (∀ t ∈ ts, t.WF b) ∧
      ∀ v, bits.getLsbD v = (acc.getLsbD v || ts.any (fun t => (termBits b t).getLsbD v)) := by
  intro items
  induction items with
  | nil =>
    intro acc bits h
    simp [getFieldLoop] at h
    subst h
    exact ⟨[], .nil, by simp, by simp⟩
  | cons e es ih =>
    intro acc bits h
    simp only [getFieldLoop] at h
    cases hr : getRange b e with
    | err x => simp [hr] at h
    | panic x => simp [hr] at h
    | ok bt =>
      rw [hr] at h
      simp only at h
      obtain ⟨t, hsyn, hwf, hbt⟩ := getRange_ok b e bt hr
      obtain ⟨ts, hts, hwfs, hbits⟩ := ih _ _ h
      refine ⟨t :: ts, .cons hsyn hts, ?_, ?_⟩
      · intro t' ht'
        simp at ht'
        rcases ht' with h1 | h1
        · subst h1; exact hwf
        · exact hwfs _ h1
      · intro v
        rw [hbits v, BitVec.getLsbD_or, hbt]
        simp [Bool.or_assoc]

/-- Syntax of well-formed terms is accepted. -/
theorem getFieldLoop_of_syn (b : Bounds) : ∀ (items : List (List Char)) (ts : List Term)
    (acc : BitVec 64), ItemsSyn b items ts → (∀ t ∈ ts, t.WF b) →
    ∃ bits, getFieldLoop b items acc = .ok bits := by
  intro items ts acc hs
  induction hs generalizing acc with
  | nil => intro _; exact ⟨acc, rfl⟩
  | @cons e t es ts hsyn _ ih =>
    intro hwf
    have hr := getRange_of_syn b e t hsyn
    rw [if_pos (hwf t (by simp))] at hr
    simp only [getFieldLoop, hr]
    exact ih _ (fun t' ht' => hwf t' (by simp [ht']))

/-- If some item is the syntax of an ill-formed term (and every item is the syntax of some term),
the field is refused. -/
theorem getFieldLoop_refuses (b : Bounds) : ∀ (items : List (List Char)) (ts : List Term)
    (acc : BitVec 64), ItemsSyn b items ts → (∃ t ∈ ts, ¬ t.WF b) →
    ∃ k, getFieldLoop b items acc = .err k := by
  intro items ts acc hs
  induction hs generalizing acc with
  | nil => intro h; simp at h
  | @cons e t es ts hsyn _ ih =>
    intro hbad
    have hr := getRange_of_syn b e t hsyn
    by_cases hwf : t.WF b
    · rw [if_pos hwf] at hr
      simp only [getFieldLoop, hr]
      apply ih
      obtain ⟨t', ht', hb'⟩ := hbad
      simp at ht'
      rcases ht' with h1 | h1
      · subst h1; exact absurd hwf hb'
      · exact ⟨t', h1, hb'⟩
    · rw [if_neg hwf] at hr
      simp only [getFieldLoop, hr]
      exact ⟨_, rfl⟩

theorem getFieldLoop_not_panic (b : Bounds) (w : String) : ∀ (items : List (List Char))
    (acc : BitVec 64), getFieldLoop b items acc ≠ .panic w := by
  intro items
  induction items with
  | nil => intro acc; simp [getFieldLoop]
  | cons e es ih =>
    intro acc
    simp only [getFieldLoop]
    cases hr : getRange b e with
    | err x => simp
    | panic x => exact absurd hr (getRange_not_panic b e x)
    | ok bt => simp only; exact ih _

/-- An item that `getRange` refuses makes the whole field an error (first error wins, or an
earlier one). -/
theorem getFieldLoop_err_of_item (b : Bounds) : ∀ (items : List (List Char)) (acc : BitVec 64)
    (e : List Char), e ∈ items → (∃ k, getRange b e = .err k) →
    ∃ k, getFieldLoop b items acc = .err k := by
  intro items
  induction items with
  | nil => intro _ _ h; simp at h
  | cons x xs ih =>
    intro acc e he hk
    simp only [getFieldLoop]
    cases hr : getRange b x with
    | err k => exact ⟨k, rfl⟩
    | panic w => exact absurd hr (getRange_not_panic b x w)
    | ok bt =>
      simp only
      simp at he
      rcases he with h1 | h1
      · subst h1
        obtain ⟨k, hk⟩ := hk
        rw [hk] at hr
        simp at hr
      · exact ih _ e h1 hk


/-! ### normalizeFields -/

theorem expandLoop_spec (o : Opts) : ∀ (ps : List Place) (ds fs : List (List Char)),
    ds.length = ps.length → fs.length = (ps.filter o.has).length →
    ∃ r, expandLoop o ps ds fs = .ok r ∧ Expanded o ps ds fs r := by
  intro ps
  induction ps with
  | nil =>
    intro ds fs _ hf
    simp at hf
    subst hf
    exact ⟨[], rfl, ⟨rfl, by simp, by simp⟩⟩
  | cons p ps ih =>
    intro ds fs hd hf
    cases ds with
    | nil => simp at hd
    | cons d ds =>
      simp at hd
      by_cases hp : o.has p = true
      · cases fs with
        | nil => simp [List.filter, hp] at hf
        | cons f fs =>
          simp [List.filter, hp] at hf
          obtain ⟨r, hr, hE⟩ := ih ds fs hd hf
          refine ⟨f :: r, by simp [expandLoop, hp, hr], ⟨by simp [hE.length], ?_, ?_⟩⟩
          · simp [List.filter, hp, hE.supplied]
          · intro x hx hx0
            simp at hx
            rcases hx with h1 | h1
            · subst h1; simp [hp] at hx0
            · exact hE.defaults x h1 hx0
      · simp at hp
        simp [List.filter, hp] at hf
        obtain ⟨r, hr, hE⟩ := ih ds fs hd hf
        refine ⟨d :: r, by simp [expandLoop, hp, hr], ⟨by simp [hE.length], ?_, ?_⟩⟩
        · simp [List.filter, hp, hE.supplied]
        · intro x hx hx0
          simp at hx
          rcases hx with h1 | h1
          · subst h1; rfl
          · exact hE.defaults x h1 hx0


theorem places_eq : places = [.second, .minute, .hour, .dom, .month, .dow] := by decide
theorem defaults_len : Gen.defaults.length = places.length := by decide

theorem maxFields_pos_of_optional (o : Opts) (h : o.hasOptional = true) : 1 ≤ o.maxFields := by
  unfold Opts.maxFields Opts.merged
  rw [places_eq]
  unfold Opts.hasOptional at h
  cases h1 : o.secondOptional <;> cases h2 : o.dowOptional <;> simp [h1, h2] at h <;>
    simp [List.filter, Opts.has, h1, h2] <;> (repeat' split) <;> simp


theorem dowDefault_eq : idxO Gen.defaults Gen.dowOptionalDefault = .ok ['*'] := rfl
theorem secondDefault_eq : idxO Gen.defaults Gen.secondOptionalDefault = .ok ['0'] := rfl

/-- `normalizeFields` in closed form (for a parser `NewParser` does not reject). -/
theorem normalizeFields_eq (o : Opts) (h2 : o.twoOptionals = false) (fs : List (List Char)) :
    normalizeFields fs o =
      if fs.length = o.maxFields then expandLoop o.merged places Gen.defaults fs
      else if o.hasOptional = true ∧ fs.length + 1 = o.maxFields then
        expandLoop o.merged places Gen.defaults
          (if o.dowOptional then fs ++ [['*']] else ['0'] :: fs)
      else .err "field-count" := by
  have hpos := maxFields_pos_of_optional o
  unfold Opts.twoOptionals at h2
  unfold Opts.maxFields at *
  unfold Opts.hasOptional at *
  obtain ⟨mx, hmx⟩ : ∃ mx, (List.filter o.merged.has places).length = mx := ⟨_, rfl⟩
  simp only [normalizeFields, dowDefault_eq, secondDefault_eq, hmx] at hpos ⊢
  cases h3 : o.secondOptional <;> cases h4 : o.dowOptional <;> simp [h3, h4] at h2 hpos ⊢
  · by_cases h : fs.length = mx
    · simp [h]
    · simp [h]; omega
  all_goals
    by_cases h : fs.length = mx
    · have a1 : ¬ mx < mx - 1 := by omega
      have a2 : ¬ mx = mx - 1 := by omega
      simp [h, a1, a2]
    · by_cases h' : fs.length + 1 = mx
      · subst h'
        simp
        omega
      · have a3 : ¬ fs.length = mx - 1 := by omega
        simp [h, h', a3]
        omega

theorem expandLoop_not_panic_of_len (o : Opts) (ps : List Place) (ds fs : List (List Char))
    (hd : ds.length = ps.length) (hf : fs.length = (ps.filter o.has).length) (w : String) :
    expandLoop o ps ds fs ≠ .panic w := by
  obtain ⟨r, hr, _⟩ := expandLoop_spec o ps ds fs hd hf
  rw [hr]; simp

/-- With the length checked, `normalizeFields` answers `ok` (six slots) or `field-count`. -/
theorem normalizeFields_cases (o : Opts) (h2 : o.twoOptionals = false) (fs : List (List Char)) :
    (∃ r, normalizeFields fs o = .ok r ∧ r.length = 6) ∨ normalizeFields fs o = .err "field-count" := by
  rw [normalizeFields_eq o h2 fs]
  by_cases h : fs.length = o.maxFields
  · rw [if_pos h]
    obtain ⟨r, hr, hE⟩ := expandLoop_spec o.merged places Gen.defaults fs defaults_len h
    exact Or.inl ⟨r, hr, by rw [hE.length, places_eq]; rfl⟩
  · rw [if_neg h]
    by_cases h' : o.hasOptional = true ∧ fs.length + 1 = o.maxFields
    · rw [if_pos h']
      have hl : (if o.dowOptional = true then fs ++ [['*']] else ['0'] :: fs).length
          = (places.filter o.merged.has).length := by
        have := h'.2
        unfold Opts.maxFields at this
        split <;> simp <;> omega
      obtain ⟨r, hr, hE⟩ := expandLoop_spec o.merged places Gen.defaults _ defaults_len hl
      exact Or.inl ⟨r, hr, by rw [hE.length, places_eq]; rfl⟩
    · rw [if_neg h']; exact Or.inr rfl


/-! ### Parse never panics -/

theorem indexOf_lt (c : Char) : ∀ (s : List Char) (i : Nat), indexOf c s = some i → i < s.length := by
  intro s
  induction s with
  | nil => intro i h; simp [indexOf] at h
  | cons x xs ih =>
    intro i h
    simp only [indexOf] at h
    split at h
    · simp at h; subst h; simp
    · cases hx : indexOf c xs with
      | none => simp [hx] at h
      | some j =>
        simp [hx] at h
        subst h
        have := ih j hx
        simp; omega

theorem tzGuard_on : Gen.tzNoSpaceGuard = true := rfl

theorem sliceO_ok (s : List Char) (lo hi : Nat) (h1 : lo ≤ hi) (h2 : hi ≤ s.length) :
    sliceO s lo hi = .ok ((s.take hi).drop lo) := by
  simp [sliceO, h1, h2]

/-- After a `TZ=`/`CRON_TZ=` prefix the first space lies behind the first `=`: the slice
`spec[eq+1:i]` is in bounds. -/
theorem tz_slice_bounds (spec : List Char) (i : Nat)
    (hp : Gen.tzPrefixes.any (hasPrefix · spec) = true) (hi : indexOf ' ' spec = some i) :
    afterEq spec ≤ i ∧ i < spec.length := by
  refine ⟨?_, indexOf_lt ' ' spec i hi⟩
  simp [Gen.tzPrefixes, hasPrefix] at hp
  rcases hp with hp | hp
  · obtain ⟨t, rfl⟩ := hp
    simp [indexOf, afterEq] at hi ⊢
    cases hx : indexOf ' ' t with
    | none => simp [hx] at hi
    | some j => simp [hx] at hi; omega
  · obtain ⟨t, rfl⟩ := hp
    simp [indexOf, afterEq] at hi ⊢
    cases hx : indexOf ' ' t with
    | none => simp [hx] at hi
    | some j => simp [hx] at hi; omega

/-- The time-zone step in closed form (guard present). -/
theorem tzPrefix_eq (env : Env) (spec : List Char) :
    tzPrefix true env spec =
      if Gen.tzPrefixes.any (hasPrefix · spec) = true then
        match indexOf ' ' spec with
        | none => .err "tz-no-spec"
        | some i =>
          if env.knownZone ((spec.take i).drop (afterEq spec)) = true then
            .ok (some (String.ofList ((spec.take i).drop (afterEq spec))), trimSpace (spec.drop i))
          else .err "bad-location"
      else .ok (none, spec) := by
  unfold tzPrefix
  split
  · rename_i hp
    cases hi : indexOf ' ' spec with
    | none => simp
    | some i =>
      simp only [Option.isNone_some, Bool.and_false, Bool.false_eq_true, if_false]
      obtain ⟨h1, h2⟩ := tz_slice_bounds spec i hp hi
      rw [sliceO_ok spec _ i h1 (by omega)]
      simp only
      split
      · rw [sliceO_ok spec i spec.length (by omega) (by omega)]
        simp
      · rfl
  · rfl

theorem tzPrefix_not_panic (env : Env) (spec : List Char) (w : String) :
    tzPrefix true env spec ≠ .panic w := by
  rw [tzPrefix_eq]
  repeat' split
  all_goals simp

theorem getField_not_panic (b : Bounds) (f : List Char) (w : String) : getField b f ≠ .panic w :=
  getFieldLoop_not_panic b w _ _

theorem parseSix_not_panic (flds : List (List Char)) (h : flds.length = 6) (w : String) :
    parseSix flds ≠ .panic w := by
  match flds, h with
  | [f0, f1, f2, f3, f4, f5], _ =>
    unfold parseSix
    simp [Gen.parseFields, idxO]
    repeat' split
    all_goals first
      | (rename_i hp; exact absurd hp (getField_not_panic _ _ _))
      | simp

theorem parseDescriptor_not_panic (env : Env) (d : List Char) (loc : Option String) (w : String) :
    parseDescriptor env d loc ≠ .panic w := by
  unfold parseDescriptor
  repeat' split
  all_goals simp

theorem parse_not_panic (env : Env) (o : Opts) (h2 : o.twoOptionals = false) (spec : List Char)
    (w : String) : parse env o spec ≠ .panic w := by
  unfold parse parseG
  rw [tzGuard_on]
  split
  · simp
  · cases ht : tzPrefix true env spec with
    | err e => simp
    | panic x => exact absurd ht (tzPrefix_not_panic env spec x)
    | ok pr =>
      obtain ⟨loc, rest⟩ := pr
      simp only
      split
      · split
        · simp
        · exact parseDescriptor_not_panic _ _ _ _
      · rcases normalizeFields_cases o h2 (fields rest) with ⟨r, hr, hl⟩ | hr
        · rw [hr]
          simp only
          cases hs : parseSix r with
          | err e => simp
          | panic x => exact absurd hs (parseSix_not_panic r hl x)
          | ok s => simp
        · rw [hr]; simp


/-! ### counting separators -/

theorem termSyn_slash_count (b : Bounds) (e : List Char) (t : Term) (h : TermSyn b e t) :
    e.count '/' ≤ 1 := by
  obtain ⟨baseS, stepS, he, hno, _, hstep⟩ := h
  have h0 : baseS.count '/' = 0 := List.count_eq_zero.2 hno
  cases stepS with
  | none => subst he; simp [stepSuffix, h0]
  | some st =>
    cases hs : t.step with
    | none => rw [hs] at hstep; simp [StepSyn] at hstep
    | some n =>
      rw [hs] at hstep
      have h1 : st.count '/' = 0 := List.count_eq_zero.2 (numeral_no_slash st n hstep)
      subst he
      simp [stepSuffix, List.count_append, h0, h1]

theorem baseSyn_hyphen_count (b : Bounds) (s : List Char) (base : Base) (h : BaseSyn b s base) :
    s.count '-' ≤ 1 := by
  cases base with
  | star => rcases h with h | h <;> subst h <;> decide
  | single n => have := List.count_eq_zero.2 h.2.1; omega
  | range lo hi =>
    obtain ⟨a, c, hs, _, ha, hc, _, _⟩ := h
    have h1 := List.count_eq_zero.2 ha
    have h2 := List.count_eq_zero.2 hc
    subst hs
    simp [List.count_append, h1, h2]


end Kit.Cron
