import KitProofs.Lemmas.Coalescing
/-! Window length / back-off arithmetic lemmas for property C09. -/
namespace Kit.Coalescing

theorem f64_small {n : Nat} (h : n < 2 ^ 53) : f64OfNat n = n := by
  simp [f64OfNat, h]

/-- Rounding to 53 bits never loses more than half of the value. -/
theorem le_two_f64 (n : Nat) : n ≤ 2 * f64OfNat n := by
  by_cases h : n < 2 ^ 53
  · rw [f64_small h]; omega
  · unfold f64OfNat
    simp only [h, if_false]
    have hn0 : n ≠ 0 := by intro h0; subst h0; simp at h
    have hpow : 2 ^ (n.log2 - 52) ≤ n :=
      Nat.le_trans (Nat.pow_le_pow_right (by decide) (Nat.sub_le _ _)) (Nat.log2_self_le hn0)
    generalize n.log2 - 52 = sh at hpow ⊢
    have hpos : 0 < 2 ^ sh := Nat.pow_pos (by decide)
    have hdm := Nat.div_add_mod n (2 ^ sh)
    have hr : n % 2 ^ sh < 2 ^ sh := Nat.mod_lt _ hpos
    have hq : 1 ≤ n / 2 ^ sh := (Nat.one_le_div_iff hpos).2 hpow
    have hqq : 2 ^ sh ≤ n / 2 ^ sh * 2 ^ sh := Nat.le_mul_of_pos_left _ hq
    have hcomm : 2 ^ sh * (n / 2 ^ sh) = n / 2 ^ sh * 2 ^ sh := Nat.mul_comm _ _
    split
    · have : (n / 2 ^ sh + 1) * 2 ^ sh = n / 2 ^ sh * 2 ^ sh + 2 ^ sh := by
        rw [Nat.add_mul]; simp
      omega
    · omega

theorem f64_pos {n : Nat} (h : 0 < n) : 0 < f64OfNat n := by
  have := le_two_f64 n; omega

/-- Documented window length after `k` extensions, with the code's float64 rounding of the
initial delay: `initial`, then `min(max, float64(initial)·2^k)`. -/
def grow (cfg : Config) : Nat → Nat
  | 0 => cfg.initial
  | k + 1 => min cfg.max (f64OfNat cfg.initial * 2 ^ (k + 1))

theorem grow_le_max {cfg : Config} (hv : cfg.valid) (k : Nat) : grow cfg k ≤ cfg.max := by
  cases k with
  | zero => exact hv.2.1
  | succ k => exact Nat.min_le_left _ _

/-- Below 2^53 ns (104 days) the conversion is exact: the window is `min(max, initial·2^k)`. -/
theorem grow_exact {cfg : Config} (hv : cfg.valid) (h : cfg.initial < 2 ^ 53) (k : Nat) :
    grow cfg k = min cfg.max (cfg.initial * 2 ^ k) := by
  cases k with
  | zero => simp [grow]; exact (Nat.min_eq_right hv.2.1).symm
  | succ k => simp [grow, f64_small h]

theorem backoffVals_ge {cfg : Config} {cur factor : Nat} (h : ¬ cur < cfg.max) :
    backoffVals cfg cur factor = (cur, factor, false) := by
  simp [backoffVals_def, h]

theorem backoffVals_lt {cfg : Config} {cur factor : Nat} (h : cur < cfg.max) :
    backoffVals cfg cur factor =
      if factor * 2 < int64Lim ∧ f64OfNat cfg.initial * (factor * 2) < int64Lim then
        (min cfg.max (f64OfNat cfg.initial * (factor * 2)), factor * 2, false)
      else (min cfg.max (f64OfNat cfg.initial * (factor * 2)), factor * 2, true) := by
  rw [backoffVals_def]
  simp only [h, if_true]
  have hmin : (if cfg.max < f64OfNat cfg.initial * (factor * 2) then cfg.max
      else f64OfNat cfg.initial * (factor * 2)) = min cfg.max (f64OfNat cfg.initial * (factor * 2)) := by
    split
    · next hlt => exact (Nat.min_eq_left (Nat.le_of_lt hlt)).symm
    · next hge => exact (Nat.min_eq_right (Nat.le_of_not_lt hge)).symm
  rw [hmin]
  by_cases hr : factor * 2 < int64Lim ∧ f64OfNat cfg.initial * (factor * 2) < int64Lim
  · have h1 : ¬ int64Lim ≤ factor * 2 := by omega
    have h2 : ¬ int64Lim ≤ f64OfNat cfg.initial * (factor * 2) := by omega
    simp [hr, h1, h2]
  · have : int64Lim ≤ factor * 2 ∨ int64Lim ≤ f64OfNat cfg.initial * (factor * 2) := by omega
    simp only [hr, if_false]
    rcases this with h1 | h1 <;> simp [h1]

/-- Window invariant: while the arithmetic has stayed in range, `currentDur` is the documented
window length for the number of extensions, and `backoffFactor = 2^k` while still growing. -/
def WInv (cfg : Config) (s : State) : Prop :=
  s.ovf = false → s.cur = grow cfg s.wk ∧ (s.cur < cfg.max → s.factor = 2 ^ s.wk)

theorem winv_init (cfg : Config) : WInv cfg (init cfg) := by
  intro _; simp [init_def, grow]

theorem grow_succ_of_ge {cfg : Config} (k : Nat) (h : cfg.max ≤ grow cfg k) :
    grow cfg (k + 1) = cfg.max := by
  simp only [grow]
  apply Nat.min_eq_left
  cases k with
  | zero =>
    simp only [grow] at h
    have := le_two_f64 cfg.initial
    simp; omega
  | succ k =>
    simp only [grow] at h
    have h1 : cfg.max ≤ f64OfNat cfg.initial * 2 ^ (k + 1) := by
      have := Nat.min_le_right cfg.max (f64OfNat cfg.initial * 2 ^ (k + 1)); omega
    have h2 : f64OfNat cfg.initial * 2 ^ (k + 1) ≤ f64OfNat cfg.initial * 2 ^ (k + 1 + 1) :=
      Nat.mul_le_mul_left _ (Nat.pow_le_pow_right (by decide) (by omega))
    omega

theorem winv_handleInput {cfg : Config} (hv : cfg.valid) {s : State} (hi : Inv cfg s)
    (hw : WInv cfg s) : WInv cfg (handleInput cfg s) := by
  cases htm : s.timer with
  | none =>
    have hid := hi.idle htm
    rw [handleInput_none htm]
    intro _
    simp [grow, hid.1, hid.2.1]
  | some d0 =>
    cases hcap : capReached cfg s with
    | true =>
      rw [handleInput_cap htm hcap]
      intro hovf
      simp at hovf ⊢
      exact hw hovf
    | false =>
      rw [handleInput_ext htm hcap]
      intro hovf
      simp only [Bool.or_eq_false_iff] at hovf
      obtain ⟨ho, hb⟩ := hovf
      obtain ⟨hcur, hfac⟩ := hw ho
      by_cases hlt : s.cur < cfg.max
      · have hf := hfac hlt
        rw [backoffVals_lt hlt] at hb ⊢
        split at hb
        · next hr =>
          simp only [hr, and_self, if_true]
          rw [hf]
          constructor
          · simp [grow, Nat.pow_succ]
          · intro _; simp [Nat.pow_succ]
        · simp at hb
      · rw [backoffVals_ge hlt]
        have hmax : cfg.max ≤ grow cfg s.wk := by omega
        have := grow_succ_of_ge s.wk hmax
        have hle := grow_le_max hv s.wk
        simp only []
        constructor
        · omega
        · intro h; omega

theorem winv_step {cfg : Config} (hv : cfg.valid) {s s' : State} (l : Label)
    (hi : Inv cfg s) (hw : WInv cfg s) (hst : step cfg s l = some s') : WInv cfg s' := by
  cases l with
  | deliver =>
    simp only [step] at hst
    split at hst
    · cases hst; exact winv_handleInput hv hi hw
    · cases hst
  | expire =>
    simp only [step] at hst
    split at hst
    · split at hst
      · cases hst; intro _; simp [handleTimer_def, grow]
      · cases hst
    · cases hst
  | add =>
    rw [step_add_def] at hst
    split at hst <;> cases hst <;> simpa [WInv] using hw
  | close => simp only [step] at hst; cases hst; simpa [WInv] using hw
  | runCall => simp only [step] at hst; cases hst; simpa [WInv] using hw
  | cancel => simp only [step] at hst; cases hst; simpa [WInv] using hw
  | run | runErrRet | top | tokenGiveUp | exitLoop | advance _ | closeRet | consume | senderGiveUp | runRet =>
    simp only [step] at hst
    split at hst <;> cases hst <;> simpa [WInv] using hw

theorem winv_reach {cfg : Config} (hv : cfg.valid) : ∀ s, Reach cfg s → WInv cfg s := by
  intro s h
  induction h with
  | init => exact winv_init cfg
  | step l hr hst ih => exact winv_step hv l (inv_reach hv _ hr) ih hst

/-- Side condition under which the back-off arithmetic stays inside `int64`:
`MaxDelay < 2^62 ns` and `float64(InitialDelay) < 2^62` (true for every `InitialDelay ≤ 2^62 − 257`;
`2^62 − 256 … 2^62 − 1` round up to `2^62`, see `backoff_overflow_witness`). -/
def NoOvf (cfg : Config) : Prop := cfg.max < 2 ^ 62 ∧ f64OfNat cfg.initial < 2 ^ 62

instance (cfg : Config) : Decidable (NoOvf cfg) := by unfold NoOvf; infer_instance

theorem noovf_handleInput {cfg : Config} (hv : cfg.valid) (hn : NoOvf cfg) {s : State}
    (hw : WInv cfg s) (ho : s.ovf = false) : (handleInput cfg s).ovf = false := by
  cases htm : s.timer with
  | none => rw [handleInput_none htm]; simpa using ho
  | some d0 =>
    cases hcap : capReached cfg s with
    | true => rw [handleInput_cap htm hcap]; simpa using ho
    | false =>
      rw [handleInput_ext htm hcap]
      simp only [ho, Bool.false_or]
      obtain ⟨hcur, hfac⟩ := hw ho
      by_cases hlt : s.cur < cfg.max
      · have hf := hfac hlt
        rw [backoffVals_lt hlt]
        have hfp := f64_pos hv.1
        have hrange : s.factor * 2 < int64Lim ∧ f64OfNat cfg.initial * (s.factor * 2) < int64Lim := by
          unfold int64Lim
          cases hk : s.wk with
          | zero =>
            rw [hk] at hf; simp at hf
            rw [hf]; have := hn.2; omega
          | succ k =>
            rw [hk] at hf hcur
            simp only [grow] at hcur
            have hX : f64OfNat cfg.initial * 2 ^ (k + 1) < cfg.max := by
              rcases Nat.lt_or_ge (f64OfNat cfg.initial * 2 ^ (k + 1)) cfg.max with h | h
              · exact h
              · have := Nat.min_eq_left h; omega
            have hle : 2 ^ (k + 1) ≤ f64OfNat cfg.initial * 2 ^ (k + 1) :=
              Nat.le_mul_of_pos_left _ hfp
            rw [hf, ← Nat.mul_assoc]
            have := hn.1
            omega
        simp [hrange]
      · rw [backoffVals_ge hlt]

theorem ovf_step_of_noovf {cfg : Config} (hv : cfg.valid) (hn : NoOvf cfg) {s s' : State} (l : Label)
    (hw : WInv cfg s) (ho : s.ovf = false) (hst : step cfg s l = some s') : s'.ovf = false := by
  cases l with
  | deliver =>
    simp only [step] at hst
    split at hst
    · cases hst; exact noovf_handleInput hv hn hw ho
    · cases hst
  | expire =>
    simp only [step] at hst
    split at hst
    · split at hst
      · cases hst
        simp [handleTimer_def, ho]
      · cases hst
    · cases hst
  | add =>
    rw [step_add_def] at hst
    split at hst <;> cases hst <;> simpa using ho
  | close => simp only [step] at hst; cases hst; simpa using ho
  | runCall => simp only [step] at hst; cases hst; simpa using ho
  | cancel => simp only [step] at hst; cases hst; simpa using ho
  | run | runErrRet | top | tokenGiveUp | exitLoop | advance _ | closeRet | consume | senderGiveUp | runRet =>
    simp only [step] at hst
    split at hst <;> cases hst <;> simpa using ho

end Kit.Coalescing
