import KitModel.BroadcasterAccept
import KitProofs.Lemmas.Broadcaster
/-! Soundness of the C11 acceptor: the state-merging reduction `norm` is a simulation
(`sim_step`), and the work-list closure only ever adds normal forms of states reached by
executions with the observed projection. -/
namespace Kit.Broadcaster
set_option linter.unusedSimpArgs false
set_option linter.unnecessarySimpa false

/-! ### algebra of `normSub` / `norm` -/

def exited (u : Sub) : Bool := u.pc == .wantLock || u.pc == .done

theorem normSub_of_not_exited {u : Sub} (h : exited u = false) : normSub u = u := by
  unfold normSub
  cases hp : u.pc <;> simp [exited, hp] at h ⊢

theorem normSub_of_exited {u : Sub} (h : exited u = true) :
    normSub u = { u with buf := [], hand := none, missed := false } := by
  unfold normSub
  cases hp : u.pc <;> simp [exited, hp] at h ⊢

@[simp] theorem normSub_pc (u : Sub) : (normSub u).pc = u.pc := by
  unfold normSub; split <;> rfl
@[simp] theorem normSub_id (u : Sub) : (normSub u).id = u.id := by
  unfold normSub; split <;> rfl
@[simp] theorem normSub_tag (u : Sub) : (normSub u).tag = u.tag := by
  unfold normSub; split <;> rfl
@[simp] theorem normSub_inList (u : Sub) : (normSub u).inList = u.inList := by
  unfold normSub; split <;> rfl
@[simp] theorem normSub_exitClosed (u : Sub) : (normSub u).exitClosed = u.exitClosed := by
  unfold normSub; split <;> rfl
@[simp] theorem normSub_cancelled (u : Sub) : (normSub u).cancelled = u.cancelled := by
  unfold normSub; split <;> rfl
@[simp] theorem exited_normSub (u : Sub) : exited (normSub u) = exited u := by simp [exited]

@[simp] theorem normSub_idem (u : Sub) : normSub (normSub u) = normSub u := by
  cases h : exited u
  · rw [normSub_of_not_exited h, normSub_of_not_exited h]
  · rw [normSub_of_exited (u := normSub u) (by simpa using h), normSub_of_exited h]

/-- `N s` = the normal form used by the reduced acceptor. -/
abbrev N (s : State) : State := norm true s

theorem N_def (s : State) : N s = { s with subs := s.subs.map normSub } := by simp [N, norm]

@[simp] theorem N_subs (s : State) : (N s).subs = s.subs.map normSub := by simp [N_def]
@[simp] theorem N_bc (s : State) : (N s).bc = s.bc := by simp [N_def]
@[simp] theorem N_closed (s : State) : (N s).closed = s.closed := by simp [N_def]
@[simp] theorem N_closeCh (s : State) : (N s).closeCh = s.closeCh := by simp [N_def]
@[simp] theorem N_waitB (s : State) : (N s).waitB = s.waitB := by simp [N_def]
@[simp] theorem N_waitS (s : State) : (N s).waitS = s.waitS := by simp [N_def]
@[simp] theorem N_retB (s : State) : (N s).retB = s.retB := by simp [N_def]
@[simp] theorem N_retS (s : State) : (N s).retS = s.retS := by simp [N_def]
@[simp] theorem N_closeNew (s : State) : (N s).closeNew = s.closeNew := by simp [N_def]
@[simp] theorem N_closePre (s : State) : (N s).closePre = s.closePre := by simp [N_def]
@[simp] theorem N_closePost (s : State) : (N s).closePost = s.closePost := by simp [N_def]

theorem N_get (s : State) (i : Nat) : (N s).subs[i]? = (s.subs[i]?).map normSub := by
  simp [List.getElem?_map]

@[simp] theorem N_idem (s : State) : N (N s) = N s := by
  simp [N_def, List.map_map, Function.comp_def]

theorem norm_idem (r : Bool) (s : State) : norm r (norm r s) = norm r s := by
  cases r
  · simp [norm]
  · exact N_idem s

/-- Two states with the same non-subscriber part whose subscriber lists have the same normal
forms have the same normal form. -/
theorem N_congr {s t : State} (h : { s with subs := [] } = { t with subs := [] })
    (hs : s.subs.map normSub = t.subs.map normSub) : N s = N t := by
  cases s; cases t
  simp only [State.mk.injEq] at h
  simp only [N_def, State.mk.injEq]
  simp_all

theorem map_normSub_set (l : List Sub) (i : Nat) (a : Sub) :
    (l.set i a).map normSub = (l.map normSub).set i (normSub a) := by
  simp [List.map_set]

/-- Replacing slot `i` by `a` in `N s` and by `b` in `s` gives the same normal form when `a`, `b`
have the same normal form. -/
theorem set_norm_eq (l : List Sub) (i : Nat) {a b : Sub} (h : normSub a = normSub b) :
    ((l.map normSub).set i a).map normSub = (l.set i b).map normSub := by
  rw [map_normSub_set, map_normSub_set, h, List.map_map]
  congr 1
  apply List.map_congr_left
  intro u _; simp

theorem N_setSub {s : State} {i : Nat} {a b : Sub} (h : normSub a = normSub b) :
    N (setSub (N s) i a) = N (setSub s i b) :=
  N_congr (by simp [setSub, N_def]) (by simp only [setSub, N_subs]; exact set_norm_eq _ _ h)

theorem N_fan {s : State} {i : Nat} {a b : Sub} {bc : Option (Entry × Nat)}
    (h : normSub a = normSub b) :
    N { N s with subs := (N s).subs.set i a, bc := bc } = N { s with subs := s.subs.set i b, bc := bc } :=
  N_congr (by simp [N_def]) (by simp only [N_subs]; exact set_norm_eq _ _ h)

/-! ### observations are not affected by the reduction -/

theorem mem_filterMap_range {α : Type} {n : Nat} {g : Nat → Option α} {a : α} :
    a ∈ (range n).filterMap g ↔ ∃ i, i < n ∧ g i = some a := by
  simp [range, List.mem_filterMap]

theorem obs_transfer {s : State} {l : Label} {o : Obs} (h : l ∈ obsLabels (N s) o) :
    l ∈ obsLabels s o := by
  cases o with
  | bcall x => simpa [obsLabels] using h
  | bret t => simpa [obsLabels] using h
  | scall n => simpa [obsLabels] using h
  | sret t => simpa [obsLabels] using h
  | ccall => simpa [obsLabels] using h
  | cret => simpa [obsLabels] using h
  | bacq x => simpa [obsLabels] using h
  | cancel t => simpa [obsLabels] using h
  | recv t x =>
    simp only [obsLabels, mem_filterMap_range] at h ⊢
    obtain ⟨i, hi, hg⟩ := h
    refine ⟨i, by simpa using hi, ?_⟩
    rw [N_get] at hg
    cases hu : s.subs[i]? with
    | none => simp [hu] at hg
    | some u =>
      cases he : exited u with
      | false => simpa [hu, normSub_of_not_exited he] using hg
      | true => simp [hu, normSub_of_exited he] at hg

theorem fanout_not_observable (x : State) (o : Obs) :
    Label.bcPush ∉ obsLabels x o ∧ Label.bcSkipExit ∉ obsLabels x o := by
  cases o <;> simp [obsLabels, mem_filterMap_range] <;>
    (constructor <;> intro i _ <;> split <;> (try split) <;> simp)

set_option linter.unusedSimpArgs false

/-! ### the reduction is a simulation -/

def Label.global : Label → Bool
  | .bcCall _ | .bcAcquire _ | .bcFinish | .bcReturn _ | .subCall _ | .subAcquire _ _
  | .subReturn _ | .cancel _ | .closeCall | .closeCas | .closeChClose | .closePass | .closeReturn => true
  | _ => false

@[simp] theorem allDone_N (s : State) : allDone (N s) = allDone s := by
  simp [allDone, List.all_map, Function.comp_def]

@[simp] theorem N_log (s : State) : (N s).log = s.log := by simp [N_def]
@[simp] theorem N_currentID (s : State) : (N s).currentID = s.currentID := by simp [N_def]
@[simp] theorem N_nextTicket (s : State) : (N s).nextTicket = s.nextTicket := by simp [N_def]
@[simp] theorem N_returnedT (s : State) : (N s).returnedT = s.returnedT := by simp [N_def]
@[simp] theorem N_nextTag (s : State) : (N s).nextTag = s.nextTag := by simp [N_def]
@[simp] theorem N_closeReturned (s : State) : (N s).closeReturned = s.closeReturned := by simp [N_def]

theorem normSub_new (a b c d : Nat) (e : Bool) : normSub (Sub.new a b c d e) = Sub.new a b c d e := by
  simp [normSub, Sub.new]

@[simp] theorem N_cancelledCalls (s : State) : (N s).cancelledCalls = s.cancelledCalls := by
  simp [N_def]

@[simp] theorem newSubs_N (s : State) (t j : Nat) : newSubs (N s) t j = newSubs s t j := by
  simp only [newSubs, N_currentID, N_log, N_cancelledCalls]

@[simp] theorem map_normSub_newSubs (s : State) (t j : Nat) :
    (newSubs s t j).map normSub = newSubs s t j := by
  simp [newSubs, List.map_map, Function.comp_def, normSub_new]

theorem cancelSub_normSub (c : Nat) (u : Sub) : cancelSub c (normSub u) = normSub (cancelSub c u) := by
  unfold cancelSub
  cases hp : u.pc <;> by_cases hc : u.call = c <;> simp [normSub, hp, hc]

theorem step_N_global {v : Variant} {s : State} {l : Label} (hl : l.global = true) :
    step v (N s) l = (step v s l).map N := by
  cases l <;> simp [Label.global] at hl <;>
    simp only [step, bcCall, bcAcquire, bcFinish, bcReturn, subCall, subAcquire, subReturn, cancel, closeCall,
      closeCas, closeChClose, closePass, closeReturn, N_bc, N_waitB, N_waitS, N_closed, N_closeCh,
      N_retB, N_retS, N_closeNew, N_closePre, N_closePost, allDone_N, N_log, N_currentID,
      N_nextTicket, N_returnedT, N_nextTag, N_closeReturned, N_subs, List.length_map]
  all_goals (repeat' split) <;>
    simp_all [N_def, normSub_new, List.map_map, Function.comp_def, cancelSub_normSub, newSubs]
def SimOK (v : Variant) (hooked : Bool) (s : State) (l : Label) (x' : State) : Prop :=
  ∃ l' s', step v s l' = some s' ∧ N s' = N x' ∧
    (silent hooked l = true → silent hooked l' = true) ∧
    (∀ o, l ∈ obsLabels (N s) o → l' ∈ obsLabels s o)

theorem simSame {v hooked s l x' s'} (h1 : step v s l = some s') (h2 : N s' = N x') :
    SimOK v hooked s l x' :=
  ⟨l, s', h1, h2, fun h => h, fun _ h => obs_transfer h⟩

theorem sim_global {v hooked s l x'} (hl : l.global = true) (hs : step v (N s) l = some x') :
    SimOK v hooked s l x' := by
  rw [step_N_global hl] at hs
  cases h : step v s l with
  | none => simp [h] at hs
  | some s' =>
    simp [h] at hs
    exact simSame h (by rw [← hs, N_idem])

/-- Forwarder steps whose guard excludes exited subscribers: identical on `s` and `N s`. -/
theorem sim_fwdTake {v hooked s i x'} (hs : step v (N s) (.fwdTake i) = some x') :
    SimOK v hooked s (.fwdTake i) x' := by
  simp only [step, fwdTake, N_get] at hs
  cases hu : s.subs[i]? with
  | none => simp [hu] at hs
  | some u =>
    cases he : exited u with
    | true =>
      have : u.pc = .wantLock ∨ u.pc = .done := by simpa [exited] using he
      rcases this with h | h <;> simp [hu, h] at hs
    | false =>
      simp only [hu, Option.map_some, normSub_of_not_exited he] at hs
      split at hs
      · next x rest hpc hb =>
        simp at hs; subst hs
        exact simSame (s' := setSub s i { u with hand := some x, buf := rest, pc := .holding })
          (by simp [step, fwdTake, hu, hpc, hb]) (N_setSub rfl).symm
      · simp at hs

theorem sim_fwdDeliver {v hooked s i x'} (hs : step v (N s) (.fwdDeliver i) = some x') :
    SimOK v hooked s (.fwdDeliver i) x' := by
  simp only [step, fwdDeliver, N_get] at hs
  cases hu : s.subs[i]? with
  | none => simp [hu] at hs
  | some u =>
    cases he : exited u with
    | true =>
      have : u.pc = .wantLock ∨ u.pc = .done := by simpa [exited] using he
      rcases this with h | h <;> simp [hu, h] at hs
    | false =>
      simp only [hu, Option.map_some, normSub_of_not_exited he] at hs
      split at hs
      · next x hpc hh =>
        simp at hs; subst hs
        exact simSame
          (s' := setSub s i { u with delivered := u.delivered ++ [x], hand := none, pc := .idle })
          (by simp [step, fwdDeliver, hu, hpc, hh]) (N_setSub rfl).symm
      · simp at hs

theorem not_exited_of_inLoop {u : Sub} (h : inLoop u = true) : exited u = false := by
  have : u.pc = .idle ∨ u.pc = .holding := by simpa [inLoop] using h
  rcases this with h | h <;> simp [exited, h]

theorem sim_fwdExitCtx {v hooked s i x'} (hs : step v (N s) (.fwdExitCtx i) = some x') :
    SimOK v hooked s (.fwdExitCtx i) x' := by
  simp only [step, fwdExitCtx, N_get] at hs
  cases hu : s.subs[i]? with
  | none => simp [hu] at hs
  | some u =>
    simp only [hu, Option.map_some] at hs
    split at hs
    · next hg =>
      have hl : inLoop u = true := by simpa [inLoop] using hg.1
      have he := not_exited_of_inLoop hl
      rw [normSub_of_not_exited he] at hs hg
      simp at hs; subst hs
      exact simSame (s' := setSub s i { u with pc := .exiting })
        (by simp [step, fwdExitCtx, hu, hl, hg.2]) (N_setSub rfl).symm
    · simp at hs

theorem sim_fwdExitClose {v hooked s i x'} (hs : step v (N s) (.fwdExitClose i) = some x') :
    SimOK v hooked s (.fwdExitClose i) x' := by
  simp only [step, fwdExitClose, N_get] at hs
  cases hu : s.subs[i]? with
  | none => simp [hu] at hs
  | some u =>
    simp only [hu, Option.map_some] at hs
    split at hs
    · next hg =>
      have hl : inLoop u = true := by simpa [inLoop] using hg.1
      have he := not_exited_of_inLoop hl
      rw [normSub_of_not_exited he] at hs
      simp at hs; subst hs
      exact simSame (s' := setSub s i { u with pc := .exiting })
        (by simp [step, fwdExitClose, hu, hl, (by simpa using hg.2 : s.closeCh = true)])
        (N_setSub rfl).symm
    · simp at hs

theorem sim_fwdCloseExit {v hooked s i x'} (hs : step v (N s) (.fwdCloseExit i) = some x') :
    SimOK v hooked s (.fwdCloseExit i) x' := by
  simp only [step, fwdCloseExit, N_get] at hs
  cases hu : s.subs[i]? with
  | none => simp [hu] at hs
  | some u =>
    simp only [hu, Option.map_some] at hs
    split at hs
    · next hg =>
      have hpc : u.pc = .exiting := by simpa using hg
      have he : exited u = false := by simp [exited, hpc]
      rw [normSub_of_not_exited he] at hs
      simp at hs; subst hs
      exact simSame (s' := setSub s i { u with exitClosed := true, pc := .wantLock })
        (by simp [step, fwdCloseExit, hu, hpc]) (N_setSub rfl).symm
    · simp at hs

theorem removeTarget_N (s : State) (id : Nat) : removeTarget (N s) id = removeTarget s id := by
  simp [removeTarget, List.findIdx?_map, Function.comp_def]

theorem sim_fwdRemove {v hooked s i x'} (hr : Reach v s)
    (hs : step v (N s) (.fwdRemove i) = some x') : SimOK v hooked s (.fwdRemove i) x' := by
  have hw := wf_reach s hr
  have hid := idinv_reach s hr
  simp only [step, fwdRemove, N_get] at hs
  cases hu : s.subs[i]? with
  | none => simp [hu] at hs
  | some u =>
    simp only [hu, Option.map_some, normSub_pc, normSub_id, N_bc, removeTarget_N] at hs
    split at hs
    · next hg =>
      have hin : u.inList = true := by
        cases h : u.inList with
        | true => rfl
        | false => have := (hw.subs i u hu).listPc.mp h; simp [hg.1] at this
      have hrt := removeTarget_eq hid hu hin
      rw [if_pos hrt] at hs
      simp at hs; subst hs
      refine simSame (s' := setSub s i { u with inList := false, pc := .done })
        (by simp [step, fwdRemove, hu, hg.1, hg.2, hrt]) (N_setSub ?_).symm
      cases hp : u.pc <;> simp [normSub, hp]
    · simp at hs

theorem sim_skip {v hooked s x'} {l : Label}
    (hl : l = .bcSkipExit ∨ l = .bcSkipClose ∨ l = .bcSkipGone)
    (hs : step v (N s) l = some x') : SimOK v hooked s l x' := by
  rcases hl with rfl | rfl | rfl
  all_goals
    simp only [step, bcSkipExit, bcSkipClose, bcSkipGone, N_bc] at hs
    split at hs
    · next e pc hbc =>
      rw [N_get] at hs
      cases hu : s.subs[pc]? with
      | none => simp [hu] at hs
      | some u =>
        simp only [hu, Option.map_some, normSub_inList, normSub_exitClosed, N_closeCh] at hs
        split at hs
        · next hg =>
          simp at hs; subst hs
          refine simSame
            (s' := { s with subs := s.subs.set pc { u with missed := true }, bc := some (e, pc + 1) })
            (by simp [step, bcSkipExit, bcSkipClose, bcSkipGone, hbc, hu, hg]) ?_
          refine (N_fan (s := s) (bc := some (e, pc + 1)) ?_).symm
          cases hp : u.pc <;> simp [normSub, hp]
        · simp at hs
    · simp at hs

theorem sim_bcPush {v hooked s x'} (hr : Reach v s) (hs : step v (N s) .bcPush = some x') :
    SimOK v hooked s .bcPush x' := by
  have hw := wf_reach s hr
  simp only [step, bcPush, N_bc] at hs
  split at hs
  · next e pc hbc =>
    rw [N_get] at hs
    cases hu : s.subs[pc]? with
    | none => simp [hu] at hs
    | some u =>
      simp only [hu, Option.map_some, normSub_inList] at hs
      split at hs
      · next hg =>
        simp at hs; subst hs
        cases he : exited u with
        | false =>
          rw [normSub_of_not_exited he] at hg ⊢
          exact simSame
            (s' := { s with subs := s.subs.set pc { u with buf := u.buf ++ [e] }, bc := some (e, pc + 1) })
            (by simp [step, bcPush, hbc, hu, hg]) (N_fan (s := s) (bc := some (e, pc + 1)) rfl).symm
        | true =>
          have hpc : u.pc = .wantLock ∨ u.pc = .done := by simpa [exited] using he
          have hex : u.exitClosed = true := (hw.subs pc u hu).exitPc.mpr hpc
          refine ⟨.bcSkipExit,
            { s with subs := s.subs.set pc { u with missed := true }, bc := some (e, pc + 1) },
            by simp [step, bcSkipExit, hbc, hu, hg.1, hex], ?_, fun h => by simpa [silent, Label.internal, Label.isAcquire] using h,
            fun o h => absurd h (fanout_not_observable _ o).1⟩
          refine (N_fan (s := s) (bc := some (e, pc + 1)) ?_).symm
          rcases hpc with hp | hp <;> simp [normSub, hp]
      · simp at hs
  · simp at hs

/-- `sim_step`: every step of the normal form `N s` of a reachable state `s` is matched by a step
of `s` itself with the same observation (silent stays silent), into a state with the same normal
form. -/
theorem sim_step {v : Variant} (hooked : Bool) {s : State} (hr : Reach v s) {l : Label} {x' : State}
    (hs : step v (N s) l = some x') : SimOK v hooked s l x' := by
  cases l
  case bcPush => exact sim_bcPush hr hs
  case bcSkipExit => exact sim_skip (Or.inl rfl) hs
  case bcSkipClose => exact sim_skip (Or.inr (Or.inl rfl)) hs
  case bcSkipGone => exact sim_skip (Or.inr (Or.inr rfl)) hs
  case fwdTake i => exact sim_fwdTake hs
  case fwdDeliver i => exact sim_fwdDeliver hs
  case fwdExitCtx i => exact sim_fwdExitCtx hs
  case fwdExitClose i => exact sim_fwdExitClose hs
  case fwdCloseExit i => exact sim_fwdCloseExit hs
  case fwdRemove i => exact sim_fwdRemove hr hs
  all_goals exact sim_global rfl hs

/-! ### … and conversely (the reduction loses no behaviour) -/

/-- Observations of an *enabled* label are the same in `s` and in its normal form. -/
theorem obs_transfer_rev {v : Variant} {s : State} {l : Label} {o : Obs} {s' : State}
    (hs : step v s l = some s') (h : l ∈ obsLabels s o) : l ∈ obsLabels (N s) o := by
  cases o with
  | bcall x => simpa [obsLabels] using h
  | bret t => simpa [obsLabels] using h
  | scall n => simpa [obsLabels] using h
  | sret t => simpa [obsLabels] using h
  | ccall => simpa [obsLabels] using h
  | cret => simpa [obsLabels] using h
  | bacq x => simpa [obsLabels] using h
  | cancel t => simpa [obsLabels] using h
  | recv t x =>
    simp only [obsLabels, mem_filterMap_range] at h ⊢
    obtain ⟨i, hi, hg⟩ := h
    refine ⟨i, by simpa using hi, ?_⟩
    rw [N_get]
    cases hu : s.subs[i]? with
    | none => simp [hu] at hg
    | some u =>
      simp only [hu] at hg
      split at hg
      · next hc =>
        simp at hg; subst hg
        -- the step is `fwdDeliver i`: the forwarder is holding, hence not exited
        simp only [step, fwdDeliver, hu] at hs
        have hpc : u.pc = .holding := by
          cases hp : u.pc <;> simp [hp] at hs ⊢
        have he : exited u = false := by simp [exited, hpc]
        simp [normSub_of_not_exited he, hc]
      · simp at hg

def SimRev (v : Variant) (s : State) (l : Label) (s' : State) : Prop :=
  ∃ x', step v (N s) l = some x' ∧ N x' = N s'

theorem rev_global {v s l s'} (hl : l.global = true) (hs : step v s l = some s') : SimRev v s l s' :=
  ⟨N s', by rw [step_N_global hl, hs]; rfl, N_idem s'⟩

theorem exited_of_pc {u : Sub} {p : FPc} (hp : u.pc = p) (h1 : p ≠ .wantLock) (h2 : p ≠ .done) :
    exited u = false := by
  cases p <;> simp_all [exited]

theorem rev_sub {v s l s'} {i : Nat} {u : Sub} {f : Sub → Sub} (hu : s.subs[i]? = some u)
    (hs' : s' = setSub s i (f u)) (hN : normSub (f (normSub u)) = normSub (f u))
    (hstep : step v (N s) l = some (setSub (N s) i (f (normSub u)))) : SimRev v s l s' :=
  ⟨_, hstep, by rw [hs']; exact N_setSub hN⟩

theorem rev_fwdTake {v s i s'} (hs : step v s (.fwdTake i) = some s') : SimRev v s (.fwdTake i) s' := by
  simp only [step, fwdTake] at hs
  split at hs
  · next u hu =>
    split at hs
    · next x rest hpc hb =>
      simp at hs
      have he := exited_of_pc hpc (by simp) (by simp)
      refine rev_sub (f := fun w => { w with hand := some x, buf := rest, pc := .holding }) hu hs.symm
        (by rw [normSub_of_not_exited he]) ?_
      simp [step, fwdTake, N_get, hu, normSub_of_not_exited he, hpc, hb]
    · simp at hs
  · simp at hs

theorem rev_fwdDeliver {v s i s'} (hs : step v s (.fwdDeliver i) = some s') :
    SimRev v s (.fwdDeliver i) s' := by
  simp only [step, fwdDeliver] at hs
  split at hs
  · next u hu =>
    split at hs
    · next x hpc hh =>
      simp at hs
      have he := exited_of_pc hpc (by simp) (by simp)
      refine rev_sub (f := fun w => { w with delivered := w.delivered ++ [x], hand := none, pc := .idle })
        hu hs.symm (by rw [normSub_of_not_exited he]) ?_
      simp [step, fwdDeliver, N_get, hu, normSub_of_not_exited he, hpc, hh]
    · simp at hs
  · simp at hs

theorem rev_fwdExitCtx {v s i s'} (hs : step v s (.fwdExitCtx i) = some s') :
    SimRev v s (.fwdExitCtx i) s' := by
  simp only [step, fwdExitCtx] at hs
  split at hs
  · next u hu =>
    split at hs
    · next hg =>
      simp at hs
      have he := not_exited_of_inLoop hg.1
      refine rev_sub (f := fun w => { w with pc := .exiting }) hu hs.symm
        (by rw [normSub_of_not_exited he]) ?_
      simp [step, fwdExitCtx, N_get, hu, normSub_of_not_exited he, hg.1, hg.2]
    · simp at hs
  · simp at hs

theorem rev_fwdExitClose {v s i s'} (hs : step v s (.fwdExitClose i) = some s') :
    SimRev v s (.fwdExitClose i) s' := by
  simp only [step, fwdExitClose] at hs
  split at hs
  · next u hu =>
    split at hs
    · next hg =>
      simp at hs
      have he := not_exited_of_inLoop hg.1
      refine rev_sub (f := fun w => { w with pc := .exiting }) hu hs.symm
        (by rw [normSub_of_not_exited he]) ?_
      simp [step, fwdExitClose, N_get, hu, normSub_of_not_exited he, hg.1, hg.2]
    · simp at hs
  · simp at hs

theorem rev_fwdCloseExit {v s i s'} (hs : step v s (.fwdCloseExit i) = some s') :
    SimRev v s (.fwdCloseExit i) s' := by
  simp only [step, fwdCloseExit] at hs
  split at hs
  · next u hu =>
    split at hs
    · next hg =>
      simp at hs
      have he := exited_of_pc hg (by simp) (by simp)
      refine rev_sub (f := fun w => { w with exitClosed := true, pc := .wantLock }) hu hs.symm
        (by rw [normSub_of_not_exited he]) ?_
      simp [step, fwdCloseExit, N_get, hu, normSub_of_not_exited he, hg]
    · simp at hs
  · simp at hs

theorem rev_fwdRemove {v s i s'} (hr : Reach v s) (hs : step v s (.fwdRemove i) = some s') :
    SimRev v s (.fwdRemove i) s' := by
  have hw := wf_reach s hr
  have hid := idinv_reach s hr
  obtain ⟨u, hu, hpc, hbc, rfl⟩ := fwdRemove_spec hw hid (by simpa [step] using hs)
  have hin : u.inList = true := by
    cases h : u.inList with
    | true => rfl
    | false => have := (hw.subs i u hu).listPc.mp h; simp [hpc] at this
  have hrt := removeTarget_eq hid hu hin
  refine rev_sub (f := fun w => { w with inList := false, pc := .done }) hu rfl ?_ ?_
  · cases hp : u.pc <;> simp [normSub, hp]
  · simp [step, fwdRemove, N_get, hu, hpc, hbc, removeTarget_N, hrt]

theorem rev_fan {v s l s'} {e : Entry} {pc : Nat} {u : Sub} {f : Sub → Sub}
    (hs' : s' = { s with subs := s.subs.set pc (f u), bc := some (e, pc + 1) })
    (hN : normSub (f (normSub u)) = normSub (f u))
    (hstep : step v (N s) l =
      some { N s with subs := (N s).subs.set pc (f (normSub u)), bc := some (e, pc + 1) }) :
    SimRev v s l s' :=
  ⟨_, hstep, by rw [hs']; exact N_fan hN⟩

theorem rev_bcPush {v s s'} (hs : step v s .bcPush = some s') : SimRev v s .bcPush s' := by
  simp only [step, bcPush] at hs
  split at hs
  · next e pc hbc =>
    split at hs
    · next u hu =>
      split at hs
      · next hg =>
        simp at hs
        refine rev_fan (f := fun w => { w with buf := w.buf ++ [e] }) hs.symm ?_ ?_
        · cases hp : u.pc <;> simp [normSub, hp]
        · have hlen : (normSub u).buf.length < bufferSize := by
            cases he : exited u with
            | false => rw [normSub_of_not_exited he]; exact hg.2
            | true => rw [normSub_of_exited he]; simp [bufferSize, Kit.Generated.C11.bufferSize]
          simp [step, bcPush, hbc, N_get, hu, hg.1, hlen]
      · simp at hs
    · simp at hs
  · simp at hs

theorem rev_skip {v s s'} {l : Label}
    (hl : l = .bcSkipExit ∨ l = .bcSkipClose ∨ l = .bcSkipGone)
    (hs : step v s l = some s') : SimRev v s l s' := by
  rcases hl with rfl | rfl | rfl
  all_goals
    simp only [step, bcSkipExit, bcSkipClose, bcSkipGone] at hs
    split at hs
    · next e pc hbc =>
      split at hs
      · next u hu =>
        split at hs
        · next hg =>
          simp at hs
          refine rev_fan (f := fun w => { w with missed := true }) hs.symm ?_ ?_
          · cases hp : u.pc <;> simp [normSub, hp]
          · simp [step, bcSkipExit, bcSkipClose, bcSkipGone, hbc, N_get, hu, hg]
        · simp at hs
      · simp at hs
    · simp at hs

/-- `sim_step_rev`: conversely every step of a reachable state is matched by the *same* label from
its normal form, into states with the same normal form. -/
theorem sim_step_rev {v : Variant} {s : State} (hr : Reach v s) {l : Label} {s' : State}
    (hs : step v s l = some s') : ∃ x', step v (N s) l = some x' ∧ N x' = N s' := by
  cases l
  case bcPush => exact rev_bcPush hs
  case bcSkipExit => exact rev_skip (Or.inl rfl) hs
  case bcSkipClose => exact rev_skip (Or.inr (Or.inl rfl)) hs
  case bcSkipGone => exact rev_skip (Or.inr (Or.inr rfl)) hs
  case fwdTake i => exact rev_fwdTake hs
  case fwdDeliver i => exact rev_fwdDeliver hs
  case fwdExitCtx i => exact rev_fwdExitCtx hs
  case fwdExitClose i => exact rev_fwdExitClose hs
  case fwdCloseExit i => exact rev_fwdCloseExit hs
  case fwdRemove i => exact rev_fwdRemove hr hs
  all_goals exact rev_global rfl hs

/-! ### soundness of the work-list acceptor -/

theorem exec_reach {v hooked tr ls s} (h : Exec v hooked tr ls s) : Reach v s := by
  induction h with
  | init => exact Reach.init
  | tau _ _ hs ih => exact Reach.step _ ih hs
  | obs _ _ hs ih => exact Reach.step _ ih hs

theorem runLabels_append {v : Variant} : ∀ (ls : List Label) (s s' : State) (l : Label) (s'' : State),
    runLabels v s ls = some s' → step v s' l = some s'' → runLabels v s (ls ++ [l]) = some s''
  | [], s, s', l, s'', h, hs => by
    have h' : some s = some s' := h
    cases h'
    simp [runLabels, hs]
  | a :: ls, s, s', l, s'', h, hs => by
    simp only [runLabels, List.cons_append] at h ⊢
    split at h
    · next s1 h1 =>
      first
      | exact runLabels_append ls s1 s' l s'' h hs
      | (rw [h1]; exact runLabels_append ls s1 s' l s'' h hs)
    · simp at h

theorem exec_run {v hooked tr ls s} (h : Exec v hooked tr ls s) : runLabels v init ls = some s := by
  induction h with
  | init => rfl
  | tau _ _ hs ih => exact runLabels_append _ _ _ _ _ ih hs
  | obs _ _ hs ih => exact runLabels_append _ _ _ _ _ ih hs

@[simp] theorem norm_false (s : State) : norm false s = s := by simp [norm]

/-- What the acceptor maintains for every state `x` it keeps after the trace `tr`. -/
def Kept (v : Variant) (reduce hooked : Bool) (tr : List Obs) (x : State) : Prop :=
  ∃ ls s, Exec v hooked tr ls s ∧ norm reduce s = x

theorem kept_silent {v reduce hooked tr x l x'} (hx : Kept v reduce hooked tr x)
    (hsil : silent hooked l = true) (hst : step v x l = some x') :
    Kept v reduce hooked tr (norm reduce x') := by
  obtain ⟨ls, s, he, rfl⟩ := hx
  cases reduce with
  | false =>
    rw [norm_false] at hst
    exact ⟨ls ++ [l], x', Exec.tau he hsil hst, rfl⟩
  | true =>
    obtain ⟨l', s', h1, h2, h3, _⟩ := sim_step hooked (exec_reach he) hst
    exact ⟨ls ++ [l'], s', Exec.tau he (h3 hsil) h1, h2⟩

theorem kept_observed {v reduce hooked tr x l x' o} (hx : Kept v reduce hooked tr x)
    (hmem : l ∈ obsLabels x o) (hst : step v x l = some x') :
    Kept v reduce hooked (tr ++ [o]) (norm reduce x') := by
  obtain ⟨ls, s, he, rfl⟩ := hx
  cases reduce with
  | false =>
    rw [norm_false] at hst hmem
    exact ⟨ls ++ [l], x', Exec.obs he hmem hst, rfl⟩
  | true =>
    obtain ⟨l', s', h1, h2, _, h4⟩ := sim_step hooked (exec_reach he) hst
    exact ⟨ls ++ [l'], s', Exec.obs he (h4 o hmem) h1, h2⟩

/-- Settling only takes silent steps (and normalises): it stays within the kept states. -/
theorem kept_settle {v reduce hooked eager tr} : ∀ (fuel : Nat) (x : State),
    Kept v reduce hooked tr x → Kept v reduce hooked tr (settle v reduce hooked eager fuel x)
  | 0, x, hx => by simpa [settle] using hx
  | fuel + 1, x, hx => by
    simp only [settle]
    split
    · split
      · next l hl =>
        split
        · next s' hs' =>
          have hmem := List.mem_of_find?_eq_some hl
          simp only [List.mem_filter] at hmem
          exact kept_settle fuel _ (kept_silent hx hmem.2 hs')
        · exact hx
      · exact hx
    · exact hx

theorem kept_tau {v reduce hooked eager tr x y} (hx : Kept v reduce hooked tr x)
    (hy : y ∈ tauSuccs v reduce hooked eager x) : Kept v reduce hooked tr y := by
  simp only [tauSuccs, List.mem_filterMap, List.mem_filter] at hy
  obtain ⟨l, ⟨_, hsil⟩, hstep⟩ := hy
  cases hst : step v x l with
  | none => simp [hst] at hstep
  | some x' =>
    simp [hst] at hstep
    subst hstep
    exact kept_settle _ _ (kept_silent hx hsil hst)

theorem kept_obs {v reduce hooked eager tr x y o} (hx : Kept v reduce hooked tr x)
    (hy : y ∈ obsSuccs v reduce hooked eager x o) : Kept v reduce hooked (tr ++ [o]) y := by
  simp only [obsSuccs, List.mem_filterMap] at hy
  obtain ⟨l, hmem, hstep⟩ := hy
  cases hst : step v x l with
  | none => simp [hst] at hstep
  | some x' =>
    simp [hst] at hstep
    subst hstep
    exact kept_settle _ _ (kept_observed hx hmem hst)

/-- The pair (work list, accumulated set) only contains states satisfying `Q`. -/
def AllQ (Q : State → Prop) (p : List State × Acc) : Prop :=
  (∀ x, x ∈ p.1 → Q x) ∧ (∀ x, x ∈ p.2.list → Q x)

theorem addNew_allQ {Q : State → Prop} {p : List State × Acc} {y : State} (hp : AllQ Q p) (hy : Q y) :
    AllQ Q (addNew p y) := by
  unfold addNew
  split
  · exact hp
  · constructor
    · intro x hx
      simp only [List.mem_cons] at hx
      rcases hx with rfl | hx
      · exact hy
      · exact hp.1 x hx
    · intro x hx
      simp only [List.mem_cons] at hx
      rcases hx with rfl | hx
      · exact hy
      · exact hp.2 x hx

theorem foldl_addNew_allQ {Q : State → Prop} : ∀ (ys : List State) (p : List State × Acc),
    AllQ Q p → (∀ y, y ∈ ys → Q y) → AllQ Q (ys.foldl addNew p)
  | [], p, hp, _ => hp
  | y :: ys, p, hp, hys => by
    simp only [List.foldl_cons]
    exact foldl_addNew_allQ ys _ (addNew_allQ hp (hys y (by simp)))
      (fun z hz => hys z (by simp [hz]))

theorem closureAux_allQ {v reduce hooked eager cap} {Q : State → Prop}
    (hQ : ∀ x y, Q x → y ∈ tauSuccs v reduce hooked eager x → Q y) :
    ∀ (fuel : Nat) (todo : List State) (acc : Acc), AllQ Q (todo, acc) →
      ∀ x, x ∈ (closureAux v reduce hooked eager cap fuel todo acc).list → Q x
  | 0, _, acc, hp => by simpa [closureAux] using hp.2
  | fuel + 1, [], acc, hp => by simpa [closureAux] using hp.2
  | fuel + 1, s :: rest, acc, hp => by
    simp only [closureAux]
    split
    · exact hp.2
    · have hs : Q s := hp.1 s (by simp)
      have hp' : AllQ Q (rest, acc) := ⟨fun x hx => hp.1 x (by simp [hx]), hp.2⟩
      have := foldl_addNew_allQ (tauSuccs v reduce hooked eager s) (rest, acc) hp'
        (fun y hy => hQ s y hs hy)
      exact closureAux_allQ hQ fuel _ _ this

theorem closeSet_allQ {v reduce hooked eager cap} {Q : State → Prop}
    (hQ : ∀ x y, Q x → y ∈ tauSuccs v reduce hooked eager x → Q y) (xs : List State)
    (hxs : ∀ x, x ∈ xs → Q x) :
    ∀ x, x ∈ (closeSet v reduce hooked eager cap xs).list → Q x := by
  unfold closeSet
  exact closureAux_allQ hQ _ _ _
    (foldl_addNew_allQ xs ([], Acc.empty) ⟨by simp, by simp [Acc.empty]⟩ hxs)

theorem acceptStep_kept {v reduce hooked eager cap tr cur o}
    (hcur : ∀ x, x ∈ cur → Kept v reduce hooked tr x) :
    ∀ y, y ∈ (acceptStep v reduce hooked eager cap cur o).list → Kept v reduce hooked (tr ++ [o]) y := by
  unfold acceptStep
  apply closeSet_allQ (fun x y hx hy => kept_tau hx hy)
  intro y hy
  simp only [List.mem_flatMap] at hy
  obtain ⟨x, hx, hy⟩ := hy
  exact kept_obs (hcur x hx) hy

theorem startSet_kept {v reduce hooked eager cap} :
    ∀ x, x ∈ (startSet v reduce hooked eager cap).list → Kept v reduce hooked [] x := by
  unfold startSet
  apply closeSet_allQ (fun x y hx hy => kept_tau hx hy)
  intro x hx
  simp only [List.mem_singleton] at hx
  subst hx
  exact ⟨[], init, Exec.init, rfl⟩

theorem acceptRun_kept {v reduce hooked eager cap} : ∀ (tr pre : List Obs) (cur : List State),
    (∀ x, x ∈ cur → Kept v reduce hooked pre x) →
    ∀ y, y ∈ acceptRun v reduce hooked eager cap cur tr → Kept v reduce hooked (pre ++ tr) y
  | [], pre, cur, h => by simpa [acceptRun] using h
  | o :: tr, pre, cur, h => by
    intro y hy
    have := acceptRun_kept tr (pre ++ [o]) _ (acceptStep_kept (cap := cap) (o := o) h) y
      (by simpa [acceptRun] using hy)
    simpa using this

end Kit.Broadcaster
