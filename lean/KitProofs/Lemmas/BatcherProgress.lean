import KitProofs.Lemmas.Batcher
/-!
Progress paths of the repaired batcher (property C10, `departure_never_wedges`): the fan-out of
`execute` completes, lifted processor paths, `Close` completes — by internal steps and deliveries to
readers that still read, provided every reader that has stopped reading belongs to a subscriber
whose context has ended.
-/
namespace Kit.Batcher
open Kit.Queue Kit.Processor

/-- Labels allowed on a progress path: internal steps, and deliveries to readers outside `stalled`
(the readers that never read again). -/
def Allowed (stalled : Nat → Prop) (a : Label) : Prop :=
  a.isInternal = true ∨ ∃ i, a = .fwdDeliver i ∧ ¬ stalled i

/-- Every reader that has stopped reading belongs to a subscriber whose context has ended. -/
def Departed (stalled : Nat → Prop) (s : State) : Prop :=
  ∀ i u, s.subs[i]? = some u → stalled i → u.ctxDone = true

/-- The `Close` counters. -/
def Cnt (s : State) : Nat × Nat × Nat × Nat := (s.cq, s.cl, s.cw, s.cr)

/-- Nothing but subscriber-local data (and `epc`, ghosts) changed. -/
def Same (s s' : State) : Prop :=
  s'.p = s.p ∧ Cnt s' = Cnt s ∧ s'.closed = s.closed ∧ s'.waitS = s.waitS ∧
  s'.subs.map (·.ctxDone) = s.subs.map (·.ctxDone)

theorem Same.refl (s : State) : Same s s := ⟨rfl, rfl, rfl, rfl, rfl⟩

theorem Same.trans {a b c : State} (h1 : Same a b) (h2 : Same b c) : Same a c :=
  ⟨h2.1.trans h1.1, h2.2.1.trans h1.2.1, h2.2.2.1.trans h1.2.2.1, h2.2.2.2.1.trans h1.2.2.2.1,
   h2.2.2.2.2.trans h1.2.2.2.2⟩

theorem Same.length {a b : State} (h : Same a b) : b.subs.length = a.subs.length := by
  have := congrArg List.length h.2.2.2.2
  simpa using this

theorem Same.departed {stalled : Nat → Prop} {a b : State} (h : Same a b) (hd : Departed stalled a) :
    Departed stalled b := by
  intro i u hi hs
  have hlen := h.length
  have hlt := lt_of_getElem? hi
  have hm : (b.subs.map (·.ctxDone))[i]? = (a.subs.map (·.ctxDone))[i]? := by rw [h.2.2.2.2]
  simp only [List.getElem?_map, hi, Option.map_some] at hm
  cases ha : a.subs[i]? with
  | none => simp [ha] at hm
  | some ua =>
    simp only [ha, Option.map_some, Option.some.injEq] at hm
    rw [hm]; exact hd i ua ha hs

theorem set_self {l : List Sub} {i : Nat} {u : Sub} (h : l[i]? = some u) : l.set i u = l := by
  obtain ⟨hlt, he⟩ := List.getElem?_eq_some_iff.mp h
  subst he
  exact List.set_getElem_self hlt

theorem setSub_self {s : State} {i : Nat} {u : Sub} (h : s.subs[i]? = some u) : setSub s i u = s := by
  simp [setSub, set_self h]

theorem setSub_setSub (s : State) (i : Nat) (a b : Sub) : setSub (setSub s i a) i b = setSub s i b := by
  simp [setSub, List.set_set]

theorem get_setSub {s : State} {i : Nat} {u a : Sub} (h : s.subs[i]? = some u) :
    (setSub s i a).subs[i]? = some a := by
  have := lt_of_getElem? h
  simp [setSub, List.getElem?_set, this]

theorem same_setSub {s : State} {i : Nat} {u a : Sub} (h : s.subs[i]? = some u) (hc : a.ctxDone = u.ctxDone) :
    Same s (setSub s i a) := by
  refine ⟨rfl, rfl, rfl, rfl, ?_⟩
  simp only [setSub, List.map_set, hc]
  apply List.ext_getElem?
  intro j
  rw [List.getElem?_set]
  split
  · subst_vars
    obtain ⟨hlt, he⟩ := List.getElem?_eq_some_iff.mp h
    simp [hlt, he]
  · rfl

variable {cfg : Cfg} {stalled : Nat → Prop}

abbrev St (cfg : Cfg) (stalled : Nat → Prop) := Steps (lts cfg) (Allowed stalled)

theorem st_one {s s' : State} {a : Label} (ha : Allowed stalled a) (h : step cfg s a = some s') :
    St cfg stalled s s' := Steps.single a ha h

theorem allowed_int {a : Label} (h : a.isInternal = true) : Allowed stalled a := Or.inl h

/-! ### single forwarder steps -/

section fwd
variable {s : State} {i : Nat} {u : Sub}

theorem do_dropCtx {x : It} (hi : s.subs[i]? = some u) (hpc : u.pc = .holding x) (hc : u.ctxDone = true) :
    step cfg s (.fwdDropCtx i) = some (setSub s i { u with pc := .idle, missed := true }) := by
  simp [step, fwdDropCtx, hi, hpc, hc]

theorem do_dropClose {x : It} (hi : s.subs[i]? = some u) (hpc : u.pc = .holding x) (hc : s.closed = true) :
    step cfg s (.fwdDropClose i) = some (setSub s i { u with pc := .idle, missed := true }) := by
  simp [step, fwdDropClose, hi, hpc, hc]

theorem do_exitCtx (hi : s.subs[i]? = some u) (hpc : u.pc = .idle) (hc : u.ctxDone = true) :
    step cfg s (.fwdExitCtx i) = some (setSub s i { u with pc := .exiting }) := by
  simp [step, fwdExitCtx, hi, hpc, hc]

theorem do_exitClose (hi : s.subs[i]? = some u) (hpc : u.pc = .idle) (hc : s.closed = true) :
    step cfg s (.fwdExitClose i) = some (setSub s i { u with pc := .exiting }) := by
  simp [step, fwdExitClose, hi, hpc, hc]

theorem do_closeExit (hi : s.subs[i]? = some u) (hpc : u.pc = .exiting) :
    step cfg s (.fwdCloseExit i) = some (setSub s i { u with pc := .wantLock, exitClosed := cfg.fixed }) := by
  simp [step, fwdCloseExit, hi, hpc]

theorem do_remove (hi : s.subs[i]? = some u) (hpc : u.pc = .wantLock) (hl : lockFree s = true) :
    step cfg s (.fwdRemove i) = some (setSub s i { u with pc := .done }) := by
  simp [step, fwdRemove, hi, hpc, hl]

theorem do_take {x : It} {rest : List It} (hi : s.subs[i]? = some u) (hpc : u.pc = .idle) (hb : u.buf = x :: rest) :
    step cfg s (.fwdTake i) = some (setSub s i { u with pc := .holding x, buf := rest }) := by
  simp [step, fwdTake, hi, hpc, hb]

theorem do_deliver {x : It} (hi : s.subs[i]? = some u) (hpc : u.pc = .holding x) :
    step cfg s (.fwdDeliver i) = some (setSub s i { u with pc := .idle, delivered := u.delivered ++ [x] }) := by
  simp [step, fwdDeliver, hi, hpc]

end fwd

/-- A forwarder whose context has ended (or after Close) reaches the point where it waits for the lock. -/
theorem fwd_leave {s : State} {i : Nat} {u : Sub} (hi : s.subs[i]? = some u) (hnd : u.pc ≠ .done)
    (hc : u.ctxDone = true ∨ s.closed = true) (hw : u.pc = .wantLock → u.exitClosed = cfg.fixed) :
    ∃ u', St cfg stalled s (setSub s i u') ∧ u'.pc = .wantLock ∧ u'.exitClosed = cfg.fixed ∧
      u'.ctxDone = u.ctxDone ∧ u'.buf = u.buf := by
  -- from `exiting`
  have hE : ∀ v : Sub, v.pc = .exiting → v.ctxDone = u.ctxDone → v.buf = u.buf → ∀ t : State, t.subs[i]? = some v →
      ∃ u', St cfg stalled t (setSub t i u') ∧ u'.pc = .wantLock ∧ u'.exitClosed = cfg.fixed ∧
        u'.ctxDone = u.ctxDone ∧ u'.buf = u.buf := by
    intro v hv hcv hbv t ht
    exact ⟨_, st_one (allowed_int rfl) (do_closeExit ht hv), rfl, rfl, hcv, hbv⟩
  -- from `idle`
  have hI : ∀ v : Sub, v.pc = .idle → v.ctxDone = u.ctxDone → v.buf = u.buf → ∀ t : State, t.subs[i]? = some v →
      t.closed = s.closed →
      ∃ u', St cfg stalled t (setSub t i u') ∧ u'.pc = .wantLock ∧ u'.exitClosed = cfg.fixed ∧
        u'.ctxDone = u.ctxDone ∧ u'.buf = u.buf := by
    intro v hv hcv hbv t ht htc
    have h1 : ∃ t1, St cfg stalled t t1 ∧ t1 = setSub t i { v with pc := .exiting } := by
      rcases hc with hc | hc
      · exact ⟨_, st_one (allowed_int rfl) (do_exitCtx ht hv (hcv ▸ hc)), rfl⟩
      · exact ⟨_, st_one (allowed_int rfl) (do_exitClose ht hv (htc ▸ hc)), rfl⟩
    obtain ⟨t1, hs1, rfl⟩ := h1
    obtain ⟨u', hs2, h⟩ := hE { v with pc := .exiting } rfl hcv hbv _ (get_setSub ht)
    rw [setSub_setSub] at hs2
    exact ⟨u', hs1.trans hs2, h⟩
  cases hpc : u.pc with
  | done => exact absurd hpc hnd
  | wantLock => exact ⟨u, by rw [setSub_self hi]; exact Steps.refl _, hpc, hw hpc, rfl, rfl⟩
  | exiting => exact hE u hpc rfl rfl s hi
  | idle => exact hI u hpc rfl rfl s hi rfl
  | holding x =>
    have h1 : ∃ t1, St cfg stalled s t1 ∧ t1 = setSub s i { u with pc := .idle, missed := true } := by
      rcases hc with hc | hc
      · exact ⟨_, st_one (allowed_int rfl) (do_dropCtx hi hpc hc), rfl⟩
      · exact ⟨_, st_one (allowed_int rfl) (do_dropClose hi hpc hc), rfl⟩
    obtain ⟨t1, hs1, rfl⟩ := h1
    obtain ⟨u', hs2, h⟩ := hI { u with pc := .idle, missed := true } rfl rfl rfl _ (get_setSub hi) rfl
    rw [setSub_setSub] at hs2
    exact ⟨u', hs1.trans hs2, h⟩

/-! ### buffers never exceed their capacity -/

def InvCap (cfg : Cfg) (s : State) : Prop := ∀ u ∈ s.subs, u.buf.length ≤ cfg.cap

theorem invCap_step {s s' : State} {a : Label} (h : InvCap cfg s) (hst : step cfg s a = some s') :
    InvCap cfg s' := by
  unfold InvCap at *
  cases a
  case proc l =>
    obtain ⟨_, hs, _⟩ := procStep_p (by simpa [step] using hst)
    rw [hs]; exact h
  case closeCall =>
    rcases closeCall_cases (by simpa [step] using hst) with ⟨p', hp, _, rfl⟩ | ⟨_, rfl⟩ <;> exact h
  case subAcquire =>
    bstep hst
    · exact h
    · intro u hu
      rcases List.mem_append.mp hu with hu | hu
      · exact h u hu
      · simp only [List.mem_singleton] at hu; subst hu; simp [Sub.new]
  case subAcquireDone =>
    bstep hst
    · exact h
    · intro u hu
      rcases List.mem_append.mp hu with hu | hu
      · exact h u hu
      · simp only [List.mem_singleton] at hu; subst hu; simp [Sub.new]
  all_goals (bstep hst <;> (first | exact h | (refine inv_set ‹_› h ?_; simp_all; try omega)))

theorem invCap {s : State} (hr : Reach (lts cfg) s) : InvCap cfg s := by
  induction hr with
  | init => simp [InvCap, lts, init]
  | step a _ hst ih => exact invCap_step ih hst

/-! ### steps of `execute` -/

section exec
variable {s : State} {i : Nat} {u : Sub} {r : It}

theorem do_send (he : s.epc = .sending r i) (hi : s.subs[i]? = some u) (hin : u.pc ≠ .done)
    (hroom : u.buf.length < cfg.cap) :
    step cfg s .send = some { s with subs := s.subs.set i { u with buf := u.buf ++ [r] }, epc := .sending r (i + 1) } := by
  simp [step, send, he, hi, Sub.inList, hin, hroom]

theorem do_skipExit (he : s.epc = .sending r i) (hi : s.subs[i]? = some u) (hin : u.pc ≠ .done)
    (hx : u.exitClosed = true) :
    step cfg s .skipExit = some { s with subs := s.subs.set i { u with missed := true }, epc := .sending r (i + 1) } := by
  simp [step, skipExit, he, hi, Sub.inList, hin, hx]

theorem do_skipClose (he : s.epc = .sending r i) (hi : s.subs[i]? = some u) (hin : u.pc ≠ .done)
    (hx : s.closed = true) :
    step cfg s .skipClose = some { s with subs := s.subs.set i { u with missed := true }, epc := .sending r (i + 1) } := by
  simp [step, skipClose, he, hi, Sub.inList, hin, hx]

theorem do_skipGone (he : s.epc = .sending r i) (hi : s.subs[i]? = some u) (hin : u.pc = .done) :
    step cfg s .skipGone = some { s with subs := s.subs.set i { u with missed := true }, epc := .sending r (i + 1) } := by
  simp [step, skipGone, he, hi, Sub.inList, hin]

end exec

/-- `Same` for a step of `execute` on subscriber `i`. -/
theorem same_exec {s : State} {i : Nat} {u a : Sub} {e : EPc} (h : s.subs[i]? = some u) (hc : a.ctxDone = u.ctxDone) :
    Same s { s with subs := s.subs.set i a, epc := e } := by
  have := same_setSub (a := a) h hc
  exact ⟨rfl, rfl, rfl, rfl, this.2.2.2.2⟩

/-- Only subscriber `i` changed. -/
def Others (i : Nat) (s s' : State) : Prop := ∀ j, j ≠ i → s'.subs[j]? = s.subs[j]?

theorem others_exec {s : State} {i : Nat} {a : Sub} {e : EPc} :
    Others i s { s with subs := s.subs.set i a, epc := e } := by
  intro j hj
  simp only [List.getElem?_set]
  split
  · omega
  · rfl

theorem others_exec2 {s : State} {i : Nat} {a b : Sub} {e : EPc} :
    Others i s { setSub s i a with subs := (setSub s i a).subs.set i b, epc := e } := by
  intro j hj
  simp only [setSub, List.getElem?_set]
  split
  · omega
  · rfl

/-- The fan-out gets past subscriber `i`: it has room, or it has left (exit channel closed — after
letting its forwarder reach that point), or the batcher is closed, or its reader still reads (the
forwarder hands over its value and takes the next one, which frees a slot). -/
theorem pass_one (hfix : cfg.fixed = true) (hcap : 0 < cfg.cap) {s : State} (hr : Reach (lts cfg) s) {r : It} {i : Nat}
    {u : Sub} (he : s.epc = .sending r i) (hi : s.subs[i]? = some u)
    (hd : stalled i → u.ctxDone = true ∨ u.buf.length < cfg.cap) :
    ∃ s', St cfg stalled s s' ∧ s'.epc = .sending r (i + 1) ∧ Same s s' ∧ Others i s s' := by
  have hS := invSub hr u (List.mem_of_getElem? hi)
  have hK := invCap hr u (List.mem_of_getElem? hi)
  by_cases hdone : u.pc = .done
  · exact ⟨_, st_one (allowed_int rfl) (do_skipGone he hi hdone), rfl, same_exec hi rfl, others_exec⟩
  by_cases hcl : s.closed = true
  · exact ⟨_, st_one (allowed_int rfl) (do_skipClose he hi hdone hcl), rfl, same_exec hi rfl, others_exec⟩
  by_cases hroom : u.buf.length < cfg.cap
  · exact ⟨_, st_one (allowed_int rfl) (do_send he hi hdone hroom), rfl, same_exec hi rfl, others_exec⟩
  by_cases hctx : u.ctxDone = true
  · -- the subscriber has left: let its forwarder close the exit channel, then skip it
    obtain ⟨u', hs1, hpc', hx', hc', _⟩ := fwd_leave (cfg := cfg) (stalled := stalled) hi hdone (Or.inl hctx)
      (fun hw => by rw [hfix]; exact hS.2.2.2 hfix hw)
    have hi' : (setSub s i u').subs[i]? = some u' := get_setSub hi
    have he' : (setSub s i u').epc = .sending r i := he
    have h2 := do_skipExit (cfg := cfg) he' hi' (by simp [hpc']) (by rw [hx', hfix])
    refine ⟨_, hs1.trans (st_one (allowed_int rfl) h2), rfl, ?_, others_exec2⟩
    exact (same_setSub hi hc').trans (same_exec hi' rfl)
  · -- a live subscriber with a full buffer whose reader still reads
    have hns : ¬ stalled i := fun h => by
      rcases hd h with h1 | h1
      · exact hctx h1
      · exact hroom h1
    have hlive : u.pc = .idle ∨ ∃ x, u.pc = .holding x := by
      cases hpc : u.pc with
      | idle => exact Or.inl rfl
      | holding x => exact Or.inr ⟨x, rfl⟩
      | done => exact absurd hpc hdone
      | exiting => have := hS.1 (Or.inl hpc); simp_all
      | wantLock => have := hS.1 (Or.inr (Or.inl hpc)); simp_all
    -- get the forwarder to `idle`
    have h1 : ∃ v, St cfg stalled s (setSub s i v) ∧ v.pc = .idle ∧ v.buf = u.buf ∧ v.ctxDone = u.ctxDone := by
      rcases hlive with hpc | ⟨x, hpc⟩
      · exact ⟨u, by rw [setSub_self hi]; exact Steps.refl _, hpc, rfl, rfl⟩
      · exact ⟨_, st_one (Or.inr ⟨i, rfl, hns⟩) (do_deliver hi hpc), rfl, rfl, rfl⟩
    obtain ⟨v, hs1, hvpc, hvb, hvc⟩ := h1
    have hiv : (setSub s i v).subs[i]? = some v := get_setSub hi
    -- take the oldest buffered value: one slot is free
    have hne : v.buf ≠ [] := by
      intro h; rw [hvb] at h; rw [h] at hroom; simp at hroom; omega
    obtain ⟨x, rest, hxr⟩ := List.exists_cons_of_ne_nil hne
    have h2 := do_take (cfg := cfg) hiv hvpc hxr
    rw [setSub_setSub] at h2
    let w : Sub := { v with pc := .holding x, buf := rest }
    have hiw : (setSub s i w).subs[i]? = some w := get_setSub hi
    have hew : (setSub s i w).epc = .sending r i := he
    have hlen : rest.length < cfg.cap := by
      have : u.buf.length = rest.length + 1 := by rw [← hvb, hxr]; simp
      omega
    have h3 := do_send (cfg := cfg) hew hiw (by simp [w]) hlen
    refine ⟨_, (hs1.trans (st_one (allowed_int rfl) h2)).trans (st_one (allowed_int rfl) h3), rfl, ?_, others_exec2⟩
    exact (same_setSub (a := w) hi hvc).trans (same_exec hiw rfl)

/-- Subscriber `j` cannot block the fan-out for ever: its reader still reads, or its context has
ended, or its buffer has room for one more value. -/
def PassableFrom (stalled : Nat → Prop) (cap i : Nat) (s : State) : Prop :=
  ∀ j u, i ≤ j → s.subs[j]? = some u → stalled j → u.ctxDone = true ∨ u.buf.length < cap

/-- The fan-out completes. -/
theorem fanoutG (hfix : cfg.fixed = true) (hcap : 0 < cfg.cap) :
    ∀ (k : Nat) {s : State} {r : It} {i : Nat}, Reach (lts cfg) s → s.epc = .sending r i → s.subs.length - i = k →
      PassableFrom stalled cfg.cap i s →
      ∃ s' j, St cfg stalled s s' ∧ s'.epc = .sending r j ∧ s'.subs.length ≤ j ∧ Same s s' := by
  intro k
  induction k with
  | zero =>
    intro s r i _ he hk _
    exact ⟨s, i, Steps.refl _, he, by omega, Same.refl s⟩
  | succ k ih =>
    intro s r i hr he hk hd
    have hlt : i < s.subs.length := by omega
    have hi : s.subs[i]? = some s.subs[i] := List.getElem?_eq_getElem hlt
    obtain ⟨s1, hs1, he1, hsame1, hoth⟩ := pass_one hfix hcap hr he hi (hd i _ (Nat.le_refl _) hi)
    have hlen := hsame1.length
    have hd1 : PassableFrom stalled cfg.cap (i + 1) s1 := by
      intro j u hj hu hs
      have : s1.subs[j]? = s.subs[j]? := hoth j (by omega)
      exact hd j u (by omega) (this ▸ hu) hs
    obtain ⟨s', j, hs2, he2, hj, hsame2⟩ := ih (hs1.reach hr) he1 (by omega) hd1
    exact ⟨s', j, hs1.trans hs2, he2, hj, hsame1.trans hsame2⟩

theorem fanout (hfix : cfg.fixed = true) (hcap : 0 < cfg.cap)
    (k : Nat) {s : State} {r : It} {i : Nat} (hr : Reach (lts cfg) s) (he : s.epc = .sending r i)
    (hk : s.subs.length - i = k) (hd : Departed stalled s) :
    ∃ s' j, St cfg stalled s s' ∧ s'.epc = .sending r j ∧ s'.subs.length ≤ j ∧ Same s s' :=
  fanoutG hfix hcap k hr he hk (fun j u _ hu hs => Or.inl (hd j u hu hs))

/-- **`execute` completes** when every subscriber is passable for one more value: its reader reads,
or its context has ended (whatever its buffer holds), or its buffer has room. -/
theorem execute_completes_room (hfix : cfg.fixed = true) (hcap : 0 < cfg.cap) {s : State} (hr : Reach (lts cfg) s)
    {r : It} (hpc : s.p.pc = .running r) (hd : PassableFrom stalled cfg.cap 0 s) :
    ∃ s', St cfg stalled s s' ∧ s'.p = { s.p with pc := .top } ∧ s'.epc = .idle ∧ Cnt s' = Cnt s ∧
      s'.closed = s.closed ∧ s'.waitS = s.waitS := by
  have hC := invCtl hr
  have h1 : ∃ s1 i, St cfg stalled s s1 ∧ s1.epc = .sending r i ∧ Same s s1 ∧ s1.subs = s.subs := by
    cases he : s.epc with
    | idle => exact absurd hpc (hC.1 he r)
    | waiting r' =>
      have : r' = r := by have := hC.2.1 r' he; rw [hpc] at this; cases this; rfl
      subst this
      by_cases hcl : s.closed = true
      · have h : step cfg s .execLock = some { s with epc := .sending r' s.subs.length } := by
          simp [step, execLock, he, hcl]
        exact ⟨_, _, st_one (allowed_int rfl) h, rfl, ⟨rfl, rfl, rfl, rfl, rfl⟩, rfl⟩
      · have h : step cfg s .execLock = some { s with epc := .sending r' 0, out := s.out ++ [r'] } := by
          simp [step, execLock, he, hcl]
        exact ⟨_, _, st_one (allowed_int rfl) h, rfl, ⟨rfl, rfl, rfl, rfl, rfl⟩, rfl⟩
    | sending r' i =>
      have : r' = r := by have := hC.2.2.1 r' i he; rw [hpc] at this; cases this; rfl
      subst this
      exact ⟨s, i, Steps.refl _, he, Same.refl s, rfl⟩
  obtain ⟨s1, i, hs1, he1, hsame1, hsubs1⟩ := h1
  have hd1 : PassableFrom stalled cfg.cap i s1 := by
    intro j u _ hu hs
    exact hd j u (Nat.zero_le _) (hsubs1 ▸ hu) hs
  obtain ⟨s2, j, hs2, he2, hj, hsame2⟩ := fanoutG hfix hcap _ (hs1.reach hr) he1 rfl hd1
  have hsame := hsame1.trans hsame2
  have hp2 : s2.p.pc = .running r := by rw [hsame.1]; exact hpc
  have h3 : step cfg s2 (.proc .cbReturn) = some { s2 with p := { s2.p with pc := .top }, epc := .idle } := by
    simp [step, procStep, he2, hj, Processor.step, hp2]
  exact ⟨_, (hs1.trans hs2).trans (st_one (allowed_int rfl) h3), by simp [hsame.1], rfl, hsame.2.1, hsame.2.2.1,
    hsame.2.2.2.1⟩

/-- **`execute` completes**: from any reachable state in which the callback is running (waiting for
the lock or anywhere in the fan-out), the callback returns and the loop is back at its top. -/
theorem execute_completes (hfix : cfg.fixed = true) (hcap : 0 < cfg.cap) {s : State} (hr : Reach (lts cfg) s)
    {r : It} (hpc : s.p.pc = .running r) (hd : Departed stalled s) :
    ∃ s', St cfg stalled s s' ∧ s'.p = { s.p with pc := .top } ∧ s'.epc = .idle ∧ Cnt s' = Cnt s ∧
      s'.closed = s.closed ∧ s'.waitS = s.waitS ∧ Departed stalled s' ∧ s'.subs.length = s.subs.length := by
  have hC := invCtl hr
  -- reach `sending`
  have h1 : ∃ s1 i, St cfg stalled s s1 ∧ s1.epc = .sending r i ∧ Same s s1 := by
    cases he : s.epc with
    | idle => exact absurd hpc (hC.1 he r)
    | waiting r' =>
      have : r' = r := by have := hC.2.1 r' he; rw [hpc] at this; cases this; rfl
      subst this
      by_cases hcl : s.closed = true
      · have h : step cfg s .execLock = some { s with epc := .sending r' s.subs.length } := by
          simp [step, execLock, he, hcl]
        exact ⟨_, _, st_one (allowed_int rfl) h, rfl, ⟨rfl, rfl, rfl, rfl, rfl⟩⟩
      · have h : step cfg s .execLock = some { s with epc := .sending r' 0, out := s.out ++ [r'] } := by
          simp [step, execLock, he, hcl]
        exact ⟨_, _, st_one (allowed_int rfl) h, rfl, ⟨rfl, rfl, rfl, rfl, rfl⟩⟩
    | sending r' i =>
      have : r' = r := by have := hC.2.2.1 r' i he; rw [hpc] at this; cases this; rfl
      subst this
      exact ⟨s, i, Steps.refl _, he, Same.refl s⟩
  obtain ⟨s1, i, hs1, he1, hsame1⟩ := h1
  obtain ⟨s2, j, hs2, he2, hj, hsame2⟩ := fanout hfix hcap _ (hs1.reach hr) he1 rfl (hsame1.departed hd)
  have hsame := hsame1.trans hsame2
  have hp2 : s2.p.pc = .running r := by rw [hsame.1]; exact hpc
  have h3 : step cfg s2 (.proc .cbReturn) = some { s2 with p := { s2.p with pc := .top }, epc := .idle } := by
    simp [step, procStep, he2, hj, Processor.step, hp2]
  refine ⟨_, (hs1.trans hs2).trans (st_one (allowed_int rfl) h3), by simp [hsame.1], rfl, hsame.2.1, hsame.2.2.1,
    hsame.2.2.2.1, ?_, hsame.length⟩
  exact (hsame.departed hd)

/-! ### lifting paths of the processor LTS -/

theorem proc_internal {l : PLabel} (h : l.isInternal = true) : (Label.proc l).isInternal = true := by
  cases l <;> simp_all [Label.isInternal, Processor.Label.isInternal, Processor.Label.isLoop]

/-- Every path of internal processor steps lifts to the batcher: the steps are the batcher's own
`.proc` steps, and where the processor path says "the callback returns" the batcher first completes
its fan-out.  (The return of `queue.Close()` to the call that won the CAS moves that call on to the
batcher's lock: `cl` may grow.) -/
theorem lift (hfix : cfg.fixed = true) (hcap : 0 < cfg.cap) {p p' : PState}
    (hp : Steps (Processor.lts pcfg) (fun l => l.isInternal = true) p p') :
    ∀ {s : State}, Reach (lts cfg) s → s.p = p → Departed stalled s →
      ∃ s', St cfg stalled s s' ∧ s'.p = p' ∧ s'.cq = s.cq ∧ s.cl ≤ s'.cl ∧ s'.cw = s.cw ∧ s'.cr = s.cr ∧
        s'.closed = s.closed ∧ s'.waitS = s.waitS ∧ Departed stalled s' := by
  induction hp with
  | refl p => intro s _ hs hd; exact ⟨s, Steps.refl _, hs, rfl, Nat.le_refl _, rfl, rfl, rfl, rfl, hd⟩
  | @cons p p1 p2 l hl hst _ ih =>
    intro s hr hs hd
    subst hs
    have hst' : Processor.step pcfg s.p l = some p1 := hst
    -- one lifted step
    have h1 : ∃ s1, St cfg stalled s s1 ∧ s1.p = p1 ∧ s1.cq = s.cq ∧ s.cl ≤ s1.cl ∧ s1.cw = s.cw ∧ s1.cr = s.cr ∧
        s1.closed = s.closed ∧ s1.waitS = s.waitS ∧ Departed stalled s1 := by
      by_cases hcb : l = .cbReturn
      · subst hcb
        have hrun : ∃ r, s.p.pc = .running r := by
          simp only [Processor.step] at hst'
          split at hst' <;> simp_all
        obtain ⟨r, hrun⟩ := hrun
        obtain ⟨s1, hs1, hp1, _, hb, hc, hw, hd1, _⟩ := execute_completes hfix hcap hr hrun hd
        simp only [Cnt, Prod.mk.injEq] at hb
        refine ⟨s1, hs1, ?_, hb.1, by omega, hb.2.2.1, hb.2.2.2, hc, hw, hd1⟩
        rw [hp1]
        simp [Processor.step, hrun] at hst'
        exact hst'
      · by_cases hcs : l = .cbStart
        · subst hcs
          have hpop : ∃ r, s.p.pc = .popped r := by
            simp only [Processor.step] at hst'
            split at hst' <;> simp_all
          obtain ⟨r, hpop⟩ := hpop
          refine ⟨{ s with p := p1, epc := .waiting r }, st_one (a := .proc .cbStart) (allowed_int rfl) ?_, rfl, rfl,
            Nat.le_refl _, rfl, rfl, rfl, rfl, hd⟩
          simp [step, procStep, hpop, hst']
        · by_cases hcr : l = .closeReturn
          · subst hcr
            refine ⟨{ s with p := p1, cl := s.cl + 1 }, st_one (a := .proc .closeReturn) (allowed_int rfl) ?_, rfl, rfl,
              Nat.le_succ _, rfl, rfl, rfl, rfl, hd⟩
            simp [step, procStep, hst']
          · refine ⟨{ s with p := p1 }, st_one (a := .proc l) (allowed_int ?_) ?_, rfl, rfl, Nat.le_refl _, rfl, rfl, rfl, rfl, hd⟩
            · cases l <;> simp_all [Label.isInternal, Processor.Label.isInternal, Processor.Label.isLoop]
            · cases l <;> simp_all [step, procStep, Processor.Label.isInternal, Processor.Label.isLoop]
    obtain ⟨s1, hs1, hp1, hq1, hl1, hw1, hr1, hc1, hws1, hd1⟩ := h1
    obtain ⟨s', hs2, hp', hq2, hl2, hw2, hr2, hc2, hws2, hd2⟩ := ih (hs1.reach hr) hp1 hd1
    exact ⟨s', hs1.trans hs2, hp', hq2.trans hq1, Nat.le_trans hl1 hl2, hw2.trans hw1, hr2.trans hr1, hc2.trans hc1,
      hws2.trans hws1, hd2⟩

theorem Steps.mono {σ α : Type} {M : LTS σ α} {p q : α → Prop} (h : ∀ a, p a → q a) {s s' : σ}
    (hs : Steps M p s s') : Steps M q s s' := by
  induction hs with
  | refl => exact Steps.refl _
  | cons a hp hst _ ih => exact Steps.cons a (h a hp) hst ih

/-! ### `queue.Close()` completes (processor level) -/

abbrev PInt (l : PLabel) : Prop := l.isInternal = true
abbrev PSt := Steps (Processor.lts pcfg) PInt

theorem pst_one {p p' : PState} {l : PLabel} (h : Processor.step pcfg p l = some p') (hl : l.isInternal = true := by rfl) :
    PSt p p' := Steps.single l hl h

/-- Once `stopCh` is closed the loop goroutine ends: from every program counter there is a path of
its own steps to `absent` (the callback, if one is running, is assumed to return — in the batcher
that is `execute_completes`), with `Close`'s own state untouched. -/
theorem loop_exits {p : PState} (hstop : p.stopClosed = true) (hroot : ∀ h, p.root = some h → IsMin p.q h) :
    ∃ p', PSt p p' ∧ p'.pc = .absent ∧ p'.cpc = p.cpc ∧ p'.stopClosed = true := by
  -- exiting
  have hX : ∀ q : PState, q.pc = .exiting → q.stopClosed = true →
      ∃ p', PSt q p' ∧ p'.pc = .absent ∧ p'.token = .free ∧ p'.cpc = q.cpc ∧ p'.stopClosed = true := by
    intro q hq hs
    exact ⟨{ q with token := .free, pc := .absent }, pst_one (l := .release) (by simp [Processor.step, hq]), rfl, rfl, rfl, hs⟩
  -- peeked
  have hP : ∀ (q : PState) r, q.pc = .peeked r → q.stopClosed = true →
      ∃ p', PSt q p' ∧ p'.pc = .absent ∧ p'.token = .free ∧ p'.cpc = q.cpc ∧ p'.stopClosed = true := by
    intro q r hq hs
    obtain ⟨p', h1, h2⟩ := hX { q with pc := .exiting } rfl hs
    exact ⟨p', (pst_one (l := .pollStop) (by simp [Processor.step, hq, hs])).trans h1, h2⟩
  -- top: look at the remembered root if there is one, else at any minimal item
  have hT : ∀ q : PState, q.pc = .top → q.stopClosed = true → (∀ h, q.root = some h → IsMin q.q h) →
      ∃ p', PSt q p' ∧ p'.pc = .absent ∧ p'.token = .free ∧ p'.cpc = q.cpc ∧ p'.stopClosed = true := by
    intro q hq hs hro
    cases hr : q.root with
    | some h =>
      have hm := hro h hr
      obtain ⟨p', h1, h2⟩ := hP { q with pc := .peeked h, root := some h } h rfl hs
      exact ⟨p', (pst_one (l := .peek (some h)) (by simp [Processor.step, hq, IsHead, hm, hr])).trans h1, h2⟩
    | none =>
      by_cases hem : q.q = []
      · exact ⟨{ q with token := .free, pc := .absent }, pst_one (l := .peek none) (by simp [Processor.step, hq, IsHead, hem, hr]),
          rfl, rfl, rfl, hs⟩
      · obtain ⟨m, hm⟩ := exists_min q.q hem
        obtain ⟨p', h1, h2⟩ := hP { q with pc := .peeked m, root := some m } m rfl hs
        exact ⟨p', (pst_one (l := .peek (some m)) (by simp [Processor.step, hq, IsHead, hm, hr])).trans h1, h2⟩
  -- running
  have hR : ∀ (q : PState) r, q.pc = .running r → q.stopClosed = true → (∀ h, q.root = some h → IsMin q.q h) →
      ∃ p', PSt q p' ∧ p'.pc = .absent ∧ p'.token = .free ∧ p'.cpc = q.cpc ∧ p'.stopClosed = true := by
    intro q r hq hs hro
    obtain ⟨p', h1, h2⟩ := hT { q with pc := .top } rfl hs hro
    exact ⟨p', (pst_one (l := .cbReturn) (by simp [Processor.step, hq])).trans h1, h2⟩
  -- popped
  have hO : ∀ (q : PState) r, q.pc = .popped r → q.stopClosed = true → (∀ h, q.root = some h → IsMin q.q h) →
      ∃ p', PSt q p' ∧ p'.pc = .absent ∧ p'.token = .free ∧ p'.cpc = q.cpc ∧ p'.stopClosed = true := by
    intro q r hq hs hro
    obtain ⟨p', h1, h2⟩ := hR { q with pc := .running r, log := .exec r q.now :: q.log } r rfl hs hro
    exact ⟨p', (pst_one (l := .cbStart) (by simp [Processor.step, hq])).trans h1, h2⟩
  -- firing
  have hF : ∀ (q : PState) r, q.pc = .firing r → q.stopClosed = true → (∀ h, q.root = some h → IsMin q.q h) →
      ∃ p', PSt q p' ∧ p'.pc = .absent ∧ p'.token = .free ∧ p'.cpc = q.cpc ∧ p'.stopClosed = true := by
    intro q r hq hs hro
    -- the head `execute` will see: the remembered root, else nothing / any minimal item
    have hhd : ∃ hd : Option (Item Nat Nat), IsHead q.q hd ∧ (q.root = none ∨ q.root = hd) := by
      cases hr : q.root with
      | some h => exact ⟨some h, hro h hr, Or.inr rfl⟩
      | none =>
        by_cases hem : q.q = []
        · exact ⟨none, hem, Or.inl rfl⟩
        · obtain ⟨m, hm⟩ := exists_min q.q hem
          exact ⟨some m, hm, Or.inl rfl⟩
    obtain ⟨hd, hh, hrt⟩ := hhd
    by_cases he : hd = some r
    · subst he
      obtain ⟨p', h1, h2⟩ := hO { q with q := pop q.q r, pc := .popped r, log := .pop r :: q.log, root := none } r rfl hs
        (by intro h hh'; simp at hh')
      exact ⟨p', (pst_one (l := .execCheck (some r)) (by simp [Processor.step, hq, hh, hrt])).trans h1, h2⟩
    · obtain ⟨p', h1, h2⟩ := hT { q with pc := .top, root := hd } rfl hs
        (by intro h hh'; simp only at hh'; subst hh'; exact hh)
      exact ⟨p', (pst_one (l := .execCheck hd) (by simp [Processor.step, hq, hh, hrt, he])).trans h1, h2⟩
  -- armed
  have hA : ∀ (q : PState) r, q.pc = .armed r → q.stopClosed = true →
      ∃ p', PSt q p' ∧ p'.pc = .absent ∧ p'.token = .free ∧ p'.cpc = q.cpc ∧ p'.stopClosed = true := by
    intro q r hq hs
    obtain ⟨p', h1, h2⟩ := hX { q with pc := .exiting, timer := 0 } rfl hs
    exact ⟨p', (pst_one (l := .recvStop) (by simp [Processor.step, hq, hs])).trans h1, h2⟩
  -- arming
  have hG : ∀ (q : PState) r, q.pc = .arming r → q.stopClosed = true →
      ∃ p', PSt q p' ∧ p'.pc = .absent ∧ p'.token = .free ∧ p'.cpc = q.cpc ∧ p'.stopClosed = true := by
    intro q r hq hs
    obtain ⟨p', h1, h2⟩ := hA { q with pc := .armed r, timer := q.now + q.timer, armAt := q.now } r rfl hs
    exact ⟨p', (pst_one (l := .arm) (by simp [Processor.step, hq])).trans h1, h2⟩
  -- polled
  have hL : ∀ (q : PState) r, q.pc = .polled r → q.stopClosed = true → (∀ h, q.root = some h → IsMin q.q h) →
      ∃ p', PSt q p' ∧ p'.pc = .absent ∧ p'.token = .free ∧ p'.cpc = q.cpc ∧ p'.stopClosed = true := by
    intro q r hq hs hro
    by_cases hdue : satDur (r.time - q.now) < halfMs
    · obtain ⟨p', h1, h2⟩ := hF { q with pc := .firing r, readAt := q.now } r rfl hs hro
      exact ⟨p', (pst_one (l := .decide) (by simp [Processor.step, hq, hdue])).trans h1, h2⟩
    · obtain ⟨p', h1, h2⟩ := hG { q with pc := .arming r, timer := satDur (r.time - q.now), readAt := q.now } r rfl hs
      exact ⟨p', (pst_one (l := .decide) (by simp [Processor.step, hq, hdue])).trans h1, h2⟩
  have drop : (∃ p', PSt p p' ∧ p'.pc = .absent ∧ p'.token = .free ∧ p'.cpc = p.cpc ∧ p'.stopClosed = true) →
      ∃ p', PSt p p' ∧ p'.pc = .absent ∧ p'.cpc = p.cpc ∧ p'.stopClosed = true := by
    rintro ⟨p', h1, h2, _, h4, h5⟩
    exact ⟨p', h1, h2, h4, h5⟩
  cases hpc : p.pc with
  | absent => exact ⟨p, Steps.refl _, hpc, rfl, hstop⟩
  | top => exact drop (hT p hpc hstop hroot)
  | peeked r => exact drop (hP p r hpc hstop)
  | polled r => exact drop (hL p r hpc hstop hroot)
  | armed r => exact drop (hA p r hpc hstop)
  | arming r => exact drop (hG p r hpc hstop)
  | firing r => exact drop (hF p r hpc hstop hroot)
  | popped r => exact drop (hO p r hpc hstop hroot)
  | running r => exact drop (hR p r hpc hstop hroot)
  | exiting => exact drop (hX p hpc hstop)

/-- `queue.Close()` returns: from every reachable processor state in which `Close` has been called. -/
theorem queue_close_completes {p : PState} (hr : Reach (Processor.lts pcfg) p) (hc : p.cpc ≠ .idle) :
    ∃ p', PSt p p' ∧ p'.cpc = .returned := by
  have hA := Processor.invA hr
  unfold Processor.InvA at hA
  -- from chClosed
  have hCh : ∀ q : PState, Reach (Processor.lts pcfg) q → q.cpc = .chClosed → ∃ p', PSt q p' ∧ p'.cpc = .returned := by
    intro q hq hcq
    have hAq := Processor.invA hq
    unfold Processor.InvA at hAq
    have hs : q.stopClosed = true := hAq.2.2.2.1.mpr (Or.inl hcq)
    obtain ⟨q1, h1, hpc1, hcpc1, hs1⟩ := loop_exits hs (Processor.invR hq).1
    have hq1 := Steps.reach h1 hq
    have hA1 := Processor.invA hq1
    unfold Processor.InvA at hA1
    have ht1 : q1.token = .free := by
      rcases Processor.tok3 q1.token with h | h | h
      · exact h
      · exact absurd hpc1 (hA1.1.mp h)
      · have := hA1.2.1.mp h; rw [hcpc1, hcq] at this; simp at this
    have s2 : Processor.step pcfg q1 .closeTake = some { q1 with token := .close, cpc := .tokenTaken } := by
      simp [Processor.step, hcpc1, hcq, ht1]
    have s3 : Processor.step pcfg { q1 with token := .close, cpc := .tokenTaken } .closeReturn =
        some { q1 with token := .close, cpc := .returned, log := .closeRet :: q1.log } := by
      simp [Processor.step]
    exact ⟨_, (h1.trans (pst_one s2)).trans (pst_one s3), rfl⟩
  cases hcpc : p.cpc with
  | idle => exact absurd hcpc hc
  | returned => exact ⟨p, Steps.refl _, hcpc⟩
  | tokenTaken =>
    exact ⟨{ p with cpc := .returned, log := .closeRet :: p.log }, pst_one (l := .closeReturn) (by simp [Processor.step, hcpc]), rfl⟩
  | chClosed => exact hCh p hr hcpc
  | casDone =>
    have s1 : Processor.step pcfg p .closeStopCh = some { p with stopClosed := true, cpc := .chClosed } := by
      simp [Processor.step, hcpc]
    obtain ⟨p', h2, h3⟩ := hCh _ (Steps.reach (pst_one s1) hr) rfl
    exact ⟨p', (pst_one s1).trans h2, h3⟩

/-! ### every `Close` call completes -/

/-- When the processor's running token belongs to `Close` the loop is gone and the lock is free. -/
theorem lockFree_of_qclosed {s : State} (hr : Reach (lts cfg) s)
    (hq : s.p.cpc = .tokenTaken ∨ s.p.cpc = .returned) : s.epc = .idle ∧ s.p.pc = .absent ∧ s.p.token = .close := by
  have hC := invCtl hr
  have hA := Processor.invA (reach_proj hr)
  unfold Processor.InvA at hA
  have ht : s.p.token = .close := hA.2.1.mpr hq
  have hpc : s.p.pc = .absent := by
    cases hp : s.p.pc <;> first | rfl | (have := hA.1.mpr (by simp [hp]); rw [ht] at this; cases this)
  refine ⟨?_, hpc, ht⟩
  cases he : s.epc with
  | idle => rfl
  | waiting r => have := hC.2.1 r he; rw [hpc] at this; cases this
  | sending r i => have := hC.2.2.1 r i he; rw [hpc] at this; cases this

/-- After `closeCh` is closed every forwarder leaves and removes its subscriber. -/
theorem fwds_done (hfix : cfg.fixed = true) :
    ∀ (n : Nat) {s : State}, Reach (lts cfg) s → n ≤ s.subs.length → s.closed = true → s.epc = .idle →
      ∃ s', St cfg stalled s s' ∧ (∀ j u, j < n → s'.subs[j]? = some u → u.pc = .done) ∧ s'.closed = true ∧
        s'.epc = .idle ∧ Cnt s' = Cnt s ∧ s'.p = s.p ∧ s'.subs.length = s.subs.length := by
  intro n
  induction n with
  | zero => intro s _ _ hc he; exact ⟨s, Steps.refl _, by intro j u hj; omega, hc, he, rfl, rfl, rfl⟩
  | succ n ih =>
    intro s hr hn hc he
    obtain ⟨s1, hs1, hdone1, hc1, he1, hb1, hp1, hlen1⟩ := ih hr (by omega) hc he
    have hr1 := hs1.reach hr
    have hlt : n < s1.subs.length := by omega
    have hi : s1.subs[n]? = some s1.subs[n] := List.getElem?_eq_getElem hlt
    generalize s1.subs[n] = u at hi
    have hS := invSub hr1 u (List.mem_of_getElem? hi)
    by_cases hd : u.pc = .done
    · refine ⟨s1, hs1, ?_, hc1, he1, hb1, hp1, hlen1⟩
      intro j v hj hv
      by_cases hjn : j = n
      · subst hjn; rw [hi] at hv; cases hv; exact hd
      · exact hdone1 j v (by omega) hv
    · obtain ⟨u', hs2, hpc', _, _, _⟩ := fwd_leave (cfg := cfg) (stalled := stalled) hi hd (Or.inr hc1)
        (fun hw => by rw [hfix]; exact hS.2.2.2 hfix hw)
      have hi' : (setSub s1 n u').subs[n]? = some u' := get_setSub hi
      have hlf : lockFree (setSub s1 n u') = true := by simp [lockFree, setSub, he1]
      have h3 := do_remove (cfg := cfg) hi' hpc' hlf
      rw [setSub_setSub] at h3
      refine ⟨_, hs1.trans (hs2.trans (st_one (allowed_int rfl) h3)), ?_, hc1, he1, hb1, hp1, by simp [setSub, hlen1]⟩
      intro j v hj hv
      rcases getElem?_set_cases (by simpa [setSub] using hv) with ⟨_, rfl, _⟩ | ⟨hne, hv'⟩
      · rfl
      · exact hdone1 j v (by omega) hv'

/-- The calls that lost the processor's CAS leave `queue.Close()` once the winner holds the token. -/
theorem losers_leave : ∀ (n : Nat) {s : State}, s.cq = n → s.p.stopped = true → s.p.pc = .absent → s.p.token = .close →
    ∃ s', St cfg stalled s s' ∧ s'.cq = 0 ∧ s'.cl = s.cl + n ∧ s'.cw = s.cw ∧ s'.cr = s.cr ∧
      s'.p.cpc = s.p.cpc ∧ s'.closed = s.closed := by
  intro n
  induction n with
  | zero => intro s h _ _ _; exact ⟨s, Steps.refl _, h, rfl, rfl, rfl, rfl, rfl⟩
  | succ n ih =>
    intro s h hst hpc htok
    have h1 : step cfg s (.proc .closeAgain) =
        some { s with p := { s.p with log := .closeRet :: s.p.log }, cq := s.cq - 1, cl := s.cl + 1 } := by
      simp [step, procStep, h, Processor.step, hst, hpc, htok]
    obtain ⟨s', h2, a, b, c, d, e, f⟩ := ih (s := { s with p := { s.p with log := .closeRet :: s.p.log }, cq := s.cq - 1, cl := s.cl + 1 })
      (by simp [h]) hst hpc htok
    exact ⟨s', (st_one (allowed_int rfl) h1).trans h2, a, by simp at b; omega, c, d, e, f⟩

/-- The calls waiting for the lock pass through their critical section. -/
theorem lockers_pass : ∀ (n : Nat) {s : State}, s.cl = n → s.epc = .idle →
    ∃ s', St cfg stalled s s' ∧ s'.cl = 0 ∧ s'.cw = s.cw + n ∧ s'.cq = s.cq ∧ s'.cr = s.cr ∧ s'.p = s.p ∧
      s'.epc = .idle ∧ (0 < n → s'.closed = true) ∧ (s.closed = true → s'.closed = true) ∧ s'.subs = s.subs := by
  intro n
  induction n with
  | zero => intro s h he; exact ⟨s, Steps.refl _, h, rfl, rfl, rfl, rfl, he, by omega, id, rfl⟩
  | succ n ih =>
    intro s h he
    have h1 : step cfg s .closeLock = some { s with closed := true, cl := s.cl - 1, cw := s.cw + 1 } := by
      simp [step, closeLock, h, lockFree, he]
    obtain ⟨s', h2, a, b, c, d, e, f, _, g, k⟩ := ih (s := { s with closed := true, cl := s.cl - 1, cw := s.cw + 1 }) (by simp [h]) he
    exact ⟨s', (st_one (allowed_int rfl) h1).trans h2, a, by simp at b; omega, c, d, e, f, fun _ => g rfl, fun _ => g rfl, k⟩

/-- The calls in `wg.Wait()` return once every forwarder is done. -/
theorem waiters_return : ∀ (n : Nat) {s : State}, s.cw = n → allDone s = true →
    ∃ s', St cfg stalled s s' ∧ s'.cw = 0 ∧ s'.cr = s.cr + n ∧ s'.cq = s.cq ∧ s'.cl = s.cl ∧ s'.p = s.p := by
  intro n
  induction n with
  | zero => intro s h _; exact ⟨s, Steps.refl _, h, rfl, rfl, rfl, rfl⟩
  | succ n ih =>
    intro s h hall
    have h1 : step cfg s .closeReturn = some { s with cw := s.cw - 1, cr := s.cr + 1 } := by
      simp [step, closeReturn, h, hall]
    obtain ⟨s', h2, a, b, c, d, e⟩ := ih (s := { s with cw := s.cw - 1, cr := s.cr + 1 }) (by simp [h]) (by simpa [allDone] using hall)
    exact ⟨s', (st_one (allowed_int rfl) h1).trans h2, a, by simp at b; omega, c, d, e⟩

/-- **Every `Close` call completes**: from every reachable state in which `Close` has been called
(by any number of callers, in any phase), all of them return: none is left inside `queue.Close()`,
waiting for the lock or in `wg.Wait()`, the processor's `Close` has returned, and at least one
`Close` has returned. -/
theorem close_completes (hfix : cfg.fixed = true) (hcap : 0 < cfg.cap) {s : State} (hr : Reach (lts cfg) s)
    (hb : s.p.stopped = true) (hd : Departed stalled s) :
    ∃ s', St cfg stalled s s' ∧ s'.cq = 0 ∧ s'.cl = 0 ∧ s'.cw = 0 ∧ s'.p.cpc = .returned ∧ 0 < s'.cr ∧
      s.cr ≤ s'.cr := by
  have hA := Processor.invA (reach_proj hr)
  have hcpc : s.p.cpc ≠ .idle := fun h => by
    have := hA.2.2.1.mpr h; rw [hb] at this; cases this
  -- A: the winner's `queue.Close()` returns
  obtain ⟨p', hp, hret⟩ := queue_close_completes (reach_proj hr) hcpc
  obtain ⟨s1, h1, hp1, hq1, hl1, hw1, hr1', _, _, _⟩ := lift (cfg := cfg) (stalled := stalled) hfix hcap hp hr rfl hd
  have hr1 := h1.reach hr
  have hret1 : s1.p.cpc = .returned := by rw [hp1]; exact hret
  obtain ⟨he1, hpc1, htok1⟩ := lockFree_of_qclosed hr1 (Or.inr hret1)
  have hst1 : s1.p.stopped = true := by
    have hA1 := Processor.invA (reach_proj hr1)
    cases hs : s1.p.stopped with
    | true => rfl
    | false => have := hA1.2.2.1.mp hs; rw [hret1] at this; cases this
  -- B: the losers leave `queue.Close()`
  obtain ⟨s2, h2, hq2, hl2, hw2, hr2', hcpc2, hcl2⟩ := losers_leave (cfg := cfg) (stalled := stalled) s1.cq rfl hst1 hpc1 htok1
  have hr2 := h2.reach hr1
  have hret2 : s2.p.cpc = .returned := hcpc2.trans hret1
  obtain ⟨he2, _, _⟩ := lockFree_of_qclosed hr2 (Or.inr hret2)
  -- the winner's return has put at least one call at the lock, unless it is already further on
  have hC2 := invCtl hr2
  -- C: the lock sections
  obtain ⟨s3, h3, hl3, hw3, hq3, hr3', hp3, he3, hcl3, hclk3, hsubs3⟩ := lockers_pass (cfg := cfg) (stalled := stalled) s2.cl rfl he2
  have hr3 := h3.reach hr2
  -- some call is past the lock (or has returned): `closed` holds
  have hsome : 0 < s3.cw ∨ 0 < s3.cr := by
    have hC1 := invCtl hr1
    -- conservation along A: the winner's return incremented `cl` unless it had returned before; in
    -- every case cl + cw + cr > 0 once cpc = returned
    have hpos : 0 < s1.cl + s1.cw + s1.cr := close_count_pos hr1 hret1
    omega
  have hclosed3 : s3.closed = true := (invCtl hr3).2.2.2.2.1 hsome
  -- D: the forwarders leave
  obtain ⟨s4, h4, hdone4, hcl4, he4, hcnt4, hp4, hlen4⟩ := fwds_done (cfg := cfg) (stalled := stalled) hfix s3.subs.length hr3 (Nat.le_refl _) hclosed3 he3
  have hall : allDone s4 = true := by
    simp only [allDone, List.all_eq_true, beq_iff_eq]
    intro u hu
    obtain ⟨j, hj, hju⟩ := List.getElem_of_mem hu
    exact hdone4 j u (by omega) (by rw [List.getElem?_eq_getElem hj, hju])
  simp only [Cnt, Prod.mk.injEq] at hcnt4
  -- E: the waiting calls return
  obtain ⟨s5, h5, hw5, hr5', hq5, hl5, hp5⟩ := waiters_return (cfg := cfg) (stalled := stalled) s4.cw rfl hall
  refine ⟨s5, (((h1.trans h2).trans h3).trans h4).trans h5, ?_, ?_, hw5, ?_, ?_, ?_⟩
  · rw [hq5, hcnt4.1, hq3, hq2]
  · rw [hl5, hcnt4.2.1, hl3]
  · rw [hp5, hp4, hp3]; exact hret2
  · rw [hr5', hcnt4.2.2.2, hcnt4.2.2.1]; omega
  · rw [hr5', hcnt4.2.2.2, hr3', hr2', hr1']; omega

/-- **A departed subscriber's channel gets closed**: from every reachable state, the forwarder of a
subscriber whose context has ended (also one that was ALREADY ended when `Subscribe` was called) or
of any subscriber once `closeCh` is closed reaches `done` — it closes the subscriber's channel and
removes it — after the running fan-out, if any, has completed. -/
theorem departed_channel_closes (hfix : cfg.fixed = true) (hcap : 0 < cfg.cap) {s : State} (hr : Reach (lts cfg) s)
    (hd : Departed stalled s) {i : Nat} {u : Sub} (hi : s.subs[i]? = some u) (hc : u.ctxDone = true ∨ s.closed = true) :
    ∃ s' u', St cfg stalled s s' ∧ s'.subs[i]? = some u' ∧ u'.pc = .done := by
  -- first let a running callback return (the lock must be free for the forwarder's removal)
  have h1 : ∃ s1 u1, St cfg stalled s s1 ∧ s1.epc = .idle ∧ s1.subs[i]? = some u1 ∧
      (u1.ctxDone = true ∨ s1.closed = true) := by
    have hC := invCtl hr
    cases he : s.epc with
    | idle => exact ⟨s, u, Steps.refl _, he, hi, hc⟩
    | waiting r =>
      have hpc := hC.2.1 r he
      rcases hc with hc | hc
      · -- keep subscriber `i` among the stalled ones so that its `ctxDone` is tracked along the path
        have hd' : Departed (fun j => stalled j ∨ j = i) s := by
          intro j v hj hs
          rcases hs with hs | rfl
          · exact hd j v hj hs
          · rw [hi] at hj; cases hj; exact hc
        obtain ⟨s1, hs1, _, he1, _, _, _, hd1, hlen⟩ := execute_completes (stalled := fun j => stalled j ∨ j = i) hfix hcap hr hpc hd'
        have hlt : i < s1.subs.length := by rw [hlen]; exact lt_of_getElem? hi
        have hi1 : s1.subs[i]? = some s1.subs[i] := List.getElem?_eq_getElem hlt
        refine ⟨s1, _, Steps.mono ?_ hs1, he1, hi1, Or.inl (hd1 i _ hi1 (Or.inr rfl))⟩
        rintro a (ha | ⟨j, rfl, hj⟩)
        · exact Or.inl ha
        · exact Or.inr ⟨j, rfl, fun h => hj (Or.inl h)⟩
      · obtain ⟨s1, hs1, _, he1, _, hcl1, _, _, hlen⟩ := execute_completes hfix hcap hr hpc hd
        have hlt : i < s1.subs.length := by rw [hlen]; exact lt_of_getElem? hi
        exact ⟨s1, _, hs1, he1, List.getElem?_eq_getElem hlt, Or.inr (hcl1.trans hc)⟩
    | sending r k =>
      have hpc := hC.2.2.1 r k he
      rcases hc with hc | hc
      · have hd' : Departed (fun j => stalled j ∨ j = i) s := by
          intro j v hj hs
          rcases hs with hs | rfl
          · exact hd j v hj hs
          · rw [hi] at hj; cases hj; exact hc
        obtain ⟨s1, hs1, _, he1, _, _, _, hd1, hlen⟩ := execute_completes (stalled := fun j => stalled j ∨ j = i) hfix hcap hr hpc hd'
        have hlt : i < s1.subs.length := by rw [hlen]; exact lt_of_getElem? hi
        have hi1 : s1.subs[i]? = some s1.subs[i] := List.getElem?_eq_getElem hlt
        refine ⟨s1, _, Steps.mono ?_ hs1, he1, hi1, Or.inl (hd1 i _ hi1 (Or.inr rfl))⟩
        rintro a (ha | ⟨j, rfl, hj⟩)
        · exact Or.inl ha
        · exact Or.inr ⟨j, rfl, fun h => hj (Or.inl h)⟩
      · obtain ⟨s1, hs1, _, he1, _, hcl1, _, _, hlen⟩ := execute_completes hfix hcap hr hpc hd
        have hlt : i < s1.subs.length := by rw [hlen]; exact lt_of_getElem? hi
        exact ⟨s1, _, hs1, he1, List.getElem?_eq_getElem hlt, Or.inr (hcl1.trans hc)⟩
  obtain ⟨s1, u1, hs1, he1, hi1, hc1⟩ := h1
  have hr1 := hs1.reach hr
  by_cases hdone : u1.pc = .done
  · exact ⟨s1, u1, hs1, hi1, hdone⟩
  · have hS := invSub hr1 u1 (List.mem_of_getElem? hi1)
    obtain ⟨u', hs2, hpc', _, _, _⟩ := fwd_leave (cfg := cfg) (stalled := stalled) hi1 hdone hc1
      (fun hw => by rw [hfix]; exact hS.2.2.2 hfix hw)
    have hi' : (setSub s1 i u').subs[i]? = some u' := get_setSub hi1
    have hlf : lockFree (setSub s1 i u') = true := by simp [lockFree, setSub, he1]
    have h3 := do_remove (cfg := cfg) hi' hpc' hlf
    rw [setSub_setSub] at h3
    exact ⟨_, _, hs1.trans (hs2.trans (st_one (allowed_int rfl) h3)), get_setSub hi1, rfl⟩

end Kit.Batcher
