import KitProofs.Lemmas.SpiffeRenew
/-! Property C19, error kinds: the renewal automaton never looks at the error a failed fetch returned
(`Reply.fail k`), so replacing every error of a script by a plain one commutes with every action; and
the rotation only ends (`Mode.dead`) when the INITIAL fetch failed — the context handed to `Run` is
alive in every state of the automaton. -/
namespace Kit.Spiffe

/-! ### `RN.plain` commutes with every action -/

theorem plain_plain (r : Reply) : r.plain.plain = r.plain := by cases r <;> rfl

theorem outcome_plain (s : RN) :
    outcome s.plain = ((outcome s).1, (outcome s).2.map Reply.plain) := by
  unfold outcome RN.plain
  cases hs : s.script with
  | nil => simp
  | cons r rest =>
    cases r with
    | fail k => simp [Reply.plain]
    | ok nb na => simp [Reply.plain]
    | okAnchorsFail nb na => simp [Reply.plain]

theorem complete_plain (s : RN) : complete s.plain = ((complete s).1.plain, (complete s).2) := by
  have h := outcome_plain s
  unfold complete
  rw [h]
  simp [RN.plain]

theorem arm_plain (s : RN) : arm s.plain = (arm s).plain := rfl
theorem issue_plain (s : RN) (b : Bool) : issue s.plain b = (issue s b).plain := rfl
theorem due_plain (s : RN) : s.plain.due = s.due := rfl

theorem wake_plain (s : RN) : wake s.plain = (wake s).plain := by
  unfold wake
  show (match s.mode with
    | .dead => s.plain | .inflight => s.plain | .retrying => arm s.plain
    | .waiting => if s.now < s.renewAt then arm s.plain else issue s.plain false) = _
  cases s.mode with
  | dead => rfl
  | inflight => rfl
  | retrying => rfl
  | waiting =>
    show (if s.now < s.renewAt then arm s.plain else issue s.plain false) =
      (if s.now < s.renewAt then arm s else issue s false).plain
    split <;> rfl

theorem settle_plain : ∀ (n : Nat) (s : RN), settle n s.plain = (settle n s).plain := by
  intro n
  induction n with
  | zero => intro s; rfl
  | succ n ih =>
    intro s
    have hd : s.plain.due = s.due := rfl
    cases hdu : s.due with
    | false => simp [settle, hd, hdu]
    | true => simp [settle, hd, hdu, wake_plain, ih]

theorem answerCore_plain (s : RN) : answerCore s.plain = (answerCore s).plain := by
  unfold answerCore
  rw [complete_plain]
  rcases hc : complete s with ⟨s1, r⟩
  cases r with
  | none =>
    show (if s.reqInit = true then _ else _) = (if s.reqInit = true then _ else _ : RN).plain
    split <;> rfl
  | some c => rfl

theorem answer_plain (s : RN) : answer s.plain = (answer s).plain := by
  unfold answer
  show (if s.mode = .inflight then settled (answerCore s.plain) else s.plain) = _
  split
  · rw [answerCore_plain]; exact settle_plain _ _
  · rfl

theorem advance_plain (s : RN) (d : Int) : advance s.plain d = (advance s d).plain :=
  settle_plain 3 { s with now := s.now + d }

theorem setAnchors_plain (s : RN) (a : Nat) : setAnchors s.plain a = (setAnchors s a).plain := rfl

theorem act_plain (s : RN) (a : Act) : act s.plain a = (act s a).plain := by
  cases a with
  | adv d => exact advance_plain s d
  | anchors a => rfl
  | answer => exact answer_plain s
  | toWake =>
    have hm : s.plain.mode = s.mode := rfl
    have hn : s.plain.now = s.now := rfl
    have hw : s.plain.wakeAt = s.wakeAt := rfl
    simp only [act, hm, hn, hw]
    split
    · exact advance_plain s _
    · rfl

theorem runActs_plain : ∀ (acts : List Act) (s : RN),
    runActs s.plain acts = (runActs s acts).map RN.plain := by
  intro acts
  induction acts with
  | nil => intro s; rfl
  | cons a rest ih =>
    intro s
    simp only [runActs, List.map_cons]
    rw [act_plain, ih]

theorem start_plain (dirOn : Bool) (a0 : Nat) (script : List Reply) (t0 : Int) :
    (start dirOn a0 script t0).plain = start dirOn a0 (script.map Reply.plain) t0 := rfl

/-! ### the rotation ends only when the initial fetch failed -/

theorem wake_dead_iff (s : RN) : (wake s).mode = .dead ↔ s.mode = .dead := by
  rcases wake_cases s with ⟨_, hw⟩ | ⟨hm, hw⟩ | ⟨hm, _, hw⟩ | ⟨hm, _, hw⟩
  · rw [hw]
  · rw [hw, (arm_fields s).1, hm]; simp
  · rw [hw, (arm_fields s).1, hm]
  · rw [hw, (issue_fields s false).1, hm]; simp

theorem settle_dead_iff : ∀ (n : Nat) (s : RN), (settle n s).mode = .dead ↔ s.mode = .dead := by
  intro n
  induction n with
  | zero => intro s; exact Iff.rfl
  | succ n ih =>
    intro s
    simp only [settle]
    split
    · exact (ih (wake s)).trans (wake_dead_iff s)
    · exact Iff.rfl

/-- `Run` has returned only because its initial fetch failed: nothing is served, the log holds that one
failed request. -/
def DeadOnlyInit (s : RN) : Prop :=
  s.mode = .dead → s.svid = none ∧ ∃ r, s.log = [r] ∧ r.good = false

theorem dead_only_init {dirOn : Bool} {a0 : Nat} {script : List Reply} {t0 : Int} {s : RN}
    (h : RReach dirOn a0 script t0 s) : DeadOnlyInit s := by
  induction h with
  | start => intro hm; simp [start, issue] at hm
  | @adv s d _ _ ih =>
    intro hm
    have hm' : s.mode = .dead := (settle_dead_iff 3 { s with now := s.now + d }).mp hm
    obtain ⟨h1, h2⟩ := ih hm'
    obtain ⟨_, fl, fs, _⟩ := settle_frame 3 { s with now := s.now + d }
    exact ⟨by show (settle 3 _).svid = none; rw [fs]; exact h1, by show ∃ r, (settle 3 _).log = [r] ∧ _; rw [fl]; exact h2⟩
  | anch a _ ih => exact ih
  | @ans s hs ih =>
    simp only [answer]
    split
    · rename_i hfl
      intro hm
      have hm' : (answerCore s).mode = .dead := (settle_dead_iff 3 (answerCore s)).mp hm
      obtain ⟨_, fl, fs, _⟩ := settle_frame 3 (answerCore s)
      have cs := complete_spec s
      obtain ⟨_, _, hinit, _⟩ := (rinv hs).1.flight hfl
      rcases answerCore_cases s with ⟨hn, hi, hw⟩ | ⟨_, _, hw⟩ | ⟨c, _, hw⟩
      · obtain ⟨hlog, hsv⟩ := hinit hi
        rw [hn] at cs
        refine ⟨?_, ?_⟩
        · show (settle 3 _).svid = none
          rw [fs, hw]; show (complete s).1.svid = none; rw [cs.svid]; exact hsv
        · show ∃ r, (settle 3 _).log = [r] ∧ _
          rw [fl, hw]
          refine ⟨⟨s.reqAt, s.reqTok, false, s.anchors, halfOf none, s.now⟩, ?_, rfl⟩
          show (complete s).1.log = [_]
          rw [cs.log, hlog]; rfl
      · rw [hw] at hm'; cases hm'
      · rw [hw, (arm_fields _).1] at hm'; cases hm'
    · exact ih

end Kit.Spiffe
