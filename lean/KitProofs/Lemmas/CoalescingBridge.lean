import KitModel.Coalescing
/-!
Bridge between the generated source blocks (`Kit.Generated.C09`, run by the model through
`IR.Stmt.execList`) and the closed forms the proofs of C09 reason about.  Every lemma here is
re-checked against the regenerated facts on each run: a change of a guard, an assignment, a
conversion or a timer argument in `coalescing.go` changes `Generated/C09.lean` and breaks the
corresponding lemma (and with it the property theorems that depend on it).
-/
namespace Kit.Coalescing
open IR

theorem init_def (cfg : Config) : init cfg = { cur := cfg.initial } := rfl

/-- `fireEvent` as modelled: `if pendingEvents > 0 { pendingEvents = 0; start a sender }`. -/
theorem fire_def (cfg : Config) (s : State) :
    fire cfg s =
      if 0 < s.pending then
        { s with pending := 0, fires := s.fires + 1, senders := s.senders + 1 }
      else s := by
  unfold fire
  simp [Generated.C09.fireGuard, Generated.C09.fireZero, Guard.eval, Cmp.eval, Var.eval,
    State.env, State.withEnv, Stmt.execList, Stmt.exec, Rhs.eval, Env.set]

/-- The cap test as modelled: `maxPendingEvents != nil && pendingEvents >= *maxPendingEvents`. -/
theorem capReached_def (cfg : Config) (s : State) :
    capReached cfg s = match cfg.cap with
      | none => false
      | some m => decide (m ≤ s.pending) := by
  unfold capReached
  cases h : cfg.cap <;>
    simp [Generated.C09.capGuard, Guard.eval, Cmp.eval, Var.eval, State.env, h]

/-- The back-off block as modelled. -/
theorem backoffVals_def (cfg : Config) (cur factor : Nat) :
    backoffVals cfg cur factor =
      if cur < cfg.max then
        (if cfg.max < f64OfNat cfg.initial * (factor * 2) then cfg.max
           else f64OfNat cfg.initial * (factor * 2),
         factor * 2,
         decide (int64Lim ≤ factor * 2) || decide (int64Lim ≤ f64OfNat cfg.initial * (factor * 2)))
      else (cur, factor, false) := by
  unfold backoffVals
  by_cases h : cur < cfg.max
  · by_cases h2 : cfg.max < f64OfNat cfg.initial * (factor * 2) <;>
      simp [Generated.C09.backoffBlock, Stmt.execList, Stmt.exec, Guard.eval, Cmp.eval, Var.eval,
        Rhs.eval, Env.set, h, h2] <;> rfl
  · simp [Generated.C09.backoffBlock, Stmt.execList, Stmt.exec, Guard.eval, Cmp.eval, Var.eval, h]

/-- `handleTimerFired` as modelled: fire, then `reset` (pending 0, durations back to the initial
delay, factor 1, no timer). -/
theorem handleTimer_def (cfg : Config) (s : State) :
    handleTimer cfg s =
      { fire cfg s with pending := 0, cur := cfg.initial, factor := 1, timer := none,
                        loop := .top, wk := 0 } := by
  unfold handleTimer
  simp [Generated.C09.resetBlock, Stmt.execList, Stmt.exec, Rhs.eval, Var.eval, Env.set,
    State.env, State.withEnv]

/-- `Add` (not closed) as modelled: `pendingEvents++`, one more token goroutine. -/
theorem step_add_def (cfg : Config) (s : State) :
    step cfg s .add =
      if s.closed then some s
      else some { s with pending := s.pending + 1, tokens := s.tokens + 1, adds := s.adds + 1 } := by
  simp [step, Generated.C09.addBlock, Stmt.execList, Stmt.exec, Rhs.eval, Var.eval, Env.set,
    State.env, State.withEnv]

theorem newTimerArg_def (cfg : Config) (e : Env) :
    Generated.C09.newTimerArg.eval cfg e = cfg.initial := rfl

theorem resetTimerArg_def (cfg : Config) (e : Env) :
    Generated.C09.resetTimerArg.eval cfg e = e.cur := rfl

end Kit.Coalescing
