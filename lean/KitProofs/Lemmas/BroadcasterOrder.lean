import KitProofs.Lemmas.Broadcaster
/-! Ticket bookkeeping for C11: the log order respects the order of Broadcast calls. -/
namespace Kit.Broadcaster

theorem split_at_getElem? {α} (w : List α) (k : Nat) (e : α) (hk : w[k]? = some e) :
    w = w.take k ++ e :: w.drop (k + 1) ∧ w.eraseIdx k = w.take k ++ w.drop (k + 1) := by
  induction w generalizing k with
  | nil => simp at hk
  | cons a w ih =>
    cases k with
    | zero => simp at hk; subst hk; simp
    | succ k =>
      simp at hk
      obtain ⟨h1, h2⟩ := ih k hk
      constructor
      · simp; exact h1
      · simp [List.eraseIdx_cons_succ]; exact h2

theorem nodup_move {α β} (f : α → β) (w l : List α) (k : Nat) (e : α) (hk : w[k]? = some e)
    (h : (w.map f ++ l.map f).Nodup) : ((w.eraseIdx k).map f ++ (l ++ [e]).map f).Nodup := by
  obtain ⟨h1, h2⟩ := split_at_getElem? w k e hk
  rw [h2]
  rw [h1] at h
  generalize w.take k = a at *
  generalize w.drop (k + 1) = b at *
  simp only [List.map_append, List.map_cons, List.map_nil, List.nodup_append, List.nodup_cons,
    List.mem_append, List.mem_cons, List.mem_map] at h ⊢
  grind


/-- Ticket `t` occurs in the log at an index below `n`. -/
def InLog (log : List Entry) (n t : Nat) : Prop := ∃ k e, k < n ∧ log[k]? = some e ∧ e.ticket = t

theorem InLog.mono {log n m t} (h : InLog log n t) (hnm : n ≤ m) : InLog log m t := by
  obtain ⟨k, e, h1, h2, h3⟩ := h
  exact ⟨k, e, by omega, h2, h3⟩

theorem InLog.append {log n t} (h : InLog log n t) (x : Entry) : InLog (log ++ [x]) n t := by
  obtain ⟨k, e, h1, h2, h3⟩ := h
  refine ⟨k, e, h1, ?_, h3⟩
  rw [List.getElem?_append_left (lt_of_getElem? h2)]; exact h2

/-- Number of log entries whose fan-out is over. -/
def doneCount (s : State) : Nat := if s.bc.isSome then s.log.length - 1 else s.log.length

structure TInv (s : State) : Prop where
  fresh : ∀ e, (e ∈ s.waitB ∨ e ∈ s.log) → e.ticket < s.nextTicket
  nodup : (s.waitB.map (·.ticket) ++ s.log.map (·.ticket)).Nodup
  ret : ∀ t, t ∈ s.returnedT → InLog s.log (doneCount s) t
  retB : ∀ t, (t, true) ∈ s.retB → InLog s.log (doneCount s) t
  wait : ∀ w, w ∈ s.waitB → ∀ t, t ∈ w.retBefore → InLog s.log (doneCount s) t
  logged : ∀ k e, s.log[k]? = some e → ∀ t, t ∈ e.retBefore → InLog s.log k t

theorem TInv.frame {s s' : State} (h : TInv s) (h1 : s'.waitB = s.waitB) (h2 : s'.log = s.log)
    (h3 : s'.returnedT = s.returnedT) (h4 : s'.retB = s.retB) (h5 : s'.nextTicket = s.nextTicket)
    (h6 : s'.bc.isSome = s.bc.isSome) : TInv s' := by
  have hd : doneCount s' = doneCount s := by simp [doneCount, h2, h6]
  constructor
  · rw [h1, h2, h5]; exact h.fresh
  · rw [h1, h2]; exact h.nodup
  · rw [h3, h2, hd]; exact h.ret
  · rw [h4, h2, hd]; exact h.retB
  · rw [h1, h2, hd]; exact h.wait
  · rw [h2]; exact h.logged

theorem tinv_init : TInv init := by
  constructor <;> simp [init]

theorem tinv_step {v s l s'} (hw : WF s) (h : TInv s) (hs : step v s l = some s') : TInv s' := by
  cases l <;> unfold_step hs
  case bcCall x =>
    simp at hs; subst hs
    constructor
    · intro e he
      simp only [List.mem_append, List.mem_singleton] at he
      rcases he with (he | rfl) | he
      · have := h.fresh e (Or.inl he); simp; omega
      · simp
      · have := h.fresh e (Or.inr he); simp; omega
    · have hn := h.nodup
      have hf : ∀ t, t ∈ s.waitB.map (·.ticket) ++ s.log.map (·.ticket) → t ≠ s.nextTicket := by
        intro t ht
        simp only [List.mem_append, List.mem_map] at ht
        rcases ht with ⟨e, he, rfl⟩ | ⟨e, he, rfl⟩
        · have := h.fresh e (Or.inl he); omega
        · have := h.fresh e (Or.inr he); omega
      simp only [List.map_append, List.map_cons, List.map_nil, List.nodup_append, List.nodup_cons,
        List.mem_append, List.mem_cons, List.mem_map] at hn hf ⊢
      grind
    · exact h.ret
    · exact h.retB
    · intro w hwm t ht
      simp only [List.mem_append, List.mem_singleton] at hwm
      rcases hwm with hwm | rfl
      · exact h.wait w hwm t ht
      · exact h.ret t ht
    · exact h.logged
  case bcAcquire k =>
    split at hs
    · next e hbc hk =>
      have hd0 : doneCount s = s.log.length := by simp [doneCount, hbc]
      have hmem : e ∈ s.waitB := List.mem_of_getElem? hk
      have hsub : ∀ w, w ∈ s.waitB.eraseIdx k → w ∈ s.waitB := fun w hw' =>
        (List.eraseIdx_sublist _ _).subset hw'
      split at hs <;> simp at hs <;> subst hs
      · -- closed: immediate return
        constructor
        · intro x hx
          rcases hx with hx | hx
          · exact h.fresh x (Or.inl (hsub x hx))
          · exact h.fresh x (Or.inr hx)
        · have := h.nodup
          refine List.Nodup.sublist ?_ this
          exact List.Sublist.append ((List.eraseIdx_sublist _ _).map _) (List.Sublist.refl _)
        · exact h.ret
        · intro t ht
          simp only [List.mem_append, List.mem_singleton, Prod.mk.injEq] at ht
          rcases ht with ht | ⟨_, ht⟩
          · exact h.retB t ht
          · simp at ht
        · intro w hw' t ht; exact h.wait w (hsub w hw') t ht
        · exact h.logged
      · -- open: the entry is logged
        have hd1 : doneCount { s with waitB := s.waitB.eraseIdx k, bc := some (e, 0), log := s.log ++ [e] }
            = s.log.length := by simp [doneCount]
        constructor
        · intro x hx
          simp only [List.mem_append, List.mem_singleton] at hx
          rcases hx with hx | hx | rfl
          · exact h.fresh x (Or.inl (hsub x hx))
          · exact h.fresh x (Or.inr hx)
          · exact h.fresh x (Or.inl hmem)
        · exact nodup_move _ _ _ _ _ hk h.nodup
        · intro t ht; rw [hd1]; have := h.ret t ht; rw [hd0] at this; exact this.append e
        · intro t ht; rw [hd1]; have := h.retB t ht; rw [hd0] at this; exact this.append e
        · intro w hw' t ht; rw [hd1]; have := h.wait w (hsub w hw') t ht; rw [hd0] at this
          exact this.append e
        · intro j x hj t ht
          rcases getElem?_append_one_cases hj with ⟨rfl, rfl⟩ | ⟨_, hj'⟩
          · have := h.wait x hmem t ht; rw [hd0] at this; exact this.append x
          · exact (h.logged j x hj' t ht).append e
    · simp at hs
  case bcFinish =>
    split at hs
    · next e pc hbc =>
      split at hs <;> simp at hs
      subst hs
      have hd0 : doneCount s = s.log.length - 1 := by simp [doneCount, hbc]
      have hd1 : doneCount { s with bc := none, retB := s.retB ++ [(e.ticket, true)] } = s.log.length := by
        simp [doneCount]
      constructor
      · exact h.fresh
      · exact h.nodup
      · intro t ht; rw [hd1]; exact (h.ret t ht).mono (by omega)
      · intro t ht; rw [hd1]
        simp only [List.mem_append, List.mem_singleton, Prod.mk.injEq] at ht
        rcases ht with ht | ⟨rfl, _⟩
        · exact (h.retB t ht).mono (by omega)
        · obtain ⟨l0, hl0⟩ := hw.bcLast e pc hbc
          refine ⟨l0.length, e, ?_, ?_, rfl⟩
          · show l0.length < s.log.length; rw [hl0]; simp
          · show s.log[l0.length]? = some e; rw [hl0]; simp
      · intro w hw' t ht; rw [hd1]; exact (h.wait w hw' t ht).mono (by omega)
      · exact h.logged
    · simp at hs
  case bcReturn t =>
    split at hs
    · next hm =>
      simp at hs; subst hs
      have hd : doneCount { s with retB := s.retB.erase (t, true), returnedT := t :: s.returnedT } = doneCount s := rfl
      constructor
      · exact h.fresh
      · exact h.nodup
      · intro t' ht'; rw [hd]
        simp only [List.mem_cons] at ht'
        rcases ht' with rfl | ht'
        · exact h.retB _ hm
        · exact h.ret t' ht'
      · intro t' ht'; rw [hd]; exact h.retB t' (List.mem_of_mem_erase ht')
      · exact h.wait
      · exact h.logged
    · split at hs <;> simp at hs
      subst hs
      have hd : doneCount { s with retB := s.retB.erase (t, false) } = doneCount s := rfl
      constructor
      · exact h.fresh
      · exact h.nodup
      · exact h.ret
      · intro t' ht'; rw [hd]; exact h.retB t' (List.mem_of_mem_erase ht')
      · exact h.wait
      · exact h.logged
  all_goals
    (repeat' split at hs) <;> (try simp at hs) <;> (try subst hs) <;>
    exact h.frame rfl rfl rfl rfl rfl (by simp_all)

theorem tinv_reach {v : Variant} : ∀ s, Reach v s → TInv s :=
  inv_of_inductive TInv tinv_init (fun _ _ _ hr h hs => tinv_step (wf_reach _ hr) h hs)

end Kit.Broadcaster
