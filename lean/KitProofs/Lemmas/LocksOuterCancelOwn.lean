import KitModel.Locks.OuterCancel
/-!
OuterCancel: "released" is a reader state of its own.  `told t = some .own` (rcancel ran because the
reader called its release function) is possible only once the reader has left its hold; a grace
goroutine never reports `.own`.  The end of the reader's PARENT context (`parentDone`) is a third,
separate fact: it is read by the first select of `RLock`, by the handler before it takes the slot
and by the `cancelled` probes — never by a grace goroutine and never by the writer section.
-/
namespace Kit.Locks.OuterCancel
open Kit.Locks

/-- a reader between its `RLock` call and the end of its release -/
def PC.inRead : PC → Bool
  | .rCalled | .rSent | .rErr | .rGranted | .rHolding | .rUnlocking => true
  | _ => false

structure OwnInv (s : State) : Prop where
  /-- released (`rcancel` by the reader's own release function) ⇒ the reader is no longer inside -/
  ow : ∀ (t : Tid), s.told t = some .own → (s.pcs t).inRead = false
  /-- a grace goroutine wakes by its timer, by `closeCh` or by `doneCh`: never "own release" -/
  gw : ∀ (t : Tid) (g : Grace), s.graces t = some g → g.woke ≠ some .own

theorem owninv_init (n g : Nat) : OwnInv (init n g) := by
  constructor <;> simp [init, PC.inRead]

macro "own_close" : tactic =>
  `(tactic| (constructor <;> dsimp only <;> grind [rcancel, launchAll, deliver, PC.inRead]))

set_option maxHeartbeats 4000000 in
theorem owninv_step (s : State) (a : L) (s' : State) (h : OwnInv s) (hs : lts.step s a = some s') :
    OwnInv s' := by
  obtain ⟨ow, gw⟩ := h
  cases a with
  | call t op =>
    cases op <;> simp only [lts, step, stepCore] at hs <;> split at hs <;> (try split at hs) <;> simp at hs <;> subst hs
    all_goals own_close
  | tau t alt =>
    simp only [lts, step, stepCore] at hs
    split at hs
    all_goals (try (repeat' split at hs)) <;> (try simp at hs) <;> (try subst hs) <;> (try own_close)
    all_goals (unfold rcancel; split <;> own_close)
  | ret t r =>
    simp only [lts, step, stepCore] at hs
    split at hs <;> (try split at hs) <;> simp at hs <;> subst hs
    all_goals own_close
  | probe t p =>
    cases p <;> simp only [lts, step, stepCore] at hs <;> (repeat' split at hs) <;> simp at hs <;> subst hs <;>
      exact ⟨ow, gw⟩
  | sys i alt =>
    match i with
    | 0 =>
      simp only [lts, step, stepCore] at hs
      split at hs
      all_goals (try (repeat' split at hs)) <;> (try simp at hs) <;> (try subst hs) <;> (try own_close)
    | 1 =>
      simp only [lts, step, stepCore] at hs
      split at hs <;> simp at hs; subst hs; own_close
    | j + 2 =>
      simp only [lts, step, stepCore] at hs
      split at hs
      · split at hs
        · (repeat' split at hs) <;> simp at hs <;> subst hs <;> own_close
        · simp at hs; subst hs
          unfold rcancel; split <;> own_close
      · simp at hs
  | env e =>
    cases e <;> simp only [lts, step, stepCore] at hs <;> simp at hs <;> subst hs
    all_goals own_close

theorem owninv_reach (n g : Nat) (s : State) (h : Reach lts (init n g) s) : OwnInv s :=
  Reach.inv OwnInv (owninv_init n g) owninv_step s h

/-- The end of a reader's parent context changes nothing for any grace goroutine: its three select
cases (timer, `closeCh`, `doneCh`) and its `rcancel()` read `graces`, `now`, `grace`, `closed`,
`live` only. -/
theorem grace_step_ignores_parent (s : State) (t i alt : Nat) :
    ((stepCore { s with parentDone := upd s.parentDone t true } (.sys (i + 2) alt)).isSome) =
      ((stepCore s (.sys (i + 2) alt)).isSome) := by
  simp only [stepCore]
  cases hg : s.graces i with
  | none => simp
  | some g =>
    cases hw : g.woke with
    | some why => simp [hw]
    | none =>
      simp only [hw]
      by_cases h0 : alt = 0
      · subst h0; simp; split <;> simp
      · by_cases h1 : alt = 1
        · subst h1; simp; split <;> simp
        · simp [h0, h1]; split <;> simp

/-- … nor for the writer section and the `wg.Wait()` of the handler: the handler reads `parentDone`
only before it has the slot, and only for a READER hold. -/
theorem writer_section_ignores_parent (s : State) (t w gw alt : Nat)
    (hh : s.hpc = .slot w gw true ∨ s.hpc = .wait w gw) :
    ((stepCore { s with parentDone := upd s.parentDone t true } (.sys 0 alt)).isSome) =
      ((stepCore s (.sys 0 alt)).isSome) := by
  rcases hh with hh | hh
  · simp [stepCore, hh]
  · simp only [stepCore, hh]
    split <;> simp_all [noLive]

end Kit.Locks.OuterCancel
